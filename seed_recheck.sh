#!/bin/bash
# usage: seed_recheck.sh [ids…] — re-runs the quick check of each seeded change's property on the change
# (git -C /repo apply, run, git -C /repo checkout -- .) and records the result in its meta.json
cd /verif
IDS="$@"; [ -z "$IDS" ] && IDS=$(ls seeded | grep -E '^C[0-9]+')
for id in $IDS; do
  P=${id:0:3}
  git -C /repo apply /verif/seeded/$id/patch.diff || { echo "$id: patch does not apply"; continue; }
  OUT=$(timeout 1500 /venv/bin/python harness/run.py quick $P 2>&1 | grep -E "VIOLATION|KNOWN|quick seed" | head -4)
  git -C /repo checkout -- .
  R="–"; echo "$OUT" | grep -q "no-failing-input-found" && R="N"; echo "$OUT" | grep "VIOLATION" | grep -qv "no-failing-input-found" && R="F"
  echo "$id $R"
  python3 - "$id" "$R" "$OUT" <<'PY'
import json,sys
pid,r,out=sys.argv[1:4]
p='/verif/seeded/%s/meta.json'%pid
try: m=json.load(open(p))
except Exception: m={"property":pid[:3]}
m["latest_quick_result"]=r; m["latest_quick_output"]=out
json.dump(m,open(p,'w'),indent=1)
PY
done
/venv/bin/python harness/extract.py > /dev/null
