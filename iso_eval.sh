#!/bin/bash
# usage: iso_eval.sh <patch.diff> <prop>...
# Runs the quick checks of the given properties on a patched copy of pams WITHOUT touching /repo or /verif's
# build: a scratch worktree of /repo (removed afterwards) gets the patch, a copy of /verif under /tmp/verif_iso
# runs the checks with PAMS_REPO pointing at the worktree.  For development only (registered checks always run
# in /verif against /repo).
PATCH=$(readlink -f "$1"); shift
WT=/tmp/wt_iso_$$
git -C /repo worktree add --detach -q $WT HEAD || exit 3
( cd $WT && git apply "$PATCH" ) || { git -C /repo worktree remove --force $WT; echo "patch does not apply"; exit 3; }
mkdir -p /tmp/verif_iso
rsync -a --delete /verif/ /tmp/verif_iso/ --exclude .git --exclude replays
for prop in "$@"; do
  ( cd /tmp/verif_iso && PAMS_REPO=$WT timeout 1500 /venv/bin/python harness/run.py quick $prop 2>&1 | grep -E "VIOLATION|KNOWN|quick seed" | head -6 )
done
git -C /repo worktree remove --force $WT
