#!/bin/bash
# usage: seed_recheck_iso.sh <outfile> [ids…]
# Re-runs the quick check of each seeded change's property on the change, without touching /repo: a scratch
# worktree of /repo gets the patch and the checks of THIS directory run with PAMS_REPO pointing at it
# (equivalent to git -C /repo apply / checkout).  Meant for `vp run` (a snapshot of /verif): builds lean first.
OUT=$1; shift
HERE=$(cd "$(dirname "$0")" && pwd)
cd $HERE
/venv/bin/python harness/extract.py > /dev/null && (cd lean && lake build > /dev/null 2>&1)
IDS="$@"; [ -z "$IDS" ] && IDS=$(ls seeded | grep -E '^C[0-9]+')
: > $OUT
for id in $IDS; do
  P=${id:0:3}
  WT=/tmp/wt_recheck_$$
  git -C /repo worktree add --detach -q $WT HEAD || { echo "$id worktree-failed" >> $OUT; continue; }
  if ! ( cd $WT && git apply $HERE/seeded/$id/patch.diff ) 2>/dev/null; then
    echo "$id patch-does-not-apply" >> $OUT
    git -C /repo worktree remove --force $WT
    continue
  fi
  RES=$(PAMS_REPO=$WT timeout 1500 /venv/bin/python harness/run.py quick $P 2>&1 | grep -E "VIOLATION|KNOWN|quick seed" | head -4)
  git -C /repo worktree remove --force $WT
  R="-"; echo "$RES" | grep -q "no-failing-input-found" && R="N"; echo "$RES" | grep "VIOLATION" | grep -qv "no-failing-input-found" && R="F"
  echo "$id $R $(echo "$RES" | tail -1)" >> $OUT
done
# the unchanged tree must be quiet afterwards
/venv/bin/python harness/extract.py > /dev/null
echo "done" >> $OUT
