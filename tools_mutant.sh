#!/bin/bash
# usage: tools_mutant.sh <patch> <prop>...   applies a patch to /repo, runs the quick checks, reverts
P=$1; shift
cd /repo && git apply "$P" || exit 3
for prop in "$@"; do
  (cd /verif && timeout 1200 /venv/bin/python harness/run.py quick $prop 2>&1 | tail -4; echo "exit=${PIPESTATUS[0]}")
done
cd /repo && git checkout -- . && git status --short
