#!/bin/bash
# usage: seed_eval.sh <Cxx> [suffix] [extra props...]  — verifies a seeded change from /tmp/wt_<Cxx><suffix>/_seed and runs the checks on it
P=$1; SUF=${2:-}; shift; shift
WT=/tmp/wt_$P$SUF
D=/verif/seeded/$P$SUF
mkdir -p $D
cp $WT/_seed/patch.diff $WT/_seed/demo.py $D/ 2>/dev/null
cp $WT/_seed/notes.md $D/ 2>/dev/null
cd $WT
PYTHONPATH=$WT /venv/bin/python _seed/demo.py > $D/demo_with_change.out 2>&1; A=$?
git stash -q
PYTHONPATH=$WT /venv/bin/python _seed/demo.py > $D/demo_without_change.out 2>&1; B=$?
git stash pop -q
T=$(PYTHONPATH=$WT /venv/bin/python -m pytest -q -p no:cacheprovider --timeout=900 tests/pams 2>&1 | tail -1)
echo "demo with change exit=$A, without exit=$B; tests: $T"
cd /repo && git apply $D/patch.diff || { echo "patch does not apply to /repo"; exit 3; }
RES=""
for prop in $P "$@"; do
  OUT=$(cd /verif && timeout 1500 /venv/bin/python harness/run.py quick $prop 2>&1 | grep -E "VIOLATION|KNOWN|quick seed" | head -6)
  echo "$OUT"
  RES="$RES\n[$prop]\n$OUT"
done
cd /repo && git checkout -- . && git status --short
cd /verif && /venv/bin/python harness/extract.py > /dev/null
python3 - "$P$SUF" "$A" "$B" "$T" "$RES" <<'PY'
import json,sys
pid,a,b,t,res=sys.argv[1:6]
meta={"property":pid[:3],"demo_exit_with_change":int(a),"demo_exit_without_change":int(b),"existing_tests":t,
      "checks_run":res.replace("\\n","\n"),"what_i_ran":"seed_eval.sh: demo.py in the scratch worktree with and without the change, pytest tests/pams there, then git -C /repo apply patch.diff, harness/run.py quick <prop>, git -C /repo checkout -- ."}
try:
    meta["needs_to_manifest"]=open('/verif/seeded/%s/notes.md'%pid).read()[:1500]
except Exception: pass
json.dump(meta,open('/verif/seeded/%s/meta.json'%pid,'w'),indent=1)
PY
