/-
Model of event-hook registration and dispatch: `Simulator._add_event` and the nine
`Simulator._trigger_event_*` (`pams/simulator.py`), `EventHook` (`pams/events/base.py`).
-/
namespace Pams.Hooks

inductive Kind where
  | orderBefore | orderAfter | cancelBefore | cancelAfter | executionAfter
  | sessionBefore | sessionAfter | marketBefore | marketAfter
deriving Repr, DecidableEq

/-- `specific_class`: any `Market`, or `IndexMarket` only -/
inductive ClassReq where
  | market | index
deriving Repr, DecidableEq

structure Hook where
  /-- identity of the hook object -/
  id : Nat
  /-- the event whose handler the hook calls -/
  event : Nat
  kind : Kind
  times : Option (List Int)
  cls : Option ClassReq
  inst : Option Nat
deriving Repr, DecidableEq

/-- the registered hooks in registration order (`Simulator.event_hooks`); the buckets
`events_dict[kind][time]` are derived from it -/
abbrev Table := List Hook

/-- `_add_event`: a hook object can be registered once -/
def register (tbl : Table) (h : Hook) : Option Table :=
  if tbl.any (fun x => x.id = h.id) then none else some (tbl ++ [h])

/-- the keys under which `_add_event` files a hook: `None` without a time list, else each
*distinct* time of the list once -/
def keysOf (h : Hook) : List (Option Int) :=
  match h.times with
  | none => [none]
  | some ts => ts.eraseDups.map some

/-- `events_dict[kind][key]` -/
def bucket (tbl : Table) (kind : Kind) (key : Option Int) : List Hook :=
  tbl.filter (fun h => h.kind = kind && (keysOf h).contains key)

/-- `_check_event_class_and_instance` for a market given as (id, is an IndexMarket) -/
def filterOK (h : Hook) (market : Option (Nat × Bool)) : Bool :=
  match market with
  | none => true
  | some (mid, isIndex) =>
    (match h.cls with
     | none => true
     | some .market => true
     | some .index => isIndex) &&
    (match h.inst with
     | none => true
     | some i => i = mid)

/-- the hooks invoked for one occurrence, in invocation order: first the always-hooks, then the
hooks registered for this time.  `market` is given for market-step occurrences only. -/
def dispatch (tbl : Table) (kind : Kind) (time : Int) (market : Option (Nat × Bool)) : List Hook :=
  ((bucket tbl kind none) ++ (bucket tbl kind (some time))).filter (fun h => filterOK h market)

end Pams.Hooks
