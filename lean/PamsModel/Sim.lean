/-
Closed-loop model of a whole simulation: the scheduler of `Runner.lean` with the markets no longer
oracles but the market model of `Market.lean`.  What stays input (the tape): the sessions, the
permutations and uniform draws, what every agent hands over when consulted (the orders as the
market receives them, i.e. after the before-hooks ran), the fundamental price each market records
at each clock step, and what event handlers did to the execution switches (`market._is_running`,
`session.with_order_execution`) at the two hook sites where the built-in `TradingHaltRule` acts.

Everything else is computed: which requests are accepted, which rounds run, every fill with its
price, every expiry, every per-step series of every market, and the trace of scheduler actions in
the alphabet of `Runner.Ev`.

`processRequest` *is* `Runner.processRequest` applied to the request resolved against the current
market state, so every statement about the scheduler's treatment of one request transfers.
-/
import PamsModel.History
import PamsModel.Runner

namespace Pams.Sim
open Pams Pams.Runner

variable {P : Type} [LinearOrder P]

/-- what the handlers of one hook dispatch did to the execution switches -/
structure Fx where
  /-- the session flag was switched (off by an after-execution handler, on by a before-step one) -/
  flag : Bool
  /-- writes to `market._is_running`, in order -/
  running : List (Nat × Bool)
deriving Repr

def Fx.none : Fx := { flag := false, running := [] }

/-- what the before-step handlers of one market's dispatch did: the switches, and rewrites of the
*current* fundamental price of markets (`Market.change_fundamental_price`, used by
`FundamentalPriceShock`) -/
structure StepFx (P : Type) where
  flag : Bool
  running : List (Nat × Bool)
  fund : List (Nat × Option P)

def StepFx.none : StepFx P := { flag := false, running := [], fund := [] }

/-- one request as the runner receives it -/
structure SReq (P : Type) where
  owner : Nat
  market : Nat
  isCancel : Bool
  ref : Nat
  /-- `order.market_id == market.market_id` -/
  marketOk : Bool
  /-- the order object already carries `placed_at` / `order_id` -/
  stamped : Bool
  /-- the order as `_add_order` receives it -/
  req : Req P
  /-- id of the accepted order a cancel refers to -/
  cancelId : Nat
  /-- effects of the after-execution handlers for the i-th fill of the round following this request -/
  fx : Nat → Fx

structure State (P : Type) where
  mkt : Nat → Market P
  /-- number of fills so far (names the fills in the trace) -/
  nfill : Nat

def setMk (f : Nat → Market P) (m : Nat) (v : Market P) : Nat → Market P :=
  fun k => if k = m then v else f k

def setRunnings (f : Nat → Market P) : List (Nat × Bool) → Nat → Market P
  | [] => f
  | (m, b) :: rest => setRunnings (setMk f m { f m with running := b }) rest

def setFunds (f : Nat → Market P) : List (Nat × Option P) → Nat → Market P
  | [] => f
  | (m, v) :: rest => setFunds (setMk f m { f m with cur := { (f m).cur with fund := v } }) rest

/-- market records tagged with the market they belong to, in write order -/
abbrev MRec (P : Type) := Nat × Rec P

/-- market operations tagged with the market, in the order performed -/
abbrev MOp (P : Type) := Nat × Op P

structure SOut (P : Type) where
  st : State P
  out : Out
  recs : List (MRec P)
  ops : List (MOp P)

/-- the market call of one request: `_add_order` / `_cancel_order`; `none` = it raised -/
def marketCall (po : Nat → PriceOps P) (s : State P) (q : SReq P) :
    Option (State P × List (MRec P) × List (MOp P)) :=
  if q.isCancel then
    if !q.marketOk then none
    else
      match (s.mkt q.market).cancel (po q.market) q.cancelId with
      | .ok (m', l) => some ({ s with mkt := setMk s.mkt q.market m' }, [(q.market, Rec.cancel l)],
                             [(q.market, Op.cancel q.cancelId)])
      | .error _ => none
  else
    match (s.mkt q.market).submit (po q.market) q.marketOk q.stamped q.req with
    | .ok (m', l) => some ({ s with mkt := setMk s.mkt q.market m' }, [(q.market, Rec.order l)],
                           [(q.market, Op.add q.req)])
    | .error _ => none

def rfills (q : SReq P) (base : Nat) : Nat → List (Fill P) → List RFill
  | _, [] => []
  | i, f :: fs => { buyer := f.buyAgent, seller := f.sellAgent, ref := base + i, halts := (q.fx i).flag }
      :: rfills q base (i + 1) fs

def fxOps (q : SReq P) : Nat → Nat → List (Nat × Bool)
  | _, 0 => []
  | i, n + 1 => (q.fx i).running ++ fxOps q (i + 1) n

/-- `_execution()` on the request's market and the running-switch writes of the after-execution
handlers; `none` = it raised -/
def roundCall (po : Nat → PriceOps P) (s : State P) (q : SReq P) :
    Option (State P × List RFill × List (MRec P) × List (MOp P)) :=
  match (s.mkt q.market).execution (po q.market) with
  | .error _ => none
  | .ok (m', fs) =>
    let w := fxOps q 0 fs.length
    some ({ mkt := setRunnings (setMk s.mkt q.market m') w, nfill := s.nfill + fs.length },
          rfills q s.nfill 0 fs, fs.map (fun f => (q.market, Rec.fill f)),
          (q.market, Op.exec) :: w.map (fun x => (x.1, Op.setRunning x.2)))

def baseRequest (q : SReq P) (accepted : Bool) (fills : Option (List RFill)) : Request :=
  { owner := q.owner, market := q.market, isCancel := q.isCancel, ref := q.ref,
    accepted := accepted, fills := fills }

/-- the request with the market's answers, the state afterwards, the records written -/
def resolve (po : Nat → PriceOps P) (s : State P) (flag : Bool) (q : SReq P) :
    State P × Request × List (MRec P) × List (MOp P) :=
  match marketCall po s q with
  | none => (s, baseRequest q false none, [], [])
  | some (s1, r1, o1) =>
    if flag then
      match roundCall po s1 q with
      | none => (s1, baseRequest q true none, r1, o1)
      | some (s2, rf, r2, o2) => (s2, baseRequest q true (some rf), r1 ++ r2, o1 ++ o2)
    else (s1, baseRequest q true none, r1, o1)

def processRequest (po : Nat → PriceOps P) (t : Nat) (s : State P) (flag : Bool) (q : SReq P) : SOut P :=
  let r := resolve po s flag q
  { st := r.1, out := Runner.processRequest t flag r.2.1, recs := r.2.2.1, ops := r.2.2.2 }

def SOut.andThen (a : SOut P) (f : State P → Bool → SOut P) : SOut P :=
  if a.out.ok then
    let b := f a.st a.out.flag
    { st := b.st, out := { tr := a.out.tr ++ b.out.tr, ok := b.out.ok, flag := b.out.flag },
      recs := a.recs ++ b.recs, ops := a.ops ++ b.ops }
  else a

def SOut.pure (s : State P) (flag : Bool) : SOut P :=
  { st := s, out := { tr := [], ok := true, flag := flag }, recs := [], ops := [] }

def SOut.consTr (e : Ev) (a : SOut P) : SOut P := { a with out := { a.out with tr := e :: a.out.tr } }
def SOut.prependTr (a : SOut P) (l : List Ev) : SOut P := { a with out := { a.out with tr := l ++ a.out.tr } }

def processBatch (po : Nat → PriceOps P) (t : Nat) : State P → Bool → List (SReq P) → SOut P
  | s, flag, [] => SOut.pure s flag
  | s, flag, q :: qs => (processRequest po t s flag q).andThen (fun s' fl => processBatch po t s' fl qs)

/-- `_collect_orders_from_normal_agents` (no market is touched) -/
def collect (hft : Bool) (cap : Int) (answer : Nat → List (SReq P)) :
    List Nat → Nat → List Ev × Bool × List (Nat × List (SReq P))
  | [], _ => ([], true, [])
  | a :: as, n =>
    if (n : Int) ≥ cap then ([], true, [])
    else
      let batch := answer a
      if batch.isEmpty then
        let r := collect hft cap answer as n
        (Ev.consult a hft :: r.1, r.2.1, r.2.2)
      else if batch.any (fun q => q.owner ≠ a) then
        ([Ev.consult a hft, Ev.abort], false, [])
      else
        let r := collect hft cap answer as (n + 1)
        (Ev.consult a hft :: r.1, r.2.1, (a, batch) :: r.2.2)

def hftRound (po : Nat → PriceOps P) (t : Nat) (cap : Int) (answer : Nat → List (SReq P)) :
    List Nat → Nat → State P → Bool → SOut P
  | [], _, s, flag => SOut.pure s flag
  | a :: as, n, s, flag =>
    if (n : Int) ≥ cap then SOut.pure s flag
    else
      let batch := answer a
      if batch.isEmpty then (hftRound po t cap answer as n s flag).consTr (Ev.consult a true)
      else if batch.any (fun q => q.owner ≠ a) then
        { st := s, out := { tr := [Ev.consult a true, Ev.abort], ok := false, flag := flag },
          recs := [], ops := [] }
      else
        ((processBatch po t s flag batch).andThen
          (fun s' fl => hftRound po t cap answer as (n + 1) s' fl)).consTr (Ev.consult a true)

structure RoundTape (P : Type) where
  go : Bool
  perm : List Nat
  answer : Nat → List (SReq P)

def RoundTape.none : RoundTape P := { go := false, perm := [], answer := fun _ => [] }

def handle (po : Nat → PriceOps P) (t : Nat) (maxHft : Int) :
    List (Nat × List (SReq P)) → List (RoundTape P) → State P → Bool → SOut P
  | [], _, s, flag => SOut.pure s flag
  | (_, batch) :: bs, rts, s, flag =>
    let rt : RoundTape P := rts.headD RoundTape.none
    (processBatch po t s flag batch).andThen (fun s1 fl =>
      (if rt.go then hftRound po t maxHft rt.answer rt.perm 0 s1 fl else SOut.pure s1 fl).andThen
        (fun s2 fl2 => handle po t maxHft bs rts.tail s2 fl2))

structure StepTape (P : Type) where
  /-- per market: what the before-step handlers did (flag = switched the session flag on) -/
  resume : Nat → StepFx P
  perm : List Nat
  answer : Nat → List (SReq P)
  shuffle : List Nat
  rounds : List (RoundTape P)
  /-- the fundamental price each market records at the clock step ending this step -/
  fund : Nat → Option P

def StepTape.none : StepTape P :=
  { resume := fun _ => StepFx.none, perm := [], answer := fun _ => [], shuffle := [], rounds := [],
    fund := fun _ => Option.none }

/-- before-step hooks and begin records, market by market -/
def stepBefore (t : Nat) (resume : Nat → StepFx P) :
    Markets → (Nat → Market P) → Bool → List Ev × (Nat → Market P) × Bool × List (MOp P)
  | [], f, flag => ([], f, flag, [])
  | m :: ms, f, flag =>
    let w := (resume m.1).running
    let fw := (resume m.1).fund
    let r := stepBefore t resume ms (setFunds (setRunnings f w) fw) (if (resume m.1).flag then true else flag)
    (Ev.hookStepBefore m.1 t :: Ev.stepBegin m.1 t :: r.1, r.2.1, r.2.2.1,
      w.map (fun x => (x.1, Op.setRunning x.2)) ++ fw.map (fun x => (x.1, Op.setFund x.2)) ++ r.2.2.2)

/-- `_update_times_on_markets`: every market's `_update_time`, non-index markets first -/
def tickAll (po : Nat → PriceOps P) (fund : Nat → Option P) :
    List Nat → (Nat → Market P) → (Nat → Market P) × List (MRec P) × List (MOp P)
  | [], f => (f, [], [])
  | m :: ms, f =>
    let r := (f m).tick (po m) (fund m)
    let rest := tickAll po fund ms (setMk f m r.1)
    (rest.1, r.2.map (fun l => (m, Rec.expiry l)) ++ rest.2.1, (m, Op.tick (fund m)) :: rest.2.2)

def tickOrder (ms : Markets) : List Nat :=
  (ms.filter (fun m => !m.2)).map (·.1) ++ (ms.filter (fun m => m.2)).map (·.1)

/-- order placement of one step, from the state the before-step hooks left -/
def stepBody (po : Nat → PriceOps P) (cfg : SessionCfg) (t : Nat) (s0 : State P) (flag0 : Bool)
    (tape : StepTape P) : SOut P :=
  if cfg.placement then
    let c := collect false cfg.maxNormal tape.answer tape.perm 0
    if c.2.1 then
      (handle po t cfg.maxHft (applyShuffle tape.shuffle c.2.2) tape.rounds s0 flag0).prependTr c.1
    else { st := s0, out := { tr := c.1, ok := false, flag := flag0 }, recs := [], ops := [] }
  else SOut.pure s0 flag0

def runStep (po : Nat → PriceOps P) (ms : Markets) (cfg : SessionCfg) (t : Nat) (s : State P) (flag : Bool)
    (tape : StepTape P) : SOut P :=
  let b := stepBefore t tape.resume ms s.mkt flag
  let body := stepBody po cfg t { s with mkt := b.2.1 } b.2.2.1 tape
  if body.out.ok then
    let tk := tickAll po tape.fund (tickOrder ms) body.st.mkt
    { st := { body.st with mkt := tk.1 },
      out := { tr := b.1 ++ body.out.tr ++ stepAfter t ms ++ ticks ms, ok := true, flag := body.out.flag },
      recs := body.recs ++ tk.2.1, ops := b.2.2.2 ++ body.ops ++ tk.2.2 }
  else { body with out := { body.out with tr := b.1 ++ body.out.tr }, ops := b.2.2.2 ++ body.ops }

def runSteps (po : Nat → PriceOps P) (ms : Markets) (cfg : SessionCfg) :
    Nat → State P → Bool → List (StepTape P) → Nat → SOut P
  | _, s, flag, _, 0 => SOut.pure s flag
  | t, s, flag, tapes, n + 1 =>
    (runStep po ms cfg t s flag (tapes.headD StepTape.none)).andThen
      (fun s' fl => runSteps po ms cfg (t + 1) s' fl tapes.tail n)

def runSession (po : Nat → PriceOps P) (ms : Markets) (k : Nat) (cfg : SessionCfg) (start : Nat)
    (s : State P) (tapes : List (StepTape P)) : SOut P :=
  let head : List Ev := [Ev.hookSessionBefore k start, Ev.sessionBegin k, Ev.flush]
    ++ ms.map (fun m => Ev.setRunning m.1 cfg.execution)
  let w := ms.map (fun m => (m.1, cfg.execution))
  let s0 : State P := { s with mkt := setRunnings s.mkt w }
  let body := runSteps po ms cfg start s0 cfg.execution tapes cfg.steps
  let ops0 : List (MOp P) := w.map (fun x => (x.1, Op.setRunning x.2))
  if body.out.ok then
    { body with
      out := { tr := head ++ body.out.tr ++ [Ev.hookSessionAfter k (((start + cfg.steps : Nat) : Int) - 1), Ev.sessionEnd k, Ev.flush],
               ok := true, flag := body.out.flag },
      ops := ops0 ++ body.ops }
  else { body with out := { body.out with tr := head ++ body.out.tr }, ops := ops0 ++ body.ops }

def runSessions (po : Nat → PriceOps P) (ms : Markets) :
    Nat → Nat → State P → List SessionCfg → List (List (StepTape P)) → SOut P
  | _, _, s, [], _ => SOut.pure s false
  | k, start, s, cfg :: cfgs, tapes =>
    (runSession po ms k cfg start s (tapes.headD [])).andThen
      (fun s' _ => runSessions po ms (k + 1) (start + cfg.steps) s' cfgs tapes.tail)

/-- the state after `setup` and the first clock step (−1 → 0) -/
def initState (po : Nat → PriceOps P) (price : Nat → P) (fund0 : Nat → Option P) : State P :=
  { mkt := fun m => Market.init (po m) (price m) (fund0 m), nfill := 0 }

/-- `SequentialRunner._run` on the market model -/
def run (po : Nat → PriceOps P) (ms : Markets) (price : Nat → P) (fund0 : Nat → Option P)
    (cfgs : List SessionCfg) (tapes : List (List (StepTape P))) : SOut P :=
  let r := runSessions po ms 0 0 (initState po price fund0) cfgs tapes
  { r with out := { r.out with
      tr := [Ev.simBegin, Ev.flush] ++ ticks ms ++ r.out.tr ++ (if r.out.ok then [Ev.simEnd, Ev.flush] else []) } }

end Pams.Sim
