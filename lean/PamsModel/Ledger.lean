/-
Model of `Simulator._update_agents_for_execution`: holdings are cash (any additive commutative
group: ℚ, ℝ, or — for the driver — doubles with Python's `-=`/`+=`) and per-market share counts
(integers).  Each fill is applied in order: buyer cash -= price·volume, seller cash += price·volume,
buyer shares += volume, seller shares -= volume (sequentially, so a self-trade nets to zero).
-/
namespace Pams.Ledger

structure LFill (R : Type) where
  buyer : Nat
  seller : Nat
  market : Nat
  /-- `price * volume` as computed -/
  amount : R
  vol : Nat

structure Book (R : Type) where
  cash : Nat → R
  shares : Nat → Nat → Int      -- agent → market → position

variable {R : Type}

def setCash (c : Nat → R) (a : Nat) (v : R) : Nat → R := fun x => if x = a then v else c x
def setShares (s : Nat → Nat → Int) (a m : Nat) (v : Int) : Nat → Nat → Int :=
  fun x y => if x = a ∧ y = m then v else s x y

/-- one fill, with `sub`/`add` the cash arithmetic -/
def applyFill (sub add : R → R → R) (b : Book R) (f : LFill R) : Book R :=
  let c1 := setCash b.cash f.buyer (sub (b.cash f.buyer) f.amount)
  let c2 := setCash c1 f.seller (add (c1 f.seller) f.amount)
  let s1 := setShares b.shares f.buyer f.market (b.shares f.buyer f.market + f.vol)
  let s2 := setShares s1 f.seller f.market (s1 f.seller f.market - f.vol)
  { cash := c2, shares := s2 }

def applyFills (sub add : R → R → R) (b : Book R) (fs : List (LFill R)) : Book R :=
  fs.foldl (applyFill sub add) b

end Pams.Ledger
