/-
Models of the built-in agents' order formulas (`pams/agents/fcn_agent.py`,
`market_maker_agent.py`, `arbitrage_agent.py`), written once over an arithmetic signature with
`exp`/`log` and instantiated at ℝ (theorems) and `Float` (driver).
-/
import PamsModel.Arith

namespace Pams

class ArithT (K : Type) extends Arith K where
  exp : K → K
  log : K → K

instance : ArithT Float where
  exp := Float.exp
  log := Float.log

namespace Agents
variable {K : Type} [ArithT K]

/-- one emitted limit order: side, price, volume, time-to-live -/
structure AOrder (K : Type) where
  isBuy : Bool
  price : K
  vol : Nat
  ttl : Nat

/-- FCN agent: `expected_log_return` -/
def fcnLogReturn (mp fund mpPast wf wc wn noise : K) (tw mrt : Nat) (chartFollowing : Bool) : K :=
  let fScale : K := Arith.one / Arith.ofNat (Nat.max mrt 1)
  let f : K := fScale * ArithT.log (fund / mp)
  let cScale : K := Arith.one / Arith.ofNat (Nat.max tw 1)
  let c : K := cScale * ArithT.log (mp / mpPast)
  Arith.one / (wf + wc + wn) * (wf * f + (if chartFollowing then wc * c else -(wc * c)) + wn * noise)

/-- FCN agent: `expected_future_price` -/
def fcnExpected (mp elr : K) (window : Nat) : K := mp * ArithT.exp (elr * Arith.ofNat window)

/-- FCN agent, fixed-margin mode: the orders emitted for one market -/
def fcnOrders (mp expected margin : K) (window : Nat) : List (AOrder K) :=
  (if mp < expected then [{ isBuy := true, price := expected * (Arith.one - margin), vol := 1, ttl := window }] else []) ++
  (if expected < mp then [{ isBuy := false, price := expected * (Arith.one + margin), vol := 1, ttl := window }] else [])

/-- market maker: the two quotes around the base price -/
def mmOrders (base fund spread half : K) (ttl : Nat) : List (AOrder K) :=
  let m : K := fund * spread * half
  [{ isBuy := true, price := base - m, vol := 1, ttl := ttl },
   { isBuy := false, price := base + m, vol := 1, ttl := ttl }]

/-- market maker: base price from the best quotes of the accessible markets -/
def mmBase (maxBuy minSell : Option K) (marketPrice two : K) : K :=
  match maxBuy, minSell with
  | some b, some s => (b + s) / two
  | _, _ => marketPrice

/-- arbitrage agent: side of the index order (`some true` = buy the index, sell the components),
or `none` when the gap does not exceed the threshold -/
def arbSide (indexPrice index threshold : K) : Option Bool :=
  if indexPrice < index ∧ threshold < index - indexPrice then some true
  else if index < indexPrice ∧ threshold < indexPrice - index then some false
  else none

/-- arbitrage agent: the hedged basket as (market, order) pairs -/
def arbOrders (side : Option Bool) (indexMarket : Nat) (indexPrice : K) (comps : List (Nat × K))
    (v ttl : Nat) : List (Nat × AOrder K) :=
  match side with
  | none => []
  | some buyIndex =>
    (indexMarket, { isBuy := buyIndex, price := indexPrice, vol := comps.length * v, ttl := ttl }) ::
      comps.map (fun c => (c.1, { isBuy := !buyIndex, price := c.2, vol := v, ttl := ttl }))

end Agents
end Pams
