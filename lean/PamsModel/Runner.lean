/-
Model of the scheduler: `SequentialRunner._run / _iterate_market_updates / _update_markets /
_collect_orders_from_normal_agents / _handle_orders` (`pams/runners/sequential.py`) together with
the hook dispatch sites and `Simulator._update_times_on_markets`.

Markets, agents, user events and every random draw are *oracles*: what they answer is input (the
tape).  The model's output is the trace of externally visible actions.  The theorems quantify over
all tapes, so they hold for every agent program, every seed and every market behaviour.

The only state the scheduler itself carries is the current session's execution flag
(`session.with_order_execution`), which the built-in `TradingHaltRule` switches from inside hook
handlers; the tape says at which hook dispatches a handler switched it.
-/
namespace Pams.Runner

/-- one fill as the runner sees it -/
structure RFill where
  buyer : Nat
  seller : Nat
  ref : Nat
  /-- some handler of the after-execution dispatch for this fill switched the session's execution
  flag off (trading halt) -/
  halts : Bool
deriving Repr, DecidableEq

/-- one request (order or cancel) of a batch, with the market's answers -/
structure Request where
  /-- `order.agent_id` / `cancel.order.agent_id` -/
  owner : Nat
  market : Nat
  isCancel : Bool
  ref : Nat
  /-- the market accepted it (`_add_order` / `_cancel_order` returned a log) -/
  accepted : Bool
  /-- what `market._execution()` returns if it is called after this request (`none`: it raises) -/
  fills : Option (List RFill)
deriving Repr, DecidableEq

inductive Ev where
  | simBegin | simEnd | flush
  | sessionBegin (k : Nat) | sessionEnd (k : Nat)
  | hookSessionBefore (k time : Nat) | hookSessionAfter (k : Nat) (time : Int)
  | setRunning (m : Nat) (b : Bool)
  | hookStepBefore (m t : Nat) | stepBegin (m t : Nat) | stepEnd (m t : Nat) | hookStepAfter (m t : Nat)
  | consult (a : Nat) (hft : Bool)
  | hookOrderBefore (ref t : Nat) | addOrder (m ref : Nat) | cbSubmitted (a ref : Nat) | hookOrderAfter (ref t : Nat)
  | hookCancelBefore (ref t : Nat) | cancel (m ref : Nat) | cbCanceled (a ref : Nat) | hookCancelAfter (ref t : Nat)
  | execution (m : Nat) | ledger (refs : List Nat)
  | cbExecuted (a ref : Nat) | hookExecAfter (ref t : Nat)
  | tick (m : Nat)
  | abort
deriving Repr, DecidableEq

/-- a trace fragment together with "still running" and the execution flag afterwards -/
structure Out where
  tr : List Ev
  ok : Bool
  flag : Bool
deriving Repr

/-- sequencing that stops at an abort -/
def Out.andThen (a : Out) (f : Bool → Out) : Out :=
  if a.ok then
    let b := f a.flag
    { tr := a.tr ++ b.tr, ok := b.ok, flag := b.flag }
  else a

/-- the after-`_execution` part of one request: ledger for the whole round, then per fill buyer
callback, seller callback, after-execution dispatch -/
def fillEvents (t : Nat) : List RFill → List Ev
  | [] => []
  | f :: fs => [Ev.cbExecuted f.buyer f.ref, Ev.cbExecuted f.seller f.ref, Ev.hookExecAfter f.ref t]
      ++ fillEvents t fs

def flagAfterFills (flag : Bool) : List RFill → Bool
  | [] => flag
  | f :: fs => flagAfterFills (if f.halts then false else flag) fs

/-- processing of one request (the body of the `for order in orders` loops) -/
def processRequest (t : Nat) (flag : Bool) (r : Request) : Out :=
  let pre : List Ev :=
    if r.isCancel then [Ev.hookCancelBefore r.ref t, Ev.cancel r.market r.ref]
    else [Ev.hookOrderBefore r.ref t, Ev.addOrder r.market r.ref]
  if !r.accepted then { tr := pre ++ [Ev.abort], ok := false, flag := flag }
  else
    let post : List Ev :=
      if r.isCancel then [Ev.cbCanceled r.owner r.ref, Ev.hookCancelAfter r.ref t]
      else [Ev.cbSubmitted r.owner r.ref, Ev.hookOrderAfter r.ref t]
    if flag then
      match r.fills with
      | none => { tr := pre ++ post ++ [Ev.execution r.market, Ev.abort], ok := false, flag := flag }
      | some fs =>
        { tr := pre ++ post ++ [Ev.execution r.market, Ev.ledger (fs.map (·.ref))] ++ fillEvents t fs,
          ok := true, flag := flagAfterFills flag fs }
    else { tr := pre ++ post, ok := true, flag := flag }

def processBatch (t : Nat) (flag : Bool) : List Request → Out
  | [] => { tr := [], ok := true, flag := flag }
  | r :: rs => (processRequest t flag r).andThen (fun fl => processBatch t fl rs)

/-- consult agents along a permutation until `cap` of them have produced a non-empty batch.
Returns the trace, whether all batches passed the owner check, and the collected batches.
(`n_orders >= cap` is tested before each consultation; caps are arbitrary integers.) -/
def collect (hft : Bool) (cap : Int) (answer : Nat → List Request) :
    List Nat → Nat → List Ev × Bool × List (Nat × List Request)
  | [], _ => ([], true, [])
  | a :: as, n =>
    if (n : Int) ≥ cap then ([], true, [])
    else
      let batch := answer a
      if batch.isEmpty then
        let r := collect hft cap answer as n
        (Ev.consult a hft :: r.1, r.2.1, r.2.2)
      else if batch.any (fun q => q.owner ≠ a) then
        ([Ev.consult a hft, Ev.abort], false, [])
      else
        let r := collect hft cap answer as (n + 1)
        (Ev.consult a hft :: r.1, r.2.1, (a, batch) :: r.2.2)

/-- the high-frequency part after one normal batch: HFT agents are consulted one at a time and each
non-empty batch is processed at once -/
def hftRound (t : Nat) (cap : Int) (answer : Nat → List Request) :
    List Nat → Nat → Bool → Out
  | [], _, flag => { tr := [], ok := true, flag := flag }
  | a :: as, n, flag =>
    if (n : Int) ≥ cap then { tr := [], ok := true, flag := flag }
    else
      let batch := answer a
      if batch.isEmpty then
        let r := hftRound t cap answer as n flag
        { r with tr := Ev.consult a true :: r.tr }
      else if batch.any (fun q => q.owner ≠ a) then
        { tr := [Ev.consult a true, Ev.abort], ok := false, flag := flag }
      else
        let p := processBatch t flag batch
        let r := p.andThen (fun fl => hftRound t cap answer as (n + 1) fl)
        { r with tr := Ev.consult a true :: r.tr }

/-- the random draws and agent answers of one HFT round -/
structure RoundTape where
  /-- `not (rate < prng.random())` -/
  go : Bool
  perm : List Nat
  answer : Nat → List Request

/-- `_handle_orders`: process the shuffled normal batches, each followed by its HFT round -/
def handle (t : Nat) (maxHft : Int) : List (Nat × List Request) → List RoundTape → Bool → Out
  | [], _, flag => { tr := [], ok := true, flag := flag }
  | (_, batch) :: bs, rts, flag =>
    let rt : RoundTape := rts.headD { go := false, perm := [], answer := fun _ => [] }
    (processBatch t flag batch).andThen (fun fl =>
      (if rt.go then hftRound t maxHft rt.answer rt.perm 0 fl
       else { tr := [], ok := true, flag := fl }).andThen (fun fl2 =>
        handle t maxHft bs rts.tail fl2))

structure StepTape where
  /-- per market: a before-step handler switched the execution flag on (halt ends) -/
  resume : Nat → Bool
  perm : List Nat
  answer : Nat → List Request
  /-- `prng.sample(local_orders, len(local_orders))` as indices into the collected batches -/
  shuffle : List Nat
  rounds : List RoundTape

structure SessionCfg where
  steps : Nat
  placement : Bool
  execution : Bool
  maxNormal : Int
  maxHft : Int

/-- markets in configuration order, with "is an index market" -/
abbrev Markets := List (Nat × Bool)

/-- `_update_times_on_markets`: non-index markets first, then index markets -/
def ticks (ms : Markets) : List Ev :=
  ((ms.filter (fun m => !m.2)).map (fun m => Ev.tick m.1)) ++
  ((ms.filter (fun m => m.2)).map (fun m => Ev.tick m.1))

def stepBefore (t : Nat) (resume : Nat → Bool) : Markets → Bool → List Ev × Bool
  | [], flag => ([], flag)
  | m :: ms, flag =>
    let r := stepBefore t resume ms (if resume m.1 then true else flag)
    (Ev.hookStepBefore m.1 t :: Ev.stepBegin m.1 t :: r.1, r.2)

def stepAfter (t : Nat) : Markets → List Ev
  | [] => []
  | m :: ms => Ev.stepEnd m.1 t :: Ev.hookStepAfter m.1 t :: stepAfter t ms

def applyShuffle {α : Type} (idx : List Nat) (l : List α) : List α := idx.filterMap (l[·]?)

/-- one iteration of the step loop at global time `t` -/
def runStep (ms : Markets) (cfg : SessionCfg) (t : Nat) (flag : Bool) (tape : StepTape) : Out :=
  let b := stepBefore t tape.resume ms flag
  let body : Out :=
    if cfg.placement then
      let c := collect false cfg.maxNormal tape.answer tape.perm 0
      if c.2.1 then
        let h := handle t cfg.maxHft (applyShuffle tape.shuffle c.2.2) tape.rounds b.2
        { h with tr := c.1 ++ h.tr }
      else { tr := c.1, ok := false, flag := b.2 }
    else { tr := [], ok := true, flag := b.2 }
  if body.ok then
    { tr := b.1 ++ body.tr ++ stepAfter t ms ++ ticks ms, ok := true, flag := body.flag }
  else { tr := b.1 ++ body.tr, ok := false, flag := body.flag }

def runSteps (ms : Markets) (cfg : SessionCfg) : Nat → Bool → List StepTape → Nat → Out
  | _, flag, _, 0 => { tr := [], ok := true, flag := flag }
  | t, flag, tapes, n + 1 =>
    let tape : StepTape := tapes.headD
      { resume := fun _ => false, perm := [], answer := fun _ => [], shuffle := [], rounds := [] }
    (runStep ms cfg t flag tape).andThen (fun fl => runSteps ms cfg (t + 1) fl tapes.tail n)

/-- one session starting at global time `start` -/
def runSession (ms : Markets) (k : Nat) (cfg : SessionCfg) (start : Nat) (tapes : List StepTape) : Out :=
  let head : List Ev := [Ev.hookSessionBefore k start, Ev.sessionBegin k, Ev.flush]
    ++ ms.map (fun m => Ev.setRunning m.1 cfg.execution)
  let body := runSteps ms cfg start cfg.execution tapes cfg.steps
  if body.ok then
    { tr := head ++ body.tr ++ [Ev.hookSessionAfter k (((start + cfg.steps : Nat) : Int) - 1), Ev.sessionEnd k, Ev.flush],
      ok := true, flag := body.flag }
  else { tr := head ++ body.tr, ok := false, flag := body.flag }

def runSessions (ms : Markets) : Nat → Nat → List SessionCfg → List (List StepTape) → List Ev × Bool
  | _, _, [], _ => ([], true)
  | k, start, cfg :: cfgs, tapes =>
    let s := runSession ms k cfg start (tapes.headD [])
    if s.ok then
      let r := runSessions ms (k + 1) (start + cfg.steps) cfgs tapes.tail
      (s.tr ++ r.1, r.2)
    else (s.tr, false)

/-- `SequentialRunner._run` -/
def run (ms : Markets) (cfgs : List SessionCfg) (tapes : List (List StepTape)) : List Ev :=
  let r := runSessions ms 0 0 cfgs tapes
  [Ev.simBegin, Ev.flush] ++ ticks ms ++ r.1 ++ (if r.2 then [Ev.simEnd, Ev.flush] else [])

end Pams.Runner
