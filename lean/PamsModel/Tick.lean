/-
Model of the tick snapping in `Market._add_order` (`pams/market.py`): a limit price that is not an
integer multiple of the tick size is replaced by `floor(price / tick) * tick` for a buy order and
`ceil(price / tick) * tick` for a sell order.  Exact rational arithmetic (every double is a
rational); the float evaluation of the same expression is compared by the correspondence check.
-/
import Mathlib.Algebra.Order.Floor.Ring
import Mathlib.Data.Rat.Floor

namespace Pams.Tick

/-- `price % tick == 0` (exact: Python's float `%` is exact) -/
def onGrid (p τ : ℚ) : Bool := (p / τ).den = 1

/-- `convert_to_tick_level(price, is_buy) * tick` when off the grid, else the price itself -/
def snap (isBuy : Bool) (p τ : ℚ) : ℚ :=
  if onGrid p τ then p
  else if isBuy then (⌊p / τ⌋ : ℤ) * τ else (⌈p / τ⌉ : ℤ) * τ

end Pams.Tick
