/-
Model of `IndexMarket.compute_market_index` / `compute_fundamental_index`
(`pams/index_market.py`): the share-weighted average of the components' prices, folded as the
code folds it (`total_value += price * shares`, `total_shares += shares`, then one division).
-/
import PamsModel.Arith

namespace Pams.Index
open Pams

variable {K : Type} [Arith K]

/-- `(Σ priceᵢ · sharesᵢ, Σ sharesᵢ)` folded left to right from `(0, 0)` -/
def totals (comps : List (K × Nat)) : K × Nat :=
  comps.foldl (fun acc c => (acc.1 + c.1 * Arith.ofNat c.2, acc.2 + c.2)) (Arith.zero, 0)

/-- the index value -/
def indexValue (comps : List (K × Nat)) : K :=
  (totals comps).1 / Arith.ofNat (totals comps).2

end Pams.Index
