/-
Model of the matching round `Market._execution` / `Market.remain_executable_orders`
(`pams/market.py`).  The two heaps are popped in priority order, so the loop is a merge walk over
the two sorted sides that carries the remaining volume of the two current orders.
-/
import PamsModel.Book

namespace Pams
variable {P : Type} [LinearOrder P]

/-- one matched pair of the walk (`pending.append((volume, buy_order, sell_order))`) -/
structure Pair (P : Type) where
  vol : Nat
  b : Order P
  s : Order P
deriving Repr

/-- the `break` test: both limit orders and bid < ask -/
def noCross (b s : Order P) : Bool :=
  match b.price, s.price with
  | some pb, some ps => decide (pb < ps)
  | _, _ => false

/-- The matching walk.  Heads carry their *remaining* volume.  Returns the matched pairs and the
residual sides. -/
def walk : List (Order P) → List (Order P) → List (Pair P) × List (Order P) × List (Order P)
  | b :: bs, s :: ss =>
    if noCross b s then ([], b :: bs, s :: ss)
    else if b.vol < s.vol then
      let r := walk bs ({ s with vol := s.vol - b.vol } :: ss)
      (⟨b.vol, b, s⟩ :: r.1, r.2.1, r.2.2)
    else if s.vol < b.vol then
      let r := walk ({ b with vol := b.vol - s.vol } :: bs) ss
      (⟨s.vol, b, s⟩ :: r.1, r.2.1, r.2.2)
    else
      let r := walk bs ss
      (⟨b.vol, b, s⟩ :: r.1, r.2.1, r.2.2)
  | [], ss => ([], [], ss)
  | bs, [] => ([], bs, [])
termination_by bs ss => bs.length + ss.length

/-- the price a pair proposes: market/market none; market/limit the limit side; limit/limit the
order with the smaller `(placedAt, id)` -/
def pairPrice (b s : Order P) : Option P :=
  match b.price, s.price with
  | none, none => none
  | some p, none => some p
  | none, some q => some q
  | some p, some q =>
    if b.placedAt = s.placedAt then (if b.id < s.id then some p else some q)
    else if b.placedAt < s.placedAt then some p else some q

/-- the variable `price` after the loop: the proposal of the *last* pair that made one -/
def roundPrice : List (Pair P) → Option P
  | [] => none
  | p :: ps =>
    match roundPrice ps with
    | some x => some x
    | none => pairPrice p.b p.s

/-- total volume of the market orders of a side (`book[None]`) -/
def mktVol : List (Order P) → Nat
  | [] => 0
  | x :: xs => (if x.price = none then x.vol else 0) + mktVol xs

/-- number of distinct limit prices of a side (`len(book)` after `pop(None)`) -/
def limitLevels (l : List (Order P)) : Nat :=
  ((Book.depth l).filter (fun pv => pv.1 ≠ none)).length

/-- first limit order of a side (best limit price on a sorted side) -/
def bestLimit : List (Order P) → Option P
  | [] => none
  | x :: xs => match x.price with
    | some p => some p
    | none => bestLimit xs

/-- `Market.remain_executable_orders()` -/
def remainExecutable (buys sells : List (Order P)) : Bool :=
  match sells, buys with
  | [], _ => false
  | _, [] => false
  | s :: _, b :: _ =>
    match s.price, b.price with
    | some ps, some pb => decide (ps ≤ pb)
    | some _, none => true
    | none, some _ => true
    | none, none =>
      let sv := mktVol sells
      let bv := mktVol buys
      if sv ≠ bv then
        if sv < bv then decide (limitLevels sells ≥ bv - sv)
        else decide (limitLevels buys ≥ sv - bv)
      else
        match bestLimit sells, bestLimit buys with
        | some a, some c => decide (a ≤ c)
        | _, _ => false

end Pams
