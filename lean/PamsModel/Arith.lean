/-
A tiny arithmetic signature so that the pure numeric models (price-limit clip, index averages,
agent formulas, halt threshold) are written once and instantiated twice: at an ordered field
(ℚ / ℝ) for the theorems and at `Float` (IEEE binary64, as Python computes) for the driver.
-/
namespace Pams

class Arith (K : Type) extends Add K, Sub K, Mul K, Div K, Neg K, LT K, LE K where
  zero : K
  one : K
  ofNat : Nat → K
  decLt : ∀ a b : K, Decidable (a < b)
  decLe : ∀ a b : K, Decidable (a ≤ b)

namespace Arith
variable {K : Type} [Arith K]

instance (a b : K) : Decidable (a < b) := Arith.decLt a b
instance (a b : K) : Decidable (a ≤ b) := Arith.decLe a b

/-- Python `abs` -/
def abs (x : K) : K := if x < Arith.zero then -x else x
/-- Python `max(a, b)`: `b` if `b > a` else `a` -/
def max (a b : K) : K := if a < b then b else a
/-- Python `min(a, b)`: `b` if `b < a` else `a` -/
def min (a b : K) : K := if b < a then b else a

end Arith

instance : Arith Float where
  zero := 0.0
  one := 1.0
  ofNat := Float.ofNat
  decLt := fun a b => Float.decLt a b
  decLe := fun a b => Float.decLe a b

end Pams
