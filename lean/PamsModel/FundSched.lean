/-
Model of the *regeneration bookkeeping* of `pams/fundamentals.py`: `_generated_until`, the current
parameter set, and — as ghost state — the parameter set every generated step was generated with.

`Fundamentals` keeps one current parameter set (drifts, volatilities, correlations) and one global
regeneration point `g = _generated_until`: prices at times `≤ g` are final, everything later is
regenerated with the *current* parameters on the next read.  A setter called with time `t` first
generates up to `t` with the parameters in force before the change (`_generate_until`, the repair
of defect F8), installs the new parameter set and sets `g := t`.
-/
namespace Pams.FundS

structure St (P : Type) where
  /-- `prov[u]` (u ≥ 1): the parameter set step `u` (the return from `u-1` to `u`) was generated
  with; `prov[0]` is the initial set (no step leads to time 0) -/
  prov : List P
  /-- `_generated_until` -/
  g : Nat
  /-- the current parameter set -/
  cur : P
  /-- `_generate_chunk_size` -/
  chunk : Nat

variable {P : Type}

def init (p : P) (chunk : Nat) : St P := { prov := [p], g := 0, cur := p, chunk := chunk }

/-- `_generate_next`: keep the steps up to `g`, generate `chunk` further steps with the current
parameters -/
def St.gen (s : St P) : St P :=
  { s with prov := s.prov.take (s.g + 1) ++ List.replicate s.chunk s.cur, g := s.g + s.chunk }

/-- `while time >= self._generated_until: self._generate_next()` (fuel: `time + 1` rounds suffice
for a positive chunk size) -/
def readLoop : Nat → Nat → St P → St P
  | 0, _, s => s
  | fuel + 1, time, s => if time ≥ s.g then readLoop fuel time s.gen else s

/-- `get_fundamental_price(_, time)` (the state after it) -/
def St.read (s : St P) (time : Nat) : St P := readLoop (time + 1) time s

/-- `_generate_until(time)`: `while self._generated_until < time: self._generate_next()` -/
def settleLoop : Nat → Nat → St P → St P
  | 0, _, s => s
  | fuel + 1, time, s => if s.g < time then settleLoop fuel time s.gen else s

def St.settle (s : St P) (time : Nat) : St P := settleLoop (time + 1) time s

/-- a setter (`change_drift`, `change_volatility`, `set_correlation`, `remove_correlation`) called
with `time = t`; `f` is what it does to the parameter set -/
def St.change (s : St P) (t : Nat) (f : P → P) : St P :=
  let s' := s.settle t
  { s' with cur := f s'.cur, g := t }

/-- `Market.change_fundamental_price` at market time `t`: the price at `t` is scaled and the
regeneration point is moved to `t` directly (no parameter changes, nothing is settled) -/
def St.shock (s : St P) (t : Nat) : St P := { s with g := t }

inductive Op (P : Type) where
  | read (time : Nat)
  | change (t : Nat) (f : P → P)
  | shock (t : Nat)

def St.step (s : St P) : Op P → St P
  | .read time => s.read time
  | .change t f => s.change t f
  | .shock t => s.shock t

/-- the calls so far, as (time, parameter set installed), in call order -/
def histStep (cur : P) (h : List (Nat × P)) : Op P → List (Nat × P)
  | .read _ => h
  | .change t f => h ++ [(t, f cur)]
  | .shock _ => h

/-- the setter as it stood before the repair (defect F8): no settling -/
def St.changeUnsettled (s : St P) (t : Nat) (f : P → P) : St P := { s with cur := f s.cur, g := t }

/-- the variant `_generated_until := min(time, _generated_until)` (seeded change C12d) -/
def St.changeMin (s : St P) (t : Nat) (f : P → P) : St P := { s with cur := f s.cur, g := min t s.g }

def run : St P → List (Nat × P) → List (Op P) → St P × List (Nat × P)
  | s, h, [] => (s, h)
  | s, h, op :: ops => run (s.step op) (histStep s.cur h op) ops

/-- **the parameter set in force at step `u`**: the one installed by the last call (in call order)
whose time lies before `u`; the initial set if there is none.  (A call at time `t` governs the steps
after `t` — until a later call says otherwise.) -/
def sched (p0 : P) (h : List (Nat × P)) (u : Nat) : P :=
  match h.reverse.find? (fun c => c.1 < u) with
  | some c => c.2
  | none => p0

end Pams.FundS
