/-
Model of `pams/order.py`: accepted orders and the priority comparison `Order._gt_lt`.

Prices are elements of an arbitrary linear order `P` (finite, non-NaN IEEE doubles with
`-0.0 ≡ +0.0` are one; ℚ is another).  `price = none` is a market order
(`kind == MARKET_ORDER ⇔ price is None` is enforced by `Order.__init__`).
Only *accepted* orders (stamped with `placed_at` and `order_id`) are represented; the raising
branches of `_gt_lt` for unplaced orders are outside the model.
-/
import Mathlib.Order.Defs.LinearOrder

namespace Pams

structure Order (P : Type) where
  id : Nat
  agent : Nat
  isBuy : Bool
  price : Option P
  vol : Nat
  placedAt : Nat
  ttl : Option Nat
deriving Repr, DecidableEq

variable {P : Type} [LinearOrder P]

/-- `_compare_placed_at` for two placed orders. -/
def cmpPlaced (gt : Bool) (a b : Order P) : Bool :=
  if a.placedAt ≠ b.placedAt then
    (if gt then decide (a.placedAt > b.placedAt) else decide (a.placedAt < b.placedAt))
  else
    (if gt then decide (a.id > b.id) else decide (a.id < b.id))

/-- Literal transcription of `Order._gt_lt(self=a, other=b, gt)` ("high priority is less"). -/
def gtLt (gt : Bool) (a b : Order P) : Bool :=
  match a.price, b.price with
  | none, none => cmpPlaced gt a b
  | none, some _ => !gt
  | some _, none => gt
  | some pa, some pb =>
    if pa ≠ pb then
      if a.isBuy then (if gt then decide (pa < pb) else decide (pa > pb))
      else (if gt then decide (pa > pb) else decide (pa < pb))
    else cmpPlaced gt a b

/-- `Order.__lt__`: `a` has strictly higher priority than `b`. -/
def Order.lt (a b : Order P) : Bool := gtLt false a b
/-- `Order.__gt__`. -/
def Order.gt (a b : Order P) : Bool := gtLt true a b
/-- `Order.__eq__` (the `kind` clause is implied by the price clause under
`kind == MARKET ⇔ price is None`). -/
def Order.eqv (a b : Order P) : Bool :=
  decide (a.id = b.id) && decide (a.price = b.price) && decide (a.placedAt = b.placedAt)
    && decide (a.isBuy = b.isBuy)
def Order.le (a b : Order P) : Bool := a.eqv b || a.lt b
def Order.ge (a b : Order P) : Bool := a.eqv b || a.gt b

/-- `Order.is_expired(time)`. -/
def Order.expired (o : Order P) (time : Nat) : Bool :=
  match o.ttl with
  | none => false
  | some t => decide (o.placedAt + t < time)

end Pams
