/-
Model of one side of `pams/order_book.py`.  The heap is abstracted to the list of resting orders
sorted by priority (best first); any correct priority queue pops the unique sorted permutation.
The `expire_time_list` index is not separate state: it is derived from `placedAt + ttl`.
-/
import PamsModel.Order

namespace Pams
variable {P : Type} [LinearOrder P]

/-- `OrderBook.add` (heappush) on the sorted-list abstraction. -/
def Book.insert (o : Order P) : List (Order P) → List (Order P)
  | [] => [o]
  | x :: xs => if o.lt x then o :: x :: xs else x :: Book.insert o xs

/-- `OrderBook._remove` (by `__eq__`, which under distinct ids is by id). -/
def Book.remove (id : Nat) (l : List (Order P)) : List (Order P) :=
  l.filter (fun x => x.id ≠ id)

/-- orders dropped by `_check_expired_orders` at `time` -/
def Book.expiredAt (time : Nat) (l : List (Order P)) : List (Order P) :=
  l.filter (fun x => x.expired time)

def Book.keepAt (time : Nat) (l : List (Order P)) : List (Order P) :=
  l.filter (fun x => !x.expired time)

/-- `OrderBook.get_best_price` -/
def Book.bestPrice (l : List (Order P)) : Option P :=
  match l with
  | [] => none
  | x :: _ => x.price

/-- `get_price_volume()`: per price (market orders = `none` first, then best price first) the total
resting volume.  On a sorted side equal prices are adjacent, so this is a run-length fold. -/
def Book.depth : List (Order P) → List (Option P × Nat)
  | [] => []
  | x :: xs =>
    match Book.depth xs with
    | (p, v) :: rest => if p = x.price then (p, v + x.vol) :: rest else (x.price, x.vol) :: (p, v) :: rest
    | [] => [(x.price, x.vol)]

end Pams
