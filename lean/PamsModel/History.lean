/-
Histories of one market: the operations the runner performs, the log records they emit, and the
fold of a whole operation sequence from the initial state.  A refused operation (an `Err`) leaves
the state unchanged and emits nothing, as the Python exception does.
-/
import PamsModel.Market

namespace Pams
variable {P : Type} [LinearOrder P]

inductive Op (P : Type) where
  | add (r : Req P)
  | cancel (id : Nat)
  | exec
  | tick (fund : Option P)
  | jump (k : Nat) (fund : Option P)
  | setRunning (b : Bool)
  /-- `market._fundamental_prices[time] = f` (`Market.change_fundamental_price`: an event rewrites the
  fundamental price of the *current* step) -/
  | setFund (f : Option P)
deriving Repr

inductive Rec (P : Type) where
  | order (l : OrderLog P)
  | cancel (l : CancelLog P)
  | expiry (l : ExpiryLog P)
  | fill (f : Fill P)
deriving Repr

def Market.step (ops : PriceOps P) (m : Market P) : Op P → Market P × List (Rec P)
  | .add r => ((m.addOrder ops r).1, [Rec.order (m.addOrder ops r).2])
  | .cancel id =>
    match m.cancel ops id with
    | .ok (m', l) => (m', [Rec.cancel l])
    | .error _ => (m, [])
  | .exec =>
    match m.execution ops with
    | .ok (m', fs) => (m', fs.map Rec.fill)
    | .error _ => (m, [])
  | .tick f => ((m.tick ops f).1, (m.tick ops f).2.map Rec.expiry)
  | .jump k f => ((m.setTime ops (k + 1) f).1, (m.setTime ops (k + 1) f).2.map Rec.expiry)
  | .setRunning b => ({ m with running := b }, [])
  | .setFund f => ({ m with cur := { m.cur with fund := f } }, [])

/-- run a whole history, collecting the trace -/
def Market.runOps (ops : PriceOps P) (m : Market P) : List (Op P) → Market P × List (Rec P)
  | [] => (m, [])
  | o :: os =>
    let r := m.step ops o
    let r2 := Market.runOps ops r.1 os
    (r2.1, r.2 ++ r2.2)

/-- what `Order.__init__` guarantees of a submission -/
def Req.valid (r : Req P) : Prop := 0 < r.vol

def Op.valid : Op P → Prop
  | .add r => r.valid
  | _ => True

end Pams
