/-
Model of `pams/logs/base.py::Logger`: `write` / `bulk_write` queue records, `write_and_direct_process`
delivers at once, `_process` delivers the queue in order and empties it.  Records are opaque.
-/
namespace Pams.Logger

inductive LOp (α : Type) where
  | write (l : α)
  | bulkWrite (ls : List α)
  | direct (l : α)
  | flush

structure LState (α : Type) where
  pending : List α
  delivered : List α

def step {α : Type} (s : LState α) : LOp α → LState α
  | .write l => { s with pending := s.pending ++ [l] }
  | .bulkWrite ls => { s with pending := s.pending ++ ls }
  | .direct l => { s with delivered := s.delivered ++ [l] }
  | .flush => { pending := [], delivered := s.delivered ++ s.pending }

def run {α : Type} (s : LState α) (ops : List (LOp α)) : LState α := ops.foldl step s

/-- the records handed to the logger for queued delivery, in order -/
def written {α : Type} : List (LOp α) → List α
  | [] => []
  | .write l :: os => l :: written os
  | .bulkWrite ls :: os => ls ++ written os
  | _ :: os => written os

/-- the records handed over for synchronous delivery -/
def directs {α : Type} : List (LOp α) → List α
  | [] => []
  | .direct l :: os => l :: directs os
  | _ :: os => directs os

end Pams.Logger
