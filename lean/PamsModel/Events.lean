/-
Models of the built-in events: `PriceLimitRule`, `TradingHaltRule`, `OrderMistakeShock`,
`FundamentalPriceShock` (`pams/events/*.py`).
-/
import PamsModel.Arith
import PamsModel.Hooks

namespace Pams.Events
open Pams Pams.Arith

variable {K : Type} [Arith K]

/-! ### PriceLimitRule -/

/-- `PriceLimitRule.get_limited_price` on a limit price -/
def clip (p0 r p : K) : K :=
  if Arith.abs (p0 * r) ≤ Arith.abs (p - p0) then
    Arith.min (Arith.max p (p0 * (Arith.one - r))) (p0 * (Arith.one + r))
  else p

/-- `hooked_before_order`: orders of non-target markets pass unchanged, market orders pass, limit
prices of target markets are clipped.  Returns the new price and whether it changed. -/
def limitHook (targets : List Nat) (p0 : Nat → K) (r : K) (market : Nat) (price : Option K) : Option K :=
  if targets.contains market then price.map (clip (p0 market) r) else price

/-! ### TradingHaltRule -/

structure HaltState where
  /-- the market on which a halt of this rule is in force in the current session, if any -/
  halted : Option Nat
  startedAt : Nat
  activations : Nat
deriving Repr, DecidableEq

def HaltState.init : HaltState := { halted := none, startedAt := 0, activations := 0 }

/-- the halt test after a fill on a target market that is running:
`|p0 - p| >= |p0 * rate * (activations + 1)|` -/
def haltTest (p0 rate p : K) (activations : Nat) : Bool :=
  decide (Arith.abs (p0 * rate * Arith.ofNat (activations + 1)) ≤ Arith.abs (p0 - p))

/-- `hooked_after_execution` for a fill on market `m` at time `t` (`crossed` = the halt test);
returns the new state and whether the market and the session's execution flag are switched off -/
def haltAfterFill (targets : List Nat) (s : HaltState) (m : Nat) (running : Bool) (crossed : Bool)
    (t : Nat) : HaltState × Bool :=
  if targets.contains m && running && crossed then
    ({ halted := some m, startedAt := t, activations := s.activations + 1 }, true)
  else (s, false)

/-- `hooked_before_step_for_market` for market `m` at time `t`: resume iff a halt of this rule is
in force on `m` (in this session) and more than `length` steps have passed since it began -/
def haltBeforeStep (length : Nat) (s : HaltState) (m : Nat) (t : Nat) : HaltState × Bool :=
  if s.halted = some m && decide (s.startedAt + length < t) then
    ({ s with halted := none, startedAt := 0 }, true)
  else (s, false)

/-- a session boundary ends any halt (the runner resets `is_running` from the new session) -/
def haltNewSession (s : HaltState) : HaltState := { s with halted := none }

/-! ### OrderMistakeShock -/

structure MistakeState where
  triggered : Bool
deriving Repr, DecidableEq

/-- the replacement order's fields -/
structure Mistake (K : Type) where
  isBuy : Bool
  price : K
  vol : Nat
  ttl : Nat

/-- `hooked_before_order` at the trigger time: the first order *for the target market* is replaced -/
def mistakeHook (target : Nat) (rate : K) (vol ttl : Nat) (s : MistakeState) (market : Nat)
    (marketPrice : K) : MistakeState × Option (Mistake K) :=
  if !s.triggered && market = target then
    ({ triggered := true },
     some { isBuy := decide (Arith.zero < rate), price := marketPrice * (Arith.one + rate), vol := vol, ttl := ttl })
  else (s, none)

/-- the orders (by market) dispatched at the trigger time, folded through the hook -/
def mistakeRun (target : Nat) (rate : K) (vol ttl : Nat) (price : Nat → K) :
    MistakeState → List Nat → List (Option (Mistake K))
  | _, [] => []
  | s, m :: ms =>
    let r := mistakeHook target rate vol ttl s m (price m)
    r.2 :: mistakeRun target rate vol ttl price r.1 ms

/-! ### FundamentalPriceShock -/

/-- the hook it registers: a market-step-before hook on the target instance for the steps of its
window, counted from the start of its session -/
def fshockHook (id event : Nat) (sessionStart trigger length target : Nat) : Hooks.Hook :=
  { id := id, event := event, kind := .marketBefore,
    times := some ((List.range length).map (fun i => ((sessionStart + trigger + i : Nat) : Int))),
    cls := none, inst := some target }

end Pams.Events
