/-
Model of the fundamental price paths of `pams/fundamentals.py`.  The per-step log returns
`r = drift + L·z` (standard normal draws `z`, Cholesky factor `L` of the covariance) are inputs;
a generation chunk turns them into prices `p[g + 1 + j] = p[g] · exp(r₀ + … + r_j)` and keeps
the prefix `p[0..g]`, where `g` is `_generated_until`.
-/
import PamsModel.Agents

namespace Pams.Fund
open Pams

variable {K : Type} [ArithT K]

/-- running sums `r₀, r₀+r₁, …` starting from `acc` (numpy `cumsum`, left to right) -/
def cumsum (acc : K) : List K → List K
  | [] => []
  | r :: rs => (acc + r) :: cumsum (acc + r) rs

/-- the prices a chunk appends after the level `p0` -/
def genPath (p0 : K) (rs : List K) : List K := (cumsum Arith.zero rs).map (fun c => p0 * ArithT.exp c)

/-- `_generate_next` for one market: keep `path[0..g]`, append the chunk continuing from `path[g]` -/
def generateNext (path : List K) (g : Nat) (rs : List K) : List K :=
  match path[g]? with
  | some p => path.take (g + 1) ++ genPath p rs
  | none => path

/-- `Market.change_fundamental_price(scale)` at time `t`: the value at `t` is scaled and generation
restarts from `t` (`_generated_until := t`); returns the new path and the new `g` -/
def shock (path : List K) (t : Nat) (scale : K) : List K × Nat :=
  match path[t]? with
  | some p => (path.set t (p * scale), t)
  | none => (path, t)

end Pams.Fund
