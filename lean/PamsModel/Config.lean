/-
Models of configuration expansion: `json_extends` (`pams/utils/json_extends.py`), the count /
range expansion and naming of `_generate_markets` / `_generate_agents`
(`pams/runners/sequential.py`), `JsonRandom` (`pams/utils/json_random.py`), `find_class`
(`pams/utils/class_finder.py`) and the legacy keys of `Session.setup` (`pams/session.py`).
Keys, names and values are opaque codes; key `0` is `"extends"` and its value is a name.
-/
import PamsModel.Arith

namespace Pams.Config

abbrev Obj := List (Nat × Nat)

def lookup (k : Nat) : Obj → Option Nat
  | [] => none
  | kv :: rest => if kv.1 = k then some kv.2 else lookup k rest
def erase (k : Nat) (o : Obj) : Obj := o.filter (fun kv => kv.1 ≠ k)

/-- `dict(parent_items, **results)`: the parent's keys in the parent's order with the values of
`results` where it has them, then the remaining keys of `results` in their order -/
def merge (parent results : Obj) : Obj :=
  parent.map (fun kv => (kv.1, (lookup kv.1 results).getD kv.2)) ++
  results.filter (fun kv => (lookup kv.1 parent).isNone)

def lookupObj (name : Nat) (whole : List (Nat × Obj)) : Option Obj :=
  (whole.find? (fun x => x.1 = name)).map (·.2)

inductive ExtErr | missing | cycle | fuel
deriving Repr, DecidableEq

/-- the `while "extends" in results` loop, with explicit fuel -/
def extendsLoop (whole : List (Nat × Obj)) (excludes : List Nat) :
    Nat → List Nat → Obj → Except ExtErr Obj
  | fuel, hist, res =>
    match lookup 0 res with
    | none => .ok res
    | some cls =>
      match fuel with
      | 0 => .error .fuel
      | fuel + 1 =>
        match lookupObj cls whole with
        | none => .error .missing
        | some parent =>
          if cls ∈ hist then .error .cycle
          else extendsLoop whole excludes fuel (hist ++ [cls])
                 (merge (parent.filter (fun kv => !excludes.contains kv.1)) (erase 0 res))

/-- `json_extends(whole_json, parent_name, target_json, excludes_fields)` -/
def jsonExtends (whole : List (Nat × Obj)) (parentName : Nat) (target : Obj) (excludes : List Nat) :
    Except ExtErr Obj :=
  extendsLoop whole excludes (whole.length + 1) [parentName] target

/-! ### counts, ranges, ids and names -/

inductive GroupSpec where
  | single
  | count (n : Nat)
  | range (lo hi : Nat)
deriving Repr, DecidableEq

/-- one created entity: its id, and its name as (group prefix has separator?, numeric suffix) -/
structure Entity where
  id : Nat
  dash : Bool
  suffix : Option Nat
deriving Repr, DecidableEq

/-- the entities one group creates, starting at id `counter` -/
def expand (counter : Nat) (spec : GroupSpec) : List Entity :=
  let (lo, n) : Nat × Nat := match spec with
    | .single => (0, 1)
    | .count n => (0, n)
    | .range lo hi => (lo, hi + 1 - lo)
  (List.range n).map (fun j =>
    { id := counter + j, dash := decide (1 < n), suffix := if n ≠ 1 then some (lo + j) else none })

/-- accessible markets of an agent: the markets of the listed groups, concatenated -/
def accessible (groups : Nat → List Nat) (listed : List Nat) : List Nat := listed.flatMap groups

/-! ### JsonRandom -/
section
variable {K : Type} [Arith K]
/-- `_next_uniform`: `u * (max - min) + min` -/
def uniform (u lo hi : K) : K := u * (hi - lo) + lo
end

/-! ### find_class -/
/-- candidates named `name` among built-ins and registered classes; a class is returned iff it is
the only candidate -/
def findClass (builtins registered : List (Nat × Nat)) (name : Nat) : Option Nat :=
  match (builtins.filter (fun c => c.1 = name) ++ registered.filter (fun c => c.1 = name)) with
  | [c] => some c.2
  | _ => none

/-! ### Session.setup legacy keys -/
structure SessionAttrs where
  maxHft : Option Nat
  rate : Option Nat
deriving Repr, DecidableEq

inductive SetupErr | both
deriving Repr, DecidableEq

/-- the part of `Session.setup` that reads `maxHighFrequencyOrders` / `maxHifreqOrders` and
`highFrequencySubmitRate` / `hifreqSubmitRate` (values as opaque codes) -/
def sessionSetup (newMax legacyMax newRate legacyRate : Option Nat) : Except SetupErr SessionAttrs :=
  match newMax, legacyMax, newRate, legacyRate with
  | some _, some _, _, _ => .error .both
  | _, _, some _, some _ => .error .both
  | nm, lm, nr, lr => .ok { maxHft := nm.orElse (fun _ => lm), rate := nr.orElse (fun _ => lr) }

end Pams.Config
