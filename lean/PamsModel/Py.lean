/-
A small-step-free, fuel-indexed big-step semantics of the fragment of Python that pams' decision
code is written in ("mini-Python").  It is the *meaning* given to the abstract syntax trees that
the translator (harness/py2lean.py) dumps from /repo's current sources into `PamsGen/Code.lean`:
the translator is a serializer of `ast` nodes and carries no semantics of its own.

Values: `None`, `bool`, `int` (unbounded), `float` (an abstract numeric type `K` with the
operations of the class `PyNum`: IEEE doubles in the driver, an ordered field in the theorems),
`str`, references to heap objects (identity + mutable fields), immutable sequences (list / tuple /
`dict.values()`), dictionaries (parallel key / value lists, insertion ordered) and local closures.

State: a heap `address → field → value` (attribute reads / writes go through it, so aliasing is
respected for objects) and the log of *extern* calls — calls whose callee is not among the
translated functions are answered by an oracle `Ext` that may read and change the state; they are
recorded in order, so "which calls happen, in which order, with which arguments" is part of the
meaning.  Containers are values (a `dict` stored in a field is copied on read and written back on
item assignment): aliasing between two names for one *container* is not modelled.

Every recursive call is on a smaller fuel, so the definition is structural; fuel bounds the
nesting depth + sequence length, and `while` loops consume one unit per iteration.  Running out of
fuel is an error value (`Err.fuel`), never a silent default.
-/
import PamsModel.Arith

namespace Pams.Py

/-- what the abstract float type must provide (Python's float operations) -/
class PyNum (K : Type) extends Arith K where
  beq : K → K → Bool
  ofInt : Int → K
  floor : K → Int
  ceil : K → Int
  fmod : K → K → K
  exp : K → K
  log : K → K
  sqrt : K → K

inductive BinOp | add | sub | mul | div | floordiv | mod | pow
deriving Repr, DecidableEq
inductive CmpOp | eq | ne | lt | le | gt | ge | is | isNot | isIn | notIn
deriving Repr, DecidableEq
inductive UnOp | not | neg
deriving Repr, DecidableEq

inductive Expr where
  | cnone
  | cbool (b : Bool)
  | cint (i : Int)
  /-- float literal `n / d` (exactly the literal's decimal value) -/
  | cflt (n d : Nat)
  | cstr (s : String)
  | name (x : String)
  | attr (e : Expr) (a : String)
  | bin (op : BinOp) (l r : Expr)
  | un (op : UnOp) (e : Expr)
  | and_ (l r : Expr)
  | or_ (l r : Expr)
  | cmp (op : CmpOp) (l r : Expr)
  | ife (c t e : Expr)
  | call (f : Expr) (args : List Expr) (kwNames : List String) (kwVals : List Expr)
  | sub (e i : Expr)
  | lst (es : List Expr)
deriving Repr

inductive Stmt where
  | expr (e : Expr)
  | assign (target : Expr) (e : Expr)
  | aug (target : Expr) (op : BinOp) (e : Expr)
  | ifs (c : Expr) (t e : List Stmt)
  | ret (e : Expr)
  | raise (exc : String)
  | assert_ (c : Expr)
  | for_ (target : Expr) (iter : Expr) (body : List Stmt)
  | while_ (c : Expr) (body : List Stmt)
  | def_ (name : String) (params : List String) (defaults : List (Option Expr)) (body : List Stmt)
  | continue_
  | break_
  | pass
deriving Repr

structure FunDef where
  params : List String
  /-- default value expressions, aligned with `params` -/
  defaults : List (Option Expr)
  body : List Stmt
  isProperty : Bool := false
deriving Repr

inductive Val (K : Type) where
  | none
  | bool (b : Bool)
  | int (i : Int)
  | num (x : K)
  | str (s : String)
  | ref (a : Nat)
  | list (l : List (Val K))
  | dict (ks vs : List (Val K))
  | clo (f : FunDef)

inductive Err where
  | raise (exc : String)
  | fuel
  | unsupported (what : String)
  | unbound (x : String)
deriving Repr, DecidableEq

inductive Flow (K : Type) where
  | normal
  | ret (v : Val K)
  | brk
  | cont

abbrev Vars (K : Type) := List (String × Val K)

structure Call (K : Type) where
  recv : Val K
  fn : String
  args : List (Val K)

structure St (K : Type) where
  heap : Nat → String → Option (Val K)
  /-- extern calls performed so far, most recent first -/
  calls : List (Call K)

/-- oracle for calls that leave the translated fragment -/
abbrev Ext (K : Type) := St K → Val K → String → List (Val K) → Option (Val K × St K)

structure Env (K : Type) where
  prog : List (String × FunDef)
  globals : String → Option (Val K)
  ext : Ext K

abbrev M (α : Type) := Except Err α

variable {K : Type} [PyNum K]

def St.set (st : St K) (a : Nat) (f : String) (v : Val K) : St K :=
  { st with heap := fun a' f' => if a' = a ∧ f' = f then some v else st.heap a' f' }

def lookupVar (x : String) : Vars K → Option (Val K)
  | [] => Option.none
  | (y, v) :: rest => if x = y then some v else lookupVar x rest

def setVar (x : String) (v : Val K) : Vars K → Vars K
  | [] => [(x, v)]
  | (y, w) :: rest => if x = y then (y, v) :: rest else (y, w) :: setVar x v rest

def lookupFun (x : String) : List (String × FunDef) → Option FunDef
  | [] => Option.none
  | (y, f) :: rest => if x = y then some f else lookupFun x rest

def truthy : Val K → Bool
  | .none => false
  | .bool b => b
  | .int i => i ≠ 0
  | .num x => !(PyNum.beq x (PyNum.ofInt 0))
  | .str s => s ≠ ""
  | .ref _ => true
  | .list l => !l.isEmpty
  | .dict ks _ => !ks.isEmpty
  | .clo _ => true

/-- the float a numeric value stands for -/
def asNum : Val K → Option K
  | .num x => some x
  | .int i => some (PyNum.ofInt i)
  | .bool b => some (PyNum.ofInt (if b then 1 else 0))
  | _ => Option.none

def asInt : Val K → Option Int
  | .int i => some i
  | .bool b => some (if b then 1 else 0)
  | _ => Option.none

/-- `==` on values without a user-defined `__eq__` -/
def primEq : Val K → Val K → M Bool
  | .none, .none => pure true
  | .str a, .str b => pure (a = b)
  | .ref a, .ref b => pure (a = b)
  | .num a, .num b => pure (PyNum.beq a b)
  | .num a, .int b => pure (PyNum.beq a (PyNum.ofInt b))
  | .int a, .num b => pure (PyNum.beq (PyNum.ofInt a) b)
  | .num a, .bool b => pure (PyNum.beq a (PyNum.ofInt (if b then 1 else 0)))
  | .bool a, .num b => pure (PyNum.beq (PyNum.ofInt (if a then 1 else 0)) b)
  | .int a, .int b => pure (a = b)
  | .int a, .bool b => pure (a = (if b then 1 else 0))
  | .bool a, .int b => pure ((if a then 1 else 0) = b)
  | .bool a, .bool b => pure (a = b)
  | .list _, .list _ => throw (.unsupported "== on sequences")
  | .dict _ _, .dict _ _ => throw (.unsupported "== on dicts")
  | .clo _, _ => throw (.unsupported "== on functions")
  | _, .clo _ => throw (.unsupported "== on functions")
  | _, _ => pure false

/-- `<` on numbers (anything else is a `TypeError` in Python) -/
def primLt (a b : Val K) : M Bool :=
  match asInt a, asInt b with
  | some x, some y => pure (decide (x < y))
  | _, _ =>
    match asNum a, asNum b with
    | some x, some y => pure (decide (x < y))
    | _, _ =>
      match a, b with
      | .str _, .str _ => throw (.unsupported "< on str")
      | _, _ => throw (.raise "TypeError")

def primLe (a b : Val K) : M Bool :=
  match asInt a, asInt b with
  | some x, some y => pure (decide (x ≤ y))
  | _, _ =>
    match asNum a, asNum b with
    | some x, some y => pure (decide (x ≤ y))
    | _, _ =>
      match a, b with
      | .str _, .str _ => throw (.unsupported "<= on str")
      | _, _ => throw (.raise "TypeError")

/-- `is` -/
def primIs : Val K → Val K → M Bool
  | .none, .none => pure true
  | .ref a, .ref b => pure (a = b)
  | .bool a, .bool b => pure (a = b)
  | .none, _ => pure false
  | _, .none => pure false
  | .ref _, _ => pure false
  | _, .ref _ => pure false
  | .bool _, _ => pure false
  | _, .bool _ => pure false
  | _, _ => throw (.unsupported "is on unboxed values")

def arith (op : BinOp) (a b : Val K) : M (Val K) :=
  match op with
  | .add | .sub | .mul =>
    (match asInt a, asInt b with
     | some x, some y =>
       pure (.int (match op with | .add => x + y | .sub => x - y | _ => x * y))
     | _, _ =>
       match asNum a, asNum b with
       | some x, some y =>
         pure (.num (match op with | .add => x + y | .sub => x - y | _ => x * y))
       | _, _ =>
         match op, a, b with
         | .add, .list x, .list y => pure (.list (x ++ y))
         | _, _, _ => throw (.raise "TypeError"))
  | .div =>
    (match asNum a, asNum b with
     | some x, some y =>
       if PyNum.beq y (PyNum.ofInt 0) then throw (.raise "ZeroDivisionError") else pure (.num (x / y))
     | _, _ => throw (.raise "TypeError"))
  | .floordiv =>
    (match asInt a, asInt b with
     | some x, some y => if y = 0 then throw (.raise "ZeroDivisionError") else pure (.int (Int.fdiv x y))
     | _, _ => throw (.unsupported "// on floats"))
  | .mod =>
    (match asInt a, asInt b with
     | some x, some y => if y = 0 then throw (.raise "ZeroDivisionError") else pure (.int (Int.fmod x y))
     | _, _ =>
       match asNum a, asNum b with
       | some x, some y =>
         if PyNum.beq y (PyNum.ofInt 0) then throw (.raise "ZeroDivisionError") else pure (.num (PyNum.fmod x y))
       | _, _ => throw (.raise "TypeError"))
  | .pow => throw (.unsupported "**")

/-- membership `x in container` by identity-or-primitive-equality -/
def memList (x : Val K) : List (Val K) → M Bool
  | [] => pure false
  | y :: ys => do
    if (← primEq x y) then pure true else memList x ys

def dictGet (k : Val K) : List (Val K) → List (Val K) → M (Option (Val K))
  | y :: ys, v :: vs => do
    if (← primEq k y) then pure (some v) else dictGet k ys vs
  | _, _ => pure Option.none

def dictSet (k v : Val K) : List (Val K) → List (Val K) → M (List (Val K) × List (Val K))
  | y :: ys, w :: ws => do
    if (← primEq k y) then pure (y :: ys, v :: ws)
    else do
      let (ks, vs) ← dictSet k v ys ws
      pure (y :: ks, w :: vs)
  | _, _ => pure ([k], [v])

def zipPairs : List (Val K) → List (Val K) → List (Val K)
  | k :: ks, v :: vs => .list [k, v] :: zipPairs ks vs
  | _, _ => []

def listIndex (l : List (Val K)) (i : Int) : M (Val K) :=
  let j : Int := if i < 0 then i + l.length else i
  if j < 0 then throw (.raise "IndexError") else
  match l[j.toNat]? with
  | some v => pure v
  | Option.none => throw (.raise "IndexError")

def numAbs (v : Val K) : M (Val K) :=
  match v with
  | .int i => pure (.int (if i < 0 then -i else i))
  | .bool b => pure (.int (if b then 1 else 0))
  | .num x => pure (.num (Arith.abs x))
  | _ => throw (.raise "TypeError")

/-- Python's two-argument `max` / `min` (`max(a, b)` is `b` if `b > a` else `a`) -/
def pyMax (a b : Val K) : M (Val K) := do
  if (← primLt a b) then pure b else pure a
def pyMin (a b : Val K) : M (Val K) := do
  if (← primLt b a) then pure b else pure a

def rangeList (n : Nat) : List (Val K) := (List.range n).map (fun (i : Nat) => Val.int (Int.ofNat i))

/-- builtins and library functions with a fixed meaning; `none` = not a builtin -/
def builtin (fn : String) (args : List (Val K)) : Option (M (Val K)) :=
  match fn, args with
  | "abs", [v] => some (numAbs v)
  | "max", [a, b] => some (pyMax a b)
  | "min", [a, b] => some (pyMin a b)
  | "cast", [_, v] => some (pure v)
  | "len", [.list l] => some (pure (.int l.length))
  | "len", [.dict ks _] => some (pure (.int ks.length))
  | "len", [.str s] => some (pure (.int s.length))
  | "float", [v] => some (match asNum v with | some x => pure (.num x) | Option.none => throw (.raise "TypeError"))
  | "int", [.int i] => some (pure (.int i))
  | "int", [.bool b] => some (pure (.int (if b then 1 else 0)))
  | "bool", [v] => some (pure (.bool (truthy v)))
  | "list", [.list l] => some (pure (.list l))
  | "list", [.dict ks _] => some (pure (.list ks))
  | "range", [.int n] => some (pure (.list (rangeList n.toNat)))
  | "math.floor", [v] => some (match v with
      | .num x => pure (.int (PyNum.floor x)) | .int i => pure (.int i) | _ => throw (.raise "TypeError"))
  | "math.ceil", [v] => some (match v with
      | .num x => pure (.int (PyNum.ceil x)) | .int i => pure (.int i) | _ => throw (.raise "TypeError"))
  | "math.exp", [v] => some (match asNum v with | some x => pure (.num (PyNum.exp x)) | Option.none => throw (.raise "TypeError"))
  | "math.log", [v] => some (match asNum v with | some x => pure (.num (PyNum.log x)) | Option.none => throw (.raise "TypeError"))
  | "math.sqrt", [v] => some (match asNum v with | some x => pure (.num (PyNum.sqrt x)) | Option.none => throw (.raise "TypeError"))
  | _, _ => Option.none

/-- methods of container values -/
def containerMethod (recv : Val K) (m : String) (args : List (Val K)) : Option (M (Val K)) :=
  match recv, m, args with
  | .dict _ vs, "values", [] => some (pure (.list vs))
  | .dict ks _, "keys", [] => some (pure (.list ks))
  | .dict ks vs, "items", [] => some (pure (.list (zipPairs ks vs)))
  | .dict ks vs, "get", [k] => some (do
      match (← dictGet k ks vs) with | some v => pure v | Option.none => pure .none)
  | .dict ks vs, "get", [k, d] => some (do
      match (← dictGet k ks vs) with | some v => pure v | Option.none => pure d)
  | _, _, _ => Option.none

def bindParams : List String → List (Option Expr) → List (Val K) → List (String × Val K) →
    M (Vars K × List (String × Expr))
  | [], _, [], _ => pure ([], [])
  | [], _, _ :: _, _ => throw (.raise "TypeError")
  | p :: ps, ds, a :: as, kws => do
    let (vs, pend) ← bindParams ps ds.tail as kws
    pure ((p, a) :: vs, pend)
  | p :: ps, ds, [], kws =>
    match lookupVar p kws with
    | some v => do
      let (vs, pend) ← bindParams ps ds.tail [] kws
      pure ((p, v) :: vs, pend)
    | Option.none =>
      match ds.head? with
      | some (some e) => do
        let (vs, pend) ← bindParams ps ds.tail [] kws
        pure (vs, (p, e) :: pend)
      | _ => throw (.raise "TypeError")

def dunderOf : CmpOp → Option String
  | .eq => some "__eq__" | .ne => some "__ne__" | .lt => some "__lt__" | .le => some "__le__"
  | .gt => some "__gt__" | .ge => some "__ge__" | _ => Option.none

/-- the translated method `name` of the class of the object `a`, if `a` is an object with one -/
def userMethod (env : Env K) (st : St K) (a : Val K) (name : Option String) : Option FunDef :=
  match a, name with
  | .ref addr, some d =>
    (match st.heap addr "__class__" with
     | some (.str c) => lookupFun (c ++ "." ++ d) env.prog
     | _ => Option.none)
  | _, _ => Option.none

/-- comparison of values without user-defined operators -/
def primCmp (op : CmpOp) (a b : Val K) : M (Val K) :=
  match op with
  | .eq => do pure (.bool (← primEq a b))
  | .ne => do pure (.bool (!(← primEq a b)))
  | .lt => do pure (.bool (← primLt a b))
  | .le => do pure (.bool (← primLe a b))
  | .gt => do pure (.bool (← primLt b a))
  | .ge => do pure (.bool (← primLe b a))
  | .is => do pure (.bool (← primIs a b))
  | .isNot => do pure (.bool (!(← primIs a b)))
  | .isIn =>
    (match b with
     | .list l => do pure (.bool (← memList a l))
     | .dict ks _ => do pure (.bool (← memList a ks))
     | _ => throw (.unsupported "in on a non-container"))
  | .notIn =>
    (match b with
     | .list l => do pure (.bool (!(← memList a l)))
     | .dict ks _ => do pure (.bool (!(← memList a ks)))
     | _ => throw (.unsupported "in on a non-container"))

mutual

/-- expression evaluation -/
def eval (env : Env K) : Nat → Expr → Vars K → St K → M (Val K × St K)
  | 0, _, _, _ => throw .fuel
  | n+1, e, vars, st =>
    match e with
    | .cnone => pure (.none, st)
    | .cbool b => pure (.bool b, st)
    | .cint i => pure (.int i, st)
    | .cflt a b => pure (.num (PyNum.ofInt a / PyNum.ofInt b), st)
    | .cstr s => pure (.str s, st)
    | .name x =>
      match lookupVar x vars with
      | some v => pure (v, st)
      | Option.none =>
        match env.globals x with
        | some v => pure (v, st)
        | Option.none => throw (.unbound x)
    | .attr e a => do
      let (v, st) ← eval env n e vars st
      getAttr env n v a st
    | .bin op l r => do
      let (a, st) ← eval env n l vars st
      let (b, st) ← eval env n r vars st
      let v ← arith op a b
      pure (v, st)
    | .un .not e => do
      let (a, st) ← eval env n e vars st
      pure (.bool (!truthy a), st)
    | .un .neg e => do
      let (a, st) ← eval env n e vars st
      match a with
      | .int i => pure (.int (-i), st)
      | .bool b => pure (.int (-(if b then 1 else 0)), st)
      | .num x => pure (.num (-x), st)
      | _ => throw (.raise "TypeError")
    | .and_ l r => do
      let (a, st) ← eval env n l vars st
      if truthy a then eval env n r vars st else pure (a, st)
    | .or_ l r => do
      let (a, st) ← eval env n l vars st
      if truthy a then pure (a, st) else eval env n r vars st
    | .cmp op l r => do
      let (a, st) ← eval env n l vars st
      let (b, st) ← eval env n r vars st
      cmpVals env n op a b st
    | .ife c t e => do
      let (a, st) ← eval env n c vars st
      if truthy a then eval env n t vars st else eval env n e vars st
    | .sub e i => do
      let (a, st) ← eval env n e vars st
      let (j, st) ← eval env n i vars st
      match a with
      | .list l =>
        (match asInt j with
         | some k => do pure ((← listIndex l k), st)
         | Option.none => throw (.raise "TypeError"))
      | .dict ks vs => do
        match (← dictGet j ks vs) with
        | some v => pure (v, st)
        | Option.none => throw (.raise "KeyError")
      | _ => throw (.unsupported "subscript")
    | .lst es => do
      let (vs, st) ← evalList env n es vars st
      pure (.list vs, st)
    | .call f args kwNames kwVals =>
      match f with
      | .name g =>
        (match lookupVar g vars with
         | some (.clo fd) => do
           let (as, st) ← evalList env n args vars st
           let (ks, st) ← evalList env n kwVals vars st
           callFun env n fd as (kwNames.zip ks) vars st
         | some _ => throw (.unsupported "call of a non-function value")
         | Option.none => do
           let (as, st) ← evalList env n args vars st
           let (ks, st) ← evalList env n kwVals vars st
           match builtin g as with
           | some r => do pure ((← r), st)
           | Option.none =>
             match lookupFun g env.prog with
             | some fd => callFun env n fd as (kwNames.zip ks) [] st
             | Option.none => callExt env .none g (as ++ ks) st)
      | .attr (.name md) m =>
        (match lookupVar md vars, env.globals md with
         | Option.none, Option.none => do
           -- a module: `math.floor(x)`, `heapq.heappush(q, x)`, `warnings.warn(..)`
           let (as, st) ← evalList env n args vars st
           let (ks, st) ← evalList env n kwVals vars st
           match builtin (md ++ "." ++ m) as with
           | some r => do pure ((← r), st)
           | Option.none => callExt env .none (md ++ "." ++ m) (as ++ ks) st
         | _, _ => do
           let (rv, st) ← eval env n (.name md) vars st
           let (as, st) ← evalList env n args vars st
           let (ks, st) ← evalList env n kwVals vars st
           callMethod env n rv m as (kwNames.zip ks) st)
      | .attr r m => do
        let (rv, st) ← eval env n r vars st
        let (as, st) ← evalList env n args vars st
        let (ks, st) ← evalList env n kwVals vars st
        callMethod env n rv m as (kwNames.zip ks) st
      | _ => throw (.unsupported "call of a computed callee")

def evalList (env : Env K) : Nat → List Expr → Vars K → St K → M (List (Val K) × St K)
  | 0, _, _, _ => throw .fuel
  | _+1, [], _, st => pure ([], st)
  | n+1, e :: es, vars, st => do
    let (v, st) ← eval env n e vars st
    let (vs, st) ← evalList env n es vars st
    pure (v :: vs, st)

/-- attribute read: a heap field, else a translated property of the object's class -/
def getAttr (env : Env K) : Nat → Val K → String → St K → M (Val K × St K)
  | 0, _, _, _ => throw .fuel
  | n+1, v, a, st =>
    match v with
    | .ref addr =>
      match st.heap addr a with
      | some w => pure (w, st)
      | Option.none =>
        match st.heap addr "__class__" with
        | some (.str c) =>
          (match lookupFun (c ++ "." ++ a) env.prog with
           | some fd =>
             if fd.isProperty then callFun env n fd [v] [] [] st
             else throw (.unsupported "bound method as a value")
           | Option.none => callExt env v ("." ++ a) [] st)
        | _ => throw (.raise "AttributeError")
    | _ => throw (.raise "AttributeError")

/-- an extern call: answered by the oracle and logged -/
def callExt (env : Env K) (recv : Val K) (fn : String) (args : List (Val K)) (st : St K) :
    M (Val K × St K) :=
  match env.ext st recv fn args with
  | some (v, st') => pure (v, { st' with calls := { recv := recv, fn := fn, args := args } :: st'.calls })
  | Option.none => throw (.unsupported ("extern call without an answer: " ++ fn))

def callMethod (env : Env K) : Nat → Val K → String → List (Val K) → List (String × Val K) → St K →
    M (Val K × St K)
  | 0, _, _, _, _, _ => throw .fuel
  | n+1, rv, m, as, kws, st =>
    match containerMethod rv m as with
    | some r => do pure ((← r), st)
    | Option.none =>
      match rv with
      | .ref addr =>
        (match st.heap addr "__class__" with
         | some (.str c) =>
           (match lookupFun (c ++ "." ++ m) env.prog with
            | some fd => callFun env n fd (rv :: as) kws [] st
            | Option.none => callExt env rv m (as ++ kws.map (·.2)) st)
         | _ => callExt env rv m (as ++ kws.map (·.2)) st)
      | _ => throw (.unsupported ("method " ++ m ++ " of a non-object"))

/-- call of a translated function: parameters bound positionally, then by keyword, then defaults
(evaluated at call time; they are constants in the fragment).  `outer` is the enclosing frame of
a local closure (read-only: the callee's assignments stay in its own frame). -/
def callFun (env : Env K) : Nat → FunDef → List (Val K) → List (String × Val K) → Vars K → St K →
    M (Val K × St K)
  | 0, _, _, _, _, _ => throw .fuel
  | n+1, fd, as, kws, outer, st => do
    let (bound, pend) ← bindParams fd.params fd.defaults as kws
    let (dvs, st) ← evalList env n (pend.map (·.2)) [] st
    let frame : Vars K := bound ++ (pend.map (·.1)).zip dvs ++ outer
    let (fl, _, st) ← execBlock env n fd.body frame st
    match fl with
    | .ret v => pure (v, st)
    | _ => pure (.none, st)

/-- comparison operators (user-defined `__eq__`, `__lt__`, … of translated classes are called) -/
def cmpVals (env : Env K) : Nat → CmpOp → Val K → Val K → St K → M (Val K × St K)
  | 0, _, _, _, _ => throw .fuel
  | n+1, op, a, b, st =>
    match userMethod env st a (dunderOf op) with
    | some fd => callFun env n fd [a, b] [] [] st
    | Option.none =>
      match op with
      | .ne =>
        -- the default `__ne__` inverts a user-defined `__eq__`
        (match userMethod env st a (some "__eq__") with
         | some fd => do
           let (r, st) ← callFun env n fd [a, b] [] [] st
           pure (.bool (!truthy r), st)
         | Option.none => do pure ((← primCmp op a b), st))
      | _ => do pure ((← primCmp op a b), st)

/-- store into an assignment target -/
def store (env : Env K) : Nat → Expr → Val K → Vars K → St K → M (Vars K × St K)
  | 0, _, _, _, _ => throw .fuel
  | n+1, target, v, vars, st =>
    match target with
    | .name x => pure (setVar x v vars, st)
    | .attr e a => do
      let (o, st) ← eval env n e vars st
      match o with
      | .ref addr => pure (vars, st.set addr a v)
      | _ => throw (.raise "AttributeError")
    | .sub c k => do
      let (cv, st) ← eval env n c vars st
      let (kv, st) ← eval env n k vars st
      match cv with
      | .dict ks vs => do
        let (ks', vs') ← dictSet kv v ks vs
        store env n c (.dict ks' vs') vars st
      | _ => throw (.unsupported "item assignment on a non-dict")
    | .lst ts =>
      match v with
      | .list vs => storeAll env n ts vs vars st
      | _ => throw (.raise "TypeError")
    | _ => throw (.unsupported "assignment target")

def storeAll (env : Env K) : Nat → List Expr → List (Val K) → Vars K → St K → M (Vars K × St K)
  | 0, _, _, _, _ => throw .fuel
  | _+1, [], [], vars, st => pure (vars, st)
  | n+1, t :: ts, v :: vs, vars, st => do
    let (vars, st) ← store env n t v vars st
    storeAll env n ts vs vars st
  | _+1, _, _, _, _ => throw (.raise "ValueError")

def exec (env : Env K) : Nat → Stmt → Vars K → St K → M (Flow K × Vars K × St K)
  | 0, _, _, _ => throw .fuel
  | n+1, s, vars, st =>
    match s with
    | .expr e => do
      let (_, st) ← eval env n e vars st
      pure (.normal, vars, st)
    | .assign t e => do
      let (v, st) ← eval env n e vars st
      let (vars, st) ← store env n t v vars st
      pure (.normal, vars, st)
    | .aug t op e => do
      let (a, st) ← eval env n t vars st
      let (b, st) ← eval env n e vars st
      let v ← arith op a b
      let (vars, st) ← store env n t v vars st
      pure (.normal, vars, st)
    | .ifs c t e => do
      let (a, st) ← eval env n c vars st
      if truthy a then execBlock env n t vars st else execBlock env n e vars st
    | .ret e => do
      let (v, st) ← eval env n e vars st
      pure (.ret v, vars, st)
    | .raise exc => throw (.raise exc)
    | .assert_ c => do
      let (a, st) ← eval env n c vars st
      if truthy a then pure (.normal, vars, st) else throw (.raise "AssertionError")
    | .for_ t it body => do
      let (a, st) ← eval env n it vars st
      match a with
      | .list l => execFor env n t l body vars st
      | .dict ks _ => execFor env n t ks body vars st
      | _ => throw (.raise "TypeError")
    | .while_ c body => execWhile env n c body vars st
    | .def_ name params defaults body =>
      pure (.normal, setVar name (.clo { params := params, defaults := defaults, body := body }) vars, st)
    | .continue_ => pure (.cont, vars, st)
    | .break_ => pure (.brk, vars, st)
    | .pass => pure (.normal, vars, st)

def execBlock (env : Env K) : Nat → List Stmt → Vars K → St K → M (Flow K × Vars K × St K)
  | 0, _, _, _ => throw .fuel
  | _+1, [], vars, st => pure (.normal, vars, st)
  | n+1, s :: ss, vars, st => do
    let (fl, vars, st) ← exec env n s vars st
    match fl with
    | .normal => execBlock env n ss vars st
    | other => pure (other, vars, st)

def execFor (env : Env K) : Nat → Expr → List (Val K) → List Stmt → Vars K → St K →
    M (Flow K × Vars K × St K)
  | 0, _, _, _, _, _ => throw .fuel
  | _+1, _, [], _, vars, st => pure (.normal, vars, st)
  | n+1, t, x :: xs, body, vars, st => do
    let (vars, st) ← store env n t x vars st
    let (fl, vars, st) ← execBlock env n body vars st
    match fl with
    | .brk => pure (.normal, vars, st)
    | .ret v => pure (.ret v, vars, st)
    | _ => execFor env n t xs body vars st

def execWhile (env : Env K) : Nat → Expr → List Stmt → Vars K → St K → M (Flow K × Vars K × St K)
  | 0, _, _, _, _ => throw .fuel
  | n+1, c, body, vars, st => do
    let (a, st) ← eval env n c vars st
    if truthy a then do
      let (fl, vars, st) ← execBlock env n body vars st
      match fl with
      | .brk => pure (.normal, vars, st)
      | .ret v => pure (.ret v, vars, st)
      | _ => execWhile env n c body vars st
    else pure (.normal, vars, st)

end

/-- run a translated function by qualified name -/
def run (env : Env K) (fuel : Nat) (fn : String) (args : List (Val K)) (st : St K) : M (Val K × St K) :=
  match lookupFun fn env.prog with
  | some fd => callFun env fuel fd args [] [] st
  | Option.none => throw (.unbound fn)

end Pams.Py
