/-
A big-step semantics of the fragment of Python that pams' decision code is written in
("mini-Python").  It is the *meaning* given to the abstract syntax trees which the translator
(harness/py2lean.py) dumps from /repo's current sources into `PamsGen/Code.lean`: the translator
is a serializer of `ast` nodes and carries no semantics of its own.

The semantics is *symbolic*: numbers are terms (`ITerm` for `int`, `NTerm` for `float`, `BTerm`
for `bool`) over atoms, a run produces a decision tree (`Tree`) whose inner nodes are the boolean
terms the program branched on, and the meaning of a run under a valuation `ρ` of the atoms is the
leaf reached by `Tree.denote ρ`.  With literal inputs every branch condition folds to a literal
and the tree is a single leaf — the ordinary concrete execution (this is what the driver runs and
what is compared with CPython); with atoms as inputs the same definition is a symbolic execution
whose paths can be enumerated by the kernel (`Tree.paths`, closed terms), which is what makes
"for all inputs" theorems about translated functions cheap: `Tree.denote_of_paths`.

Values: `None`, `bool`, `int` (unbounded), `float` (terms over an abstract type `K` with the
operations of `PyNum`: IEEE doubles in the driver, an ordered field in the theorems), `str`,
references to heap objects (identity + mutable fields), immutable sequences (list / tuple /
`dict.values()`), dictionaries (parallel key / value lists, insertion ordered), local closures.

State: a heap `address → field → value` (attribute reads / writes go through it, so aliasing is
respected for objects) and the log of *extern* calls — calls whose callee is not among the
translated functions are answered by an oracle `Ext` that may read and change the state; they are
recorded in order.  Containers are values (a `dict` stored in a field is copied on read and written
back on item assignment): aliasing between two names for one *container* is not modelled.

Every recursive call is on a smaller fuel, so the definition is structural; running out of fuel is
an error value (`Err.fuel`), never a silent default.
-/
import PamsModel.Arith

namespace Pams.Py

/-- what the abstract float type must provide (Python's float operations) -/
class PyNum (K : Type) extends Arith K where
  beq : K → K → Bool
  ofInt : Int → K
  floor : K → Int
  ceil : K → Int
  fmod : K → K → K
  exp : K → K
  log : K → K
  sqrt : K → K

/-! ### symbolic numbers -/

mutual
inductive ITerm where
  | lit (i : Int)
  | atom (k : Nat)
  | add (a b : ITerm)
  | sub (a b : ITerm)
  | mul (a b : ITerm)
  | neg (a : ITerm)
  | fdiv (a b : ITerm)
  | fmod (a b : ITerm)
  | ofBool (b : BTerm)
  | floor (x : NTerm)
  | ceil (x : NTerm)
inductive NTerm where
  | atom (k : Nat)
  | ofInt (a : ITerm)
  | add (a b : NTerm)
  | sub (a b : NTerm)
  | mul (a b : NTerm)
  | div (a b : NTerm)
  | neg (a : NTerm)
  | fmod (a b : NTerm)
  | exp (a : NTerm)
  | log (a : NTerm)
  | sqrt (a : NTerm)
inductive BTerm where
  | lit (b : Bool)
  | atom (k : Nat)
  | not (b : BTerm)
  | ilt (a b : ITerm)
  | ile (a b : ITerm)
  | ieq (a b : ITerm)
  | nlt (a b : NTerm)
  | nle (a b : NTerm)
  | neq (a b : NTerm)
end

deriving instance DecidableEq for ITerm, NTerm, BTerm

/-- a valuation of the atoms -/
structure Rho (K : Type) where
  i : Nat → Int
  n : Nat → K
  b : Nat → Bool

mutual
def ITerm.eval {K : Type} [PyNum K] (ρ : Rho K) : ITerm → Int
  | .lit i => i
  | .atom k => ρ.i k
  | .add a b => a.eval ρ + b.eval ρ
  | .sub a b => a.eval ρ - b.eval ρ
  | .mul a b => a.eval ρ * b.eval ρ
  | .neg a => - a.eval ρ
  | .fdiv a b => Int.fdiv (a.eval ρ) (b.eval ρ)
  | .fmod a b => Int.fmod (a.eval ρ) (b.eval ρ)
  | .ofBool b => if b.eval ρ then 1 else 0
  | .floor x => PyNum.floor (x.eval ρ)
  | .ceil x => PyNum.ceil (x.eval ρ)
def NTerm.eval {K : Type} [PyNum K] (ρ : Rho K) : NTerm → K
  | .atom k => ρ.n k
  | .ofInt a => PyNum.ofInt (a.eval ρ)
  | .add a b => a.eval ρ + b.eval ρ
  | .sub a b => a.eval ρ - b.eval ρ
  | .mul a b => a.eval ρ * b.eval ρ
  | .div a b => a.eval ρ / b.eval ρ
  | .neg a => - a.eval ρ
  | .fmod a b => PyNum.fmod (a.eval ρ) (b.eval ρ)
  | .exp a => PyNum.exp (a.eval ρ)
  | .log a => PyNum.log (a.eval ρ)
  | .sqrt a => PyNum.sqrt (a.eval ρ)
def BTerm.eval {K : Type} [PyNum K] (ρ : Rho K) : BTerm → Bool
  | .lit b => b
  | .atom k => ρ.b k
  | .not b => !b.eval ρ
  | .ilt a b => decide (a.eval ρ < b.eval ρ)
  | .ile a b => decide (a.eval ρ ≤ b.eval ρ)
  | .ieq a b => decide (a.eval ρ = b.eval ρ)
  | .nlt a b => decide (a.eval ρ < b.eval ρ)
  | .nle a b => decide (a.eval ρ ≤ b.eval ρ)
  | .neq a b => PyNum.beq (a.eval ρ) (b.eval ρ)
end

/-! smart constructors: literal folding (so that concrete runs never branch) -/
def ITerm.mkSub : ITerm → ITerm → ITerm
  | .lit a, .lit b => .lit (a - b)
  | a, b => if a = b then .lit 0 else .sub a b
def ITerm.mkAdd : ITerm → ITerm → ITerm
  | .lit a, .lit b => .lit (a + b)
  | a, .neg b => ITerm.mkSub a b
  | a, b => .add a b
def ITerm.mkMul : ITerm → ITerm → ITerm
  | .lit a, .lit b => .lit (a * b)
  | a, b => .mul a b
def ITerm.mkNeg : ITerm → ITerm
  | .lit a => .lit (-a)
  | a => .neg a
def ITerm.mkFdiv : ITerm → ITerm → ITerm
  | .lit a, .lit b => .lit (Int.fdiv a b)
  | a, b => .fdiv a b
def ITerm.mkFmod : ITerm → ITerm → ITerm
  | .lit a, .lit b => .lit (Int.fmod a b)
  | a, b => .fmod a b
def ITerm.mkOfBool : BTerm → ITerm
  | .lit b => .lit (if b then 1 else 0)
  | b => .ofBool b
def BTerm.mkNot : BTerm → BTerm
  | .lit b => .lit (!b)
  | .not b => b
  | b => .not b
/-! comparisons of a difference with zero are comparisons of its operands (`a - b < 0 ⇔ a < b` on
unbounded integers): the volume bookkeeping of the matching loop then asks questions about the
volumes themselves, which the path pruning can relate to what was asked before -/
def BTerm.mkIlt : ITerm → ITerm → BTerm
  | .lit a, .lit b => .lit (decide (a < b))
  | .sub a b, .lit 0 => if a = b then .lit false else .ilt a b
  | .lit 0, .sub a b => if a = b then .lit false else .ilt b a
  | a, b => if a = b then .lit false else .ilt a b
def BTerm.mkIle : ITerm → ITerm → BTerm
  | .lit a, .lit b => .lit (decide (a ≤ b))
  | .sub a b, .lit 0 => if a = b then .lit true else .ile a b
  | .lit 0, .sub a b => if a = b then .lit true else .ile b a
  | a, b => if a = b then .lit true else .ile a b
def BTerm.mkIeq : ITerm → ITerm → BTerm
  | .lit a, .lit b => .lit (decide (a = b))
  | .sub a b, .lit 0 => if a = b then .lit true else .ieq a b
  | .lit 0, .sub a b => if a = b then .lit true else .ieq a b
  | a, b => if a = b then .lit true else .ieq a b

/-! ### decision trees -/

inductive Tree (α : Type) where
  | leaf (a : α)
  | node (c : BTerm) (t f : Unit → Tree α)

namespace Tree
variable {α β : Type}

def bind : Tree α → (α → Tree β) → Tree β
  | leaf a, g => g a
  | node c t f, g => node c (fun u => (t u).bind g) (fun u => (f u).bind g)

def map (g : α → β) : Tree α → Tree β
  | leaf a => leaf (g a)
  | node c t f => node c (fun u => (t u).map g) (fun u => (f u).map g)

/-- the leaf reached under a valuation -/
def denote {K : Type} [PyNum K] (ρ : Rho K) : Tree α → α
  | leaf a => a
  | node c t f => if c.eval ρ then (t ()).denote ρ else (f ()).denote ρ

/-- all root-to-leaf paths: the branch conditions with the side taken, and the leaf -/
def paths : Tree α → List (List (BTerm × Bool) × α)
  | leaf a => [([], a)]
  | node c t f =>
    ((t ()).paths.map (fun p => ((c, true) :: p.1, p.2))) ++
    ((f ()).paths.map (fun p => ((c, false) :: p.1, p.2)))

/-- a property of the leaf reached follows from the same property of every path whose conditions
hold -/
theorem denote_of_paths {K : Type} [PyNum K] (ρ : Rho K) (Q : α → Prop) :
    ∀ (t : Tree α), (∀ p ∈ t.paths, (∀ cb ∈ p.1, cb.1.eval ρ = cb.2) → Q p.2) → Q (t.denote ρ)
  | leaf a, h => by
    simpa [denote] using h ([], a) (by simp [paths]) (by simp)
  | node c t f, h => by
    unfold denote
    split
    · rename_i hc
      refine denote_of_paths ρ Q (t ()) ?_
      intro p hp hq
      refine h ((c, true) :: p.1, p.2) ?_ ?_
      · simp only [paths, List.mem_append, List.mem_map]
        exact Or.inl ⟨p, hp, rfl⟩
      · intro cb hcb
        rcases List.mem_cons.1 hcb with rfl | hcb
        · simpa using hc
        · exact hq cb hcb
    · rename_i hc
      refine denote_of_paths ρ Q (f ()) ?_
      intro p hp hq
      refine h ((c, false) :: p.1, p.2) ?_ ?_
      · simp only [paths, List.mem_append, List.mem_map]
        exact Or.inr ⟨p, hp, rfl⟩
      · intro cb hcb
        rcases List.mem_cons.1 hcb with rfl | hcb
        · simpa using hc
        · exact hq cb hcb

/-! Pruned path enumeration: a node whose condition (up to negations) was already decided higher up
on the path is not a choice point — only the consistent branch is followed (and the other one is
never evaluated: the subtrees are thunks).  This is what keeps the symbolic execution of loops
finite: without it a `while` whose exit test repeats an earlier test is unrolled along
contradictory paths until the fuel runs out. -/

/-- strip negations: the positive condition and whether its value is flipped -/
def _root_.Pams.Py.BTerm.core : BTerm → BTerm × Bool
  | .not c => (c.core.1, !c.core.2)
  | c => (c, false)

theorem _root_.Pams.Py.BTerm.core_eval {K : Type} [PyNum K] (ρ : Rho K) :
    ∀ c : BTerm, c.eval ρ = ((c.core.1.eval ρ) ^^ c.core.2)
  | .not c => by
    have ih := BTerm.core_eval ρ c
    simp only [BTerm.eval, BTerm.core, ih]
    cases c.core.1.eval ρ <;> cases c.core.2 <;> rfl
  | .lit _ | .atom _ | .ilt _ _ | .ile _ _ | .ieq _ _ | .nlt _ _ | .nle _ _ | .neq _ _ => by
    simp [BTerm.core]

def lookupB (d : BTerm) : List (BTerm × Bool) → Option Bool
  | [] => match d with
    | .neq a b => if a = b then some true else none     -- `x == x` on floats (no NaN: hypothesis `hrefl` below)
    | _ => none
  | (c, b) :: rest => if c = d then some b else lookupB d rest

theorem lookupB_sound {K : Type} [PyNum K] (hrefl : ∀ x : K, PyNum.beq x x = true) (ρ : Rho K) (d : BTerm) :
    ∀ (known : List (BTerm × Bool)) (b : Bool), (∀ kb ∈ known, kb.1.eval ρ = kb.2) →
      lookupB d known = some b → d.eval ρ = b
  | [], b, _, h => by
    unfold lookupB at h
    split at h
    · rename_i x y
      split at h
      · rename_i hxy
        simp only [Option.some.injEq] at h
        subst hxy; subst h
        simp [BTerm.eval, hrefl]
      · simp at h
    · simp at h
  | (c, v) :: rest, b, hk, h => by
    unfold lookupB at h
    split at h
    · rename_i hc
      have := hk (c, v) (by simp)
      simp only [Option.some.injEq] at h
      subst hc; subst h; exact this
    · exact lookupB_sound hrefl ρ d rest b (fun kb hkb => hk kb (List.mem_cons_of_mem _ hkb)) h

/-- root-to-leaf paths pruned by a decision function `dec known c` ("is `c` already decided by the
conditions `known` of this path?"); `known`: the positive conditions decided so far with their values.
A decided node is not a choice point: only the consistent branch is followed (and the other one is
never evaluated). -/
def pathsD (dec : List (BTerm × Bool) → BTerm → Option Bool) (known : List (BTerm × Bool)) :
    Tree α → List (List (BTerm × Bool) × α)
  | leaf a => [([], a)]
  | node c t f =>
    match dec known c.core.1 with
    | some b => if (b ^^ c.core.2) then (t ()).pathsD dec known else (f ()).pathsD dec known
    | none =>
      ((t ()).pathsD dec ((c.core.1, !c.core.2) :: known)).map (fun p => ((c, true) :: p.1, p.2)) ++
      ((f ()).pathsD dec ((c.core.1, c.core.2) :: known)).map (fun p => ((c, false) :: p.1, p.2))

/-- soundness of the pruned enumeration, for any decision function that is sound under `ρ` -/
theorem denote_of_pathsD {K : Type} [PyNum K] (ρ : Rho K) (dec : List (BTerm × Bool) → BTerm → Option Bool)
    (hdec : ∀ (known : List (BTerm × Bool)) (d : BTerm) (b : Bool), (∀ kb ∈ known, kb.1.eval ρ = kb.2) →
      dec known d = some b → d.eval ρ = b) (Q : α → Prop) :
    ∀ (t : Tree α) (known : List (BTerm × Bool)), (∀ kb ∈ known, kb.1.eval ρ = kb.2) →
      (∀ p ∈ t.pathsD dec known, (∀ cb ∈ p.1, cb.1.eval ρ = cb.2) → Q p.2) → Q (t.denote ρ)
  | leaf a, _, _, h => by
    simpa [denote] using h ([], a) (by simp [pathsD]) (by simp)
  | node c t f, known, hk, h => by
    have hce := BTerm.core_eval ρ c
    unfold pathsD at h
    unfold denote
    split at h
    · rename_i b hb
      have hd := hdec known c.core.1 b hk hb
      have hcv : c.eval ρ = (b ^^ c.core.2) := by rw [hce, hd]
      by_cases hx : (b ^^ c.core.2) = true
      · rw [if_pos hx] at h
        rw [if_pos (by rw [hcv]; exact hx)]
        exact denote_of_pathsD ρ dec hdec Q (t ()) known hk h
      · rw [if_neg hx] at h
        rw [if_neg (by rw [hcv]; exact hx)]
        exact denote_of_pathsD ρ dec hdec Q (f ()) known hk h
    · by_cases hc : c.eval ρ = true
      · rw [if_pos hc]
        refine denote_of_pathsD ρ dec hdec Q (t ()) ((c.core.1, !c.core.2) :: known) ?_ ?_
        · intro kb hkb
          rcases List.mem_cons.1 hkb with rfl | hkb
          · simp only
            rw [hce] at hc
            cases h1 : c.core.1.eval ρ <;> cases h2 : c.core.2 <;> simp_all
          · exact hk kb hkb
        · intro p hp hq
          refine h ((c, true) :: p.1, p.2) ?_ ?_
          · simp only [List.mem_append, List.mem_map]
            exact Or.inl ⟨p, hp, rfl⟩
          · intro cb hcb
            rcases List.mem_cons.1 hcb with rfl | hcb
            · exact hc
            · exact hq cb hcb
      · rw [if_neg hc]
        have hc' : c.eval ρ = false := by simpa using hc
        refine denote_of_pathsD ρ dec hdec Q (f ()) ((c.core.1, c.core.2) :: known) ?_ ?_
        · intro kb hkb
          rcases List.mem_cons.1 hkb with rfl | hkb
          · simp only
            rw [hce] at hc'
            cases h1 : c.core.1.eval ρ <;> cases h2 : c.core.2 <;> simp_all
          · exact hk kb hkb
        · intro p hp hq
          refine h ((c, false) :: p.1, p.2) ?_ ?_
          · simp only [List.mem_append, List.mem_map]
            exact Or.inr ⟨p, hp, rfl⟩
          · intro cb hcb
            rcases List.mem_cons.1 hcb with rfl | hcb
            · exact hc'
            · exact hq cb hcb

/-- root-to-leaf paths that are not *syntactically* contradictory (decision: the same condition, up to
negations, occurred before; `x == x` on floats) -/
def pathsP (known : List (BTerm × Bool)) (t : Tree α) : List (List (BTerm × Bool) × α) :=
  t.pathsD (fun k d => lookupB d k) known

theorem denote_of_pathsP {K : Type} [PyNum K] (hrefl : ∀ x : K, PyNum.beq x x = true) (ρ : Rho K) (Q : α → Prop)
    (t : Tree α) (known : List (BTerm × Bool)) (hk : ∀ kb ∈ known, kb.1.eval ρ = kb.2)
    (h : ∀ p ∈ t.pathsP known, (∀ cb ∈ p.1, cb.1.eval ρ = cb.2) → Q p.2) : Q (t.denote ρ) :=
  denote_of_pathsD ρ (fun k d => lookupB d k)
    (fun known d b hk hb => lookupB_sound hrefl ρ d known b hk hb) Q t known hk h

end Tree

/-! ### syntax -/

inductive BinOp | add | sub | mul | div | floordiv | mod | pow
deriving Repr, DecidableEq
inductive CmpOp | eq | ne | lt | le | gt | ge | is | isNot | isIn | notIn
deriving Repr, DecidableEq
inductive UnOp | not | neg
deriving Repr, DecidableEq

inductive Expr where
  | cnone
  | cbool (b : Bool)
  | cint (i : Int)
  /-- float literal `n / d` (exactly the literal's decimal value) -/
  | cflt (n d : Nat)
  | cstr (s : String)
  | name (x : String)
  | attr (e : Expr) (a : String)
  | bin (op : BinOp) (l r : Expr)
  | un (op : UnOp) (e : Expr)
  | and_ (l r : Expr)
  | or_ (l r : Expr)
  | cmp (op : CmpOp) (l r : Expr)
  | ife (c t e : Expr)
  | call (f : Expr) (args : List Expr) (kwNames : List String) (kwVals : List Expr)
  | sub (e i : Expr)
  | lst (es : List Expr)
  /-- list comprehension with one generator: `[elt for target in iter if c₁ if c₂ …]` -/
  | comp (elt target iter : Expr) (conds : List Expr)
deriving Repr

inductive Stmt where
  | expr (e : Expr)
  | assign (target : Expr) (e : Expr)
  | aug (target : Expr) (op : BinOp) (e : Expr)
  | ifs (c : Expr) (t e : List Stmt)
  | ret (e : Expr)
  | raise (exc : String)
  | assert_ (c : Expr)
  | for_ (target : Expr) (iter : Expr) (body : List Stmt)
  | while_ (c : Expr) (body : List Stmt)
  | def_ (name : String) (params : List String) (defaults : List (Option Expr)) (body : List Stmt)
  | continue_
  | break_
  | pass
deriving Repr

structure FunDef where
  params : List String
  /-- default value expressions, aligned with `params` -/
  defaults : List (Option Expr)
  body : List Stmt
  isProperty : Bool := false
deriving Repr

/-! ### values, state, monad -/

inductive Val where
  | none
  | bool (b : BTerm)
  | int (i : ITerm)
  | num (x : NTerm)
  | str (s : String)
  | ref (a : Nat)
  | list (l : List Val)
  | dict (ks vs : List Val)
  | clo (f : FunDef)

inductive Err where
  | raise (exc : String)
  | fuel
  | unsupported (what : String)
  | unbound (x : String)
deriving Repr, DecidableEq

inductive Flow where
  | normal
  | ret (v : Val)
  | brk
  | cont

abbrev Vars := List (String × Val)

structure Call where
  recv : Val
  fn : String
  args : List Val

structure St where
  heap : Nat → String → Option Val
  /-- extern calls performed so far, most recent first -/
  calls : List Call
  /-- the address the next object created by the program gets -/
  next : Nat := 1000

/-- oracle for calls that leave the translated fragment -/
abbrev Ext := St → Val → String → List Val → Option (Val × St)

structure Env where
  prog : List (String × FunDef)
  globals : String → Option Val
  ext : Ext
  /-- a class and its ancestors, for `isinstance` (default: a class has no ancestors) -/
  mro : String → List String := fun c => [c]

/-- computations: a decision tree of results -/
def M (α : Type) := Tree (Except Err α)

namespace M
variable {α β : Type}
def pure (a : α) : M α := Tree.leaf (.ok a)
def fail (e : Err) : M α := Tree.leaf (.error e)
def bind (x : M α) (g : α → M β) : M β :=
  Tree.bind x (fun r => match r with | .ok a => g a | .error e => Tree.leaf (.error e))
instance : Monad M where
  pure := M.pure
  bind := M.bind
/-- branch on a boolean term; literal conditions do not create a node -/
def branch : BTerm → M Bool
  | .lit b => M.pure b
  | c => Tree.node c (fun _ => M.pure true) (fun _ => M.pure false)
end M

def St.set (st : St) (a : Nat) (f : String) (v : Val) : St :=
  { st with heap := fun a' f' => if a' = a ∧ f' = f then some v else st.heap a' f' }

def lookupVar (x : String) : Vars → Option Val
  | [] => Option.none
  | (y, v) :: rest => if x = y then some v else lookupVar x rest

def setVar (x : String) (v : Val) : Vars → Vars
  | [] => [(x, v)]
  | (y, w) :: rest => if x = y then (y, v) :: rest else (y, w) :: setVar x v rest

def lookupFun (x : String) : List (String × FunDef) → Option FunDef
  | [] => Option.none
  | (y, f) :: rest => if x = y then some f else lookupFun x rest

/-- truthiness, as a boolean term -/
def truthyT : Val → BTerm
  | .none => .lit false
  | .bool b => b
  | .int i => (BTerm.mkIeq i (.lit 0)).mkNot
  | .num x => (BTerm.neq x (.ofInt (.lit 0))).mkNot
  | .str s => .lit (s ≠ "")
  | .ref _ => .lit true
  | .list l => .lit (!l.isEmpty)
  | .dict ks _ => .lit (!ks.isEmpty)
  | .clo _ => .lit true

def truthy (v : Val) : M Bool := M.branch (truthyT v)

/-- the float a numeric value stands for -/
def asNum : Val → Option NTerm
  | .num x => some x
  | .int i => some (.ofInt i)
  | .bool b => some (.ofInt (ITerm.mkOfBool b))
  | _ => Option.none

def asInt : Val → Option ITerm
  | .int i => some i
  | .bool b => some (ITerm.mkOfBool b)
  | _ => Option.none

/-- `==` on values without a user-defined `__eq__` (a boolean term) -/
def primEq : Val → Val → Except Err BTerm
  | .none, .none => .ok (.lit true)
  | .str a, .str b => .ok (.lit (a = b))
  | .ref a, .ref b => .ok (.lit (a = b))
  | .num a, .num b => .ok (.neq a b)
  | .num a, .int b => .ok (.neq a (.ofInt b))
  | .int a, .num b => .ok (.neq (.ofInt a) b)
  | .num a, .bool b => .ok (.neq a (.ofInt (ITerm.mkOfBool b)))
  | .bool a, .num b => .ok (.neq (.ofInt (ITerm.mkOfBool a)) b)
  | .int a, .int b => .ok (BTerm.mkIeq a b)
  | .int a, .bool b => .ok (BTerm.mkIeq a (ITerm.mkOfBool b))
  | .bool a, .int b => .ok (BTerm.mkIeq (ITerm.mkOfBool a) b)
  | .bool a, .bool b => .ok (BTerm.mkIeq (ITerm.mkOfBool a) (ITerm.mkOfBool b))
  | .list a, .list b =>
    -- tuples / lists of literals (dictionary keys such as `(market_id1, market_id2)`): decided at once
    let rec lits : List Val → Option (List Int)
      | [] => some []
      | .int (.lit i) :: r => (lits r).map (i :: ·)
      | _ => Option.none
    match lits a, lits b with
    | some x, some y => .ok (.lit (x == y))
    | _, _ => .error (.unsupported "== on sequences")
  | .dict _ _, .dict _ _ => .error (.unsupported "== on dicts")
  | .clo _, _ => .error (.unsupported "== on functions")
  | _, .clo _ => .error (.unsupported "== on functions")
  | _, _ => .ok (.lit false)

/-- `<` on numbers (anything else is a `TypeError` in Python) -/
def primLt (a b : Val) : Except Err BTerm :=
  match asInt a, asInt b with
  | some x, some y => .ok (BTerm.mkIlt x y)
  | _, _ =>
    match asNum a, asNum b with
    | some x, some y => .ok (.nlt x y)
    | _, _ =>
      match a, b with
      | .str _, .str _ => .error (.unsupported "< on str")
      | _, _ => .error (.raise "TypeError")

def primLe (a b : Val) : Except Err BTerm :=
  match asInt a, asInt b with
  | some x, some y => .ok (BTerm.mkIle x y)
  | _, _ =>
    match asNum a, asNum b with
    | some x, some y => .ok (.nle x y)
    | _, _ =>
      match a, b with
      | .str _, .str _ => .error (.unsupported "<= on str")
      | _, _ => .error (.raise "TypeError")

/-- `is` -/
def primIs : Val → Val → Except Err BTerm
  | .none, .none => .ok (.lit true)
  | .ref a, .ref b => .ok (.lit (a = b))
  | .bool a, .bool b => .ok (BTerm.mkIeq (ITerm.mkOfBool a) (ITerm.mkOfBool b))
  | .none, _ => .ok (.lit false)
  | _, .none => .ok (.lit false)
  | .ref _, _ => .ok (.lit false)
  | _, .ref _ => .ok (.lit false)
  | .bool _, _ => .ok (.lit false)
  | _, .bool _ => .ok (.lit false)
  | _, _ => .error (.unsupported "is on unboxed values")

def liftE {α : Type} : Except Err α → M α
  | .ok a => M.pure a
  | .error e => M.fail e

def arith (op : BinOp) (a b : Val) : M Val :=
  match op with
  | .add | .sub | .mul =>
    (match asInt a, asInt b with
     | some x, some y =>
       M.pure (.int (match op with | .add => ITerm.mkAdd x y | .sub => ITerm.mkSub x y | _ => ITerm.mkMul x y))
     | _, _ =>
       match asNum a, asNum b with
       | some x, some y =>
         M.pure (.num (match op with | .add => .add x y | .sub => .sub x y | _ => .mul x y))
       | _, _ =>
         match op, a, b with
         | .add, .list x, .list y => M.pure (.list (x ++ y))
         | .add, .str x, .str y => M.pure (.str (x ++ y))
         | _, _, _ => M.fail (.raise "TypeError"))
  | .div =>
    (match asNum a, asNum b with
     | some x, some y => do
       if (← M.branch (.neq y (.ofInt (.lit 0)))) then M.fail (.raise "ZeroDivisionError")
       else M.pure (.num (.div x y))
     | _, _ => M.fail (.raise "TypeError"))
  | .floordiv =>
    (match asInt a, asInt b with
     | some x, some y => do
       if (← M.branch (BTerm.mkIeq y (.lit 0))) then M.fail (.raise "ZeroDivisionError")
       else M.pure (.int (ITerm.mkFdiv x y))
     | _, _ => M.fail (.unsupported "// on floats"))
  | .mod =>
    (match asInt a, asInt b with
     | some x, some y => do
       if (← M.branch (BTerm.mkIeq y (.lit 0))) then M.fail (.raise "ZeroDivisionError")
       else M.pure (.int (ITerm.mkFmod x y))
     | _, _ =>
       match asNum a, asNum b with
       | some x, some y => do
         if (← M.branch (.neq y (.ofInt (.lit 0)))) then M.fail (.raise "ZeroDivisionError")
         else M.pure (.num (.fmod x y))
       | _, _ => M.fail (.raise "TypeError"))
  | .pow => M.fail (.unsupported "**")

/-- membership `x in container` by identity-or-primitive-equality -/
def memList (x : Val) : List Val → M Bool
  | [] => M.pure false
  | y :: ys => do
    let c ← liftE (primEq x y)
    if (← M.branch c) then M.pure true else memList x ys

/-- the distinct items of a list in order of first occurrence (the keys of `dict.fromkeys(l)`) -/
def dedupKeys (acc : List Val) : List Val → M (List Val)
  | [] => M.pure acc
  | x :: xs => do
    if (← memList x acc) then dedupKeys acc xs else dedupKeys (acc ++ [x]) xs

def dictGet (k : Val) : List Val → List Val → M (Option Val)
  | y :: ys, v :: vs => do
    let c ← liftE (primEq k y)
    if (← M.branch c) then M.pure (some v) else dictGet k ys vs
  | _, _ => M.pure Option.none

def dictSet (k v : Val) : List Val → List Val → M (List Val × List Val)
  | y :: ys, w :: ws => do
    let c ← liftE (primEq k y)
    if (← M.branch c) then M.pure (y :: ys, v :: ws)
    else do
      let (ks, vs) ← dictSet k v ys ws
      M.pure (y :: ks, w :: vs)
  | _, _ => M.pure ([k], [v])

def dictDel (k : Val) : List Val → List Val → M (List Val × List Val)
  | y :: ys, w :: ws => do
    let c ← liftE (primEq k y)
    if (← M.branch c) then M.pure (ys, ws)
    else do
      let (ks, vs) ← dictDel k ys ws
      M.pure (y :: ks, w :: vs)
  | _, _ => M.pure ([], [])

def zipPairs : List Val → List Val → List Val
  | k :: ks, v :: vs => .list [k, v] :: zipPairs ks vs
  | _, _ => []

/-- scan for the position a symbolic index denotes: `step` is `+1` from `0` over the list (non-negative
indices) or `-1` from `-1` over the reversed list (Python counts negative indices from the end) -/
def symIdxScan (t : ITerm) (step : Int) : Int → List Val → M (Option Val)
  | _, [] => M.pure Option.none
  | k, v :: vs => do
    if (← M.branch (BTerm.mkIeq t (.lit k))) then M.pure (some v) else symIdxScan t step (k + step) vs

/-- `l[t]` for a symbolic int `t`: one branch per position `0 … n−1`, then per negative index `−1 … −n`,
else `IndexError` -/
def symIndex (l : List Val) (t : ITerm) : M Val := do
  match (← symIdxScan t 1 0 l) with
  | some v => M.pure v
  | Option.none =>
    match (← symIdxScan t (-1) (-1) l.reverse) with
    | some v => M.pure v
    | Option.none => M.fail (.raise "IndexError")

def listIndex (l : List Val) (i : Int) : M Val :=
  let j : Int := if i < 0 then i + l.length else i
  if j < 0 then M.fail (.raise "IndexError") else
  match l[j.toNat]? with
  | some v => M.pure v
  | Option.none => M.fail (.raise "IndexError")

def numAbs (v : Val) : M Val :=
  match v with
  | .int i => do
    if (← M.branch (BTerm.mkIlt i (.lit 0))) then M.pure (.int (ITerm.mkNeg i)) else M.pure (.int i)
  | .bool b => M.pure (.int (ITerm.mkOfBool b))
  | .num x => do
    -- `Arith.abs`: `-x` if `x < 0` else `x`
    if (← M.branch (.nlt x (.ofInt (.lit 0)))) then M.pure (.num (.neg x)) else M.pure (.num x)
  | _ => M.fail (.raise "TypeError")

/-- Python's two-argument `max` / `min` (`max(a, b)` is `b` if `b > a` else `a`) -/
def pyMax (a b : Val) : M Val := do
  let c ← liftE (primLt a b)
  if (← M.branch c) then M.pure b else M.pure a
def pyMin (a b : Val) : M Val := do
  let c ← liftE (primLt b a)
  if (← M.branch c) then M.pure b else M.pure a

/-- `max(xs)` / `min(xs)` of a non-empty sequence: the first maximal / minimal element -/
def maxList (acc : Val) : List Val → M Val
  | [] => M.pure acc
  | x :: xs => do
    let c ← liftE (primLt acc x)
    if (← M.branch c) then maxList x xs else maxList acc xs
def minList (acc : Val) : List Val → M Val
  | [] => M.pure acc
  | x :: xs => do
    let c ← liftE (primLt x acc)
    if (← M.branch c) then minList x xs else minList acc xs

/-- `sum(xs)`: left fold of `+` from `0` -/
def sumList (acc : Val) : List Val → M Val
  | [] => M.pure acc
  | x :: xs => do
    let a ← arith .add acc x
    sumList a xs

def rangeList (n : Nat) : List Val := (List.range n).map (fun (i : Nat) => Val.int (.lit (Int.ofNat i)))

/-- builtins and library functions with a fixed meaning; `none` = not a builtin -/
def builtin (fn : String) (args : List Val) : Option (M Val) :=
  match fn, args with
  | "abs", [v] => some (numAbs v)
  | "max", [a, b] => some (pyMax a b)
  | "min", [a, b] => some (pyMin a b)
  | "max", [.list (x :: xs)] => some (maxList x xs)
  | "min", [.list (x :: xs)] => some (minList x xs)
  | "max", [.list []] => some (M.fail (.raise "ValueError"))
  | "min", [.list []] => some (M.fail (.raise "ValueError"))
  | "sum", [.list l] => some (sumList (.int (.lit 0)) l)
  | "sum", [.list l, start] => some (sumList start l)
  | "cast", [_, v] => some (M.pure v)
  | "__len_set", [.list l] => some (do
      -- `len(set(xs))` (the translator's name for it): the number of distinct items
      let ks ← dedupKeys [] l
      M.pure (.int (.lit ks.length)))
  | "__dict_merge", [.list pairs, .dict ks2 vs2] => some (do
      -- `dict(pairs, **d)` (the translator's name for it): insert the pairs in order, then the items of `d`
      -- (a key already present keeps its position and takes the new value)
      let rec ins : List Val → List Val → List Val → M (List Val × List Val)
        | [], ks, vs => M.pure (ks, vs)
        | (.list [k, v]) :: rest, ks, vs => do
          let (ks', vs') ← dictSet k v ks vs
          ins rest ks' vs'
        | _ :: _, _, _ => M.fail (.raise "TypeError")
      let (ks, vs) ← ins pairs [] []
      let (ks, vs) ← ins (zipPairs ks2 vs2) ks vs
      M.pure (.dict ks vs))
  | "dict.fromkeys", [.list l] => some (do
      let ks ← dedupKeys [] l
      M.pure (.dict ks (ks.map (fun _ => Val.none))))
  -- `isinstance(v, T)` for the built-in scalar types (`bool` is a subclass of `int`)
  | "isinstance", [v, .str "int"] => some (M.pure (.bool (.lit (match v with | .int _ => true | .bool _ => true | _ => false))))
  | "isinstance", [v, .str "bool"] => some (M.pure (.bool (.lit (match v with | .bool _ => true | _ => false))))
  | "isinstance", [v, .str "float"] => some (M.pure (.bool (.lit (match v with | .num _ => true | _ => false))))
  | "isinstance", [v, .str "list"] => some (M.pure (.bool (.lit (match v with | .list _ => true | _ => false))))
  | "isinstance", [v, .str "dict"] => some (M.pure (.bool (.lit (match v with | .dict _ _ => true | _ => false))))
  | "isinstance", [v, .str "str"] => some (M.pure (.bool (.lit (match v with | .str _ => true | _ => false))))
  | "warnings.warn", _ => some (M.pure .none)
  | "len", [.list l] => some (M.pure (.int (.lit l.length)))
  | "len", [.dict ks _] => some (M.pure (.int (.lit ks.length)))
  | "len", [.str s] => some (M.pure (.int (.lit s.length)))
  -- `float("inf")`: a reserved num atom, whose valuation is +∞ (drivers) / bounds every price (theorems)
  | "float", [.str "inf"] => some (M.pure (.num (.atom 1000000)))
  | "float", [v] => some (match asNum v with | some x => M.pure (.num x) | Option.none => M.fail (.raise "TypeError"))
  | "int", [.int i] => some (M.pure (.int i))
  | "int", [.bool b] => some (M.pure (.int (ITerm.mkOfBool b)))
  | "int", [.num x] => some (do
      -- `int(float)` truncates toward zero
      if (← M.branch (.nlt x (.ofInt (.lit 0)))) then M.pure (.int (.ceil x)) else M.pure (.int (.floor x)))
  | "bool", [v] => some (M.pure (.bool (truthyT v)))
  | "list", [.list l] => some (M.pure (.list l))
  | "list", [.dict ks _] => some (M.pure (.list ks))
  | "range", [.int (.lit n)] => some (M.pure (.list (rangeList n.toNat)))
  | "range", [.int (.lit a), .int (.lit b)] =>
    some (M.pure (.list ((List.range (b - a).toNat).map (fun (i : Nat) => Val.int (.lit (a + Int.ofNat i))))))
  | "math.floor", [v] => some (match v with
      | .num x => M.pure (.int (.floor x)) | .int i => M.pure (.int i) | _ => M.fail (.raise "TypeError"))
  | "math.ceil", [v] => some (match v with
      | .num x => M.pure (.int (.ceil x)) | .int i => M.pure (.int i) | _ => M.fail (.raise "TypeError"))
  | "math.exp", [v] => some (match asNum v with | some x => M.pure (.num (.exp x)) | Option.none => M.fail (.raise "TypeError"))
  | "math.log", [v] => some (match asNum v with | some x => M.pure (.num (.log x)) | Option.none => M.fail (.raise "TypeError"))
  | "math.sqrt", [v] => some (match asNum v with | some x => M.pure (.num (.sqrt x)) | Option.none => M.fail (.raise "TypeError"))
  | _, _ => Option.none

/-- methods of container values -/
def containerMethod (recv : Val) (m : String) (args : List Val) : Option (M Val) :=
  match recv, m, args with
  | .dict _ vs, "values", [] => some (M.pure (.list vs))
  | .dict ks _, "keys", [] => some (M.pure (.list ks))
  | .dict ks vs, "items", [] => some (M.pure (.list (zipPairs ks vs)))
  | .dict ks vs, "copy", [] => some (M.pure (.dict ks vs))       -- containers are values: a copy is the value
  | .list l, "copy", [] => some (M.pure (.list l))
  | .dict ks vs, "get", [k] => some (do
      match (← dictGet k ks vs) with | some v => M.pure v | Option.none => M.pure .none)
  | .dict ks vs, "get", [k, d] => some (do
      match (← dictGet k ks vs) with | some v => M.pure v | Option.none => M.pure d)
  | _, _, _ => Option.none

def bindParams : List String → List (Option Expr) → List Val → List (String × Val) →
    Except Err (Vars × List (String × Expr))
  | [], _, [], _ => .ok ([], [])
  | [], _, _ :: _, _ => .error (.raise "TypeError")
  | p :: ps, ds, a :: as, kws =>
    match bindParams ps ds.tail as kws with
    | .ok (vs, pend) => .ok ((p, a) :: vs, pend)
    | .error e => .error e
  | p :: ps, ds, [], kws =>
    match lookupVar p kws with
    | some v =>
      (match bindParams ps ds.tail [] kws with
       | .ok (vs, pend) => .ok ((p, v) :: vs, pend)
       | .error e => .error e)
    | Option.none =>
      match ds.head? with
      | some (some e) =>
        (match bindParams ps ds.tail [] kws with
         | .ok (vs, pend) => .ok (vs, (p, e) :: pend)
         | .error e => .error e)
      | _ => .error (.raise "TypeError")

def dunderOf : CmpOp → Option String
  | .eq => some "__eq__" | .ne => some "__ne__" | .lt => some "__lt__" | .le => some "__le__"
  | .gt => some "__gt__" | .ge => some "__ge__" | _ => Option.none

/-- the definition of method `m` for an object of class `c`: the first one along `env.mro c` -/
def lookupMethod (env : Env) (c m : String) : Option FunDef :=
  (env.mro c).findSome? (fun k => lookupFun (k ++ "." ++ m) env.prog)

/-- the translated method `name` of the class of the object `a`, if `a` is an object with one -/
def userMethod (env : Env) (st : St) (a : Val) (name : Option String) : Option FunDef :=
  match a, name with
  | .ref addr, some d =>
    (match st.heap addr "__class__" with
     | some (.str c) => lookupMethod env c d
     | _ => Option.none)
  | _, _ => Option.none

/-- comparison of values without user-defined operators -/
def primCmp (op : CmpOp) (a b : Val) : M Val :=
  match op with
  | .eq => do M.pure (.bool (← liftE (primEq a b)))
  | .ne => do M.pure (.bool (← liftE (primEq a b)).mkNot)
  | .lt => do M.pure (.bool (← liftE (primLt a b)))
  | .le => do M.pure (.bool (← liftE (primLe a b)))
  | .gt => do M.pure (.bool (← liftE (primLt b a)))
  | .ge => do M.pure (.bool (← liftE (primLe b a)))
  | .is => do M.pure (.bool (← liftE (primIs a b)))
  | .isNot => do M.pure (.bool (← liftE (primIs a b)).mkNot)
  | .isIn =>
    (match b with
     | .list l => do M.pure (.bool (.lit (← memList a l)))
     | .dict ks _ => do M.pure (.bool (.lit (← memList a ks)))
     | _ => M.fail (.unsupported "in on a non-container"))
  | .notIn =>
    (match b with
     | .list l => do M.pure (.bool (.lit (!(← memList a l))))
     | .dict ks _ => do M.pure (.bool (.lit (!(← memList a ks))))
     | _ => M.fail (.unsupported "in on a non-container"))

/-- an extern call: answered by the oracle and logged -/
def callExt (env : Env) (recv : Val) (fn : String) (args : List Val) (st : St) : M (Val × St) :=
  match env.ext st recv fn args with
  | some (v, st') => M.pure (v, { st' with calls := { recv := recv, fn := fn, args := args } :: st'.calls })
  | Option.none => M.fail (.unsupported ("extern call without an answer: " ++ fn))

mutual

/-- expression evaluation -/
def eval (env : Env) : Nat → Expr → Vars → St → M (Val × St)
  | 0, _, _, _ => M.fail .fuel
  | n+1, e, vars, st =>
    match e with
    | .cnone => M.pure (.none, st)
    | .cbool b => M.pure (.bool (.lit b), st)
    | .cint i => M.pure (.int (.lit i), st)
    | .cflt a b =>
      -- an integral literal (`0.0`, `2.0`) is that integer as a float; otherwise the quotient, which is
      -- correctly rounded for numerator and denominator below 2^53 (the translator checks)
      if b = 1 then M.pure (.num (.ofInt (.lit a)), st)
      else M.pure (.num (.div (.ofInt (.lit a)) (.ofInt (.lit b))), st)
    | .cstr s => M.pure (.str s, st)
    | .name x =>
      match lookupVar x vars with
      | some v => M.pure (v, st)
      | Option.none =>
        match env.globals x with
        | some v => M.pure (v, st)
        | Option.none =>
          -- the built-in type objects (only ever passed to `cast` / compared by name)
          if x = "int" ∨ x = "float" ∨ x = "bool" ∨ x = "str" ∨ x = "list" ∨ x = "dict" then M.pure (.str x, st)
          else M.fail (.unbound x)
    | .attr e a => do
      let (v, st) ← eval env n e vars st
      getAttr env n v a st
    | .bin op l r => do
      let (a, st) ← eval env n l vars st
      let (b, st) ← eval env n r vars st
      let v ← arith op a b
      M.pure (v, st)
    | .un .not e => do
      let (a, st) ← eval env n e vars st
      M.pure (.bool (truthyT a).mkNot, st)
    | .un .neg e => do
      let (a, st) ← eval env n e vars st
      match a with
      | .int i => M.pure (.int (ITerm.mkNeg i), st)
      | .bool b => M.pure (.int (ITerm.mkNeg (ITerm.mkOfBool b)), st)
      | .num x => M.pure (.num (.neg x), st)
      | _ => M.fail (.raise "TypeError")
    | .and_ l r => do
      let (a, st) ← eval env n l vars st
      if (← truthy a) then eval env n r vars st else M.pure (a, st)
    | .or_ l r => do
      let (a, st) ← eval env n l vars st
      if (← truthy a) then M.pure (a, st) else eval env n r vars st
    | .cmp op l r => do
      let (a, st) ← eval env n l vars st
      let (b, st) ← eval env n r vars st
      cmpVals env n op a b st
    | .ife c t e => do
      let (a, st) ← eval env n c vars st
      if (← truthy a) then eval env n t vars st else eval env n e vars st
    | .sub e i => do
      let (a, st) ← eval env n e vars st
      let (j, st) ← eval env n i vars st
      match a with
      | .list l =>
        (match j with
         | .int (.lit k) => do M.pure ((← listIndex l k), st)
         | .int t => do M.pure ((← symIndex l t), st)
         | _ => M.fail (.unsupported "index that is not an int"))
      | .dict ks vs => do
        match (← dictGet j ks vs) with
        | some v => M.pure (v, st)
        | Option.none => M.fail (.raise "KeyError")
      | _ => M.fail (.unsupported "subscript")
    | .lst es => do
      let (vs, st) ← evalList env n es vars st
      M.pure (.list vs, st)
    | .comp elt target iter conds => do
      let (a, st) ← eval env n iter vars st
      match a with
      | .list l => do
        let (vs, st) ← evalComp env n elt target conds l vars st
        M.pure (.list vs, st)
      | .dict ks _ => do
        let (vs, st) ← evalComp env n elt target conds ks vars st
        M.pure (.list vs, st)
      | _ => M.fail (.raise "TypeError")
    | .call f args kwNames kwVals =>
      match f with
      | .name g =>
        (match lookupVar g vars with
         | some (.clo fd) => do
           let (as, st) ← evalList env n args vars st
           let (ks, st) ← evalList env n kwVals vars st
           callFun env n fd as (kwNames.zip ks) vars st
         | some _ => M.fail (.unsupported "call of a non-function value")
         | Option.none => do
           let (as, st) ← evalList env n args vars st
           let (ks, st) ← evalList env n kwVals vars st
           match g, as with
           | "len", [.ref a] => callMethod env n (.ref a) "__len__" [] [] st     -- `len(obj)` is `obj.__len__()`
           -- `isinstance(obj, C)` for an object and a class given by name: `C` is the object's class or one of
           -- its ancestors (`env.mro`, generated from the class statements of the source)
           | "issubclass", [.str c, .str d] => M.pure (.bool (.lit ((env.mro c).contains d)), st)
           | "isinstance", [.ref a, .str c] =>
             M.pure (.bool (.lit (match st.heap a "__class__" with | some (.str c') => (env.mro c').contains c | _ => false)), st)
           | _, _ =>
           match builtin g as with
           | some r => do M.pure ((← r), st)
           | Option.none =>
             match lookupFun g env.prog with
             | some fd => callFun env n fd as (kwNames.zip ks) [] st
             | Option.none =>
               match lookupFun (g ++ ".__init__") env.prog with
               | some fd => do
                 -- instantiation of a translated class: a fresh object, then its `__init__`
                 let a := st.next
                 let st := { (st.set a "__class__" (.str g)) with next := a + 1 }
                 let (_, st) ← callFun env n fd (.ref a :: as) (kwNames.zip ks) [] st
                 M.pure (.ref a, st)
               | Option.none => callExt env .none g (as ++ ks) st)
      | .attr (.name "heapq") hop =>
        -- `heapq` on a list held in an object's field.  Contract modelled: `q[0]` is the least element
        -- by the elements' `__lt__` (true of any heap, in particular of a sorted list): `heappush`
        -- inserts before the first element the new one is less than, `heappop` removes the least and
        -- sorts the rest, `heapify` sorts.  The positions of the other elements are CPython's heap
        -- layout there and (eventually) sorted order here: compared as multisets by the differential check.
        (match args with
         | target :: rest => do
           let (q, st) ← eval env n target vars st
           match q, hop, rest with
           | .list l, "heappush", [xe] => do
             let (x, st) ← eval env n xe vars st
             let (l', st) ← sortedInsert env n x l st
             let (_, st) ← storeField env n target (.list l') vars st
             M.pure (.none, st)
           | .list l, "heappop", [] =>
             (match l with
              | [] => M.fail (.raise "IndexError")
              | x :: xs => do
                -- the least element leaves; the others are put in order (CPython restores the heap
                -- property here, so that `q[0]` is the least of what is left — also when the list came
                -- in CPython's heap layout, which is not sorted)
                let (m, rest, st) ← popMin env n x xs st
                let (rest, st) ← sortAll env n rest st
                let (_, st) ← storeField env n target (.list rest) vars st
                M.pure (m, st))
           | .list l, "heapify", [] => do
             let (l', st) ← sortAll env n l st
             let (_, st) ← storeField env n target (.list l') vars st
             M.pure (.none, st)
           | _, _, _ => M.fail (.unsupported ("heapq." ++ hop))
         | [] => M.fail (.raise "TypeError"))
      | .attr (.name md) m =>
        (match lookupVar md vars, env.globals md with
         | Option.none, Option.none => do
           -- a module: `math.floor(x)`, `heapq.heappush(q, x)`, `warnings.warn(..)`
           let (as, st) ← evalList env n args vars st
           let (ks, st) ← evalList env n kwVals vars st
           match builtin (md ++ "." ++ m) as with
           | some r => do M.pure ((← r), st)
           | Option.none => callExt env .none (md ++ "." ++ m) (as ++ ks) st
         | _, _ => do
           let (rv, st) ← eval env n (.name md) vars st
           let (as, st) ← evalList env n args vars st
           let (ks, st) ← evalList env n kwVals vars st
           callMethod env n rv m as (kwNames.zip ks) st)
      | .attr r m => do
        let (rv, st) ← eval env n r vars st
        let (as, st) ← evalList env n args vars st
        let (ks, st) ← evalList env n kwVals vars st
        callMethod env n rv m as (kwNames.zip ks) st
      | _ => M.fail (.unsupported "call of a computed callee")

def evalList (env : Env) : Nat → List Expr → Vars → St → M (List Val × St)
  | 0, _, _, _ => M.fail .fuel
  | _+1, [], _, st => M.pure ([], st)
  | n+1, e :: es, vars, st => do
    let (v, st) ← eval env n e vars st
    let (vs, st) ← evalList env n es vars st
    M.pure (v :: vs, st)

/-- `a < b` as the program sees it (a user-defined `__lt__` is called), decided -/
def ltVals (env : Env) : Nat → Val → Val → St → M (Bool × St)
  | 0, _, _, _ => M.fail .fuel
  | n+1, a, b, st => do
    let (r, st) ← cmpVals env n .lt a b st
    let c ← truthy r
    M.pure (c, st)

/-- insert before the first element that `x` is less than -/
def sortedInsert (env : Env) : Nat → Val → List Val → St → M (List Val × St)
  | 0, _, _, _ => M.fail .fuel
  | _+1, x, [], st => M.pure ([x], st)
  | n+1, x, y :: ys, st => do
    let (c, st) ← ltVals env n x y st
    if c then M.pure (x :: y :: ys, st)
    else do
      let (r, st) ← sortedInsert env n x ys st
      M.pure (y :: r, st)

/-- the least element of `m :: rest` (first among equals) and the others in their order -/
def popMin (env : Env) : Nat → Val → List Val → St → M (Val × List Val × St)
  | 0, _, _, _ => M.fail .fuel
  | _+1, m, [], st => M.pure (m, [], st)
  | n+1, m, y :: ys, st => do
    let (c, st) ← ltVals env n y m st
    if c then do
      let (m', r, st) ← popMin env n y ys st
      M.pure (m', m :: r, st)
    else do
      let (m', r, st) ← popMin env n m ys st
      M.pure (m', y :: r, st)

/-- insertion sort by `__lt__` -/
def sortAll (env : Env) : Nat → List Val → St → M (List Val × St)
  | 0, _, _ => M.fail .fuel
  | _+1, [], st => M.pure ([], st)
  | n+1, x :: xs, st => do
    let (r, st) ← sortAll env n xs st
    sortedInsert env n x r st

/-- `item == x` as `list.__contains__` / `list.remove` evaluate it: identity first, then the
item's `__eq__` -/
def itemEq (env : Env) : Nat → Val → Val → St → M (Bool × St)
  | 0, _, _, _ => M.fail .fuel
  | n+1, item, x, st =>
    match item, x with
    | .ref a, .ref b =>
      if a = b then M.pure (true, st)
      else do
        let (r, st) ← cmpVals env n .eq item x st
        let c ← truthy r
        M.pure (c, st)
    | _, _ => do
      let (r, st) ← cmpVals env n .eq item x st
      let c ← truthy r
      M.pure (c, st)

def memListU (env : Env) : Nat → Val → List Val → St → M (Bool × St)
  | 0, _, _, _ => M.fail .fuel
  | _+1, _, [], st => M.pure (false, st)
  | n+1, x, y :: ys, st => do
    let (c, st) ← itemEq env n y x st
    if c then M.pure (true, st) else memListU env n x ys st

/-- `list.remove(x)`: drop the first item equal to `x` (`none` = no such item) -/
def removeFirst (env : Env) : Nat → Val → List Val → St → M (Option (List Val) × St)
  | 0, _, _, _ => M.fail .fuel
  | _+1, _, [], st => M.pure (Option.none, st)
  | n+1, x, y :: ys, st => do
    let (c, st) ← itemEq env n y x st
    if c then M.pure (some ys, st)
    else do
      let (r, st) ← removeFirst env n x ys st
      M.pure (r.map (y :: ·), st)

/-- store into a target that must be a heap location (not a local variable) -/
def storeField (env : Env) : Nat → Expr → Val → Vars → St → M (Unit × St)
  | 0, _, _, _, _ => M.fail .fuel
  | n+1, target, v, vars, st =>
    match target with
    | .attr _ _ => do
      let (_, st) ← store env n target v vars st
      M.pure ((), st)
    | _ => M.fail (.unsupported "heapq on a local list")

/-- the elements of a comprehension (its variable lives in a frame of its own) -/
def evalComp (env : Env) : Nat → Expr → Expr → List Expr → List Val → Vars → St → M (List Val × St)
  | 0, _, _, _, _, _, _ => M.fail .fuel
  | _+1, _, _, _, [], _, st => M.pure ([], st)
  | n+1, elt, target, conds, x :: xs, vars, st => do
    let (vars', st) ← store env n target x vars st
    let (keep, st) ← evalConds env n conds vars' st
    if keep then do
      let (v, st) ← eval env n elt vars' st
      let (vs, st) ← evalComp env n elt target conds xs vars st
      M.pure (v :: vs, st)
    else evalComp env n elt target conds xs vars st

def evalConds (env : Env) : Nat → List Expr → Vars → St → M (Bool × St)
  | 0, _, _, _ => M.fail .fuel
  | _+1, [], _, st => M.pure (true, st)
  | n+1, c :: cs, vars, st => do
    let (a, st) ← eval env n c vars st
    if (← truthy a) then evalConds env n cs vars st else M.pure (false, st)

/-- attribute read: a heap field, else a translated property of the object's class -/
def getAttr (env : Env) : Nat → Val → String → St → M (Val × St)
  | 0, _, _, _ => M.fail .fuel
  | n+1, v, a, st =>
    match v with
    | .ref addr =>
      match st.heap addr a with
      | some w => M.pure (w, st)
      | Option.none =>
        match st.heap addr "__class__" with
        | some (.str c) =>
          (match lookupMethod env c a with
           | some fd =>
             if fd.isProperty then callFun env n fd [v] [] [] st
             else M.fail (.unsupported "bound method as a value")
           | Option.none => callExt env v ("." ++ a) [] st)
        | _ => M.fail (.raise "AttributeError")
    | _ => M.fail (.raise "AttributeError")

def callMethod (env : Env) : Nat → Val → String → List Val → List (String × Val) → St → M (Val × St)
  | 0, _, _, _, _, _ => M.fail .fuel
  | n+1, rv, m, as, kws, st =>
    match containerMethod rv m as with
    | some r => do M.pure ((← r), st)
    | Option.none =>
      match rv with
      | .ref addr =>
        (match st.heap addr "__class__" with
         | some (.str c) =>
           (match lookupMethod env c m with
            | some fd => callFun env n fd (rv :: as) kws [] st
            | Option.none => callExt env rv m (as ++ kws.map (·.2)) st)
         | _ => callExt env rv m (as ++ kws.map (·.2)) st)
      | _ => M.fail (.unsupported ("method " ++ m ++ " of a non-object"))

/-- call of a translated function: parameters bound positionally, then by keyword, then defaults
(evaluated at call time; they are constants in the fragment).  `outer` is the enclosing frame of
a local closure (read-only: the callee's assignments stay in its own frame). -/
def callFun (env : Env) : Nat → FunDef → List Val → List (String × Val) → Vars → St → M (Val × St)
  | 0, _, _, _, _, _ => M.fail .fuel
  | n+1, fd, as, kws, outer, st => do
    let (bound, pend) ← liftE (bindParams fd.params fd.defaults as kws)
    let (dvs, st) ← evalList env n (pend.map (·.2)) [] st
    let frame : Vars := bound ++ (pend.map (·.1)).zip dvs ++ outer
    let (fl, _, st) ← execBlock env n fd.body frame st
    match fl with
    | .ret v => M.pure (v, st)
    | _ => M.pure (.none, st)

/-- comparison operators (user-defined `__eq__`, `__lt__`, … of translated classes are called) -/
def cmpVals (env : Env) : Nat → CmpOp → Val → Val → St → M (Val × St)
  | 0, _, _, _, _ => M.fail .fuel
  | n+1, op, a, b, st =>
    match userMethod env st a (dunderOf op) with
    | some fd => callFun env n fd [a, b] [] [] st
    | Option.none =>
      match op with
      | .isIn =>
        (match b with
         | .list l => do
           let (r, st) ← memListU env n a l st
           M.pure (.bool (.lit r), st)
         | _ => do M.pure ((← primCmp op a b), st))
      | .notIn =>
        (match b with
         | .list l => do
           let (r, st) ← memListU env n a l st
           M.pure (.bool (.lit (!r)), st)
         | _ => do M.pure ((← primCmp op a b), st))
      | .ne =>
        -- the default `__ne__` inverts a user-defined `__eq__`
        (match userMethod env st a (some "__eq__") with
         | some fd => do
           let (r, st) ← callFun env n fd [a, b] [] [] st
           M.pure (.bool (truthyT r).mkNot, st)
         | Option.none => do M.pure ((← primCmp op a b), st))
      | _ => do M.pure ((← primCmp op a b), st)

/-- store into an assignment target -/
def store (env : Env) : Nat → Expr → Val → Vars → St → M (Vars × St)
  | 0, _, _, _, _ => M.fail .fuel
  | n+1, target, v, vars, st =>
    match target with
    | .name x => M.pure (setVar x v vars, st)
    | .attr e a => do
      let (o, st) ← eval env n e vars st
      match o with
      | .ref addr => M.pure (vars, st.set addr a v)
      | _ => M.fail (.raise "AttributeError")
    | .sub c k => do
      let (cv, st) ← eval env n c vars st
      let (kv, st) ← eval env n k vars st
      match cv with
      | .dict ks vs => do
        let (ks', vs') ← dictSet kv v ks vs
        store env n c (.dict ks' vs') vars st
      | .list l =>
        (match kv with
         | .int (.lit i) =>
           let j : Int := if i < 0 then i + l.length else i
           if j < 0 ∨ j ≥ l.length then M.fail (.raise "IndexError")
           else store env n c (.list (l.set j.toNat v)) vars st
         | _ => M.fail (.unsupported "symbolic index"))
      | _ => M.fail (.unsupported "item assignment on this value")
    | .lst ts =>
      match v with
      | .list vs => storeAll env n ts vs vars st
      | _ => M.fail (.raise "TypeError")
    | _ => M.fail (.unsupported "assignment target")

def storeAll (env : Env) : Nat → List Expr → List Val → Vars → St → M (Vars × St)
  | 0, _, _, _, _ => M.fail .fuel
  | _+1, [], [], vars, st => M.pure (vars, st)
  | n+1, t :: ts, v :: vs, vars, st => do
    let (vars, st) ← store env n t v vars st
    storeAll env n ts vs vars st
  | _+1, _, _, _, _ => M.fail (.raise "ValueError")

def exec (env : Env) : Nat → Stmt → Vars → St → M (Flow × Vars × St)
  | 0, _, _, _ => M.fail .fuel
  | n+1, s, vars, st =>
    match s with
    | .expr (.call (.attr target "append") [arg] [] []) => do
      -- `xs.append(v)` on a list held in a variable / field: the container is a value, so this is
      -- `xs = xs + [v]` (another name for the same list object would not see it: not modelled)
      let (c, st) ← eval env n target vars st
      match c with
      | .list l => do
        let (v, st) ← eval env n arg vars st
        let (vars, st) ← store env n target (.list (l ++ [v])) vars st
        M.pure (.normal, vars, st)
      | .ref _ => do
        let (_, st) ← eval env n (.call (.attr target "append") [arg] [] []) vars st
        M.pure (.normal, vars, st)
      | _ => M.fail (.unsupported "append on this value")
    | .expr (.call (.attr target "extend") [arg] [] []) => do
      -- `xs.extend(ys)` on a list held in a variable / field: `xs = xs + list(ys)` (same caveat as `append`)
      let (c, st) ← eval env n target vars st
      match c with
      | .list l => do
        let (v, st) ← eval env n arg vars st
        match v with
        | .list l2 => do
          let (vars, st) ← store env n target (.list (l ++ l2)) vars st
          M.pure (.normal, vars, st)
        | _ => M.fail (.unsupported "extend by this value")
      | .ref _ => do
        let (_, st) ← eval env n (.call (.attr target "extend") [arg] [] []) vars st
        M.pure (.normal, vars, st)
      | _ => M.fail (.unsupported "extend on this value")
    | .expr (.call (.attr target "remove") [arg] [] []) => do
      let (c, st) ← eval env n target vars st
      match c with
      | .list l => do
        let (x, st) ← eval env n arg vars st
        let (r, st) ← removeFirst env n x l st
        match r with
        | Option.none => M.fail (.raise "ValueError")
        | some l' => do
          let (vars, st) ← store env n target (.list l') vars st
          M.pure (.normal, vars, st)
      | .ref _ => do
        let (_, st) ← eval env n (.call (.attr target "remove") [arg] [] []) vars st
        M.pure (.normal, vars, st)
      | _ => M.fail (.unsupported "remove on this value")
    | .expr (.call (.attr target "pop") [arg] [] []) => do
      let (c, st) ← eval env n target vars st
      match c with
      | .dict ks vs => do
        let (k, st) ← eval env n arg vars st
        match (← dictGet k ks vs) with
        | Option.none => M.fail (.raise "KeyError")
        | some _ => do
          let (ks', vs') ← dictDel k ks vs
          let (vars, st) ← store env n target (.dict ks' vs') vars st
          M.pure (.normal, vars, st)
      | .ref _ => do
        let (_, st) ← eval env n (.call (.attr target "pop") [arg] [] []) vars st
        M.pure (.normal, vars, st)
      | _ => M.fail (.unsupported "pop on this value")
    | .expr e => do
      let (_, st) ← eval env n e vars st
      M.pure (.normal, vars, st)
    | .assign t e => do
      let (v, st) ← eval env n e vars st
      let (vars, st) ← store env n t v vars st
      M.pure (.normal, vars, st)
    | .aug t op e => do
      let (a, st) ← eval env n t vars st
      let (b, st) ← eval env n e vars st
      let v ← arith op a b
      let (vars, st) ← store env n t v vars st
      M.pure (.normal, vars, st)
    | .ifs c t e => do
      let (a, st) ← eval env n c vars st
      if (← truthy a) then execBlock env n t vars st else execBlock env n e vars st
    | .ret e => do
      let (v, st) ← eval env n e vars st
      M.pure (.ret v, vars, st)
    | .raise exc => M.fail (.raise exc)
    | .assert_ c => do
      let (a, st) ← eval env n c vars st
      if (← truthy a) then M.pure (.normal, vars, st) else M.fail (.raise "AssertionError")
    | .for_ t it body => do
      let (a, st) ← eval env n it vars st
      match a with
      | .list l => execFor env n t l body vars st
      | .dict ks _ => execFor env n t ks body vars st
      | _ => M.fail (.raise "TypeError")
    | .while_ c body => execWhile env n c body vars st
    | .def_ name params defaults body =>
      M.pure (.normal, setVar name (.clo { params := params, defaults := defaults, body := body }) vars, st)
    | .continue_ => M.pure (.cont, vars, st)
    | .break_ => M.pure (.brk, vars, st)
    | .pass => M.pure (.normal, vars, st)

def execBlock (env : Env) : Nat → List Stmt → Vars → St → M (Flow × Vars × St)
  | 0, _, _, _ => M.fail .fuel
  | _+1, [], vars, st => M.pure (.normal, vars, st)
  | n+1, s :: ss, vars, st => do
    let (fl, vars, st) ← exec env n s vars st
    match fl with
    | .normal => execBlock env n ss vars st
    | other => M.pure (other, vars, st)

def execFor (env : Env) : Nat → Expr → List Val → List Stmt → Vars → St → M (Flow × Vars × St)
  | 0, _, _, _, _, _ => M.fail .fuel
  | _+1, _, [], _, vars, st => M.pure (.normal, vars, st)
  | n+1, t, x :: xs, body, vars, st => do
    let (vars, st) ← store env n t x vars st
    let (fl, vars, st) ← execBlock env n body vars st
    match fl with
    | .brk => M.pure (.normal, vars, st)
    | .ret v => M.pure (.ret v, vars, st)
    | _ => execFor env n t xs body vars st

def execWhile (env : Env) : Nat → Expr → List Stmt → Vars → St → M (Flow × Vars × St)
  | 0, _, _, _, _ => M.fail .fuel
  | n+1, c, body, vars, st => do
    let (a, st) ← eval env n c vars st
    if (← truthy a) then do
      let (fl, vars, st) ← execBlock env n body vars st
      match fl with
      | .brk => M.pure (.normal, vars, st)
      | .ret v => M.pure (.ret v, vars, st)
      | _ => execWhile env n c body vars st
    else M.pure (.normal, vars, st)

end

/-- run a translated function by qualified name -/
def run (env : Env) (fuel : Nat) (fn : String) (args : List Val) (st : St) : M (Val × St) :=
  match lookupFun fn env.prog with
  | some fd => callFun env fuel fd args [] [] st
  | Option.none => M.fail (.unbound fn)

/-- the meaning of a run under a valuation of the atoms -/
def sem {K : Type} [PyNum K] (ρ : Rho K) (env : Env) (fuel : Nat) (fn : String) (args : List Val)
    (st : St) : Except Err (Val × St) :=
  Tree.denote ρ (run env fuel fn args st)

end Pams.Py
