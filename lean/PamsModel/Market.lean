/-
Model of `pams/market.py`: one market = two sorted sides + clock + per-step series + statistics,
and the operations the runner performs on it: `_add_order`, `_cancel_order`, `_execution`,
`_update_time`, and the `_is_running` switch.

The per-step series are kept as the *current slot* plus the list of *past slots* (most recent
first); Python keeps eight parallel lists indexed by time and refuses reads beyond `time`, so slots
beyond `time` (pre-allocated in chunks of 100) are unobservable and not modelled.

Arithmetic on prices is an uninterpreted record `PriceOps` so that every statement proved here is
syntactic in the operations (it holds for IEEE doubles as computed by Python as well as for ℚ).
-/
import PamsModel.Match

namespace Pams
variable {P : Type} [LinearOrder P]

structure PriceOps (P : Type) where
  /-- `(best_sell + best_buy) / 2.0` -/
  mid : P → P → P
  /-- `acc + volume * price` -/
  addNotional : P → Nat → P → P
  zero : P
  /-- tick snapping of an off-grid limit price (`_add_order`), identity on grid prices -/
  snap : Bool → P → P

structure Slot (P : Type) where
  market : Option P
  last : Option P
  mid : Option P
  fund : Option P
  execVol : Nat
  turnover : P
  nBuy : Nat
  nSell : Nat
deriving Repr

/-- why an order left the book -/
inductive Gone | filled | canceled | expired
deriving Repr, DecidableEq

structure Market (P : Type) where
  time : Nat
  running : Bool
  nextId : Nat
  buys : List (Order P)
  sells : List (Order P)
  /-- orders that left the book, with the volume they had when they left -/
  gone : List (Order P × Gone)
  cur : Slot P
  /-- past slots, most recent first; `past.length = time` -/
  past : List (Slot P)

inductive Err | zeroVol | sameId | noPrice | notRunning | stillExecutable | future | unknownOrder
  | wrongMarket | alreadySubmitted
deriving Repr, DecidableEq

structure Fill (P : Type) where
  time : Nat
  buyAgent : Nat
  sellAgent : Nat
  buyId : Nat
  sellId : Nat
  price : P
  vol : Nat
deriving Repr

structure OrderLog (P : Type) where
  id : Nat
  time : Nat
  agent : Nat
  isBuy : Bool
  price : Option P
  vol : Nat
  ttl : Option Nat
deriving Repr

structure CancelLog (P : Type) where
  id : Nat
  cancelTime : Nat
  orderTime : Nat
  agent : Nat
  isBuy : Bool
  price : Option P
  vol : Nat
  ttl : Option Nat
deriving Repr

structure ExpiryLog (P : Type) where
  id : Nat
  time : Nat
  orderTime : Nat
  agent : Nat
  isBuy : Bool
  price : Option P
  vol : Nat
  ttl : Option Nat
deriving Repr

/-- a submission as the runner hands it to `_add_order` (no stamp yet) -/
structure Req (P : Type) where
  agent : Nat
  isBuy : Bool
  price : Option P
  vol : Nat
  ttl : Option Nat
deriving Repr

/-- the mid-quote the book implies: `(best ask + best bid) / 2.0` if both best orders are limit
orders, else `None` -/
def midOf (ops : PriceOps P) (buys sells : List (Order P)) : Option P :=
  match Book.bestPrice buys, Book.bestPrice sells with
  | some b, some s => some (ops.mid s b)
  | _, _ => none

/-- the market-price rule: while running, the last trade price if any, else the mid-quote if any,
else the previous value; while not running, the previous value -/
def marketRule (running : Bool) (last mid prev : Option P) : Option P :=
  if running then
    match last with
    | some l => some l
    | none => match mid with
      | some x => some x
      | none => prev
  else prev

/-- `_update_market_price()` -/
def Market.refresh (ops : PriceOps P) (m : Market P) : Market P :=
  { m with cur := { m.cur with
      mid := midOf ops m.buys m.sells,
      market := marketRule m.running m.cur.last (midOf ops m.buys m.sells) m.cur.market } }

/-- `_add_order(order)` for an unstamped order addressed to this market -/
def Market.addOrder (ops : PriceOps P) (m : Market P) (r : Req P) : Market P × OrderLog P :=
  let price := r.price.map (ops.snap r.isBuy)
  let o : Order P := { id := m.nextId, agent := r.agent, isBuy := r.isBuy, price := price,
                       vol := r.vol, placedAt := m.time, ttl := r.ttl }
  let m1 : Market P :=
    if r.isBuy then { m with nextId := m.nextId + 1, buys := Book.insert o m.buys }
    else { m with nextId := m.nextId + 1, sells := Book.insert o m.sells }
  let m2 := m1.refresh ops
  let m3 : Market P :=
    if r.isBuy then { m2 with cur := { m2.cur with nBuy := m2.cur.nBuy + 1 } }
    else { m2 with cur := { m2.cur with nSell := m2.cur.nSell + 1 } }
  (m3, { id := o.id, time := m.time, agent := r.agent, isBuy := r.isBuy, price := price,
         vol := r.vol, ttl := r.ttl })

/-- `_add_order(order)` with its guards: the order must name this market and carry no stamp
(`placed_at` / `order_id` are `None`); acceptance stamps the object, so it is rejected next time. -/
def Market.submit (ops : PriceOps P) (m : Market P) (marketOk stamped : Bool) (r : Req P) :
    Except Err (Market P × OrderLog P) :=
  if !marketOk then .error .wrongMarket
  else if stamped then .error .alreadySubmitted
  else .ok (m.addOrder ops r)

def findOrder (id : Nat) (l : List (Order P)) : Option (Order P) := l.find? (fun x => x.id = id)

/-- `_cancel_order(Cancel(order))` where `order` is the accepted order with id `id`.
The log reports the order's *current* volume (remaining if resting, the volume it left with
otherwise).  Cancelling an order that already left the book changes nothing but is logged again. -/
def Market.cancel (ops : PriceOps P) (m : Market P) (id : Nat) :
    Except Err (Market P × CancelLog P) :=
  let mkLog (o : Order P) : CancelLog P :=
    { id := o.id, cancelTime := m.time, orderTime := o.placedAt, agent := o.agent,
      isBuy := o.isBuy, price := o.price, vol := o.vol, ttl := o.ttl }
  match findOrder id m.buys with
  | some o =>
    let m1 := { m with buys := Book.remove id m.buys, gone := (o, Gone.canceled) :: m.gone }
    .ok (m1.refresh ops, mkLog o)
  | none =>
    match findOrder id m.sells with
    | some o =>
      let m1 := { m with sells := Book.remove id m.sells, gone := (o, Gone.canceled) :: m.gone }
      .ok (m1.refresh ops, mkLog o)
    | none =>
      match m.gone.find? (fun g => g.1.id = id) with
      | some (o, _) => .ok (m.refresh ops, mkLog o)
      | none => .error .unknownOrder

def mkExpiry (time : Nat) (o : Order P) : ExpiryLog P :=
  { id := o.id, time := time, orderTime := o.placedAt, agent := o.agent, isBuy := o.isBuy,
    price := o.price, vol := o.vol, ttl := o.ttl }

/-- `_update_time(next_fundamental_price)` for `time ≥ 0 → time + 1` -/
def Market.tick (ops : PriceOps P) (m : Market P) (fund : Option P) : Market P × List (ExpiryLog P) :=
  let t := m.time + 1
  let eb := Book.expiredAt t m.buys
  let es := Book.expiredAt t m.sells
  let mk : Option P := marketRule m.running m.cur.last m.cur.mid m.cur.market
  let cur' : Slot P := { market := mk, last := m.cur.last, mid := m.cur.mid, fund := fund,
                         execVol := 0, turnover := ops.zero, nBuy := 0, nSell := 0 }
  ({ m with time := t, buys := Book.keepAt t m.buys, sells := Book.keepAt t m.sells,
            gone := (es.map (·, Gone.expired)) ++ (eb.map (·, Gone.expired)) ++ m.gone,
            cur := cur', past := m.cur :: m.past },
   eb.map (mkExpiry t) ++ es.map (mkExpiry t))


/-- a pre-allocated slot nothing has been written to (`None` prices, zero counters) -/
def Slot.empty (ops : PriceOps P) : Slot P :=
  { market := none, last := none, mid := none, fund := none, execVol := 0, turnover := ops.zero,
    nBuy := 0, nSell := 0 }

/-- the most recent recorded value of a price series (`[x for x in series[:t] if x is not None][-1]`) -/
def carryOf (f : Slot P → Option P) (slots : List (Slot P)) : Option P := slots.findSome? f

/-- `_set_time(time + k, next_fundamental_price)` for `k ≥ 1`: the clock jumps by `k`, every order
whose life ended before the new time expires, the skipped slots stay empty, and the new slot
carries the most recent last-trade / mid / market price (semi-public; the runner itself only ever
advances by one step with `_update_time`) -/
def Market.setTime (ops : PriceOps P) (m : Market P) (k : Nat) (fund : Option P) :
    Market P × List (ExpiryLog P) :=
  let t := m.time + k
  let eb := Book.expiredAt t m.buys
  let es := Book.expiredAt t m.sells
  let hist := m.cur :: m.past
  let last := carryOf (·.last) hist
  let mid := carryOf (·.mid) hist
  let mk0 := carryOf (·.market) hist
  let prev : Slot P := if k = 1 then m.cur else Slot.empty ops
  let mk : Option P :=
    if m.running then
      match prev.last with
      | some _ => last
      | none => match prev.mid with
        | some _ => mid
        | none => mk0
    else mk0
  let cur' : Slot P := { market := mk, last := last, mid := mid, fund := fund,
                         execVol := 0, turnover := ops.zero, nBuy := 0, nSell := 0 }
  ({ m with time := t, buys := Book.keepAt t m.buys, sells := Book.keepAt t m.sells,
            gone := (es.map (·, Gone.expired)) ++ (eb.map (·, Gone.expired)) ++ m.gone,
            cur := cur', past := List.replicate (k - 1) (Slot.empty ops) ++ hist },
   eb.map (mkExpiry t) ++ es.map (mkExpiry t))

/-- state right after the first `_update_time` (clock -1 → 0): `setup` put the configured price in
slot 0, the first tick records the fundamental price -/
def Market.init (ops : PriceOps P) (marketPrice : P) (fund : Option P) : Market P :=
  { time := 0, running := false, nextId := 0, buys := [], sells := [], gone := [],
    cur := { market := some marketPrice, last := none, mid := none, fund := fund, execVol := 0,
             turnover := ops.zero, nBuy := 0, nSell := 0 },
    past := [] }

def mkFill (time : Nat) (price : P) (pr : Pair P) : Fill P :=
  { time := time, buyAgent := pr.b.agent, sellAgent := pr.s.agent, buyId := pr.b.id,
    sellId := pr.s.id, price := price, vol := pr.vol }

/-- orders of `orig` that are no longer in `resid` (fully filled by the walk), with volume 0 -/
def filledOf (orig resid : List (Order P)) : List (Order P × Gone) :=
  (orig.filter (fun o => !(resid.any (fun r => r.id = o.id)))).map
    (fun o => ({ o with vol := 0 }, Gone.filled))

/-- book, statistics and prices after the pending pairs have all been executed at `price`
(`_execute_orders` once per pair, then the last `_update_market_price`) -/
def Market.settle (ops : PriceOps P) (m : Market P)
    (r : List (Pair P) × List (Order P) × List (Order P)) (price : P) :
    Market P × List (Fill P) :=
  let m1 : Market P :=
    { m with buys := r.2.1, sells := r.2.2,
             gone := filledOf m.buys r.2.1 ++ filledOf m.sells r.2.2 ++ m.gone,
             cur := { m.cur with last := some price,
                                 execVol := m.cur.execVol + (r.1.map (·.vol)).sum,
                                 turnover := r.1.foldl (fun acc pr => ops.addNotional acc pr.vol price)
                                               m.cur.turnover } }
  (m1.refresh ops, r.1.map (mkFill m.time price))

/-- `_execution()`.  Every Python `raise` reachable from it is an explicit `Err`:
`zeroVol` (a popped order with volume 0), `sameId` (equal ids in a limit/limit pair stamped at the
same time), `noPrice` (`price is None` after the loop), `notRunning` (`_execute_orders` refused),
`stillExecutable` (the post-condition). -/
def Market.execution (ops : PriceOps P) (m : Market P) : Except Err (Market P × List (Fill P)) :=
  if remainExecutable m.buys m.sells = false then .ok (m, [])
  else if (m.buys.any (fun o => o.vol = 0) || m.sells.any (fun o => o.vol = 0)) = true then
    .error .zeroVol
  else if (m.buys.any (fun b => m.sells.any (fun s => b.id = s.id))) = true then .error .sameId
  else
    match roundPrice (walk m.buys m.sells).1 with
    | none => .error .noPrice
    | some price =>
      if (walk m.buys m.sells).1 ≠ [] ∧ m.running = false then .error .notRunning
      else if remainExecutable (walk m.buys m.sells).2.1 (walk m.buys m.sells).2.2 = true then
        .error .stillExecutable
      else .ok (m.settle ops (walk m.buys m.sells) price)

/-- a slot of the recorded past -/
def Market.pastAt (m : Market P) (t : Nat) : Except Err (Slot P) :=
  match m.past[m.time - 1 - t]? with
  | some s => .ok s
  | none => .error .future

/-- series getters (`get_market_price(t)` …): refuse the future -/
def Market.slotAt (m : Market P) (t : Nat) : Except Err (Slot P) :=
  if t > m.time then .error .future
  else if t = m.time then .ok m.cur
  else m.pastAt t

/-- `get_vwap(t)`: total turnover / total volume up to `t`; here the two sums (division and the
NaN for zero volume are left to the caller) -/
def Market.slotsUpTo (m : Market P) (t : Nat) : List (Slot P) :=
  ((m.cur :: m.past).drop (m.time - t)).reverse

end Pams
