/-
C06 ("market queries for a time later than the current time are refused") on the *current source text* of
the market's time-indexed getters (translated on every run into `PamsGen.Code`), for a quantified clock and
a quantified query time.
-/
import PamsLemmas.SrcGetters
import Batteries.Tactic.Alias

open Pams Pams.Py Pams.Src

namespace Pams.C06

/-- every time-indexed getter refuses a query time later than the clock, before reading any slot -/
alias source_future_refused := getters_src_future_refused

/-- a query for a time `0 ≤ q ≤ now` answers the value recorded in slot `q` -/
alias source_past_answered := getters_src_past_answered

end Pams.C06
