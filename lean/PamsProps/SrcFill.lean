/-
C06 at the level of the **translated source**: `Market._fill_until` as it stands in /repo
(PamsLemmas/SrcFill.lean, by symbolic execution).
-/
import PamsLemmas.SrcFill

set_option linter.unusedSectionVars false

namespace Pams.C06
open Pams Pams.Py Pams.Src
variable {K : Type} [LinearOrder K] [NumOpsC K]

/-- **storage is extended in chunks without touching filled slots** (current source): after
`_fill_until` has made room, every one of the eight per-step series still holds all the values it held
(market, mid, last-trade and fundamental prices, executed volume, turnover, buy and sell order counts),
followed by fresh slots with that series' own neutral value; when there is room already, nothing
changes. -/
theorem source_storage_growth_keeps_values (x : Nat → K) (n : Nat → Int) :
    resultG fillObs (rhoFill x n) env FUEL "Market._fill_until" [.ref 5, .int (.lit 2)] fillSt
      = .tuple [ .tuple [.num (x 10), .num (x 11), .none, .none], .tuple [.num (x 20), .num (x 21), .none, .none],
                 .tuple [.num (x 30), .num (x 31), .none, .none], .tuple [.num (x 40), .num (x 41), .none, .none],
                 .tuple [.int (n 50), .int (n 51), .int 0, .int 0], .tuple [.num (x 60), .num (x 61), .int 0, .int 0],
                 .tuple [.int (n 70), .int (n 71), .int 0, .int 0], .tuple [.int (n 80), .int (n 81), .int 0, .int 0] ] ∧
    resultG fillObs (rhoFill x n) env FUEL "Market._fill_until" [.ref 5, .int (.lit 1)] fillSt
      = .tuple [ .tuple [.num (x 10), .num (x 11)], .tuple [.num (x 20), .num (x 21)],
                 .tuple [.num (x 30), .num (x 31)], .tuple [.num (x 40), .num (x 41)],
                 .tuple [.int (n 50), .int (n 51)], .tuple [.num (x 60), .num (x 61)],
                 .tuple [.int (n 70), .int (n 71)], .tuple [.int (n 80), .int (n 81)] ] :=
  ⟨fill_src_grows x n, fill_src_noop x n⟩

end Pams.C06
