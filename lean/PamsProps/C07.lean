/-
C07 — Reproducibility: configuration and seed determine the whole run.  PARTIAL (DESIGN §7).

What a theorem can carry: (i) at every place where the code could consult something other than
(configuration, seed) — the generated inventory `PamsGen.ambientSites`, re-extracted from /repo on
every run — the result is independent of it: each site is one of the modelled ones
(`sites_covered`, by `decide`, fails to compile when a new site appears), and the two sites that
iterate over a `set` are proved invariant under any iteration order; (ii) the seed plan: every
pseudo-random generator pams constructs is seeded by a draw of its parent generator
(`seed_plan`).  Independence from CPython's hash randomisation, global generator state and
earlier runs is a two-run property of the interpreter: it is observed by the differential runs
of the correspondence check, not proved.
-/
import PamsGen.AmbientSites
import PamsModel.Book
import Mathlib.Data.List.Sort
import Mathlib.Data.List.Dedup
import Mathlib.Data.List.Perm.Basic

namespace Pams.C07
open Pams

/-- the modelled sites -/
def allowed : List (String × String × String) :=
  [ -- iteration over a set of prices, then sorted: proved order-independent (`depth_keys_invariant`)
    ("pams/order_book.py", "OrderBook.get_price_volume", "set"),
    -- only the size of the set is used: proved order-independent (`set_size_invariant`)
    ("pams/agents/arbitrage_agent.py", "ArbitrageAgent._submit_orders", "set"),
    -- documented default when the caller passes no prng: outside the property's quantifier
    -- ("the seed of the random generator handed to the runner")
    ("pams/runners/base.py", "Runner.__init__", "unseeded-Random"),
    -- wall-clock timing printed by Runner.main to stdout, not part of the outcome
    ("pams/runners/base.py", "Runner.main", "clock") ]

/-- Every ambient-nondeterminism site found in the current sources is one of the modelled ones. -/
theorem sites_covered : ∀ s ∈ PamsGen.ambientSites, s ∈ allowed := by decide

/-- Seed plan: every generator constructed anywhere in pams is seeded by a draw from its parent's
generator (runner → simulator → fundamentals → numpy generator; runner → each market, agent,
session, event), so the runner's seed determines every stream and no component shares a stream. -/
theorem seed_plan : ∀ s ∈ PamsGen.seedSites, s.2.2 = "parent-draw" := by decide

variable {P : Type} [LinearOrder P]

/-- `get_price_volume`: the price keys are taken from a `set` (arbitrary iteration order) and then
sorted; the sorted result does not depend on that order. -/
theorem depth_keys_invariant (k₁ k₂ : List P) (h : k₁.Perm k₂) :
    k₁.mergeSort (fun a b => decide (a ≤ b)) = k₂.mergeSort (fun a b => decide (a ≤ b)) := by
  have tr : ∀ a b c : P, decide (a ≤ b) = true → decide (b ≤ c) = true → decide (a ≤ c) = true := by
    intro a b c h1 h2; simp only [decide_eq_true_eq] at *; exact le_trans h1 h2
  have tot : ∀ a b : P, (decide (a ≤ b) || decide (b ≤ a)) = true := by
    intro a b; simp only [Bool.or_eq_true, decide_eq_true_eq]; exact le_total a b
  have s1 := List.pairwise_mergeSort tr tot k₁
  have s2 := List.pairwise_mergeSort tr tot k₂
  have p : (k₁.mergeSort (fun a b => decide (a ≤ b))).Perm (k₂.mergeSort (fun a b => decide (a ≤ b))) :=
    (List.mergeSort_perm k₁ _).trans (h.trans (List.mergeSort_perm k₂ _).symm)
  refine List.Perm.eq_of_pairwise ?_ s1 s2 p
  intro a b _ _ hab hba
  simp only [decide_eq_true_eq] at hab hba
  exact le_antisymm hab hba

/-- the same for the descending order used on the buy side -/
theorem depth_keys_invariant_desc (k₁ k₂ : List P) (h : k₁.Perm k₂) :
    k₁.mergeSort (fun a b => decide (b ≤ a)) = k₂.mergeSort (fun a b => decide (b ≤ a)) := by
  have tr : ∀ a b c : P, decide (b ≤ a) = true → decide (c ≤ b) = true → decide (c ≤ a) = true := by
    intro a b c h1 h2; simp only [decide_eq_true_eq] at *; exact le_trans h2 h1
  have tot : ∀ a b : P, (decide (b ≤ a) || decide (a ≤ b)) = true := by
    intro a b; simp only [Bool.or_eq_true, decide_eq_true_eq]; exact le_total b a
  have s1 := List.pairwise_mergeSort tr tot k₁
  have s2 := List.pairwise_mergeSort tr tot k₂
  have p : (k₁.mergeSort (fun a b => decide (b ≤ a))).Perm (k₂.mergeSort (fun a b => decide (b ≤ a))) :=
    (List.mergeSort_perm k₁ _).trans (h.trans (List.mergeSort_perm k₂ _).symm)
  refine List.Perm.eq_of_pairwise ?_ s1 s2 p
  intro a b _ _ hab hba
  simp only [decide_eq_true_eq] at hab hba
  exact le_antisymm hba hab

/-- the per-key volume sums do not depend on the order in which the queue is traversed either -/
theorem depth_volume_invariant (q₁ q₂ : List (Order P)) (h : q₁.Perm q₂) (key : Option P) :
    ((q₁.filter (fun o => o.price = key)).map (·.vol)).sum =
    ((q₂.filter (fun o => o.price = key)).map (·.vol)).sum :=
  ((h.filter _).map _).sum_nat

/-- `ArbitrageAgent`: only the number of distinct outstanding-share values is used; it is the same
for every iteration order of the set (every permutation of the components) -/
theorem set_size_invariant (l₁ l₂ : List Nat) (h : l₁.Perm l₂) :
    l₁.dedup.length = l₂.dedup.length := (h.dedup).length_eq

/-! Non-vacuity -/
theorem nonvacuous : PamsGen.ambientSites.length = 4 ∧ PamsGen.seedSites.length = 6 := by decide

end Pams.C07
