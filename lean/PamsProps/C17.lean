/-
C17 — Index market values are share-weighted averages of their components.
-/
import PamsModel.Index
import PamsProps.C15
import PamsProps.C06R
import Mathlib.Algebra.BigOperators.Group.List.Basic
import Mathlib.Algebra.Order.BigOperators.Group.List
import Mathlib.Tactic.Ring
import Mathlib.Tactic.FieldSimp

namespace Pams.C17
open Pams Pams.Index

variable {K : Type} [Field K] [LinearOrder K] [IsStrictOrderedRing K]

/-- total value and total shares as plain sums -/
def sumValue (comps : List (K × Nat)) : K := (comps.map (fun c => c.1 * (c.2 : K))).sum
def sumShares (comps : List (K × Nat)) : Nat := (comps.map (·.2)).sum

theorem totals_from (comps : List (K × Nat)) (a : K) (n : Nat) :
    comps.foldl (fun acc c => (acc.1 + c.1 * Arith.ofNat c.2, acc.2 + c.2)) (a, n) =
      (a + sumValue comps, n + sumShares comps) := by
  induction comps generalizing a n with
  | nil => simp [sumValue, sumShares]
  | cons c cs ih =>
    simp only [List.foldl_cons]
    rw [ih]
    simp only [sumValue, sumShares, List.map_cons, List.sum_cons, Pams.C15.arith_ofNat]
    congr 1
    · ring
    · omega

/-- The index value is the share-weighted average of the component prices:
`(Σ pᵢ·sᵢ) / (Σ sᵢ)`. -/
theorem index_weighted_avg (comps : List (K × Nat)) :
    indexValue comps = sumValue comps / (sumShares comps : K) := by
  unfold indexValue totals
  have h := totals_from comps (Arith.zero : K) 0
  simp only [Pams.C15.arith_zero] at h ⊢
  rw [h]
  simp

/-- The weighted average lies between any bounds on the component prices (in particular between
the smallest and the largest component price) when every component has a positive share count. -/
theorem index_between (comps : List (K × Nat)) (lo hi : K) (hne : comps ≠ [])
    (hpos : ∀ c ∈ comps, 0 < c.2) (hb : ∀ c ∈ comps, lo ≤ c.1 ∧ c.1 ≤ hi) :
    lo ≤ indexValue comps ∧ indexValue comps ≤ hi := by
  rw [index_weighted_avg]
  have hS : (0 : K) < (sumShares comps : K) := by
    have : 0 < sumShares comps := by
      cases comps with
      | nil => exact absurd rfl hne
      | cons c cs =>
        have := hpos c (by simp)
        simp only [sumShares, List.map_cons, List.sum_cons]
        omega
    exact_mod_cast this
  have hlo : lo * (sumShares comps : K) ≤ sumValue comps := by
    clear hne hS
    induction comps with
    | nil => simp [sumValue, sumShares]
    | cons c cs ih =>
      have h1 := ih (fun x hx => hpos x (by simp [hx])) (fun x hx => hb x (by simp [hx]))
      have h2 := (hb c (by simp)).1
      have h3 : (0 : K) ≤ (c.2 : K) := by exact_mod_cast Nat.zero_le _
      simp only [sumValue, sumShares, List.map_cons, List.sum_cons, Nat.cast_add] at h1 ⊢
      nlinarith [mul_le_mul_of_nonneg_right h2 h3]
  have hhi : sumValue comps ≤ hi * (sumShares comps : K) := by
    clear hne hS hlo
    induction comps with
    | nil => simp [sumValue, sumShares]
    | cons c cs ih =>
      have h1 := ih (fun x hx => hpos x (by simp [hx])) (fun x hx => hb x (by simp [hx]))
      have h2 := (hb c (by simp)).2
      have h3 : (0 : K) ≤ (c.2 : K) := by exact_mod_cast Nat.zero_le _
      simp only [sumValue, sumShares, List.map_cons, List.sum_cons, Nat.cast_add] at h1 ⊢
      nlinarith [mul_le_mul_of_nonneg_right h2 h3]
  exact ⟨(le_div_iff₀ hS).mpr hlo, (div_le_iff₀ hS).mpr hhi⟩

/-- With equal share counts the index is the plain arithmetic mean. -/
theorem index_equal_shares (comps : List (K × Nat)) (s : Nat) (hs : 0 < s)
    (heq : ∀ c ∈ comps, c.2 = s) (hne : comps ≠ []) :
    indexValue comps = (comps.map (·.1)).sum / (comps.length : K) := by
  rw [index_weighted_avg]
  have h1 : sumValue comps = (comps.map (·.1)).sum * (s : K) := by
    clear hne
    induction comps with
    | nil => simp [sumValue]
    | cons c cs ih =>
      have := ih (fun x hx => heq x (by simp [hx]))
      simp only [sumValue, List.map_cons, List.sum_cons] at this ⊢
      rw [this, heq c (by simp)]; ring
  have h2 : (sumShares comps : K) = (comps.length : K) * (s : K) := by
    clear hne h1
    induction comps with
    | nil => simp [sumShares]
    | cons c cs ih =>
      have := ih (fun x hx => heq x (by simp [hx]))
      simp only [sumShares, List.map_cons, List.sum_cons, List.length_cons, Nat.cast_add,
        Nat.cast_one] at this ⊢
      rw [this, heq c (by simp)]; ring
  have hs' : (s : K) ≠ 0 := by exact_mod_cast (Nat.pos_iff_ne_zero.mp hs)
  have hl : (comps.length : K) ≠ 0 := by
    cases comps with
    | nil => exact absurd rfl hne
    | cons c cs =>
      have : (c :: cs).length ≠ 0 := by simp
      exact_mod_cast this
  rw [h1, h2]
  field_simp

/-- The fundamental value an index market records when the clock advances is computed after all
its components have advanced: the scheduler advances every non-index market before any index
market (C06), so the components' values for the new time exist and are the ones averaged. -/
theorem index_fund_after_components (ms : Pams.Runner.Markets) :
    Pams.Runner.ticks ms =
      ((ms.filter (fun m => !m.2)).map (fun m => Pams.Runner.Ev.tick m.1)) ++
      ((ms.filter (fun m => m.2)).map (fun m => Pams.Runner.Ev.tick m.1)) :=
  Pams.C06R.ticks_components_first ms

/-- components must be distinct markets that declare outstanding shares -/
def addComponent (comps : List (Nat × Nat)) (m : Nat) (shares : Option Nat) : Option (List (Nat × Nat)) :=
  if comps.any (fun c => c.1 = m) then none
  else match shares with
    | none => none
    | some s => some (comps ++ [(m, s)])

theorem components_distinct_with_shares (comps : List (Nat × Nat)) (m : Nat) (shares : Option Nat)
    (r : List (Nat × Nat)) (h : addComponent comps m shares = some r) :
    (∀ c ∈ comps, c.1 ≠ m) ∧ ∃ s, shares = some s ∧ r = comps ++ [(m, s)] := by
  unfold addComponent at h
  by_cases ha : comps.any (fun c => decide (c.1 = m)) = true
  · simp [ha] at h
  · simp only [ha, Bool.false_eq_true, ↓reduceIte] at h
    rcases shares with _ | s
    · simp at h
    · simp only [Option.some.injEq] at h
      refine ⟨?_, s, rfl, h.symm⟩
      intro c hc e
      apply ha
      simp only [List.any_eq_true, decide_eq_true_eq]
      exact ⟨c, hc, e⟩

/-! Non-vacuity over ℚ -/
theorem nonvacuous : indexValue ([(300, 1000), (100, 3000)] : List (ℚ × Nat)) = 150 := by
  rw [index_weighted_avg]; norm_num [sumValue, sumShares]

end Pams.C17
