/-
C19 — Off-grid limit prices round to the tick grid, never more aggressively.
-/
import PamsModel.Tick
import Mathlib.Tactic.Linarith
import Mathlib.Tactic.FieldSimp
import Mathlib.Tactic.Ring

namespace Pams.C19
open Pams.Tick

theorem onGrid_iff (p τ : ℚ) (hτ : τ ≠ 0) : onGrid p τ = true ↔ ∃ n : ℤ, p = n * τ := by
  unfold onGrid
  simp only [decide_eq_true_eq]
  constructor
  · intro h
    refine ⟨(p / τ).num, ?_⟩
    have := Rat.num_div_den (p / τ)
    rw [h] at this
    simp at this
    rw [this]; field_simp
  · rintro ⟨n, rfl⟩
    rw [mul_div_assoc, div_self hτ, mul_one]
    simp

/-- A price already on the grid is accepted unchanged. -/
theorem snap_on_grid_id (isBuy : Bool) (p τ : ℚ) (hτ : τ ≠ 0) (h : ∃ n : ℤ, p = n * τ) :
    snap isBuy p τ = p := by
  unfold snap
  rw [(onGrid_iff p τ hτ).mpr h]; rfl

/-- A buy price moves downwards by less than one tick. -/
theorem snap_buy_bounds (p τ : ℚ) (hτ : 0 < τ) : snap true p τ ≤ p ∧ p - τ < snap true p τ := by
  unfold snap
  by_cases h : onGrid p τ = true
  · rw [if_pos h]; exact ⟨le_refl _, by linarith⟩
  · rw [if_neg h]
    simp only [↓reduceIte]
    have h1 : (⌊p / τ⌋ : ℚ) ≤ p / τ := Int.floor_le _
    have h2 : p / τ < ⌊p / τ⌋ + 1 := Int.lt_floor_add_one _
    have e : p = p / τ * τ := by field_simp
    constructor
    · calc (⌊p / τ⌋ : ℚ) * τ ≤ p / τ * τ := mul_le_mul_of_nonneg_right h1 hτ.le
        _ = p := e.symm
    · have : p / τ * τ < (⌊p / τ⌋ + 1) * τ := mul_lt_mul_of_pos_right h2 hτ
      rw [← e] at this
      linarith

/-- A sell price moves upwards by less than one tick. -/
theorem snap_sell_bounds (p τ : ℚ) (hτ : 0 < τ) : p ≤ snap false p τ ∧ snap false p τ < p + τ := by
  unfold snap
  by_cases h : onGrid p τ = true
  · rw [if_pos h]; exact ⟨le_refl _, by linarith⟩
  · rw [if_neg h]
    simp only [Bool.false_eq_true, ↓reduceIte]
    have h1 : p / τ ≤ (⌈p / τ⌉ : ℚ) := Int.le_ceil _
    have h2 : (⌈p / τ⌉ : ℚ) < p / τ + 1 := Int.ceil_lt_add_one _
    have e : p = p / τ * τ := by field_simp
    constructor
    · calc p = p / τ * τ := e
        _ ≤ (⌈p / τ⌉ : ℚ) * τ := mul_le_mul_of_nonneg_right h1 hτ.le
    · have : (⌈p / τ⌉ : ℚ) * τ < (p / τ + 1) * τ := mul_lt_mul_of_pos_right h2 hτ
      have e2 : (p / τ + 1) * τ = p + τ := by rw [add_mul, ← e, one_mul]
      linarith

/-- The accepted price is on the grid. -/
theorem snap_result_on_grid (isBuy : Bool) (p τ : ℚ) (hτ : τ ≠ 0) :
    ∃ n : ℤ, snap isBuy p τ = n * τ := by
  unfold snap
  by_cases h : onGrid p τ = true
  · rw [if_pos h]; exact (onGrid_iff p τ hτ).mp h
  · rw [if_neg h]
    cases isBuy
    · exact ⟨⌈p / τ⌉, by simp⟩
    · exact ⟨⌊p / τ⌋, by simp⟩

/-- Snapping is idempotent. -/
theorem snap_idem (isBuy : Bool) (p τ : ℚ) (hτ : τ ≠ 0) :
    snap isBuy (snap isBuy p τ) τ = snap isBuy p τ :=
  snap_on_grid_id isBuy _ τ hτ (snap_result_on_grid isBuy p τ hτ)

/-- The accepted price is never more aggressive than the submitted one: a buyer never bids more,
a seller never asks less. -/
theorem never_more_aggressive (isBuy : Bool) (p τ : ℚ) (hτ : 0 < τ) :
    if isBuy then snap isBuy p τ ≤ p else p ≤ snap isBuy p τ := by
  cases isBuy
  · exact (snap_sell_bounds p τ hτ).1
  · exact (snap_buy_bounds p τ hτ).1

/-! Non-vacuity -/
theorem nonvacuous : snap true (1003 / 10) (1 / 2) = 100 ∧ snap false (1003 / 10) (1 / 2) = 201 / 2 ∧
    snap true 100 (1 / 2) = 100 := by
  decide +kernel

end Pams.C19
