/-
C12 (parameter changes) on the *current source text* of `pams/fundamentals.py` (translated on every run into
`PamsGen.Code`): `get_fundamental_price`, `_generate_until` and `change_volatility` follow the model
`Pams.FundS` step by step along the history on which defect F8 showed — the model whose invariant (C12S:
every final step was generated with the parameter set in force at that step, for **all** operation
sequences) is proved in general.  `_generate_next` (NumPy) is an oracle that does what the model's `gen`
does; what the theorems establish about the source is the *bookkeeping*: when it generates, with which
parameter set current, and where it leaves the regeneration point.
-/
import PamsLemmas.SrcFund
import Batteries.Tactic.Alias

open Pams Pams.Py Pams.FundS Pams.Src

namespace Pams.C12

alias source_read_initial := fund_src_read_initial
alias source_change_dated_back := fund_src_change_back
/-- the repair of defect F8 on the source: the second setter first generates the steps up to its time with the
set in force before it -/
alias source_change_settles_first := fund_src_change_settles_first
alias source_read_after_changes := fund_src_read_after
alias source_history_record := fund_history_record

end Pams.C12
