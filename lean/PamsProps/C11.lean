/-
C11 — Agent callbacks: each party told exactly once of its orders, cancels, fills.
-/
import PamsLemmas.RunnerLemmas
import PamsLemmas.SourceTie

namespace Pams.C11
open Pams.Runner

/-- the callback events of a trace fragment -/
def callbacks (tr : List Ev) : List Ev := tr.filter Ev.isCallback

/-- the notifications one fill gives rise to: buyer then seller, each with that fill's record -/
def fillCallbacks : List RFill → List Ev
  | [] => []
  | f :: fs => Ev.cbExecuted f.buyer f.ref :: Ev.cbExecuted f.seller f.ref :: fillCallbacks fs

theorem callbacks_fillEvents (t : Nat) (fs : List RFill) :
    callbacks (fillEvents t fs) = fillCallbacks fs := by
  induction fs with
  | nil => rfl
  | cons f fs ih =>
    simp only [fillEvents, callbacks, List.cons_append, List.nil_append, List.filter_cons,
      Ev.isCallback, ↓reduceIte, Bool.false_eq_true, fillCallbacks] at ih ⊢
    rw [ih]

/-- Exactly-once notification for one processed request: the owner is told once of the accepted
order (or cancel); if a round follows, every fill of it yields exactly one notification to the
buyer and one to the seller (two to the same agent for a self-trade), in fill order; nothing else.
A refused request yields no notification. -/
theorem request_callbacks (t : Nat) (flag : Bool) (r : Request) :
    callbacks (processRequest t flag r).tr =
      if !r.accepted then []
      else
        (if r.isCancel then [Ev.cbCanceled r.owner r.ref] else [Ev.cbSubmitted r.owner r.ref]) ++
        (if flag then (match r.fills with | some fs => fillCallbacks fs | none => []) else []) := by
  unfold processRequest
  cases hc : r.isCancel <;> cases ha : r.accepted <;> cases hf : flag <;>
    (try rcases hfs : r.fills with _ | fs) <;>
    simp [callbacks, Ev.isCallback, List.filter_append, List.filter_cons] <;>
    (try exact callbacks_fillEvents t _)

/-- The notifications of a round come after the ledger update of the *whole* round: in the trace
of a processed request every `cbExecuted` is preceded by the round's `ledger` event, which lists
all fills of the round; the owner's `cbSubmitted`/`cbCanceled` comes after the market call and
before the after-hook. -/
theorem callbacks_after_ledger (t : Nat) (r : Request) (fs : List RFill)
    (ha : r.accepted = true) (hf : r.fills = some fs) :
    ∃ pre, (processRequest t true r).tr = pre ++ Ev.ledger (fs.map (·.ref)) :: fillEvents t fs ∧
      (∀ e ∈ pre, ∀ a ref, e ≠ Ev.cbExecuted a ref) ∧
      callbacks (fillEvents t fs) = fillCallbacks fs := by
  refine ⟨(if r.isCancel then [Ev.hookCancelBefore r.ref t, Ev.cancel r.market r.ref,
                          Ev.cbCanceled r.owner r.ref, Ev.hookCancelAfter r.ref t]
      else [Ev.hookOrderBefore r.ref t, Ev.addOrder r.market r.ref,
            Ev.cbSubmitted r.owner r.ref, Ev.hookOrderAfter r.ref t]) ++ [Ev.execution r.market], ?_, ?_,
    callbacks_fillEvents t fs⟩
  · unfold processRequest
    cases hc : r.isCancel <;> simp [ha, hf]
  · intro e he a ref
    cases hc : r.isCancel <;> simp [hc] at he <;> rcases he with rfl | rfl | rfl | rfl | rfl <;> simp

/-- No agent is notified about an event it is not a party to: every callback of a processed request
names the request's owner, or the buyer or seller of one of the round's fills. -/
theorem only_parties (t : Nat) (flag : Bool) (r : Request) :
    ∀ e ∈ (processRequest t flag r).tr, match e with
      | .cbSubmitted a ref => a = r.owner ∧ ref = r.ref ∧ r.isCancel = false
      | .cbCanceled a ref => a = r.owner ∧ ref = r.ref ∧ r.isCancel = true
      | .cbExecuted a ref => ∃ fs, r.fills = some fs ∧ ∃ f ∈ fs, f.ref = ref ∧ (a = f.buyer ∨ a = f.seller)
      | _ => True := by
  have hfe : ∀ fs : List RFill, ∀ e ∈ fillEvents t fs, match e with
      | .cbExecuted a ref => ∃ f ∈ fs, f.ref = ref ∧ (a = f.buyer ∨ a = f.seller)
      | .cbSubmitted _ _ => False
      | .cbCanceled _ _ => False
      | _ => True := by
    intro fs
    induction fs with
    | nil => simp [fillEvents]
    | cons f fs ih =>
      intro e he
      simp only [fillEvents, List.cons_append, List.nil_append, List.mem_cons] at he
      rcases he with rfl | rfl | rfl | he
      · exact ⟨f, by simp, rfl, Or.inl rfl⟩
      · exact ⟨f, by simp, rfl, Or.inr rfl⟩
      · trivial
      · have := ih e he
        cases e with
        | cbExecuted a ref =>
          obtain ⟨g, hg, h1, h2⟩ := this
          exact ⟨g, by simp [hg], h1, h2⟩
        | _ => first | trivial | exact this
  intro e he
  unfold processRequest at he
  cases hc : r.isCancel <;> cases ha : r.accepted <;> cases hfl : flag <;>
    simp only [hc, ha, hfl, Bool.not_true, Bool.not_false, Bool.false_eq_true, ↓reduceIte] at he
  all_goals try (simp at he; rcases he with rfl | rfl | rfl | rfl | rfl <;> simp)
  all_goals
    rcases hfs : r.fills with _ | fs
    · simp [hfs] at he
      rcases he with rfl | rfl | rfl | rfl | rfl | rfl <;> simp
    · simp [hfs] at he
      rcases he with rfl | rfl | rfl | rfl | rfl | rfl | he
      all_goals try simp
      have := hfe fs e he
      cases e <;> simp at this ⊢
      exact this

/-- the glue of the scheduler (collection, step frame, clock) never notifies anybody -/
theorem glue_has_no_callbacks (hft : Bool) (cap : Int) (answer : Nat → List Request) (as : List Nat)
    (n : Nat) (t : Nat) (resume : Nat → Bool) (ms : Markets) (flag : Bool) :
    callbacks (collect hft cap answer as n).1 = [] ∧ callbacks (stepBefore t resume ms flag).1 = [] ∧
    callbacks (stepAfter t ms) = [] ∧ callbacks (ticks ms) = [] := by
  refine ⟨?_, ?_, ?_, ?_⟩
  · apply List.filter_eq_nil_iff.mpr
    intro e he
    simp [(collect_no_exec hft cap answer as n e he).2.1]
  · apply List.filter_eq_nil_iff.mpr
    intro e he
    simp [(frame_not_other e (stepBefore_frame t resume ms flag e he)).2.2.1]
  · apply List.filter_eq_nil_iff.mpr
    intro e he
    simp [(frame_not_other e (stepAfter_frame t ms e he)).2.2.1]
  · apply List.filter_eq_nil_iff.mpr
    intro e he
    simp [(frame_not_other e (ticks_frame ms e he)).2.2.1]

/-! Non-vacuity: a self-trade and a second fill in one round -/
def demoFills : List RFill :=
  [{ buyer := 4, seller := 4, ref := 0, halts := false }, { buyer := 4, seller := 2, ref := 1, halts := false }]
def demo : Request :=
  { owner := 4, market := 1, isCancel := false, ref := 9, accepted := true, fills := some demoFills }
theorem nonvacuous : callbacks (processRequest 3 true demo).tr =
    [.cbSubmitted 4 9, .cbExecuted 4 0, .cbExecuted 4 0, .cbExecuted 4 1, .cbExecuted 2 1] := by decide +kernel

/-- (T) **the treatment of a request in the current sources is the model's**: for both copies of
the request loop of `_handle_orders` (normal and high-frequency branch), for orders and cancels,
with execution on and off, the calls and agent look-ups of the source in evaluation order (symbolic
walk by the translator: hook, market call, owner look-up and notification, hook; then round, ledger
update for the whole round, and per fill buyer look-up and notification, seller look-up and
notification, hook) are exactly the model's trace of `processRequest`.  Moving the ledger update
into the per-fill loop, swapping a hook and the market call, dropping a look-up or letting the two
copies drift apart makes this fail to compile. -/
theorem source_request_paths :
    ∀ x ∈ PamsGen.requestPaths, x.2.2.2 = Pams.Source.modelPath x.2.1 x.2.2.1 := by decide

theorem source_request_paths_complete :
    PamsGen.requestPaths.map (fun x => (x.1, x.2.1, x.2.2.1)) =
      [("normal", false, true), ("normal", false, false), ("normal", true, true), ("normal", true, false),
       ("hft", false, true), ("hft", false, false), ("hft", true, true), ("hft", true, false)] := by decide

end Pams.C11
