/-
C06 — One lock-step clock; no access to the future; recorded history never changes.
(market level; the runner-level clauses — all markets tick together, index markets after their
components, session spans — are in the Runner section below once `PamsModel/Runner.lean` is built)
-/
import PamsLemmas.SeriesLemmas
import Mathlib.Data.Nat.Basic

set_option linter.unusedSectionVars false

namespace Pams.C06
open Pams
variable {P : Type} [LinearOrder P]

/-- Queries for a time later than the current time are refused (all eight series are read through
`slotAt`). -/
theorem future_refused (m : Market P) (t : Nat) (h : m.time < t) : m.slotAt t = .error .future := by
  unfold Market.slotAt
  simp [h]

/-- a query for the present or the past of a well-formed market is answered -/
theorem past_answered (m : Market P) (hinv : Inv m) (t : Nat) (h : t ≤ m.time) :
    ∃ s, m.slotAt t = .ok s := by
  unfold Market.slotAt
  by_cases h1 : t = m.time
  · subst h1; simp
  · have h2 : ¬ t > m.time := by omega
    simp only [h2, h1, ↓reduceIte, Market.pastAt]
    have : m.time - 1 - t < m.past.length := by rw [hinv.past]; omega
    rw [List.getElem?_eq_getElem this]
    exact ⟨_, rfl⟩

/-- The clock advances by exactly one at a clock step (by the requested amount at an explicit
`_set_time` jump) and never otherwise. -/
theorem clock (ops : PriceOps P) (m : Market P) (o : Op P) :
    (m.step ops o).1.time = match o with
      | .tick _ => m.time + 1
      | .jump k _ => m.time + (k + 1)
      | _ => m.time := by
  cases o with
  | tick f => simp [Market.step, Market.tick]
  | jump k f => simp [Market.step, Market.setTime]
  | add r => exact (step_clock_past ops m (.add r) (by simp) (by simp)).2
  | cancel id => exact (step_clock_past ops m (.cancel id) (by simp) (by simp)).2
  | exec => exact (step_clock_past ops m .exec (by simp) (by simp)).2
  | setRunning b => rfl
  | setFund f => rfl

/-- Recorded history never changes: whatever operation is performed, every value recorded for a
time strictly before the current time (market, mid, last-trade and fundamental price, executed
volume, turnover, order counts — the whole slot) reads the same afterwards. -/
theorem history_never_changes (ops : PriceOps P) (m : Market P) (hinv : Inv m) (o : Op P)
    (t : Nat) (ht : t < m.time) : (m.step ops o).1.slotAt t = m.slotAt t := by
  have hlen := hinv.past
  cases o with
  | tick f =>
    have hp := tick_clock_past ops m f
    simp only [Market.step]
    rw [slotAt_past _ t (by rw [hp.2]; omega), slotAt_past m t ht]
    unfold Market.pastAt
    rw [hp.1, hp.2]
    have : m.time + 1 - 1 - t = (m.time - 1 - t) + 1 := by omega
    rw [this, List.getElem?_cons_succ]
  | jump k f =>
    have hp := setTime_clock_past ops m (k + 1) f
    simp only [Market.step]
    rw [slotAt_past _ t (by rw [hp.2]; omega), slotAt_past m t ht]
    unfold Market.pastAt
    rw [hp.1, hp.2]
    have e : m.time + (k + 1) - 1 - t = (List.replicate (k + 1 - 1) (Slot.empty ops)).length + ((m.time - 1 - t) + 1) := by
      simp; omega
    rw [e, List.getElem?_append_right (by omega)]
    simp
  | add r =>
    have hp := step_clock_past ops m (.add r) (by simp) (by simp)
    rw [slotAt_past _ t (by rw [hp.2]; exact ht), slotAt_past m t ht]
    unfold Market.pastAt
    rw [hp.1, hp.2]
  | cancel id =>
    have hp := step_clock_past ops m (.cancel id) (by simp) (by simp)
    rw [slotAt_past _ t (by rw [hp.2]; exact ht), slotAt_past m t ht]
    unfold Market.pastAt
    rw [hp.1, hp.2]
  | exec =>
    have hp := step_clock_past ops m .exec (by simp) (by simp)
    rw [slotAt_past _ t (by rw [hp.2]; exact ht), slotAt_past m t ht]
    unfold Market.pastAt
    rw [hp.1, hp.2]
  | setRunning b => rfl
  | setFund f =>
    -- an event rewriting the *current* step's fundamental price: the recorded past is untouched
    simp only [Market.step]
    rw [slotAt_past m t ht, slotAt_past _ t (by exact ht)]
    rfl

/-- … and the value that was current when the clock stepped is what is recorded for that time. -/
theorem tick_records_current (ops : PriceOps P) (m : Market P) (hinv : Inv m) (f : Option P) :
    (m.tick ops f).1.slotAt m.time = .ok m.cur := by
  have hp := tick_clock_past ops m f
  rw [slotAt_past _ m.time (by rw [hp.2]; omega)]
  unfold Market.pastAt
  rw [hp.1, hp.2]
  have : m.time + 1 - 1 - m.time = 0 := by omega
  rw [this]; rfl

/-- lifted to whole histories: a value once recorded is read back unchanged after any further
sequence of valid operations -/
theorem history_never_changes_run (ops : PriceOps P) (m : Market P) (hinv : Inv m)
    (os : List (Op P)) (hv : ∀ o ∈ os, o.valid) (t : Nat) (ht : t < m.time) :
    (m.runOps ops os).1.slotAt t = m.slotAt t ∧ m.time ≤ (m.runOps ops os).1.time := by
  induction os generalizing m with
  | nil => exact ⟨rfl, Nat.le_refl _⟩
  | cons o os ih =>
    have hinv' := inv_step ops m o hinv (hv o (by simp))
    have hc := clock ops m o
    have hle : m.time ≤ (m.step ops o).1.time := by
      rw [hc]; cases o <;> simp
    have := ih (m.step ops o).1 hinv' (fun o' ho' => hv o' (by simp [ho'])) (by omega)
    have e : (m.runOps ops (o :: os)).1 = ((m.step ops o).1.runOps ops os).1 := rfl
    rw [e]
    exact ⟨by rw [this.1]; exact history_never_changes ops m hinv o t ht, by omega⟩

/-! Non-vacuity -/
def natOps : PriceOps Nat := { mid := fun a b => (a + b) / 2, addNotional := fun acc v p => acc + v * p, zero := 0, snap := fun _ p => p }
def demo : Market Nat :=
  ((Market.init natOps 100 (some 100)).runOps natOps
    [.setRunning true,
     .add { agent := 1, isBuy := false, price := some 99, vol := 2, ttl := none },
     .add { agent := 3, isBuy := true, price := some 102, vol := 3, ttl := none }, .exec,
     .tick (some 101), .tick (some 102)]).1
theorem nonvacuous : demo.time = 2 ∧ (demo.slotAt 0).toOption.map (·.last) = some (some 99) ∧
    (demo.slotAt 3).toOption.map (·.last) = none := by decide +kernel

end Pams.C06
