/-
C08 — Market price, quotes and step statistics are what book and fills imply.

All statements are syntactic in the uninterpreted arithmetic `ops : PriceOps P` (`mid`,
`addNotional`, `zero`), so they hold for IEEE doubles exactly as Python computes them.
-/
import PamsLemmas.SourceTie
import PamsLemmas.SeriesLemmas
import Mathlib.Data.Nat.Basic

set_option linter.unusedSectionVars false

namespace Pams.C08
open Pams
variable {P : Type} [LinearOrder P]

theorem refresh_spec (ops : PriceOps P) (m : Market P) :
    (m.refresh ops).cur.mid = midOf ops m.buys m.sells ∧
    (m.refresh ops).cur.market =
      marketRule m.running m.cur.last (midOf ops m.buys m.sells) m.cur.market ∧
    (m.refresh ops).cur.last = m.cur.last := ⟨rfl, rfl, rfl⟩

/-- what the two rules say, spelled out -/
theorem midOf_spec (ops : PriceOps P) (buys sells : List (Order P)) :
    midOf ops buys sells =
      match Book.bestPrice buys, Book.bestPrice sells with
      | some b, some s => some (ops.mid s b)
      | _, _ => none := rfl

theorem marketRule_spec (last mid prev : Option P) :
    marketRule true last mid prev = (last.orElse fun _ => mid.orElse fun _ => prev) ∧
    marketRule false last mid prev = prev := by
  unfold marketRule
  rcases last with _ | l <;> rcases mid with _ | x <;> simp

/-- Best bid/ask describe the book: the head of each sorted side. -/
theorem best_price_is_head (o : Order P) (l : List (Order P)) :
    Book.bestPrice (o :: l) = o.price ∧ Book.bestPrice ([] : List (Order P)) = none := ⟨rfl, rfl⟩

/-- After a submission: mid refreshed from the new book, market price by the rule, counters +1. -/
theorem after_submission (ops : PriceOps P) (m : Market P) (r : Req P) :
    let m' := (m.addOrder ops r).1
    m'.cur.mid = midOf ops m'.buys m'.sells ∧
    m'.cur.market = marketRule m.running m.cur.last (midOf ops m'.buys m'.sells) m.cur.market ∧
    m'.cur.last = m.cur.last ∧
    m'.cur.nBuy = m.cur.nBuy + (if r.isBuy then 1 else 0) ∧
    m'.cur.nSell = m.cur.nSell + (if r.isBuy then 0 else 1) ∧
    m'.cur.execVol = m.cur.execVol ∧ m'.cur.turnover = m.cur.turnover ∧ m'.cur.fund = m.cur.fund := by
  unfold Market.addOrder
  cases hb : r.isBuy <;> simp [Market.refresh]

/-- After a cancel. -/
theorem after_cancel (ops : PriceOps P) (m m' : Market P) (id : Nat) (l : CancelLog P)
    (hc : m.cancel ops id = .ok (m', l)) :
    m'.cur.mid = midOf ops m'.buys m'.sells ∧
    m'.cur.market = marketRule m.running m.cur.last (midOf ops m'.buys m'.sells) m.cur.market ∧
    m'.cur.last = m.cur.last ∧ m'.cur.nBuy = m.cur.nBuy ∧ m'.cur.nSell = m.cur.nSell ∧
    m'.cur.execVol = m.cur.execVol ∧ m'.cur.turnover = m.cur.turnover := by
  unfold Market.cancel at hc
  split at hc
  · simp at hc; obtain ⟨rfl, _⟩ := hc
    simp [Market.refresh]
  · split at hc
    · simp at hc; obtain ⟨rfl, _⟩ := hc
      simp [Market.refresh]
    · split at hc
      · simp at hc; obtain ⟨rfl, _⟩ := hc
        simp [Market.refresh]
      · simp at hc

/-- After a round that produced fills: last-trade price = the round's price, market price = that
price (the market is running), mid refreshed, executed volume and turnover increased by the sums
over the round's fills (turnover folded in fill order), counters untouched. -/
theorem after_round (ops : PriceOps P) (m m' : Market P) (fs : List (Fill P))
    (he : m.execution ops = .ok (m', fs)) (hne : fs ≠ []) :
    (∀ f ∈ fs, m'.cur.last = some f.price ∧ m'.cur.market = (if m.running then some f.price else m.cur.market)) ∧
    m'.cur.mid = midOf ops m'.buys m'.sells ∧
    m'.cur.execVol = m.cur.execVol + (fs.map (·.vol)).sum ∧
    m'.cur.turnover = fs.foldl (fun acc f => ops.addNotional acc f.vol f.price) m.cur.turnover ∧
    m'.cur.nBuy = m.cur.nBuy ∧ m'.cur.nSell = m.cur.nSell ∧ m.running = true := by
  rcases execution_cases ops m m' fs he with ⟨_, _, rfl⟩ | ⟨_, hrun, price, hrp, hs⟩
  · exact absurd rfl hne
  · have hm' : m' = (m.settle ops (walk m.buys m.sells) price).1 := congrArg Prod.fst hs
    have hfs : fs = (walk m.buys m.sells).1.map (mkFill m.time price) := by
      have := congrArg Prod.snd hs; simpa [Market.settle] using this
    have hrunning : m.running = true := by
      rcases hrun with h | h
      · rw [hfs, h] at hne; exact absurd rfl hne
      · exact h
    refine ⟨?_, ?_, ?_, ?_, ?_, ?_, hrunning⟩
    · intro f hf
      rw [hfs] at hf
      obtain ⟨pr, _, rfl⟩ := List.mem_map.mp hf
      rw [hm']
      simp [Market.settle, Market.refresh, mkFill, hrunning, marketRule]
    · rw [hm']; simp [Market.settle, Market.refresh]
    · rw [hm', hfs]; simp [Market.settle, Market.refresh, mkFill, Function.comp_def]
    · rw [hm', hfs]
      simp only [Market.settle, Market.refresh, List.foldl_map, mkFill]
    · rw [hm']; simp [Market.settle, Market.refresh]
    · rw [hm']; simp [Market.settle, Market.refresh]

/-- a round without fills changes nothing -/
theorem round_without_fills (ops : PriceOps P) (m m' : Market P)
    (he : m.execution ops = .ok (m', [])) (h : Inv m) : m'.cur = m.cur ∨ m.running = true := by
  rcases execution_cases ops m m' [] he with ⟨_, rfl, _⟩ | ⟨_, hrun, price, hrp, hs⟩
  · exact Or.inl rfl
  · rcases hrun with h0 | h0
    · rw [h0] at hrp; simp [roundPrice] at hrp
    · exact Or.inr h0

/-- While the market is not running its market price does not move, whatever happens: a
submission, a cancel, a (refused or empty) round, and a clock step carries it over. -/
theorem not_running_frozen (ops : PriceOps P) (m : Market P) (hnr : m.running = false) (o : Op P)
    (hnj : ∀ k f, o ≠ .jump k f) :
    (m.step ops o).1.cur.market = m.cur.market := by
  cases o with
  | jump k f => exact absurd rfl (hnj k f)
  | add r =>
    have := (after_submission ops m r).2.1
    simp only [Market.step]
    rw [this, hnr]; simp [marketRule]
  | cancel id =>
    simp only [Market.step]
    rcases hc : m.cancel ops id with e | ⟨m', l⟩
    · rfl
    · have := (after_cancel ops m m' id l hc).2.1
      simp only []
      rw [this, hnr]; simp [marketRule]
  | exec =>
    simp only [Market.step]
    rcases hc : m.execution ops with e | ⟨m', fs⟩
    · rfl
    · simp only []
      rcases execution_cases ops m m' fs hc with ⟨_, rfl, _⟩ | ⟨_, hrun, price, hrp, hs⟩
      · rfl
      · rcases hrun with h0 | h0
        · rw [h0] at hrp; simp [roundPrice] at hrp
        · rw [hnr] at h0; cases h0
  | tick f => simp [Market.step, Market.tick, hnr, marketRule]
  | setRunning b => rfl
  | setFund f => rfl

/-- … and an explicit clock jump (`_set_time`) carries the most recent recorded market price -/
theorem jump_frozen (ops : PriceOps P) (m : Market P) (hnr : m.running = false) (k : Nat) (f : Option P)
    (p : P) (hp : m.cur.market = some p) :
    (m.step ops (.jump k f)).1.cur.market = m.cur.market := by
  simp [Market.step, Market.setTime, hnr, carryOf, List.findSome?_cons, hp]

/-- A clock step carries last-trade and mid price into the new slot, applies the market-price rule
to the carried values, records the fundamental price, and starts the step statistics at zero. -/
theorem clock_step (ops : PriceOps P) (m : Market P) (f : Option P) :
    let m' := (m.tick ops f).1
    m'.cur.last = m.cur.last ∧ m'.cur.mid = m.cur.mid ∧
    m'.cur.market = marketRule m.running m.cur.last m.cur.mid m.cur.market ∧
    m'.cur.fund = f ∧ m'.cur.execVol = 0 ∧ m'.cur.turnover = ops.zero ∧
    m'.cur.nBuy = 0 ∧ m'.cur.nSell = 0 := by
  simp [Market.tick]

/-- Per-price depth describes the book: it accounts for exactly the resting volume, and its first
entry is the best price. -/
theorem depth_total (l : List (Order P)) :
    ((Book.depth l).map (·.2)).sum = (l.map (·.vol)).sum := by
  induction l with
  | nil => simp [Book.depth]
  | cons x xs ih =>
    unfold Book.depth
    rcases hd : Book.depth xs with _ | ⟨⟨p, v⟩, rest⟩
    · rw [hd] at ih; simp at ih ⊢; omega
    · rw [hd] at ih
      simp only
      split <;> simp at ih ⊢ <;> omega

theorem depth_head (x : Order P) (xs : List (Order P)) :
    ((Book.depth (x :: xs)).head?.map (·.1)) = some x.price := by
  unfold Book.depth
  rcases hd : Book.depth xs with _ | ⟨⟨p, v⟩, rest⟩
  · simp
  · simp only
    split
    · rename_i h; simp [h]
    · simp

/-- on a sorted side each price appears once in the depth (equal prices are adjacent) -/
theorem depth_prices_of_orders (l : List (Order P)) :
    ∀ pv ∈ Book.depth l, ∃ o ∈ l, o.price = pv.1 := by
  induction l with
  | nil => simp [Book.depth]
  | cons x xs ih =>
    unfold Book.depth
    rcases hd : Book.depth xs with _ | ⟨⟨p, v⟩, rest⟩
    · intro pv hpv; simp at hpv; subst hpv; exact ⟨x, by simp, rfl⟩
    · rw [hd] at ih
      simp only
      split
      · rename_i h
        intro pv hpv
        rcases List.mem_cons.mp hpv with rfl | hpv
        · exact ⟨x, by simp, h.symm⟩
        · obtain ⟨o, ho, e⟩ := ih pv (by simp [hpv]); exact ⟨o, by simp [ho], e⟩
      · intro pv hpv
        rcases List.mem_cons.mp hpv with rfl | hpv
        · exact ⟨x, by simp, rfl⟩
        · obtain ⟨o, ho, e⟩ := ih pv hpv; exact ⟨o, by simp [ho], e⟩

/-! Non-vacuity -/
def natOps : PriceOps Nat := { mid := fun a b => (a + b) / 2, addNotional := fun acc v p => acc + v * p, zero := 0, snap := fun _ p => p }
def demo : Market Nat :=
  ((Market.init natOps 100 (some 100)).runOps natOps
    [.setRunning true,
     .add { agent := 1, isBuy := false, price := some 104, vol := 2, ttl := none },
     .add { agent := 3, isBuy := true, price := some 100, vol := 3, ttl := none },
     .add { agent := 3, isBuy := true, price := some 104, vol := 1, ttl := none }, .exec]).1
theorem nonvacuous : demo.cur.mid = some 102 ∧ demo.cur.last = some 104 ∧ demo.cur.market = some 104 ∧
    demo.cur.execVol = 1 ∧ demo.cur.turnover = 104 ∧ demo.cur.nBuy = 2 ∧ demo.cur.nSell = 1 := by
  decide +kernel

/-- (T) `_update_market_price` in the current sources has the branch structure the model `refresh`
transcribes -/
theorem source_update_market_price :
    Pams.Source.opsOf "Market._update_market_price" = ["is", "is", "is not", "is not", "is not", "is not"] := by decide

end Pams.C08
