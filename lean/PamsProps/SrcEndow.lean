/-
C05 ("holdings equal endowment plus own fills") on the *current source text* of `Agent.setup`: what the
endowment is.  (The fills are `C05.source_fill_is_applyFill`, the order `C05.source_ledger_once_before_notifications`.)
-/
import PamsLemmas.SrcEndow
import Batteries.Tactic.Alias

open Pams Pams.Py Pams.Src

namespace Pams.C05

/-- the endowment on the source: cash = the configured amount; each listed market made accessible once with
`int(assetVolume)` shares; plain numbers consume no random draw -/
alias source_endowment := endow_src_setup
/-- a missing `cashAmount` / `assetVolume` and a market listed twice are refused -/
alias source_endowment_refusals := endow_src_refusals

/-- holdings are read and changed per accessible market only (`get_asset_volume`, `update_asset_volume`,
`update_cash_amount`) -/
alias source_holdings_accessors := endow_src_holdings

end Pams.C05
