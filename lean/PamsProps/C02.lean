/-
C02 — Fills follow price-time priority; order comparison is a strict total order.
-/
import PamsLemmas.SrcOrder
import PamsLemmas.SourceTie
import PamsLemmas.MarketLemmas
import Mathlib.Data.Nat.Basic

set_option linter.unusedSectionVars false

namespace Pams.C02
open Pams
variable {P : Type} [LinearOrder P]

/-- (i-a) `__lt__` agrees with the documented ranking: market orders first, then better price
(higher bid, lower ask), then earlier acceptance time, then lower order id. -/
theorem lt_iff_rank (a b : Order P) : a.lt b = true ↔ ranksBefore a b := lt_iff_ranksBefore a b

/-- (i-b) `__lt__` is a strict total order on the accepted orders of one side. -/
theorem lt_strict_total (a b c : Order P) (hab : a.isBuy = b.isBuy) (hbc : b.isBuy = c.isBuy) :
    a.lt a = false ∧
    (a.lt b = true → b.lt a = false) ∧
    (a.lt b = true → b.lt c = true → a.lt c = true) ∧
    (a.id ≠ b.id → a.lt b = true ∨ b.lt a = true) :=
  ⟨olt_irrefl a, olt_asymm a b hab, olt_trans a b c hab, olt_total a b hab⟩

/-- (i-c) `__gt__` is the converse of `__lt__`; `__le__`/`__ge__` are the reflexive closures;
`__eq__` holds only between stamps of one order (equal ids). -/
theorem gt_le_ge_eq (a b : Order P) (hs : a.isBuy = b.isBuy) :
    a.gt b = b.lt a ∧ a.le b = (a.eqv b || a.lt b) ∧ a.ge b = (a.eqv b || b.lt a) ∧
    (a.eqv b = true → a.id = b.id) ∧ a.eqv a = true := by
  refine ⟨gt_eq_lt_swap a b hs, rfl, ?_, eqv_imp_id a b, eqv_refl a⟩
  unfold Order.ge
  rw [gt_eq_lt_swap a b hs]

/-- exactly one of `a < b`, `a == b`, `a > b` for two accepted orders of one side with the id
discipline of a market (equal id ⇒ same order) -/
theorem trichotomy (a b : Order P) (hs : a.isBuy = b.isBuy)
    (hid : a.id = b.id → a = b) :
    (a.lt b = true ∧ a.eqv b = false ∧ a.gt b = false) ∨
    (a.lt b = false ∧ a.eqv b = true ∧ a.gt b = false) ∨
    (a.lt b = false ∧ a.eqv b = false ∧ a.gt b = true) := by
  rw [gt_eq_lt_swap a b hs]
  by_cases h : a.id = b.id
  · have := hid h; subst this
    right; left
    exact ⟨olt_irrefl a, eqv_refl a, olt_irrefl a⟩
  · have hne : a.eqv b = false := by
      by_contra hc
      exact h (eqv_imp_id a b (by simpa using hc))
    rcases olt_total a b hs h with hl | hl
    · left; exact ⟨hl, hne, olt_asymm a b hs hl⟩
    · right; right; exact ⟨olt_asymm b a hs.symm hl, hne, hl⟩

/-- lt only looks at the stamp, so it is the same for two copies of one order that differ in
remaining volume -/
theorem lt_sameOrder_right {a a' : Order P} (h : sameOrder a a') (c : Order P) :
    c.lt a = c.lt a' := by
  obtain ⟨h1, _, _, h4, h5, _⟩ := h
  unfold Order.lt gtLt cmpPlaced
  rw [h1, h4, h5]

/-- (ii) Within a matching round no order receives a fill while another order of the same side
with higher priority is left with unfilled volume: for every fill, no order still resting after
the round outranks the filled buy order, nor the filled sell order. -/
theorem priority_respected (ops : PriceOps P) (m m' : Market P) (fs : List (Fill P))
    (h : Inv m) (he : m.execution ops = .ok (m', fs)) :
    ∀ f ∈ fs,
      (∃ b ∈ m.buys, b.id = f.buyId ∧ ∀ y ∈ m'.buys, y.lt b = false) ∧
      (∃ s ∈ m.sells, s.id = f.sellId ∧ ∀ y ∈ m'.sells, y.lt s = false) := by
  rcases execution_cases ops m m' fs he with ⟨_, rfl, rfl⟩ | ⟨_, _, price, hrp, hs⟩
  · simp
  · have hm' : m' = (m.settle ops (walk m.buys m.sells) price).1 := congrArg Prod.fst hs
    have hfs : fs = (walk m.buys m.sells).1.map (mkFill m.time price) := by
      have := congrArg Prod.snd hs; simpa [Market.settle] using this
    intro f hf
    rw [hfs] at hf
    obtain ⟨pr, hpr, rfl⟩ := List.mem_map.mp hf
    obtain ⟨⟨b, hb, hsb⟩, ⟨s, hs', hss⟩⟩ := walk_pairs_mem m.buys m.sells pr hpr
    refine ⟨⟨b, hb, hsb.1.symm, ?_⟩, ⟨s, hs', hss.1.symm, ?_⟩⟩
    · intro y hy
      rw [hm'] at hy
      rw [← lt_sameOrder_right hsb y]
      exact walk_priority_buy m.buys m.sells h.buys.sorted h.buys.side pr hpr y
        (by simpa [Market.settle, Market.refresh] using hy)
    · intro y hy
      rw [hm'] at hy
      rw [← lt_sameOrder_right hss y]
      exact walk_priority_sell m.buys m.sells h.sells.sorted h.sells.side pr hpr y
        (by simpa [Market.settle, Market.refresh] using hy)

/-- (iii) The content of a side determines the order in which the engine pops it: two sorted lists
with the same orders are equal, whatever the arrival order was. -/
theorem arrival_order_independent (side : Bool) (l₁ l₂ : List (Order P)) (hp : l₁.Perm l₂)
    (h₁ : Sorted l₁) (h₂ : Sorted l₂) (hs : ∀ x ∈ l₁, x.isBuy = side) : l₁ = l₂ :=
  sorted_perm_unique side l₁ l₂ hp h₁ h₂ hs

/-- inserting the same stamped orders in two different sequences yields the same queue -/
theorem insert_order_independent {t n : Nat} (side : Bool) (a b : Order P) (l : List (Order P))
    (hl : SideInv side t n l) (ha : a.isBuy = side) (hb : b.isBuy = side)
    (hab : a.id ≠ b.id) (hal : ∀ x ∈ l, x.id ≠ a.id) (hbl : ∀ x ∈ l, x.id ≠ b.id) :
    Book.insert a (Book.insert b l) = Book.insert b (Book.insert a l) := by
  have sb := sorted_insert side b l hl.sorted hl.side hb hbl
  have sa := sorted_insert side a l hl.sorted hl.side ha hal
  have sideb : ∀ x ∈ Book.insert b l, x.isBuy = side := fun x hx => by
    rcases (mem_insert b x l).mp hx with rfl | hx
    · exact hb
    · exact hl.side x hx
  have sidea : ∀ x ∈ Book.insert a l, x.isBuy = side := fun x hx => by
    rcases (mem_insert a x l).mp hx with rfl | hx
    · exact ha
    · exact hl.side x hx
  have sab := sorted_insert side a (Book.insert b l) sb sideb ha (fun x hx => by
    rcases (mem_insert b x l).mp hx with rfl | hx
    · exact fun e => hab e.symm
    · exact hal x hx)
  have sba := sorted_insert side b (Book.insert a l) sa sidea hb (fun x hx => by
    rcases (mem_insert a x l).mp hx with rfl | hx
    · exact hab
    · exact hbl x hx)
  apply sorted_perm_unique side _ _ _ sab sba
  · intro x hx
    rcases (mem_insert a x _).mp hx with rfl | hx
    · exact ha
    · exact sideb x hx
  · exact (insert_perm a _).trans ((List.Perm.cons a (insert_perm b l)).trans
      ((List.Perm.swap b a l).trans ((List.Perm.cons b (insert_perm a l).symm).trans
        (insert_perm b _).symm)))

/-! Non-vacuity -/
def o1 : Order Nat := { id := 0, agent := 1, isBuy := true, price := some 100, vol := 1, placedAt := 0, ttl := none }
def o2 : Order Nat := { id := 1, agent := 1, isBuy := true, price := some 100, vol := 1, placedAt := 0, ttl := none }
def o3 : Order Nat := { id := 2, agent := 1, isBuy := true, price := none, vol := 1, placedAt := 3, ttl := none }
example : o1.lt o2 = true ∧ o3.lt o1 = true ∧ o2.lt o1 = false ∧ o1.gt o3 = true := by decide

/-- (T) `Order._gt_lt` in the current sources: for every `X if gt else Y` the operators are the ones
the model `gtLt` transcribes (earlier time / lower id first; higher bid, lower ask first; market
before limit) -/
theorem source_gt_lt :
    PamsGen.gtLtPairs =
      [("True", "False"), ("False", "True"), (">", "<"), (">", "<"), ("False", "True"),
       ("True", "False"), ("<", ">"), (">", "<")] := by decide


/-! ### (T2) the current source text of the comparison operators, by symbolic execution
(`PamsLemmas/SrcOrder.lean`: the translated `pams/order.py` run under the mini-Python semantics on
two accepted orders of one side) -/
section SourceCode
open Pams.Py Pams.Src
variable {K : Type} [LinearOrder K] [NumOpsC K]

/-- **running the source of `Order.__lt__` (the comparison `heapq` uses) on two accepted orders of
one side returns exactly "a ranks before b"**: market before limit, better price, earlier
acceptance, lower id -/
theorem code_lt_is_ranking (a b : Order K) (dflt : K) (x : Nat → Int) (y : Nat → Bool)
    (hs : a.isBuy = b.isBuy) :
    ∃ r, result (rho2 a b dflt x y) env FUEL "Order.__lt__" [.ref 1, .ref 2]
        (st2 a.price.isSome false b.price.isSome false) = .bool r ∧ (r = true ↔ ranksBefore a b) :=
  ⟨a.lt b, lt_correct a b dflt x y hs, lt_iff_rank a b⟩

/-- all six operators and `_gt_lt` of the source are the model's -/
theorem code_operators (a b : Order K) (gt : Bool) (dflt : K) (x : Nat → Int) (y : Nat → Bool)
    (hs : a.isBuy = b.isBuy) (hy : y 1 = gt) :
    let run := fun fn args => result (rho2 a b dflt x y) env FUEL fn args
        (st2 a.price.isSome false b.price.isSome false)
    run "Order._gt_lt" [.ref 1, .ref 2, .bool (.atom 1)] = .bool (gtLt gt a b) ∧
    run "Order.__lt__" [.ref 1, .ref 2] = .bool (a.lt b) ∧
    run "Order.__gt__" [.ref 1, .ref 2] = .bool (a.gt b) ∧
    run "Order.__eq__" [.ref 1, .ref 2] = .bool (a.eqv b) ∧
    run "Order.__le__" [.ref 1, .ref 2] = .bool (a.le b) ∧
    run "Order.__ge__" [.ref 1, .ref 2] = .bool (a.ge b) ∧
    run "Order.__ne__" [.ref 1, .ref 2] = .bool (!a.eqv b) :=
  ⟨gt_lt_correct a b gt dflt x y hs hy, lt_correct a b dflt x y hs, gt_correct a b dflt x y hs,
   eq_correct a b dflt x y hs, le_correct a b dflt x y hs, ge_correct a b dflt x y hs,
   ne_correct a b dflt x y hs⟩

/-- comparing across sides raises -/
theorem code_other_side_raises (a b : Order K) (dflt : K) (x : Nat → Int) (y : Nat → Bool)
    (hs : a.isBuy ≠ b.isBuy) :
    result (rho2 a b dflt x y) env FUEL "Order._gt_lt" [.ref 1, .ref 2, .bool (.atom 1)]
      (st2 a.price.isSome false b.price.isSome false) = .err (.raise "ValueError") :=
  gt_lt_other_side a b dflt x y hs

end SourceCode

end Pams.C02
