/-
C03 — A matching round clears every executable pair and never fails.
-/
import PamsLemmas.SourceTie
import PamsLemmas.MarketLemmas
import Mathlib.Data.Nat.Basic

set_option linter.unusedSectionVars false

namespace Pams.C03
open Pams
variable {P : Type} [LinearOrder P]

/-- The round never fails: on every state satisfying the market invariant (hence on every book
reachable through valid submissions, cancellations, expiries and rounds, `reachable_inv`), a
matching round of a running market returns normally — none of the `AssertionError`s of
`_execution` / `_execute_orders` (`price is None`, zero or negative volume, equal ids,
post-condition) is reachable. -/
theorem never_fails (ops : PriceOps P) (m : Market P) (h : Inv m) (hrun : m.running = true) :
    ∃ m' fs, m.execution ops = .ok (m', fs) := by
  obtain ⟨⟨m', fs⟩, hr⟩ := execution_ok ops m h hrun
  exact ⟨m', fs, hr⟩

/-- every reachable state satisfies the invariant -/
theorem reachable_inv (ops : PriceOps P) (mp : P) (fund : Option P) (os : List (Op P))
    (hv : ∀ o ∈ os, o.valid) : Inv ((Market.init ops mp fund).runOps ops os).1 :=
  inv_runOps ops _ os (inv_init ops mp fund) hv

/-- the round never fails along any history, including crossed books built up while matching was
off and books holding market orders on one or both sides -/
theorem never_fails_history (ops : PriceOps P) (mp : P) (fund : Option P) (os : List (Op P))
    (hv : ∀ o ∈ os, o.valid)
    (hrun : ((Market.init ops mp fund).runOps ops os).1.running = true) :
    ∃ m' fs, ((Market.init ops mp fund).runOps ops os).1.execution ops = .ok (m', fs) :=
  never_fails ops _ (reachable_inv ops mp fund os hv) hrun

/-- After a round nothing executable remains (`remain_executable_orders()` is false). -/
theorem post_not_executable (ops : PriceOps P) (m m' : Market P) (fs : List (Fill P))
    (he : m.execution ops = .ok (m', fs)) : remainExecutable m'.buys m'.sells = false := by
  rcases execution_cases ops m m' fs he with ⟨hne, rfl, _⟩ | ⟨_, _, price, _, hs⟩
  · exact hne
  · have hm' : m' = (m.settle ops (walk m.buys m.sells) price).1 := congrArg Prod.fst hs
    rw [hm']
    simp only [Market.settle, Market.refresh]
    exact walk_resid_not_executable m.buys m.sells

/-- Immediately after a round, if both sides are non-empty and at least one of the two best orders
is a limit order, then both are limit orders and the best bid is strictly below the best ask. -/
theorem post_top_uncrossed (ops : PriceOps P) (m m' : Market P) (fs : List (Fill P))
    (he : m.execution ops = .ok (m', fs)) (b s : Order P) (bs ss : List (Order P))
    (hb : m'.buys = b :: bs) (hs : m'.sells = s :: ss)
    (hlim : b.price ≠ none ∨ s.price ≠ none) :
    ∃ pb ps, b.price = some pb ∧ s.price = some ps ∧ pb < ps := by
  have h := post_not_executable ops m m' fs he
  rw [hb, hs] at h
  unfold remainExecutable at h
  rcases hbp : b.price with _ | pb <;> rcases hsp : s.price with _ | ps
  · rcases hlim with hl | hl
    · exact absurd hbp hl
    · exact absurd hsp hl
  · simp [hbp, hsp] at h
  · simp [hbp, hsp] at h
  · simp only [hbp, hsp, decide_eq_false_iff_not, not_le] at h
    exact ⟨pb, ps, rfl, rfl, h⟩

/-! Non-vacuity: market orders on both sides with unequal volumes and limit levels behind them. -/
def natOps : PriceOps Nat := { mid := fun a b => (a + b) / 2, addNotional := fun acc v p => acc + v * p, zero := 0, snap := fun _ p => p }

def demo : Market Nat :=
  ((Market.init natOps 100 none).runOps natOps
    [.setRunning false,
     .add { agent := 1, isBuy := false, price := none, vol := 2, ttl := none },
     .add { agent := 2, isBuy := false, price := some 101, vol := 1, ttl := none },
     .add { agent := 3, isBuy := true, price := none, vol := 3, ttl := none },
     .add { agent := 4, isBuy := true, price := some 99, vol := 3, ttl := none },
     .setRunning true]).1

example : remainExecutable demo.buys demo.sells = true := by decide +kernel
example : (match demo.execution natOps with
    | .ok (m', fs) => (fs.map (fun f => (f.buyId, f.sellId, f.price, f.vol)), m'.buys.map (·.id), m'.sells.map (·.id))
    | .error _ => ([], [], [])) = ([(2, 0, 101, 2), (2, 1, 101, 1)], [3], []) := by decide +kernel

/-- (T) `Market.remain_executable_orders` in the current sources carries the operators of the model
`remainExecutable` (`<=` cross test, `!=`/`<` on the market volumes, `>=` level tests, `<=`) -/
theorem source_executable_predicate :
    Pams.Source.opsOf "Market.remain_executable_orders" =
      ["==", "==", "is not", "is not", "is not", "is not", "<=", "not in", "not in", "!=", "<", ">=", ">=",
       "==", "==", "<="] := by decide

end Pams.C03
