/-
Property statements about the **translated source** of the matching round (`Market._execution` and
everything it calls, as it stands in /repo, meaning given by PamsModel/Py.lean), on every book that
holds one buy and one sell order.  They follow from `Pams.Src.execution_src` (source = model, by
symbolic execution, PamsLemmas/SrcMarket.lean) and the spelled-out round `Pams.Src.round11`.

These are theorems about the code, not about the hand-written model: an edit of /repo that changes
what the round computes on such a book makes `execution_src` — and with it this file — fail to
compile on the next run.
-/
import PamsLemmas.SrcMarket

set_option linter.unusedSectionVars false
set_option linter.unusedVariables false

namespace Pams.SrcRound
open Pams Pams.Py Pams.Src
variable {K : Type} [LinearOrder K] [NumOpsC K]

/-- the price a pair proposes lies between the seller's and the buyer's limit whenever the pair
crosses -/
theorem pairPrice_within (a b : Order K) (p : K) (h : pairPrice a b = some p) (hc : noCross a b = false) :
    (∀ pa, a.price = some pa → p ≤ pa) ∧ (∀ pb, b.price = some pb → pb ≤ p) := by
  rcases a with ⟨ida, aga, isBuya, pricea, vola, pla, ttla⟩
  rcases b with ⟨idb, agb, isBuyb, priceb, volb, plb, ttlb⟩
  cases pricea <;> cases priceb <;> simp_all [pairPrice, noCross] <;> grind

/-- under the guards of a normal round the spelled-out round is its success branch -/
theorem round11_success (m : Market K) (a b : Order K)
    (hex : remainExecutable [a] [b] = true) (hva : a.vol ≠ 0) (hvb : b.vol ≠ 0) (hid : a.id ≠ b.id)
    (hnn : ¬ (a.price = none ∧ b.price = none)) (hr : m.running = true) :
    ∃ price : K, pairPrice a b = some price ∧
      round11 m a b =
        (let v : Nat := if a.vol < b.vol then a.vol else b.vol
         CObs.tuple
           [.tuple [.tuple [.num price, .int v, .int a.id, .int b.id, .int a.agent, .int b.agent, .int m.time]],
            .int ((a.vol : Int) - v), .int ((b.vol : Int) - v),
            .tuple (if b.vol < a.vol then [.ref 1] else []), .tuple (if a.vol < b.vol then [.ref 2] else []),
            .tuple [.num price], .tuple [.int ((m.cur.execVol : Int) + v)],
            .tuple [.num (m.cur.turnover + PyNum.ofInt v * price)],
            .tuple [.none], .tuple [.num price]]) := by
  have hpp : ∃ price, pairPrice a b = some price := by
    rcases a with ⟨ida, aga, isBuya, pricea, vola, pla, ttla⟩
    rcases b with ⟨idb, agb, isBuyb, priceb, volb, plb, ttlb⟩
    cases pricea <;> cases priceb <;> simp_all [pairPrice] <;> grind
  obtain ⟨price, hp⟩ := hpp
  refine ⟨price, hp, ?_⟩
  unfold round11
  simp [hex, hva, hvb, hid, hp, hr]

/-- the five series of the step after one fill of volume `v` at `price` -/
def seriesObs (m : Market K) (price : K) (v : Nat) : List (CObs K) :=
  [.tuple [.num price], .tuple [.int ((m.cur.execVol : Int) + v)],
   .tuple [.num (m.cur.turnover + PyNum.ofInt v * price)], .tuple [.none], .tuple [.num price]]

end Pams.SrcRound

/-! ### C01 -/
namespace Pams.C01
open Pams Pams.Py Pams.Src
variable {K : Type} [LinearOrder K] [NumOpsC K]

/-- **source = model for one matching round** (restated from `Src.execution_src`): on every book of
one buy order `a` and one sell order `b` (not both market orders) the current source of
`Market._execution` returns the fills, leaves the volumes, queues and step series, or raises,
exactly as `Market.execution` of the model does — for all prices, volumes, ids, times, agents. -/
theorem source_round_one_pair (m : Market K) (a b : Order K) (mp dflt : K)
    (hb : m.buys = [a]) (hs : m.sells = [b]) (ha : a.isBuy = true) (hbb : b.isBuy = false)
    (hnn : ¬ (a.price = none ∧ b.price = none)) (ht : m.time = 0)
    (hmk : m.cur.market = some mp) (hid : a.id ≠ b.id) :
    resultG execObs (rhoM m a b dflt) env XFUEL "Market._execution" [.ref 5]
        (st11 m.cur.last.isSome m.cur.mid.isSome a.price.isSome b.price.isSome)
      = modelObs a b (Market.execution (srcOps K) m) :=
  execution_src m a b mp dflt hb hs ha hbb hnn ht hmk hid

/-- **the fill the current source produces for one crossing pair honours both limits and carries the
price of the earlier-accepted order** (`pairPrice`: the limit side against a market order; of two
limit orders the one accepted earlier, the lower id at equal times): the first component of the
single fill record is that price, and it is `≤` the buyer's and `≥` the seller's limit. -/
theorem source_one_pair_fill_price (m : Market K) (a b : Order K) (mp dflt : K)
    (hb : m.buys = [a]) (hs : m.sells = [b]) (ha : a.isBuy = true) (hbb : b.isBuy = false)
    (hnn : ¬ (a.price = none ∧ b.price = none)) (ht : m.time = 0)
    (hmk : m.cur.market = some mp) (hid : a.id ≠ b.id)
    (hex : remainExecutable [a] [b] = true) (hva : a.vol ≠ 0) (hvb : b.vol ≠ 0) (hr : m.running = true) :
    ∃ (price : K) (restFill rest : List (CObs K)),
      resultG execObs (rhoM m a b dflt) env XFUEL "Market._execution" [.ref 5]
          (st11 m.cur.last.isSome m.cur.mid.isSome a.price.isSome b.price.isSome)
        = .tuple (.tuple [.tuple (.num price :: restFill)] :: rest) ∧
      pairPrice a b = some price ∧
      (∀ pa, a.price = some pa → price ≤ pa) ∧ (∀ pb, b.price = some pb → pb ≤ price) := by
  obtain ⟨price, hp, hround⟩ := SrcRound.round11_success m a b hex hva hvb hid hnn hr
  have hc : noCross a b = false := cross_of_executable a b hnn (by simp [hex])
  rw [execution_src m a b mp dflt hb hs ha hbb hnn ht hmk hid, model_round11 m a b hb hs hnn, hround]
  exact ⟨price, _, _, rfl, hp, (SrcRound.pairPrice_within a b price hp hc).1,
    (SrcRound.pairPrice_within a b price hp hc).2⟩

end Pams.C01

/-! ### C03 -/
namespace Pams.C03
open Pams Pams.Py Pams.Src
variable {K : Type} [LinearOrder K] [NumOpsC K]

/-- **the round of the current source on one executable pair does not raise and clears the pair**:
with positive volumes and a running market the result is a fill, and afterwards at least one of the
two queues is empty (so no executable pair remains). -/
theorem source_one_pair_clears (m : Market K) (a b : Order K) (mp dflt : K)
    (hb : m.buys = [a]) (hs : m.sells = [b]) (ha : a.isBuy = true) (hbb : b.isBuy = false)
    (hnn : ¬ (a.price = none ∧ b.price = none)) (ht : m.time = 0)
    (hmk : m.cur.market = some mp) (hid : a.id ≠ b.id)
    (hex : remainExecutable [a] [b] = true) (hva : a.vol ≠ 0) (hvb : b.vol ≠ 0) (hr : m.running = true) :
    ∃ (fills va vb : CObs K) (qb qs : List (CObs K)) (rest : List (CObs K)),
      resultG execObs (rhoM m a b dflt) env XFUEL "Market._execution" [.ref 5]
          (st11 m.cur.last.isSome m.cur.mid.isSome a.price.isSome b.price.isSome)
        = .tuple (fills :: va :: vb :: .tuple qb :: .tuple qs :: rest) ∧ (qb = [] ∨ qs = []) := by
  obtain ⟨price, hp, hround⟩ := SrcRound.round11_success m a b hex hva hvb hid hnn hr
  rw [execution_src m a b mp dflt hb hs ha hbb hnn ht hmk hid, model_round11 m a b hb hs hnn, hround]
  refine ⟨_, _, _, _, _, _, rfl, ?_⟩
  by_cases h : b.vol < a.vol
  · right; have : ¬ a.vol < b.vol := by omega
    simp [this]
  · left; simp [h]

/-- a pair that is not executable is left alone: no fill, nothing raised, both orders stay -/
theorem source_one_pair_not_executable (m : Market K) (a b : Order K) (mp dflt : K)
    (hb : m.buys = [a]) (hs : m.sells = [b]) (ha : a.isBuy = true) (hbb : b.isBuy = false)
    (hnn : ¬ (a.price = none ∧ b.price = none)) (ht : m.time = 0)
    (hmk : m.cur.market = some mp) (hid : a.id ≠ b.id) (hex : remainExecutable [a] [b] = false) :
    resultG execObs (rhoM m a b dflt) env XFUEL "Market._execution" [.ref 5]
        (st11 m.cur.last.isSome m.cur.mid.isSome a.price.isSome b.price.isSome)
      = .tuple [.tuple [], .int a.vol, .int b.vol, .tuple [.ref 1], .tuple [.ref 2], .tuple [cOpt m.cur.last],
                .tuple [.int m.cur.execVol], .tuple [.num m.cur.turnover], .tuple [cOpt m.cur.mid],
                .tuple [cOpt m.cur.market]] := by
  rw [execution_src m a b mp dflt hb hs ha hbb hnn ht hmk hid, model_round11 m a b hb hs hnn]
  simp [round11, hex]

end Pams.C03

/-! ### C04 -/
namespace Pams.C04
open Pams Pams.Py Pams.Src
variable {K : Type} [LinearOrder K] [NumOpsC K]

/-- **volume bookkeeping of the current source on one pair**: the fill has the smaller of the two
volumes, both order objects lose exactly that volume (never below zero), and an order left with
volume zero is no longer in its queue while an order with volume left still is. -/
theorem source_one_pair_volumes (m : Market K) (a b : Order K) (mp dflt : K)
    (hb : m.buys = [a]) (hs : m.sells = [b]) (ha : a.isBuy = true) (hbb : b.isBuy = false)
    (hnn : ¬ (a.price = none ∧ b.price = none)) (ht : m.time = 0)
    (hmk : m.cur.market = some mp) (hid : a.id ≠ b.id)
    (hex : remainExecutable [a] [b] = true) (hva : a.vol ≠ 0) (hvb : b.vol ≠ 0) (hr : m.running = true) :
    ∃ (price : K) (v : Nat),
      v = min a.vol b.vol ∧ 0 < v ∧
      resultG execObs (rhoM m a b dflt) env XFUEL "Market._execution" [.ref 5]
          (st11 m.cur.last.isSome m.cur.mid.isSome a.price.isSome b.price.isSome)
        = .tuple (.tuple [.tuple [.num price, .int v, .int a.id, .int b.id, .int a.agent, .int b.agent, .int m.time]]
            :: .int ((a.vol - v : Nat) : Int) :: .int ((b.vol - v : Nat) : Int)
            :: .tuple (if a.vol - v = 0 then [] else [.ref 1]) :: .tuple (if b.vol - v = 0 then [] else [.ref 2])
            :: SrcRound.seriesObs m price v) := by
  obtain ⟨price, hp, hround⟩ := SrcRound.round11_success m a b hex hva hvb hid hnn hr
  rw [execution_src m a b mp dflt hb hs ha hbb hnn ht hmk hid, model_round11 m a b hb hs hnn, hround]
  rcases Nat.lt_trichotomy a.vol b.vol with h | h | h
  · have h1 : min a.vol b.vol = a.vol := by omega
    have h2 : ¬ b.vol < a.vol := by omega
    have h3 : b.vol - a.vol ≠ 0 := by omega
    refine ⟨price, a.vol, h1.symm, by omega, ?_⟩
    simp [h, h2, h3, SrcRound.seriesObs]
    omega
  · have h1 : min a.vol b.vol = a.vol := by omega
    have h2 : ¬ b.vol < a.vol := by omega
    have h3 : ¬ a.vol < b.vol := by omega
    refine ⟨price, a.vol, h1.symm, by omega, ?_⟩
    simp [h, h2, SrcRound.seriesObs]
  · have h1 : min a.vol b.vol = b.vol := by omega
    have h2 : ¬ a.vol < b.vol := by omega
    have h3 : a.vol - b.vol ≠ 0 := by omega
    refine ⟨price, b.vol, h1.symm, by omega, ?_⟩
    simp [h, h2, h3, SrcRound.seriesObs]
    omega

end Pams.C04

/-! ### C08 -/
namespace Pams.C08
open Pams Pams.Py Pams.Src
variable {K : Type} [LinearOrder K] [NumOpsC K]

/-- **what the current source writes into the step's series for one fill**: last-trade price and
market price become the trade price, executed volume grows by the fill's volume, turnover by
`volume * price`, and the mid-quote is cleared (one side of the book is empty after the fill). -/
theorem source_one_pair_series (m : Market K) (a b : Order K) (mp dflt : K)
    (hb : m.buys = [a]) (hs : m.sells = [b]) (ha : a.isBuy = true) (hbb : b.isBuy = false)
    (hnn : ¬ (a.price = none ∧ b.price = none)) (ht : m.time = 0)
    (hmk : m.cur.market = some mp) (hid : a.id ≠ b.id)
    (hex : remainExecutable [a] [b] = true) (hva : a.vol ≠ 0) (hvb : b.vol ≠ 0) (hr : m.running = true) :
    ∃ (price : K) (f va vb qb qs : CObs K),
      pairPrice a b = some price ∧
      resultG execObs (rhoM m a b dflt) env XFUEL "Market._execution" [.ref 5]
          (st11 m.cur.last.isSome m.cur.mid.isSome a.price.isSome b.price.isSome)
        = .tuple [f, va, vb, qb, qs, .tuple [.num price],
                  .tuple [.int ((m.cur.execVol : Int) + (min a.vol b.vol : Nat))],
                  .tuple [.num (m.cur.turnover + PyNum.ofInt ((min a.vol b.vol : Nat) : Int) * price)],
                  .tuple [.none], .tuple [.num price]] := by
  obtain ⟨price, hp, hround⟩ := SrcRound.round11_success m a b hex hva hvb hid hnn hr
  rw [execution_src m a b mp dflt hb hs ha hbb hnn ht hmk hid, model_round11 m a b hb hs hnn, hround]
  have hmin : (if a.vol < b.vol then a.vol else b.vol) = min a.vol b.vol := by
    split <;> omega
  simp only [hmin]
  exact ⟨price, _, _, _, _, _, hp, rfl⟩

/-- while the market is not running the round of the current source refuses the fill
(`AssertionError`) — nothing moves -/
theorem source_one_pair_not_running (m : Market K) (a b : Order K) (mp dflt : K)
    (hb : m.buys = [a]) (hs : m.sells = [b]) (ha : a.isBuy = true) (hbb : b.isBuy = false)
    (hnn : ¬ (a.price = none ∧ b.price = none)) (ht : m.time = 0)
    (hmk : m.cur.market = some mp) (hid : a.id ≠ b.id)
    (hex : remainExecutable [a] [b] = true) (hva : a.vol ≠ 0) (hvb : b.vol ≠ 0) (hr : m.running = false) :
    resultG execObs (rhoM m a b dflt) env XFUEL "Market._execution" [.ref 5]
        (st11 m.cur.last.isSome m.cur.mid.isSome a.price.isSome b.price.isSome)
      = .err (.raise "AssertionError") := by
  rw [execution_src m a b mp dflt hb hs ha hbb hnn ht hmk hid, model_round11 m a b hb hs hnn]
  have hpp : ∃ price, pairPrice a b = some price := by
    rcases a with ⟨ida, aga, isBuya, pricea, vola, pla, ttla⟩
    rcases b with ⟨idb, agb, isBuyb, priceb, volb, plb, ttlb⟩
    cases pricea <;> cases priceb <;> simp_all [pairPrice] <;> grind
  obtain ⟨price, hp⟩ := hpp
  simp [round11, hex, hva, hvb, hid, hp, hr]

end Pams.C08
