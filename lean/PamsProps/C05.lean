/-
C05 — Cash and shares are conserved; holdings equal endowment plus own fills.
-/
import PamsModel.Ledger
import PamsLemmas.SourceTie
import PamsLemmas.RunnerLemmas
import Mathlib.Algebra.Group.Basic
import Mathlib.Algebra.BigOperators.Group.List.Basic
import Mathlib.Tactic.Abel

namespace Pams.C05
open Pams.Ledger Pams.Runner

variable {R : Type} [AddCommGroup R]

/-- the exact-arithmetic instance of the ledger -/
def apply1 (b : Book R) (f : LFill R) : Book R := applyFill (· - ·) (· + ·) b f

/-- Each fill changes only the buyer's and the seller's holdings, and only in the fill's market. -/
theorem applyFill_local (b : Book R) (f : LFill R) (a : Nat) (ha : a ≠ f.buyer) (hs : a ≠ f.seller) :
    (apply1 b f).cash a = b.cash a ∧ ∀ m, (apply1 b f).shares a m = b.shares a m := by
  simp [apply1, applyFill, setCash, setShares, ha, hs]

theorem applyFill_other_market (b : Book R) (f : LFill R) (a m : Nat) (hm : m ≠ f.market) :
    (apply1 b f).shares a m = b.shares a m := by
  simp [apply1, applyFill, setShares, hm]

/-- what a fill does to its parties (buyer ≠ seller): price×volume of cash from buyer to seller,
volume shares from seller to buyer -/
theorem applyFill_parties (b : Book R) (f : LFill R) (h : f.buyer ≠ f.seller) :
    (apply1 b f).cash f.buyer = b.cash f.buyer - f.amount ∧
    (apply1 b f).cash f.seller = b.cash f.seller + f.amount ∧
    (apply1 b f).shares f.buyer f.market = b.shares f.buyer f.market + f.vol ∧
    (apply1 b f).shares f.seller f.market = b.shares f.seller f.market - f.vol := by
  have h' : f.seller ≠ f.buyer := fun e => h e.symm
  simp [apply1, applyFill, setCash, setShares, h, h']

/-- a self-trade leaves the agent's holdings unchanged -/
theorem applyFill_self (b : Book R) (f : LFill R) (h : f.buyer = f.seller) :
    (apply1 b f).cash f.buyer = b.cash f.buyer ∧
    (apply1 b f).shares f.buyer f.market = b.shares f.buyer f.market := by
  simp [apply1, applyFill, setCash, setShares, h]

theorem sum_setCash (l : List Nat) (hnd : l.Nodup) (c : Nat → R) (a : Nat) (v : R) (ha : a ∈ l) :
    (l.map (setCash c a v)).sum = (l.map c).sum - c a + v := by
  induction l with
  | nil => simp at ha
  | cons x xs ih =>
    simp only [List.nodup_cons] at hnd
    simp only [List.map_cons, List.sum_cons]
    by_cases hx : x = a
    · subst hx
      have hrest : xs.map (setCash c x v) = xs.map c := by
        apply List.map_congr_left
        intro y hy
        have : y ≠ x := fun e => hnd.1 (e ▸ hy)
        simp [setCash, this]
      rw [hrest]
      simp [setCash]
      abel
    · have ha' : a ∈ xs := by
        rcases List.mem_cons.mp ha with h | h
        · exact absurd h.symm hx
        · exact h
      rw [ih hnd.2 ha']
      simp [setCash, hx]
      abel

/-- Total cash is conserved by every fill (exactly, in exact arithmetic). -/
theorem cash_conserved (agents : List Nat) (hnd : agents.Nodup) (b : Book R) (f : LFill R)
    (hb : f.buyer ∈ agents) (hs : f.seller ∈ agents) :
    (agents.map (apply1 b f).cash).sum = (agents.map b.cash).sum := by
  simp only [apply1, applyFill]
  rw [sum_setCash agents hnd _ f.seller _ hs, sum_setCash agents hnd _ f.buyer _ hb]
  by_cases h : f.seller = f.buyer
  · simp [setCash, h]
  · simp [setCash, h]
    abel

theorem sum_setShares (l : List Nat) (hnd : l.Nodup) (s : Nat → Nat → Int) (a m : Nat) (v : Int)
    (ha : a ∈ l) :
    (l.map (fun x => setShares s a m v x m)).sum = (l.map (fun x => s x m)).sum - s a m + v := by
  induction l with
  | nil => simp at ha
  | cons x xs ih =>
    simp only [List.nodup_cons] at hnd
    simp only [List.map_cons, List.sum_cons]
    by_cases hx : x = a
    · subst hx
      have hrest : xs.map (fun y => setShares s x m v y m) = xs.map (fun y => s y m) := by
        apply List.map_congr_left
        intro y hy
        have : y ≠ x := fun e => hnd.1 (e ▸ hy)
        simp [setShares, this]
      rw [hrest]
      simp [setShares]
      omega
    · have ha' : a ∈ xs := by
        rcases List.mem_cons.mp ha with h | h
        · exact absurd h.symm hx
        · exact h
      rw [ih hnd.2 ha']
      simp [setShares, hx]
      omega

/-- The total number of shares of every market is conserved by every fill. -/
theorem shares_conserved (agents : List Nat) (hnd : agents.Nodup) (b : Book R) (f : LFill R)
    (hb : f.buyer ∈ agents) (hs : f.seller ∈ agents) (m : Nat) :
    (agents.map (fun a => (apply1 b f).shares a m)).sum = (agents.map (fun a => b.shares a m)).sum := by
  by_cases hm : m = f.market
  · subst hm
    simp only [apply1, applyFill]
    rw [sum_setShares agents hnd _ f.seller _ _ hs, sum_setShares agents hnd _ f.buyer _ _ hb]
    by_cases h : f.seller = f.buyer
    · simp [setShares, h]
    · simp [setShares, h]
      omega
  · congr 1
    apply List.map_congr_left
    intro a _
    exact applyFill_other_market b f a m hm

/-- Both totals are conserved by any sequence of fills between registered agents: at every moment
holdings are the endowment folded, in order, with the fills so far (`applyFills` *is* that fold). -/
theorem totals_conserved (agents : List Nat) (hnd : agents.Nodup) (b : Book R) (fs : List (LFill R))
    (hp : ∀ f ∈ fs, f.buyer ∈ agents ∧ f.seller ∈ agents) :
    (agents.map (applyFills (· - ·) (· + ·) b fs).cash).sum = (agents.map b.cash).sum ∧
    ∀ m, (agents.map (fun a => (applyFills (· - ·) (· + ·) b fs).shares a m)).sum =
         (agents.map (fun a => b.shares a m)).sum := by
  induction fs generalizing b with
  | nil => exact ⟨rfl, fun _ => rfl⟩
  | cons f fs ih =>
    have h := ih (apply1 b f) (fun g hg => hp g (by simp [hg]))
    have hf := hp f (by simp)
    simp only [applyFills, List.foldl_cons] at h ⊢
    refine ⟨h.1.trans (cash_conserved agents hnd b f hf.1 hf.2), fun m => ?_⟩
    exact (h.2 m).trans (shares_conserved agents hnd b f hf.1 hf.2 m)

theorem fillEvents_kinds (t : Nat) (fs : List RFill) :
    ∀ e ∈ fillEvents t fs, e.isLedger = false ∧ e.isExec = false := by
  induction fs with
  | nil => simp [fillEvents]
  | cons f fs ih =>
    intro e he
    simp only [fillEvents, List.cons_append, List.nil_append, List.mem_cons] at he
    rcases he with rfl | rfl | rfl | he
    · exact ⟨rfl, rfl⟩
    · exact ⟨rfl, rfl⟩
    · exact ⟨rfl, rfl⟩
    · exact ih e he

/-- The runner applies the fills of each round exactly once, as a whole, right after the round and
before any party is notified: the only ledger event of a processed request follows its
`execution` event directly and precedes all `cbExecuted` events of the round. -/
theorem ledger_once_per_round (t : Nat) (r : Request) (fs : List RFill)
    (ha : r.accepted = true) (hf : r.fills = some fs) :
    let pre : List Ev :=
      if r.isCancel then [Ev.hookCancelBefore r.ref t, Ev.cancel r.market r.ref,
                          Ev.cbCanceled r.owner r.ref, Ev.hookCancelAfter r.ref t]
      else [Ev.hookOrderBefore r.ref t, Ev.addOrder r.market r.ref,
            Ev.cbSubmitted r.owner r.ref, Ev.hookOrderAfter r.ref t]
    (processRequest t true r).tr =
        pre ++ [Ev.execution r.market, Ev.ledger (fs.map (·.ref))] ++ fillEvents t fs ∧
      (∀ e ∈ pre, e.isLedger = false ∧ e.isExec = false) ∧
      (∀ e ∈ fillEvents t fs, e.isLedger = false ∧ e.isExec = false) := by
  refine ⟨?_, ?_, ?_⟩
  · unfold processRequest
    cases hc : r.isCancel <;> simp [ha, hf]
  · intro e he
    cases hc : r.isCancel <;> simp [hc] at he <;> rcases he with rfl | rfl | rfl | rfl <;> exact ⟨rfl, rfl⟩
  · exact fillEvents_kinds t fs

/-- no ledger update without a round -/
theorem no_ledger_without_round (t : Nat) (r : Request) :
    ∀ e ∈ (processRequest t false r).tr, e.isLedger = false := by
  unfold processRequest
  cases hc : r.isCancel <;> cases ha : r.accepted <;> simp [Ev.isLedger]

/-! Non-vacuity over ℤ -/
def b0 : Book Int := { cash := fun _ => 1000, shares := fun _ _ => 50 }
def f0 : LFill Int := { buyer := 1, seller := 2, market := 0, amount := 300, vol := 3 }
theorem nonvacuous : (apply1 b0 f0).cash 1 = 700 ∧ (apply1 b0 f0).cash 2 = 1300 ∧
    (apply1 b0 f0).shares 1 0 = 53 ∧ (apply1 b0 f0).shares 2 0 = 47 ∧ (apply1 b0 f0).shares 2 1 = 50 := by
  decide

/-- (T) in the current sources, on every path of the request loop on which a round runs, the ledger
update is called exactly once, outside the per-fill loop and before the first notification -/
theorem source_ledger_once_before_notifications :
    ∀ x ∈ PamsGen.requestPaths, x.2.2.1 = true →
      x.2.2.2.count "_update_agents_for_execution" = 1 ∧
      x.2.2.2.idxOf "_update_agents_for_execution" < x.2.2.2.idxOf "for[" ∧
      x.2.2.2.idxOf "for[" < x.2.2.2.idxOf "executed_order" := by decide

/-- … and on the paths without a round it is not called at all -/
theorem source_no_ledger_without_round :
    ∀ x ∈ PamsGen.requestPaths, x.2.2.1 = false → x.2.2.2.count "_update_agents_for_execution" = 0 := by decide

end Pams.C05
