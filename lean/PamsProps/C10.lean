/-
C10 — Logger sees every order, cancel, fill and expiry exactly once, in order.

Three layers: (1) the market emits exactly one record per event (the `Rec` list returned by
`Market.step`, PamsModel/History.lean — tied to the real logger stream by the correspondence);
(2) the logger delivers what was written exactly once, in order, queued records at the latest at
the next flush, direct records at once (this file); (3) the runner writes begin/end records and
flushes at every session boundary (PamsModel/Runner.lean).
-/
import PamsModel.Logger
import PamsLemmas.MarketLemmas
import PamsLemmas.RunnerLemmas

namespace Pams.C10
open Pams.Logger

variable {α : Type}

theorem run_append (s : LState α) (a b : List (LOp α)) : run s (a ++ b) = run (run s a) b := by
  simp [run, List.foldl_append]

/-- the queued part of the delivered stream -/
def queuedDelivered (ops : List (LOp α)) : List α × List α :=
  ops.foldl (fun (acc : List α × List α) op =>
    match op with
    | .write l => (acc.1, acc.2 ++ [l])
    | .bulkWrite ls => (acc.1, acc.2 ++ ls)
    | .direct _ => acc
    | .flush => (acc.1 ++ acc.2, [])) ([], [])

theorem queued_invariant (ops : List (LOp α)) (d p : List α) :
    let r := ops.foldl (fun (acc : List α × List α) op =>
      match op with
      | .write l => (acc.1, acc.2 ++ [l])
      | .bulkWrite ls => (acc.1, acc.2 ++ ls)
      | .direct _ => acc
      | .flush => (acc.1 ++ acc.2, [])) (d, p)
    r.1 ++ r.2 = d ++ p ++ written ops := by
  induction ops generalizing d p with
  | nil => simp [written]
  | cons o os ih =>
    cases o with
    | write l => simp only [List.foldl_cons, written]; rw [ih]; simp
    | bulkWrite ls => simp only [List.foldl_cons, written]; rw [ih]; simp
    | direct l => simp only [List.foldl_cons, written]; rw [ih]
    | flush => simp only [List.foldl_cons, written]; rw [ih]; simp

/-- Queue discipline: whatever the interleaving of writes, bulk writes, direct deliveries and
flushes, "delivered so far followed by what is still pending" is exactly the sequence of written
records (`queued_invariant`).  Every written record is delivered exactly once, in the order written, no later than the next
flush: after an operation sequence that ends with a flush, the queued part of the delivered
stream is exactly the written records. -/
theorem delivered_eq_written (ops : List (LOp α)) :
    (queuedDelivered (ops ++ [.flush])).1 = written ops ∧ (queuedDelivered (ops ++ [.flush])).2 = [] := by
  unfold queuedDelivered
  rw [List.foldl_append]
  have h := queued_invariant ops ([] : List α) []
  simp only [List.nil_append] at h
  simp only [List.foldl_cons, List.foldl_nil]
  exact ⟨h, trivial⟩

/-- the same for the logger state machine itself, for the queued records (no direct deliveries in
between): delivered ++ pending = everything written so far, in order -/
theorem run_invariant (ops : List (LOp α)) (s : LState α) (hd : directs ops = []) :
    (run s ops).delivered ++ (run s ops).pending = s.delivered ++ s.pending ++ written ops := by
  induction ops generalizing s with
  | nil => simp [run, written]
  | cons o os ih =>
    have e : run s (o :: os) = run (step s o) os := rfl
    cases o with
    | write l => rw [e, ih _ (by simpa [directs] using hd)]; simp [step, written]
    | bulkWrite ls => rw [e, ih _ (by simpa [directs] using hd)]; simp [step, written]
    | direct l => simp [directs] at hd
    | flush => rw [e, ih _ (by simpa [directs] using hd)]; simp [step, written]

theorem run_flush_delivers_written (ops : List (LOp α)) (hd : directs ops = []) :
    (run ({ pending := [], delivered := [] } : LState α) (ops ++ [.flush])).delivered = written ops ∧
    (run ({ pending := [], delivered := [] } : LState α) (ops ++ [.flush])).pending = [] := by
  rw [run_append]
  have h := run_invariant ops ({ pending := [], delivered := [] } : LState α) hd
  simp only [List.nil_append] at h
  exact ⟨by simp only [run, List.foldl_cons, List.foldl_nil, step]; exact h, by simp [run, step]⟩

/-- the real state machine delivers in total (queued and direct records interleaved) a sequence
whose length is what was written before the last flush plus what was handed over directly -/
theorem total_delivered (ops : List (LOp α)) (s : LState α) :
    (run s ops).delivered.length + (run s ops).pending.length =
      s.delivered.length + s.pending.length + (written ops).length + (directs ops).length := by
  induction ops generalizing s with
  | nil => simp [run, written, directs]
  | cons o os ih =>
    have e : run s (o :: os) = run (step s o) os := rfl
    rw [e, ih]
    cases o <;> simp [step, written, directs] <;> omega

/-- step records are delivered synchronously: a direct record is in the delivered stream as soon
as the operation returns, whatever is pending -/
theorem direct_is_synchronous (s : LState α) (l : α) :
    (step s (.direct l)).delivered = s.delivered ++ [l] ∧ (step s (.direct l)).pending = s.pending :=
  ⟨rfl, rfl⟩

/-- a flush empties the queue into the delivered stream in order -/
theorem flush_delivers_all (s : LState α) :
    (step s .flush).delivered = s.delivered ++ s.pending ∧ (step s .flush).pending = [] := ⟨rfl, rfl⟩

/-! ### the market writes exactly one record per event -/
open Pams in
/-- one record per accepted order; one per accepted cancel; one per fill of a round, in fill
order; one per expired order -/
theorem one_record_per_event {P : Type} [LinearOrder P] (ops : PriceOps P) (m : Market P) :
    (∀ r, (m.step ops (.add r)).2.length = 1) ∧
    (∀ id m' l, m.cancel ops id = .ok (m', l) → (m.step ops (.cancel id)).2 = [Rec.cancel l]) ∧
    (∀ m' fs, m.execution ops = .ok (m', fs) → (m.step ops .exec).2 = fs.map Rec.fill) ∧
    (∀ f, (m.step ops (.tick f)).2.length =
        (Book.expiredAt (m.time + 1) m.buys).length + (Book.expiredAt (m.time + 1) m.sells).length) := by
  refine ⟨fun r => rfl, ?_, ?_, ?_⟩
  · intro id m' l h; simp [Market.step, h]
  · intro m' fs h; simp [Market.step, h]
  · intro f; simp [Market.step, Market.tick]

/-! ### the runner flushes at every session boundary and writes the begin/end records -/
open Pams.Runner in
theorem session_records (ms : Markets) (k : Nat) (cfg : SessionCfg) (start : Nat) (tapes : List StepTape)
    (hok : (runSession ms k cfg start tapes).ok = true) :
    ∃ mid, (runSession ms k cfg start tapes).tr =
      [Ev.hookSessionBefore k start, Ev.sessionBegin k, Ev.flush] ++ mid ++
      [Ev.hookSessionAfter k (((start + cfg.steps : Nat) : Int) - 1), Ev.sessionEnd k, Ev.flush] := by
  unfold runSession at hok ⊢
  by_cases h : (runSteps ms cfg start cfg.execution tapes cfg.steps).ok = true
  · simp only [h, ↓reduceIte]
    exact ⟨ms.map (fun m => Ev.setRunning m.1 cfg.execution) ++
      (runSteps ms cfg start cfg.execution tapes cfg.steps).tr, by simp [List.append_assoc]⟩
  · simp [h] at hok

/-! Non-vacuity -/
theorem nonvacuous :
    (run ({ pending := [], delivered := [] } : LState Nat)
      [.write 1, .direct 7, .bulkWrite [2, 3], .flush, .write 4]).delivered = [7, 1, 2, 3] ∧
    (run ({ pending := [], delivered := [] } : LState Nat)
      [.write 1, .direct 7, .bulkWrite [2, 3], .flush, .write 4]).pending = [4] := by decide

end Pams.C10
