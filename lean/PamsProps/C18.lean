/-
C18 — Config expansion: inheritance, counts/ranges, names, random values, aliases.
-/
import PamsLemmas.SourceTie
import PamsModel.Config
import PamsProps.C15
import Mathlib.Analysis.SpecialFunctions.Log.Basic
import Mathlib.Tactic.Linarith

namespace Pams.C18
open Pams Pams.Config

/-! ### (a) `extends` -/

theorem lookup_append (k : Nat) (a b : Obj) :
    lookup k (a ++ b) = (lookup k a).orElse (fun _ => lookup k b) := by
  induction a with
  | nil => simp [lookup]
  | cons x xs ih =>
    simp only [List.cons_append, lookup]
    by_cases h : x.1 = k <;> simp [h, ih]

theorem lookup_map_merge (k : Nat) (parent res : Obj) :
    lookup k (parent.map (fun kv => (kv.1, (lookup kv.1 res).getD kv.2))) =
      (lookup k parent).map (fun v => (lookup k res).getD v) := by
  induction parent with
  | nil => simp [lookup]
  | cons x xs ih =>
    simp only [List.map_cons, lookup]
    by_cases h : x.1 = k
    · simp [h]
    · simp [h, ih]

theorem lookup_filter_key (k : Nat) (o : Obj) (p : Nat → Bool) :
    lookup k (o.filter (fun kv => p kv.1)) = if p k then lookup k o else none := by
  induction o with
  | nil => simp [lookup]
  | cons x xs ih =>
    by_cases hx : x.1 = k
    · by_cases hp : p x.1 = true
      · have hpk : p k = true := hx ▸ hp
        simp [List.filter_cons, hp, lookup, hx, hpk]
      · have hpk : p k = false := by rw [← hx]; simpa using hp
        simp only [List.filter_cons, hp, Bool.false_eq_true, ↓reduceIte, ih, hpk]
    · by_cases hp : p x.1 = true
      · simp only [List.filter_cons, hp, ↓reduceIte, lookup, hx, ih]
      · simp only [List.filter_cons, hp, Bool.false_eq_true, ↓reduceIte, lookup, hx, ih]

/-- one inheritance step, per key: the entry's own value if it has one, else the parent's -/
theorem merge_lookup (k : Nat) (parent res : Obj) :
    lookup k (merge parent res) = (lookup k res).orElse (fun _ => lookup k parent) := by
  unfold merge
  rw [lookup_append, lookup_map_merge, lookup_filter_key k res (fun key => (lookup key parent).isNone)]
  cases lookup k parent <;> cases lookup k res <;> simp

theorem erase_lookup (k k' : Nat) (o : Obj) :
    lookup k (erase k' o) = if k = k' then none else lookup k o := by
  have := lookup_filter_key k o (fun key => decide (key ≠ k'))
  unfold erase
  rw [this]
  by_cases h : k = k' <;> simp [h]

/-- the value inheritance gives key `k ≠ extends`: the entry's own value, else that of the nearest
ancestor defining it, skipping non-inheritable keys (spec, written directly from the property) -/
def inherited (whole : List (Nat × Obj)) (excludes : List Nat) (k : Nat) : Nat → Obj → Option Nat
  | fuel, res =>
    match lookup k res with
    | some v => some v
    | none =>
      match lookup 0 res, fuel with
      | some cls, fuel + 1 =>
        match lookupObj cls whole with
        | some parent =>
          inherited whole excludes k fuel (parent.filter (fun kv => !excludes.contains kv.1))
        | none => none
      | _, _ => none

theorem inherited_congr (whole : List (Nat × Obj)) (excludes : List Nat) (k fuel : Nat) (o1 o2 : Obj)
    (h1 : lookup k o1 = lookup k o2) (h2 : lookup 0 o1 = lookup 0 o2) :
    inherited whole excludes k fuel o1 = inherited whole excludes k fuel o2 := by
  cases fuel <;> (unfold inherited; rw [h1, h2])

/-- Inheritance yields the entry's own keys, then for each remaining key the value of the nearest
ancestor defining it, skipping non-inheritable keys: whenever the loop returns normally, every key
other than `extends` has exactly the inherited value, and `extends` itself is gone. -/
theorem extends_nearest_ancestor (whole : List (Nat × Obj)) (excludes : List Nat) (fuel : Nat)
    (hist : List Nat) (res r : Obj) (h : extendsLoop whole excludes fuel hist res = .ok r)
    (k : Nat) (hk : k ≠ 0) :
    lookup k r = inherited whole excludes k fuel res ∧ lookup 0 r = none := by
  induction fuel generalizing hist res with
  | zero =>
    unfold extendsLoop at h
    rcases hl : lookup 0 res with _ | cls
    · simp only [hl] at h
      injection h with h; subst h
      unfold inherited
      rcases hk' : lookup k res with _ | v <;> simp [hl]
    · simp [hl] at h
  | succ fuel ih =>
    unfold extendsLoop at h
    rcases hl : lookup 0 res with _ | cls
    · simp only [hl] at h
      injection h with h; subst h
      unfold inherited
      rcases hk' : lookup k res with _ | v <;> simp [hl]
    · simp only [hl] at h
      rcases hp : lookupObj cls whole with _ | parent
      · simp [hp] at h
      · simp only [hp] at h
        by_cases hc : cls ∈ hist
        · simp [hc] at h
        · simp only [hc, ↓reduceIte] at h
          have := ih _ _ h
          refine ⟨?_, this.2⟩
          rw [this.1]
          have e1 : lookup k (merge (parent.filter (fun kv => !excludes.contains kv.1)) (erase 0 res)) =
              (lookup k res).orElse (fun _ => lookup k (parent.filter (fun kv => !excludes.contains kv.1))) := by
            rw [merge_lookup, erase_lookup]; simp [hk]
          have e0 : lookup 0 (merge (parent.filter (fun kv => !excludes.contains kv.1)) (erase 0 res)) =
              lookup 0 (parent.filter (fun kv => !excludes.contains kv.1)) := by
            rw [merge_lookup, erase_lookup]; simp
          conv_rhs => unfold inherited
          rcases hk' : lookup k res with _ | v
          · simp only [hl, hp]
            apply inherited_congr
            · rw [e1, hk']; simp
            · exact e0
          · simp only []
            cases fuel <;> (unfold inherited; rw [e1, hk']; simp)

/-- in particular the entry's own keys always win -/
theorem extends_own_keys (whole : List (Nat × Obj)) (parentName : Nat) (target r : Obj)
    (excludes : List Nat) (h : jsonExtends whole parentName target excludes = .ok r)
    (k v : Nat) (hk : k ≠ 0) (hv : lookup k target = some v) : lookup k r = some v := by
  have := (extends_nearest_ancestor whole excludes _ _ target r h k hk).1
  rw [this]
  unfold inherited
  simp [hv]

/-- Missing parents and cycles are reported as errors at the first offending link: a link to a
name that is not in the configuration is `missing`; a link to a name already in the chain
(including the entry's own name) is `cycle`. -/
theorem extends_errors (whole : List (Nat × Obj)) (excludes : List Nat) (fuel : Nat) (hist : List Nat)
    (res : Obj) (cls : Nat) (hl : lookup 0 res = some cls) :
    (lookupObj cls whole = none → extendsLoop whole excludes (fuel + 1) hist res = .error .missing) ∧
    (lookupObj cls whole ≠ none → cls ∈ hist →
        extendsLoop whole excludes (fuel + 1) hist res = .error .cycle) := by
  constructor
  · intro h; unfold extendsLoop; simp [hl, h]
  · intro h hc
    unfold extendsLoop
    rcases hp : lookupObj cls whole with _ | p
    · exact absurd hp h
    · simp [hl, hc, hp]

theorem lookupObj_mem (whole : List (Nat × Obj)) (n : Nat) (o : Obj) (h : lookupObj n whole = some o) :
    n ∈ whole.map (·.1) := by
  unfold lookupObj at h
  rcases hf : whole.find? (fun x => decide (x.1 = n)) with _ | x
  · simp [hf] at h
  · have h1 := List.mem_of_find?_eq_some hf
    have h2 : x.1 = n := by simpa using List.find?_some hf
    exact List.mem_map.mpr ⟨x, h1, h2⟩

/-- the loop never runs out of fuel: the names followed (after the entry's own) are pairwise
distinct names of the configuration, so there are at most `whole.length` of them -/
theorem loop_no_fuel_error (whole : List (Nat × Obj)) (excludes : List Nat) :
    ∀ (fuel : Nat) (hist : List Nat) (res : Obj),
      hist ≠ [] → hist.Nodup → (∀ n ∈ hist.tail, n ∈ whole.map (·.1)) →
      whole.length + 1 ≤ fuel + hist.tail.length →
      extendsLoop whole excludes fuel hist res ≠ .error .fuel := by
  intro fuel
  induction fuel with
  | zero =>
    intro hist res hne hnd hin hlen
    exfalso
    have hnd' : hist.tail.Nodup := by
      cases hist with
      | nil => exact absurd rfl hne
      | cons a t => exact (List.nodup_cons.mp hnd).2
    have := (List.Nodup.subperm hnd' (fun n hn => hin n hn)).length_le
    rw [List.length_map] at this
    omega
  | succ fuel ih =>
    intro hist res hne hnd hin hlen
    unfold extendsLoop
    rcases hl : lookup 0 res with _ | cls
    · simp
    · simp only
      rcases hp : lookupObj cls whole with _ | parent
      · simp
      · simp only
        by_cases hc : cls ∈ hist
        · simp [hc]
        · simp only [hc, ↓reduceIte]
          have hnotin : cls ∉ hist := hc
          have htail : (hist ++ [cls]).tail = hist.tail ++ [cls] := by
            cases hist with
            | nil => exact absurd rfl hne
            | cons a t => rfl
          apply ih
          · simp
          · rw [List.nodup_append]
            refine ⟨hnd, by simp, ?_⟩
            intro a ha b hb
            simp only [List.mem_cons, List.not_mem_nil, or_false] at hb
            subst hb
            exact fun e => hnotin (e ▸ ha)
          · intro n hn
            rw [htail] at hn
            rcases List.mem_append.mp hn with h | h
            · exact hin n h
            · simp only [List.mem_cons, List.not_mem_nil, or_false] at h
              subst h
              exact lookupObj_mem whole _ parent hp
          · rw [htail, List.length_append]; simp only [List.length_cons, List.length_nil]; omega

/-- Inheritance terminates for every configuration — chains, diamonds through repeated parents,
cycles, missing parents — with a result or one of the two documented errors, never by running on. -/
theorem extends_terminates (whole : List (Nat × Obj)) (parentName : Nat) (target : Obj)
    (excludes : List Nat) :
    (∃ r, jsonExtends whole parentName target excludes = .ok r) ∨
    jsonExtends whole parentName target excludes = .error .missing ∨
    jsonExtends whole parentName target excludes = .error .cycle := by
  have h := loop_no_fuel_error whole excludes (whole.length + 1) [parentName] target (by simp)
    (by simp) (by simp) (by simp)
  unfold jsonExtends
  rcases hr : extendsLoop whole excludes (whole.length + 1) [parentName] target with e | r
  · cases e
    · exact Or.inr (Or.inl rfl)
    · exact Or.inr (Or.inr rfl)
    · exact absurd hr h
  · exact Or.inl ⟨r, rfl⟩

/-! ### (b) counts, ranges, ids, names -/

/-- A group declared with a count or an inclusive id range creates exactly that many entities with
consecutive ids starting at the running counter and pairwise distinct names. -/
theorem expand_count_ids_names (counter : Nat) (spec : GroupSpec) :
    (expand counter spec).length =
      (match spec with | .single => 1 | .count n => n | .range lo hi => hi + 1 - lo) ∧
    (∀ j, (h : j < (expand counter spec).length) → ((expand counter spec)[j]).id = counter + j) ∧
    ((expand counter spec).map (fun e => (e.dash, e.suffix))).Nodup := by
  have key : ∀ (lo n : Nat),
      let es := (List.range n).map (fun j =>
        ({ id := counter + j, dash := decide (1 < n), suffix := if n ≠ 1 then some (lo + j) else none } : Entity))
      es.length = n ∧ (∀ j, (h : j < es.length) → (es[j]).id = counter + j) ∧
      (es.map (fun e => (e.dash, e.suffix))).Nodup := by
    intro lo n
    refine ⟨by simp, ?_, ?_⟩
    · intro j h; simp
    · rw [List.map_map]
      by_cases h1 : n = 1
      · subst h1; simp
      · apply List.Nodup.map_on _ List.nodup_range
        intro a _ b _ hab
        simp only [Function.comp, h1, ne_eq, not_false_eq_true, ↓reduceIte, Prod.mk.injEq,
          Option.some.injEq, true_and] at hab
        omega
  unfold expand
  rcases spec with _ | n | ⟨lo, hi⟩
  · exact key 0 1
  · exact key 0 n
  · exact key lo (hi + 1 - lo)

/-- consecutive groups continue the id sequence: the registries therefore never see a repeated id -/
theorem expand_ids_disjoint (c : Nat) (s1 s2 : GroupSpec) :
    ∀ a ∈ expand c s1, ∀ b ∈ expand (c + (expand c s1).length) s2, a.id < b.id := by
  intro a ha b hb
  unfold expand at ha hb
  rcases s1 with _ | n | ⟨lo, hi⟩ <;> rcases s2 with _ | n2 | ⟨lo2, hi2⟩ <;>
    simp only [List.mem_map, List.mem_range, List.length_map, List.length_range] at ha hb <;>
    obtain ⟨i, hi', rfl⟩ := ha <;> obtain ⟨j, hj, rfl⟩ := hb <;> simp <;> omega

/-- (c) agents can access exactly the markets of the groups they list -/
theorem access_union (groups : Nat → List Nat) (listed : List Nat) (m : Nat) :
    m ∈ accessible groups listed ↔ ∃ g ∈ listed, m ∈ groups g := by
  simp [accessible, List.mem_flatMap]

/-! ### (d) randomised values fall in the documented support -/
section
variable {K : Type} [Field K] [LinearOrder K] [IsStrictOrderedRing K]

/-- uniform: for a draw `u ∈ [0,1)` and `lo < hi`, `lo ≤ u (hi - lo) + lo < hi` -/
theorem uniform_support (u lo hi : K) (h0 : 0 ≤ u) (h1 : u < 1) (hl : lo < hi) :
    lo ≤ uniform u lo hi ∧ uniform u lo hi < hi := by
  unfold uniform
  have hd : 0 < hi - lo := by linarith
  constructor
  · nlinarith [mul_nonneg h0 hd.le]
  · nlinarith [mul_lt_mul_of_pos_right h1 hd]
end

/-- exponential: for a draw `u ∈ (0,1)` and `λ > 0`, `λ · (−log u) > 0` -/
theorem expon_support (u lam : ℝ) (h0 : 0 < u) (h1 : u < 1) (hl : 0 < lam) :
    0 < lam * -Real.log u := by
  have : Real.log u < 0 := Real.log_neg h0 h1
  nlinarith

/-! ### (e) class names resolve to exactly one class -/
theorem findClass_unique (builtins registered : List (Nat × Nat)) (name c : Nat)
    (h : findClass builtins registered name = some c) :
    (builtins.filter (fun x => x.1 = name) ++ registered.filter (fun x => x.1 = name)) = [(name, c)] := by
  unfold findClass at h
  rcases hl : (builtins.filter (fun x => decide (x.1 = name)) ++ registered.filter (fun x => decide (x.1 = name))) with _ | ⟨x, _ | ⟨y, ys⟩⟩
  · simp [hl] at h
  · simp only [hl, Option.some.injEq] at h
    have hx : x ∈ builtins.filter (fun x => decide (x.1 = name)) ++ registered.filter (fun x => decide (x.1 = name)) := by
      rw [hl]; simp
    have : x.1 = name := by
      rcases List.mem_append.mp hx with h' | h' <;> simpa using (List.mem_filter.mp h').2
    rw [← this, ← h]
  · simp [hl] at h

/-! ### (f) deprecated spellings set the same parameter as their replacement -/
theorem legacy_same_param (v : Nat) (otherMax otherRate : Option Nat) :
    sessionSetup none (some v) otherRate none = sessionSetup (some v) none otherRate none ∧
    sessionSetup otherMax none none (some v) = sessionSetup otherMax none (some v) none := by
  constructor
  · rcases otherRate with _ | r <;> rfl
  · rcases otherMax with _ | m <;> rfl

/-! Non-vacuity -/
def demoWhole : List (Nat × Obj) :=
  [(10, [(1, 100), (2, 200)]), (11, [(0, 10), (2, 201), (3, 300)]), (12, [(0, 11), (3, 301)]),
   (13, [(0, 14)]), (14, [(0, 13)])]
theorem nonvacuous :
    jsonExtends demoWhole 12 [(0, 11), (3, 301)] [] = .ok [(1, 100), (2, 201), (3, 301)] ∧
    jsonExtends demoWhole 13 [(0, 14)] [] = .error .cycle ∧
    jsonExtends demoWhole 99 [(0, 55)] [] = .error .missing ∧
    (expand 7 (.range 3 4)).map (fun e => (e.id, e.suffix)) = [(7, some 3), (8, some 4)] := by
  decide

/-- (T) `Session.setup` in the current sources: which attribute each settings key is assigned to; the
deprecated spellings are assigned to the same attribute as their replacement -/
theorem source_session_keys :
    Pams.Source.attrOf "maxHifreqOrders" = Pams.Source.attrOf "maxHighFrequencyOrders" ∧
    Pams.Source.attrOf "hifreqSubmitRate" = Pams.Source.attrOf "highFrequencySubmitRate" ∧
    Pams.Source.attrOf "maxHighFrequencyOrders" = some "max_high_frequency_orders" ∧
    Pams.Source.attrOf "highFrequencySubmitRate" = some "high_frequency_submission_rate" ∧
    Pams.Source.attrOf "maxNormalOrders" = some "max_normal_orders" ∧
    Pams.Source.opsOf "json_extends" = ["is not", "in", "not in", "in", "not in"] := by decide

end Pams.C18
