/-
Property statements about the **translated source** of cancellation (`Market._cancel_order` with
everything it calls, as it stands in /repo; meaning given by PamsModel/Py.lean), from
`Src.cancel_src_*` (source = model, by symbolic execution, PamsLemmas/SrcCancel*.lean).
-/
import PamsLemmas.SrcCancel
import PamsProps.SrcAccept

set_option linter.unusedSectionVars false
set_option linter.unusedVariables false
set_option linter.unusedSimpArgs false

/-! ### C04 -/
namespace Pams.C04
open Pams Pams.Py Pams.Src Pams.SrcAccept
variable {K : Type} [LinearOrder K] [NumOpsC K]

/-- **cancelling a resting order that is not the best of its side** (current source): the order is
marked, it leaves its queue — the other order `c` stays —, and the log reports the order's *current*
volume, its id, owner, side, price and the cancel time. -/
theorem source_cancel_non_top (m : Market K) (a c d : Order K) (dflt pc pd md mp : K)
    (hbook : if a.isBuy then m.buys = [c, a] ∧ m.sells = [d] else m.buys = [d] ∧ m.sells = [c, a])
    (hta : a.ttl = none) (hc : c.isBuy = a.isBuy) (hpc : c.price = some pc) (hd : d.isBuy = !a.isBuy)
    (hpd : d.price = some pd) (ht : m.time = 0) (hl : m.cur.last = none) (hmid : m.cur.mid = some md)
    (hmk : m.cur.market = some mp) (hac : a.id ≠ c.id) (had : a.id ≠ d.id) (hcd : c.id ≠ d.id)
    (h2 : (NumOpsC.ofInt 2 : K) ≠ NumOpsC.ofInt 0) :
    let res := resultG cancelObs (rhoCancel m a c d dflt) env XFUEL "Market._cancel_order" [.ref 5, .ref 2]
        (stCancel a.isBuy a.price.isSome .second)
    cnth res 0 = .bool true ∧ cnth res 1 = .int m.time ∧
      cnth res (if a.isBuy then 2 else 3) = .tuple [.ref 3] ∧ cnth res (if a.isBuy then 3 else 2) = .tuple [.ref 4] ∧
      cnth res 6 = .tuple [.int a.id, .int 0, .int m.time, .int a.placedAt, .int a.agent, .bool a.isBuy, .int a.vol,
                           cOpt a.price, .none] := by
  intro res
  have hres : res = modelCancelObs a (m.cancel (srcOps K) a.id) :=
    cancel_src_second m a c d dflt pc pd md mp .canceled hbook hta hc hpc hd hpd ht hl hmid hmk hac had hcd h2 trivial
  rw [hres]
  cases ha : a.isBuy
  · rw [ha] at hbook hc hd
    simp only [Bool.false_eq_true, if_false, Bool.not_false] at hbook hd
    simp [cnth, modelCancelObs, Market.cancel, findOrder, Book.remove, Market.refresh, hbook.1, hbook.2, hac, had, hcd,
      Ne.symm hac, Ne.symm had, Ne.symm hcd, ha, hc, hd, hta, cOptNat]
  · rw [ha] at hbook hc hd
    simp only [if_true, Bool.not_true] at hbook hd
    simp [cnth, modelCancelObs, Market.cancel, findOrder, Book.remove, Market.refresh, hbook.1, hbook.2, hac, had, hcd,
      Ne.symm hac, Ne.symm had, Ne.symm hcd, ha, hc, hd, hta, cOptNat]

/-- **cancelling an order that has already left the book** (filled, expired or cancelled before) is
accepted, changes no queue, and reports the volume the order object has now (current source). -/
theorem source_cancel_gone (m : Market K) (a c d : Order K) (dflt pc pd md mp : K) (gk : Gone)
    (hbook : if a.isBuy then m.buys = [c] ∧ m.sells = [d] else m.buys = [d] ∧ m.sells = [c])
    (hta : a.ttl = none) (hc : c.isBuy = a.isBuy) (hpc : c.price = some pc) (hd : d.isBuy = !a.isBuy)
    (hpd : d.price = some pd) (ht : m.time = 0) (hl : m.cur.last = none) (hmid : m.cur.mid = some md)
    (hmk : m.cur.market = some mp) (hac : a.id ≠ c.id) (had : a.id ≠ d.id) (hcd : c.id ≠ d.id)
    (h2 : (NumOpsC.ofInt 2 : K) ≠ NumOpsC.ofInt 0)
    (hg : m.gone.find? (fun g => g.1.id = a.id) = some (a, gk)) :
    let res := resultG cancelObs (rhoCancel m a c d dflt) env XFUEL "Market._cancel_order" [.ref 5, .ref 2]
        (stCancel a.isBuy a.price.isSome .goneOther)
    cnth res (if a.isBuy then 2 else 3) = .tuple [.ref 3] ∧ cnth res (if a.isBuy then 3 else 2) = .tuple [.ref 4] ∧
      cnth (cnth res 6) 6 = .int a.vol := by
  intro res
  have hres : res = modelCancelObs a (m.cancel (srcOps K) a.id) :=
    cancel_src_goneOther m a c d dflt pc pd md mp gk hbook hta hc hpc hd hpd ht hl hmid hmk hac had hcd h2 hg
  rw [hres]
  cases ha : a.isBuy
  · rw [ha] at hbook hc hd
    simp only [Bool.false_eq_true, if_false, Bool.not_false] at hbook hd
    simp [cnth, modelCancelObs, Market.cancel, findOrder, Book.remove, Market.refresh, hbook.1, hbook.2, hac, had, hcd,
      Ne.symm hac, Ne.symm had, Ne.symm hcd, ha, hc, hd, hta, hg]
  · rw [ha] at hbook hc hd
    simp only [if_true, Bool.not_true] at hbook hd
    simp [cnth, modelCancelObs, Market.cancel, findOrder, Book.remove, Market.refresh, hbook.1, hbook.2, hac, had, hcd,
      Ne.symm hac, Ne.symm had, Ne.symm hcd, ha, hc, hd, hta, hg]

end Pams.C04

/-! ### C08 -/
namespace Pams.C08
open Pams Pams.Py Pams.Src Pams.SrcAccept
variable {K : Type} [LinearOrder K] [NumOpsC K]

/-- **the mid-quote is refreshed at a cancel** (current source): when the best order of a side is
cancelled and another limit order `c` is behind it, the mid-quote becomes the mean of `c`'s price and the
opposite best; when the cancelled order was alone on its side, the mid-quote is `None`. -/
theorem source_cancel_refreshes_mid (m : Market K) (a c d : Order K) (dflt pc pd md mp : K)
    (hta : a.ttl = none) (hc : c.isBuy = a.isBuy) (hpc : c.price = some pc) (hd : d.isBuy = !a.isBuy)
    (hpd : d.price = some pd) (ht : m.time = 0) (hl : m.cur.last = none) (hmid : m.cur.mid = some md)
    (hmk : m.cur.market = some mp) (hac : a.id ≠ c.id) (had : a.id ≠ d.id) (hcd : c.id ≠ d.id)
    (h2 : (NumOpsC.ofInt 2 : K) ≠ NumOpsC.ofInt 0) :
    ((if a.isBuy then m.buys = [a, c] ∧ m.sells = [d] else m.buys = [d] ∧ m.sells = [a, c]) → c.lt a = false →
      cnth (resultG cancelObs (rhoCancel m a c d dflt) env XFUEL "Market._cancel_order" [.ref 5, .ref 2]
        (stCancel a.isBuy a.price.isSome .top)) 4 =
          .tuple [.num (if a.isBuy then (pd + pc) / PyNum.ofInt 2 else (pc + pd) / PyNum.ofInt 2)]) ∧
    ((if a.isBuy then m.buys = [a] ∧ m.sells = [d] else m.buys = [d] ∧ m.sells = [a]) →
      cnth (resultG cancelObs (rhoCancel m a c d dflt) env XFUEL "Market._cancel_order" [.ref 5, .ref 2]
        (stCancel a.isBuy a.price.isSome .alone)) 4 = .tuple [.none]) := by
  constructor
  · intro hbook hsort
    rw [cancel_src_top m a c d dflt pc pd md mp .canceled hbook hta hc hpc hd hpd ht hl hmid hmk hac had hcd h2 hsort]
    cases ha : a.isBuy
    · rw [ha] at hbook hc hd
      simp only [Bool.false_eq_true, if_false, Bool.not_false] at hbook hd
      simp [cnth, modelCancelObs, Market.cancel, findOrder, Book.remove, Market.refresh, midOf, Book.bestPrice, srcOps,
        hbook.1, hbook.2, hac, had, hcd, Ne.symm hac, Ne.symm had, Ne.symm hcd, ha, hc, hd, hpc, hpd, cOpt]
    · rw [ha] at hbook hc hd
      simp only [if_true, Bool.not_true] at hbook hd
      simp [cnth, modelCancelObs, Market.cancel, findOrder, Book.remove, Market.refresh, midOf, Book.bestPrice, srcOps,
        hbook.1, hbook.2, hac, had, hcd, Ne.symm hac, Ne.symm had, Ne.symm hcd, ha, hc, hd, hpc, hpd, cOpt]
  · intro hbook
    rw [cancel_src_alone m a c d dflt pc pd md mp .canceled hbook hta hc hpc hd hpd ht hl hmid hmk hac had hcd h2 trivial]
    cases ha : a.isBuy
    · rw [ha] at hbook hc hd
      simp only [Bool.false_eq_true, if_false, Bool.not_false] at hbook hd
      simp [cnth, modelCancelObs, Market.cancel, findOrder, Book.remove, Market.refresh, midOf, Book.bestPrice, srcOps,
        hbook.1, hbook.2, had, Ne.symm had, ha, hd, hpd, cOpt]
    · rw [ha] at hbook hc hd
      simp only [if_true, Bool.not_true] at hbook hd
      simp [cnth, modelCancelObs, Market.cancel, findOrder, Book.remove, Market.refresh, midOf, Book.bestPrice, srcOps,
        hbook.1, hbook.2, had, Ne.symm had, ha, hd, hpd, cOpt]

end Pams.C08
