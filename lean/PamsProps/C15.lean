/-
C15 — Price limit rule: accepted prices stay in the band; other markets untouched.
-/
import PamsLemmas.SourceTie
import PamsLemmas.SrcEvents
import PamsModel.Events
import Mathlib.Algebra.Order.Field.Basic
import Mathlib.Tactic.Linarith
import Mathlib.Tactic.Positivity
import Mathlib.Algebra.Order.Ring.Abs

namespace Pams.C15
open Pams Pams.Events

variable {K : Type} [Field K] [LinearOrder K] [IsStrictOrderedRing K]

/-- the exact-arithmetic instance of the arithmetic signature -/
instance fieldArith : Arith K where
  zero := 0
  one := 1
  ofNat := fun n => (n : K)
  decLt := fun a b => inferInstance
  decLe := fun a b => inferInstance

@[simp] theorem arith_zero : (Arith.zero : K) = 0 := rfl
@[simp] theorem arith_one : (Arith.one : K) = 1 := rfl
@[simp] theorem arith_ofNat (n : Nat) : (Arith.ofNat n : K) = (n : K) := rfl

theorem abs_eq (x : K) : Arith.abs x = |x| := by
  unfold Arith.abs
  show (if x < 0 then -x else x) = |x|
  split
  · rename_i h; exact (abs_of_neg h).symm
  · rename_i h; exact (abs_of_nonneg (not_lt.mp h)).symm

theorem max_eq (a b : K) : Arith.max a b = max a b := by
  unfold Arith.max
  split
  · rename_i h; exact (max_eq_right (le_of_lt h)).symm
  · rename_i h; exact (max_eq_left (not_lt.mp h)).symm

theorem min_eq (a b : K) : Arith.min a b = min a b := by
  unfold Arith.min
  split
  · rename_i h; exact (min_eq_right (le_of_lt h)).symm
  · rename_i h; exact (min_eq_left (not_lt.mp h)).symm

theorem clip_eq (p0 r p : K) :
    clip p0 r p = if |p0 * r| ≤ |p - p0| then min (max p (p0 * (1 - r))) (p0 * (1 + r)) else p := by
  unfold clip
  rw [abs_eq, abs_eq, min_eq, max_eq]
  rfl

/-- Every clipped price lies in the band `[p0 (1 - r), p0 (1 + r)]`. -/
theorem clip_in_band (p0 r p : K) (hp0 : 0 < p0) (hr : 0 ≤ r) :
    p0 * (1 - r) ≤ clip p0 r p ∧ clip p0 r p ≤ p0 * (1 + r) := by
  rw [clip_eq]
  have hband : p0 * (1 - r) ≤ p0 * (1 + r) := by nlinarith
  split
  · exact ⟨le_min (le_max_right _ _) hband, min_le_right _ _⟩
  · rename_i h
    have h' : |p - p0| < |p0 * r| := not_le.mp h
    rw [abs_of_nonneg (mul_nonneg hp0.le hr)] at h'
    have := abs_lt.mp h'
    constructor <;> nlinarith [this.1, this.2]

/-- A price already inside the band (edges included) passes unchanged. -/
theorem clip_id_inside (p0 r p : K) (hp0 : 0 < p0) (hr : 0 ≤ r)
    (h1 : p0 * (1 - r) ≤ p) (h2 : p ≤ p0 * (1 + r)) : clip p0 r p = p := by
  rw [clip_eq]
  split
  · rw [max_eq_left h1, min_eq_left h2]
  · rfl

/-- A price outside the band is moved to the nearer edge. -/
theorem clip_outside (p0 r p : K) (hp0 : 0 < p0) (hr : 0 ≤ r) :
    (p0 * (1 + r) < p → clip p0 r p = p0 * (1 + r)) ∧
    (p < p0 * (1 - r) → clip p0 r p = p0 * (1 - r)) := by
  have hband : p0 * (1 - r) ≤ p0 * (1 + r) := by nlinarith
  have hpr : |p0 * r| = p0 * r := abs_of_nonneg (mul_nonneg hp0.le hr)
  constructor
  · intro h
    rw [clip_eq]
    have : |p0 * r| ≤ |p - p0| := by
      rw [hpr, abs_of_nonneg (by nlinarith)]; nlinarith
    rw [if_pos this, max_eq_left (by nlinarith), min_eq_right h.le]
  · intro h
    rw [clip_eq]
    have : |p0 * r| ≤ |p - p0| := by
      rw [hpr, abs_of_nonpos (by nlinarith)]; nlinarith
    rw [if_pos this, max_eq_right h.le, min_eq_left hband]

/-- The hook: orders for markets that are not targets are accepted unchanged, market orders pass,
limit prices on target markets are clipped into the band. -/
theorem hook_spec (targets : List Nat) (p0 : Nat → K) (r : K) (market : Nat) (price : Option K) :
    (market ∉ targets → limitHook targets p0 r market price = price) ∧
    (limitHook targets p0 r market none = none) ∧
    (market ∈ targets → ∀ p, price = some p →
      limitHook targets p0 r market price = some (clip (p0 market) r p)) := by
  refine ⟨?_, ?_, ?_⟩
  · intro h
    unfold limitHook
    have : targets.contains market = false := by simpa using h
    rw [this]; rfl
  · unfold limitHook; split <;> rfl
  · intro h p hp
    unfold limitHook
    have : targets.contains market = true := by simpa using h
    rw [this, hp]; rfl

/-- With tick rounding by less than one tick (C19) the accepted price, hence every trade price
(C01: a trade price is an accepted limit price of one of its parties), stays within the band
widened by one tick. -/
theorem accepted_within_widened_band (p0 r p tick q : K) (hp0 : 0 < p0) (hr : 0 ≤ r)
    (hsnap : clip p0 r p - tick < q ∧ q < clip p0 r p + tick) :
    p0 * (1 - r) - tick < q ∧ q < p0 * (1 + r) + tick := by
  have := clip_in_band p0 r p hp0 hr
  constructor <;> linarith [this.1, this.2, hsnap.1, hsnap.2]

/-! Non-vacuity over ℚ -/
theorem nonvacuous : clip (300 : ℚ) (1/20) 400 = 315 ∧ clip (300 : ℚ) (1/20) 100 = 285 ∧
    clip (300 : ℚ) (1/20) 310 = 310 ∧ clip (300 : ℚ) (1/20) 315 = 315 := by
  refine ⟨?_, ?_, ?_, ?_⟩ <;> (rw [clip_eq]; norm_num [abs_of_nonneg, abs_of_neg])

/-- (T) `PriceLimitRule.get_limited_price` in the current sources: `>=` between the absolute changes -/
theorem source_clip_test :
    Pams.Source.opsOf "PriceLimitRule.get_limited_price" = ["not in", "is", ">="] := by decide


/-! ### (T2) the current source text of `PriceLimitRule`, by symbolic execution

`Pams.Src.*` (PamsLemmas/SrcEvents.lean) prove, for *uninterpreted* arithmetic on any linear order,
that running the translated source of `get_limited_price` / `hooked_before_order` returns the model's
`clip` / `limitHook`.  Here the arithmetic is instantiated with the field operations, so that the
theorems above apply to what the source computes. -/
section SourceCode
open Pams.Py

/-- the field operations as the operations the translated code uses (`floor` … are not used by this
event; they are given dummy values and nothing below mentions them) -/
@[reducible] def fieldOps : NumOpsC K :=
  { add := (· + ·), sub := (· - ·), mul := (· * ·), div := (· / ·), neg := (- ·), ofInt := fun i => (i : K),
    floor := fun _ => 0, ceil := fun _ => 0, fmod := fun a _ => a, exp := id, log := id, sqrt := id }

/-- `clip` read with the translated code's arithmetic is `clip` read with the field's -/
theorem clip_code_arith (p0 r p : K) :
    @clip K (@pyNumOfOrder K _ fieldOps).toArith p0 r p = clip p0 r p := by
  unfold clip Arith.abs Arith.max Arith.min
  have h0 : (@NumOpsC.ofInt K fieldOps 0) = 0 := Int.cast_zero
  have h1 : (@NumOpsC.ofInt K fieldOps 1) = 1 := Int.cast_one
  simp only [arith_zero_eq, arith_one_eq, h0, h1, arith_zero, arith_one]

/-- **the price the current source of `get_limited_price` returns for a limit order on a target
market lies in the band** -/
theorem code_limited_price_in_band (p r p0 : K) (x : Nat → Int) (y : Nat → Bool) (hp0 : 0 < p0) (hr : 0 ≤ r) :
    ∃ q : K, @result K (@pyNumOfOrder K _ fieldOps) (@Src.rhoClip K p r p0 x y) Src.evEnv Src.FUEL
        "PriceLimitRule.get_limited_price" [.ref 3, .ref 1, .ref 5] (Src.plrSt true) = .num q ∧
      p0 * (1 - r) ≤ q ∧ q ≤ p0 * (1 + r) ∧ (p0 * (1 - r) ≤ p → p ≤ p0 * (1 + r) → q = p) := by
  refine ⟨clip p0 r p, ?_, (clip_in_band p0 r p hp0 hr).1, (clip_in_band p0 r p hp0 hr).2, ?_⟩
  · rw [← clip_code_arith]
    exact @Src.get_limited_price_correct K _ fieldOps p r p0 x y
  · intro h1 h2
    exact clip_id_inside p0 r p hp0 hr h1 h2

end SourceCode

end Pams.C15
