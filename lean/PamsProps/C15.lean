/-
C15 — Price limit rule: accepted prices stay in the band; other markets untouched.
-/
import PamsLemmas.SourceTie
import PamsModel.Events
import Mathlib.Algebra.Order.Field.Basic
import Mathlib.Tactic.Linarith
import Mathlib.Tactic.Positivity
import Mathlib.Algebra.Order.Ring.Abs

namespace Pams.C15
open Pams Pams.Events

variable {K : Type} [Field K] [LinearOrder K] [IsStrictOrderedRing K]

/-- the exact-arithmetic instance of the arithmetic signature -/
instance fieldArith : Arith K where
  zero := 0
  one := 1
  ofNat := fun n => (n : K)
  decLt := fun a b => inferInstance
  decLe := fun a b => inferInstance

@[simp] theorem arith_zero : (Arith.zero : K) = 0 := rfl
@[simp] theorem arith_one : (Arith.one : K) = 1 := rfl
@[simp] theorem arith_ofNat (n : Nat) : (Arith.ofNat n : K) = (n : K) := rfl

theorem abs_eq (x : K) : Arith.abs x = |x| := by
  unfold Arith.abs
  show (if x < 0 then -x else x) = |x|
  split
  · rename_i h; exact (abs_of_neg h).symm
  · rename_i h; exact (abs_of_nonneg (not_lt.mp h)).symm

theorem max_eq (a b : K) : Arith.max a b = max a b := by
  unfold Arith.max
  split
  · rename_i h; exact (max_eq_right (le_of_lt h)).symm
  · rename_i h; exact (max_eq_left (not_lt.mp h)).symm

theorem min_eq (a b : K) : Arith.min a b = min a b := by
  unfold Arith.min
  split
  · rename_i h; exact (min_eq_right (le_of_lt h)).symm
  · rename_i h; exact (min_eq_left (not_lt.mp h)).symm

theorem clip_eq (p0 r p : K) :
    clip p0 r p = if |p0 * r| ≤ |p - p0| then min (max p (p0 * (1 - r))) (p0 * (1 + r)) else p := by
  unfold clip
  rw [abs_eq, abs_eq, min_eq, max_eq]
  rfl

/-- Every clipped price lies in the band `[p0 (1 - r), p0 (1 + r)]`. -/
theorem clip_in_band (p0 r p : K) (hp0 : 0 < p0) (hr : 0 ≤ r) :
    p0 * (1 - r) ≤ clip p0 r p ∧ clip p0 r p ≤ p0 * (1 + r) := by
  rw [clip_eq]
  have hband : p0 * (1 - r) ≤ p0 * (1 + r) := by nlinarith
  split
  · exact ⟨le_min (le_max_right _ _) hband, min_le_right _ _⟩
  · rename_i h
    have h' : |p - p0| < |p0 * r| := not_le.mp h
    rw [abs_of_nonneg (mul_nonneg hp0.le hr)] at h'
    have := abs_lt.mp h'
    constructor <;> nlinarith [this.1, this.2]

/-- A price already inside the band (edges included) passes unchanged. -/
theorem clip_id_inside (p0 r p : K) (hp0 : 0 < p0) (hr : 0 ≤ r)
    (h1 : p0 * (1 - r) ≤ p) (h2 : p ≤ p0 * (1 + r)) : clip p0 r p = p := by
  rw [clip_eq]
  split
  · rw [max_eq_left h1, min_eq_left h2]
  · rfl

/-- A price outside the band is moved to the nearer edge. -/
theorem clip_outside (p0 r p : K) (hp0 : 0 < p0) (hr : 0 ≤ r) :
    (p0 * (1 + r) < p → clip p0 r p = p0 * (1 + r)) ∧
    (p < p0 * (1 - r) → clip p0 r p = p0 * (1 - r)) := by
  have hband : p0 * (1 - r) ≤ p0 * (1 + r) := by nlinarith
  have hpr : |p0 * r| = p0 * r := abs_of_nonneg (mul_nonneg hp0.le hr)
  constructor
  · intro h
    rw [clip_eq]
    have : |p0 * r| ≤ |p - p0| := by
      rw [hpr, abs_of_nonneg (by nlinarith)]; nlinarith
    rw [if_pos this, max_eq_left (by nlinarith), min_eq_right h.le]
  · intro h
    rw [clip_eq]
    have : |p0 * r| ≤ |p - p0| := by
      rw [hpr, abs_of_nonpos (by nlinarith)]; nlinarith
    rw [if_pos this, max_eq_right h.le, min_eq_left hband]

/-- The hook: orders for markets that are not targets are accepted unchanged, market orders pass,
limit prices on target markets are clipped into the band. -/
theorem hook_spec (targets : List Nat) (p0 : Nat → K) (r : K) (market : Nat) (price : Option K) :
    (market ∉ targets → limitHook targets p0 r market price = price) ∧
    (limitHook targets p0 r market none = none) ∧
    (market ∈ targets → ∀ p, price = some p →
      limitHook targets p0 r market price = some (clip (p0 market) r p)) := by
  refine ⟨?_, ?_, ?_⟩
  · intro h
    unfold limitHook
    have : targets.contains market = false := by simpa using h
    rw [this]; rfl
  · unfold limitHook; split <;> rfl
  · intro h p hp
    unfold limitHook
    have : targets.contains market = true := by simpa using h
    rw [this, hp]; rfl

/-- With tick rounding by less than one tick (C19) the accepted price, hence every trade price
(C01: a trade price is an accepted limit price of one of its parties), stays within the band
widened by one tick. -/
theorem accepted_within_widened_band (p0 r p tick q : K) (hp0 : 0 < p0) (hr : 0 ≤ r)
    (hsnap : clip p0 r p - tick < q ∧ q < clip p0 r p + tick) :
    p0 * (1 - r) - tick < q ∧ q < p0 * (1 + r) + tick := by
  have := clip_in_band p0 r p hp0 hr
  constructor <;> linarith [this.1, this.2, hsnap.1, hsnap.2]

/-! Non-vacuity over ℚ -/
theorem nonvacuous : clip (300 : ℚ) (1/20) 400 = 315 ∧ clip (300 : ℚ) (1/20) 100 = 285 ∧
    clip (300 : ℚ) (1/20) 310 = 310 ∧ clip (300 : ℚ) (1/20) 315 = 315 := by
  refine ⟨?_, ?_, ?_, ?_⟩ <;> (rw [clip_eq]; norm_num [abs_of_nonneg, abs_of_neg])

/-- (T) `PriceLimitRule.get_limited_price` in the current sources: `>=` between the absolute changes -/
theorem source_clip_test :
    Pams.Source.opsOf "PriceLimitRule.get_limited_price" = ["not in", "is", ">="] := by decide

end Pams.C15
