/-
C04 — Order accounting and lifetime: nothing lost, no fill after cancel or expiry.
(the clause "only when submitted by its owner" is a runner check, see PamsProps/C04R.lean /
`Pams.Runner`.)
-/
import PamsLemmas.SrcOrder
import PamsLemmas.SourceTie
import PamsLemmas.AccountLemmas
import Mathlib.Data.Nat.Basic

set_option linter.unusedSectionVars false

namespace Pams.C04
open Pams
variable {P : Type} [LinearOrder P]

/-- Accounting identity along every history from the initial state: for every order id, the volume
accepted under it equals the sum of its fills plus the volume it currently has — its resting
volume, or the volume it left the book with (0 if it was filled completely, the volume reported
at its cancellation or expiry otherwise; volumes of orders that left never change again). -/
theorem accounting_identity (ops : PriceOps P) (mp : P) (fund : Option P) (os : List (Op P))
    (hv : ∀ o ∈ os, o.valid) (id : Nat) :
    accepted id ((Market.init ops mp fund).runOps ops os).2 =
      filledIn id ((Market.init ops mp fund).runOps ops os).2 +
        curVol ((Market.init ops mp fund).runOps ops os).1 id := by
  have := run_accounting ops (Market.init ops mp fund) (inv_init ops mp fund) os hv id
  have h0 : curVol (Market.init ops mp fund) id = 0 := by simp [curVol, Market.init, volOf, goneVol]
  omega

/-- Resting orders always have positive volume, were accepted no later than now and are not
past their lifetime. -/
theorem resting_positive (m : Market P) (h : Inv m) :
    ∀ o, (o ∈ m.buys ∨ o ∈ m.sells) → 0 < o.vol ∧ o.placedAt ≤ m.time ∧
      (∀ t, o.ttl = some t → m.time ≤ o.placedAt + t) := by
  intro o ho
  rcases ho with ho | ho
  · refine ⟨h.buys.pos o ho, h.buys.placed o ho, ?_⟩
    intro t ht
    have := h.buys.alive o ho
    simp [Order.expired, ht] at this
    exact this
  · refine ⟨h.sells.pos o ho, h.sells.placed o ho, ?_⟩
    intro t ht
    have := h.sells.alive o ho
    simp [Order.expired, ht] at this
    exact this

/-- A cancel record reports the order's current volume.  A resting order leaves the book with
that volume and is remembered with it; cancelling an order that already left changes nothing. -/
theorem cancel_reports_current_volume (ops : PriceOps P) (m m' : Market P) (h : Inv m) (id : Nat)
    (l : CancelLog P) (hc : m.cancel ops id = .ok (m', l)) :
    l.id = id ∧ l.cancelTime = m.time ∧
    ((∃ o, (o ∈ m.buys ∨ o ∈ m.sells) ∧ o.id = id ∧ l.vol = o.vol ∧
        (∀ y ∈ m'.buys, y.id ≠ id) ∧ (∀ y ∈ m'.sells, y.id ≠ id) ∧ (o, Gone.canceled) ∈ m'.gone) ∨
     (∃ g ∈ m.gone, g.1.id = id ∧ l.vol = g.1.vol ∧ m'.buys = m.buys ∧ m'.sells = m.sells ∧
        m'.gone = m.gone)) := by
  unfold Market.cancel at hc
  split at hc
  · rename_i o hfo
    simp at hc; obtain ⟨rfl, rfl⟩ := hc
    have ho := findOrder_some id m.buys o hfo
    refine ⟨ho.2, rfl, Or.inl ⟨o, Or.inl ho.1, ho.2, rfl, ?_, ?_, by simp [Market.refresh]⟩⟩
    · intro y hy
      simpa [Market.refresh, Book.remove] using (List.mem_filter.mp hy).2
    · intro y hy heq
      exact h.disj o ho.1 y hy (by rw [ho.2, heq])
  · split at hc
    · rename_i o hfo
      simp at hc; obtain ⟨rfl, rfl⟩ := hc
      have ho := findOrder_some id m.sells o hfo
      refine ⟨ho.2, rfl, Or.inl ⟨o, Or.inr ho.1, ho.2, rfl, ?_, ?_, by simp [Market.refresh]⟩⟩
      · intro y hy heq
        exact h.disj y hy o ho.1 (by rw [ho.2, heq])
      · intro y hy
        simpa [Market.refresh, Book.remove] using (List.mem_filter.mp hy).2
    · split at hc
      · rename_i o gn hfg
        simp at hc; obtain ⟨rfl, rfl⟩ := hc
        have hm := List.mem_of_find?_eq_some hfg
        have hp := List.find?_some hfg
        exact ⟨by simpa using hp, rfl, Or.inr ⟨(o, gn), hm, by simpa using hp, rfl, rfl, rfl, rfl⟩⟩
      · simp at hc

/-- No fill after an order left the book (cancelled, expired or filled completely): every fill of
a round is between two *resting* orders, and the ids of orders that left are never ids of resting
orders (`goneInv_runOps`: this holds in every reachable state). -/
theorem no_fill_after_leaving (ops : PriceOps P) (m m' : Market P) (fs : List (Fill P))
    (h : Inv m) (hg : GoneInv m) (he : m.execution ops = .ok (m', fs)) :
    ∀ f ∈ fs, ∀ g ∈ m.gone, f.buyId ≠ g.1.id ∧ f.sellId ≠ g.1.id := by
  rcases execution_cases ops m m' fs he with ⟨_, _, rfl⟩ | ⟨_, _, price, hrp, hs⟩
  · simp
  · intro f hf g hgm
    have hfs : fs = (walk m.buys m.sells).1.map (mkFill m.time price) := by
      have := congrArg Prod.snd hs; simpa [Market.settle] using this
    rw [hfs] at hf
    obtain ⟨pr, hpr, rfl⟩ := List.mem_map.mp hf
    obtain ⟨⟨b, hb, hsb⟩, ⟨s, hs', hss⟩⟩ := walk_pairs_mem m.buys m.sells pr hpr
    have := hg g hgm
    exact ⟨by simp only [mkFill]; rw [hsb.1]; exact this.2.1 b hb,
           by simp only [mkFill]; rw [hss.1]; exact this.2.2 s hs'⟩

/-- No fill at a time later than acceptance time + time-to-live. -/
theorem no_fill_after_ttl (ops : PriceOps P) (m m' : Market P) (fs : List (Fill P))
    (h : Inv m) (he : m.execution ops = .ok (m', fs)) :
    ∀ f ∈ fs, ∃ b ∈ m.buys, ∃ s ∈ m.sells, b.id = f.buyId ∧ s.id = f.sellId ∧ f.time = m.time ∧
      (∀ t, b.ttl = some t → f.time ≤ b.placedAt + t) ∧
      (∀ t, s.ttl = some t → f.time ≤ s.placedAt + t) ∧ 0 < f.vol := by
  rcases execution_cases ops m m' fs he with ⟨_, _, rfl⟩ | ⟨_, _, price, hrp, hs⟩
  · simp
  · intro f hf
    have hfs : fs = (walk m.buys m.sells).1.map (mkFill m.time price) := by
      have := congrArg Prod.snd hs; simpa [Market.settle] using this
    rw [hfs] at hf
    obtain ⟨pr, hpr, rfl⟩ := List.mem_map.mp hf
    obtain ⟨⟨b, hb, hsb⟩, ⟨s, hs', hss⟩⟩ := walk_pairs_mem m.buys m.sells pr hpr
    refine ⟨b, hb, s, hs', hsb.1.symm, hss.1.symm, rfl,
      (resting_positive m h b (Or.inl hb)).2.2, (resting_positive m h s (Or.inr hs')).2.2, ?_⟩
    simp only [mkFill]
    exact walk_pairs_pos m.buys m.sells h.buys.pos h.sells.pos pr hpr

/-- An order leaves the book exactly when the clock passes acceptance time + time-to-live: a
clock step to time `t+1` keeps exactly the resting orders with `placedAt + ttl ≥ t+1` (all of
them when there is no time-to-live) and emits one expiry record, with the remaining volume, for
each of the others. -/
theorem expiry_exact (ops : PriceOps P) (m : Market P) (fund : Option P) :
    let m' := (m.tick ops fund).1
    (∀ o, o ∈ m'.buys ↔ (o ∈ m.buys ∧ ¬ ∃ t, o.ttl = some t ∧ o.placedAt + t < m.time + 1)) ∧
    (∀ o, o ∈ m'.sells ↔ (o ∈ m.sells ∧ ¬ ∃ t, o.ttl = some t ∧ o.placedAt + t < m.time + 1)) ∧
    (m.tick ops fund).2 =
      (m.buys.filter (fun o => o.expired (m.time + 1))).map (mkExpiry (m.time + 1)) ++
      (m.sells.filter (fun o => o.expired (m.time + 1))).map (mkExpiry (m.time + 1)) := by
  have hex : ∀ o : Order P, o.expired (m.time + 1) = true ↔
      ∃ t, o.ttl = some t ∧ o.placedAt + t < m.time + 1 := by
    intro o
    unfold Order.expired
    rcases o.ttl with _ | t <;> simp
  refine ⟨?_, ?_, rfl⟩
  · intro o
    simp only [Market.tick, Book.keepAt, List.mem_filter, Bool.not_eq_eq_eq_not, Bool.not_true]
    rw [← hex o]; simp
  · intro o
    simp only [Market.tick, Book.keepAt, List.mem_filter, Bool.not_eq_eq_eq_not, Bool.not_true]
    rw [← hex o]; simp

/-- The same when the clock is moved by several steps at once (`_set_time`): every order whose
life ended before the new time leaves the book, with one expiry record each, however far the
clock jumps. -/
theorem jump_expiry_exact (ops : PriceOps P) (m : Market P) (k : Nat) (fund : Option P) :
    let m' := (m.setTime ops k fund).1
    (∀ o, o ∈ m'.buys ↔ (o ∈ m.buys ∧ ¬ ∃ t, o.ttl = some t ∧ o.placedAt + t < m.time + k)) ∧
    (∀ o, o ∈ m'.sells ↔ (o ∈ m.sells ∧ ¬ ∃ t, o.ttl = some t ∧ o.placedAt + t < m.time + k)) ∧
    (m.setTime ops k fund).2 =
      (m.buys.filter (fun o => o.expired (m.time + k))).map (mkExpiry (m.time + k)) ++
      (m.sells.filter (fun o => o.expired (m.time + k))).map (mkExpiry (m.time + k)) := by
  have hex : ∀ o : Order P, o.expired (m.time + k) = true ↔
      ∃ t, o.ttl = some t ∧ o.placedAt + t < m.time + k := by
    intro o
    unfold Order.expired
    rcases o.ttl with _ | t <;> simp
  refine ⟨?_, ?_, rfl⟩
  · intro o
    simp only [Market.setTime, Book.keepAt, List.mem_filter, Bool.not_eq_eq_eq_not, Bool.not_true]
    rw [← hex o]; simp
  · intro o
    simp only [Market.setTime, Book.keepAt, List.mem_filter, Bool.not_eq_eq_eq_not, Bool.not_true]
    rw [← hex o]; simp

/-- An order object is accepted at most once and only by the market it names: a submission that
names another market, or that already carries a stamp (acceptance stamps the object with
`placed_at` and `order_id`), is refused and changes nothing; a fresh one is accepted, stamped with
the next id and the current time. -/
theorem accept_once (ops : PriceOps P) (m : Market P) (r : Req P) :
    m.submit ops false false r = .error .wrongMarket ∧
    m.submit ops false true r = .error .wrongMarket ∧
    m.submit ops true true r = .error .alreadySubmitted ∧
    (∃ m' l, m.submit ops true false r = .ok (m', l) ∧ l.id = m.nextId ∧ l.time = m.time ∧
      m'.nextId = m.nextId + 1 ∧ l.vol = r.vol ∧ l.agent = r.agent ∧ l.isBuy = r.isBuy) := by
  refine ⟨rfl, rfl, rfl, _, _, rfl, rfl, rfl, ?_, rfl, rfl, rfl⟩
  cases r.isBuy <;> simp [Market.refresh]

/-! Non-vacuity: partial fill, then cancel of the rest, then an expiry. -/
def natOps : PriceOps Nat := { mid := fun a b => (a + b) / 2, addNotional := fun acc v p => acc + v * p, zero := 0, snap := fun _ p => p }
def demoOps : List (Op Nat) :=
  [.setRunning true,
   .add { agent := 1, isBuy := false, price := some 100, vol := 5, ttl := none },
   .add { agent := 2, isBuy := true, price := some 100, vol := 2, ttl := none }, .exec,
   .cancel 0,
   .add { agent := 3, isBuy := true, price := some 90, vol := 4, ttl := some 1 },
   .tick none, .tick none]
theorem nonvacuous :
    accepted 0 ((Market.init natOps 100 none).runOps natOps demoOps).2 = 5 ∧
    filledIn 0 ((Market.init natOps 100 none).runOps natOps demoOps).2 = 2 ∧
    curVol ((Market.init natOps 100 none).runOps natOps demoOps).1 0 = 3 ∧
    curVol ((Market.init natOps 100 none).runOps natOps demoOps).1 2 = 4 ∧
    ((Market.init natOps 100 none).runOps natOps demoOps).1.buys = [] := by decide +kernel

/-- (T) expiry and acceptance guards in the current sources: expiry keys `< time`, `placed_at + ttl <
time`, and the three guards + the grid test of `_add_order` -/
theorem source_expiry_and_guards :
    Pams.Source.opsOf "OrderBook._check_expired_orders" = ["<", "<", "=="] ∧
    Pams.Source.opsOf "Order.is_expired" = ["is", "is", "<"] ∧
    Pams.Source.opsOf "Market._add_order" = ["!=", "is not", "is not", "is not", "!=", "!=", "is not"] := by decide


/-! ### (T2) the current source text of `Order.is_expired`, by symbolic execution -/
section SourceCode
open Pams.Py Pams.Src
variable {K : Type} [LinearOrder K] [NumOpsC K]

/-- **running the source of `is_expired(time)` on an accepted order says "expired" exactly when the
order has a time-to-live and `placed_at + ttl < time`** -/
theorem code_is_expired (a b : Order K) (time : Nat) (dflt : K) (x : Nat → Int) (y : Nat → Bool)
    (hx : x 5 = time) :
    ∃ r, result (rho2 a b dflt x y) env FUEL "Order.is_expired" [.ref 1, .int (.atom 5)]
        (st2 false a.ttl.isSome false false) = .bool r ∧
      (r = true ↔ ∃ t, a.ttl = some t ∧ a.placedAt + t < time) := by
  refine ⟨a.expired time, is_expired_correct a b time dflt x y hx, ?_⟩
  unfold Order.expired
  cases a.ttl <;> simp

end SourceCode

end Pams.C04
