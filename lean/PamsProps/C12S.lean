/-
C12 (continued) — parameter changes: "changing a parameter … at time t never alters values at times
before t, and later values continue from the changed level", and "per-step log-returns have the
configured drift / volatility / correlations" when the configuration changes over time.

Model: PamsModel/FundSched.lean (regeneration point, current parameter set, and — as ghost state —
the parameter set every generated step was generated with).  `sched p0 h u` is the parameter set in
force at step `u` given the setter calls `h` so far: the one installed by the last call (in call
order) whose time lies before `u`.

The theorems hold for the setters as repaired by the `fix:` commit for defect F8 (`_generate_until`
before the change).  For the setters as they stood before, and for the `min(time, generated_until)`
variant, the statement is *false*: `unsettled_setter_loses_change` and `min_setter_applies_change_early`
exhibit the failing histories (the same ones the check found on the real code).
-/
import PamsLemmas.FundSchedLemmas

namespace Pams.C12
open Pams.FundS

variable {P : Type}

/-- **Every final step was generated with the parameter set in force at that step** — after any
sequence of price reads, setter calls (at any times, in any order, with or without reads in between)
and admissible shocks, starting from the initial state: for every step `u` with `1 ≤ u ≤
generated_until`, the parameters the kept price of `u` was generated with are `sched p0 h u`. -/
theorem steps_generated_with_parameters_in_force (p0 : P) (chunk : Nat) (hc : 1 ≤ chunk) (ops : List (Op P))
    (ha : admissibleRun (init p0 chunk) [] ops) (u : Nat) (h1 : 1 ≤ u)
    (hu : u ≤ (run (init p0 chunk) [] ops).1.g) :
    (run (init p0 chunk) [] ops).1.prov[u]? = some (sched p0 (run (init p0 chunk) [] ops).2 u) :=
  (inv_run p0 ops _ _ (inv_init p0 chunk hc) ha).final u h1 hu

/-- a setter call with time `t` governs exactly the steps after `t`: for `u ≤ t` the parameter set in
force is what it was before the call -/
theorem change_governs_later_steps_only (p0 : P) (h : List (Nat × P)) (t : Nat) (x : P) (u : Nat) (hu : u ≤ t) :
    sched p0 (h ++ [(t, x)]) u = sched p0 h u :=
  sched_snoc_le p0 h t x u hu

/-- … and from `t + 1` on it is the set the call installed (until a later call says otherwise) -/
theorem change_governs_later_steps (p0 : P) (h : List (Nat × P)) (t : Nat) (x : P) (u : Nat) (hu : t < u) :
    sched p0 (h ++ [(t, x)]) u = x := by
  unfold sched
  simp [hu]

/-- **A setter call never touches a final step at or before its time**: the generation record of every
step `u ≤ min t generated_until` is unchanged by `change t f` (together with `C12.prefix_kept` — a
chunk keeps the prices up to the regeneration point — no value at a time before `t` changes). -/
theorem change_keeps_final_steps (s : St P) (t : Nat) (f : P → P) (u : Nat) (hl : s.g < s.prov.length)
    (hu : u ≤ s.g) : (s.change t f).prov[u]? = s.prov[u]? := by
  simp only [St.change]
  exact settleLoop_prefix t u (t + 1) s hl hu

/-- a read never touches a final step -/
theorem read_keeps_final_steps (s : St P) (time u : Nat) (hl : s.g < s.prov.length) (hu : u ≤ s.g) :
    (s.read time).prov[u]? = s.prov[u]? :=
  readLoop_prefix time u (time + 1) s hl hu

/-- after a setter call the regeneration point is the call's time (the tie `fund.generated_until` of the
correspondence check) -/
theorem change_sets_regeneration_point (s : St P) (t : Nat) (f : P → P) : (s.change t f).g = t := rfl

/-- a read makes everything up to the requested time final (`time < generated_until`) -/
theorem read_reaches (time : Nat) : ∀ (fuel : Nat) (s : St P), 1 ≤ s.chunk →
    time < (readLoop fuel time s).g ∨ s.g + fuel ≤ (readLoop fuel time s).g
  | 0, s, _ => Or.inr (by simp [readLoop])
  | fuel + 1, s, hc => by
    unfold readLoop
    split
    · rcases read_reaches time fuel s.gen (by simpa [St.gen] using hc) with h | h
      · exact Or.inl h
      · right
        have hg : s.gen.g = s.g + s.chunk := rfl
        omega
    · left; omega

theorem read_final (s : St P) (time : Nat) (hc : 1 ≤ s.chunk) : time < (s.read time).g := by
  rcases read_reaches time (time + 1) s hc with h | h
  · exact h
  · unfold St.read; omega

/-! ### the setters before the repair, and the `min` variant, do not have the property -/

/-- parameter sets as numbers: 0 initially, the calls install 1 and then 2 -/
def demoOps : List (Op Nat) := [.read 200, .change 50 (fun _ => 1), .change 120 (fun _ => 2), .read 200]

/-- **defect F8** (the pinned pams): with the unsettled setter, two calls in a row at times 50 and 120
leave step 100 generated with the *initial* parameters although the first call put parameter set 1
in force from step 51 on. -/
theorem unsettled_setter_loses_change :
    let s0 := (init (0 : Nat) 100).read 200
    let s := ((s0.changeUnsettled 50 (fun _ => 1)).changeUnsettled 120 (fun _ => 2)).read 200
    s.prov[100]? = some 0 ∧ sched 0 [(50, 1), (120, 2)] 100 = 1 := by
  decide +kernel

/-- the `min(time, generated_until)` variant (seeded change C12d) applies the second call too early:
step 100 is generated with parameter set 2, which is in force only from step 121 on. -/
theorem min_setter_applies_change_early :
    let s0 := (init (0 : Nat) 100).read 200
    let s := ((s0.changeMin 50 (fun _ => 1)).changeMin 120 (fun _ => 2)).read 200
    s.prov[100]? = some 2 ∧ sched 0 [(50, 1), (120, 2)] 100 = 1 := by
  decide +kernel

/-- the repaired setter on the same history: step 100 carries parameter set 1, step 121 set 2 -/
theorem settled_setter_demo :
    let r := run (init (0 : Nat) 100) [] demoOps
    r.1.prov[100]? = some 1 ∧ r.1.prov[120]? = some 1 ∧ r.1.prov[121]? = some 2 ∧ r.1.prov[50]? = some 0 ∧
      r.2 = [(50, 1), (120, 2)] ∧ 200 < r.1.g := by
  decide +kernel

/-- non-vacuity of the admissibility hypothesis: the demonstration history is admissible -/
theorem demo_admissible : admissibleRun (init (0 : Nat) 100) [] demoOps := by
  simp [demoOps, admissibleRun, Op.admissible]

end Pams.C12
