/-
C13 — Event hooks fire exactly at their registered occasions, times and markets.
-/
import PamsLemmas.SourceTie
import PamsModel.Hooks
import PamsLemmas.RunnerLemmas

namespace Pams.C13
open Pams.Hooks

/-- a hook cannot be registered twice; registering a new hook keeps the earlier ones, in order -/
theorem no_double_registration (tbl : Table) (h : Hook) :
    (h ∈ tbl → register tbl h = none) ∧
    ((∀ x ∈ tbl, x.id ≠ h.id) → register tbl h = some (tbl ++ [h])) := by
  constructor
  · intro hm
    unfold register
    have : tbl.any (fun x => decide (x.id = h.id)) = true := by
      simp only [List.any_eq_true, decide_eq_true_eq]
      exact ⟨h, hm, rfl⟩
    simp [this]
  · intro hn
    unfold register
    have : tbl.any (fun x => decide (x.id = h.id)) = false := by
      simp only [List.any_eq_false, decide_eq_true_eq]
      exact hn
    simp [this]

/-- tables built by `register` have pairwise distinct hook identities -/
def Distinct (tbl : Table) : Prop := (tbl.map (·.id)).Nodup

theorem register_distinct (tbl tbl' : Table) (h : Hook) (hd : Distinct tbl)
    (hr : register tbl h = some tbl') : Distinct tbl' := by
  unfold register at hr
  by_cases ha : tbl.any (fun x => decide (x.id = h.id)) = true
  · simp [ha] at hr
  · simp only [ha, Bool.false_eq_true, ↓reduceIte, Option.some.injEq] at hr
    subst hr
    unfold Distinct at hd ⊢
    rw [List.map_append, List.nodup_append]
    refine ⟨hd, by simp, ?_⟩
    intro a ha' b hb
    simp only [List.map_cons, List.map_nil, List.mem_cons, List.not_mem_nil, or_false] at hb
    subst hb
    intro e
    subst e
    apply ha
    simp only [List.any_eq_true, decide_eq_true_eq]
    obtain ⟨x, hx, hxe⟩ := List.mem_map.mp ha'
    exact ⟨x, hx, hxe⟩

/-- whether the occurrence's time is in the hook's time list (always, if none is given) -/
def timeOK (h : Hook) (t : Int) : Bool :=
  match h.times with
  | none => true
  | some ts => ts.contains t

theorem contains_keys (h : Hook) (t : Int) :
    ((keysOf h).contains none || (keysOf h).contains (some t)) = timeOK h t ∧
    ¬ ((keysOf h).contains none = true ∧ (keysOf h).contains (some t) = true) := by
  unfold keysOf timeOK
  rcases h.times with _ | ts
  · simp
  · constructor
    · simp [List.contains_iff_mem, List.mem_eraseDups]
    · simp

theorem count_filter_nodup (l : List Hook) (hd : (l.map (·.id)).Nodup) (p : Hook → Bool) (h : Hook)
    (hm : h ∈ l) : (l.filter p).count h = if p h then 1 else 0 := by
  induction l with
  | nil => simp at hm
  | cons x xs ih =>
    simp only [List.map_cons, List.nodup_cons] at hd
    by_cases hx : x = h
    · subst hx
      have hnot : x ∉ xs := fun hmem => hd.1 (List.mem_map.mpr ⟨x, hmem, rfl⟩)
      have hc : (xs.filter p).count x = 0 :=
        List.count_eq_zero.mpr (fun hmem => hnot (List.mem_filter.mp hmem).1)
      by_cases hp : p x = true
      · simp [List.filter_cons, hp, hc]
      · simp [List.filter_cons, hp, hc]
    · have hm' : h ∈ xs := by
        rcases List.mem_cons.mp hm with e | e
        · exact absurd e.symm hx
        · exact e
      by_cases hp : p x = true
      · simp [List.filter_cons, hp, List.count_cons, hx, ih hd.2 hm']
      · simp [List.filter_cons, hp, ih hd.2 hm']

/-- Exactly-once dispatch: a registered hook is invoked exactly once for an occurrence of its
type whose time is in its time list (always, if it has none) and — for market-step hooks — whose
market passes its class and instance filter, and not at all otherwise. -/
theorem dispatch_count (tbl : Table) (hd : Distinct tbl) (h : Hook) (hm : h ∈ tbl)
    (kind : Kind) (t : Int) (market : Option (Nat × Bool)) :
    (dispatch tbl kind t market).count h =
      if h.kind = kind ∧ timeOK h t = true ∧ filterOK h market = true then 1 else 0 := by
  unfold dispatch bucket
  rw [List.filter_append, List.count_append, List.filter_filter, List.filter_filter,
    count_filter_nodup tbl hd _ h hm, count_filter_nodup tbl hd _ h hm]
  have hk := contains_keys h t
  by_cases h1 : h.kind = kind <;> by_cases h3 : filterOK h market = true
  · rcases hn : (keysOf h).contains none <;> rcases hs : (keysOf h).contains (some t) <;>
      simp [h1, h3, hn, hs] at hk ⊢ <;> simp [← hk.1] <;> try exact absurd rfl hk.2
    all_goals simp_all
  all_goals simp [h1, h3]

/-- a hook that is not registered is never invoked -/
theorem dispatch_only_registered (tbl : Table) (kind : Kind) (t : Int)
    (market : Option (Nat × Bool)) : ∀ h ∈ dispatch tbl kind t market, h ∈ tbl ∧ h.kind = kind := by
  intro h hh
  unfold dispatch bucket at hh
  simp only [List.mem_filter, List.mem_append, Bool.and_eq_true, decide_eq_true_eq] at hh
  rcases hh.1 with h1 | h1 <;> exact ⟨h1.1, h1.2.1⟩

/-- the market filter: class requirement (`isinstance`) and instance requirement (identity) -/
theorem filter_spec (h : Hook) (mid : Nat) (isIndex : Bool) :
    filterOK h (some (mid, isIndex)) = true ↔
      (h.cls = some .index → isIndex = true) ∧ (∀ i, h.inst = some i → i = mid) := by
  unfold filterOK
  rcases h.cls with _ | c <;> rcases h.inst with _ | i <;> (try cases c) <;> simp

/-- In the scheduler every occurrence triggers its dispatch exactly once and 'before' dispatches
precede the occurrence taking effect: the request-processing trace has the shape
before-hook, market call, owner callback, after-hook (then the round, with one after-execution
dispatch per fill). -/
theorem every_occurrence_dispatched (t : Nat) (r : Pams.Runner.Request) (fs : List Pams.Runner.RFill)
    (ha : r.accepted = true) (hf : r.fills = some fs) (hc : r.isCancel = false) :
    (Pams.Runner.processRequest t true r).tr =
      [.hookOrderBefore r.ref t, .addOrder r.market r.ref, .cbSubmitted r.owner r.ref,
       .hookOrderAfter r.ref t, .execution r.market, .ledger (fs.map (·.ref))] ++
      Pams.Runner.fillEvents t fs := by
  unfold Pams.Runner.processRequest
  simp [ha, hf, hc]

/-! Non-vacuity: a hook with a repeated time entry is invoked once -/
def h1 : Hook := { id := 0, event := 0, kind := .marketBefore, times := some [5, 5, 7], cls := some .market, inst := some 2 }
def h2 : Hook := { id := 1, event := 1, kind := .marketBefore, times := none, cls := some .index, inst := none }
theorem nonvacuous :
    (dispatch [h1, h2] .marketBefore 5 (some (2, false))).map (·.id) = [0] ∧
    (dispatch [h1, h2] .marketBefore 5 (some (2, true))).map (·.id) = [1, 0] ∧
    (dispatch [h1, h2] .marketBefore 6 (some (2, false))).map (·.id) = [] ∧
    register [h1, h2] h1 = none := by decide

/-- (T) the time source of every dispatch site in the current sources: market time for before-order /
before-cancel / market steps, log time for after-order / after-cancel / after-execution, session
start for before-session, `start + steps - 1` for after-session -/
theorem source_trigger_times :
    PamsGen.triggerTimes =
      [("_trigger_event_before_order", "self.id2market[order.market_id].get_time()"),
       ("_trigger_event_after_order", "order_log.time"),
       ("_trigger_event_before_cancel", "self.id2market[cancel.market_id].get_time()"),
       ("_trigger_event_after_cancel", "cancel_log.cancel_time"),
       ("_trigger_event_after_execution", "execution_log.time"),
       ("_trigger_event_before_session", "session.session_start_time"),
       ("_trigger_event_after_session", "session.session_start_time + session.iteration_steps - 1"),
       ("_trigger_event_before_step_for_market", "market.get_time()"),
       ("_trigger_event_after_step_for_market", "market.get_time()")] := by decide

/-- (T) hook sites of the request loop in the current sources: the before-hook is the first thing
that happens to a request, the market call follows it directly, the after-hook comes after the
owner's notification, and the after-execution hook is dispatched once per fill inside the loop -/
theorem source_hook_sites :
    ∀ x ∈ PamsGen.requestPaths,
      x.2.2.2.take 2 = (if x.2.1 then ["_trigger_event_before_cancel", "_cancel_order"]
                        else ["_trigger_event_before_order", "_add_order"]) ∧
      (x.2.2.2.drop 2).take 3 = (if x.2.1 then ["agent:order.agent_id", "canceled_order", "_trigger_event_after_cancel"]
                                 else ["agent:agent_id", "submitted_order", "_trigger_event_after_order"]) ∧
      (x.2.2.1 = true → x.2.2.2.drop (x.2.2.2.length - 2) = ["_trigger_event_after_execution", "]"]) := by decide

end Pams.C13
