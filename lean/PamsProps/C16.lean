/-
C16 — Trading halt rule: no fills on a stopped market; halt and resume on schedule.
-/
import PamsLemmas.SrcEvents
import PamsLemmas.SourceTie
import PamsModel.Events
import PamsProps.C08
import PamsProps.C09
import PamsProps.C15

namespace Pams.C16
open Pams Pams.Events

/-- No fill is ever recorded on a market that is not running: a round that produces fills
requires the market to be running (`_execute_orders` refuses otherwise). -/
theorem fills_only_running {P : Type} [LinearOrder P] (ops : PriceOps P) (m m' : Market P)
    (fs : List (Fill P)) (he : m.execution ops = .ok (m', fs)) (hne : fs ≠ []) : m.running = true :=
  (Pams.C08.after_round ops m m' fs he hne).2.2.2.2.2.2

/-- … and while the market is not running a round never returns fills -/
theorem not_running_no_fills {P : Type} [LinearOrder P] (ops : PriceOps P) (m m' : Market P)
    (fs : List (Fill P)) (he : m.execution ops = .ok (m', fs)) (hnr : m.running = false) : fs = [] := by
  by_contra hne
  have := fills_only_running ops m m' fs he hne
  rw [hnr] at this
  exact absurd this (by simp)

variable {K : Type} [Field K] [LinearOrder K] [IsStrictOrderedRing K]

/-- the halt line moves with the number of halts so far:
`|p0 - p| ≥ |p0 · rate · (halts + 1)|` -/
theorem haltTest_spec (p0 rate p : K) (k : Nat) :
    haltTest p0 rate p k = true ↔ |p0 * rate * ((k + 1 : Nat) : K)| ≤ |p0 - p| := by
  unfold haltTest
  rw [Pams.C15.abs_eq, Pams.C15.abs_eq]
  simp only [decide_eq_true_eq]
  rfl

/-- When the line is reached by a fill on a running target market, the market (and the session's
execution flag) is switched off at once, the halt is recorded with the fill's time, and the halt
count grows by one. -/
theorem halt_immediate (targets : List Nat) (s : HaltState) (m t : Nat) (hm : m ∈ targets) :
    haltAfterFill targets s m true true t =
      ({ halted := some m, startedAt := t, activations := s.activations + 1 }, true) := by
  unfold haltAfterFill
  have : targets.contains m = true := by simpa using hm
  rw [this]; rfl

/-- otherwise (non-target market, market not running, or line not reached) nothing changes -/
theorem halt_otherwise (targets : List Nat) (s : HaltState) (m t : Nat) (running crossed : Bool)
    (h : m ∉ targets ∨ running = false ∨ crossed = false) :
    haltAfterFill targets s m running crossed t = (s, false) := by
  unfold haltAfterFill
  rcases h with h | h | h
  · have : targets.contains m = false := by simpa using h
    rw [this]; rfl
  · subst h; cases targets.contains m <;> rfl
  · subst h; cases targets.contains m <;> cases running <;> rfl

/-- Halt duration: with a halt in force on `m` since `t0`, the before-step handler of `m` resumes
exactly at the first step later than `t0 + length` — so the market stays stopped for `length`
further steps and resumes at the step after. -/
theorem halt_duration (length : Nat) (s : HaltState) (m t0 t : Nat)
    (hs : s.halted = some m) (h0 : s.startedAt = t0) :
    (haltBeforeStep length s m t).2 = decide (t0 + length < t) ∧
    (t ≤ t0 + length → haltBeforeStep length s m t = (s, false)) ∧
    (t0 + length < t → (haltBeforeStep length s m t).1.halted = none) := by
  unfold haltBeforeStep
  subst h0
  by_cases h : s.startedAt + length < t
  · simp [hs, h]
  · simp [hs, h]

/-- A rule with no halt in force changes nothing: it never "resumes", at any time, for any market;
nor does a halt on one market resume another. -/
theorem no_spurious_resume (length : Nat) (s : HaltState) (m t : Nat)
    (h : s.halted ≠ some m) : haltBeforeStep length s m t = (s, false) := by
  unfold haltBeforeStep
  simp [h]

/-- a session boundary ends the halt: afterwards no handler resumes anything -/
theorem session_boundary_ends_halt (length : Nat) (s : HaltState) (m t : Nat) :
    haltBeforeStep length (haltNewSession s) m t = (haltNewSession s, false) :=
  no_spurious_resume length _ m t (by simp [haltNewSession])

/-- While the halt is in force the scheduler requests no matching round at all (the rule switches
the *session's* execution flag; C09): orders and cancels are still accepted. -/
theorem no_round_during_halt (t : Nat) (r : Pams.Runner.Request) :
    ∀ e ∈ (Pams.Runner.processRequest t false r).tr, e.isExec = false :=
  (Pams.Runner.processRequest_flag_off t r).1

/-! Non-vacuity -/
theorem nonvacuous :
    (haltAfterFill [0, 2] HaltState.init 2 true true 7).2 = true ∧
    (haltBeforeStep 3 { halted := some 2, startedAt := 7, activations := 1 } 2 10).2 = false ∧
    (haltBeforeStep 3 { halted := some 2, startedAt := 7, activations := 1 } 2 11).2 = true ∧
    (haltBeforeStep 3 { halted := some 2, startedAt := 7, activations := 1 } 0 11).2 = false ∧
    (haltBeforeStep 3 HaltState.init 2 50).2 = false := by decide

/-- (T) the halt test `>=` and the resume test `>` of `TradingHaltRule` in the current sources -/
theorem source_halt_tests :
    Pams.Source.opsOf "TradingHaltRule.hooked_after_execution" = [">=", "==", "is"] ∧
    Pams.Source.opsOf "TradingHaltRule.hooked_before_step_for_market" = [">", "==", "is", "is not", "is not"] := by decide


/-! ### (T2) the current source text of `TradingHaltRule`, by symbolic execution -/
section SourceCode
open Pams.Py Pams.Src
variable {K : Type} [LinearOrder K] [NumOpsC K]

/-- **the source of `hooked_after_execution` is the model's `haltAfterFill` ∘ `haltTest`** -/
theorem code_halt_after_execution (r p0 p : K) (time acts started length : Nat) (running sesFlag : Bool) :
    resultG thrObs (rhoHalt r p0 p 5 time acts started length running sesFlag) evEnv FUEL
      "TradingHaltRule.hooked_after_execution" [.ref 3, .ref 7, .ref 9] (thrSt 0 0)
      = (let s : Events.HaltState := { halted := none, startedAt := started, activations := acts }
         let r' := Events.haltAfterFill [5] s 5 running (Events.haltTest p0 r p acts) time
         .tuple [.bool (if r'.2 then false else running), .int r'.1.startedAt, .int r'.1.activations,
                 .bool (if r'.2 then false else sesFlag),
                 (if r'.2 then .ref 5 else .none), (if r'.2 then .ref 8 else .none)]) :=
  thr_after_execution r p0 p time acts started length running sesFlag

/-- **the source of `hooked_before_step_for_market` is the model's `haltBeforeStep`** -/
theorem code_resume (r p0 p : K) (time acts started length : Nat) (running sesFlag : Bool) :
    resultG thrObs (rhoHalt r p0 p 5 time acts started length running sesFlag) evEnv FUEL
      "TradingHaltRule.hooked_before_step_for_market" [.ref 3, .ref 7, .ref 5] (thrSt 5 8)
      = (let s : Events.HaltState := { halted := some 5, startedAt := started, activations := acts }
         let r' := Events.haltBeforeStep length s 5 time
         .tuple [.bool (if r'.2 then true else running), .int r'.1.startedAt, .int r'.1.activations,
                 .bool (if r'.2 then true else sesFlag),
                 (if r'.2 then .none else .ref 5), (if r'.2 then .none else .ref 8)]) :=
  thr_before_step_in_force r p0 p time acts started length running sesFlag

/-- no halt of this rule in force ⇒ the before-step hook changes nothing (no spurious resume) -/
theorem code_no_spurious_resume (r p0 p : K) (time acts started length : Nat) (running sesFlag : Bool)
    (hm hs : Nat) (h : (hm = 0 ∧ hs = 0) ∨ (hm = 6 ∧ hs = 8) ∨ (hm = 5 ∧ hs = 9)) :
    resultG thrObs (rhoHalt r p0 p 5 time acts started length running sesFlag) evEnv FUEL
      "TradingHaltRule.hooked_before_step_for_market" [.ref 3, .ref 7, .ref 5] (thrSt hm hs)
      = .tuple [.bool running, .int started, .int acts, .bool sesFlag,
                (if hm = 0 then .none else .ref hm), (if hs = 0 then .none else .ref hs)] :=
  thr_before_step_no_halt r p0 p time acts started length running sesFlag hm hs h

end SourceCode

end Pams.C16
