/-
C06 (scheduler part) — one lock-step clock: every loop iteration advances every market exactly
once, index markets after their components; each session spans exactly its configured number of
steps starting where the previous one ended.
-/
import PamsLemmas.RunnerLemmas

namespace Pams.C06R
open Pams.Runner

/-- number of markets configured with id `m` (1 for every registered market: the simulator rejects
duplicate ids) -/
def mult (ms : Markets) (m : Nat) : Nat := (ms.filter (fun x => x.1 = m)).length

theorem count_ticks (ms : Markets) (m : Nat) : (ticks ms).count (Ev.tick m) = mult ms m := by
  unfold ticks mult
  rw [List.count_append]
  have h : ∀ l : Markets, (l.map (fun x => Ev.tick x.1)).count (Ev.tick m) = (l.filter (fun x => x.1 = m)).length := by
    intro l
    induction l with
    | nil => rfl
    | cons x xs ih =>
      simp only [List.map_cons, List.count_cons, ih, List.filter_cons]
      by_cases hx : x.1 = m
      · simp [hx]
      · have : ¬ (Ev.tick x.1 = Ev.tick m) := by intro e; injection e with e; exact hx e
        simp [hx, this]
  rw [h, h]
  induction ms with
  | nil => rfl
  | cons x xs ih =>
    by_cases hi : x.2 = true <;> by_cases hx : x.1 = m <;>
      simp [List.filter_cons, hi, hx] at ih ⊢ <;> omega

/-- index markets are advanced after all non-index markets (their components) -/
theorem ticks_components_first (ms : Markets) :
    ticks ms = ((ms.filter (fun m => !m.2)).map (fun m => Ev.tick m.1)) ++
               ((ms.filter (fun m => m.2)).map (fun m => Ev.tick m.1)) := rfl

theorem count_body_zero (l : List Ev) (h : ∀ e ∈ l, e.isBody = true) (x : Ev) (hx : x.isBody = false) :
    l.count x = 0 := by
  apply List.count_eq_zero.mpr
  intro hm
  have := h x hm
  rw [hx] at this
  exact absurd this (by simp)

theorem count_stepBefore (t : Nat) (resume : Nat → Bool) (ms : Markets) (flag : Bool) (m t' : Nat) :
    (stepBefore t resume ms flag).1.count (Ev.stepBegin m t') = (if t' = t then mult ms m else 0) ∧
    (stepBefore t resume ms flag).1.count (Ev.tick m) = 0 := by
  induction ms generalizing flag with
  | nil => simp [stepBefore, mult]
  | cons x xs ih =>
    have := ih (if resume x.1 then true else flag)
    simp only [stepBefore, List.count_cons, this.1, this.2, mult, List.filter_cons]
    refine ⟨?_, by simp⟩
    by_cases hx : x.1 = m <;> by_cases ht : t' = t
    · subst hx ht; simp [mult]
    · have : ¬ (Ev.stepBegin x.1 t = Ev.stepBegin m t') := by
        intro e; injection e with _ e2; exact ht e2.symm
      simp [ht, this]
    · have : ¬ (Ev.stepBegin x.1 t = Ev.stepBegin m t') := by
        intro e; injection e with e1 _; exact hx e1
      simp [hx, ht, this, mult]
    · have : ¬ (Ev.stepBegin x.1 t = Ev.stepBegin m t') := by
        intro e; injection e with e1 _; exact hx e1
      simp [hx, ht, this]

theorem count_stepAfter (t : Nat) (ms : Markets) (m t' : Nat) :
    (stepAfter t ms).count (Ev.stepBegin m t') = 0 ∧ (stepAfter t ms).count (Ev.tick m) = 0 := by
  induction ms with
  | nil => simp [stepAfter]
  | cons x xs ih => simp [stepAfter, List.count_cons, ih.1, ih.2]

theorem count_ticks_stepBegin (ms : Markets) (m t' : Nat) : (ticks ms).count (Ev.stepBegin m t') = 0 := by
  apply List.count_eq_zero.mpr
  intro hm
  simp only [ticks, List.mem_append, List.mem_map] at hm
  rcases hm with ⟨_, _, h⟩ | ⟨_, _, h⟩ <;> cases h

/-- One loop iteration that completes normally: every market's step-begin record is written once,
stamped with the iteration's time, and every market's clock is advanced exactly once. -/
theorem step_lockstep (ms : Markets) (cfg : SessionCfg) (t : Nat) (flag : Bool) (tape : StepTape)
    (hok : (runStep ms cfg t flag tape).ok = true) (m t' : Nat) :
    (runStep ms cfg t flag tape).tr.count (Ev.tick m) = mult ms m ∧
    (runStep ms cfg t flag tape).tr.count (Ev.stepBegin m t') = (if t' = t then mult ms m else 0) := by
  rw [runStep_eq] at hok ⊢
  simp only at hok ⊢
  have hb := stepBody_body cfg t (stepBefore t tape.resume ms flag).2 tape
  by_cases h : (stepBody cfg t (stepBefore t tape.resume ms flag).2 tape).ok = true
  · simp only [h, ↓reduceIte, List.count_append]
    rw [(count_stepBefore t tape.resume ms flag m t').1, (count_stepBefore t tape.resume ms flag m t').2,
      count_body_zero _ hb (Ev.tick m) rfl, count_body_zero _ hb (Ev.stepBegin m t') rfl,
      (count_stepAfter t ms m t').1, (count_stepAfter t ms m t').2, count_ticks, count_ticks_stepBegin]
    simp
  · simp [h] at hok

/-- A run of `n` loop iterations starting at time `t` that completes normally: every market is
advanced exactly `n` times and its step-begin records carry exactly the times `t, …, t+n-1`, once
each — the session spans exactly its configured number of steps. -/
theorem steps_span (ms : Markets) (cfg : SessionCfg) (t : Nat) (flag : Bool) (tapes : List StepTape)
    (n : Nat) (hok : (runSteps ms cfg t flag tapes n).ok = true) (m t' : Nat) :
    (runSteps ms cfg t flag tapes n).tr.count (Ev.tick m) = n * mult ms m ∧
    (runSteps ms cfg t flag tapes n).tr.count (Ev.stepBegin m t') =
      (if t ≤ t' ∧ t' < t + n then mult ms m else 0) := by
  induction n generalizing t flag tapes with
  | zero =>
    simp only [runSteps, List.count_nil, Nat.zero_mul, Nat.add_zero, true_and]
    have : ¬ (t ≤ t' ∧ t' < t) := by omega
    rw [if_neg this]
  | succ n ih =>
    unfold runSteps at hok ⊢
    simp only [Out.andThen] at hok ⊢
    generalize hst : runStep ms cfg t flag (tapes.headD
        { resume := fun _ => false, perm := [], answer := fun _ => [], shuffle := [], rounds := [] }) = st at hok ⊢
    by_cases h1 : st.ok = true
    · simp only [h1, ↓reduceIte] at hok ⊢
      have hs := step_lockstep ms cfg t flag _ (by rw [hst]; exact h1) m t'
      rw [hst] at hs
      have hr := ih (t + 1) st.flag tapes.tail hok
      rw [List.count_append, List.count_append, hs.1, hs.2, hr.1, hr.2]
      constructor
      · rw [Nat.succ_mul]; omega
      · by_cases e : t' = t
        · subst e
          have h4 : ¬ (t' + 1 ≤ t' ∧ t' < t' + 1 + n) := by omega
          have h5 : t' ≤ t' ∧ t' < t' + (n + 1) := by omega
          rw [if_neg h4, if_pos h5]; simp
        · have h2 : (t ≤ t' ∧ t' < t + (n + 1)) ↔ (t + 1 ≤ t' ∧ t' < t + 1 + n) := by omega
          simp only [e, ↓reduceIte, Nat.zero_add]
          by_cases h3 : t + 1 ≤ t' ∧ t' < t + 1 + n
          · rw [if_pos h3, if_pos (h2.mpr h3)]
          · rw [if_neg h3, if_neg (fun h => h3 (h2.mp h))]
    · simp [h1] at hok

/-- Sessions follow one another without gap or overlap: session `k` is run starting at the sum of
the lengths of the sessions before it. -/
theorem sessions_consecutive (ms : Markets) (k start : Nat) (cfg : SessionCfg) (cfgs : List SessionCfg)
    (tapes : List (List StepTape)) (hok : (runSession ms k cfg start (tapes.headD [])).ok = true) :
    runSessions ms k start (cfg :: cfgs) tapes =
      ((runSession ms k cfg start (tapes.headD [])).tr ++
         (runSessions ms (k + 1) (start + cfg.steps) cfgs tapes.tail).1,
       (runSessions ms (k + 1) (start + cfg.steps) cfgs tapes.tail).2) := by
  have hok' : (runSession ms k cfg start (tapes.headD [])).ok = true := hok
  simp only [runSessions, hok', ↓reduceIte]

/-- the run starts the clock of every market once (time −1 → 0) before the first session, which
therefore starts at time 0 -/
theorem run_starts_at_zero (ms : Markets) (cfgs : List SessionCfg) (tapes : List (List StepTape)) :
    ∃ rest, run ms cfgs tapes = [Ev.simBegin, Ev.flush] ++ ticks ms ++ (runSessions ms 0 0 cfgs tapes).1 ++ rest := by
  exact ⟨_, rfl⟩

/-! Non-vacuity -/
theorem nonvacuous :
    (runSteps [(0, false), (5, true), (1, false)] { steps := 2, placement := false, execution := true, maxNormal := 1, maxHft := 1 }
      7 true [] 2).tr.filter Ev.isTick = [.tick 0, .tick 1, .tick 5, .tick 0, .tick 1, .tick 5] := by decide +kernel

end Pams.C06R
