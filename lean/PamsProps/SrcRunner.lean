/-
The scheduler properties on the *current source text* of `pams/runners/sequential.py` (translated on
every run into `PamsGen.Code`): `_run`, `_iterate_market_updates`, `_update_markets`,
`_collect_orders_from_normal_agents` and `_handle_orders` do to their world — markets, agents, hook
dispatch, ledger, logs, clocks, all extern — exactly what the scheduler model `Pams.Runner` says, for
every value of the sessions' switches, rates, caps and of every random draw, on the shapes of
PamsLemmas/SrcRunner*.lean.  The theorems of C05 / C06 / C09 / C10 / C11 / C13 / C16 about the model
(every tape, every length) thereby speak about this code on these shapes; beyond the shapes the tie is
the correspondence check (Driver/Runner.lean against recorded runs).

Besides the general statements, a few consequences are spelled out call by call.
-/
import PamsLemmas.SrcRunnerRun

open Pams Pams.Py Pams.Runner Pams.Src

namespace Pams.C09
variable {K : Type} [LinearOrder K] [NumOpsC K]

/-- **`_handle_orders` is the model's `handle`** (placement on): order and cancel requests, rounds gated
by the execution switch as it stands *then* (a hook may have switched it off after an earlier fill),
one high-frequency round after each normal batch unless `rate < random()`, high-frequency agents
consulted in the sampled order until the cap is reached, owner check, each non-empty answer handled at
once. -/
theorem source_handle_orders_is_model :
    HandleSpec K shA ∧ HandleSpec K shB ∧ HandleSpec K shC ∧ HandleSpec K shD ∧ HandleSpec K shE ∧
    HandleSpec K shF ∧ HandleSpec K shG :=
  ⟨handle_src_A, handle_src_B, handle_src_C, handle_src_D, handle_src_E, handle_src_F, handle_src_G⟩

/-- **`_collect_orders_from_normal_agents` is the model's `collect`**: agents consulted in the sampled
order while fewer than `max_normal_orders` non-empty answers were collected; an answer counts once however
many requests it holds; an answer in another agent's name ends the run -/
theorem source_collect_is_model : CollectSpec K cA ∧ CollectSpec K cB ∧ CollectSpec K cC :=
  ⟨collect_src_A, collect_src_B, collect_src_C⟩

/-- with `with_order_placement` off nothing is accepted: a request handed to `_handle_orders`, or a
non-empty answer to `_collect_orders_from_normal_agents`, raises before any market is touched -/
theorem source_placement_gate (flag : Bool) (rate : K) (draw : Nat → K) (capH capN : Int) (hc : 0 < capN) :
    resultG runnerObs (rhoRun false flag rate draw capH capN) (rEnv shA) FUEL "SequentialRunner._handle_orders"
        [.ref 1, .ref 4, .list (shA.batches.map refs)] (rSt shA) = .err (.raise "AssertionError") ∧
    resultG collectObs (rhoRun false flag rate draw capH capN) (rEnv cA) FUEL
        "SequentialRunner._collect_orders_from_normal_agents" [.ref 1, .ref 4] (rSt cA)
      = .err (.raise "AssertionError") :=
  ⟨handle_src_placement_off flag rate draw capH capN, collect_src_placement_off flag rate draw capH capN hc⟩

/-- spelled out (shape F, execution off, both rounds go ahead, cap 1): the sampled order of the batches
(the cancel first), after each batch exactly one high-frequency agent — the first of the sampled order —
is consulted and its order placed; no round runs -/
theorem source_hft_interleaving (rate : K) (draw : Nat → K) (capN : Int)
    (h0 : ¬ rate < draw 0) (h1 : ¬ rate < draw 1) :
    resultG runnerObs (rhoRun true false rate draw 1 capN) (rEnv shF) FUEL "SequentialRunner._handle_orders"
        [.ref 1, .ref 4, .list (shF.batches.map refs)] (rSt shF)
      = .tuple [.tuple [
          cCall "_trigger_event_before_cancel" (.ref 3) [.ref 11], cCall "_cancel_order" (.ref 6) [.ref 11],
          cCall "canceled_order" (.ref 22) [.ref 111], cCall "_trigger_event_after_cancel" (.ref 3) [.ref 111],
          cCall "submit_orders" (.ref 24) [mkts],
          cCall "_trigger_event_before_order" (.ref 3) [.ref 13], cCall "_add_order" (.ref 6) [.ref 13],
          cCall "submitted_order" (.ref 24) [.ref 113], cCall "_trigger_event_after_order" (.ref 3) [.ref 113],
          cCall "_trigger_event_before_order" (.ref 3) [.ref 10], cCall "_add_order" (.ref 5) [.ref 10],
          cCall "submitted_order" (.ref 21) [.ref 110], cCall "_trigger_event_after_order" (.ref 3) [.ref 110],
          cCall "submit_orders" (.ref 24) [mkts],
          cCall "_trigger_event_before_order" (.ref 3) [.ref 13], cCall "_add_order" (.ref 6) [.ref 13],
          cCall "submitted_order" (.ref 24) [.ref 113], cCall "_trigger_event_after_order" (.ref 3) [.ref 113]],
        .bool false] := by
  rw [handle_src_F]
  simp [outObs, RShape.model, RShape.rounds, RShape.requests, RShape.request, shF, handle, processBatch,
    processRequest, Out.andThen, hftRound, fillEvents, flagAfterFills, evCalls, traceCalls, cCall, mkts, mktAddr,
    agentAddr, logAddr, h0, h1]

end Pams.C09

namespace Pams.C16
variable {K : Type} [LinearOrder K] [NumOpsC K]

/-- spelled out (shape C, execution on, the round goes ahead, cap 1): the fill of the first order makes
a hook halt trading; the high-frequency order placed afterwards is accepted and its owner told, but
**no matching round runs** for it, although it would have been filled — and the switch stays off -/
theorem source_no_round_after_halt (rate : K) (draw : Nat → K) (capN : Int) (h0 : ¬ rate < draw 0) :
    resultG runnerObs (rhoRun true true rate draw 1 capN) (rEnv shC) FUEL "SequentialRunner._handle_orders"
        [.ref 1, .ref 4, .list (shC.batches.map refs)] (rSt shC)
      = .tuple [.tuple [
          cCall "_trigger_event_before_order" (.ref 3) [.ref 10], cCall "_add_order" (.ref 5) [.ref 10],
          cCall "submitted_order" (.ref 21) [.ref 110], cCall "_trigger_event_after_order" (.ref 3) [.ref 110],
          cCall "_execution" (.ref 5) [], cCall "_update_agents_for_execution" (.ref 3) [.tuple [.ref 30]],
          cCall "executed_order" (.ref 21) [.ref 30], cCall "executed_order" (.ref 22) [.ref 30],
          cCall "_trigger_event_after_execution" (.ref 3) [.ref 30],
          cCall "submit_orders" (.ref 23) [mkts],
          cCall "_trigger_event_before_order" (.ref 3) [.ref 12], cCall "_add_order" (.ref 5) [.ref 12],
          cCall "submitted_order" (.ref 23) [.ref 112], cCall "_trigger_event_after_order" (.ref 3) [.ref 112]],
        .bool false] := by
  rw [handle_src_C]
  simp [outObs, RShape.model, RShape.rounds, RShape.requests, RShape.request, shC, handle, processBatch,
    processRequest, Out.andThen, hftRound, fillEvents, flagAfterFills, evCalls, traceCalls, cCall, mkts, mktAddr,
    agentAddr, logAddr, h0]

end Pams.C16

namespace Pams.C05
variable {K : Type} [LinearOrder K] [NumOpsC K]

/-- spelled out (shape D, execution on): a round with two fills — **the ledger is updated once, with
both fills, before any party is told**; then buyer, seller, hook for the first fill, buyer, seller, hook
for the second (the halt the first one triggers does not cut the notifications short) -/
theorem source_ledger_once_before_notifications (rate : K) (draw : Nat → K) (capH capN : Int) :
    resultG runnerObs (rhoRun true true rate draw capH capN) (rEnv shD) FUEL "SequentialRunner._handle_orders"
        [.ref 1, .ref 4, .list (shD.batches.map refs)] (rSt shD)
      = .tuple [.tuple [
          cCall "_trigger_event_before_order" (.ref 3) [.ref 10], cCall "_add_order" (.ref 6) [.ref 10],
          cCall "submitted_order" (.ref 21) [.ref 110], cCall "_trigger_event_after_order" (.ref 3) [.ref 110],
          cCall "_execution" (.ref 6) [], cCall "_update_agents_for_execution" (.ref 3) [.tuple [.ref 30, .ref 31]],
          cCall "executed_order" (.ref 21) [.ref 30], cCall "executed_order" (.ref 22) [.ref 30],
          cCall "_trigger_event_after_execution" (.ref 3) [.ref 30],
          cCall "executed_order" (.ref 22) [.ref 31], cCall "executed_order" (.ref 21) [.ref 31],
          cCall "_trigger_event_after_execution" (.ref 3) [.ref 31]],
        .bool false] := by
  rw [handle_src_D]
  by_cases h0 : rate < draw 0 <;>
  simp [outObs, RShape.model, RShape.rounds, RShape.requests, RShape.request, shD, handle, processBatch,
    processRequest, Out.andThen, hftRound, fillEvents, flagAfterFills, evCalls, traceCalls, cCall, mkts, mktAddr,
    agentAddr, logAddr, h0]

end Pams.C05

namespace Pams.C11
variable {K : Type} [LinearOrder K] [NumOpsC K]

/-- the notifications of `_handle_orders` are the model's (`C11.callbacks_exact` then says which they
are): the owner of an order / of the cancelled order once after acceptance, buyer then seller once per
fill — on every shape, for every value of the switches -/
theorem source_notifications_are_model :
    HandleSpec K shA ∧ HandleSpec K shB ∧ HandleSpec K shD ∧ HandleSpec K shF ∧ HandleSpec K shG :=
  ⟨handle_src_A, handle_src_B, handle_src_D, handle_src_F, handle_src_G⟩

end Pams.C11

namespace Pams.C13
variable {K : Type} [LinearOrder K] [NumOpsC K]

/-- **`_run` is the model's `run`**: begin-of-simulation record, clocks to 0, then per session
before-session dispatch, session record, the markets' running flags, per step the before-step dispatch
and step record of every market, the update of the markets (if placement is on), the end-of-step record
and after-step dispatch of every market, the clocks; after-session dispatch, record; end-of-simulation
record — with the order / cancel / fill dispatches inside `_handle_orders` (shape B) -/
theorem source_run_is_model :
    RunSpec K rA (fun _ s1 => s1.flag) ∧ RunSpec K rB (fun s0 _ => s0.flag) ∧ RunSpec K rC (fun _ s1 => s1.flag) ∧
    RunSpec K rD (fun s0 _ => s0.flag) ∧ RunSpec K rE (fun s0 _ => s0.flag) :=
  ⟨run_src_A, run_src_B, run_src_C, run_src_D, run_src_E⟩

end Pams.C13

namespace Pams.C06
variable {K : Type} [LinearOrder K] [NumOpsC K]

/-- spelled out (shape C: a session of no steps, then one of one step; placement off): **the clocks are
advanced once before the first session and once at the end of every step, after the after-step
dispatches of all markets** — a session of no steps advances nothing -/
theorem source_clock_advances (s0 s1 : SessP K) (draw : Nat → K) (hp : s1.placement = false) :
    resultG runObs (rhoRun2 s0 s1 draw) (rEnv rC) 200 "SequentialRunner._run" [.ref 1] (rSt rC)
      = .tuple [.tuple [
          cCall "SimulationBeginLog" .none [.ref 3], cCall "read_and_write" (.ref 800) [.ref 8],
          cCall "_process" (.ref 8) [],
          cCall "_update_times_on_markets" (.ref 3) [mkts],
          cCall "_trigger_event_before_session" (.ref 3) [.ref 4],
          cCall "SessionBeginLog" .none [.ref 4, .ref 3], cCall "read_and_write" (.ref 604) [.ref 8],
          cCall "_process" (.ref 8) [],
          cCall "_trigger_event_after_session" (.ref 3) [.ref 4],
          cCall "SessionEndLog" .none [.ref 4, .ref 3], cCall "read_and_write" (.ref 704) [.ref 8],
          cCall "_process" (.ref 8) [],
          cCall "_trigger_event_before_session" (.ref 3) [.ref 9],
          cCall "SessionBeginLog" .none [.ref 9, .ref 3], cCall "read_and_write" (.ref 609) [.ref 8],
          cCall "_process" (.ref 8) [],
          cCall "_trigger_event_before_step_for_market" (.ref 3) [.ref 5],
          cCall "MarketStepBeginLog" .none [.ref 9, .ref 5, .ref 3],
          cCall "read_and_write_with_direct_process" (.ref 405) [.ref 8],
          cCall "_trigger_event_before_step_for_market" (.ref 3) [.ref 6],
          cCall "MarketStepBeginLog" .none [.ref 9, .ref 6, .ref 3],
          cCall "read_and_write_with_direct_process" (.ref 406) [.ref 8],
          cCall "MarketStepEndLog" .none [.ref 9, .ref 5, .ref 3],
          cCall "read_and_write_with_direct_process" (.ref 505) [.ref 8],
          cCall "_trigger_event_after_step_for_market" (.ref 3) [.ref 5],
          cCall "MarketStepEndLog" .none [.ref 9, .ref 6, .ref 3],
          cCall "read_and_write_with_direct_process" (.ref 506) [.ref 8],
          cCall "_trigger_event_after_step_for_market" (.ref 3) [.ref 6],
          cCall "_update_times_on_markets" (.ref 3) [mkts],
          cCall "_trigger_event_after_session" (.ref 3) [.ref 9],
          cCall "SessionEndLog" .none [.ref 9, .ref 3], cCall "read_and_write" (.ref 709) [.ref 8],
          cCall "_process" (.ref 8) [],
          cCall "SimulationEndLog" .none [.ref 3], cCall "read_and_write" (.ref 801) [.ref 8],
          cCall "_process" (.ref 8) []],
        .bool s1.flag, .bool s1.flag] := by
  rw [run_src_C]
  rcases s0 with ⟨p0, f0, r0, h0, n0⟩
  rcases s1 with ⟨p1, f1, r1, h1, n1⟩
  simp only at hp
  subst hp
  simp [runOut, RShape.runModel, RShape.stepTapes, RShape.rounds, RShape.requests, RShape.request, SessP.cfg, rC,
    twoMarkets, runSessions, runSession, runSteps, runStep, stepBefore, stepAfter, ticks, applyShuffle, collect, handle,
    Out.andThen, evCalls, traceCalls, cCall, mkts, mktAddr, agentAddr, logAddr, sessAddr]

end Pams.C06

namespace Pams.C10
variable {K : Type} [LinearOrder K] [NumOpsC K]

/-- the records the runner itself writes — simulation, session and step records — are written where
the model says, and the blocking ones are followed by `logger._process()` (the model's `flush`): on
every run shape, for every value of the switches -/
theorem source_runner_records_are_model :
    RunSpec K rA (fun _ s1 => s1.flag) ∧ RunSpec K rB (fun s0 _ => s0.flag) ∧ RunSpec K rD (fun s0 _ => s0.flag) :=
  ⟨run_src_A, run_src_B, run_src_D⟩

end Pams.C10
