/-
C12 — Fundamentals: positive geometric walk with configured drift, volatility, correlation.

Partial in one respect (DESIGN section 7): that the draws are independent standard normals is a
property of NumPy's generator, and `L Lᵀ = Σ` of SciPy's Cholesky; what is proved is the algebra
that turns those into the configured drift, volatility and correlation, and all path facts.
-/
import PamsModel.Fundamentals
import PamsProps.C20
import Mathlib.Data.Matrix.Basic
import Mathlib.Data.Matrix.Mul

set_option linter.unusedSectionVars false

namespace Pams.C12
open Pams Pams.Fund Pams.C20

/-- every generated price is the level it continues from times a positive factor -/
theorem genPath_pos (p0 : ℝ) (rs : List ℝ) (h : 0 < p0) : ∀ p ∈ genPath p0 rs, 0 < p := by
  intro p hp
  unfold genPath at hp
  obtain ⟨c, _, rfl⟩ := List.mem_map.mp hp
  exact mul_pos h (Real.exp_pos c)

/-- Fundamental prices stay strictly positive: generation keeps positivity of a whole path. -/
theorem prices_pos (path : List ℝ) (g : Nat) (rs : List ℝ) (h : ∀ p ∈ path, 0 < p) :
    ∀ p ∈ generateNext path g rs, 0 < p := by
  unfold generateNext
  rcases hg : path[g]? with _ | pg
  · exact h
  · intro p hp
    rcases List.mem_append.mp hp with hp | hp
    · exact h p (List.mem_of_mem_take hp)
    · exact genPath_pos pg rs (h pg (List.mem_of_getElem? hg)) p hp

/-- Generation never alters values at times ≤ `generated_until`: the prefix is kept. -/
theorem prefix_kept (path : List ℝ) (g : Nat) (rs : List ℝ) (i : Nat) (hi : i ≤ g) (hg : g < path.length) :
    (generateNext path g rs)[i]? = path[i]? := by
  unfold generateNext
  rw [List.getElem?_eq_getElem hg]
  simp only
  rw [List.getElem?_append_left (by simp; omega), List.getElem?_take]
  simp [Nat.lt_succ_of_le hi]

theorem cumsum_length (acc : ℝ) (rs : List ℝ) : (cumsum acc rs).length = rs.length := by
  induction rs generalizing acc with
  | nil => rfl
  | cons r rs ih => simp [cumsum, ih]

theorem cumsum_get (acc : ℝ) (rs : List ℝ) (j : Nat) (hj : j < rs.length) :
    (cumsum acc rs)[j]? = some (acc + ((rs.take (j + 1)).sum)) := by
  induction rs generalizing acc j with
  | nil => simp at hj
  | cons r rs ih =>
    cases j with
    | zero => simp [cumsum]
    | succ j =>
      simp only [cumsum, List.getElem?_cons_succ]
      rw [ih (acc + r) j (by simpa using hj)]
      simp [List.take_succ_cons, add_assoc]

/-- the `j`-th price of a chunk is the level it continues from times `exp` of the summed returns -/
theorem genPath_get (p0 : ℝ) (rs : List ℝ) (j : Nat) (hj : j < rs.length) :
    (genPath p0 rs)[j]? = some (p0 * Real.exp ((rs.take (j + 1)).sum)) := by
  unfold genPath
  rw [List.getElem?_map, cumsum_get _ rs j hj]
  simp

/-- Per-step log-returns: each generated price is the previous one times `exp` of that step's
return — later values continue from the level they start at, across the chunk. -/
theorem step_return (p0 : ℝ) (rs : List ℝ) (j : Nat) (hj : j + 1 < rs.length) :
    ∃ a b r, (genPath p0 rs)[j]? = some a ∧ (genPath p0 rs)[j + 1]? = some b ∧ rs[j + 1]? = some r ∧
      b = a * Real.exp r := by
  refine ⟨_, _, rs[j + 1], genPath_get p0 rs j (by omega), genPath_get p0 rs (j + 1) hj,
    List.getElem?_eq_getElem hj, ?_⟩
  rw [List.take_add_one (i := j + 1), List.getElem?_eq_getElem hj]
  simp only [Option.toList_some, List.sum_append, List.sum_cons, List.sum_nil, add_zero]
  rw [Real.exp_add]; ring

/-- the first price of a chunk continues from the last kept price: `p[g+1] = p[g]·exp(r₀)` -/
theorem chunk_continues (path : List ℝ) (g : Nat) (r : ℝ) (rs : List ℝ) (pg : ℝ) (hg : g < path.length)
    (hpg : path[g]? = some pg) :
    (generateNext path g (r :: rs))[g + 1]? = some (pg * Real.exp r) := by
  unfold generateNext
  rw [hpg]
  simp only
  rw [List.getElem?_append_right (by rw [List.length_take]; omega)]
  have : g + 1 - (List.take (g + 1) path).length = 0 := by
    rw [List.length_take]; omega
  rw [this, genPath_get pg (r :: rs) 0 (by simp)]
  simp

/-- With zero volatility the returns are the drift: the path is exactly `p0 · exp(drift · t)`. -/
theorem zero_vol_closed_form (p0 drift : ℝ) (n j : Nat) (hj : j < n) :
    (genPath p0 (List.replicate n drift))[j]? = some (p0 * Real.exp (drift * ((j + 1 : Nat) : ℝ))) := by
  rw [genPath_get p0 _ j (by simpa using hj)]
  congr 2
  rw [List.take_replicate, Nat.min_eq_left (by omega), List.sum_replicate]
  simp [mul_comm]

/-- … and the closed form chains across chunks: continuing from `p0·exp(drift·g)` for `j+1` more
steps gives `p0·exp(drift·(g+j+1))` -/
theorem zero_vol_chains (p0 drift : ℝ) (g n j : Nat) (hj : j < n) :
    (genPath (p0 * Real.exp (drift * (g : ℝ))) (List.replicate n drift))[j]? =
      some (p0 * Real.exp (drift * ((g + j + 1 : Nat) : ℝ))) := by
  rw [zero_vol_closed_form _ drift n j hj]
  congr 1
  rw [mul_assoc, ← Real.exp_add]
  congr 2
  push_cast; ring

/-- Changing a parameter at time `t` restarts generation from `t` (`generated_until := t`):
values at times ≤ t are kept whatever the new returns are (this is `prefix_kept`).  A shock at
time `t` keeps every value before `t`, sets the value at `t` to the scaled level, and restarts
generation there, so later values continue from the changed level. -/
theorem shock_spec (path : List ℝ) (t : Nat) (scale : ℝ) (pt : ℝ) (ht : t < path.length)
    (hpt : path[t]? = some pt) :
    (shock path t scale).2 = t ∧
    (∀ i, i < t → (shock path t scale).1[i]? = path[i]?) ∧
    (shock path t scale).1[t]? = some (pt * scale) ∧
    (∀ r rs, (generateNext (shock path t scale).1 t (r :: rs))[t + 1]? = some (pt * scale * Real.exp r)) := by
  unfold shock
  rw [hpt]
  refine ⟨rfl, ?_, ?_, ?_⟩
  · intro i hi
    simp only
    rw [List.getElem?_set_ne (by omega)]
  · simp only
    rw [List.getElem?_set_self ht]
  · intro r rs
    simp only
    apply chunk_continues
    · simpa using ht
    · rw [List.getElem?_set_self ht]

/-- a shock touches one market's path only: other markets' paths are other lists (the model keeps
one path per market; `Market.change_fundamental_price` writes `prices[self.market_id]`) -/
theorem shock_only_target (paths : Nat → List ℝ) (target t : Nat) (scale : ℝ) (m : Nat) (hm : m ≠ target) :
    (fun k => if k = target then (shock (paths k) t scale).1 else paths k) m = paths m := by
  simp [hm]

/-! ### the generation loop: any horizon, any chunking -/

/-- the generation loop of `get_fundamental_price`: chunk after chunk, each continuing from the
last generated time; returns the path and the new `generated_until` -/
noncomputable def genAll (path : List ℝ) (g : Nat) : List (List ℝ) → List ℝ × Nat
  | [] => (path, g)
  | rs :: rest => genAll (generateNext path g rs) (g + rs.length) rest

theorem generateNext_length (path : List ℝ) (g : Nat) (rs : List ℝ) (hg : path.length = g + 1) :
    (generateNext path g rs).length = g + rs.length + 1 := by
  unfold generateNext
  rw [List.getElem?_eq_getElem (by omega)]
  simp [genPath, cumsum_length, hg]; omega

/-- whatever the chunking, all prices stay strictly positive -/
theorem genAll_pos (path : List ℝ) (g : Nat) (chunks : List (List ℝ)) (h : ∀ p ∈ path, 0 < p) :
    ∀ p ∈ (genAll path g chunks).1, 0 < p := by
  induction chunks generalizing path g with
  | nil => exact h
  | cons rs rest ih => exact ih _ _ (prices_pos path g rs h)

/-- whatever is generated later, values at times ≤ `generated_until` never change -/
theorem genAll_prefix (path : List ℝ) (g : Nat) (chunks : List (List ℝ)) (hg : path.length = g + 1)
    (i : Nat) (hi : i ≤ g) : (genAll path g chunks).1[i]? = path[i]? := by
  induction chunks generalizing path g with
  | nil => rfl
  | cons rs rest ih =>
    unfold genAll
    rw [ih _ _ (generateNext_length path g rs hg) (by omega)]
    exact prefix_kept path g rs i hi (by omega)

/-- **zero volatility, any horizon, any chunking**: the path is exactly `p0 · exp(drift · t)` at
every generated time `t` -/
theorem zero_vol_any_chunking (p0 drift : ℝ) (ns : List Nat) (j : Nat) (hj : j ≤ ns.sum) :
    (genAll [p0] 0 (ns.map (fun n => List.replicate n drift))).1[j]? =
      some (p0 * Real.exp (drift * (j : ℝ))) := by
  -- invariant: the path has g+1 entries, all on the closed form
  have key : ∀ (ns : List Nat) (path : List ℝ) (g : Nat), path.length = g + 1 →
      (∀ i, i ≤ g → path[i]? = some (p0 * Real.exp (drift * (i : ℝ)))) →
      ∀ j, j ≤ g + ns.sum →
        (genAll path g (ns.map (fun n => List.replicate n drift))).1[j]? =
          some (p0 * Real.exp (drift * (j : ℝ))) := by
    intro ns
    induction ns with
    | nil => intro path g _ hp j hj; exact hp j (by simpa using hj)
    | cons n ns ih =>
      intro path g hlen hp j hj
      simp only [List.map_cons, genAll, List.length_replicate]
      apply ih _ _ (by simpa using generateNext_length path g (List.replicate n drift) hlen)
      · intro i hi
        by_cases hig : i ≤ g
        · rw [prefix_kept path g _ i hig (by omega)]; exact hp i hig
        · -- a time generated by this chunk: continues the closed form from time g
          have hpg := hp g (Nat.le_refl g)
          unfold generateNext
          rw [hpg]
          simp only
          have hlt : (List.take (g + 1) path).length = g + 1 := by
            rw [List.length_take]; omega
          rw [List.getElem?_append_right (by rw [hlt]; omega), hlt]
          have hidx : i - (g + 1) = i - g - 1 := by omega
          have hlt2 : i - g - 1 < n := by omega
          rw [hidx, zero_vol_chains p0 drift g n (i - g - 1) hlt2]
          have hgi : g + (i - g - 1) + 1 = i := by omega
          rw [hgi]
      · simp only [List.sum_cons] at hj; omega
  exact key ns [p0] 0 rfl (by intro i hi; have : i = 0 := by omega
                              subst this; simp) j (by simpa using hj)


/-! ### the return transform: mean, variance, correlation -/
open Matrix

variable {m n : Type} [Fintype m] [Fintype n] [DecidableEq m]

/-- If the standardised sample `Z` has sample second moment `Z Zᵀ = N·I`, the transformed sample
`L Z` has second moment `N · L Lᵀ`; with `L Lᵀ = D ρ D` (Cholesky of the configured covariance)
this is `N · D ρ D`: per-market variance `volᵢ²` and cross moments `volᵢ ρᵢⱼ volⱼ`. -/
theorem return_transform_cov (L : Matrix m m ℝ) (Z : Matrix m n ℝ) (N : ℝ)
    (hZ : Z * Zᵀ = N • (1 : Matrix m m ℝ)) :
    (L * Z) * (L * Z)ᵀ = N • (L * Lᵀ) := by
  rw [Matrix.transpose_mul, ← Matrix.mul_assoc, Matrix.mul_assoc L Z, hZ]
  simp [Matrix.mul_smul, Matrix.smul_mul]

/-- adding the drift shifts every sample by the drift and nothing else: centred returns are `L Z` -/
theorem return_transform_mean (L : Matrix m m ℝ) (Z : Matrix m n ℝ) (drift : m → ℝ) :
    (Matrix.of (fun i j => (L * Z) i j + drift i) - Matrix.of (fun i (_ : n) => drift i)) = L * Z := by
  ext i j; simp

/-- the covariance built from volatilities and correlations has `volᵢ²` on the diagonal and
`volᵢ·ρᵢⱼ·volⱼ` off it: standard deviation `volᵢ`, correlation `ρᵢⱼ` -/
theorem cov_entries (vol : m → ℝ) (rho : Matrix m m ℝ) (hdiag : ∀ i, rho i i = 1) (i j : m) :
    (Matrix.diagonal vol * rho * Matrix.diagonal vol) i j = vol i * rho i j * vol j ∧
    (Matrix.diagonal vol * rho * Matrix.diagonal vol) i i = vol i ^ 2 := by
  constructor
  · simp [Matrix.mul_apply, Matrix.diagonal_apply, Finset.sum_ite_eq', Finset.sum_ite_eq]
  · simp [Matrix.mul_apply, Matrix.diagonal_apply, Finset.sum_ite_eq', Finset.sum_ite_eq, hdiag]
    ring

/-! Non-vacuity -/
theorem nonvacuous : ∀ p ∈ generateNext [(300 : ℝ), 301] 1 [0.01, -0.02], 0 < p :=
  prices_pos _ _ _ (by intro p hp; simp at hp; rcases hp with rfl | rfl <;> norm_num)

end Pams.C12
