/-
C14 / C15 / C16 / C13 on the *current source text* of the built-in events' `hook_registration` and of
`EventHook.__init__` (translated on every run into `PamsGen.Code`): which occasions each event asks to be
called on.  Together with `C13.source_add_event_is_model` and `C13.source_dispatchers_are_model` this closes
the chain "event → hooks → buckets → dispatch" on the source.
-/
import PamsLemmas.SrcHookReg
import Batteries.Tactic.Alias

open Pams Pams.Py Pams.Src

namespace Pams.C14
/-- the fundamental price shock registers exactly `Events.fshockHook`: a before-step hook on its target market
instance for the times `trigger … trigger + length − 1`; the order mistake shock one before-order hook for its
trigger time -/
alias source_shock_hooks := hookreg_src_fshock
alias source_mistake_and_rule_hooks := hookreg_src_others
end Pams.C14

namespace Pams.C15
/-- the price limit rule registers one before-order hook for every time -/
alias source_rule_hooks := hookreg_src_others
end Pams.C15

namespace Pams.C16
/-- the trading halt rule registers one after-execution hook for every time and one before-step hook per
target market instance -/
alias source_rule_hooks := hookreg_src_others
end Pams.C16
