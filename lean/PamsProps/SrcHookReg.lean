/-
C14 / C15 / C16 / C13 on the *current source text* of the built-in events' `hook_registration` and of
`EventHook.__init__` (translated on every run into `PamsGen.Code`): which occasions each event asks to be
called on.  Together with `C13.source_add_event_is_model` and `C13.source_dispatchers_are_model` this closes
the chain "event → hooks → buckets → dispatch" on the source.
-/
import PamsLemmas.SrcHookReg
import PamsLemmas.SrcEventSetup
import Batteries.Tactic.Alias

open Pams Pams.Py Pams.Src

namespace Pams.C14
/-- the fundamental price shock registers exactly `Events.fshockHook`: a before-step hook on its target market
instance for the times `trigger … trigger + length − 1`; the order mistake shock one before-order hook for its
trigger time -/
alias source_shock_hooks := hookreg_src_fshock
alias source_mistake_and_rule_hooks := hookreg_src_others
/-- `setup` of the two shocks: the trigger time is the session's start plus the configured `triggerTime`, the
target the market of the configured name, length / switch as configured or the defaults -/
alias source_shock_setup := setup_src_shocks
alias source_setup_refusals := setup_src_refusals
end Pams.C14

namespace Pams.C15
/-- the price limit rule registers one before-order hook for every time -/
alias source_rule_hooks := hookreg_src_others
/-- `setup` of the rules: the target table holds exactly the named markets, the rate as configured -/
alias source_rule_setup := setup_src_rules
alias source_setup_refusals := setup_src_refusals
end Pams.C15

namespace Pams.C16
/-- the trading halt rule registers one after-execution hook for every time and one before-step hook per
target market instance -/
alias source_rule_hooks := hookreg_src_others
alias source_rule_setup := setup_src_rules
alias source_setup_refusals := setup_src_refusals
end Pams.C16
