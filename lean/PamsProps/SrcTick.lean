/-
Property statements about the **translated source** of the clock step (`Market._update_time` with
`OrderBook._set_time` / `_check_expired_orders`, as it stands in /repo; meaning given by
PamsModel/Py.lean), from `Src.tick_src` (source = model, by symbolic execution).
-/
import PamsLemmas.SrcTick
import PamsProps.SrcAccept

set_option linter.unusedSectionVars false
set_option linter.unusedVariables false
set_option linter.unusedSimpArgs false

/-! ### C04 -/
namespace Pams.C04
open Pams Pams.Py Pams.Src Pams.SrcAccept
variable {K : Type} [LinearOrder K] [NumOpsC K]

/-- **an order leaves the book exactly when the clock passes `acceptance time + time-to-live`** (current
source, one clock step 0 → 1 over the buy queue `[a, c]`): the queue afterwards holds exactly the
orders that are not expired at the new time (`Order.expired`: `placedAt + ttl < time`), in their order;
an order without time-to-live always stays; the expiry index keeps exactly the buckets of the orders
that stay. -/
theorem source_expiry_exact (m : Market K) (a c : Order K) (fund dflt pa pc mp fp : K)
    (hb : m.buys = [a, c]) (hs : m.sells = []) (ha : a.isBuy = true) (hpa : a.price = some pa)
    (hc : c.isBuy = true) (hpc : c.price = some pc) (ht : m.time = 0)
    (hmk : m.cur.market = some mp) (hf : m.cur.fund = some fp) (hac : a.id ≠ c.id)
    (hkeys : a.placedAt + a.ttl.getD 0 ≠ c.placedAt + c.ttl.getD 0) :
    let res := resultG tickObs (rhoTick m a c fund dflt) tickEnv XFUEL "Market._update_time" [.ref 5, .num (.atom 56)]
        (stTick a.ttl.isSome c.ttl.isSome m.cur.last.isSome m.cur.mid.isSome)
    cnth res 3 = .tuple ((if a.expired 1 then [] else [.ref 1]) ++ (if c.expired 1 then [] else [.ref 3])) := by
  intro res
  have hres : res = modelTickObs a c (m.tick (srcOps K) (some fund)) :=
    tick_src m a c fund dflt pa pc mp fp hb hs ha hpa hc hpc ht hmk hf hac hkeys
  rw [hres]
  simp only [cnth, modelTickObs, Market.tick, hb, ht, Book.keepAt, List.getD_cons_succ, List.getD_cons_zero]
  cases hea : a.expired 1 <;> cases hec : c.expired 1 <;> simp [List.filter, hea, hec, hac, Ne.symm hac]

end Pams.C04

/-! ### C06 -/
namespace Pams.C06
open Pams Pams.Py Pams.Src Pams.SrcAccept
variable {K : Type} [LinearOrder K] [NumOpsC K]

/-- **one clock step of the current source**: the market's clock and the clocks of both of its books
advance by exactly one, the new slot records the fundamental price handed in, and last-trade and mid
price are carried over into it. -/
theorem source_clock_step (m : Market K) (a c : Order K) (fund dflt pa pc mp fp : K)
    (hb : m.buys = [a, c]) (hs : m.sells = []) (ha : a.isBuy = true) (hpa : a.price = some pa)
    (hc : c.isBuy = true) (hpc : c.price = some pc) (ht : m.time = 0)
    (hmk : m.cur.market = some mp) (hf : m.cur.fund = some fp) (hac : a.id ≠ c.id)
    (hkeys : a.placedAt + a.ttl.getD 0 ≠ c.placedAt + c.ttl.getD 0) :
    let res := resultG tickObs (rhoTick m a c fund dflt) tickEnv XFUEL "Market._update_time" [.ref 5, .num (.atom 56)]
        (stTick a.ttl.isSome c.ttl.isSome m.cur.last.isSome m.cur.mid.isSome)
    cnth res 0 = .int (m.time + 1 : Nat) ∧ cnth res 1 = .int (m.time + 1 : Nat) ∧ cnth res 2 = .int (m.time + 1 : Nat) ∧
      cnth res 8 = .num fund ∧ cnth res 5 = cOpt m.cur.last ∧ cnth res 6 = cOpt m.cur.mid ∧
      cnth res 9 = .int 0 ∧ cnth res 10 = .int 0 ∧ cnth res 11 = .int 0 := by
  intro res
  have hres : res = modelTickObs a c (m.tick (srcOps K) (some fund)) :=
    tick_src m a c fund dflt pa pc mp fp hb hs ha hpa hc hpc ht hmk hf hac hkeys
  rw [hres]
  simp [cnth, modelTickObs, Market.tick, cOpt]

end Pams.C06

/-! ### C08 -/
namespace Pams.C08
open Pams Pams.Py Pams.Src Pams.SrcAccept
variable {K : Type} [LinearOrder K] [NumOpsC K]

/-- **the market price at a clock step** (current source): while running it becomes the last trade
price if there is one, else the mid-quote if there is one, else it is carried over; while not running
it is carried over. -/
theorem source_tick_market_price (m : Market K) (a c : Order K) (fund dflt pa pc mp fp : K)
    (hb : m.buys = [a, c]) (hs : m.sells = []) (ha : a.isBuy = true) (hpa : a.price = some pa)
    (hc : c.isBuy = true) (hpc : c.price = some pc) (ht : m.time = 0)
    (hmk : m.cur.market = some mp) (hf : m.cur.fund = some fp) (hac : a.id ≠ c.id)
    (hkeys : a.placedAt + a.ttl.getD 0 ≠ c.placedAt + c.ttl.getD 0) :
    cnth (resultG tickObs (rhoTick m a c fund dflt) tickEnv XFUEL "Market._update_time" [.ref 5, .num (.atom 56)]
        (stTick a.ttl.isSome c.ttl.isSome m.cur.last.isSome m.cur.mid.isSome)) 7
      = cOpt (marketRule m.running m.cur.last m.cur.mid m.cur.market) := by
  rw [tick_src m a c fund dflt pa pc mp fp hb hs ha hpa hc hpc ht hmk hf hac hkeys]
  simp [cnth, modelTickObs, Market.tick]

end Pams.C08
