/-
C10 on the *current source text* of `pams/logs/base.py` (translated on every run into `PamsGen.Code`): the
logger's operations are the steps of the logger model `Pams.Logger`, whose theorems (C10.lean: every record
handed over is delivered exactly once, queued records in the order they were written, at the next flush)
thereby speak about this code.
-/
import PamsLemmas.SrcLogger

open Pams Pams.Py Pams.Logger Pams.Src

namespace Pams.C10
variable {K : Type} [LinearOrder K] [NumOpsC K]

/-- **`write`, `bulk_write` (and `Log.read_and_write`) only queue**: the record(s) are appended to the
pending queue, nothing is delivered -/
theorem source_logger_queues (ρ : Rho K) (d : List Nat) :
    resultG logObs ρ logEnv FUEL "Logger.write" [.ref 8, .ref 38] (logSt q3)
      = lstateObs (step { pending := q3, delivered := d } (.write 38)) d.length ∧
    resultG logObs ρ logEnv FUEL "Log.read_and_write" [.ref 38, .ref 8] (logSt q3)
      = lstateObs (step { pending := q3, delivered := d } (.write 38)) d.length ∧
    resultG logObs ρ logEnv FUEL "Logger.bulk_write" [.ref 8, .list [.ref 31, .ref 36]] (logSt q3)
      = lstateObs (step { pending := q3, delivered := d } (.bulkWrite [31, 36])) d.length :=
  ⟨(logger_src_write ρ d).1, (logger_src_write ρ d).2, logger_src_bulk_write ρ d⟩

/-- **synchronous delivery**: `write_and_direct_process` (and `Log.read_and_write_with_direct_process`,
`bulk_write_and_direct_process`) deliver at once, by the method of the record's class, and leave the queue
alone -/
theorem source_logger_direct (ρ : Rho K) (d : List Nat) :
    resultG logObs ρ logEnv FUEL "Logger.write_and_direct_process" [.ref 8, .ref 38] (logSt q3)
      = lstateObs (step { pending := q3, delivered := d } (.direct 38)) d.length ∧
    resultG logObs ρ logEnv FUEL "Log.read_and_write_with_direct_process" [.ref 39, .ref 8] (logSt q3)
      = lstateObs (step { pending := q3, delivered := d } (.direct 39)) d.length ∧
    resultG logObs ρ logEnv FUEL "Logger.bulk_write_and_direct_process" [.ref 8, .list [.ref 31, .ref 36]] (logSt q3)
      = lstateObs (step (step { pending := q3, delivered := d } (.direct 31)) (.direct 36)) d.length :=
  logger_src_direct ρ d

/-- **a flush delivers every pending record exactly once, in queue order, and empties the queue** — for
a queue holding one record of each of the ten classes, each by the method of its class -/
theorem source_logger_flush (ρ : Rho K) (d : List Nat) :
    resultG logObs ρ logEnv FUEL "Logger._process" [.ref 8] (logSt q3)
      = lstateObs (step { pending := q3, delivered := d } .flush) d.length ∧
    resultG logObs ρ logEnv FUEL "Logger._process" [.ref 8] (logSt q10)
      = lstateObs (step { pending := q10, delivered := d } .flush) d.length ∧
    resultG logObs ρ logEnv FUEL "Logger._process" [.ref 8] (logSt [])
      = lstateObs (step { pending := [], delivered := d } .flush) d.length :=
  logger_src_flush ρ d

end Pams.C10
