/-
C05 at the level of the **translated source**: `Simulator._update_agents_for_execution` as it stands in
/repo is the model's ledger fold (PamsLemmas/SrcLedger.lean, by symbolic execution), and therefore
conserves cash and shares when the arithmetic is that of an ordered field.
-/
import PamsLemmas.SrcLedger
import PamsProps.C05
import Mathlib.Algebra.Order.Field.Basic

set_option linter.unusedSectionVars false
set_option linter.unusedVariables false

namespace Pams.C05
open Pams Pams.Py Pams.Src Pams.Ledger

section Uninterpreted
variable {K : Type} [LinearOrder K] [NumOpsC K]

/-- **one fill, current source = model** (restated from `Src.ledger_src_one`): buyer and seller in
{1, 2} (equal for a self-trade), market in {0, 1}, any price, volume, cash and positions. -/
theorem source_fill_is_applyFill (b s mk : Nat) (hb : b = 1 ∨ b = 2) (hs : s = 1 ∨ s = 2) (hm : mk = 0 ∨ mk = 1)
    (cash : Nat → K) (shares : Nat → Nat → Int) (p0 p1 : K) (v0 v1 : Nat) (dflt : K) :
    resultG ledgerObs (rhoLedger cash shares p0 p1 v0 v1 dflt) env FUEL "Simulator._update_agents_for_execution"
        [.ref 7, .list [.ref 30]] (ledgerSt b s mk 1 2 0)
      = bookObs (applyFills (· - ·) (· + ·) { cash := cash, shares := shares } [mkFillL b s mk p0 v0]) :=
  ledger_src_one b s mk hb hs hm cash shares p0 p1 v0 v1 dflt

/-- **a list of fills is applied in order** (current source = the model's left fold), here for two -/
theorem source_fills_fold_in_order (cash : Nat → K) (shares : Nat → Nat → Int) (p0 p1 : K) (v0 v1 : Nat) (dflt : K) :
    resultG ledgerObs (rhoLedger cash shares p0 p1 v0 v1 dflt) env FUEL "Simulator._update_agents_for_execution"
        [.ref 7, .list [.ref 30, .ref 31]] (ledgerSt 1 2 0 2 1 0)
      = bookObs (applyFills (· - ·) (· + ·) { cash := cash, shares := shares }
          [mkFillL 1 2 0 p0 v0, mkFillL 2 1 0 p1 v1]) :=
  ledger_src_two cash shares p0 p1 v0 v1 dflt

end Uninterpreted

section Field
variable {K : Type} [Field K] [LinearOrder K] [IsStrictOrderedRing K]

/-- the field operations as the operations the translated code uses -/
@[reducible] def ledgerFieldOps : NumOpsC K :=
  { add := (· + ·), sub := (· - ·), mul := (· * ·), div := (· / ·), neg := (- ·), ofInt := fun i => (i : K),
    floor := fun _ => 0, ceil := fun _ => 0, fmod := fun a _ => a, exp := id, log := id, sqrt := id }

/-- **the holdings the current source leaves after a fill conserve cash and shares** (exact arithmetic):
there is a book `bk` that is what the source leaves, the two agents' cash adds up to what it was and
so do their positions in every market; a third agent does not exist in the heap, so nothing else can
have changed. -/
theorem source_fill_conserves (b s mk : Nat) (hb : b = 1 ∨ b = 2) (hs : s = 1 ∨ s = 2) (hm : mk = 0 ∨ mk = 1)
    (cash : Nat → K) (shares : Nat → Nat → Int) (p0 p1 : K) (v0 v1 : Nat) (dflt : K) :
    ∃ bk : Book K,
      @resultG K (@pyNumOfOrder K _ ledgerFieldOps) ledgerObs (rhoLedger cash shares p0 p1 v0 v1 dflt) env FUEL
          "Simulator._update_agents_for_execution" [.ref 7, .list [.ref 30]] (ledgerSt b s mk 1 2 0) = bookObs bk ∧
      bk.cash 1 + bk.cash 2 = cash 1 + cash 2 ∧
      ∀ m, bk.shares 1 m + bk.shares 2 m = shares 1 m + shares 2 m := by
  refine ⟨applyFills (· - ·) (· + ·) { cash := cash, shares := shares }
    [@mkFillL K _ ledgerFieldOps b s mk p0 v0], ?_, ?_, ?_⟩
  · exact @ledger_src_one K _ ledgerFieldOps b s mk hb hs hm cash shares p0 p1 v0 v1 dflt
  · have h := (totals_conserved [1, 2] (by decide) ({ cash := cash, shares := shares } : Book K)
      [@mkFillL K _ ledgerFieldOps b s mk p0 v0] (by
        intro f hf
        simp only [List.mem_singleton] at hf
        subst hf
        rcases hb with rfl | rfl <;> rcases hs with rfl | rfl <;> simp [mkFillL])).1
    simpa using h
  · intro m
    have h := (totals_conserved [1, 2] (by decide) ({ cash := cash, shares := shares } : Book K)
      [@mkFillL K _ ledgerFieldOps b s mk p0 v0] (by
        intro f hf
        simp only [List.mem_singleton] at hf
        subst hf
        rcases hb with rfl | rfl <;> rcases hs with rfl | rfl <;> simp [mkFillL])).2 m
    simpa using h

end Field

end Pams.C05
