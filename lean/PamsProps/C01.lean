/-
C01 — Trades honour both limits; one price per round, set by the resting side.

Property theorems only (helper lemmas live in PamsLemmas).  `Inv` is the market invariant
(PamsLemmas/MarketLemmas.lean); `inv_runOps` shows it holds in every state reachable from the
initial state by valid operations, so each theorem below holds for every history.
-/
import PamsLemmas.SourceTie
import PamsLemmas.MarketLemmas
import Mathlib.Data.Nat.Basic

set_option linter.unusedSectionVars false

namespace Pams.C01
open Pams
variable {P : Type} [LinearOrder P]

/-- (a)+(b): every fill of a round pairs one resting buy order with one resting sell order of this
market, names their owners, and its price is no higher than the buyer's limit and no lower than
the seller's limit (market orders impose no bound). -/
theorem price_within_limits (ops : PriceOps P) (m m' : Market P) (fs : List (Fill P))
    (h : Inv m) (he : m.execution ops = .ok (m', fs)) :
    ∀ f ∈ fs, ∃ b ∈ m.buys, ∃ s ∈ m.sells,
      b.id = f.buyId ∧ s.id = f.sellId ∧ b.agent = f.buyAgent ∧ s.agent = f.sellAgent ∧
      b.isBuy = true ∧ s.isBuy = false ∧
      (∀ pb, b.price = some pb → f.price ≤ pb) ∧ (∀ ps, s.price = some ps → ps ≤ f.price) := by
  rcases execution_cases ops m m' fs he with ⟨_, _, rfl⟩ | ⟨_, _, price, hrp, hs⟩
  · simp
  · intro f hf
    have hfs : fs = (walk m.buys m.sells).1.map (mkFill m.time price) := by
      have := congrArg Prod.snd hs; simpa [Market.settle] using this
    rw [hfs] at hf
    obtain ⟨pr, hpr, rfl⟩ := List.mem_map.mp hf
    obtain ⟨⟨b, hb, hsb⟩, ⟨s, hs', hss⟩⟩ := walk_pairs_mem m.buys m.sells pr hpr
    have hbound := (walk_price_bound m.buys m.sells price h.buys.sorted h.sells.sorted
      h.buys.side h.sells.side hrp).1 pr hpr
    refine ⟨b, hb, s, hs', hsb.1.symm, hss.1.symm, hsb.2.1.symm, hss.2.1.symm,
      h.buys.side b hb, h.sells.side s hs', ?_, ?_⟩
    · intro pb hpb; exact hbound.1 pb (by rw [hsb.2.2.2.1]; exact hpb)
    · intro ps hps; exact hbound.2 ps (by rw [hss.2.2.2.1]; exact hps)

/-- (c): all fills produced by one matching round carry one common price. -/
theorem single_price (ops : PriceOps P) (m m' : Market P) (fs : List (Fill P))
    (he : m.execution ops = .ok (m', fs)) : ∀ f ∈ fs, ∀ g ∈ fs, f.price = g.price := by
  rcases execution_cases ops m m' fs he with ⟨_, _, rfl⟩ | ⟨_, _, price, hrp, hs⟩
  · simp
  · have hfs : fs = (walk m.buys m.sells).1.map (mkFill m.time price) := by
      have := congrArg Prod.snd hs; simpa [Market.settle] using this
    intro f hf g hg
    rw [hfs] at hf hg
    obtain ⟨_, _, rfl⟩ := List.mem_map.mp hf
    obtain ⟨_, _, rfl⟩ := List.mem_map.mp hg
    rfl

/-- (d): the price of a round that produced fills is the proposal of the *last* matched pair:
the limit price of its earlier-accepted order (smaller `(placedAt, id)`), or the limit side's price
when the counterpart is a market order. -/
theorem price_is_last_pair (ops : PriceOps P) (m m' : Market P) (fs : List (Fill P))
    (h : Inv m) (he : m.execution ops = .ok (m', fs)) :
    ∀ f ∈ fs, lastPairPrice (walk m.buys m.sells).1 = some f.price := by
  rcases execution_cases ops m m' fs he with ⟨_, _, rfl⟩ | ⟨_, _, price, hrp, hs⟩
  · simp
  · have hfs : fs = (walk m.buys m.sells).1.map (mkFill m.time price) := by
      have := congrArg Prod.snd hs; simpa [Market.settle] using this
    intro f hf
    rw [hfs] at hf
    obtain ⟨_, _, rfl⟩ := List.mem_map.mp hf
    rw [← roundPrice_eq_last m.buys m.sells h.buys.sorted h.sells.sorted]
    exact hrp

/-- what `pairPrice` is, spelled out as the property words it (documentation of the rule) -/
theorem pairPrice_rule (b s : Order P) :
    pairPrice b s =
      match b.price, s.price with
      | none, none => none
      | some p, none => some p
      | none, some q => some q
      | some p, some q =>
        if b.placedAt < s.placedAt ∨ (b.placedAt = s.placedAt ∧ b.id < s.id) then some p else some q := by
  unfold pairPrice
  rcases b.price with _ | p <;> rcases s.price with _ | q <;> simp
  by_cases h1 : b.placedAt = s.placedAt
  · simp [h1]
  · simp [h1]

/-- the three clauses hold along every history from the initial state -/
theorem history (ops : PriceOps P) (mp : P) (fund : Option P) (os : List (Op P))
    (hv : ∀ o ∈ os, o.valid) (m' : Market P) (fs : List (Fill P))
    (he : ((Market.init ops mp fund).runOps ops os).1.execution ops = .ok (m', fs)) :
    (∀ f ∈ fs, ∀ g ∈ fs, f.price = g.price) ∧
    (∀ f ∈ fs, ∃ b ∈ ((Market.init ops mp fund).runOps ops os).1.buys,
       ∃ s ∈ ((Market.init ops mp fund).runOps ops os).1.sells,
        b.id = f.buyId ∧ s.id = f.sellId ∧
        (∀ pb, b.price = some pb → f.price ≤ pb) ∧ (∀ ps, s.price = some ps → ps ≤ f.price)) := by
  have hinv := inv_runOps ops _ os (inv_init ops mp fund) hv
  refine ⟨single_price ops _ m' fs he, ?_⟩
  intro f hf
  obtain ⟨b, hb, s, hs, h1, h2, _, _, _, _, h3, h4⟩ := price_within_limits ops _ m' fs hinv he f hf
  exact ⟨b, hb, s, hs, h1, h2, h3, h4⟩

/-! Non-vacuity: a concrete crossed book over ℕ prices satisfies the hypotheses and trades. -/
def natOps : PriceOps Nat := { mid := fun a b => (a + b) / 2, addNotional := fun acc v p => acc + v * p, zero := 0, snap := fun _ p => p }

def demo : Market Nat :=
  ((Market.init natOps 100 none).runOps natOps
    [.setRunning false,
     .add { agent := 1, isBuy := false, price := some 99, vol := 2, ttl := none },
     .add { agent := 2, isBuy := false, price := some 101, vol := 1, ttl := none },
     .add { agent := 3, isBuy := true, price := some 102, vol := 3, ttl := none },
     .setRunning true]).1

example : (match demo.execution natOps with
    | .ok (_, fs) => fs.map (fun f => (f.buyId, f.sellId, f.price, f.vol))
    | .error _ => []) = [(2, 0, 101, 2), (2, 1, 101, 1)] := by decide +kernel

/-- the gloss "a price already resting in the book" fails in one corner of code and model alike: a
resting *market* order hit by an incoming limit order trades at the incoming order's price. -/
example : (match ((Market.init natOps 100 none).runOps natOps
      [.setRunning true,
       .add { agent := 1, isBuy := false, price := none, vol := 1, ttl := none },
       .add { agent := 2, isBuy := true, price := some 105, vol := 1, ttl := none }]).1.execution natOps with
    | .ok (_, fs) => fs.map (fun f => (f.buyId, f.sellId, f.price))
    | .error _ => []) = [(1, 0, 105)] := by decide +kernel

/-- (T) the price-selection and break tests of `Market._execution` in the current sources carry the
operators the model transcribes (`<` for the break, `==`/`<`/`>` on the stamps, `<` on placed_at) -/
theorem source_price_selection :
    Pams.Source.opsOf "Market._execution" =
      ["!=", "!=", "==", "==", "==", "==", "==", "==", "is not", "is not", "<", "==", "<", "<", "is", "is",
       "is", "is", "is not", "==", "is", "is", "<", ">", "<", "is"] := by decide

end Pams.C01
