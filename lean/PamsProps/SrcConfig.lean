/-
C18 on the *current source text* of `pams/utils/json_extends.py` (translated on every run into
`PamsGen.Code`): `json_extends` is the model's `Config.jsonExtends`, whose theorems (C18.lean: every key
takes the value of the nearest ancestor that has it; excluded fields; cycles and missing parents refused;
the loop needs at most one pass per class) thereby speak about this code — on chains, cycles, missing
parents and exclusions, for every value the fields hold.
-/
import PamsLemmas.SrcConfig
import PamsLemmas.SrcRegistry
import Batteries.Tactic.Alias

open Pams Pams.Py Pams.Config Pams.Src

namespace Pams.C18
variable {K : Type} [LinearOrder K] [NumOpsC K]

/-- **`json_extends` is the model's `jsonExtends`**: a three-class chain with overlapping keys (the result's
keys, their *order* and their values), exclusions, a target without parent, a leaf parent, and the three
refusals — mutual extension, a missing parent, a class extending itself -/
theorem source_json_extends_is_model :
    CfgSpec K wABC 13 tgt none ∧ CfgSpec K wABC 13 tgt (some [2, 4]) ∧ CfgSpec K wABC 13 [(1, 901), (3, 903)] none ∧
    CfgSpec K wABC 13 [(0, 12), (3, 903)] (some [3]) ∧ CfgSpec K wCyc 13 tgt (some []) ∧
    CfgSpec K wABC 13 [(1, 901), (0, 14)] none ∧ CfgSpec K wABC 10 tgt none :=
  ⟨config_src_chain, config_src_excludes, config_src_plain, config_src_leaf, config_src_cycle, config_src_missing,
   config_src_self⟩

/-- spelled out: `child = {w: t, extends: A, y: t'}` over `A = {extends: B, x, y}`, `B = {y, extends: C, z}`,
`C = {z, w, x}` gives the keys `z, w, x, y` in this order with `z` from B, `w` and `y` from the child itself,
`x` from A — nearest ancestor wins, the outermost ancestor's key order leads -/
theorem source_nearest_ancestor_example (val : Nat → Int) :
    resultG dictObs (rhoCfg (K := K) val) cfgEnv FUEL "json_extends" [wholeVal wABC, .str "child", objVal tgt, .none] cfgSt
      = .tuple [.tuple [.str "z", .str "w", .str "x", .str "y"],
                .tuple [.int (val 113), .int (val 904), .int (val 101), .int (val 902)]] := by
  have h := config_src_chain (K := K) val
  simp only [exclVal, nameStr] at h
  rw [h]
  simp [cfgObs, jsonExtends, extendsLoop, lookup, lookupObj, erase, merge, wABC, tgt, keyStr, nameStr]

/-- **`JsonRandom.random` on the current source**: a pair and `{"uniform": [a, b]}` give `u·(b − a) + a` with
exactly one `random()` draw (the model's `uniform`, whose range theorem is `C18.uniform_range`),
`{"const": [a]}` and a bare number give the number with no draw, `{"normal": [a, b]}` one `gauss(a, b)`,
`{"expon": [a]}` `a·(−log u)` with one draw — for all `a`, `b` and draws -/
alias source_json_random := json_random_src

/-- ill-formed specifications are refused before any draw -/
alias source_json_random_refusals := json_random_src_refusals

/-- **registration keeps ids and names unique**: `Simulator._add_agent` refuses an id or a name already in
use, otherwise appends, counts, indexes by id and name, files the agent as high-frequency iff its class
descends from `HighFrequencyAgent`, and adds it to its group — for every id value -/
alias source_registry_add_agent := registry_src_add_agent
alias source_registry_duplicate_name := registry_src_duplicate_name

/-- the same for markets and sessions: `Simulator._add_market` / `_add_session` refuse an id or a name already in
use and an object already registered; otherwise they append, count and index by id and name (markets also join
their group, created if new) — for every id value -/
alias source_registry_add_market := registry_src_add_market
alias source_registry_market_refusals := registry_src_market_refusals
alias source_registry_add_session := registry_src_add_session

end Pams.C18
