/-
C17 at the level of the **translated source**: `IndexMarket.compute_market_index` /
`compute_fundamental_index` as they stand in /repo (PamsLemmas/SrcIndex.lean, by symbolic execution),
and — with the arithmetic of an ordered field — the share-weighted average the property speaks of.
-/
import PamsLemmas.SrcIndex
import Batteries.Tactic.Alias
import PamsProps.C17

set_option linter.unusedSectionVars false
set_option linter.unusedVariables false

namespace Pams.C17
open Pams Pams.Py Pams.Src Pams.Index

section Uninterpreted
variable {K : Type} [LinearOrder K] [NumOpsC K]

/-- **source = model for the index of two / three components** (restated from `Src.index_src_*`) -/
theorem source_index_is_model (p q : Nat → K) (s : Nat → Nat) (t : Int)
    (hz2 : (NumOpsC.ofInt ((0 : Int) + s 5 + s 6) : K) ≠ NumOpsC.ofInt 0)
    (hz3 : (NumOpsC.ofInt ((0 : Int) + s 5 + s 6 + s 7) : K) ≠ NumOpsC.ofInt 0) :
    result (rhoIndex p q s t) indexEnv FUEL "IndexMarket.compute_market_index" [.ref 9, .int (.atom 1)] (indexSt 2)
        = .num (indexValue [(p 5, s 5), (p 6, s 6)]) ∧
    result (rhoIndex p q s t) indexEnv FUEL "IndexMarket.compute_market_index" [.ref 9, .int (.atom 1)] (indexSt 3)
        = .num (indexValue [(p 5, s 5), (p 6, s 6), (p 7, s 7)]) ∧
    result (rhoIndex p q s t) indexEnv FUEL "IndexMarket.compute_fundamental_index" [.ref 9, .int (.atom 1)] (indexSt 2)
        = .num (indexValue [(q 5, s 5), (q 6, s 6)]) ∧
    result (rhoIndex p q s t) indexEnv FUEL "IndexMarket.compute_fundamental_index" [.ref 9, .int (.atom 1)] (indexSt 3)
        = .num (indexValue [(q 5, s 5), (q 6, s 6), (q 7, s 7)]) :=
  ⟨index_src_market2 p q s t hz2, index_src_market3 p q s t hz3, index_src_fundamental2 p q s t hz2,
   index_src_fundamental3 p q s t hz3⟩

end Uninterpreted

section Field
variable {K : Type} [Field K] [LinearOrder K] [IsStrictOrderedRing K]

/-- the field operations as the operations the translated code uses -/
@[reducible] def indexFieldOps : NumOpsC K :=
  { add := (· + ·), sub := (· - ·), mul := (· * ·), div := (· / ·), neg := (- ·), ofInt := fun i => (i : K),
    floor := fun _ => 0, ceil := fun _ => 0, fmod := fun a _ => a, exp := id, log := id, sqrt := id }

/-- **what the current source computes for an index of two components is the share-weighted average of
their prices** `(p₅·s₅ + p₆·s₆) / (s₅ + s₆)` (exact arithmetic, shares not all zero). -/
theorem source_index_weighted_average (p q : Nat → K) (s : Nat → Nat) (t : Int) (hs : 0 < s 5 + s 6) :
    @result K (@pyNumOfOrder K _ indexFieldOps) (@rhoIndex K p q s t) (@indexEnv) FUEL
        "IndexMarket.compute_market_index" [.ref 9, .int (.atom 1)] (indexSt 2)
      = .num ((p 5 * (s 5 : K) + p 6 * (s 6 : K)) / ((s 5 : K) + (s 6 : K))) := by
  have hz : (@NumOpsC.ofInt K indexFieldOps ((0 : Int) + s 5 + s 6)) ≠ @NumOpsC.ofInt K indexFieldOps 0 := by
    show (((0 : Int) + s 5 + s 6 : Int) : K) ≠ ((0 : Int) : K)
    have : (0 : K) < ((s 5 + s 6 : Nat) : K) := by exact_mod_cast hs
    push_cast
    simp only [zero_add]
    push_cast at this
    exact ne_of_gt this
  rw [@index_src_market2 K _ indexFieldOps p q s t hz]
  congr 1
  simp only [indexValue, totals, List.foldl_cons, List.foldl_nil]
  show ((((0 : Int) : K) + p 5 * ((s 5 : Int) : K)) + p 6 * ((s 6 : Int) : K)) / (((0 + s 5 + s 6 : Nat) : Int) : K) = _
  push_cast
  simp only [zero_add]

end Field

/-- the component bookkeeping on the source: `is_all_markets_running` is the conjunction of the components'
running flags; `_add_market` appends a new component and refuses a repeated one or one without
outstanding shares -/
alias source_index_components := Pams.Src.index_src_components

end Pams.C17
