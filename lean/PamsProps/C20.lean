/-
C20 — Built-in agents emit well-formed orders that follow their documented strategy.
-/
import PamsLemmas.SourceTie
import PamsModel.Agents
import Mathlib.Analysis.SpecialFunctions.Exp
import Mathlib.Analysis.SpecialFunctions.Log.Basic
import Mathlib.Tactic.Linarith
import Mathlib.Tactic.Ring
import Mathlib.Tactic.FieldSimp

namespace Pams.C20
open Pams Pams.Agents

noncomputable instance realArith : ArithT ℝ where
  zero := 0
  one := 1
  ofNat := fun n => (n : ℝ)
  decLt := fun a b => Classical.propDecidable _
  decLe := fun a b => Classical.propDecidable _
  exp := Real.exp
  log := Real.log

@[simp] theorem r_one : (Arith.one : ℝ) = 1 := rfl
@[simp] theorem r_zero : (Arith.zero : ℝ) = 0 := rfl
@[simp] theorem r_ofNat (n : Nat) : (Arith.ofNat n : ℝ) = (n : ℝ) := rfl
@[simp] theorem r_exp (x : ℝ) : (ArithT.exp x : ℝ) = Real.exp x := rfl
@[simp] theorem r_log (x : ℝ) : (ArithT.log x : ℝ) = Real.log x := rfl

/-- the documented weighted combination of fundamental, chart and noise log-returns -/
theorem fcn_log_return_formula (mp fund mpPast wf wc wn noise : ℝ) (tw mrt : Nat) :
    fcnLogReturn mp fund mpPast wf wc wn noise tw mrt true =
      (wf * (Real.log (fund / mp) / (max mrt 1 : Nat)) + wc * (Real.log (mp / mpPast) / (max tw 1 : Nat))
        + wn * noise) / (wf + wc + wn) := by
  unfold fcnLogReturn
  simp only [r_one, r_ofNat, r_log, ↓reduceIte]
  ring

/-- An FCN agent buys exactly when its expected future price exceeds the market price, which is
exactly when expected log return × window is positive; it sells exactly when it is below; never
both; and nothing when they are equal. -/
theorem fcn_side_iff (mp elr margin : ℝ) (window : Nat) (hmp : 0 < mp) :
    let e := fcnExpected mp elr window
    (mp < e ↔ 0 < elr * window) ∧ (e < mp ↔ elr * window < 0) ∧
    ((fcnOrders mp e margin window).map (·.isBuy) =
      if 0 < elr * window then [true] else if elr * window < 0 then [false] else []) := by
  simp only [fcnExpected, r_exp, r_ofNat]
  have h1 : mp < mp * Real.exp (elr * window) ↔ 0 < elr * window := by
    rw [← Real.exp_pos (elr * window) |> fun _ => Real.one_lt_exp_iff (x := elr * window)]
    constructor
    · intro h; nlinarith [Real.exp_pos (elr * window)]
    · intro h; nlinarith [Real.exp_pos (elr * window)]
  have h2 : mp * Real.exp (elr * window) < mp ↔ elr * window < 0 := by
    rw [← Real.exp_lt_one_iff (x := elr * window)]
    constructor
    · intro h; nlinarith [Real.exp_pos (elr * window)]
    · intro h; nlinarith [Real.exp_pos (elr * window)]
  refine ⟨h1, h2, ?_⟩
  unfold fcnOrders
  by_cases hp : 0 < elr * window
  · have hb := h1.mpr hp
    have hn : ¬ mp * Real.exp (elr * window) < mp := by linarith
    simp [hb, hn, hp]
  · by_cases hq : elr * window < 0
    · have hs := h2.mpr hq
      have hn : ¬ mp < mp * Real.exp (elr * window) := by linarith
      simp [hs, hn, hp, hq]
    · have hn1 : ¬ mp < mp * Real.exp (elr * window) := fun h => hp (h1.mp h)
      have hn2 : ¬ mp * Real.exp (elr * window) < mp := fun h => hq (h2.mp h)
      simp [hn1, hn2, hp, hq]

/-- The quote is the expected price shaded by the margin: a buy order bids no more, a sell order
asks no less than the expected price (margin in [0,1]); volume 1, lifetime = window. -/
theorem fcn_price_shaded (mp e margin : ℝ) (window : Nat) (he : 0 < e) (hm0 : 0 ≤ margin) (hm1 : margin ≤ 1) :
    ∀ o ∈ fcnOrders mp e margin window,
      o.vol = 1 ∧ o.ttl = window ∧ 0 ≤ o.price ∧
      (o.isBuy = true → o.price = e * (1 - margin) ∧ o.price ≤ e) ∧
      (o.isBuy = false → o.price = e * (1 + margin) ∧ e ≤ o.price) := by
  intro o ho
  unfold fcnOrders at ho
  simp only [List.mem_append] at ho
  rcases ho with ho | ho
  · split at ho
    · simp only [List.mem_cons, List.not_mem_nil, or_false] at ho
      subst ho
      simp only [r_one]
      refine ⟨trivial, trivial, by nlinarith, fun _ => ⟨trivial, by nlinarith⟩, fun h => by simp at h⟩
    · simp at ho
  · split at ho
    · simp only [List.mem_cons, List.not_mem_nil, or_false] at ho
      subst ho
      simp only [r_one]
      refine ⟨trivial, trivial, by nlinarith, fun h => by simp at h, fun _ => ⟨trivial, by nlinarith⟩⟩
    · simp at ho

/-- A market maker quotes one buy and one sell, symmetric around its base price and separated by
fundamental price × spread. -/
theorem mm_symmetric (base fund spread : ℝ) (ttl : Nat) :
    ∃ b s, mmOrders base fund spread (1 / 2) ttl = [b, s] ∧ b.isBuy = true ∧ s.isBuy = false ∧
      s.price - b.price = fund * spread ∧ (b.price + s.price) / 2 = base ∧
      b.vol = 1 ∧ s.vol = 1 ∧ b.ttl = ttl ∧ s.ttl = ttl := by
  refine ⟨_, _, rfl, rfl, rfl, ?_, ?_, rfl, rfl, rfl, rfl⟩ <;> ring

/-- its base price: the midpoint of the highest accessible bid and the lowest accessible ask, or the
target's market price when a side is missing -/
theorem mm_base (b s mp : ℝ) :
    mmBase (some b) (some s) mp 2 = (b + s) / 2 ∧ mmBase none (some s) mp 2 = mp ∧
    mmBase (some b) none mp 2 = mp ∧ mmBase (none : Option ℝ) none mp 2 = mp := ⟨rfl, rfl, rfl, rfl⟩

/-- An arbitrage agent acts only when index price and computed index differ by more than its
threshold (strictly), buying the cheaper leg. -/
theorem arb_threshold (ip idx th : ℝ) (hth : 0 ≤ th) :
    (arbSide ip idx th = none ↔ |ip - idx| ≤ th) ∧
    (arbSide ip idx th = some true ↔ th < idx - ip) ∧
    (arbSide ip idx th = some false ↔ th < ip - idx) := by
  unfold arbSide
  by_cases h1 : ip < idx ∧ th < idx - ip
  · rw [if_pos h1]
    refine ⟨by simp; rw [abs_of_neg (by linarith)]; linarith, by simp; exact h1.2, by simp; linarith⟩
  · rw [if_neg h1]
    by_cases h2 : idx < ip ∧ th < ip - idx
    · rw [if_pos h2]
      refine ⟨by simp; rw [abs_of_pos (by linarith)]; linarith, by simp; linarith, by simp; exact h2.2⟩
    · rw [if_neg h2]
      have hle : |ip - idx| ≤ th := by
        rw [abs_le]
        constructor
        · by_contra h
          have h3 : ip < idx := by linarith
          exact h1 ⟨h3, by linarith⟩
        · by_contra h
          have h3 : idx < ip := by linarith
          exact h2 ⟨h3, by linarith⟩
      refine ⟨by simp [hle], ?_, ?_⟩
      · simp only [reduceCtorEq, false_iff, not_lt]
        have := (abs_le.mp hle).1; linarith
      · simp only [reduceCtorEq, false_iff, not_lt]
        have := (abs_le.mp hle).2; linarith

/-- When it acts it sends a hedged basket: one index order of n × v against n component orders of v
on the opposite side, each priced at the respective market price. -/
theorem arb_hedged (buyIndex : Bool) (im : Nat) (ip : ℝ) (comps : List (Nat × ℝ)) (v ttl : Nat) :
    let os := arbOrders (some buyIndex) im ip comps v ttl
    os.length = comps.length + 1 ∧
    os.head? = some (im, { isBuy := buyIndex, price := ip, vol := comps.length * v, ttl := ttl }) ∧
    (∀ o ∈ os.tail, o.2.isBuy = !buyIndex ∧ o.2.vol = v ∧ o.2.ttl = ttl ∧ (o.1, o.2.price) ∈ comps) ∧
    ((os.tail.map (·.2.vol)).sum = comps.length * v) := by
  simp only [arbOrders, List.length_cons, List.length_map, List.head?_cons, List.tail_cons, true_and]
  refine ⟨?_, ?_⟩
  · intro o ho
    obtain ⟨c, hc, rfl⟩ := List.mem_map.mp ho
    exact ⟨rfl, rfl, rfl, hc⟩
  · rw [List.map_map]
    induction comps with
    | nil => simp
    | cons c cs ih => simp only [List.map_cons, List.sum_cons, List.length_cons, Function.comp] at ih ⊢; rw [ih]; ring

theorem arb_idle (im : Nat) (ip : ℝ) (comps : List (Nat × ℝ)) (v ttl : Nat) :
    arbOrders none im ip comps v ttl = [] := rfl

/-- (T) the strict threshold comparisons of `ArbitrageAgent._submit_orders` and the strict side tests
of `FCNAgent.submit_orders_by_market` in the current sources -/
theorem source_agent_tests :
    Pams.Source.opsOf "ArbitrageAgent._submit_orders" = [">", "<", ">", ">", ">"] ∧
    Pams.Source.opsOf "FCNAgent.submit_orders_by_market" =
      [">=", ">=", ">=", ">=", "==", "<= <=", ">", "<", "==", ">=", ">=", ">", ">", "<"] := by decide

end Pams.C20
