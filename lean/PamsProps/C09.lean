/-
C09 — Session rules: placement/execution switches, order caps, HFT interleaving.

Statements are about the scheduler model `Pams.Runner` (PamsModel/Runner.lean), for all session
lists, tapes (permutations, uniform draws), agent programs (`answer`) and market answers.
-/
import PamsLemmas.SourceTie
import PamsLemmas.RunnerLemmas

namespace Pams.C09
open Pams.Runner

/-- (a) In a step of a session without order placement no agent is asked for orders and nothing is
handed to a market: the step consists of the step frame only (before-step hooks, step records,
after-step hooks, clock). -/
theorem no_placement_step (ms : Markets) (cfg : SessionCfg) (t : Nat) (flag : Bool) (tape : StepTape)
    (hp : cfg.placement = false) :
    ∀ e ∈ (runStep ms cfg t flag tape).tr,
      e.isFrame = true ∧ e.isConsult = false ∧ e.isCall = false := by
  unfold runStep
  simp only [hp, Bool.false_eq_true, ↓reduceIte, List.append_nil]
  intro e he
  simp only [List.mem_append] at he
  have h : e.isFrame = true := by
    rcases he with (he | he) | he
    · exact stepBefore_frame t tape.resume ms flag e he
    · exact stepAfter_frame t ms e he
    · exact ticks_frame ms e he
  have := frame_not_other e h
  exact ⟨h, this.2.1, this.1⟩

/-- (b1) While the execution flag is off and no before-step handler switches it on (only the
trading-halt rule ever does), a whole run of steps requests no matching round — hence no fill —
whatever agents, events and markets do, and the flag is still off afterwards. -/
theorem no_round_without_execution (ms : Markets) (cfg : SessionCfg) (t : Nat)
    (tapes : List StepTape) (n : Nat)
    (hres : ∀ tape ∈ tapes, ∀ m ∈ ms, tape.resume m.1 = false) :
    (∀ e ∈ (runSteps ms cfg t false tapes n).tr, e.isExec = false) ∧
    (runSteps ms cfg t false tapes n).flag = false :=
  runSteps_flag_off ms cfg t tapes n hres

/-- … in particular a session configured without order execution produces no matching round. -/
theorem session_without_execution (ms : Markets) (k : Nat) (cfg : SessionCfg) (start : Nat)
    (tapes : List StepTape) (hx : cfg.execution = false)
    (hres : ∀ tape ∈ tapes, ∀ m ∈ ms, tape.resume m.1 = false) :
    ∀ e ∈ (runSession ms k cfg start tapes).tr, e.isExec = false := by
  have h := runSteps_flag_off ms cfg start tapes cfg.steps hres
  unfold runSession
  rw [hx]
  intro e he
  by_cases hok : (runSteps ms cfg start false tapes cfg.steps).ok = true
  · simp only [hok, ↓reduceIte, List.mem_append, List.mem_cons, List.mem_map, List.not_mem_nil,
      or_false] at he
    rcases he with (((rfl | rfl | rfl) | ⟨m, _, rfl⟩) | he) | rfl | rfl | rfl
    all_goals first | rfl | exact h.1 e he
  · simp only [hok, Bool.false_eq_true, ↓reduceIte, List.mem_append, List.mem_cons, List.mem_map,
      List.not_mem_nil, or_false] at he
    rcases he with ((rfl | rfl | rfl) | ⟨m, _, rfl⟩) | he
    all_goals first | rfl | exact h.1 e he

/-- (b2) With the flag on, an accepted order or cancel on market `m` is followed — right after the
owner's callback and the after-hook — by a matching round on that same market, then the ledger
update for the whole round, then the per-fill notifications. -/
theorem round_follows_accept (t : Nat) (r : Request) (fs : List RFill)
    (ha : r.accepted = true) (hf : r.fills = some fs) :
    (processRequest t true r).tr =
      (if r.isCancel then [Ev.hookCancelBefore r.ref t, Ev.cancel r.market r.ref,
                           Ev.cbCanceled r.owner r.ref, Ev.hookCancelAfter r.ref t]
       else [Ev.hookOrderBefore r.ref t, Ev.addOrder r.market r.ref,
             Ev.cbSubmitted r.owner r.ref, Ev.hookOrderAfter r.ref t])
      ++ [Ev.execution r.market, Ev.ledger (fs.map (·.ref))] ++ fillEvents t fs := by
  unfold processRequest
  cases hc : r.isCancel <;> simp [ha, hf]

/-- with the flag off the same request is accepted (placement still works) but no round follows -/
theorem no_round_when_off (t : Nat) (r : Request) (ha : r.accepted = true) :
    (processRequest t false r).tr =
      (if r.isCancel then [Ev.hookCancelBefore r.ref t, Ev.cancel r.market r.ref,
                           Ev.cbCanceled r.owner r.ref, Ev.hookCancelAfter r.ref t]
       else [Ev.hookOrderBefore r.ref t, Ev.addOrder r.market r.ref,
             Ev.cbSubmitted r.owner r.ref, Ev.hookOrderAfter r.ref t]) := by
  unfold processRequest
  cases hc : r.isCancel <;> simp [ha]

/-- the flag is switched off exactly by an after-execution handler (trading halt) -/
theorem flag_after_fills (flag : Bool) (fs : List RFill) :
    flagAfterFills flag fs = (flag && !(fs.any (·.halts))) := by
  induction fs generalizing flag with
  | nil => simp [flagAfterFills]
  | cons f fs ih =>
    simp only [flagAfterFills, List.any_cons]
    rw [ih]
    cases flag <;> cases f.halts <;> simp

/-- (c) Normal agents: the agents consulted in a step form a prefix of the drawn permutation (each
at most once), at most `maxNormalOrders` non-empty batches are collected — none at all, and nobody
is consulted, when the cap is ≤ 0 — and consultation stops right after the batch that reaches the
cap; every collected batch is the consulted agent's own answer and names only that agent. -/
theorem normal_prefix_cap (cap : Int) (answer : Nat → List Request) (perm : List Nat) :
    let r := collect false cap answer perm 0
    (∃ k, consulted r.1 = perm.take k ∧
      (r.2.1 = true → (k = perm.length ∨ (r.2.2.length : Int) ≥ cap))) ∧
    (cap ≤ 0 → r.1 = [] ∧ r.2.2 = []) ∧
    (0 ≤ cap → (r.2.2.length : Int) ≤ cap) ∧
    (∀ b ∈ r.2.2, b.1 ∈ perm ∧ b.2 = answer b.1 ∧ b.2 ≠ [] ∧ ∀ q ∈ b.2, q.owner = b.1) := by
  have h := collect_spec false cap answer perm 0
  simp only [Int.natCast_zero, Int.zero_add, ge_iff_le] at h
  exact h

/-- (d) After each processed normal batch the high-frequency agents are consulted iff the drawn
uniform does not exceed the configured rate (`go`), along a fresh permutation. -/
theorem hft_interleave (t : Nat) (maxHft : Int) (a : Nat) (batch : List Request)
    (bs : List (Nat × List Request)) (rt : RoundTape) (rts : List RoundTape) (flag : Bool) :
    handle t maxHft ((a, batch) :: bs) (rt :: rts) flag =
      (processBatch t flag batch).andThen (fun fl =>
        (if rt.go then hftRound t maxHft rt.answer rt.perm 0 fl
         else { tr := [], ok := true, flag := fl }).andThen (fun fl2 => handle t maxHft bs rts fl2)) := by
  simp [handle]

/-- the high-frequency cap: with a cap ≤ 0 no high-frequency agent is consulted -/
theorem hft_cap_zero (t : Nat) (cap : Int) (answer : Nat → List Request) (perm : List Nat)
    (flag : Bool) (h : cap ≤ 0) : (hftRound t cap answer perm 0 flag).tr = [] := by
  cases perm with
  | nil => simp [hftRound]
  | cons a as =>
    unfold hftRound
    have : ((0 : Nat) : Int) ≥ cap := by simpa using h
    rw [if_pos this]

/-! Non-vacuity: a step with two normal agents, cap 1, execution on -/
def demoReq : Request := { owner := 7, market := 0, isCancel := false, ref := 1, accepted := true,
                           fills := some [{ buyer := 7, seller := 3, ref := 0, halts := false }] }
def demoTape : StepTape :=
  { resume := fun _ => false, perm := [7, 3], answer := fun a => if a = 7 then [demoReq] else [],
    shuffle := [0], rounds := [{ go := false, perm := [], answer := fun _ => [] }] }
theorem nonvacuous :
    (runStep [(0, false)] { steps := 1, placement := true, execution := true, maxNormal := 1, maxHft := 0 }
        5 true demoTape).tr =
      [.hookStepBefore 0 5, .stepBegin 0 5, .consult 7 false, .hookOrderBefore 1 5, .addOrder 0 1,
       .cbSubmitted 7 1, .hookOrderAfter 1 5, .execution 0, .ledger [0], .cbExecuted 7 0,
       .cbExecuted 3 0, .hookExecAfter 0 5, .stepEnd 0 5, .hookStepAfter 0 5, .tick 0] := by
  decide

/-- (T) the caps and the rate test of the scheduler in the current sources: `>=` on both caps (tested
before each consultation), non-empty `> 0`, owner `!=`, and `rate < draw` to skip the HFT round -/
theorem source_gates :
    Pams.Source.opsOf "SequentialRunner._collect_orders_from_normal_agents" = [">=", ">", ">", "!="] ∧
    Pams.Source.opsOf "SequentialRunner._handle_orders" = ["<", ">=", ">", ">", "!="] := by decide

/-- (T) the matching round of the request loop in the current sources: exactly one `_execution`
call, after the market call and the owner's notification, on the paths with execution on (orders
*and* cancels, normal *and* high-frequency branch), none on the paths with execution off -/
theorem source_round_gate :
    ∀ x ∈ PamsGen.requestPaths,
      x.2.2.2.count "_execution" = (if x.2.2.1 then 1 else 0) ∧
      (x.2.2.1 = true →
        x.2.2.2.idxOf (if x.2.1 then "_cancel_order" else "_add_order") < x.2.2.2.idxOf "_execution") := by decide

end Pams.C09
