/-
C09 / C18 at the level of the **translated source**: `Session.setup` as it stands in /repo
(PamsLemmas/SrcSession.lean, by symbolic execution).
-/
import PamsLemmas.SrcSession

set_option linter.unusedSectionVars false
set_option linter.unusedVariables false

namespace Pams.C09
open Pams Pams.Py Pams.Src
variable {K : Type} [LinearOrder K] [NumOpsC K]

/-- **the session rules are the configured ones** (current source): after `Session.setup` the length, the
placement / execution / print switches, the two caps and the high-frequency submission rate of the
session object are exactly the configured values — for *every* value, in particular a rate of 0.0, a cap
of 0 and switches that are `False` (no value is treated as "not given"). -/
theorem source_session_parameters (steps : Int) (place exec print : Bool) (maxN maxH : Int) (rate : K)
    (oldN oldH : Int) (oldR : K) :
    resultG sessionObs (rhoSession steps place exec print maxN maxH rate oldN oldH oldR) env FUEL "Session.setup"
        [.ref 8, sNew] sessionSt
      = .tuple [.int steps, .bool place, .bool exec, .bool print, .int maxN, .int maxH, .num rate] :=
  session_src_new steps place exec print maxN maxH rate oldN oldH oldR

end Pams.C09

namespace Pams.C18
open Pams Pams.Py Pams.Src
variable {K : Type} [LinearOrder K] [NumOpsC K]

/-- **deprecated session keys set the same parameters as their replacements** (current source):
`maxHifreqOrders` / `hifreqSubmitRate` give the same session object as `maxHighFrequencyOrders` /
`highFrequencySubmitRate` with the same values. -/
theorem source_legacy_session_keys (steps : Int) (place exec print : Bool) (maxN maxH : Int) (rate : K)
    (oldN oldH : Int) (oldR : K) :
    resultG sessionObs (rhoSession steps place exec print maxN maxH rate oldN oldH oldR) env FUEL "Session.setup"
        [.ref 8, sLegacy] sessionSt
      = resultG sessionObs (rhoSession steps place exec print maxN maxH rate oldN oldH oldR) env FUEL "Session.setup"
        [.ref 8, sNew] sessionSt := by
  rw [session_src_legacy, session_src_new]

/-- a deprecated key together with its replacement, a missing required key, a non-integer step count are
reported as errors; without the optional keys the defaults stay -/
theorem source_session_errors_and_defaults (steps : Int) (place exec print : Bool) (maxN maxH : Int) (rate : K)
    (oldN oldH : Int) (oldR : K) :
    (∀ s ∈ [sBothCaps, sBothRates, sNoSteps, sStepsNotInt],
      resultG sessionObs (rhoSession steps place exec print maxN maxH rate oldN oldH oldR) env FUEL "Session.setup"
        [.ref 8, s] sessionSt = .err (.raise "ValueError")) ∧
    resultG sessionObs (rhoSession steps place exec print maxN maxH rate oldN oldH oldR) env FUEL "Session.setup"
        [.ref 8, sMinimal] sessionSt
      = .tuple [.int steps, .bool place, .bool exec, .bool print, .int oldN, .int oldH, .num oldR] :=
  ⟨session_src_refused steps place exec print maxN maxH rate oldN oldH oldR,
   session_src_minimal steps place exec print maxN maxH rate oldN oldH oldR⟩

end Pams.C18
