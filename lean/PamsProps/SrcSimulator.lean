/-
C13 / C06 on the *current source text* of `pams/simulator.py` (translated on every run into
`PamsGen.Code`): the nine `_trigger_event_*` dispatchers (with `_check_event_class_and_instance`),
`_add_event` and `_update_times_on_markets` against the hook model `Pams.Hooks` and the scheduler model's
`ticks` — by symbolic execution on a table of sixteen hooks over all nine kinds (always-hooks, time lists
with repeated entries, an empty list, class and instance filters), with the occurrence's time quantified.
The theorems of C13.lean about the model (`dispatch_count`: every registered occasion exactly once, nothing
else) thereby speak about this code on this table; beyond it the tie is the correspondence check.
-/
import PamsLemmas.SrcSimulator

open Pams Pams.Py Pams.Hooks Pams.Src

namespace Pams.C13
variable {K : Type} [LinearOrder K] [NumOpsC K]

/-- **every dispatcher invokes exactly the model's `dispatch`** — the always-hooks of its kind, then the
hooks listing the occurrence's time (the market's clock for order / cancel-before / step occurrences, the
log's time for after-order / after-cancel / after-execution, the session's start for before-session and
`start + steps − 1` for after-session), step occurrences filtered by the hook's class and instance — in
that order, each handler once with `(simulator, occurrence)`; for **every** value of the clocks -/
theorem source_dispatchers_are_model :
    DispatchSpec K "_trigger_event_before_step_for_market" "hooked_before_step_for_market" 5 .marketBefore
      (fun t5 _ _ _ _ => t5) (some (0, false)) ∧
    DispatchSpec K "_trigger_event_before_step_for_market" "hooked_before_step_for_market" 6 .marketBefore
      (fun _ t6 _ _ _ => t6) (some (1, true)) ∧
    DispatchSpec K "_trigger_event_after_step_for_market" "hooked_after_step_for_market" 5 .marketAfter
      (fun t5 _ _ _ _ => t5) (some (0, false)) ∧
    DispatchSpec K "_trigger_event_after_step_for_market" "hooked_after_step_for_market" 6 .marketAfter
      (fun _ t6 _ _ _ => t6) (some (1, true)) ∧
    DispatchSpec K "_trigger_event_before_order" "hooked_before_order" 10 .orderBefore (fun t5 _ _ _ _ => t5) none ∧
    DispatchSpec K "_trigger_event_after_order" "hooked_after_order" 11 .orderAfter (fun _ _ tlog _ _ => tlog) none ∧
    DispatchSpec K "_trigger_event_before_cancel" "hooked_before_cancel" 13 .cancelBefore (fun t5 _ _ _ _ => t5) none ∧
    DispatchSpec K "_trigger_event_after_cancel" "hooked_after_cancel" 11 .cancelAfter (fun _ _ tlog _ _ => tlog) none ∧
    DispatchSpec K "_trigger_event_after_execution" "hooked_after_execution" 11 .executionAfter
      (fun _ _ tlog _ _ => tlog) none ∧
    DispatchSpec K "_trigger_event_before_session" "hooked_before_session" 12 .sessionBefore
      (fun _ _ _ start _ => start) none ∧
    DispatchSpec K "_trigger_event_after_session" "hooked_after_session" 12 .sessionAfter
      (fun _ _ _ start steps => start + steps - 1) none :=
  ⟨dispatch_src_market_before_plain, dispatch_src_market_before_index, dispatch_src_market_after_plain,
   dispatch_src_market_after_index, dispatch_src_order_before, dispatch_src_order_after, dispatch_src_cancel_before,
   dispatch_src_cancel_after, dispatch_src_execution_after, dispatch_src_session_before, dispatch_src_session_after⟩

/-- **`_add_event` is the model's `register`** (a hook with a repeated time is filed once per distinct
time; without a list under `None`; with an empty list nowhere; a hook object registered before is refused) -/
theorem source_add_event_is_model :
    AddEventSpec K hN1 ∧ AddEventSpec K hN2 ∧ AddEventSpec K hN3 ∧ AddEventSpec K hDup :=
  ⟨add_event_src_1, add_event_src_2, add_event_src_3, add_event_src_dup⟩

/-- spelled out: at time 5 the index market's before-step occurrence invokes event 0 (always-hook) and
event 1 (listed `[3, 5, 3]`, index markets only) — **once**, although 5 … 3 repeats in its list —, and not
the hook bound to the instance of market 0; at time 4 the always-hook only -/
theorem source_step_dispatch_examples (t5 tlog start steps : Int) :
    resultG handlerObs (rhoS (K := K) t5 5 tlog start steps) envS FUEL "Simulator._trigger_event_before_step_for_market"
        [.ref 3, .ref 6] (stS tblS)
      = .tuple [.tuple [.str "hooked_before_step_for_market", .ref 60, .tuple [.ref 3, .ref 6]],
                .tuple [.str "hooked_before_step_for_market", .ref 61, .tuple [.ref 3, .ref 6]]] ∧
    resultG handlerObs (rhoS (K := K) t5 4 tlog start steps) envS FUEL "Simulator._trigger_event_before_step_for_market"
        [.ref 3, .ref 6] (stS tblS)
      = .tuple [.tuple [.str "hooked_before_step_for_market", .ref 60, .tuple [.ref 3, .ref 6]]] := by
  constructor
  · exact (dispatch_src_market_before_index t5 5 tlog start steps).trans rfl
  · exact (dispatch_src_market_before_index t5 4 tlog start steps).trans (by
      rw [dispatch_of_not_listed _ _ _ _ (by simp [tblS])]; rfl)

end Pams.C13

namespace Pams.C06
variable {K : Type} [LinearOrder K] [NumOpsC K]

/-- **`_update_times_on_markets` advances plain markets before index markets**, whatever the order of the
list it is given (the model's `ticks`): an index market never reads a component clock that is behind -/
theorem source_clock_order (ρ : Rho K) :
    resultG handlerObs ρ envT FUEL "Simulator._update_times_on_markets" [.ref 3, .list [.ref 6, .ref 5]] (stS tblS)
      = tickObs (Runner.ticks [(1, true), (0, false)]) ∧
    resultG handlerObs ρ envT FUEL "Simulator._update_times_on_markets" [.ref 3, .list [.ref 5, .ref 6]] (stS tblS)
      = tickObs (Runner.ticks [(0, false), (1, true)]) :=
  ⟨ticks_src_index_first ρ, ticks_src_plain_first ρ⟩

end Pams.C06
