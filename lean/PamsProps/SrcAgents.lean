/-
C20 on the *current source text* of the built-in agents (translated on every run into `PamsGen.Code`):
`ArbitrageAgent.submit_orders` / `_submit_orders`, `MarketMakerAgent.submit_orders` and
`FCNAgent.submit_orders_by_market` (fixed margin) emit exactly the orders of the models of
PamsModel/Agents.lean — by symbolic execution, for every value of the prices, weights, thresholds, clocks
and draws.  The theorems of C20.lean about the models over ℝ (side iff sign of the expected return, shaded
quotes, symmetric market-maker quotes, hedged arbitrage basket, strict thresholds) thereby speak about this
code.
-/
import PamsLemmas.SrcAgentsFcn
import PamsProps.C20
import Batteries.Tactic.Alias

open Pams Pams.Py Pams.Agents Pams.Src

namespace Pams.C20

section Uninterpreted
variable {K : Type} [LinearOrder K] [NumOpsC K]

/-- **the arbitrage agent's source is `arbOrders (arbSide …)`**: nothing unless the index market is
accessible and it and its components run; else, iff the gap between index and index-market price exceeds
the threshold *strictly*, one order for the index market at its price for `#components × volume` and one
opposite order of `volume` per component at the component's price — both sides of the basket in one
activation; components with unequal share counts are refused -/
theorem source_arbitrage_is_model (v ttl : Nat) (th idx ip p0 p1 : K) (s0 s1 : Int)
    (accessible running allRunning : Bool) :
    resultG ordersObs (rhoArb v ttl th idx ip p0 p1 s0 s1 accessible running allRunning) arbEnv FUEL
        "ArbitrageAgent.submit_orders" [.ref 1, .list [.ref 5, .ref 9]] arbSt
      = arbExpected v ttl th idx ip p0 p1 s0 s1 accessible running allRunning :=
  arb_src v ttl th idx ip p0 p1 s0 s1 accessible running allRunning

/-- **the market maker's source is `mmOrders`** around what `get_base_price` answers, or around the market
price when it answers `None` -/
theorem source_market_maker_is_model (ttl : Nat) (spread base mp fund : K) :
    resultG mmObs (rhoMm ttl spread base mp fund) (mmEnv true) FUEL "MarketMakerAgent.submit_orders"
        [.ref 1, .list [.ref 5, .ref 6]] mmSt
      = .tuple [.tuple ((mmOrders base fund spread (PyNum.ofInt 1 / PyNum.ofInt 2) ttl).map (aorderObs 0)),
                .tuple [.tuple [.tuple [.ref 5, .ref 6]]]] ∧
    resultG mmObs (rhoMm ttl spread base mp fund) (mmEnv false) FUEL "MarketMakerAgent.submit_orders"
        [.ref 1, .list [.ref 5, .ref 6]] mmSt
      = .tuple [.tuple ((mmOrders mp fund spread (PyNum.ofInt 1 / PyNum.ofInt 2) ttl).map (aorderObs 0)),
                .tuple [.tuple [.tuple [.ref 5, .ref 6]]]] :=
  ⟨mm_src_base ttl spread base mp fund, mm_src_no_base ttl spread base mp fund⟩

/-- **the FCN agent's source (fixed margin) is the documented formula** `fcnSrcOrders`, on every one of the
135 paths of the translated function -/
theorem source_fcn_is_formula (t window mrt : Nat) (wf wc wn ns margin fund mp mpPast g : K) (cf : Bool)
    (hpos : ∀ n : Int, 0 < n → (NumOpsC.ofInt n : K) ≠ NumOpsC.ofInt 0)
    (hmp : mp ≠ NumOpsC.ofInt 0) (hpast : mpPast ≠ NumOpsC.ofInt 0) (hw : wf + wc + wn ≠ NumOpsC.ofInt 0)
    (hwf : (NumOpsC.ofInt 0 : K) ≤ wf) (hwc : (NumOpsC.ofInt 0 : K) ≤ wc) (hwn : (NumOpsC.ofInt 0 : K) ≤ wn)
    (hm0 : (NumOpsC.ofInt 0 : K) ≤ margin) (hm1 : margin ≤ NumOpsC.ofInt 1) :
    resultG ordersObs (rhoFcn t window mrt wf wc wn ns margin fund mp mpPast g true cf) fcnEnv FUEL
        "FCNAgent.submit_orders_by_market" [.ref 1, .ref 5] fcnSt
      = .tuple ((fcnSrcOrders t window mrt wf wc wn ns margin fund mp mpPast g cf).map (aorderObs 0)) :=
  fcn_src t window mrt wf wc wn ns margin fund mp mpPast g cf hpos hmp hpast hw hwf hwc hwn hm0 hm1

theorem source_fcn_inaccessible (t window mrt : Nat) (wf wc wn ns margin fund mp mpPast g : K) (cf : Bool) :
    resultG ordersObs (rhoFcn t window mrt wf wc wn ns margin fund mp mpPast g false cf) fcnEnv FUEL
        "FCNAgent.submit_orders_by_market" [.ref 1, .ref 5] fcnSt = .tuple [] :=
  fcn_src_inaccessible t window mrt wf wc wn ns margin fund mp mpPast g cf

/-- **the market-share FCN agent's source**: candidates = the accessible markets, weights = traded volume over
the last `time_window_size` steps up to now (cut at time 0) plus 1e-10, handed to `choices`; the FCN order is
made for the market drawn, and only for it -/
alias source_market_share_weights := ms_src

/-- **the market maker's base price on the source**: mean of the highest accessible best bid and the lowest
accessible best ask, `None` if either side is missing among the accessible markets -/
alias source_market_maker_base_price := bp_src

/-- the normal-margin mode: same expected price and sides, quote `E + gauss · margin`, refused if negative -/
alias source_fcn_normal_margin := fcn_src_normal

end Uninterpreted

/-! ### at the reals: the source's formula is the model's -/

/-- the real operations as the operations the translated code uses -/
@[reducible] noncomputable def realOps : NumOpsC ℝ :=
  { add := (· + ·), sub := (· - ·), mul := (· * ·), div := (· / ·), neg := (- ·), ofInt := fun i => (i : ℝ),
    floor := fun x => ⌊x⌋, ceil := fun x => ⌈x⌉, fmod := fun a _ => a, exp := Real.exp, log := Real.log,
    sqrt := Real.sqrt }

/-- **over ℝ the source's expected log return is the model's `fcnLogReturn`** (the source multiplies the
chart term by ±1, the model negates; windows `max(mrt,1)` and `max(min(t,window),1)`) -/
theorem source_fcn_log_return_real (mp fund mpPast wf wc wn noise : ℝ) (tw mrt : Nat) (cf : Bool) :
    @fcnLogReturnSrc ℝ _ realOps mp fund mpPast wf wc wn noise tw mrt cf
      = @fcnLogReturn ℝ realArith mp fund mpPast wf wc wn noise tw mrt cf := by
  have h1 : (if mrt < 1 then 1 else mrt : Nat) = Nat.max mrt 1 := by
    simp only [Nat.max_def]; split <;> split <;> omega
  have h2 : (if tw < 1 then 1 else tw : Nat) = Nat.max tw 1 := by
    simp only [Nat.max_def]; split <;> split <;> omega
  unfold fcnLogReturnSrc fcnLogReturn
  rw [h1, h2]
  change ((1 : ℤ) : ℝ) / (wf + wc + wn) *
      (wf * (((1 : ℤ) : ℝ) / (((mrt.max 1 : ℕ) : ℤ) : ℝ) * Real.log (fund / mp)) +
        wc * (((1 : ℤ) : ℝ) / (((tw.max 1 : ℕ) : ℤ) : ℝ) * Real.log (mp / mpPast)) *
          (((if cf = true then 1 else -1 : ℤ)) : ℝ) + wn * noise) =
    (1 : ℝ) / (wf + wc + wn) *
      ((wf * ((1 : ℝ) / ((mrt.max 1 : ℕ) : ℝ) * Real.log (fund / mp)) +
        if cf = true then wc * ((1 : ℝ) / ((tw.max 1 : ℕ) : ℝ) * Real.log (mp / mpPast))
        else -(wc * ((1 : ℝ) / ((tw.max 1 : ℕ) : ℝ) * Real.log (mp / mpPast)))) + wn * noise)
  cases cf <;> simp <;> ring

end Pams.C20
