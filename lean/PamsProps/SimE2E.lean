/-
End-to-end theorems: the properties of the matching engine, of the clocks and of the execution
gate, for the markets *inside* a whole simulation (`PamsModel/Sim.lean`: the scheduler model
driving the market model; agents' requests, permutations, draws, fundamental prices and what
event handlers do to the execution switches are universally quantified).

The bridge is `Sim.run_tracks`: whatever the scheduler does to market `k` during a run is a history
of market operations from the market's initial state, and the records written for `k` are that
history's records; `Sim.run_validOps`: the operations are valid when the submitted orders are.
Every history theorem of C01–C04, C06, C08 therefore applies to every market of every simulation.
-/
import PamsLemmas.SimLemmas
import PamsLemmas.SimTrace
import PamsLemmas.AccountLemmas
import PamsProps.C01
import PamsProps.C03
import PamsProps.C04
import PamsProps.C05
import PamsProps.C11
import PamsProps.C16

namespace Pams

variable {P : Type} [LinearOrder P]

open Pams.Sim Pams.Runner

/-! ### C06 — one clock for all markets of a simulation -/
namespace C06

/-- After `n` completed steps every market that is configured (once) has advanced by exactly `n`:
all markets share the runner's step counter.  (`n` is arbitrary, so this describes the clocks at
every step boundary of a session, not only at its end.) -/
theorem sim_steps_lockstep (po : Nat → PriceOps P) (ms : Markets) (cfg : SessionCfg) (t : Nat) (s : State P)
    (flag : Bool) (tapes : List (StepTape P)) (n : Nat) (k : Nat)
    (hok : (runSteps po ms cfg t s flag tapes n).out.ok = true) (hk : (ms.map (·.1)).count k = 1) :
    ((runSteps po ms cfg t s flag tapes n).st.mkt k).time = (s.mkt k).time + n := by
  have h := runSteps_tracks po ms cfg t s flag tapes n k
  have ht := runOps_time (po k) (s.mkt k) (opsFor k (runSteps po ms cfg t s flag tapes n).ops)
  rw [h] at ht
  simp only at ht
  rw [ht, runSteps_ticks po ms cfg t s flag tapes n k hok, hk]
  omega

/-- At the end of a completed run every configured market's clock equals the total number of steps
of all sessions; an unconfigured id never moves. -/
theorem sim_clock (po : Nat → PriceOps P) (ms : Markets) (price : Nat → P) (fund0 : Nat → Option P)
    (cfgs : List SessionCfg) (tapes : List (List (StepTape P)))
    (hok : (run po ms price fund0 cfgs tapes).out.ok = true) (k : Nat) :
    ((run po ms price fund0 cfgs tapes).st.mkt k).time = totalSteps cfgs * (ms.map (·.1)).count k := by
  have h := run_tracks po ms price fund0 cfgs tapes k
  have ht := runOps_time (po k) (Market.init (po k) (price k) (fund0 k))
    (opsFor k (run po ms price fund0 cfgs tapes).ops)
  rw [h] at ht
  simp only at ht
  rw [ht]
  have hok' : (runSessions po ms 0 0 (initState po price fund0) cfgs tapes).out.ok = true := hok
  have := runSessions_ticks po ms 0 0 (initState po price fund0) cfgs tapes k hok'
  simp only [Sim.run] at this ⊢
  rw [this]
  simp [Market.init]

end C06

/-! ### C03 / C01 / C04 — the market invariant and the history theorems inside a simulation -/
namespace C03

/-- every market of every simulation satisfies the market invariant at the end of the run (and, the
tapes being arbitrary, at the end of every prefix of it) -/
theorem sim_inv (po : Nat → PriceOps P) (ms : Markets) (price : Nat → P) (fund0 : Nat → Option P)
    (cfgs : List SessionCfg) (tapes : List (List (StepTape P)))
    (hv : ∀ ts ∈ tapes, ∀ tp ∈ ts, tp.Valid) (k : Nat) :
    Inv ((run po ms price fund0 cfgs tapes).st.mkt k) := by
  have h := run_tracks po ms price fund0 cfgs tapes k
  have := inv_runOps (po k) (Market.init (po k) (price k) (fund0 k)) _ (inv_init _ _ _)
    (opsFor_valid k _ (run_validOps po ms price fund0 cfgs tapes hv))
  rw [h] at this
  exact this

/-- … and in the middle of a step: after any batch of requests, from any state in which the
invariant holds -/
theorem sim_inv_batch (po : Nat → PriceOps P) (t : Nat) (s : State P) (flag : Bool) (qs : List (SReq P))
    (hq : ∀ q ∈ qs, ReqValid q) (hi : ∀ k, Inv (s.mkt k)) (k : Nat) :
    Inv ((processBatch po t s flag qs).st.mkt k) :=
  tracks_inv po s _ (processBatch_tracks po t s flag qs) (processBatch_validOps po t s flag qs hq) hi k

/-- **the matching round of a simulation never raises on a running market**: the scheduler's call
of `_execution` after an accepted request succeeds whenever the request's market is running -/
theorem sim_round_never_raises (po : Nat → PriceOps P) (s : State P) (q : SReq P)
    (hi : Inv (s.mkt q.market)) (hrun : (s.mkt q.market).running = true) :
    ∃ r, roundCall po s q = some r := by
  obtain ⟨⟨m', fs⟩, he⟩ := execution_ok (po q.market) (s.mkt q.market) hi hrun
  unfold roundCall
  rw [he]
  exact ⟨_, rfl⟩

end C03

namespace C04

/-- **accounting identity for every order of every market of every simulation**: the volume
accepted under an id equals its fills plus the volume it currently has, computed from the records
the simulation wrote for that market -/
theorem sim_accounting (po : Nat → PriceOps P) (ms : Markets) (price : Nat → P) (fund0 : Nat → Option P)
    (cfgs : List SessionCfg) (tapes : List (List (StepTape P)))
    (hv : ∀ ts ∈ tapes, ∀ tp ∈ ts, tp.Valid) (k id : Nat) :
    accepted id (recsFor k (run po ms price fund0 cfgs tapes).recs) =
      filledIn id (recsFor k (run po ms price fund0 cfgs tapes).recs) +
        curVol ((run po ms price fund0 cfgs tapes).st.mkt k) id := by
  have h := run_tracks po ms price fund0 cfgs tapes k
  have := accounting_identity (po k) (price k) (fund0 k) (opsFor k (run po ms price fund0 cfgs tapes).ops)
    (opsFor_valid k _ (run_validOps po ms price fund0 cfgs tapes hv)) id
  rw [h] at this
  exact this

end C04

namespace C01

/-- where a fill record of a history comes from: a matching round on the state some prefix of the
history leads to -/
theorem fill_origin (ops : PriceOps P) (m : Market P) (os : List (Op P)) (f : Fill P)
    (hf : Rec.fill f ∈ (m.runOps ops os).2) :
    ∃ pre suf m' fs, os = pre ++ Op.exec :: suf ∧
      (m.runOps ops pre).1.execution ops = .ok (m', fs) ∧ f ∈ fs := by
  induction os generalizing m with
  | nil => simp [Market.runOps] at hf
  | cons o os ih =>
    unfold Market.runOps at hf
    simp only [List.mem_append] at hf
    rcases hf with hf | hf
    · -- the record was written by this very operation: it must be a round
      cases o with
      | exec =>
        simp only [Market.step] at hf
        rcases he : m.execution ops with e | ⟨m', fs⟩
        · rw [he] at hf; simp at hf
        · rw [he] at hf
          simp only [List.mem_map] at hf
          obtain ⟨g, hg, hgf⟩ := hf
          have : g = f := by injection hgf
          subst this
          exact ⟨[], os, m', fs, rfl, by simpa [Market.runOps] using he, hg⟩
      | add r => simp [Market.step] at hf
      | cancel id =>
        simp only [Market.step] at hf
        rcases hc : m.cancel ops id with e | ⟨m', l⟩ <;> rw [hc] at hf <;> simp at hf
      | tick fd => simp [Market.step] at hf
      | jump k fd => simp [Market.step] at hf
      | setRunning b => simp [Market.step] at hf
      | setFund fd => simp [Market.step] at hf
    · obtain ⟨pre, suf, m', fs, h1, h2, h3⟩ := ih (m.step ops o).1 hf
      refine ⟨o :: pre, suf, m', fs, by simp [h1], ?_, h3⟩
      simpa [Market.runOps] using h2

/-- **every fill written for any market in any simulation honours both limits**, and all fills of
its round carry one price: the fill belongs to a matching round on a state reachable by valid
market operations, so `C01.history` applies to it -/
theorem sim_fills_within_limits (po : Nat → PriceOps P) (ms : Markets) (price : Nat → P)
    (fund0 : Nat → Option P) (cfgs : List SessionCfg) (tapes : List (List (StepTape P)))
    (hv : ∀ ts ∈ tapes, ∀ tp ∈ ts, tp.Valid) (k : Nat) (f : Fill P)
    (hf : Rec.fill f ∈ recsFor k (run po ms price fund0 cfgs tapes).recs) :
    ∃ (pre : List (Op P)) (fs : List (Fill P)), f ∈ fs ∧ (∀ g ∈ fs, g.price = f.price) ∧
      ∃ b ∈ ((Market.init (po k) (price k) (fund0 k)).runOps (po k) pre).1.buys,
      ∃ s ∈ ((Market.init (po k) (price k) (fund0 k)).runOps (po k) pre).1.sells,
        b.id = f.buyId ∧ s.id = f.sellId ∧
        (∀ pb, b.price = some pb → f.price ≤ pb) ∧ (∀ ps, s.price = some ps → ps ≤ f.price) := by
  have h := run_tracks po ms price fund0 cfgs tapes k
  have hvo := opsFor_valid k _ (run_validOps po ms price fund0 cfgs tapes hv)
  have hf' : Rec.fill f ∈ ((Market.init (po k) (price k) (fund0 k)).runOps (po k)
      (opsFor k (run po ms price fund0 cfgs tapes).ops)).2 := by rw [h]; exact hf
  obtain ⟨pre, suf, m', fs, hos, he, hmem⟩ := fill_origin (po k) _ _ f hf'
  have hvpre : ∀ o ∈ pre, o.valid := fun o ho => hvo o (by rw [hos]; simp [ho])
  obtain ⟨h1, h2⟩ := history (po k) (price k) (fund0 k) pre hvpre m' fs he
  obtain ⟨b, hb, s, hs, hrest⟩ := h2 f hmem
  exact ⟨pre, fs, hmem, fun g hg => h1 g hg f hmem, b, hb, s, hs, hrest⟩

end C01

/-! ### C09 / C16 — the execution gate, end to end -/
namespace C09

/-- **No trade in a session without order execution**: whatever agents submit in a session
configured with `withOrderExecution = false`, as long as no handler switches execution on, no fill
is written for any market, no matching round is run and the session flag is still off at the end. -/
theorem sim_session_without_execution (po : Nat → PriceOps P) (ms : Markets) (k : Nat) (cfg : SessionCfg)
    (start : Nat) (s : State P) (tapes : List (StepTape P)) (hx : cfg.execution = false)
    (hr : ∀ tp ∈ tapes, tp.NoResume) :
    (∀ x ∈ (runSession po ms k cfg start s tapes).recs, ∀ f, x.2 ≠ Rec.fill f) ∧
    (∀ x ∈ (runSession po ms k cfg start s tapes).ops, x.2 ≠ Op.exec) ∧
    (runSession po ms k cfg start s tapes).out.flag = false := by
  have h := runSession_quiet po ms k cfg start s tapes hx hr
  refine ⟨?_, h.2.2.2, h.2.1⟩
  intro x hx' f hf
  have := h.1 x hx'
  rw [hf] at this
  simp [isFill] at this

/-- … and hence every order of every market keeps its whole volume through such a session: the
filled volume computed from the session's records is zero -/
theorem sim_session_without_execution_filled (po : Nat → PriceOps P) (ms : Markets) (k : Nat)
    (cfg : SessionCfg) (start : Nat) (s : State P) (tapes : List (StepTape P)) (hx : cfg.execution = false)
    (hr : ∀ tp ∈ tapes, tp.NoResume) (mk id : Nat) :
    filledIn id (recsFor mk (runSession po ms k cfg start s tapes).recs) = 0 := by
  have h := (sim_session_without_execution po ms k cfg start s tapes hx hr).1
  generalize (runSession po ms k cfg start s tapes).recs = recs at h ⊢
  induction recs with
  | nil => rfl
  | cons x recs ih =>
    obtain ⟨m, r⟩ := x
    have hr' := h (m, r) (by simp)
    have ih' := ih (fun y hy => h y (by simp [hy]))
    rw [recsFor_cons]
    split
    · cases r with
      | fill f => exact absurd rfl (hr' f)
      | order l => simpa [filledIn] using ih'
      | cancel l => simpa [filledIn] using ih'
      | expiry l => simpa [filledIn] using ih'
    · exact ih'

end C09

namespace C16

/-- **Every fill of every simulation was produced while its market was running**: the fill belongs
to a matching round on a state, reachable by the market operations of some prefix of the run, in
which `running = true`.  A halted market therefore records no fill until it is switched on again. -/
theorem sim_fills_only_while_running (po : Nat → PriceOps P) (ms : Markets) (price : Nat → P)
    (fund0 : Nat → Option P) (cfgs : List SessionCfg) (tapes : List (List (StepTape P)))
    (k : Nat) (f : Fill P) (hf : Rec.fill f ∈ recsFor k (Sim.run po ms price fund0 cfgs tapes).recs) :
    ∃ pre suf, opsFor k (Sim.run po ms price fund0 cfgs tapes).ops = pre ++ Op.exec :: suf ∧
      ((Market.init (po k) (price k) (fund0 k)).runOps (po k) pre).1.running = true := by
  have h := run_tracks po ms price fund0 cfgs tapes k
  have hf' : Rec.fill f ∈ ((Market.init (po k) (price k) (fund0 k)).runOps (po k)
      (opsFor k (Sim.run po ms price fund0 cfgs tapes).ops)).2 := by rw [h]; exact hf
  obtain ⟨pre, suf, m', fs, hos, he, hmem⟩ := C01.fill_origin (po k) _ _ f hf'
  exact ⟨pre, suf, hos, fills_only_running (po k) _ m' fs he (List.ne_nil_of_mem hmem)⟩

end C16

/-! ### C05 / C11 — who is debited, credited and notified is who the matching engine paired -/
namespace C11

theorem rfills_parties (q : SReq P) (base i : Nat) (fs : List (Fill P)) :
    (rfills q base i fs).map (fun r => (r.buyer, r.seller)) = fs.map (fun f => (f.buyAgent, f.sellAgent)) ∧
    (rfills q base i fs).map (·.ref) = (List.range fs.length).map (fun j => base + i + j) := by
  induction fs generalizing i with
  | nil => simp [rfills]
  | cons f fs ih =>
    have := ih (i + 1)
    simp only [rfills, List.map_cons, this.1, List.length_cons, List.range_succ_eq_map, List.map_map]
    refine ⟨trivial, ?_⟩
    rw [this.2]
    simp only [List.map_cons, Nat.add_zero, List.map_map, List.cons.injEq, true_and]
    apply List.map_congr_left
    intro j _
    simp only [Function.comp]
    omega

/-- In the closed loop, a request accepted while execution is on is followed by exactly one round on
its market; the ledger event of that round lists one reference per fill the matching engine
produced, in order (fresh consecutive numbers), and the agents notified are, fill by fill, the
buyer and the seller the engine paired — the scheduler adds and drops nobody. -/
theorem sim_round_parties (po : Nat → PriceOps P) (t : Nat) (s s1 : State P) (q : SReq P)
    (r1 : List (MRec P)) (o1 : List (MOp P)) (m' : Market P) (fs : List (Fill P))
    (hm : marketCall po s q = some (s1, r1, o1))
    (he : (s1.mkt q.market).execution (po q.market) = .ok (m', fs)) :
    ∃ rf : List RFill,
      callbacks (Sim.processRequest po t s true q).out.tr =
        (if q.isCancel then [Ev.cbCanceled q.owner q.ref] else [Ev.cbSubmitted q.owner q.ref]) ++ fillCallbacks rf ∧
      rf.map (fun r => (r.buyer, r.seller)) = fs.map (fun f => (f.buyAgent, f.sellAgent)) ∧
      rf.map (·.ref) = (List.range fs.length).map (fun j => s1.nfill + j) ∧
      (Sim.processRequest po t s true q).recs = r1 ++ fs.map (fun f => (q.market, Rec.fill f)) := by
  refine ⟨rfills q s1.nfill 0 fs, ?_, (rfills_parties q s1.nfill 0 fs).1, ?_, ?_⟩
  · unfold Sim.processRequest
    simp only
    rw [request_callbacks]
    unfold resolve roundCall
    simp [hm, he, baseRequest]
  · simpa using (rfills_parties q s1.nfill 0 fs).2
  · unfold Sim.processRequest resolve roundCall
    simp [hm, he]

end C11

/-! ### C05 / C11 — exactly once, over a whole run -/
namespace C05

/-- **Every fill of a simulation is applied to the ledger exactly once.**  The fills of a run are
numbered `0 … N−1` in the order the matching engine produced them (`N` = number of fill records the
markets wrote); the ledger updates of the whole run, concatenated, list exactly `0, 1, …, N−1`: no
fill is skipped, none is applied twice, none is applied out of order. -/
theorem sim_every_fill_applied_once (po : Nat → PriceOps P) (ms : Markets) (price : Nat → P)
    (fund0 : Nat → Option P) (cfgs : List SessionCfg) (tapes : List (List (StepTape P))) :
    ledgerRefs (Sim.run po ms price fund0 cfgs tapes).out.tr =
      List.range (countFills (Sim.run po ms price fund0 cfgs tapes).recs) := by
  rw [← run_counted]
  exact (run_fresh po ms price fund0 cfgs tapes).1

theorem sim_ledger_refs_nodup (po : Nat → PriceOps P) (ms : Markets) (price : Nat → P)
    (fund0 : Nat → Option P) (cfgs : List SessionCfg) (tapes : List (List (StepTape P))) :
    (ledgerRefs (Sim.run po ms price fund0 cfgs tapes).out.tr).Nodup := by
  rw [sim_every_fill_applied_once]
  exact List.nodup_range

end C05

namespace C11

/-- **Every fill of a simulation is notified exactly twice** (to its buyer and to its seller; twice
to the same agent for a self-trade), in fill order, over the whole run. -/
theorem sim_every_fill_notified_twice (po : Nat → PriceOps P) (ms : Markets) (price : Nat → P)
    (fund0 : Nat → Option P) (cfgs : List SessionCfg) (tapes : List (List (StepTape P))) :
    cbRefs (Sim.run po ms price fund0 cfgs tapes).out.tr =
      dup (List.range (countFills (Sim.run po ms price fund0 cfgs tapes).recs)) := by
  rw [← run_counted]
  exact (run_fresh po ms price fund0 cfgs tapes).2

end C11

/-! ### C13 / C10 — hook dispatches and records, one per occurrence, over a whole run -/
namespace C13

/-- **Over a whole simulation every occurrence triggers exactly one dispatch of its kind, in
order**: the before-order dispatches carry the same sequence of order references as the
`_add_order` calls, the before-cancel dispatches as the `_cancel_order` calls, the after-order /
after-cancel dispatches as the owners' notifications (i.e. the accepted ones), and the
after-execution dispatches carry exactly the fills `0 … N−1` the ledger was updated with. -/
theorem sim_hooks_paired (po : Nat → PriceOps P) (ms : Markets) (price : Nat → P)
    (fund0 : Nat → Option P) (cfgs : List SessionCfg) (tapes : List (List (StepTape P))) :
    let tr := (Sim.run po ms price fund0 cfgs tapes).out.tr
    tr.flatMap hookOrderBeforeRef = tr.flatMap addRef ∧
    tr.flatMap hookCancelBeforeRef = tr.flatMap cancelRef ∧
    tr.flatMap hookOrderAfterRef = tr.flatMap cbSubmittedRef ∧
    tr.flatMap hookCancelAfterRef = tr.flatMap cbCanceledRef ∧
    tr.flatMap hookExecRef = tr.flatMap ledgerRef :=
  paired_of_built (run_built po ms price fund0 cfgs tapes)

theorem ledgerRef_eq (tr : List Ev) : tr.flatMap ledgerRef = ledgerRefs tr := by
  induction tr with
  | nil => rfl
  | cons e es ih => cases e <;> simp [List.flatMap_cons, ledgerRef, ledgerRefs, ih]

/-- the after-execution dispatches of a run name every fill exactly once -/
theorem sim_exec_hook_once_per_fill (po : Nat → PriceOps P) (ms : Markets) (price : Nat → P)
    (fund0 : Nat → Option P) (cfgs : List SessionCfg) (tapes : List (List (StepTape P))) :
    (Sim.run po ms price fund0 cfgs tapes).out.tr.flatMap hookExecRef =
      List.range (countFills (Sim.run po ms price fund0 cfgs tapes).recs) := by
  rw [(sim_hooks_paired po ms price fund0 cfgs tapes).2.2.2.2, ledgerRef_eq]
  exact C05.sim_every_fill_applied_once po ms price fund0 cfgs tapes

end C13

namespace C10

/-- **One record per event over a whole run**: the order records written equal in number the
accepted submissions (each notified to its owner), the cancel records the accepted cancellations,
and the fill records the fills applied to the ledger. -/
theorem sim_one_record_per_event (po : Nat → PriceOps P) (ms : Markets) (price : Nat → P)
    (fund0 : Nat → Option P) (cfgs : List SessionCfg) (tapes : List (List (StepTape P))) :
    nOrders (Sim.run po ms price fund0 cfgs tapes).recs =
      ((Sim.run po ms price fund0 cfgs tapes).out.tr.flatMap cbSubmittedRef).length ∧
    nCancels (Sim.run po ms price fund0 cfgs tapes).recs =
      ((Sim.run po ms price fund0 cfgs tapes).out.tr.flatMap cbCanceledRef).length ∧
    countFills (Sim.run po ms price fund0 cfgs tapes).recs =
      (ledgerRefs (Sim.run po ms price fund0 cfgs tapes).out.tr).length := by
  have h := run_logged po ms price fund0 cfgs tapes
  refine ⟨h.1, h.2, ?_⟩
  rw [C05.sim_every_fill_applied_once]
  simp

end C10

/-! ### non-vacuity: a concrete two-agent simulation in which a trade happens -/
namespace SimDemo

def po : Nat → PriceOps Nat := fun _ => C01.natOps

def sell : SReq Nat :=
  { owner := 1
    market := 0
    isCancel := false
    ref := 0
    marketOk := true
    stamped := false
    req := { agent := 1, isBuy := false, price := some 100, vol := 2, ttl := none }
    cancelId := 0
    fx := fun _ => Fx.none }

def buy : SReq Nat :=
  { owner := 2
    market := 0
    isCancel := false
    ref := 1
    marketOk := true
    stamped := false
    req := { agent := 2, isBuy := true, price := some 101, vol := 1, ttl := none }
    cancelId := 0
    fx := fun _ => Fx.none }

def tape : Sim.StepTape Nat :=
  { resume := fun _ => StepFx.none, perm := [1, 2],
    answer := fun a => if a = 1 then [sell] else if a = 2 then [buy] else [],
    shuffle := [0, 1], rounds := [], fund := fun _ => some 100 }

def cfg : SessionCfg := { steps := 1, placement := true, execution := true, maxNormal := 5, maxHft := 0 }

def result : SOut Nat := Sim.run po [(0, false)] (fun _ => 100) (fun _ => some 100) [cfg] [[tape]]

def fillsOf (l : List (MRec Nat)) : List (Nat × Nat × Nat × Nat) :=
  l.filterMap (fun x => match x.2 with
    | .fill f => some (x.1, f.price, f.buyAgent, f.sellAgent)
    | _ => none)

/-- the demo run completes, one fill is written (market 0, at the resting sell order's price 100,
buyer 2, seller 1), the ledger lists fill 0 once and the two parties are notified -/
theorem nonvacuous :
    result.out.ok = true ∧ countFills result.recs = 1 ∧ ledgerRefs result.out.tr = [0] ∧
    cbRefs result.out.tr = [0, 0] ∧ (result.st.mkt 0).time = 1 ∧
    fillsOf result.recs = [(0, 100, 2, 1)] :=
  ⟨by decide +kernel, by decide +kernel, by decide +kernel, by decide +kernel, by decide +kernel,
   by decide +kernel⟩

end SimDemo

end Pams
