/-
C14 — Shocks hit only their target market, in their window, with their magnitude.
(The effect of a fundamental shock on the generated path — only the target's value at that step is
scaled, earlier values kept, later values continue from the new level — is `Pams.C12.shock_*`.)
-/
import PamsLemmas.SrcEvents
import PamsLemmas.SourceTie
import PamsModel.Events
import PamsProps.C13
import PamsProps.C15

namespace Pams.C14
open Pams Pams.Events Pams.Hooks

/-- A fundamental price shock registers one before-step hook; with the dispatch of C13 its handler
runs exactly once at each step of its window `[start + trigger, start + trigger + length)` for its
target market, and never for another market or another time. -/
theorem fshock_window (id event sessionStart trigger length target : Nat) (t m : Nat) (isIndex : Bool) :
    (dispatch [fshockHook id event sessionStart trigger length target] .marketBefore t
        (some (m, isIndex))).count (fshockHook id event sessionStart trigger length target) =
      if m = target ∧ sessionStart + trigger ≤ t ∧ t < sessionStart + trigger + length then 1 else 0 := by
  have hd : Pams.C13.Distinct [fshockHook id event sessionStart trigger length target] := by
    simp [Pams.C13.Distinct]
  rw [Pams.C13.dispatch_count _ hd _ (by simp)]
  have h1 : (fshockHook id event sessionStart trigger length target).kind = Kind.marketBefore := rfl
  have h2 : Pams.C13.timeOK (fshockHook id event sessionStart trigger length target) t =
      decide (sessionStart + trigger ≤ t ∧ t < sessionStart + trigger + length) := by
    rw [Bool.eq_iff_iff]
    simp only [Pams.C13.timeOK, fshockHook, List.contains_iff_mem, List.mem_map, List.mem_range,
      decide_eq_true_eq]
    constructor
    · rintro ⟨i, hi, he⟩; omega
    · intro h; exact ⟨t - (sessionStart + trigger), by omega, by omega⟩
  have h3 : filterOK (fshockHook id event sessionStart trigger length target) (some (m, isIndex)) =
      decide (target = m) := by
    simp [filterOK, fshockHook]
  rw [h2, h3]
  by_cases hm : m = target
  · subst hm; simp [h1]
  · have : ¬ target = m := fun e => hm e.symm
    simp [h1, hm, this]

/-- it is not invoked for other occasions at all -/
theorem fshock_only_market_steps (id event sessionStart trigger length target : Nat) (k : Kind)
    (hk : k ≠ .marketBefore) (t : Nat) (mk : Option (Nat × Bool)) :
    dispatch [fshockHook id event sessionStart trigger length target] k t mk = [] := by
  apply List.eq_nil_iff_forall_not_mem.mpr
  intro h hh
  have := Pams.C13.dispatch_only_registered _ k t mk h hh
  simp only [List.mem_cons, List.not_mem_nil, or_false] at this
  obtain ⟨rfl, hk'⟩ := this
  exact hk hk'.symm

variable {K : Type} [Field K] [LinearOrder K] [IsStrictOrderedRing K]

/-- what the property asks of a dispatch sequence at the trigger time: the first order for the
target market is replaced, every other order (before it or after it, for whatever market) is left
alone -/
def firstTargetOnly (target : Nat) (repl : Mistake K) : List Nat → List (Option (Mistake K))
  | [] => []
  | m :: ms => if m = target then some repl :: ms.map (fun _ => none)
               else none :: firstTargetOnly target repl ms

/-- The order-mistake shock replaces exactly one order, the first one submitted to its target
market at its trigger time, and alters no other order. -/
theorem mistake_first_target_only (target : Nat) (rate : K) (vol ttl : Nat) (price : Nat → K)
    (ms : List Nat) :
    mistakeRun target rate vol ttl price { triggered := false } ms =
      firstTargetOnly target { isBuy := decide ((0 : K) < rate), price := price target * (1 + rate),
                               vol := vol, ttl := ttl } ms := by
  have htrig : ∀ ms : List Nat, mistakeRun target rate vol ttl price { triggered := true } ms =
      ms.map (fun _ => none) := by
    intro ms
    induction ms with
    | nil => rfl
    | cons m ms ih => simp [mistakeRun, mistakeHook, ih]
  induction ms with
  | nil => rfl
  | cons m ms ih =>
    by_cases hm : m = target
    · subst hm
      simp [mistakeRun, mistakeHook, htrig, firstTargetOnly]
    · simp [mistakeRun, mistakeHook, hm, ih, firstTargetOnly]

/-- the replacement: a limit order of the configured volume and lifetime priced at
market price × (1 + rate), buying iff the rate is positive -/
theorem mistake_replacement (target : Nat) (rate : K) (vol ttl : Nat) (mp : K) :
    (mistakeHook target rate vol ttl { triggered := false } target mp).2.map
        (fun x => (x.isBuy, x.price, x.vol, x.ttl)) =
      some (decide ((0 : K) < rate), mp * (1 + rate), vol, ttl) ∧
    (mistakeHook target rate vol ttl { triggered := false } target mp).1.triggered = true := by
  simp [mistakeHook]

/-- orders for other markets are never altered -/
theorem mistake_other_market (target : Nat) (rate : K) (vol ttl : Nat) (s : MistakeState) (m : Nat)
    (mp : K) (hm : m ≠ target) : mistakeHook target rate vol ttl s m mp = (s, none) := by
  simp [mistakeHook, hm]

/-! Non-vacuity -/
theorem nonvacuous :
    (mistakeRun 1 (-(1/10) : ℚ) 10000 5 (fun _ => 300) { triggered := false } [0, 2, 1, 1, 0]).map
      (fun o => o.map (fun x => (x.isBuy, x.price, x.vol, x.ttl))) =
    [none, none, some (false, 270, 10000, 5), none, none] := by
  simp [mistakeRun, mistakeHook]
  norm_num

/-- (T) `OrderMistakeShock.hooked_before_order` in the current sources: target test `==`, side `> 0` -/
theorem source_mistake_hook :
    Pams.Source.opsOf "OrderMistakeShock.hooked_before_order" = ["==", ">"] := by decide


/-! ### (T2) the current source text of the two shocks, by symbolic execution -/
section SourceCode
open Pams.Py Pams.Src
variable {K : Type} [LinearOrder K] [NumOpsC K]

/-- **the source of `OrderMistakeShock.hooked_before_order` is the model's `mistakeHook`** (the
order's side, kind, volume, price, lifetime and the shock's flag after the hook) -/
theorem code_mistake_hook (p rate mp : K) (mkt vol0 ttl vol : Nat) (isBuy trig : Bool) :
    resultG omsObs (rhoOms p rate mp mkt vol0 ttl vol isBuy trig) evEnv FUEL
      "OrderMistakeShock.hooked_before_order" [.ref 3, .ref 7, .ref 1] (omsSt true)
      = (match Events.mistakeHook 5 rate vol ttl { triggered := trig } mkt mp with
         | (s, some m) => .tuple [.bool m.isBuy, .ref 101, .int m.vol, .num m.price, .int m.ttl, .bool s.triggered]
         | (s, none) => .tuple [.bool isBuy, .ref 101, .int vol0, .num p, .none, .bool s.triggered]) :=
  oms_hook p rate mp mkt vol0 ttl vol isBuy trig

/-- **the source of `FundamentalPriceShock.hooked_before_step_for_market`**: inside the window
exactly one `change_fundamental_price(scale = 1 + rate)` on the target; outside it refuses -/
theorem code_fundamental_shock (rate : K) (time trigger length : Nat) :
    resultG callsObs (rhoFps rate time trigger length) evEnv FUEL
      "FundamentalPriceShock.hooked_before_step_for_market" [.ref 3, .ref 7, .ref 5] fpsSt
      = (if trigger ≤ time ∧ time < trigger + length then
           .tuple [.tuple [.str "change_fundamental_price", .ref 5, .num ((NumOpsC.ofInt 1 : K) + rate)]]
         else .err (.raise "AssertionError")) :=
  fps_hook rate time trigger length

end SourceCode

end Pams.C14
