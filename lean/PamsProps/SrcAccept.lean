/-
Property statements about the **translated source** of order acceptance (`Market._add_order` with
everything it calls, as it stands in /repo; meaning given by PamsModel/Py.lean).  They follow from
`Src.add_src_empty` / `Src.add_src_one_resting` (source = model, by symbolic execution) and, for C19,
from the exact-rational theorems of PamsProps/C19.lean through `snapSrc_rat`.
-/
import PamsLemmas.SrcAdd
import PamsProps.C19

set_option linter.unusedSectionVars false
set_option linter.unusedVariables false

namespace Pams.SrcAccept
open Pams Pams.Py Pams.Src

/-- component `i` of an observed tuple -/
def cnth {K : Type} : CObs K → Nat → CObs K
  | .tuple l, i => l.getD i .absent
  | _, _ => .absent

/-- Python's arithmetic on exact rationals: `%` is `a - b·⌊a / b⌋`, `floor` / `ceil` exact -/
@[reducible] def ratOps : NumOpsC ℚ :=
  { add := (· + ·), sub := (· - ·), mul := (· * ·), div := (· / ·), neg := (- ·), ofInt := fun i => (i : ℚ),
    floor := fun x => ⌊x⌋, ceil := fun x => ⌈x⌉, fmod := fun a b => a - b * (⌊a / b⌋ : ℤ),
    exp := id, log := id, sqrt := id }

/-- on exact rationals the snapping the source performs is the model `Tick.snap` of C19 -/
theorem snapSrc_rat (τ p : ℚ) (b : Bool) (hτ : τ ≠ 0) :
    @snapSrc ℚ _ ratOps τ b p = Tick.snap b p τ := by
  unfold snapSrc Tick.snap
  have hg : (@PyNum.fmod ℚ (@pyNumOfOrder ℚ _ ratOps) p τ = @PyNum.ofInt ℚ (@pyNumOfOrder ℚ _ ratOps) 0) ↔
      Tick.onGrid p τ = true := by
    show (p - τ * (⌊p / τ⌋ : ℤ) = ((0 : ℤ) : ℚ)) ↔ _
    rw [C19.onGrid_iff p τ hτ]
    constructor
    · intro h
      have h' : p - τ * (⌊p / τ⌋ : ℤ) = 0 := by simpa using h
      exact ⟨⌊p / τ⌋, by linarith⟩
    · rintro ⟨n, rfl⟩
      rw [mul_div_assoc, div_self hτ, mul_one]
      simp [mul_comm]
  by_cases hon : Tick.onGrid p τ = true
  · rw [if_pos (hg.mpr hon), if_pos hon]
  · rw [if_neg (fun h => hon (hg.mp h)), if_neg hon]
    cases b
    · show ((⌈p / τ⌉ : ℤ) : ℚ) * τ = _
      simp
    · show ((⌊p / τ⌋ : ℤ) : ℚ) * τ = _
      simp

end Pams.SrcAccept

/-! ### C19 -/
namespace Pams.C19
open Pams Pams.Py Pams.Src Pams.SrcAccept
variable {K : Type} [LinearOrder K] [NumOpsC K]

/-- **the price the current source accepts**: the order object's price after `_add_order` (and the price
in the returned log) is the submitted price passed through the source's snapping — `floor(p / tick) ·
tick` for a buy order and `ceil(p / tick) · tick` for a sell order when `p % tick ≠ 0`, `p` itself
otherwise; a market order stays without price. -/
theorem source_accepted_price (m : Market K) (r : Req K) (o : Order K) (tick dflt mp : K)
    (hb : m.buys = []) (hs : m.sells = []) (ht : m.time = 0) (hm : m.cur.mid = none)
    (hmk : m.cur.market = some mp) (htick : tick ≠ NumOpsC.ofInt 0) :
    cnth (resultG addObs (rhoAdd m r o tick dflt) env XFUEL "Market._add_order" [.ref 5, .ref 1]
        (stAdd r.isBuy r.price.isSome r.ttl.isSome false 0 .none m.cur.last.isSome false)) 0
      = cOpt (r.price.map (snapSrc tick r.isBuy)) := by
  rw [add_src_empty m r o tick dflt mp hb hs ht hm hmk htick]
  simp [cnth, modelAddObs, Market.addOrder, srcOpsT]

/-- **on exact rationals the current source never makes a price more aggressive**: a buy order is
accepted at a price `≤` the submitted one and `>` it minus one tick, a sell order at a price `≥` it and
`<` it plus one tick, on the grid, and a price on the grid is accepted unchanged. -/
local instance ratInst : NumOpsC ℚ := ratOps

theorem source_snap_never_more_aggressive (m : Market ℚ) (r : Req ℚ) (o : Order ℚ) (τ p dflt mp : ℚ)
    (hb : m.buys = []) (hs : m.sells = []) (ht : m.time = 0) (hm : m.cur.mid = none)
    (hmk : m.cur.market = some mp) (hτ : 0 < τ) (hp : r.price = some p) :
    ∃ q : ℚ,
      cnth (resultG addObs (rhoAdd m r o τ dflt) env XFUEL
          "Market._add_order" [.ref 5, .ref 1]
          (stAdd r.isBuy r.price.isSome r.ttl.isSome false 0 .none m.cur.last.isSome false)) 0 = .num q ∧
      (if r.isBuy then q ≤ p ∧ p - τ < q else p ≤ q ∧ q < p + τ) ∧ (∃ n : ℤ, q = n * τ) ∧
      ((∃ n : ℤ, p = n * τ) → q = p) := by
  have hτ0 : τ ≠ (NumOpsC.ofInt 0 : ℚ) := by
    show τ ≠ ((0 : ℤ) : ℚ)
    simpa using ne_of_gt hτ
  refine ⟨Tick.snap r.isBuy p τ, ?_, ?_, snap_result_on_grid r.isBuy p τ (ne_of_gt hτ),
    fun h => snap_on_grid_id r.isBuy p τ (ne_of_gt hτ) h⟩
  · rw [source_accepted_price m r o τ dflt mp hb hs ht hm hmk hτ0, hp]
    simp only [Option.map, cOpt]
    rw [snapSrc_rat τ p r.isBuy (ne_of_gt hτ)]
  · cases r.isBuy
    · exact snap_sell_bounds p τ hτ
    · exact snap_buy_bounds p τ hτ

end Pams.C19

/-! ### C02 -/
namespace Pams.C02
open Pams Pams.Py Pams.Src Pams.SrcAccept
variable {K : Type} [LinearOrder K] [NumOpsC K]

/-- **where the current source queues an accepted order**: next to one resting order of its side the
queue after `_add_order` (pop order) is the model's `Book.insert`: the new order (address 1) in front of
the resting one (address 3) exactly when `Order.lt new resting` — market before limit, better price,
earlier acceptance, lower id. -/
theorem source_insertion_priority (m : Market K) (r : Req K) (o : Order K) (tick dflt mp : K)
    (hbook : if r.isBuy then m.buys = [o] ∧ m.sells = [] else m.buys = [] ∧ m.sells = [o])
    (hos : o.isBuy = r.isBuy) (httl : r.ttl = none) (ht : m.time = 0) (hl : m.cur.last = none)
    (hm : m.cur.mid = none) (hmk : m.cur.market = some mp) (htick : tick ≠ NumOpsC.ofInt 0)
    (hoid : o.id ≠ m.nextId) :
    let new : Order K := { id := m.nextId, agent := r.agent, isBuy := r.isBuy,
                           price := r.price.map (snapSrc tick r.isBuy), vol := r.vol, placedAt := m.time, ttl := r.ttl }
    cnth (resultG addObs (rhoAdd m r o tick dflt) env XFUEL "Market._add_order" [.ref 5, .ref 1]
        (stAdd r.isBuy r.price.isSome false false 0 (if o.price.isSome then .limit else .market) false false))
        (if r.isBuy then 3 else 4)
      = .tuple (if new.lt o then [.ref 1, .ref 3] else [.ref 3, .ref 1]) := by
  intro new
  rw [add_src_one_resting m r o tick dflt mp hbook hos httl ht hl hm hmk htick hoid]
  cases hside : r.isBuy
  · rw [hside] at hbook
    simp only [Bool.false_eq_true, if_false] at hbook
    simp [cnth, modelAddObs, Market.addOrder, Market.refresh, srcOpsT, hside, hbook.1, hbook.2, Book.insert, new,
      apply_ite, hoid]
    split <;> simp_all
  · rw [hside] at hbook
    simp only [if_true] at hbook
    simp [cnth, modelAddObs, Market.addOrder, Market.refresh, srcOpsT, hside, hbook.1, hbook.2, Book.insert, new,
      apply_ite, hoid]
    split <;> simp_all

end Pams.C02

/-! ### C04 -/
namespace Pams.C04
open Pams Pams.Py Pams.Src Pams.SrcAccept
variable {K : Type} [LinearOrder K] [NumOpsC K]

/-- **an order object is accepted at most once, and only by the market it names** (current source): an
order that already carries a stamp, or that names another market, makes `_add_order` raise
`ValueError` — nothing is accepted. -/
theorem source_accept_once (m : Market K) (r : Req K) (o : Order K) (tick dflt : K) :
    resultG addObs (rhoAdd m r o tick dflt) env XFUEL "Market._add_order" [.ref 5, .ref 1]
        (stAdd true true false true 0 .none false false) = .err (.raise "ValueError") ∧
    resultG addObs (rhoAdd m r o tick dflt) env XFUEL "Market._add_order" [.ref 5, .ref 1]
        (stAdd true true false false 1 .none false false) = .err (.raise "ValueError") :=
  ⟨add_src_stamped m r o tick dflt, add_src_foreign m r o tick dflt⟩

/-- **the stamps of an acceptance** (current source): the order gets the market's next id and the
current time, the id counter moves by one, the accepted volume and time-to-live are the submitted
ones, and an order with a time-to-live is filed in the expiry index under `time + ttl`. -/
theorem source_accept_stamps (m : Market K) (r : Req K) (o : Order K) (tick dflt mp : K)
    (hb : m.buys = []) (hs : m.sells = []) (ht : m.time = 0) (hm : m.cur.mid = none)
    (hmk : m.cur.market = some mp) (htick : tick ≠ NumOpsC.ofInt 0) :
    let res := resultG addObs (rhoAdd m r o tick dflt) env XFUEL "Market._add_order" [.ref 5, .ref 1]
        (stAdd r.isBuy r.price.isSome r.ttl.isSome false 0 .none m.cur.last.isSome false)
    cnth res 1 = .int m.nextId ∧ cnth res 2 = .int m.time ∧ cnth res 7 = .int (m.nextId + 1 : Nat) ∧
      cnth (cnth res 12) 5 = .int r.vol ∧ cnth (cnth res 12) 7 = cOptNat r.ttl ∧
      cnth res (if r.isBuy then 5 else 6) =
        (match r.ttl with
         | some t => .tuple [.tuple [.int ((m.time : Int) + t)], .tuple [.tuple [.ref 1]]]
         | none => .tuple [.tuple [], .tuple []]) := by
  intro res
  have hres : res = modelAddObs m r (m.addOrder (srcOpsT K tick) r) :=
    add_src_empty m r o tick dflt mp hb hs ht hm hmk htick
  rw [hres]
  cases hside : r.isBuy <;> simp [cnth, modelAddObs, Market.addOrder, Market.refresh, hside, hb, hs] <;>
    (cases r.ttl <;> rfl)

end Pams.C04

/-! ### C08 -/
namespace Pams.C08
open Pams Pams.Py Pams.Src Pams.SrcAccept
variable {K : Type} [LinearOrder K] [NumOpsC K]

/-- **what an acceptance into an empty book does to the step's counters and prices** (current source):
the counter of the order's side grows by one and the other one stays; with one side of the book empty
the mid-quote is `None`; the market price is the last trade price if the market is running and a trade
has happened in this step, and otherwise stays what it was. -/
theorem source_accept_counters_and_prices (m : Market K) (r : Req K) (o : Order K) (tick dflt mp : K)
    (hb : m.buys = []) (hs : m.sells = []) (ht : m.time = 0) (hm : m.cur.mid = none)
    (hmk : m.cur.market = some mp) (htick : tick ≠ NumOpsC.ofInt 0) :
    let res := resultG addObs (rhoAdd m r o tick dflt) env XFUEL "Market._add_order" [.ref 5, .ref 1]
        (stAdd r.isBuy r.price.isSome r.ttl.isSome false 0 .none m.cur.last.isSome false)
    cnth res 8 = .tuple [.int (if r.isBuy then m.cur.nBuy + 1 else m.cur.nBuy : Nat)] ∧
      cnth res 9 = .tuple [.int (if r.isBuy then m.cur.nSell else m.cur.nSell + 1 : Nat)] ∧
      cnth res 10 = .tuple [.none] ∧
      cnth res 11 = .tuple [cOpt (marketRule m.running m.cur.last none m.cur.market)] := by
  intro res
  have hres : res = modelAddObs m r (m.addOrder (srcOpsT K tick) r) :=
    add_src_empty m r o tick dflt mp hb hs ht hm hmk htick
  rw [hres]
  cases hside : r.isBuy <;>
    simp [cnth, modelAddObs, Market.addOrder, Market.refresh, midOf, Book.bestPrice, Book.insert, hside, hb, hs, cOpt]

end Pams.C08
