/-
C01 / C02 at the level of the **translated source**, for a round with two fills: `Market._execution` as
it stands in /repo on a sorted book of two limit buy orders `[a, c]` and one sell order `[b]`
(`Src.execution21_src`, by symbolic execution with order-reasoning path pruning).
-/
import PamsLemmas.SrcMarket21
import PamsProps.SrcAccept

set_option linter.unusedSectionVars false
set_option linter.unusedVariables false
set_option linter.unusedSimpArgs false

namespace Pams.C01
open Pams Pams.Py Pams.Src Pams.SrcAccept
variable {K : Type} [LinearOrder K] [NumOpsC K]

/-- **source = model for a round over two bids and one ask** (restated from `Src.execution21_src`). -/
theorem source_round_two_bids (m : Market K) (a c b : Order K) (pa pc pb mp dflt : K)
    (hb : m.buys = [a, c]) (hs : m.sells = [b]) (ha : a.isBuy = true) (hc : c.isBuy = true) (hbs : b.isBuy = false)
    (hpa : a.price = some pa) (hpc : c.price = some pc) (hpb : b.price = some pb) (ht : m.time = 0)
    (hl : m.cur.last = none) (hmid : m.cur.mid = none) (hmk : m.cur.market = some mp)
    (hva : a.vol ≠ 0) (hvc : c.vol ≠ 0) (hvb : b.vol ≠ 0) (hab : a.id ≠ b.id) (hcb : c.id ≠ b.id) (hac : a.id ≠ c.id)
    (hr : m.running = true) (h2 : (NumOpsC.ofInt 2 : K) ≠ NumOpsC.ofInt 0) (hprio : outranks a c pa pc) :
    resultG execObs21 (rhoM21 m a c b dflt) env 300 "Market._execution" [.ref 5] (st21 true)
      = modelObs21 a c (Market.execution (srcOps K) m) :=
  execution21_src m a c b pa pc pb mp dflt hb hs ha hc hbs hpa hpc hpb ht hl hmid hmk hva hvc hvb hab hcb hac hr h2 hprio

/-- **all fills of one round carry one common price, the one of the last matched pair** (current
source): when the ask `b` is larger than the best bid `a` and still crosses the next bid `c`, the round
returns exactly two fills — `a` for its whole volume, then `c` — and *both* carry `pairPrice c b`, the
price the second pair proposes (the earlier-accepted of `c` and `b`); that price lies within the limits
of all three orders: `pb ≤ price ≤ pc ≤ pa`. -/
theorem source_two_fills_one_price (m : Market K) (a c b : Order K) (pa pc pb mp dflt : K)
    (hb : m.buys = [a, c]) (hs : m.sells = [b]) (ha : a.isBuy = true) (hc : c.isBuy = true) (hbs : b.isBuy = false)
    (hpa : a.price = some pa) (hpc : c.price = some pc) (hpb : b.price = some pb) (ht : m.time = 0)
    (hl : m.cur.last = none) (hmid : m.cur.mid = none) (hmk : m.cur.market = some mp)
    (hva : a.vol ≠ 0) (hvc : c.vol ≠ 0) (hvb : b.vol ≠ 0) (hab : a.id ≠ b.id) (hcb : c.id ≠ b.id) (hac : a.id ≠ c.id)
    (hr : m.running = true) (h2 : (NumOpsC.ofInt 2 : K) ≠ NumOpsC.ofInt 0) (hprio : outranks a c pa pc)
    (hbig : a.vol < b.vol) (hcross : pb ≤ pc) :
    ∃ price : K, pairPrice c b = some price ∧ pb ≤ price ∧ price ≤ pc ∧ pc ≤ pa ∧
      cnth (resultG execObs21 (rhoM21 m a c b dflt) env 300 "Market._execution" [.ref 5] (st21 true)) 0 =
        .tuple [ .tuple [.num price, .int a.vol, .int a.id, .int b.id, .int a.agent, .int b.agent, .int m.time],
                 .tuple [.num price, .int (min c.vol (b.vol - a.vol) : Nat), .int c.id, .int b.id, .int c.agent,
                         .int b.agent, .int m.time] ] := by
  have hpapc : pc ≤ pa := by
    rcases hprio with h | h | h
    · exact le_of_lt h
    · exact le_of_eq h.1.symm
    · exact le_of_eq h.1.symm
  have hpp : ∃ price, pairPrice c b = some price ∧ pb ≤ price ∧ price ≤ pc := by
    rcases b with ⟨idb, agb, isBuyb, priceb, volb, plb, ttlb⟩
    rcases c with ⟨idc, agc, isBuyc, pricec, volc, plc, ttlc⟩
    simp only at hpc hpb; subst hpc hpb
    simp only [pairPrice]
    split
    · split
      · exact ⟨pc, rfl, hcross, le_refl _⟩
      · exact ⟨pb, rfl, le_refl _, hcross⟩
    · split
      · exact ⟨pc, rfl, hcross, le_refl _⟩
      · exact ⟨pb, rfl, le_refl _, hcross⟩
  obtain ⟨price, hp, h1, h3⟩ := hpp
  refine ⟨price, hp, h1, h3, hpapc, ?_⟩
  rw [execution21_src m a c b pa pc pb mp dflt hb hs ha hc hbs hpa hpc hpb ht hl hmid hmk hva hvc hvb hab hcb hac hr h2 hprio,
    model_round21 m a c b pa pc hb hs hpa hpc hva hvc hvb hab hcb hac hr]
  have hex : remainExecutable [a, c] [b] = true := by
    simp [remainExecutable, hpa, hpb]
    exact le_trans hcross hpapc
  have hnc : noCross c b = false := by simp [noCross, hpc, hpb, hcross]
  have hp1 : ∃ p1, pairPrice a b = some p1 := by
    simp only [pairPrice, hpa, hpb]
    split
    · split <;> exact ⟨_, rfl⟩
    · split <;> exact ⟨_, rfl⟩
  obtain ⟨p1, hp1⟩ := hp1
  have hn1 : ¬ b.vol < a.vol := by omega
  have hn2 : ¬ b.vol = a.vol := by omega
  have hmin : (if c.vol < b.vol - a.vol then c.vol else b.vol - a.vol) = min c.vol (b.vol - a.vol) := by
    split <;> omega
  simp [round21, hex, hp1, hn1, hn2, hnc, hp, obs21, cnth, hmin]

end Pams.C01

namespace Pams.C02
open Pams Pams.Py Pams.Src Pams.SrcAccept
variable {K : Type} [LinearOrder K] [NumOpsC K]

/-- **fills follow priority inside a round** (current source): the second bid `c` receives a fill only
after the best bid `a` has been filled completely — whenever the ask is not larger than `a`, `c` keeps
its whole volume; and when the ask is larger, `a` is left with volume 0. -/
theorem source_round_priority (m : Market K) (a c b : Order K) (pa pc pb mp dflt : K)
    (hb : m.buys = [a, c]) (hs : m.sells = [b]) (ha : a.isBuy = true) (hc : c.isBuy = true) (hbs : b.isBuy = false)
    (hpa : a.price = some pa) (hpc : c.price = some pc) (hpb : b.price = some pb) (ht : m.time = 0)
    (hl : m.cur.last = none) (hmid : m.cur.mid = none) (hmk : m.cur.market = some mp)
    (hva : a.vol ≠ 0) (hvc : c.vol ≠ 0) (hvb : b.vol ≠ 0) (hab : a.id ≠ b.id) (hcb : c.id ≠ b.id) (hac : a.id ≠ c.id)
    (hr : m.running = true) (h2 : (NumOpsC.ofInt 2 : K) ≠ NumOpsC.ofInt 0) (hprio : outranks a c pa pc)
    (hex : pb ≤ pa) :
    let res := resultG execObs21 (rhoM21 m a c b dflt) env 300 "Market._execution" [.ref 5] (st21 true)
    (b.vol ≤ a.vol → cnth res 2 = .int c.vol) ∧ (a.vol < b.vol → cnth res 1 = .int 0) := by
  intro res
  have hres : res = round21 m a c b := by
    show resultG execObs21 _ _ _ _ _ _ = _
    rw [execution21_src m a c b pa pc pb mp dflt hb hs ha hc hbs hpa hpc hpb ht hl hmid hmk hva hvc hvb hab hcb hac hr h2 hprio,
      model_round21 m a c b pa pc hb hs hpa hpc hva hvc hvb hab hcb hac hr]
  rw [hres]
  have hexe : remainExecutable [a, c] [b] = true := by simp [remainExecutable, hpa, hpb, hex]
  have hp1 : ∃ p1, pairPrice a b = some p1 := by
    simp only [pairPrice, hpa, hpb]
    split
    · split <;> exact ⟨_, rfl⟩
    · split <;> exact ⟨_, rfl⟩
  obtain ⟨p1, hp1⟩ := hp1
  constructor
  · intro hle
    rcases Nat.lt_or_eq_of_le hle with h | h
    · simp [round21, hexe, hp1, h, obs21, cnth]
    · have hn : ¬ b.vol < a.vol := by omega
      simp [round21, hexe, hp1, hn, h, obs21, cnth]
  · intro hlt
    have hn1 : ¬ b.vol < a.vol := by omega
    have hn2 : ¬ b.vol = a.vol := by omega
    simp only [round21, hexe, hp1, hn1, hn2, if_false, Bool.true_eq_false]
    by_cases hnc : noCross c b = true
    · simp [hnc, obs21, cnth]
    · have hp2 : ∃ p2, pairPrice c b = some p2 := by
        simp only [pairPrice, hpc, hpb]
        split
        · split <;> exact ⟨_, rfl⟩
        · split <;> exact ⟨_, rfl⟩
      obtain ⟨p2, hp2⟩ := hp2
      simp [hnc, hp2, obs21, cnth]

end Pams.C02
