/-
Line-protocol driver for the built-in event models at `Float` (C14, C15, C16).
  clip <p0> <r> <p>                 -> V <bits>                       (doubles as raw bit patterns)
  haltTest <p0> <rate> <p> <k>      -> V 0|1
  HINIT | HS                        -> (reset halt state | session boundary)
  HF <n> {target}* <m> <running> <crossed> <t>   -> V 0|1   (did the rule halt)
  HB <length> <m> <t>               -> V 0|1   (did the rule resume)
  MINIT                             -> reset mistake state
  MO <target> <rate> <vol> <ttl> <market> <marketPrice>  -> V - | V <isBuy> <priceBits> <vol> <ttl>
-/
import Driver.Proto
import PamsModel.Events

open Pams Pams.Events Proto

def fl (s : String) : Float := Float.ofBits (UInt64.ofNat s.toNat!)

structure St where
  halt : HaltState := HaltState.init
  mistake : MistakeState := { triggered := false }

def stepLine (st : St) (line : String) : St × List String :=
  match tokens line with
  | [] => (st, [])
  | ["clip", p0, r, p] => (st, [s!"V {(clip (fl p0) (fl r) (fl p)).toBits.toNat}"])
  | ["haltTest", p0, rate, p, k] =>
    (st, [s!"V {if haltTest (fl p0) (fl rate) (fl p) k.toNat! then 1 else 0}"])
  | ["HINIT"] => ({ st with halt := HaltState.init }, [])
  | ["HS"] => ({ st with halt := haltNewSession st.halt }, [])
  | "HF" :: n :: rest =>
    let n := n.toNat!
    let targets := (rest.take n).map String.toNat!
    match rest.drop n with
    | [m, running, crossed, t] =>
      let r := haltAfterFill targets st.halt m.toNat! (running = "1") (crossed = "1") t.toNat!
      ({ st with halt := r.1 }, [s!"V {if r.2 then 1 else 0}"])
    | _ => (st, ["E bad HF"])
  | ["HB", length, m, t] =>
    let r := haltBeforeStep length.toNat! st.halt m.toNat! t.toNat!
    ({ st with halt := r.1 }, [s!"V {if r.2 then 1 else 0}"])
  | ["MINIT"] => ({ st with mistake := { triggered := false } }, [])
  | ["MO", target, rate, vol, ttl, market, mp] =>
    let r := mistakeHook target.toNat! (fl rate) vol.toNat! ttl.toNat! st.mistake market.toNat! (fl mp)
    ({ st with mistake := r.1 },
     [match r.2 with
      | none => "V -"
      | some x => s!"V {if x.isBuy then 1 else 0} {x.price.toBits.toNat} {x.vol} {x.ttl}"])
  | t :: _ => (st, [s!"E unknown {t}"])

partial def loop (h : IO.FS.Stream) (st : St) : IO Unit := do
  let line ← h.getLine
  if line.isEmpty then return ()
  let (st', outs) := stepLine st line
  for o in outs do IO.println o
  loop h st'

def main : IO Unit := do loop (← IO.getStdin) {}
