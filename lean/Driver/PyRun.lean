/-
Line-protocol driver for the mini-Python semantics (`PamsModel/Py.lean`) on the translated program
(`PamsGen/Code.lean`), at `K := Float`: concrete runs, to be compared with CPython on the same inputs
(harness/py_checks.py).      lake env lean --run Driver/PyRun.lean < lines

value tokens:  N | B0 | B1 | I<int> | F<bits> | S<text-without-blanks> | R<addr> | L<n> v… | D<n> k v k v …

  HEAP <addr> <n> {<field> <value>}*        define / extend the object at <addr>
  GLOBAL <name> <value>
  EXT <recv-value> <fn> <nargs> <args…> <result-value>      the oracle's answer to one extern call
  EXTANY <recv-value> <fn> <result-value>                   … whatever the arguments
  EXCLUDE <qualified-name>                                  treat a translated function as extern
  RUN <fn> <nargs> <args…> OBS <m> {<addr> <field>}* [RETF <k> {<field>}*]    run, then report the result, the
      listed fields, and (RETF) the listed fields of the object(s) the call returned
      -> RES OK <value> | RES ERR <kind> <text>   then   FLD <addr> <field> <value|->   …   then
         CALLS <k> {<fn>}*   END
  RESET                                    forget heap, globals, oracle
Floats are atoms valued by the valuation (the bit patterns given); ints and bools are literals, so
every branch condition on ints folds and conditions on floats are decided by `denote`.
-/
import Driver.Proto
import PamsGen.Code
import Mathlib.Data.Rat.Floor

open Proto Pams.Py

/-- the exact rational value of a finite double given by its bit pattern -/
def ratOfBits' (b : Nat) : ℚ :=
  let sign : Nat := b / 2 ^ 63
  let e : Nat := (b / 2 ^ 52) % 2048
  let m : Nat := b % 2 ^ 52
  let full : Nat := m + 2 ^ 52
  let v : ℚ := if e = 0 then (m : ℚ) / ((2 ^ 1074 : Nat) : ℚ)
    else if e ≥ 1075 then ((full * 2 ^ (e - 1075) : Nat) : ℚ)
    else (full : ℚ) / ((2 ^ (1075 - e) : Nat) : ℚ)
  if sign = 1 then -v else v

def floatOfRat (q : ℚ) : Float := Float.ofInt q.num / Float.ofNat q.den

/-- Python's float `%` (result has the sign of the divisor), computed exactly -/
def pyFmod (x y : Float) : Float :=
  let a := ratOfBits' x.toBits.toNat
  let b := ratOfBits' y.toBits.toNat
  if b = 0 then 0.0 / 0.0 else
  let m : ℚ := a - b * (⌊a / b⌋ : ℤ)
  floatOfRat m

def floorInt (x : Float) : Int := ⌊ratOfBits' x.toBits.toNat⌋
def ceilInt (x : Float) : Int := ⌈ratOfBits' x.toBits.toNat⌉

instance : PyNum Float where
  beq := fun a b => a == b
  ofInt := Float.ofInt
  floor := floorInt
  ceil := ceilInt
  fmod := pyFmod
  exp := Float.exp
  log := Float.log
  sqrt := Float.sqrt

structure DS where
  heap : List (Nat × String × Val) := []
  globals : List (String × Val) := []
  ext : List (String × Val) := []        -- key (printed recv fn args) ↦ answer
  extAny : List (String × Val) := []     -- key (printed recv fn) ↦ answer, whatever the arguments
  nums : Array Float := #[]
  exclude : List String := []            -- translated functions to be treated as extern

def rhoOf (d : DS) : Rho Float :=
  { i := fun _ => 0, n := fun k => if k = 1000000 then (1.0 / 0.0 : Float) else d.nums.getD k 0.0, b := fun _ => false }

mutual
/-- parse one value; floats become fresh num atoms -/
partial def pVal (d : DS) : List String → Except String (Val × DS × List String)
  | [] => .error "value expected"
  | t :: ts =>
    if t = "N" then .ok (.none, d, ts)
    else if t = "B0" then .ok (.bool (.lit false), d, ts)
    else if t = "B1" then .ok (.bool (.lit true), d, ts)
    else
      let hd := (t.take 1).toString
      let body := (t.drop 1).toString
      if hd == "I" then
        match body.toInt? with
        | some i => .ok (.int (.lit i), d, ts)
        | none => .error s!"bad int {t}"
      else if hd == "F" then
        match body.toNat? with
        | some b => .ok (.num (.atom d.nums.size), { d with nums := d.nums.push (Float.ofBits (UInt64.ofNat b)) }, ts)
        | none => .error s!"bad float {t}"
      else if hd == "S" then .ok (.str body, d, ts)
      else if hd == "R" then
        match body.toNat? with
        | some a => .ok (.ref a, d, ts)
        | none => .error s!"bad ref {t}"
      else if hd == "L" then
        match body.toNat? with
        | some n =>
          (match pVals d n ts with
           | .ok (vs, d, ts) => .ok (.list vs, d, ts)
           | .error e => .error e)
        | none => .error s!"bad list {t}"
      else if hd == "D" then
        match body.toNat? with
        | some n =>
          (match pVals d (2 * n) ts with
           | .ok (kvs, d, ts) =>
             let rec split : List Val → List Val × List Val
               | k :: v :: rest => let (ks, vs) := split rest; (k :: ks, v :: vs)
               | _ => ([], [])
             let (ks, vs) := split kvs
             .ok (.dict ks vs, d, ts)
           | .error e => .error e)
        | none => .error s!"bad dict {t}"
      else .error s!"bad value token {t}"

partial def pVals (d : DS) (n : Nat) (ts : List String) : Except String (List Val × DS × List String) :=
  if n = 0 then .ok ([], d, ts) else
  match pVal d ts with
  | .ok (v, d, ts) =>
    (match pVals d (n - 1) ts with
     | .ok (vs, d, ts) => .ok (v :: vs, d, ts)
     | .error e => .error e)
  | .error e => .error e
end

/-- print a value under the valuation -/
partial def showVal (ρ : Rho Float) : Val → String
  | .none => "N"
  | .bool b => if b.eval ρ then "B1" else "B0"
  | .int i => s!"I{i.eval ρ}"
  | .num x => s!"F{(x.eval ρ).toBits.toNat}"
  | .str s => s!"S{s}"
  | .ref a => s!"R{a}"
  | .list l => s!"L{l.length}" ++ String.join (l.map (fun v => " " ++ showVal ρ v))
  | .dict ks vs => s!"D{ks.length}" ++ String.join ((ks.zip vs).map (fun kv => " " ++ showVal ρ kv.1 ++ " " ++ showVal ρ kv.2))
  | .clo _ => "C"

def showErr : Err → String
  | .raise e => s!"raise {e}"
  | .fuel => "fuel -"
  | .unsupported w => s!"unsupported {w.replace " " "_"}"
  | .unbound x => s!"unbound {x}"

def heapFn (h : List (Nat × String × Val)) : Nat → String → Option Val :=
  fun a f => (h.find? (fun e => e.1 = a ∧ e.2.1 = f)).map (·.2.2)

def callKey (ρ : Rho Float) (recv : Val) (fn : String) (args : List Val) : String :=
  showVal ρ recv ++ " " ++ fn ++ String.join (args.map (fun v => " " ++ showVal ρ v))

def step (d : DS) (line : String) : DS × List String :=
  match tokens line with
  | [] => (d, [])
  | ["RESET"] => ({}, [])
  | "HEAP" :: a :: n :: rest =>
    match a.toNat?, n.toNat? with
    | some a, some n =>
      let rec go (k : Nat) (d : DS) (ts : List String) : Except String DS :=
        if k = 0 then .ok d else
        match ts with
        | f :: ts =>
          (match pVal d ts with
           | .ok (v, d, ts) => go (k - 1) { d with heap := (a, f, v) :: d.heap } ts
           | .error e => .error e)
        | [] => .error "field expected"
      match go n d rest with
      | .ok d => (d, [])
      | .error e => (d, [s!"E {e}"])
    | _, _ => (d, ["E bad HEAP line"])
  | "GLOBAL" :: nm :: rest =>
    match pVal d rest with
    | .ok (v, d, _) => ({ d with globals := (nm, v) :: d.globals }, [])
    | .error e => (d, [s!"E {e}"])
  | "EXT" :: rest =>
    match pVal d rest with
    | .ok (recv, d, fn :: n :: ts) =>
      (match n.toNat? with
       | some n =>
         (match pVals d n ts with
          | .ok (args, d, ts) =>
            (match pVal d ts with
             | .ok (r, d, _) => ({ d with ext := (callKey (rhoOf d) recv fn args, r) :: d.ext }, [])
             | .error e => (d, [s!"E {e}"]))
          | .error e => (d, [s!"E {e}"]))
       | none => (d, ["E bad EXT line"]))
    | .ok _ => (d, ["E bad EXT line"])
    | .error e => (d, [s!"E {e}"])
  | ["EXCLUDE", fn] => ({ d with exclude := fn :: d.exclude }, [])
  | "EXTANY" :: rest =>
    match pVal d rest with
    | .ok (recv, d, fn :: ts) =>
      (match pVal d ts with
       | .ok (r, d, _) => ({ d with extAny := (showVal (rhoOf d) recv ++ " " ++ fn, r) :: d.extAny }, [])
       | .error e => (d, [s!"E {e}"]))
    | .ok _ => (d, ["E bad EXTANY line"])
    | .error e => (d, [s!"E {e}"])
  | "RUN" :: fn :: n :: rest =>
    match n.toNat? with
    | none => (d, ["E bad RUN line"])
    | some n =>
      match pVals d n rest with
      | .error e => (d, [s!"E {e}"])
      | .ok (args, d, ts) =>
        let ρ := rhoOf d
        let extTab := d.ext
        let env : Env :=
          { mro := PamsGen.Code.mroOf,
            prog := PamsGen.Code.prog.filter (fun e => !(d.exclude.contains e.1)),
            globals := fun x => (d.globals.find? (fun e => e.1 = x)).map (·.2),
            ext := fun st recv f as =>
              match extTab.find? (fun e => e.1 = callKey ρ recv f as) with
              | some e => some (e.2, st)
              | none => (d.extAny.find? (fun e => e.1 = showVal ρ recv ++ " " ++ f)).map (fun e => (e.2, st)) }
        let st0 : St := { heap := heapFn d.heap, calls := [] }
        let r := sem ρ env 400 fn args st0
        let (obsToks, retFields) : List String × List String :=
          match ts.span (· ≠ "RETF") with
          | (a, _ :: _ :: fs) => (a, fs)
          | (a, _) => (a, [])
        let obsSpec : List (Nat × String) :=
          match obsToks with
          | "OBS" :: _ :: more =>
            let rec pairs : List String → List (Nat × String)
              | a :: f :: rest => (a.toNat!, f) :: pairs rest
              | _ => []
            pairs more
          | _ => []
        match r with
        | .ok (v, st) =>
          let flds := obsSpec.map (fun af =>
            s!"FLD {af.1} {af.2} " ++ (match st.heap af.1 af.2 with | some w => showVal ρ w | none => "-"))
          let retObjs : List Nat := match v with
            | .ref a => [a]
            | .list l => l.filterMap (fun x => match x with | .ref a => some a | _ => none)
            | _ => []
          let rets := (retObjs.zipIdx).flatMap (fun ai => retFields.map (fun f =>
            s!"RETF {ai.2} {f} " ++ (match st.heap ai.1 f with | some w => showVal ρ w | none => "-")))
          (d, [s!"RES OK {showVal ρ v}"] ++ flds ++ rets ++
              [s!"CALLS {st.calls.length}" ++ String.join (st.calls.reverse.map (fun c => " " ++ c.fn)),
               -- the same calls with receiver and arguments: `fn|recv|arg|arg…`, blanks inside a value as `_`
               s!"CARGS {st.calls.length}" ++ String.join (st.calls.reverse.map (fun c =>
                 " " ++ c.fn ++ "|" ++ (showVal ρ c.recv).replace " " "_" ++
                   String.join (c.args.map (fun a => "|" ++ (showVal ρ a).replace " " "_")))),
               "END"])
        | .error e => (d, [s!"RES ERR {showErr e}", "END"])
  | _ => (d, [s!"E unknown line {line}"])

partial def loop (h : IO.FS.Stream) (d : DS) : IO Unit := do
  let line ← h.getLine
  if line.isEmpty then return ()
  let (d', outs) := step d line
  for o in outs do IO.println o
  loop h d'

def main : IO Unit := do loop (← IO.getStdin) {}
