/-
Line-protocol driver for the market model (correspondence check (H) for C01–C04, C06, C08, C10).

  lake env lean --run Driver/Market.lean < lines

Lines (tokens separated by blanks, `-` = None; prices are monotone integer keys of doubles):
  CASE <id>
  S <time> <running> <nextId> <nb> {order}* <ns> {order}* <ng> {order reason}* <slot> <npast> {slot}*   (past slots, most recent first)
        order := <id> <agent> <isBuy> <price|-> <vol> <placedAt> <ttl|->     reason := 0|1|2
        slot  := <market|-> <last|-> <mid|-> <fund|-> <execVol> <turnover> <nBuy> <nSell>
  O add <marketOk> <stamped> <agent> <isBuy> <rawPrice|-> <snappedPrice|-> <vol> <ttl|->
  O cancel <orderId>
  O exec
  O tick <fund|->
  O jump <k> <fund|->                          `_set_time(time + k, fund)`
  O run <0|1>
  R add <id> <time> <agent> <isBuy> <price|-> <vol> <ttl|->
  R cancel <id> <cancelTime> <orderTime> <agent> <isBuy> <price|-> <vol> <ttl|->
  R tick <n> {<id> <time> <orderTime> <agent> <isBuy> <price|-> <vol> <ttl|->}*   (sorted by id)
  R exec <n> {<time> <buyAgent> <sellAgent> <buyId> <sellId> <price> <vol>}*
  R err <kind>
  P <executablePredicate 0|1>                 real remain_executable_orders() on the current state
  C {order} {order} <lt> <gt> <eq> <le> <ge>   real comparison results of two accepted orders
  D <isBuy> <n> {<price|-> <vol>}*             real get_price_volume() of one side of the current state
The driver answers nothing on agreement and `diff <line> <channel> model=… impl=…` otherwise, and
ends with `summary <lines> <compared> <diffs>`.
-/
import Driver.Proto
import PamsModel.Market

open Pams Proto

abbrev Px := Int

def floatOps (snapped : Option Px) : PriceOps Px :=
  { mid := fun s b => keyOfFloat ((floatOfKey s + floatOfKey b) / 2.0)
    addNotional := fun acc v p => keyOfFloat (floatOfKey acc + (Float.ofNat v) * floatOfKey p)
    zero := 0
    snap := fun _ p => match snapped with | some q => q | none => p }

def pOrder : Parser (Order Px) := do
  let id ← nat; let agent ← nat; let isBuy ← bool; let price ← oInt; let vol ← nat
  let placedAt ← nat; let ttl ← oNat
  pure { id, agent, isBuy, price, vol, placedAt, ttl }

def pGone : Parser (Order Px × Gone) := do
  let o ← pOrder
  let r ← nat
  pure (o, if r = 0 then Gone.filled else if r = 1 then Gone.canceled else Gone.expired)

def pSlot : Parser (Slot Px) := do
  let market ← oInt; let last ← oInt; let mid ← oInt; let fund ← oInt
  let execVol ← nat; let turnover ← int; let nBuy ← nat; let nSell ← nat
  pure { market, last, mid, fund, execVol, turnover, nBuy, nSell }

def pState : Parser (Market Px) := do
  let time ← nat; let running ← bool; let nextId ← nat
  let nb ← nat; let buys ← many nb pOrder
  let ns ← nat; let sells ← many ns pOrder
  let ng ← nat; let gone ← many ng pGone
  let cur ← pSlot
  let np ← nat
  let past ← many np pSlot
  pure { time, running, nextId, buys, sells, gone, cur, past }

def showOrder (o : Order Px) : String :=
  s!"{o.id}/{o.agent}/{o.isBuy}/{showOpt o.price}/{o.vol}/{o.placedAt}/{showOpt o.ttl}"

def showSlot (s : Slot Px) : String :=
  s!"{showOpt s.market} {showOpt s.last} {showOpt s.mid} {showOpt s.fund} {s.execVol} {s.turnover} {s.nBuy} {s.nSell}"

def showBook (m : Market Px) : String :=
  "B[" ++ " ".intercalate (m.buys.map showOrder) ++ "] S[" ++ " ".intercalate (m.sells.map showOrder) ++ "]"

def showFill (f : Fill Px) : String :=
  s!"{f.time} {f.buyAgent} {f.sellAgent} {f.buyId} {f.sellId} {f.price} {f.vol}"

def showErr : Err → String
  | .zeroVol => "zeroVol" | .sameId => "sameId" | .noPrice => "noPrice"
  | .notRunning => "notRunning" | .stillExecutable => "stillExecutable"
  | .future => "future" | .unknownOrder => "unknownOrder"
  | .wrongMarket => "wrongMarket" | .alreadySubmitted => "alreadySubmitted"

structure St where
  model : Option (Market Px) := none      -- adopted real state
  pred : Option (Market Px) := none       -- model's prediction for the next S line
  predOut : Option String := none         -- model's predicted output for the next R line
  lines : Nat := 0
  compared : Nat := 0
  diffs : Nat := 0

def sortById {α} (f : α → Nat) (l : List α) : List α :=
  (l.toArray.qsort (fun a b => f a < f b)).toList

def applyOp (m : Market Px) (toks : List String) : Except String (Market Px × String) :=
  match toks with
  | ["add", mktOk, stamped, agent, isBuy, raw, snapped, vol, ttl] =>
    let r : Req Px := { agent := agent.toNat!, isBuy := isBuy = "1", price := optInt raw,
                        vol := vol.toNat!, ttl := optNat ttl }
    match m.submit (floatOps (optInt snapped)) (mktOk = "1") (stamped = "1") r with
    | .ok (m', log) =>
      pure (m', s!"add {log.id} {log.time} {log.agent} {if log.isBuy then 1 else 0} {showOpt log.price} {log.vol} {showOpt log.ttl}")
    | .error e => pure (m, s!"err {showErr e}")
  | ["cancel", id] =>
    match m.cancel (floatOps none) id.toNat! with
    | .ok (m', l) => pure (m', s!"cancel {l.id} {l.cancelTime} {l.orderTime} {l.agent} {if l.isBuy then 1 else 0} {showOpt l.price} {l.vol} {showOpt l.ttl}")
    | .error e => pure (m, s!"err {showErr e}")
  | ["exec"] =>
    match m.execution (floatOps none) with
    | .ok (m', fills) => pure (m', s!"exec {fills.length}" ++ String.join (fills.map (fun f => " " ++ showFill f)))
    | .error e => pure (m, s!"err {showErr e}")
  | ["tick", fund] =>
    let (m', logs) := m.tick (floatOps none) (optInt fund)
    let logs := sortById (·.id) logs
    pure (m', s!"tick {logs.length}" ++ String.join (logs.map (fun l =>
      s!" {l.id} {l.time} {l.orderTime} {l.agent} {if l.isBuy then 1 else 0} {showOpt l.price} {l.vol} {showOpt l.ttl}")))
  | ["jump", k, fund] =>
    let (m', logs) := m.setTime (floatOps none) k.toNat! (optInt fund)
    let logs := sortById (·.id) logs
    pure (m', s!"tick {logs.length}" ++ String.join (logs.map (fun l =>
      s!" {l.id} {l.time} {l.orderTime} {l.agent} {if l.isBuy then 1 else 0} {showOpt l.price} {l.vol} {showOpt l.ttl}")))
  | ["run", b] => pure ({ m with running := b = "1" }, "run")
  | _ => throw s!"bad op {toks}"

def goneKey (g : Order Px × Gone) : String := s!"{g.1.id}:{g.1.vol}"

def cmpState (a b : Market Px) : List (String × String × String) :=
  let chk (ch : String) (x y : String) := if x = y then [] else [(ch, x, y)]
  chk "state.clock" s!"{a.time} {a.running} {a.nextId}" s!"{b.time} {b.running} {b.nextId}"
  ++ chk "state.book" (showBook a) (showBook b)
  ++ chk "state.series" (showSlot a.cur) (showSlot b.cur)
  ++ chk "state.past" (showOpt (a.past.head?.map showSlot)) (showOpt (b.past.head?.map showSlot))
  ++ chk "state.gone" (" ".intercalate ((sortById (·.1.id) a.gone).map goneKey |>.eraseDups))
                      (" ".intercalate ((sortById (·.1.id) b.gone).map goneKey |>.eraseDups))

def showDepth (d : List (Option Px × Nat)) : String :=
  " ".intercalate (d.map (fun pv => s!"{showOpt pv.1}:{pv.2}"))

def b2s (b : Bool) : String := if b then "1" else "0"

def stepLine (st : St) (line : String) : St × List String :=
  let st := { st with lines := st.lines + 1 }
  let diff (st : St) (ch m i : String) : St × List String :=
    ({ st with diffs := st.diffs + 1 }, [s!"diff {st.lines} {ch} model={m} impl={i}"])
  match tokens line with
  | [] => (st, [])
  | "CASE" :: _ => ({ st with model := none, pred := none, predOut := none }, [])
  | "S" :: rest =>
    match runP pState rest with
    | .error e => ({ st with diffs := st.diffs + 1 }, [s!"diff {st.lines} parse model={e} impl=-"])
    | .ok real =>
      let (st, out) := match st.pred with
        | none => (st, [])
        | some p =>
          let ds := cmpState p real
          ({ st with compared := st.compared + 1, diffs := st.diffs + ds.length },
           ds.map (fun (d : String × String × String) => s!"diff {st.lines} {d.1} model={d.2.1} impl={d.2.2}"))
      ({ st with model := some real, pred := none }, out)
  | "O" :: rest =>
    match st.model with
    | none => ({ st with diffs := st.diffs + 1 }, [s!"diff {st.lines} proto model=no-state impl=-"])
    | some m =>
      match applyOp m rest with
      | .error e => ({ st with diffs := st.diffs + 1 }, [s!"diff {st.lines} proto model={e} impl=-"])
      | .ok (m', out) => ({ st with pred := some m', predOut := some out }, [])
  | "R" :: rest =>
    let impl := " ".intercalate rest
    match st.predOut with
    | none => (st, [])
    | some mo =>
      let st := { st with compared := st.compared + 1, predOut := none }
      if mo = impl then (st, [])
      else if mo.startsWith "err" || impl.startsWith "err" then diff st "out.err" mo impl
      else if rest.head? = some "exec" then
        -- split the fill comparison: who traded how much vs at which price
        let mask (toks : List String) : String × String :=
          let body := toks.drop 2
          let rec go (l : List String) (i : Nat) (a b : List String) : List String × List String :=
            match l with
            | [] => (a.reverse, b.reverse)
            | t :: ts => if i % 7 = 5 then go ts (i + 1) a (t :: b) else go ts (i + 1) (t :: a) b
          let (a, b) := go body 0 [] []
          (" ".intercalate a, " ".intercalate b)
        let (ma, mb) := mask (tokens mo)
        let (ia, ib) := mask rest
        let (st1, o1) := if ma = ia then (st, []) else diff st "fill.pairs" ma ia
        let (st2, o2) := if mb = ib then (st1, []) else diff st1 "fill.price" mb ib
        (st2, o1 ++ o2)
      else
        let ch := match rest.head? with
          | some "add" => "out.order" | some "cancel" => "out.cancel"
          | some "tick" => "out.expiry" | _ => "out"
        diff st ch mo impl
  | ["P", b] =>
    match st.model with
    | none => (st, [])
    | some m =>
      let mo := b2s (remainExecutable m.buys m.sells)
      let st := { st with compared := st.compared + 1 }
      if mo = b then (st, []) else diff st "exec.pred" mo b
  | "C" :: rest =>
    let p : Parser (Order Px × Order Px × List String) := do
      let a ← pOrder; let b ← pOrder
      let r ← many 5 next
      pure (a, b, r)
    match runP p rest with
    | .error e => diff st "parse" e "-"
    | .ok (a, b, r) =>
      let mo := [b2s (a.lt b), b2s (a.gt b), b2s (a.eqv b), b2s (a.le b), b2s (a.ge b)]
      let st := { st with compared := st.compared + 1 }
      if mo = r then (st, []) else diff st "prio" (" ".intercalate mo) (" ".intercalate r)
  | "D" :: isBuy :: rest =>
    match st.model with
    | none => (st, [])
    | some m =>
      let side := if isBuy = "1" then m.buys else m.sells
      let mo := showDepth (Book.depth side)
      let impl := " ".intercalate (rest.drop 1)
      let st := { st with compared := st.compared + 1 }
      if mo = impl then (st, []) else diff st "book.depth" mo impl
  | t :: _ => diff st "proto" s!"unknown-line-kind {t}" "-"

partial def loop (h : IO.FS.Stream) (st : St) : IO St := do
  let line ← h.getLine
  if line.isEmpty then return st
  let (st', outs) := stepLine st line
  for o in outs do IO.println o
  loop h st'

def main : IO Unit := do
  let st ← loop (← IO.getStdin) {}
  IO.println s!"summary {st.lines} {st.compared} {st.diffs}"
