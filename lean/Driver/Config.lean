/-
Line-protocol driver for the configuration models (C18).
  EXT <parent> <ne> {k}* <nt> {k v}* <nw> {<name> <n> {k v}*}*   -> OK <n> {k v}* | ERR missing|cycle|fuel
  EXPAND <counter> <kind 0 single|1 count|2 range> <a> <b>       -> V <n> {<id> <dash> <suffix|->}*
  UNIFORM <uBits> <loBits> <hiBits>                              -> V <bits>
  FINDCLASS <name> <nb> {<name> <cls>}* <nr> {<name> <cls>}*     -> V <cls|->
  SESSION <newMax|-> <legacyMax|-> <newRate|-> <legacyRate|->    -> V <max|-> <rate|-> | ERR both
-/
import Driver.Proto
import PamsModel.Config

open Pams Pams.Config Proto

def pObj : Parser Obj := do
  let n ← nat
  many n (do let k ← nat; let v ← nat; pure (k, v))

def pPairs : Parser (List (Nat × Nat)) := pObj

def showObj (o : Obj) : String :=
  s!"{o.length}" ++ String.join (o.map (fun kv => s!" {kv.1} {kv.2}"))

def fl (s : String) : Float := Float.ofBits (UInt64.ofNat s.toNat!)

def stepLine (line : String) : List String :=
  match tokens line with
  | [] => []
  | "EXT" :: rest =>
    let p : Parser (Nat × List Nat × Obj × List (Nat × Obj)) := do
      let parent ← nat
      let ne ← nat; let ex ← many ne nat
      let target ← pObj
      let nw ← nat
      let whole ← many nw (do let name ← nat; let o ← pObj; pure (name, o))
      pure (parent, ex, target, whole)
    match runP p rest with
    | .error e => [s!"E {e}"]
    | .ok (parent, ex, target, whole) =>
      match jsonExtends whole parent target ex with
      | .ok r => ["OK " ++ showObj r]
      | .error .missing => ["ERR missing"]
      | .error .cycle => ["ERR cycle"]
      | .error .fuel => ["ERR fuel"]
  | ["EXPAND", counter, kind, a, b] =>
    let spec : GroupSpec := if kind = "0" then .single else if kind = "1" then .count a.toNat!
      else .range a.toNat! b.toNat!
    let es := expand counter.toNat! spec
    [s!"V {es.length}" ++ String.join (es.map (fun e => s!" {e.id} {if e.dash then 1 else 0} {showOpt e.suffix}"))]
  | ["UNIFORM", u, lo, hi] => [s!"V {(uniform (fl u) (fl lo) (fl hi)).toBits.toNat}"]
  | "FINDCLASS" :: name :: rest =>
    match runP (do let b ← pPairs; let r ← pPairs; pure (b, r)) rest with
    | .error e => [s!"E {e}"]
    | .ok (b, r) => [s!"V {showOpt (findClass b r name.toNat!)}"]
  | ["SESSION", nm, lm, nr, lr] =>
    match sessionSetup (optNat nm) (optNat lm) (optNat nr) (optNat lr) with
    | .ok a => [s!"V {showOpt a.maxHft} {showOpt a.rate}"]
    | .error _ => ["ERR both"]
  | t :: _ => [s!"E unknown {t}"]

partial def loop (h : IO.FS.Stream) : IO Unit := do
  let line ← h.getLine
  if line.isEmpty then return ()
  for o in stepLine line do IO.println o
  loop h

def main : IO Unit := do loop (← IO.getStdin)
