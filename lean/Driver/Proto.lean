/-
Shared helpers for the line-protocol drivers (run with `lake env lean --run Driver/<X>.lean`).
Doubles cross the protocol as integers: either raw IEEE-754 bit patterns (`bits`) or the standard
monotone integer key (`key`): for a double with bits `b`, `key = b` if the sign bit is clear and
`-(b &&& 0x7fff…)` otherwise, so that `x < y ↔ key x < key y` on non-NaN doubles and
`key (-0.0) = key (+0.0) = 0`.
-/
import Mathlib.Order.Defs.LinearOrder
import Mathlib.Data.Int.Order.Basic

namespace Proto

def signBit : UInt64 := 0x8000000000000000

def keyOfBits (b : UInt64) : Int :=
  if b &&& signBit != 0 then - (Int.ofNat (b &&& 0x7FFFFFFFFFFFFFFF).toNat) else Int.ofNat b.toNat

def bitsOfKey (k : Int) : UInt64 :=
  if k < 0 then (UInt64.ofNat (-k).toNat) ||| signBit else UInt64.ofNat k.toNat

def floatOfKey (k : Int) : Float := Float.ofBits (bitsOfKey k)
def keyOfFloat (f : Float) : Int := keyOfBits f.toBits

def tokens (line : String) : List String :=
  (line.splitOn " ").filter (· ≠ "") |>.map (fun s => s.trimAscii.toString) |>.filter (· ≠ "")

def optInt (s : String) : Option Int := if s = "-" then none else s.toInt?
def optNat (s : String) : Option Nat := if s = "-" then none else s.toNat?

def showOpt {α} [ToString α] : Option α → String
  | none => "-"
  | some x => toString x

/-- a tiny token-stream parser monad -/
abbrev Parser := StateT (List String) (Except String)

def next : Parser String := do
  match (← get) with
  | [] => throw "unexpected end of line"
  | t :: ts => set ts; pure t

def nat : Parser Nat := do
  let t ← next
  match t.toNat? with
  | some n => pure n
  | none => throw s!"expected nat, got {t}"

def int : Parser Int := do
  let t ← next
  match t.toInt? with
  | some n => pure n
  | none => throw s!"expected int, got {t}"

def bool : Parser Bool := do
  let t ← next
  if t = "1" then pure true else if t = "0" then pure false else throw s!"expected bool, got {t}"

def oInt : Parser (Option Int) := do
  let t ← next
  if t = "-" then pure none else
  match t.toInt? with
  | some n => pure (some n)
  | none => throw s!"expected int or -, got {t}"

def oNat : Parser (Option Nat) := do
  let t ← next
  if t = "-" then pure none else
  match t.toNat? with
  | some n => pure (some n)
  | none => throw s!"expected nat or -, got {t}"

def many {α} (n : Nat) (p : Parser α) : Parser (List α) := do
  let mut acc : List α := []
  for _ in [0:n] do
    acc := (← p) :: acc
  pure acc.reverse

def runP {α} (p : Parser α) (toks : List String) : Except String α :=
  match p.run toks with
  | .ok (a, _) => .ok a
  | .error e => .error e

end Proto
