/-
Line-protocol driver for the closed-loop simulation model (`PamsModel/Sim.lean`): the scheduler
model driving the market model.   lake env lean --run Driver/Sim.lean < lines

  CASE <id>
  MK <n> {<id> <isIndex> <tickBits> <priceKey> <fund0Key|->}*
  SES <steps> <placement> <execution> <maxNormal> <maxHft> <rateBits>        one per session
  STEP <sessionIdx>
  RES <m> <flagOn> <nw> {<mk> <b>}* <nf> {<mk> <fundKey|->}*     what the before-step handlers of market m did
  PERM <n> {a}*        ANS <a> <n> {sreq}*        SHUF <n> {i}*
  ROUND <uBits> <n> {a}*                    ANSH <a> <n> {sreq}*   (of the latest ROUND)
  FUND <m> <key|->                          fundamental price market m records at the clock step ending this step
  ENDSTEP
  RUN
      sreq := <owner> <market> <isCancel> <ref> <marketOk> <stamped> <agent> <isBuy> <price|-> <vol> <ttl|->
              <cancelId> <nfx> {<i> <flagOff> <nw> {<mk> <b>}*}*
Prices are monotone integer keys of doubles.  The driver prints
  M <event>                       the model's trace (alphabet of Runner.Ev)
  R <market> <record>             every market record in write order
  F <market> <time> <running> <nextId> B[..] S[..] <cur slot> <npast> {slot}*     final state of every market
  OK <0|1>
and `ENDCASE`.
-/
import Driver.Proto
import PamsModel.Sim
import Mathlib.Data.Rat.Defs
import Mathlib.Data.Rat.Floor

open Pams Pams.Runner Pams.Sim Proto

abbrev Px := Int

def ratOfBits' (b : Nat) : ℚ :=
  let sign : Nat := b / 2 ^ 63
  let e : Nat := (b / 2 ^ 52) % 2048
  let m : Nat := b % 2 ^ 52
  let full : Nat := m + 2 ^ 52
  let v : ℚ := if e = 0 then (m : ℚ) / ((2 ^ 1074 : Nat) : ℚ)
    else if e ≥ 1075 then ((full * 2 ^ (e - 1075) : Nat) : ℚ)
    else (full : ℚ) / ((2 ^ (1075 - e) : Nat) : ℚ)
  if sign = 1 then -v else v

/-- `_add_order`'s snapping in doubles, as Python evaluates it: exact `%` test, then floor / ceil of
the rounded quotient times the tick -/
def snapKey (tick : Float) (isBuy : Bool) (p : Px) : Px :=
  let pf := floatOfKey p
  let pq := ratOfBits' pf.toBits.toNat
  let tq := ratOfBits' tick.toBits.toNat
  if tq = 0 then p
  else if (pq / tq).den = 1 then p
  else keyOfFloat (if isBuy then Float.floor (pf / tick) * tick else Float.ceil (pf / tick) * tick)

def opsFor (tick : Float) : PriceOps Px :=
  { mid := fun s b => keyOfFloat ((floatOfKey s + floatOfKey b) / 2.0)
    addNotional := fun acc v p => keyOfFloat (floatOfKey acc + (Float.ofNat v) * floatOfKey p)
    zero := 0
    snap := snapKey tick }

structure MkB where
  id : Nat
  isIndex : Bool
  tick : Float
  price : Px
  fund0 : Option Px

def pWrites : Parser (List (Nat × Bool)) := do
  let n ← nat
  many n (do let m ← nat; let b ← bool; pure (m, b))

def pFxEntry : Parser (Nat × Fx) := do
  let i ← nat; let flag ← bool; let w ← pWrites
  pure (i, { flag := flag, running := w })

def lookupFx (l : List (Nat × Fx)) (i : Nat) : Fx :=
  match l.find? (fun x => x.1 = i) with
  | some x => x.2
  | none => Fx.none

def pSReq : Parser (SReq Px) := do
  let owner ← nat; let market ← nat; let isCancel ← bool; let ref ← nat
  let marketOk ← bool; let stamped ← bool
  let agent ← nat; let isBuy ← bool; let price ← oInt; let vol ← nat; let ttl ← oNat
  let cancelId ← nat
  let nfx ← nat
  let fxs ← many nfx pFxEntry
  pure { owner, market, isCancel, ref, marketOk, stamped,
         req := { agent, isBuy, price, vol, ttl }, cancelId, fx := lookupFx fxs }

def lookupAns (l : List (Nat × List (SReq Px))) (a : Nat) : List (SReq Px) :=
  match l.find? (fun x => x.1 = a) with
  | some x => x.2
  | none => []

structure RoundB where
  u : Float
  perm : List Nat
  ans : List (Nat × List (SReq Px))

structure StepB where
  session : Nat
  res : List (Nat × StepFx Px) := []
  perm : List Nat := []
  ans : List (Nat × List (SReq Px)) := []
  shuf : List Nat := []
  rounds : List RoundB := []   -- reversed
  fund : List (Nat × Option Px) := []

structure SesB where
  cfg : SessionCfg
  rate : Float

structure CaseB where
  ms : List MkB := []
  sess : List SesB := []        -- reversed
  steps : List StepB := []      -- reversed
  cur : Option StepB := none

def showEv : Ev → String
  | .simBegin => "simBegin" | .simEnd => "simEnd" | .flush => "flush"
  | .sessionBegin k => s!"sessionBegin {k}" | .sessionEnd k => s!"sessionEnd {k}"
  | .hookSessionBefore k t => s!"hookSessionBefore {k} {t}"
  | .hookSessionAfter k t => s!"hookSessionAfter {k} {t}"
  | .setRunning m b => s!"setRunning {m} {if b then 1 else 0}"
  | .hookStepBefore m t => s!"hookStepBefore {m} {t}" | .stepBegin m t => s!"stepBegin {m} {t}"
  | .stepEnd m t => s!"stepEnd {m} {t}" | .hookStepAfter m t => s!"hookStepAfter {m} {t}"
  | .consult a h => s!"consult {a} {if h then 1 else 0}"
  | .hookOrderBefore r t => s!"hookOrderBefore {r} {t}" | .addOrder m r => s!"addOrder {m} {r}"
  | .cbSubmitted a r => s!"cbSubmitted {a} {r}" | .hookOrderAfter r t => s!"hookOrderAfter {r} {t}"
  | .hookCancelBefore r t => s!"hookCancelBefore {r} {t}" | .cancel m r => s!"cancel {m} {r}"
  | .cbCanceled a r => s!"cbCanceled {a} {r}" | .hookCancelAfter r t => s!"hookCancelAfter {r} {t}"
  | .execution m => s!"execution {m}"
  | .ledger refs => "ledger" ++ String.join (refs.map (fun r => s!" {r}"))
  | .cbExecuted a r => s!"cbExecuted {a} {r}" | .hookExecAfter r t => s!"hookExecAfter {r} {t}"
  | .tick m => s!"tick {m}"
  | .abort => "abort"

def b2s (b : Bool) : String := if b then "1" else "0"

def showRec : Rec Px → String
  | .order l => s!"order {l.id} {l.time} {l.agent} {b2s l.isBuy} {showOpt l.price} {l.vol} {showOpt l.ttl}"
  | .cancel l => s!"cancel {l.id} {l.cancelTime} {l.orderTime} {l.agent} {b2s l.isBuy} {showOpt l.price} {l.vol} {showOpt l.ttl}"
  | .expiry l => s!"expiry {l.id} {l.time} {l.orderTime} {l.agent} {b2s l.isBuy} {showOpt l.price} {l.vol} {showOpt l.ttl}"
  | .fill f => s!"fill {f.time} {f.buyAgent} {f.sellAgent} {f.buyId} {f.sellId} {f.price} {f.vol}"

def showOrder (o : Order Px) : String :=
  s!"{o.id}/{o.agent}/{b2s o.isBuy}/{showOpt o.price}/{o.vol}/{o.placedAt}/{showOpt o.ttl}"

def showSlot (s : Slot Px) : String :=
  s!"{showOpt s.market} {showOpt s.last} {showOpt s.mid} {showOpt s.fund} {s.execVol} {s.turnover} {s.nBuy} {s.nSell}"

def showMarket (k : Nat) (m : Market Px) : String :=
  s!"F {k} {m.time} {b2s m.running} {m.nextId} B[" ++ " ".intercalate (m.buys.map showOrder) ++ "] S[" ++
    " ".intercalate (m.sells.map showOrder) ++ s!"] {showSlot m.cur} {m.past.length}" ++
    String.join (m.past.map (fun s => " " ++ showSlot s))

def mkTapes (c : CaseB) : List SessionCfg × List (List (Sim.StepTape Px)) :=
  let sess := c.sess.reverse
  let steps := c.steps.reverse
  let cfgs := sess.map (·.cfg)
  let tapes := (List.range sess.length).map (fun k =>
    let rate := match sess[k]? with | some s => s.rate | none => 1.0
    (steps.filter (fun s => s.session = k)).map (fun s =>
      ({ resume := fun m => match s.res.find? (fun x => x.1 = m) with
           | some x => x.2
           | none => StepFx.none
         perm := s.perm
         answer := lookupAns s.ans
         shuffle := s.shuf
         rounds := s.rounds.reverse.map (fun r =>
           ({ go := !(rate < r.u), perm := r.perm, answer := lookupAns r.ans } : Sim.RoundTape Px))
         fund := fun m => match s.fund.find? (fun x => x.1 = m) with
           | some x => x.2
           | none => none } : Sim.StepTape Px)))
  (cfgs, tapes)

def natList : Parser (List Nat) := do
  let n ← nat
  many n nat

def stepLine (c : CaseB) (line : String) : CaseB × List String :=
  match tokens line with
  | [] => (c, [])
  | "CASE" :: _ => ({}, [])
  | "MK" :: rest =>
    match runP (do
        let n ← nat
        many n (do
          let id ← nat; let isIndex ← bool; let tb ← nat; let price ← int; let fund0 ← oInt
          pure ({ id, isIndex, tick := Float.ofBits (UInt64.ofNat tb), price, fund0 } : MkB))) rest with
    | .ok ms => ({ c with ms := ms }, [])
    | .error e => (c, [s!"E parse MK {e}"])
  | "SES" :: rest =>
    match runP (do
        let steps ← nat; let placement ← bool; let execution ← bool
        let maxNormal ← int; let maxHft ← int; let rb ← nat
        pure ({ cfg := { steps, placement, execution, maxNormal, maxHft },
                rate := Float.ofBits (UInt64.ofNat rb) } : SesB)) rest with
    | .ok s => ({ c with sess := s :: c.sess }, [])
    | .error e => (c, [s!"E parse SES {e}"])
  | ["STEP", k] => ({ c with cur := some { session := k.toNat! } }, [])
  | "RES" :: rest =>
    match runP (do
        let m ← nat; let flag ← bool; let w ← pWrites
        let nf ← nat
        let fw ← many nf (do let k ← nat; let v ← oInt; pure (k, v))
        pure (m, ({ flag := flag, running := w, fund := fw } : StepFx Px))) rest, c.cur with
    | .ok x, some s => ({ c with cur := some { s with res := x :: s.res } }, [])
    | _, _ => (c, ["E parse RES"])
  | "PERM" :: rest =>
    match runP natList rest, c.cur with
    | .ok l, some s => ({ c with cur := some { s with perm := l } }, [])
    | _, _ => (c, ["E parse PERM"])
  | "SHUF" :: rest =>
    match runP natList rest, c.cur with
    | .ok l, some s => ({ c with cur := some { s with shuf := l } }, [])
    | _, _ => (c, ["E parse SHUF"])
  | "ANS" :: rest =>
    match runP (do let a ← nat; let n ← nat; let rs ← many n pSReq; pure (a, rs)) rest, c.cur with
    | .ok x, some s => ({ c with cur := some { s with ans := x :: s.ans } }, [])
    | .error e, _ => (c, [s!"E parse ANS {e}"])
    | _, _ => (c, ["E parse ANS"])
  | "ROUND" :: rest =>
    match runP (do let ub ← nat; let l ← natList; pure (ub, l)) rest, c.cur with
    | .ok (ub, l), some s =>
      ({ c with cur := some { s with rounds := { u := Float.ofBits (UInt64.ofNat ub), perm := l, ans := [] } :: s.rounds } }, [])
    | _, _ => (c, ["E parse ROUND"])
  | "ANSH" :: rest =>
    match runP (do let a ← nat; let n ← nat; let rs ← many n pSReq; pure (a, rs)) rest, c.cur with
    | .ok x, some s =>
      match s.rounds with
      | r :: rs => ({ c with cur := some { s with rounds := { r with ans := x :: r.ans } :: rs } }, [])
      | [] => (c, ["E ANSH without ROUND"])
    | .error e, _ => (c, [s!"E parse ANSH {e}"])
    | _, _ => (c, ["E parse ANSH"])
  | "FUND" :: rest =>
    match runP (do let m ← nat; let f ← oInt; pure (m, f)) rest, c.cur with
    | .ok x, some s => ({ c with cur := some { s with fund := x :: s.fund } }, [])
    | _, _ => (c, ["E parse FUND"])
  | ["ENDSTEP"] =>
    match c.cur with
    | some s => ({ c with steps := s :: c.steps, cur := none }, [])
    | none => (c, ["E ENDSTEP without STEP"])
  | ["RUN"] =>
    let (cfgs, tapes) := mkTapes c
    let info (k : Nat) : Option MkB := c.ms.find? (fun m => m.id = k)
    let po : Nat → PriceOps Px := fun k => opsFor (match info k with | some m => m.tick | none => 1.0)
    let price : Nat → Px := fun k => match info k with | some m => m.price | none => 0
    let fund0 : Nat → Option Px := fun k => match info k with | some m => m.fund0 | none => none
    let ms : Markets := c.ms.map (fun m => (m.id, m.isIndex))
    let r := Sim.run po ms price fund0 cfgs tapes
    (c, r.out.tr.map (fun e => "M " ++ showEv e) ++
        r.recs.map (fun x => s!"R {x.1} " ++ showRec x.2) ++
        c.ms.map (fun m => showMarket m.id (r.st.mkt m.id)) ++
        [s!"OK {b2s r.out.ok}", "ENDCASE"])
  | t :: _ => (c, [s!"E unknown {t}"])

partial def loop (h : IO.FS.Stream) (c : CaseB) : IO Unit := do
  let line ← h.getLine
  if line.isEmpty then return ()
  let (c', outs) := stepLine c line
  for o in outs do IO.println o
  loop h c'

def main : IO Unit := do loop (← IO.getStdin) {}
