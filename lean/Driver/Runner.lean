/-
Line-protocol driver for the runner model (correspondence check (H) for C05, C06, C09, C10, C11,
C13 and the event properties).   lake env lean --run Driver/Runner.lean < lines

  CASE <id>
  MK <n> {<id> <isIndex>}*
  SES <steps> <placement> <execution> <maxNormal> <maxHft> <rateBits>        one per session
  STEP <sessionIdx>
  RES <n> {m}*         PERM <n> {a}*        ANS <a> <n> {req}*        SHUF <n> {i}*
  ROUND <uBits> <n> {a}*                    ANSH <a> <n> {req}*   (of the latest ROUND)
  ENDSTEP
  RUN
      req := <owner> <market> <isCancel> <ref> <accepted> <fillsKind 0|1> <nf> {<buyer> <seller> <ref> <halts>}*
The driver prints the model's trace, one event per line prefixed `M `, then `ENDCASE`.
-/
import Driver.Proto
import PamsModel.Runner

open Pams.Runner Proto

def pFill : Parser RFill := do
  let buyer ← nat; let seller ← nat; let ref ← nat; let halts ← bool
  pure { buyer, seller, ref, halts }

def pReq : Parser Request := do
  let owner ← nat; let market ← nat; let isCancel ← bool; let ref ← nat; let accepted ← bool
  let kind ← nat; let nf ← nat
  let fs ← many nf pFill
  pure { owner, market, isCancel, ref, accepted, fills := if kind = 0 then none else some fs }

def lookupAns (l : List (Nat × List Request)) (a : Nat) : List Request :=
  match l.find? (fun x => x.1 = a) with
  | some x => x.2
  | none => []

structure RoundB where
  u : Float
  perm : List Nat
  ans : List (Nat × List Request)

structure StepB where
  session : Nat
  res : List Nat := []
  perm : List Nat := []
  ans : List (Nat × List Request) := []
  shuf : List Nat := []
  rounds : List RoundB := []   -- reversed

structure SesB where
  cfg : SessionCfg
  rate : Float

structure CaseB where
  ms : Markets := []
  sess : List SesB := []        -- reversed
  steps : List StepB := []      -- reversed
  cur : Option StepB := none

def showEv : Ev → String
  | .simBegin => "simBegin" | .simEnd => "simEnd" | .flush => "flush"
  | .sessionBegin k => s!"sessionBegin {k}" | .sessionEnd k => s!"sessionEnd {k}"
  | .hookSessionBefore k t => s!"hookSessionBefore {k} {t}"
  | .hookSessionAfter k t => s!"hookSessionAfter {k} {t}"
  | .setRunning m b => s!"setRunning {m} {if b then 1 else 0}"
  | .hookStepBefore m t => s!"hookStepBefore {m} {t}" | .stepBegin m t => s!"stepBegin {m} {t}"
  | .stepEnd m t => s!"stepEnd {m} {t}" | .hookStepAfter m t => s!"hookStepAfter {m} {t}"
  | .consult a h => s!"consult {a} {if h then 1 else 0}"
  | .hookOrderBefore r t => s!"hookOrderBefore {r} {t}" | .addOrder m r => s!"addOrder {m} {r}"
  | .cbSubmitted a r => s!"cbSubmitted {a} {r}" | .hookOrderAfter r t => s!"hookOrderAfter {r} {t}"
  | .hookCancelBefore r t => s!"hookCancelBefore {r} {t}" | .cancel m r => s!"cancel {m} {r}"
  | .cbCanceled a r => s!"cbCanceled {a} {r}" | .hookCancelAfter r t => s!"hookCancelAfter {r} {t}"
  | .execution m => s!"execution {m}"
  | .ledger refs => "ledger" ++ String.join (refs.map (fun r => s!" {r}"))
  | .cbExecuted a r => s!"cbExecuted {a} {r}" | .hookExecAfter r t => s!"hookExecAfter {r} {t}"
  | .tick m => s!"tick {m}"
  | .abort => "abort"

def mkTapes (c : CaseB) : List SessionCfg × List (List StepTape) :=
  let sess := c.sess.reverse
  let steps := c.steps.reverse
  let cfgs := sess.map (·.cfg)
  let tapes := (List.range sess.length).map (fun k =>
    let rate := match sess[k]? with | some s => s.rate | none => 1.0
    (steps.filter (fun s => s.session = k)).map (fun s =>
      ({ resume := fun m => s.res.contains m
         perm := s.perm
         answer := lookupAns s.ans
         shuffle := s.shuf
         rounds := s.rounds.reverse.map (fun r =>
           ({ go := !(rate < r.u), perm := r.perm, answer := lookupAns r.ans } : RoundTape)) } : StepTape)))
  (cfgs, tapes)

def natList : Parser (List Nat) := do
  let n ← nat
  many n nat

def stepLine (c : CaseB) (line : String) : CaseB × List String :=
  match tokens line with
  | [] => (c, [])
  | "CASE" :: _ => ({}, [])
  | "MK" :: rest =>
    match runP (do let n ← nat; many n (do let i ← nat; let b ← bool; pure (i, b))) rest with
    | .ok ms => ({ c with ms := ms }, [])
    | .error e => (c, [s!"E parse MK {e}"])
  | "SES" :: rest =>
    match runP (do
        let steps ← nat; let placement ← bool; let execution ← bool
        let maxNormal ← int; let maxHft ← int; let rb ← nat
        pure ({ cfg := { steps, placement, execution, maxNormal, maxHft },
                rate := Float.ofBits (UInt64.ofNat rb) } : SesB)) rest with
    | .ok s => ({ c with sess := s :: c.sess }, [])
    | .error e => (c, [s!"E parse SES {e}"])
  | ["STEP", k] => ({ c with cur := some { session := k.toNat! } }, [])
  | "RES" :: rest =>
    match runP natList rest, c.cur with
    | .ok l, some s => ({ c with cur := some { s with res := l } }, [])
    | _, _ => (c, ["E parse RES"])
  | "PERM" :: rest =>
    match runP natList rest, c.cur with
    | .ok l, some s => ({ c with cur := some { s with perm := l } }, [])
    | _, _ => (c, ["E parse PERM"])
  | "SHUF" :: rest =>
    match runP natList rest, c.cur with
    | .ok l, some s => ({ c with cur := some { s with shuf := l } }, [])
    | _, _ => (c, ["E parse SHUF"])
  | "ANS" :: rest =>
    match runP (do let a ← nat; let n ← nat; let rs ← many n pReq; pure (a, rs)) rest, c.cur with
    | .ok x, some s => ({ c with cur := some { s with ans := x :: s.ans } }, [])
    | .error e, _ => (c, [s!"E parse ANS {e}"])
    | _, _ => (c, ["E parse ANS"])
  | "ROUND" :: rest =>
    match runP (do let ub ← nat; let l ← natList; pure (ub, l)) rest, c.cur with
    | .ok (ub, l), some s =>
      ({ c with cur := some { s with rounds := { u := Float.ofBits (UInt64.ofNat ub), perm := l, ans := [] } :: s.rounds } }, [])
    | _, _ => (c, ["E parse ROUND"])
  | "ANSH" :: rest =>
    match runP (do let a ← nat; let n ← nat; let rs ← many n pReq; pure (a, rs)) rest, c.cur with
    | .ok x, some s =>
      match s.rounds with
      | r :: rs => ({ c with cur := some { s with rounds := { r with ans := x :: r.ans } :: rs } }, [])
      | [] => (c, ["E ANSH without ROUND"])
    | _, _ => (c, ["E parse ANSH"])
  | ["ENDSTEP"] =>
    match c.cur with
    | some s => ({ c with steps := s :: c.steps, cur := none }, [])
    | none => (c, ["E ENDSTEP without STEP"])
  | ["RUN"] =>
    let (cfgs, tapes) := mkTapes c
    let tr := run c.ms cfgs tapes
    (c, tr.map (fun e => "M " ++ showEv e) ++ ["ENDCASE"])
  | t :: _ => (c, [s!"E unknown {t}"])

partial def loop (h : IO.FS.Stream) (c : CaseB) : IO Unit := do
  let line ← h.getLine
  if line.isEmpty then return ()
  let (c', outs) := stepLine c line
  for o in outs do IO.println o
  loop h c'

def main : IO Unit := do loop (← IO.getStdin) {}
