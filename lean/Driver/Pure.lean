/-
Line-protocol driver for the pure numeric models.   lake env lean --run Driver/Pure.lean < lines
  snap <isBuy> <priceBits> <tickBits>        -> V <num> <den>     (exact rational result, C19)
  snapf <isBuy> <priceBits> <tickBits>       -> V <bits>          (same expression in doubles)
  index <n> {<priceBits> <shares>}*           -> V <bits>          (Float instance, C17)
  ledger … / logger …                         -> holdings after folding the fills (C05) / delivered | pending (C10)
  genpath <p0> {rbits}*                       -> V {bits}*          (chunk of a fundamental path, C12)
  fsched <chunk> {R <time> | C <t> <version> | S <t>}*  -> V {g after each op}* | {version of step u, u = 0..g}*
                                              (regeneration bookkeeping, PamsModel/FundSched.lean, C12)
  fcn / mm / arb ...                          -> V … orders         (Float instance of the agent formulas, C20)
-/
import Driver.Proto
import PamsModel.Tick
import PamsModel.Index
import PamsModel.Agents
import PamsModel.Fundamentals
import PamsModel.FundSched
import PamsModel.Ledger
import PamsModel.Logger

open Proto

/-- the exact rational value of a finite double given by its bit pattern -/
def ratOfBits (b : Nat) : ℚ :=
  let sign : Nat := b / 2 ^ 63
  let e : Nat := (b / 2 ^ 52) % 2048
  let m : Nat := b % 2 ^ 52
  let full : Nat := m + 2 ^ 52
  let v : ℚ := if e = 0 then (m : ℚ) / ((2 ^ 1074 : Nat) : ℚ)
    else if e ≥ 1075 then ((full * 2 ^ (e - 1075) : Nat) : ℚ)
    else (full : ℚ) / ((2 ^ (1075 - e) : Nat) : ℚ)
  if sign = 1 then -v else v

def fl (s : String) : Float := Float.ofBits (UInt64.ofNat s.toNat!)

def pComps : Parser (List (Float × Nat)) := do
  let n ← nat
  many n (do let b ← nat; let s ← nat; pure (Float.ofBits (UInt64.ofNat b), s))

def showOrder (o : Pams.Agents.AOrder Float) : String :=
  s!" {if o.isBuy then 1 else 0} {o.price.toBits.toNat} {o.vol} {o.ttl}"

def stepLine (line : String) : List String :=
  match tokens line with
  | [] => []
  | ["snap", isBuy, p, t] =>
    let r := Pams.Tick.snap (isBuy = "1") (ratOfBits p.toNat!) (ratOfBits t.toNat!)
    [s!"V {r.num} {r.den}"]
  | ["snapf", isBuy, p, t] =>
    -- the same expression evaluated in IEEE doubles as Python does: exact `%` test, then
    -- floor/ceil of the rounded quotient times the tick
    let pq := ratOfBits p.toNat!
    let tq := ratOfBits t.toNat!
    let pf := fl p
    let tf := fl t
    let r : Float := if Pams.Tick.onGrid pq tq then pf
      else if isBuy = "1" then Float.floor (pf / tf) * tf else Float.ceil (pf / tf) * tf
    [s!"V {r.toBits.toNat}"]
  | "index" :: rest =>
    match runP pComps rest with
    | .ok cs => [s!"V {(Pams.Index.indexValue cs).toBits.toNat}"]
    | .error e => [s!"E {e}"]
  | "ledger" :: na :: nm :: rest =>
    -- ledger <nAgents> <nMarkets> {cashBits {shares}*nMarkets}*nAgents <nFills> {buyer seller market priceBits vol}*
    let na := na.toNat!; let nm := nm.toNat!
    let per := 1 + nm
    let init := rest.take (na * per)
    let cash0 : Nat → Float := fun a => match init[a * per]? with | some t => fl t | none => 0.0
    let sh0 : Nat → Nat → Int := fun a m => match init[a * per + 1 + m]? with | some t => t.toInt! | none => 0
    let tl := rest.drop (na * per + 1)
    let rec fills (l : List String) : List (Pams.Ledger.LFill Float) :=
      match l with
      | b :: s :: m :: p :: v :: tl' =>
        { buyer := b.toNat!, seller := s.toNat!, market := m.toNat!, amount := fl p * Float.ofNat v.toNat!, vol := v.toNat! } :: fills tl'
      | _ => []
    let bk := Pams.Ledger.applyFills (· - ·) (· + ·) { cash := cash0, shares := sh0 } (fills tl)
    ["V" ++ String.join ((List.range na).map (fun a =>
      s!" {(bk.cash a).toBits.toNat}" ++ String.join ((List.range nm).map (fun m => s!" {bk.shares a m}"))))]
  | "logger" :: rest =>
    -- logger {w <x> | b <n> {x}* | d <x> | f}*   -> V {delivered}* | {pending}*
    let rec ops (l : List String) : List (Pams.Logger.LOp Nat) :=
      match l with
      | "w" :: x :: tl => .write x.toNat! :: ops tl
      | "d" :: x :: tl => .direct x.toNat! :: ops tl
      | "f" :: tl => .flush :: ops tl
      | "b" :: n :: tl =>
        let k := n.toNat!
        .bulkWrite ((tl.take k).map String.toNat!) :: ops (tl.drop k)
      | _ => []
    termination_by l.length
    decreasing_by all_goals (simp_all; try omega)
    let st := Pams.Logger.run ({ pending := [], delivered := [] } : Pams.Logger.LState Nat) (ops rest)
    ["V" ++ String.join (st.delivered.map (fun x => s!" {x}")) ++ " |" ++ String.join (st.pending.map (fun x => s!" {x}"))]
  | "fsched" :: chunk :: rest =>
    let rec fops : List String → List (Pams.FundS.Op Nat)
      | "R" :: t :: more => .read t.toNat! :: fops more
      | "C" :: t :: v :: more => .change t.toNat! (fun _ => v.toNat!) :: fops more
      | "S" :: t :: more => .shock t.toNat! :: fops more
      | _ => []
    let rec go (s : Pams.FundS.St Nat) : List (Pams.FundS.Op Nat) → List Nat × Pams.FundS.St Nat
      | [] => ([], s)
      | op :: more =>
        let s' := s.step op
        let r := go s' more
        (s'.g :: r.1, r.2)
    let r := go (Pams.FundS.init 0 chunk.toNat!) (fops rest)
    ["V" ++ String.join (r.1.map (fun x => s!" {x}")) ++ " |" ++
      String.join ((r.2.prov.take (r.2.g + 1)).map (fun x => s!" {x}"))]
  | "genpath" :: p0 :: rest =>
    let rs := rest.map fl
    ["V" ++ String.join ((Pams.Fund.genPath (fl p0) rs).map (fun x => s!" {x.toBits.toNat}"))]
  | ["fcn", mp, fund, mpPast, wf, wc, wn, noise, margin, tw, mrt, window, cf] =>
    let elr := Pams.Agents.fcnLogReturn (fl mp) (fl fund) (fl mpPast) (fl wf) (fl wc) (fl wn) (fl noise)
      tw.toNat! mrt.toNat! (cf = "1")
    let e := Pams.Agents.fcnExpected (fl mp) elr window.toNat!
    let os := Pams.Agents.fcnOrders (fl mp) e (fl margin) window.toNat!
    [s!"V {elr.toBits.toNat} {e.toBits.toNat} {os.length}" ++ String.join (os.map showOrder)]
  | ["mm", maxBuy, minSell, mp, fund, spread, ttl] =>
    let ob (x : String) : Option Float := if x = "-" then none else some (fl x)
    let base := Pams.Agents.mmBase (ob maxBuy) (ob minSell) (fl mp) 2.0
    let os := Pams.Agents.mmOrders base (fl fund) (fl spread) 0.5 ttl.toNat!
    [s!"V {os.length}" ++ String.join (os.map showOrder)]
  | "arb" :: ip :: idx :: th :: im :: v :: ttl :: n :: rest =>
    let n := n.toNat!
    let rec comps (l : List String) (k : Nat) : List (Nat × Float) :=
      match k, l with
      | k + 1, m :: p :: tl => (m.toNat!, fl p) :: comps tl k
      | _, _ => []
    let cs := comps rest n
    let side := Pams.Agents.arbSide (fl ip) (fl idx) (fl th)
    let os := Pams.Agents.arbOrders side im.toNat! (fl ip) cs v.toNat! ttl.toNat!
    [s!"V {os.length}" ++ String.join (os.map (fun o => s!" {o.1}" ++ showOrder o.2))]
  | t :: _ => [s!"E unknown {t}"]

partial def loop (h : IO.FS.Stream) : IO Unit := do
  let line ← h.getLine
  if line.isEmpty then return ()
  for o in stepLine line do IO.println o
  loop h

def main : IO Unit := do loop (← IO.getStdin)
