/-
Line-protocol driver for the pure numeric models.   lake env lean --run Driver/Pure.lean < lines
  snap <isBuy> <priceBits> <tickBits>        -> V <num> <den>     (exact rational result, C19)
  snapf <isBuy> <priceBits> <tickBits>       -> V <bits>          (same expression in doubles)
  index <n> {<priceBits> <shares>}*           -> V <bits>          (Float instance, C17)
-/
import Driver.Proto
import PamsModel.Tick
import PamsModel.Index

open Proto

/-- the exact rational value of a finite double given by its bit pattern -/
def ratOfBits (b : Nat) : ℚ :=
  let sign : Nat := b / 2 ^ 63
  let e : Nat := (b / 2 ^ 52) % 2048
  let m : Nat := b % 2 ^ 52
  let full : Nat := m + 2 ^ 52
  let v : ℚ := if e = 0 then (m : ℚ) / ((2 ^ 1074 : Nat) : ℚ)
    else if e ≥ 1075 then ((full * 2 ^ (e - 1075) : Nat) : ℚ)
    else (full : ℚ) / ((2 ^ (1075 - e) : Nat) : ℚ)
  if sign = 1 then -v else v

def fl (s : String) : Float := Float.ofBits (UInt64.ofNat s.toNat!)

def pComps : Parser (List (Float × Nat)) := do
  let n ← nat
  many n (do let b ← nat; let s ← nat; pure (Float.ofBits (UInt64.ofNat b), s))

def stepLine (line : String) : List String :=
  match tokens line with
  | [] => []
  | ["snap", isBuy, p, t] =>
    let r := Pams.Tick.snap (isBuy = "1") (ratOfBits p.toNat!) (ratOfBits t.toNat!)
    [s!"V {r.num} {r.den}"]
  | ["snapf", isBuy, p, t] =>
    -- the same expression evaluated in IEEE doubles as Python does: exact `%` test, then
    -- floor/ceil of the rounded quotient times the tick
    let pq := ratOfBits p.toNat!
    let tq := ratOfBits t.toNat!
    let pf := fl p
    let tf := fl t
    let r : Float := if Pams.Tick.onGrid pq tq then pf
      else if isBuy = "1" then Float.floor (pf / tf) * tf else Float.ceil (pf / tf) * tf
    [s!"V {r.toBits.toNat}"]
  | "index" :: rest =>
    match runP pComps rest with
    | .ok cs => [s!"V {(Pams.Index.indexValue cs).toBits.toNat}"]
    | .error e => [s!"E {e}"]
  | t :: _ => [s!"E unknown {t}"]

partial def loop (h : IO.FS.Stream) : IO Unit := do
  let line ← h.getLine
  if line.isEmpty then return ()
  for o in stepLine line do IO.println o
  loop h

def main : IO Unit := do loop (← IO.getStdin)
