/-
Line-protocol driver for the hook model (C13).   lake env lean --run Driver/Hooks.lean < lines
  CASE
  H <id> <event> <kind 0..8> <hasTimes> <n> {t}* <cls 0|1|2> <inst|->     register (prints `R ok` / `R dup`)
  O <kind> <time> <mid|-> <isIndex>                                      prints `D {event}*`
-/
import Driver.Proto
import PamsModel.Hooks

open Pams.Hooks Proto

def kindOf (n : Nat) : Kind :=
  match n with
  | 0 => .orderBefore | 1 => .orderAfter | 2 => .cancelBefore | 3 => .cancelAfter
  | 4 => .executionAfter | 5 => .sessionBefore | 6 => .sessionAfter | 7 => .marketBefore
  | _ => .marketAfter

def pHook : Parser Hook := do
  let id ← nat; let event ← nat; let k ← nat; let ht ← bool; let n ← nat
  let ts ← many n int
  let c ← nat; let inst ← oNat
  pure { id, event, kind := kindOf k, times := if ht then some ts else none,
         cls := if c = 0 then none else if c = 1 then some .market else some .index, inst }

def stepLine (tbl : Table) (line : String) : Table × List String :=
  match tokens line with
  | [] => (tbl, [])
  | "CASE" :: _ => ([], [])
  | "H" :: rest =>
    match runP pHook rest with
    | .ok h =>
      match register tbl h with
      | some t' => (t', ["R ok"])
      | none => (tbl, ["R dup"])
    | .error e => (tbl, [s!"E {e}"])
  | ["O", k, t, mid, isIndex] =>
    let market := match optNat mid with
      | some m => some (m, isIndex = "1")
      | none => none
    let hs := dispatch tbl (kindOf k.toNat!) t.toInt! market
    (tbl, ["D" ++ String.join (hs.map (fun h => s!" {h.event}"))])
  | t :: _ => (tbl, [s!"E unknown {t}"])

partial def loop (h : IO.FS.Stream) (tbl : Table) : IO Unit := do
  let line ← h.getLine
  if line.isEmpty then return ()
  let (t', outs) := stepLine tbl line
  for o in outs do IO.println o
  loop h t'

def main : IO Unit := do loop (← IO.getStdin) []
