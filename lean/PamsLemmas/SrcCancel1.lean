/-
`Market._cancel_order` of the current source = the model's `Market.cancel`, shape by shape (see
SrcCancelDefs.lean for the setting): part 1.
-/
import PamsLemmas.SrcCancelPaths1
import PamsLemmas.SrcCancelTac

namespace Pams.Src
open Pams Pams.Py
variable {K : Type} [LinearOrder K] [NumOpsC K]
set_option maxRecDepth 100000
set_option maxHeartbeats 1000000

theorem cancel_src_tt_alone (m : Market K) (a c d : Order K) (dflt pa pc pd md mp : K) (gk : Gone)
    (hb : m.buys = [a]) (hs : m.sells = [d]) (ha : a.isBuy = true) (hpa : a.price = some pa) (hta : a.ttl = none)
    (hc : c.isBuy = true) (hpc : c.price = some pc) (hd : d.isBuy = false) (hpd : d.price = some pd)
    (ht : m.time = 0) (hl : m.cur.last = none) (hmid : m.cur.mid = some md) (hmk : m.cur.market = some mp)
    (hac : a.id ≠ c.id) (had : a.id ≠ d.id) (hcd : c.id ≠ d.id) (h2 : (NumOpsC.ofInt 2 : K) ≠ NumOpsC.ofInt 0)
    (hg : True) :
    resultG cancelObs (rhoCancel m a c d dflt) env XFUEL "Market._cancel_order" [.ref 5, .ref 2] (stCancel true true .alone)
      = modelCancelObs a (m.cancel (srcOps K) a.id) := by
  rcases m with ⟨time, running, nextId, buys, sells, gone, ⟨cmk, clast, cmid, cfund, cev, cto, cnb, cns⟩, past⟩
  rcases a with ⟨ida, aga, isBuya, pricea, vola, pla, ttla⟩
  rcases c with ⟨idc, agc, isBuyc, pricec, volc, plc, ttlc⟩
  rcases d with ⟨idd, agd, isBuyd, priced, vold, pld, ttld⟩
  simp only at hb hs ha hpa hta hc hpc hd hpd ht hl hmid hmk hac had hcd hg
  subst hb hs ha hpa hta hc hpc hd hpd ht hl hmid hmk
  apply resultG_eq_of_pathsP hrefl_order
  show ∀ p ∈ cancelPaths true true .alone, _
  py_paths cancelP_tt_alone
  cancel_paths_finish [hac, had, hcd, h2, Ne.symm hac, Ne.symm had, Ne.symm hcd]

theorem cancel_src_tt_top (m : Market K) (a c d : Order K) (dflt pa pc pd md mp : K) (gk : Gone)
    (hb : m.buys = [a, c]) (hs : m.sells = [d]) (ha : a.isBuy = true) (hpa : a.price = some pa) (hta : a.ttl = none)
    (hc : c.isBuy = true) (hpc : c.price = some pc) (hd : d.isBuy = false) (hpd : d.price = some pd)
    (ht : m.time = 0) (hl : m.cur.last = none) (hmid : m.cur.mid = some md) (hmk : m.cur.market = some mp)
    (hac : a.id ≠ c.id) (had : a.id ≠ d.id) (hcd : c.id ≠ d.id) (h2 : (NumOpsC.ofInt 2 : K) ≠ NumOpsC.ofInt 0)
    (hg : c.lt a = false) :
    resultG cancelObs (rhoCancel m a c d dflt) env XFUEL "Market._cancel_order" [.ref 5, .ref 2] (stCancel true true .top)
      = modelCancelObs a (m.cancel (srcOps K) a.id) := by
  rcases m with ⟨time, running, nextId, buys, sells, gone, ⟨cmk, clast, cmid, cfund, cev, cto, cnb, cns⟩, past⟩
  rcases a with ⟨ida, aga, isBuya, pricea, vola, pla, ttla⟩
  rcases c with ⟨idc, agc, isBuyc, pricec, volc, plc, ttlc⟩
  rcases d with ⟨idd, agd, isBuyd, priced, vold, pld, ttld⟩
  simp only at hb hs ha hpa hta hc hpc hd hpd ht hl hmid hmk hac had hcd hg
  subst hb hs ha hpa hta hc hpc hd hpd ht hl hmid hmk
  simp [Order.lt, gtLt, cmpPlaced] at hg
  apply resultG_eq_of_pathsP hrefl_order
  show ∀ p ∈ cancelPaths true true .top, _
  py_paths cancelP_tt_top
  cancel_paths_finish [hac, had, hcd, h2, Ne.symm hac, Ne.symm had, Ne.symm hcd]

theorem cancel_src_tt_second (m : Market K) (a c d : Order K) (dflt pa pc pd md mp : K) (gk : Gone)
    (hb : m.buys = [c, a]) (hs : m.sells = [d]) (ha : a.isBuy = true) (hpa : a.price = some pa) (hta : a.ttl = none)
    (hc : c.isBuy = true) (hpc : c.price = some pc) (hd : d.isBuy = false) (hpd : d.price = some pd)
    (ht : m.time = 0) (hl : m.cur.last = none) (hmid : m.cur.mid = some md) (hmk : m.cur.market = some mp)
    (hac : a.id ≠ c.id) (had : a.id ≠ d.id) (hcd : c.id ≠ d.id) (h2 : (NumOpsC.ofInt 2 : K) ≠ NumOpsC.ofInt 0)
    (hg : True) :
    resultG cancelObs (rhoCancel m a c d dflt) env XFUEL "Market._cancel_order" [.ref 5, .ref 2] (stCancel true true .second)
      = modelCancelObs a (m.cancel (srcOps K) a.id) := by
  rcases m with ⟨time, running, nextId, buys, sells, gone, ⟨cmk, clast, cmid, cfund, cev, cto, cnb, cns⟩, past⟩
  rcases a with ⟨ida, aga, isBuya, pricea, vola, pla, ttla⟩
  rcases c with ⟨idc, agc, isBuyc, pricec, volc, plc, ttlc⟩
  rcases d with ⟨idd, agd, isBuyd, priced, vold, pld, ttld⟩
  simp only at hb hs ha hpa hta hc hpc hd hpd ht hl hmid hmk hac had hcd hg
  subst hb hs ha hpa hta hc hpc hd hpd ht hl hmid hmk
  apply resultG_eq_of_pathsP hrefl_order
  show ∀ p ∈ cancelPaths true true .second, _
  py_paths cancelP_tt_second
  cancel_paths_finish [hac, had, hcd, h2, Ne.symm hac, Ne.symm had, Ne.symm hcd]

theorem cancel_src_tt_goneEmpty (m : Market K) (a c d : Order K) (dflt pa pc pd md mp : K) (gk : Gone)
    (hb : m.buys = []) (hs : m.sells = [d]) (ha : a.isBuy = true) (hpa : a.price = some pa) (hta : a.ttl = none)
    (hc : c.isBuy = true) (hpc : c.price = some pc) (hd : d.isBuy = false) (hpd : d.price = some pd)
    (ht : m.time = 0) (hl : m.cur.last = none) (hmid : m.cur.mid = some md) (hmk : m.cur.market = some mp)
    (hac : a.id ≠ c.id) (had : a.id ≠ d.id) (hcd : c.id ≠ d.id) (h2 : (NumOpsC.ofInt 2 : K) ≠ NumOpsC.ofInt 0)
    (hg : m.gone.find? (fun g => g.1.id = a.id) = some (a, gk)) :
    resultG cancelObs (rhoCancel m a c d dflt) env XFUEL "Market._cancel_order" [.ref 5, .ref 2] (stCancel true true .goneEmpty)
      = modelCancelObs a (m.cancel (srcOps K) a.id) := by
  rcases m with ⟨time, running, nextId, buys, sells, gone, ⟨cmk, clast, cmid, cfund, cev, cto, cnb, cns⟩, past⟩
  rcases a with ⟨ida, aga, isBuya, pricea, vola, pla, ttla⟩
  rcases c with ⟨idc, agc, isBuyc, pricec, volc, plc, ttlc⟩
  rcases d with ⟨idd, agd, isBuyd, priced, vold, pld, ttld⟩
  simp only at hb hs ha hpa hta hc hpc hd hpd ht hl hmid hmk hac had hcd hg
  subst hb hs ha hpa hta hc hpc hd hpd ht hl hmid hmk
  apply resultG_eq_of_pathsP hrefl_order
  show ∀ p ∈ cancelPaths true true .goneEmpty, _
  py_paths cancelP_tt_goneEmpty
  cancel_paths_finish [hac, had, hcd, h2, Ne.symm hac, Ne.symm had, Ne.symm hcd, hg]

theorem cancel_src_tt_goneOther (m : Market K) (a c d : Order K) (dflt pa pc pd md mp : K) (gk : Gone)
    (hb : m.buys = [c]) (hs : m.sells = [d]) (ha : a.isBuy = true) (hpa : a.price = some pa) (hta : a.ttl = none)
    (hc : c.isBuy = true) (hpc : c.price = some pc) (hd : d.isBuy = false) (hpd : d.price = some pd)
    (ht : m.time = 0) (hl : m.cur.last = none) (hmid : m.cur.mid = some md) (hmk : m.cur.market = some mp)
    (hac : a.id ≠ c.id) (had : a.id ≠ d.id) (hcd : c.id ≠ d.id) (h2 : (NumOpsC.ofInt 2 : K) ≠ NumOpsC.ofInt 0)
    (hg : m.gone.find? (fun g => g.1.id = a.id) = some (a, gk)) :
    resultG cancelObs (rhoCancel m a c d dflt) env XFUEL "Market._cancel_order" [.ref 5, .ref 2] (stCancel true true .goneOther)
      = modelCancelObs a (m.cancel (srcOps K) a.id) := by
  rcases m with ⟨time, running, nextId, buys, sells, gone, ⟨cmk, clast, cmid, cfund, cev, cto, cnb, cns⟩, past⟩
  rcases a with ⟨ida, aga, isBuya, pricea, vola, pla, ttla⟩
  rcases c with ⟨idc, agc, isBuyc, pricec, volc, plc, ttlc⟩
  rcases d with ⟨idd, agd, isBuyd, priced, vold, pld, ttld⟩
  simp only at hb hs ha hpa hta hc hpc hd hpd ht hl hmid hmk hac had hcd hg
  subst hb hs ha hpa hta hc hpc hd hpd ht hl hmid hmk
  apply resultG_eq_of_pathsP hrefl_order
  show ∀ p ∈ cancelPaths true true .goneOther, _
  py_paths cancelP_tt_goneOther
  cancel_paths_finish [hac, had, hcd, h2, Ne.symm hac, Ne.symm had, Ne.symm hcd, hg]

theorem cancel_src_tf_alone (m : Market K) (a c d : Order K) (dflt pa pc pd md mp : K) (gk : Gone)
    (hb : m.buys = [a]) (hs : m.sells = [d]) (ha : a.isBuy = true) (hpa : a.price = none) (hta : a.ttl = none)
    (hc : c.isBuy = true) (hpc : c.price = some pc) (hd : d.isBuy = false) (hpd : d.price = some pd)
    (ht : m.time = 0) (hl : m.cur.last = none) (hmid : m.cur.mid = some md) (hmk : m.cur.market = some mp)
    (hac : a.id ≠ c.id) (had : a.id ≠ d.id) (hcd : c.id ≠ d.id) (h2 : (NumOpsC.ofInt 2 : K) ≠ NumOpsC.ofInt 0)
    (hg : True) :
    resultG cancelObs (rhoCancel m a c d dflt) env XFUEL "Market._cancel_order" [.ref 5, .ref 2] (stCancel true false .alone)
      = modelCancelObs a (m.cancel (srcOps K) a.id) := by
  rcases m with ⟨time, running, nextId, buys, sells, gone, ⟨cmk, clast, cmid, cfund, cev, cto, cnb, cns⟩, past⟩
  rcases a with ⟨ida, aga, isBuya, pricea, vola, pla, ttla⟩
  rcases c with ⟨idc, agc, isBuyc, pricec, volc, plc, ttlc⟩
  rcases d with ⟨idd, agd, isBuyd, priced, vold, pld, ttld⟩
  simp only at hb hs ha hpa hta hc hpc hd hpd ht hl hmid hmk hac had hcd hg
  subst hb hs ha hpa hta hc hpc hd hpd ht hl hmid hmk
  apply resultG_eq_of_pathsP hrefl_order
  show ∀ p ∈ cancelPaths true false .alone, _
  py_paths cancelP_tf_alone
  cancel_paths_finish [hac, had, hcd, h2, Ne.symm hac, Ne.symm had, Ne.symm hcd]

theorem cancel_src_tf_top (m : Market K) (a c d : Order K) (dflt pa pc pd md mp : K) (gk : Gone)
    (hb : m.buys = [a, c]) (hs : m.sells = [d]) (ha : a.isBuy = true) (hpa : a.price = none) (hta : a.ttl = none)
    (hc : c.isBuy = true) (hpc : c.price = some pc) (hd : d.isBuy = false) (hpd : d.price = some pd)
    (ht : m.time = 0) (hl : m.cur.last = none) (hmid : m.cur.mid = some md) (hmk : m.cur.market = some mp)
    (hac : a.id ≠ c.id) (had : a.id ≠ d.id) (hcd : c.id ≠ d.id) (h2 : (NumOpsC.ofInt 2 : K) ≠ NumOpsC.ofInt 0)
    (hg : c.lt a = false) :
    resultG cancelObs (rhoCancel m a c d dflt) env XFUEL "Market._cancel_order" [.ref 5, .ref 2] (stCancel true false .top)
      = modelCancelObs a (m.cancel (srcOps K) a.id) := by
  rcases m with ⟨time, running, nextId, buys, sells, gone, ⟨cmk, clast, cmid, cfund, cev, cto, cnb, cns⟩, past⟩
  rcases a with ⟨ida, aga, isBuya, pricea, vola, pla, ttla⟩
  rcases c with ⟨idc, agc, isBuyc, pricec, volc, plc, ttlc⟩
  rcases d with ⟨idd, agd, isBuyd, priced, vold, pld, ttld⟩
  simp only at hb hs ha hpa hta hc hpc hd hpd ht hl hmid hmk hac had hcd hg
  subst hb hs ha hpa hta hc hpc hd hpd ht hl hmid hmk
  simp [Order.lt, gtLt, cmpPlaced] at hg
  apply resultG_eq_of_pathsP hrefl_order
  show ∀ p ∈ cancelPaths true false .top, _
  py_paths cancelP_tf_top
  cancel_paths_finish [hac, had, hcd, h2, Ne.symm hac, Ne.symm had, Ne.symm hcd]

theorem cancel_src_tf_second (m : Market K) (a c d : Order K) (dflt pa pc pd md mp : K) (gk : Gone)
    (hb : m.buys = [c, a]) (hs : m.sells = [d]) (ha : a.isBuy = true) (hpa : a.price = none) (hta : a.ttl = none)
    (hc : c.isBuy = true) (hpc : c.price = some pc) (hd : d.isBuy = false) (hpd : d.price = some pd)
    (ht : m.time = 0) (hl : m.cur.last = none) (hmid : m.cur.mid = some md) (hmk : m.cur.market = some mp)
    (hac : a.id ≠ c.id) (had : a.id ≠ d.id) (hcd : c.id ≠ d.id) (h2 : (NumOpsC.ofInt 2 : K) ≠ NumOpsC.ofInt 0)
    (hg : True) :
    resultG cancelObs (rhoCancel m a c d dflt) env XFUEL "Market._cancel_order" [.ref 5, .ref 2] (stCancel true false .second)
      = modelCancelObs a (m.cancel (srcOps K) a.id) := by
  rcases m with ⟨time, running, nextId, buys, sells, gone, ⟨cmk, clast, cmid, cfund, cev, cto, cnb, cns⟩, past⟩
  rcases a with ⟨ida, aga, isBuya, pricea, vola, pla, ttla⟩
  rcases c with ⟨idc, agc, isBuyc, pricec, volc, plc, ttlc⟩
  rcases d with ⟨idd, agd, isBuyd, priced, vold, pld, ttld⟩
  simp only at hb hs ha hpa hta hc hpc hd hpd ht hl hmid hmk hac had hcd hg
  subst hb hs ha hpa hta hc hpc hd hpd ht hl hmid hmk
  apply resultG_eq_of_pathsP hrefl_order
  show ∀ p ∈ cancelPaths true false .second, _
  py_paths cancelP_tf_second
  cancel_paths_finish [hac, had, hcd, h2, Ne.symm hac, Ne.symm had, Ne.symm hcd]

theorem cancel_src_tf_goneEmpty (m : Market K) (a c d : Order K) (dflt pa pc pd md mp : K) (gk : Gone)
    (hb : m.buys = []) (hs : m.sells = [d]) (ha : a.isBuy = true) (hpa : a.price = none) (hta : a.ttl = none)
    (hc : c.isBuy = true) (hpc : c.price = some pc) (hd : d.isBuy = false) (hpd : d.price = some pd)
    (ht : m.time = 0) (hl : m.cur.last = none) (hmid : m.cur.mid = some md) (hmk : m.cur.market = some mp)
    (hac : a.id ≠ c.id) (had : a.id ≠ d.id) (hcd : c.id ≠ d.id) (h2 : (NumOpsC.ofInt 2 : K) ≠ NumOpsC.ofInt 0)
    (hg : m.gone.find? (fun g => g.1.id = a.id) = some (a, gk)) :
    resultG cancelObs (rhoCancel m a c d dflt) env XFUEL "Market._cancel_order" [.ref 5, .ref 2] (stCancel true false .goneEmpty)
      = modelCancelObs a (m.cancel (srcOps K) a.id) := by
  rcases m with ⟨time, running, nextId, buys, sells, gone, ⟨cmk, clast, cmid, cfund, cev, cto, cnb, cns⟩, past⟩
  rcases a with ⟨ida, aga, isBuya, pricea, vola, pla, ttla⟩
  rcases c with ⟨idc, agc, isBuyc, pricec, volc, plc, ttlc⟩
  rcases d with ⟨idd, agd, isBuyd, priced, vold, pld, ttld⟩
  simp only at hb hs ha hpa hta hc hpc hd hpd ht hl hmid hmk hac had hcd hg
  subst hb hs ha hpa hta hc hpc hd hpd ht hl hmid hmk
  apply resultG_eq_of_pathsP hrefl_order
  show ∀ p ∈ cancelPaths true false .goneEmpty, _
  py_paths cancelP_tf_goneEmpty
  cancel_paths_finish [hac, had, hcd, h2, Ne.symm hac, Ne.symm had, Ne.symm hcd, hg]

theorem cancel_src_tf_goneOther (m : Market K) (a c d : Order K) (dflt pa pc pd md mp : K) (gk : Gone)
    (hb : m.buys = [c]) (hs : m.sells = [d]) (ha : a.isBuy = true) (hpa : a.price = none) (hta : a.ttl = none)
    (hc : c.isBuy = true) (hpc : c.price = some pc) (hd : d.isBuy = false) (hpd : d.price = some pd)
    (ht : m.time = 0) (hl : m.cur.last = none) (hmid : m.cur.mid = some md) (hmk : m.cur.market = some mp)
    (hac : a.id ≠ c.id) (had : a.id ≠ d.id) (hcd : c.id ≠ d.id) (h2 : (NumOpsC.ofInt 2 : K) ≠ NumOpsC.ofInt 0)
    (hg : m.gone.find? (fun g => g.1.id = a.id) = some (a, gk)) :
    resultG cancelObs (rhoCancel m a c d dflt) env XFUEL "Market._cancel_order" [.ref 5, .ref 2] (stCancel true false .goneOther)
      = modelCancelObs a (m.cancel (srcOps K) a.id) := by
  rcases m with ⟨time, running, nextId, buys, sells, gone, ⟨cmk, clast, cmid, cfund, cev, cto, cnb, cns⟩, past⟩
  rcases a with ⟨ida, aga, isBuya, pricea, vola, pla, ttla⟩
  rcases c with ⟨idc, agc, isBuyc, pricec, volc, plc, ttlc⟩
  rcases d with ⟨idd, agd, isBuyd, priced, vold, pld, ttld⟩
  simp only at hb hs ha hpa hta hc hpc hd hpd ht hl hmid hmk hac had hcd hg
  subst hb hs ha hpa hta hc hpc hd hpd ht hl hmid hmk
  apply resultG_eq_of_pathsP hrefl_order
  show ∀ p ∈ cancelPaths true false .goneOther, _
  py_paths cancelP_tf_goneOther
  cancel_paths_finish [hac, had, hcd, h2, Ne.symm hac, Ne.symm had, Ne.symm hcd, hg]

end Pams.Src
