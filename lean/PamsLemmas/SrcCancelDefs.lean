/-
`Market._cancel_order` as it stands in /repo (translated: `PamsGen.Code`, with `OrderBook.cancel`,
`OrderBook._remove`, `Order.__eq__`, `list.remove` / `in` by identity-then-`__eq__`, `heapq` by contract,
`_update_market_price`, `CancelLog.__init__`) against the model `Market.cancel` — setting and vocabulary.

Shape of the state: market 0 in its first step; the order to cancel is the object at address 1
(accepted: id, acceptance time, volume, agent are atoms); its side holds it alone, on top of another
order (address 3), behind that order, or not at all (it left the book earlier: filled / expired /
cancelled); the opposite side holds one limit order (address 4), so that the mid-quote is visible.
-/
import PamsLemmas.SrcAddDefs

namespace Pams.Src
open Pams Pams.Py

variable {K : Type} [LinearOrder K] [NumOpsC K]

/-- where the order to cancel is -/
inductive Pos | alone | top | second | goneEmpty | goneOther
deriving DecidableEq

def cancelObj : String → Option Val
  | "__class__" => some (.str "Cancel")
  | "order" => some (.ref 1)
  | "placed_at" => some .none
  | _ => none

def Pos.queue : Pos → List Val
  | .alone => [.ref 1]
  | .top => [.ref 1, .ref 3]
  | .second => [.ref 3, .ref 1]
  | .goneEmpty => []
  | .goneOther => [.ref 3]

def cancelOrds (isBuy limit : Bool) : Nat → Option (String → Option Val)
  | 1 => some (mOrder 1 isBuy limit false)
  | 2 => some cancelObj
  | 3 => some (mOrder 3 isBuy true false)
  | 4 => some (mOrder 4 (!isBuy) true false)
  | _ => Option.none

def stCancel (isBuy limit : Bool) (pos : Pos) : St :=
  { heap := mHeap false true (if isBuy then pos.queue else [.ref 4]) (if isBuy then [.ref 4] else pos.queue)
      (cancelOrds isBuy limit), calls := [] }

/-- what is observed of a cancellation: the mark on the order, the cancel's stamp, the two queues, the
mid-quote and the market price of the step, and the returned log -/
def cancelObs : Except Py.Err (Val × St) → Obs
  | .ok (v, st) =>
    .tuple [ Obs.ofOpt (st.heap 1 "is_canceled"), Obs.ofOpt (st.heap 2 "placed_at"),
             listObs st 6 "priority_queue", listObs st 7 "priority_queue",
             listObs st 5 "_mid_prices", listObs st 5 "_market_prices",
             (match v with
              | .ref a => .tuple [Obs.ofOpt (st.heap a "order_id"), Obs.ofOpt (st.heap a "market_id"),
                                   Obs.ofOpt (st.heap a "cancel_time"), Obs.ofOpt (st.heap a "order_time"),
                                   Obs.ofOpt (st.heap a "agent_id"), Obs.ofOpt (st.heap a "is_buy"),
                                   Obs.ofOpt (st.heap a "volume"), Obs.ofOpt (st.heap a "price"),
                                   Obs.ofOpt (st.heap a "ttl")]
              | _ => .other) ]
  | .error e => .err e

def cancelPaths (isBuy limit : Bool) (pos : Pos) :=
  obsPathsPG cancelObs env XFUEL "Market._cancel_order" [.ref 5, .ref 2] (stCancel isBuy limit pos)

/-- valuation: the order `a` to cancel (address 1), the other order `c` of its side (address 3), the
order `d` of the opposite side (address 4), the market `m` -/
def rhoCancel (m : Market K) (a c d : Order K) (dflt : K) : Rho K :=
  { i := fun k =>
      if k = 10 then a.id else if k = 11 then a.placedAt else if k = 12 then a.agent else if k = 13 then a.vol
      else if k = 30 then c.id else if k = 31 then c.placedAt else if k = 32 then c.agent else if k = 33 then c.vol
      else if k = 40 then d.id else if k = 41 then d.placedAt else if k = 42 then d.agent else if k = 43 then d.vol
      else if k = 51 then m.nextId else if k = 52 then m.cur.nBuy else if k = 53 then m.cur.nSell
      else if k = 54 then m.cur.execVol else 0
    n := fun k =>
      if k = 1 then a.price.getD dflt else if k = 3 then c.price.getD dflt else if k = 4 then d.price.getD dflt
      else if k = 51 then m.cur.turnover else if k = 52 then m.cur.last.getD dflt
      else if k = 53 then m.cur.market.getD dflt else if k = 54 then m.cur.mid.getD dflt else dflt
    b := fun k => if k = 50 then m.running else false }

/-- the observation `cancelObs` of the model's `Market.cancel` (orders are named by their addresses: the
cancelled one is 1, the other one of its side 3, the opposite one 4) -/
def modelCancelObs (a : Order K) (res : Except Pams.Err (Market K × CancelLog K)) : CObs K :=
  match res with
  | .error _ => .err (.raise "ValueError")
  | .ok (m, log) =>
    let ref (o : Order K) : CObs K := if o.id = a.id then .ref 1 else if o.isBuy = a.isBuy then .ref 3 else .ref 4
    .tuple [ .bool true, .int log.cancelTime, .tuple (m.buys.map ref), .tuple (m.sells.map ref),
             .tuple [cOpt m.cur.mid], .tuple [cOpt m.cur.market],
             .tuple [.int log.id, .int 0, .int log.cancelTime, .int log.orderTime, .int log.agent, .bool log.isBuy,
                     .int log.vol, cOpt log.price, cOptNat log.ttl] ]

end Pams.Src
