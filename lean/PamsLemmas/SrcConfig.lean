/-
`json_extends` as it stands in /repo (translated: `PamsGen.Code`) is the model's `Config.jsonExtends` — by
symbolic execution on configurations given as model objects: a model object (`Config.Obj`, opaque key and
value codes) is written out as a Python dict (`objVal`: key code ↦ a fixed string, the value under
`"extends"` ↦ the parent's name, every other value code `n` ↦ the int atom `n`, whose value is
quantified), the source is run on it, and the dict it returns is compared, key by key in order, with the
model's result.
-/
import PamsLemmas.EvalNf
import PamsGen.Code
import PamsModel.Config
import PamsLemmas.SrcOrder

namespace Pams.Src
open Pams Pams.Py Pams.Config

variable {K : Type} [LinearOrder K] [NumOpsC K]

def keyStr : Nat → String
  | 0 => "extends" | 1 => "x" | 2 => "y" | 3 => "z" | 4 => "w" | _ => "other"

def nameStr : Nat → String
  | 10 => "A" | 11 => "B" | 12 => "C" | 13 => "child" | _ => "Z"

def objVal (o : Obj) : Val :=
  .dict (o.map (fun kv => .str (keyStr kv.1)))
        (o.map (fun kv => if kv.1 = 0 then .str (nameStr kv.2) else .int (.atom kv.2)))

def wholeVal (w : List (Nat × Obj)) : Val :=
  .dict (w.map (fun x => .str (nameStr x.1))) (w.map (fun x => objVal x.2))

def exclVal : Option (List Nat) → Val
  | none => .none
  | some l => .list (l.map (fun k => .str (keyStr k)))

def cfgEnv : Env := { prog := PamsGen.Code.prog, globals := globals, ext := fun _ _ _ _ => none }
def cfgSt : St := { heap := fun _ _ => none, calls := [] }

/-- the returned dict, keys and values in order -/
def dictObs : Except Py.Err (Val × St) → Obs
  | .ok (.dict ks vs, _) => .tuple [.tuple (ks.map Obs.ofVal), .tuple (vs.map Obs.ofVal)]
  | .ok _ => .other
  | .error e => .err e

def cfgPaths (w : List (Nat × Obj)) (p : Nat) (t : Obj) (e : Option (List Nat)) :=
  obsPathsPG dictObs cfgEnv FUEL "json_extends" [wholeVal w, .str (nameStr p), objVal t, exclVal e] cfgSt

def rhoCfg (val : Nat → Int) : Rho K :=
  { i := fun k => val k, n := fun _ => PyNum.ofInt 0, b := fun _ => false }

/-- the model's result as observed (a missing parent and an inheritance cycle are both `ValueError`) -/
def cfgObs (val : Nat → Int) : Except ExtErr Obj → CObs K
  | .ok o => .tuple [.tuple (o.map (fun kv => .str (keyStr kv.1))),
                     .tuple (o.map (fun kv => if kv.1 = 0 then .str (nameStr kv.2) else .int (val kv.2)))]
  | .error _ => .err (.raise "ValueError")

/-- three classes: A extends B extends C, with overlapping keys in different orders -/
def wABC : List (Nat × Obj) :=
  [(10, [(0, 11), (1, 101), (2, 102)]), (11, [(2, 112), (0, 12), (3, 113)]), (12, [(3, 123), (4, 124), (1, 121)])]
/-- A and B extend each other -/
def wCyc : List (Nat × Obj) := [(10, [(1, 101), (0, 11)]), (11, [(0, 10), (2, 112)])]

def tgt : Obj := [(4, 904), (0, 10), (2, 902)]

def CfgSpec (K : Type) [LinearOrder K] [NumOpsC K] (w : List (Nat × Obj)) (p : Nat) (t : Obj)
    (e : Option (List Nat)) : Prop :=
  ∀ val : Nat → Int,
    resultG dictObs (rhoCfg (K := K) val) cfgEnv FUEL "json_extends" [wholeVal w, .str (nameStr p), objVal t, exclVal e] cfgSt
      = cfgObs val (jsonExtends w p t (e.getD []))

set_option maxRecDepth 100000
theorem cfP1 : cfgPaths wABC 13 tgt none = evalnf% (cfgPaths wABC 13 tgt none) := by kernel_rfl
theorem cfP2 : cfgPaths wABC 13 tgt (some [2, 4]) = evalnf% (cfgPaths wABC 13 tgt (some [2, 4])) := by kernel_rfl
theorem cfP3 : cfgPaths wCyc 13 tgt (some []) = evalnf% (cfgPaths wCyc 13 tgt (some [])) := by kernel_rfl
theorem cfP4 : cfgPaths wABC 13 [(1, 901), (0, 14)] none = evalnf% (cfgPaths wABC 13 [(1, 901), (0, 14)] none) := by kernel_rfl
theorem cfP5 : cfgPaths wABC 13 [(1, 901), (3, 903)] none = evalnf% (cfgPaths wABC 13 [(1, 901), (3, 903)] none) := by kernel_rfl
theorem cfP6 : cfgPaths wABC 10 tgt none = evalnf% (cfgPaths wABC 10 tgt none) := by kernel_rfl
theorem cfP7 : cfgPaths wABC 13 [(0, 12), (3, 903)] (some [3]) = evalnf% (cfgPaths wABC 13 [(0, 12), (3, 903)] (some [3])) := by kernel_rfl

macro "cfg_finish" : tactic =>
  `(tactic| (intro _; simp [Obs.eval, Obs.evalList, ITerm.eval, rhoCfg, cfgObs, jsonExtends, extendsLoop, lookup,
               lookupObj, erase, merge, wABC, wCyc, tgt, keyStr, nameStr]))

/-- the whole chain: every key takes the value of the nearest class that has it, in the order Python's
`dict(parent_items, **own)` produces -/
theorem config_src_chain : CfgSpec K wABC 13 tgt none := by
  intro val
  apply resultG_eq_of_pathsP (by intro x; simp)
  show ∀ p ∈ cfgPaths wABC 13 tgt none, _
  py_paths cfP1
  cfg_finish

/-- excluded fields are not inherited (but kept where the target itself has them) -/
theorem config_src_excludes : CfgSpec K wABC 13 tgt (some [2, 4]) := by
  intro val
  apply resultG_eq_of_pathsP (by intro x; simp)
  show ∀ p ∈ cfgPaths wABC 13 tgt (some [2, 4]), _
  py_paths cfP2
  cfg_finish

theorem config_src_cycle : CfgSpec K wCyc 13 tgt (some []) := by
  intro val
  apply resultG_eq_of_pathsP (by intro x; simp)
  show ∀ p ∈ cfgPaths wCyc 13 tgt (some []), _
  py_paths cfP3
  cfg_finish

theorem config_src_missing : CfgSpec K wABC 13 [(1, 901), (0, 14)] none := by
  intro val
  apply resultG_eq_of_pathsP (by intro x; simp)
  show ∀ p ∈ cfgPaths wABC 13 [(1, 901), (0, 14)] none, _
  py_paths cfP4
  cfg_finish

theorem config_src_plain : CfgSpec K wABC 13 [(1, 901), (3, 903)] none := by
  intro val
  apply resultG_eq_of_pathsP (by intro x; simp)
  show ∀ p ∈ cfgPaths wABC 13 [(1, 901), (3, 903)] none, _
  py_paths cfP5
  cfg_finish

/-- a class may not extend itself (the target's own name opens the history) -/
theorem config_src_self : CfgSpec K wABC 10 tgt none := by
  intro val
  apply resultG_eq_of_pathsP (by intro x; simp)
  show ∀ p ∈ cfgPaths wABC 10 tgt none, _
  py_paths cfP6
  cfg_finish

theorem config_src_leaf : CfgSpec K wABC 13 [(0, 12), (3, 903)] (some [3]) := by
  intro val
  apply resultG_eq_of_pathsP (by intro x; simp)
  show ∀ p ∈ cfgPaths wABC 13 [(0, 12), (3, 903)] (some [3]), _
  py_paths cfP7
  cfg_finish

end Pams.Src

/-! ### `JsonRandom.random`: the random values of a configuration -/
namespace Pams.Src
open Pams Pams.Py Pams.Config
variable {K : Type} [LinearOrder K] [NumOpsC K]

/-- the generator: `random()` answers num atom 1, `gauss(mu, sigma)` num atom 2 -/
def jrExt : Ext := fun st recv fn args =>
  match recv, fn, args with
  | .ref 2, "random", [] => some (.num (.atom 1), st)
  | .ref 2, "gauss", [_, _] => some (.num (.atom 2), st)
  | _, _, _ => none

def jrHeap : Nat → String → Option Val :=
  fun addr => if addr = 1 then (fun f => match f with
    | "__class__" => some (.str "JsonRandom") | "prng" => some (.ref 2) | _ => none) else fun _ => none

def jrEnv : Env := { prog := PamsGen.Code.prog, globals := globals, ext := jrExt }
def jrSt : St := { heap := jrHeap, calls := [] }

/-- the result and the draws made (name of each extern call, in order) -/
def jrObs : Except Py.Err (Val × St) → Obs
  | .ok (v, st) => .tuple [Obs.ofVal v, .tuple (st.calls.reverse.map (fun c => Obs.str c.fn))]
  | .error e => .err e

def jrPaths (v : Val) := obsPathsPG jrObs jrEnv FUEL "JsonRandom.random" [.ref 1, v] jrSt

/-- valuation: the uniform draw `u`, the Gaussian draw `g`, the two numbers `a`, `b` of the specification -/
def rhoJr (u g a b : K) : Rho K :=
  { i := fun _ => 0, n := fun k => if k = 1 then u else if k = 2 then g else if k = 10 then a else b, b := fun _ => false }

def na : Val := .num (.atom 10)
def nb : Val := .num (.atom 11)

theorem jrP_list : jrPaths (.list [na, nb]) = evalnf% (jrPaths (.list [na, nb])) := by kernel_rfl
theorem jrP_list3 : jrPaths (.list [na, nb, na]) = evalnf% (jrPaths (.list [na, nb, na])) := by kernel_rfl
theorem jrP_const : jrPaths (.dict [.str "const"] [.list [na]]) = evalnf% (jrPaths (.dict [.str "const"] [.list [na]])) := by kernel_rfl
theorem jrP_unif : jrPaths (.dict [.str "uniform"] [.list [na, nb]]) = evalnf% (jrPaths (.dict [.str "uniform"] [.list [na, nb]])) := by kernel_rfl
theorem jrP_norm : jrPaths (.dict [.str "normal"] [.list [na, nb]]) = evalnf% (jrPaths (.dict [.str "normal"] [.list [na, nb]])) := by kernel_rfl
theorem jrP_expon : jrPaths (.dict [.str "expon"] [.list [na]]) = evalnf% (jrPaths (.dict [.str "expon"] [.list [na]])) := by kernel_rfl
theorem jrP_scalar : jrPaths na = evalnf% (jrPaths na) := by kernel_rfl
theorem jrP_two : jrPaths (.dict [.str "const", .str "uniform"] [.list [na], .list [na, nb]]) = evalnf% (jrPaths (.dict [.str "const", .str "uniform"] [.list [na], .list [na, nb]])) := by kernel_rfl
theorem jrP_unknown : jrPaths (.dict [.str "gamma"] [.list [na]]) = evalnf% (jrPaths (.dict [.str "gamma"] [.list [na]])) := by kernel_rfl
theorem jrP_badlen : jrPaths (.dict [.str "expon"] [.list [na, nb]]) = evalnf% (jrPaths (.dict [.str "expon"] [.list [na, nb]])) := by kernel_rfl
theorem jrP_notlist : jrPaths (.dict [.str "uniform"] [na]) = evalnf% (jrPaths (.dict [.str "uniform"] [na])) := by kernel_rfl

macro "jr_finish" : tactic =>
  `(tactic| (all_goals intro h
             all_goals simp [Obs.eval, Obs.evalList, NTerm.eval, ITerm.eval, BTerm.eval, rhoJr, na, nb, Config.uniform] at h ⊢))

/-- **a two-element list and `{"uniform": [a, b]}` are the model's `uniform u a b = u·(b − a) + a`** with one
draw `u = random()`; `{"const": [a]}` and a bare number are that number without any draw;
`{"normal": [a, b]}` is one `gauss(a, b)`; `{"expon": [a]}` is `a · −log(u)` with one draw -/
theorem json_random_src (u g a b : K) :
    resultG jrObs (rhoJr u g a b) jrEnv FUEL "JsonRandom.random" [.ref 1, .list [na, nb]] jrSt
      = .tuple [.num (Config.uniform u a b), .tuple [.str "random"]] ∧
    resultG jrObs (rhoJr u g a b) jrEnv FUEL "JsonRandom.random" [.ref 1, .dict [.str "uniform"] [.list [na, nb]]] jrSt
      = .tuple [.num (Config.uniform u a b), .tuple [.str "random"]] ∧
    resultG jrObs (rhoJr u g a b) jrEnv FUEL "JsonRandom.random" [.ref 1, .dict [.str "const"] [.list [na]]] jrSt
      = .tuple [.num a, .tuple []] ∧
    resultG jrObs (rhoJr u g a b) jrEnv FUEL "JsonRandom.random" [.ref 1, na] jrSt
      = .tuple [.num a, .tuple []] ∧
    resultG jrObs (rhoJr u g a b) jrEnv FUEL "JsonRandom.random" [.ref 1, .dict [.str "normal"] [.list [na, nb]]] jrSt
      = .tuple [.num g, .tuple [.str "gauss"]] ∧
    resultG jrObs (rhoJr u g a b) jrEnv FUEL "JsonRandom.random" [.ref 1, .dict [.str "expon"] [.list [na]]] jrSt
      = .tuple [.num (a * -(PyNum.log u)), .tuple [.str "random"]] := by
  refine ⟨?_, ?_, ?_, ?_, ?_, ?_⟩
  · apply resultG_eq_of_pathsP (by intro x; simp)
    show ∀ p ∈ jrPaths (.list [na, nb]), _
    py_paths jrP_list
    jr_finish
  · apply resultG_eq_of_pathsP (by intro x; simp)
    show ∀ p ∈ jrPaths (.dict [.str "uniform"] [.list [na, nb]]), _
    py_paths jrP_unif
    jr_finish
  · apply resultG_eq_of_pathsP (by intro x; simp)
    show ∀ p ∈ jrPaths (.dict [.str "const"] [.list [na]]), _
    py_paths jrP_const
    jr_finish
  · apply resultG_eq_of_pathsP (by intro x; simp)
    show ∀ p ∈ jrPaths na, _
    py_paths jrP_scalar
    jr_finish
  · apply resultG_eq_of_pathsP (by intro x; simp)
    show ∀ p ∈ jrPaths (.dict [.str "normal"] [.list [na, nb]]), _
    py_paths jrP_norm
    jr_finish
  · apply resultG_eq_of_pathsP (by intro x; simp)
    show ∀ p ∈ jrPaths (.dict [.str "expon"] [.list [na]]), _
    py_paths jrP_expon
    jr_finish

/-- ill-formed specifications are refused (`ValueError`) before any draw: a list that is not a pair, two
distribution keys, an unknown key, a wrong number of parameters, parameters that are not a list -/
theorem json_random_src_refusals (u g a b : K) :
    resultG jrObs (rhoJr u g a b) jrEnv FUEL "JsonRandom.random" [.ref 1, .list [na, nb, na]] jrSt = .err (.raise "ValueError") ∧
    resultG jrObs (rhoJr u g a b) jrEnv FUEL "JsonRandom.random"
        [.ref 1, .dict [.str "const", .str "uniform"] [.list [na], .list [na, nb]]] jrSt = .err (.raise "ValueError") ∧
    resultG jrObs (rhoJr u g a b) jrEnv FUEL "JsonRandom.random" [.ref 1, .dict [.str "gamma"] [.list [na]]] jrSt
      = .err (.raise "ValueError") ∧
    resultG jrObs (rhoJr u g a b) jrEnv FUEL "JsonRandom.random" [.ref 1, .dict [.str "expon"] [.list [na, nb]]] jrSt
      = .err (.raise "ValueError") ∧
    resultG jrObs (rhoJr u g a b) jrEnv FUEL "JsonRandom.random" [.ref 1, .dict [.str "uniform"] [na]] jrSt
      = .err (.raise "ValueError") := by
  refine ⟨?_, ?_, ?_, ?_, ?_⟩
  · apply resultG_eq_of_pathsP (by intro x; simp)
    show ∀ p ∈ jrPaths (.list [na, nb, na]), _
    py_paths jrP_list3
    jr_finish
  · apply resultG_eq_of_pathsP (by intro x; simp)
    show ∀ p ∈ jrPaths (.dict [.str "const", .str "uniform"] [.list [na], .list [na, nb]]), _
    py_paths jrP_two
    jr_finish
  · apply resultG_eq_of_pathsP (by intro x; simp)
    show ∀ p ∈ jrPaths (.dict [.str "gamma"] [.list [na]]), _
    py_paths jrP_unknown
    jr_finish
  · apply resultG_eq_of_pathsP (by intro x; simp)
    show ∀ p ∈ jrPaths (.dict [.str "expon"] [.list [na, nb]]), _
    py_paths jrP_badlen
    jr_finish
  · apply resultG_eq_of_pathsP (by intro x; simp)
    show ∀ p ∈ jrPaths (.dict [.str "uniform"] [na]), _
    py_paths jrP_notlist
    jr_finish

end Pams.Src
