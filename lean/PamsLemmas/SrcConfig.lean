/-
`json_extends` as it stands in /repo (translated: `PamsGen.Code`) is the model's `Config.jsonExtends` — by
symbolic execution on configurations given as model objects: a model object (`Config.Obj`, opaque key and
value codes) is written out as a Python dict (`objVal`: key code ↦ a fixed string, the value under
`"extends"` ↦ the parent's name, every other value code `n` ↦ the int atom `n`, whose value is
quantified), the source is run on it, and the dict it returns is compared, key by key in order, with the
model's result.
-/
import PamsLemmas.EvalNf
import PamsGen.Code
import PamsModel.Config
import PamsLemmas.SrcOrder

namespace Pams.Src
open Pams Pams.Py Pams.Config

variable {K : Type} [LinearOrder K] [NumOpsC K]

def keyStr : Nat → String
  | 0 => "extends" | 1 => "x" | 2 => "y" | 3 => "z" | 4 => "w" | _ => "other"

def nameStr : Nat → String
  | 10 => "A" | 11 => "B" | 12 => "C" | 13 => "child" | _ => "Z"

def objVal (o : Obj) : Val :=
  .dict (o.map (fun kv => .str (keyStr kv.1)))
        (o.map (fun kv => if kv.1 = 0 then .str (nameStr kv.2) else .int (.atom kv.2)))

def wholeVal (w : List (Nat × Obj)) : Val :=
  .dict (w.map (fun x => .str (nameStr x.1))) (w.map (fun x => objVal x.2))

def exclVal : Option (List Nat) → Val
  | none => .none
  | some l => .list (l.map (fun k => .str (keyStr k)))

def cfgEnv : Env := { prog := PamsGen.Code.prog, globals := globals, ext := fun _ _ _ _ => none }
def cfgSt : St := { heap := fun _ _ => none, calls := [] }

/-- the returned dict, keys and values in order -/
def dictObs : Except Py.Err (Val × St) → Obs
  | .ok (.dict ks vs, _) => .tuple [.tuple (ks.map Obs.ofVal), .tuple (vs.map Obs.ofVal)]
  | .ok _ => .other
  | .error e => .err e

def cfgPaths (w : List (Nat × Obj)) (p : Nat) (t : Obj) (e : Option (List Nat)) :=
  obsPathsPG dictObs cfgEnv FUEL "json_extends" [wholeVal w, .str (nameStr p), objVal t, exclVal e] cfgSt

def rhoCfg (val : Nat → Int) : Rho K :=
  { i := fun k => val k, n := fun _ => PyNum.ofInt 0, b := fun _ => false }

/-- the model's result as observed (a missing parent and an inheritance cycle are both `ValueError`) -/
def cfgObs (val : Nat → Int) : Except ExtErr Obj → CObs K
  | .ok o => .tuple [.tuple (o.map (fun kv => .str (keyStr kv.1))),
                     .tuple (o.map (fun kv => if kv.1 = 0 then .str (nameStr kv.2) else .int (val kv.2)))]
  | .error _ => .err (.raise "ValueError")

/-- three classes: A extends B extends C, with overlapping keys in different orders -/
def wABC : List (Nat × Obj) :=
  [(10, [(0, 11), (1, 101), (2, 102)]), (11, [(2, 112), (0, 12), (3, 113)]), (12, [(3, 123), (4, 124), (1, 121)])]
/-- A and B extend each other -/
def wCyc : List (Nat × Obj) := [(10, [(1, 101), (0, 11)]), (11, [(0, 10), (2, 112)])]

def tgt : Obj := [(4, 904), (0, 10), (2, 902)]

def CfgSpec (K : Type) [LinearOrder K] [NumOpsC K] (w : List (Nat × Obj)) (p : Nat) (t : Obj)
    (e : Option (List Nat)) : Prop :=
  ∀ val : Nat → Int,
    resultG dictObs (rhoCfg (K := K) val) cfgEnv FUEL "json_extends" [wholeVal w, .str (nameStr p), objVal t, exclVal e] cfgSt
      = cfgObs val (jsonExtends w p t (e.getD []))

set_option maxRecDepth 100000
theorem cfP1 : cfgPaths wABC 13 tgt none = evalnf% (cfgPaths wABC 13 tgt none) := by kernel_rfl
theorem cfP2 : cfgPaths wABC 13 tgt (some [2, 4]) = evalnf% (cfgPaths wABC 13 tgt (some [2, 4])) := by kernel_rfl
theorem cfP3 : cfgPaths wCyc 13 tgt (some []) = evalnf% (cfgPaths wCyc 13 tgt (some [])) := by kernel_rfl
theorem cfP4 : cfgPaths wABC 13 [(1, 901), (0, 14)] none = evalnf% (cfgPaths wABC 13 [(1, 901), (0, 14)] none) := by kernel_rfl
theorem cfP5 : cfgPaths wABC 13 [(1, 901), (3, 903)] none = evalnf% (cfgPaths wABC 13 [(1, 901), (3, 903)] none) := by kernel_rfl
theorem cfP6 : cfgPaths wABC 10 tgt none = evalnf% (cfgPaths wABC 10 tgt none) := by kernel_rfl
theorem cfP7 : cfgPaths wABC 13 [(0, 12), (3, 903)] (some [3]) = evalnf% (cfgPaths wABC 13 [(0, 12), (3, 903)] (some [3])) := by kernel_rfl

macro "cfg_finish" : tactic =>
  `(tactic| (intro _; simp [Obs.eval, Obs.evalList, ITerm.eval, rhoCfg, cfgObs, jsonExtends, extendsLoop, lookup,
               lookupObj, erase, merge, wABC, wCyc, tgt, keyStr, nameStr]))

/-- the whole chain: every key takes the value of the nearest class that has it, in the order Python's
`dict(parent_items, **own)` produces -/
theorem config_src_chain : CfgSpec K wABC 13 tgt none := by
  intro val
  apply resultG_eq_of_pathsP (by intro x; simp)
  show ∀ p ∈ cfgPaths wABC 13 tgt none, _
  py_paths cfP1
  cfg_finish

/-- excluded fields are not inherited (but kept where the target itself has them) -/
theorem config_src_excludes : CfgSpec K wABC 13 tgt (some [2, 4]) := by
  intro val
  apply resultG_eq_of_pathsP (by intro x; simp)
  show ∀ p ∈ cfgPaths wABC 13 tgt (some [2, 4]), _
  py_paths cfP2
  cfg_finish

theorem config_src_cycle : CfgSpec K wCyc 13 tgt (some []) := by
  intro val
  apply resultG_eq_of_pathsP (by intro x; simp)
  show ∀ p ∈ cfgPaths wCyc 13 tgt (some []), _
  py_paths cfP3
  cfg_finish

theorem config_src_missing : CfgSpec K wABC 13 [(1, 901), (0, 14)] none := by
  intro val
  apply resultG_eq_of_pathsP (by intro x; simp)
  show ∀ p ∈ cfgPaths wABC 13 [(1, 901), (0, 14)] none, _
  py_paths cfP4
  cfg_finish

theorem config_src_plain : CfgSpec K wABC 13 [(1, 901), (3, 903)] none := by
  intro val
  apply resultG_eq_of_pathsP (by intro x; simp)
  show ∀ p ∈ cfgPaths wABC 13 [(1, 901), (3, 903)] none, _
  py_paths cfP5
  cfg_finish

/-- a class may not extend itself (the target's own name opens the history) -/
theorem config_src_self : CfgSpec K wABC 10 tgt none := by
  intro val
  apply resultG_eq_of_pathsP (by intro x; simp)
  show ∀ p ∈ cfgPaths wABC 10 tgt none, _
  py_paths cfP6
  cfg_finish

theorem config_src_leaf : CfgSpec K wABC 13 [(0, 12), (3, 903)] (some [3]) := by
  intro val
  apply resultG_eq_of_pathsP (by intro x; simp)
  show ∀ p ∈ cfgPaths wABC 13 [(0, 12), (3, 903)] (some [3]), _
  py_paths cfP7
  cfg_finish

end Pams.Src
