/-
`Market._add_order` as it stands in /repo (translated: `PamsGen.Code`, with everything it calls:
`convert_to_tick_level*`, `OrderBook.add`, `heapq.heappush` by contract through `Order.__lt__` /
`_gt_lt`, `_update_market_price`, `get_best_*_price`, `OrderLog.__init__`) against the model
`Market.addOrder` / `Market.submit` — setting and vocabulary.

Shape of the state: market 0 in its first step (time 0, series of length 1, logger `None`); the
incoming order object lives at address 1, unstamped; its side may already hold one resting order
(address 3, limit or market), the other side is empty.  Every number — price, tick size, volume, ids,
agents, time-to-live, the counters and prices of the step — is an atom.
-/
import PamsLemmas.SrcMarketDefs

namespace Pams.Src
open Pams Pams.Py

variable {K : Type} [LinearOrder K] [NumOpsC K]

/-- the incoming, unstamped order at address 1 (`stamped`: it carries a `placed_at` already) -/
def newOrder (isBuy limit hasTtl stamped : Bool) (market : Int) : String → Option Val
  | "__class__" => some (.str "Order")
  | "order_id" => some .none
  | "placed_at" => some (if stamped then .int (.atom 11) else .none)
  | "agent_id" => some (.int (.atom 12))
  | "volume" => some (.int (.atom 13))
  | "ttl" => some (if hasTtl then .int (.atom 14) else .none)
  | "market_id" => some (.int (.lit market))
  | "is_buy" => some (.bool (.lit isBuy))
  | "is_canceled" => some (.bool (.lit false))
  | "price" => some (if limit then .num (.atom 1) else .none)
  | "kind" => some (.ref (if limit then 101 else 100))
  | _ => none

/-- what rests on the incoming order's side: nothing, a limit order, a market order (address 3) -/
inductive Resting | none | limit | market
deriving DecidableEq

def addOrds (isBuy limit hasTtl stamped : Bool) (market : Int) (r : Resting) : Nat → Option (String → Option Val)
  | 1 => some (newOrder isBuy limit hasTtl stamped market)
  | 3 => match r with
    | .none => Option.none
    | .limit => some (mOrder 3 isBuy true false)
    | .market => some (mOrder 3 isBuy false false)
  | _ => Option.none

def stAdd (isBuy limit hasTtl stamped : Bool) (market : Int) (r : Resting) (hasLast hasMid : Bool) : St :=
  let q : List Val := match r with | .none => [] | _ => [.ref 3]
  { heap := mHeap hasLast hasMid (if isBuy then q else []) (if isBuy then [] else q)
      (addOrds isBuy limit hasTtl stamped market r), calls := [] }

def dictKeysObs (st : St) (a : Nat) (f : String) : Obs :=
  match st.heap a f with
  | some (.dict ks vs) => .tuple [.tuple (ks.map Obs.ofVal), .tuple (vs.map (fun v => match v with
      | .list l => .tuple (l.map Obs.ofVal) | _ => .other))]
  | _ => .other

/-- what is observed of an acceptance: the stamps and price on the order object, the two queues and
the buy side's expiry index, the id counter, the step's counters and prices, and the returned log -/
def addObs : Except Py.Err (Val × St) → Obs
  | .ok (v, st) =>
    .tuple [ Obs.ofOpt (st.heap 1 "price"), Obs.ofOpt (st.heap 1 "order_id"), Obs.ofOpt (st.heap 1 "placed_at"),
             listObs st 6 "priority_queue", listObs st 7 "priority_queue",
             dictKeysObs st 6 "expire_time_list", dictKeysObs st 7 "expire_time_list",
             Obs.ofOpt (st.heap 5 "_next_order_id"), listObs st 5 "_n_buy_orders", listObs st 5 "_n_sell_orders",
             listObs st 5 "_mid_prices", listObs st 5 "_market_prices",
             (match v with
              | .ref a => .tuple [Obs.ofOpt (st.heap a "order_id"), Obs.ofOpt (st.heap a "market_id"),
                                   Obs.ofOpt (st.heap a "time"), Obs.ofOpt (st.heap a "agent_id"),
                                   Obs.ofOpt (st.heap a "is_buy"), Obs.ofOpt (st.heap a "volume"),
                                   Obs.ofOpt (st.heap a "price"), Obs.ofOpt (st.heap a "ttl")]
              | _ => .other) ]
  | .error e => .err e

def addPaths (isBuy limit hasTtl stamped : Bool) (market : Int) (r : Resting) (hasLast hasMid : Bool) :=
  obsPathsPG addObs env XFUEL "Market._add_order" [.ref 5, .ref 1] (stAdd isBuy limit hasTtl stamped market r hasLast hasMid)

/-- the tick snapping of the source, in the uninterpreted arithmetic: an off-grid price
(`price % tick != 0`) becomes `floor(price / tick) * tick` for a buy order, `ceil(…) * tick` for a sell
order -/
def snapSrc (tick : K) (isBuy : Bool) (p : K) : K :=
  if PyNum.fmod p tick = PyNum.ofInt 0 then p
  else if isBuy then PyNum.ofInt (PyNum.floor (p / tick)) * tick else PyNum.ofInt (PyNum.ceil (p / tick)) * tick

def srcOpsT (K : Type) [LinearOrder K] [NumOpsC K] (tick : K) : PriceOps K :=
  { (srcOps K) with snap := snapSrc tick }

/-- valuation: the incoming request `r`, the resting order `o`, the market `m`, the tick size -/
def rhoAdd (m : Market K) (r : Req K) (o : Order K) (tick dflt : K) : Rho K :=
  { i := fun k =>
      if k = 12 then r.agent else if k = 13 then r.vol else if k = 14 then (r.ttl.getD 0 : Nat)
      else if k = 30 then o.id else if k = 31 then o.placedAt else if k = 32 then o.agent
      else if k = 33 then o.vol
      else if k = 51 then m.nextId else if k = 52 then m.cur.nBuy else if k = 53 then m.cur.nSell
      else if k = 54 then m.cur.execVol else 0
    n := fun k =>
      if k = 1 then r.price.getD dflt else if k = 3 then o.price.getD dflt else if k = 50 then tick
      else if k = 51 then m.cur.turnover else if k = 52 then m.cur.last.getD dflt
      else if k = 53 then m.cur.market.getD dflt else if k = 54 then m.cur.mid.getD dflt else dflt
    b := fun k => if k = 50 then m.running else false }

def cOptNat : Option Nat → CObs K
  | some x => .int x
  | none => .none

/-- the observation `addObs` of the model's `addOrder` (the new order is the object at address 1, the
resting one at address 3) -/
def modelAddObs (m : Market K) (r : Req K) (res : Market K × OrderLog K) : CObs K :=
  let ref (o : Order K) : CObs K := if o.id = m.nextId then .ref 1 else .ref 3
  let expiry : CObs K :=
    match r.ttl with
    | some t => .tuple [.tuple [.int ((m.time : Int) + t)], .tuple [.tuple [.ref 1]]]
    | none => .tuple [.tuple [], .tuple []]
  let noExpiry : CObs K := .tuple [.tuple [], .tuple []]
  .tuple [ cOpt res.2.price, .int res.2.id, .int res.2.time,
           .tuple (res.1.buys.map ref), .tuple (res.1.sells.map ref),
           (if r.isBuy then expiry else noExpiry), (if r.isBuy then noExpiry else expiry),
           .int res.1.nextId, .tuple [.int res.1.cur.nBuy], .tuple [.int res.1.cur.nSell],
           .tuple [cOpt res.1.cur.mid], .tuple [cOpt res.1.cur.market],
           .tuple [.int res.2.id, .int 0, .int res.2.time, .int res.2.agent, .bool res.2.isBuy, .int res.2.vol,
                   cOpt res.2.price, cOptNat res.2.ttl] ]

end Pams.Src
