/-
Tactic shared by the `_cancel_order` source theorems.
-/
import PamsLemmas.SrcCancelDefs
import PamsLemmas.SrcAddTac

namespace Pams.Src
open Pams Pams.Py

syntax "cancel_paths_finish" "[" Lean.Parser.Tactic.simpLemma,* "]" : tactic
macro_rules
  | `(tactic| cancel_paths_finish [$hs,*]) =>
    `(tactic| (all_goals intro h
               all_goals simp [BTerm.eval, ITerm.eval, NTerm.eval, rhoCancel, Obs.eval, Obs.evalList, int_zero_eq_cast,
                 int_cast_eq_zero, int_cast_eq_cast, int_cast_lt_cast, int_cast_le_cast, int_zero_lt_cast, $hs,*] at h ⊢
               all_goals simp [modelCancelObs, Market.cancel, findOrder, Book.remove, Market.refresh, midOf, marketRule,
                 Book.bestPrice, srcOps, cOpt, cOptNat, $hs,*]
               all_goals try grind (splits := 40)
               all_goals try (revert h; simp only [and_imp]; intros; subst_vars; simp_all [apply_ite]; done)
               all_goals try (revert h; simp only [and_imp]; intros; subst_vars; simp_all [apply_ite]; grind (splits := 40))))

end Pams.Src
