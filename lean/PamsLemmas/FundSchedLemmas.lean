/-
Lemmas about the regeneration bookkeeping of the fundamentals (PamsModel/FundSched.lean): the
invariant "every final step was generated with the parameter set in force at that step" holds
initially and is preserved by reads, setter calls and admissible shocks.
-/
import PamsModel.FundSched

namespace Pams.FundS
variable {P : Type}

structure Inv (p0 : P) (s : St P) (h : List (Nat × P)) : Prop where
  len : s.g < s.prov.length
  final : ∀ u, 1 ≤ u → u ≤ s.g → s.prov[u]? = some (sched p0 h u)
  cur : s.cur = (h.getLast?.map (·.2)).getD p0
  last : ∀ c, h.getLast? = some c → c.1 ≤ s.g
  chunk : 1 ≤ s.chunk

theorem inv_init (p0 : P) (chunk : Nat) (hc : 1 ≤ chunk) : Inv p0 (init p0 chunk) [] := by
  refine ⟨by simp [init], ?_, by simp [init], by simp, hc⟩
  intro u h1 h2
  simp [init] at h2
  omega

/-- beyond the regeneration point the parameter set in force is the current one -/
theorem sched_beyond (p0 : P) (s : St P) (h : List (Nat × P)) (hi : Inv p0 s h) (u : Nat) (hu : s.g < u) :
    sched p0 h u = s.cur := by
  rw [hi.cur]
  unfold sched
  rcases List.eq_nil_or_concat h with rfl | ⟨h', c, rfl⟩
  · simp
  · have hl := hi.last c (by simp)
    have : c.1 < u := by omega
    simp [List.find?, this]

theorem inv_gen (p0 : P) (s : St P) (h : List (Nat × P)) (hi : Inv p0 s h) : Inv p0 s.gen h := by
  have hlen := hi.len
  refine ⟨?_, ?_, hi.cur, ?_, hi.chunk⟩
  · simp only [St.gen, List.length_append, List.length_take, List.length_replicate]
    omega
  · intro u h1 h2
    simp only [St.gen] at h2 ⊢
    by_cases hu : u ≤ s.g
    · rw [List.getElem?_append_left (by simp; omega)]
      rw [List.getElem?_take_of_lt (by omega)]
      exact hi.final u h1 hu
    · have hb := sched_beyond p0 s h hi u (by omega)
      rw [List.getElem?_append_right (by simp; omega)]
      simp only [List.length_take]
      have hm : min (s.g + 1) s.prov.length = s.g + 1 := by omega
      rw [hm, hb]
      rw [List.getElem?_replicate]
      have : u - (s.g + 1) < s.chunk := by omega
      simp [this]
  · intro c hc
    have := hi.last c hc
    simp only [St.gen]
    omega

theorem inv_readLoop (p0 : P) (h : List (Nat × P)) (time : Nat) :
    ∀ (fuel : Nat) (s : St P), Inv p0 s h → Inv p0 (readLoop fuel time s) h
  | 0, s, hi => hi
  | fuel + 1, s, hi => by
    unfold readLoop
    split
    · exact inv_readLoop p0 h time fuel s.gen (inv_gen p0 s h hi)
    · exact hi

theorem inv_settleLoop (p0 : P) (h : List (Nat × P)) (time : Nat) :
    ∀ (fuel : Nat) (s : St P), Inv p0 s h → Inv p0 (settleLoop fuel time s) h
  | 0, s, hi => hi
  | fuel + 1, s, hi => by
    unfold settleLoop
    split
    · exact inv_settleLoop p0 h time fuel s.gen (inv_gen p0 s h hi)
    · exact hi

theorem settleLoop_cur (time : Nat) : ∀ (fuel : Nat) (s : St P), (settleLoop fuel time s).cur = s.cur
  | 0, _ => rfl
  | fuel + 1, s => by
    unfold settleLoop
    split
    · rw [settleLoop_cur time fuel s.gen]; rfl
    · rfl

theorem settleLoop_chunk (time : Nat) : ∀ (fuel : Nat) (s : St P), (settleLoop fuel time s).chunk = s.chunk
  | 0, _ => rfl
  | fuel + 1, s => by
    unfold settleLoop
    split
    · rw [settleLoop_chunk time fuel s.gen]; rfl
    · rfl

/-- the settle loop reaches the change time (chunks are non-empty) -/
theorem settleLoop_reaches (time : Nat) :
    ∀ (fuel : Nat) (s : St P), 1 ≤ s.chunk → time ≤ (settleLoop fuel time s).g ∨ s.g + fuel ≤ (settleLoop fuel time s).g
  | 0, s, _ => Or.inr (by simp [settleLoop])
  | fuel + 1, s, hc => by
    unfold settleLoop
    split
    · rcases settleLoop_reaches time fuel s.gen (by simpa [St.gen] using hc) with h | h
      · exact Or.inl h
      · right
        have hg : s.gen.g = s.g + s.chunk := rfl
        omega
    · left; omega

theorem settle_reaches (s : St P) (t : Nat) (hc : 1 ≤ s.chunk) : t ≤ (s.settle t).g := by
  rcases settleLoop_reaches t (t + 1) s hc with h | h
  · exact h
  · unfold St.settle; omega

theorem sched_snoc_le (p0 : P) (h : List (Nat × P)) (t : Nat) (x : P) (u : Nat) (hu : u ≤ t) :
    sched p0 (h ++ [(t, x)]) u = sched p0 h u := by
  unfold sched
  have : ¬ t < u := by omega
  simp [List.find?, this]

theorem inv_change (p0 : P) (s : St P) (h : List (Nat × P)) (hi : Inv p0 s h) (t : Nat) (f : P → P) :
    Inv p0 (s.change t f) (h ++ [(t, f s.cur)]) := by
  have hs := inv_settleLoop p0 h t (t + 1) s hi
  have hr := settle_reaches s t hi.chunk
  have hcur : (s.settle t).cur = s.cur := settleLoop_cur t (t + 1) s
  refine ⟨?_, ?_, ?_, ?_, ?_⟩
  · have := hs.len
    simp only [St.change]
    unfold St.settle at hr ⊢
    omega
  · intro u h1 h2
    simp only [St.change] at h2 ⊢
    rw [sched_snoc_le p0 h t _ u h2]
    exact hs.final u h1 (by unfold St.settle at hr; omega)
  · simp [St.change, hcur]
  · intro c hc
    simp at hc
    subst hc
    simp [St.change]
  · simp only [St.change]
    exact hs.chunk

/-- a shock at `t` keeps the invariant when everything up to `t` is final and no change dated later
than `t` is pending (otherwise that change would apply from `t` on: the parameter store is not
time-indexed) -/
theorem inv_shock (p0 : P) (s : St P) (h : List (Nat × P)) (hi : Inv p0 s h) (t : Nat) (ht : t ≤ s.g)
    (hl : ∀ c, h.getLast? = some c → c.1 ≤ t) : Inv p0 (s.shock t) h := by
  refine ⟨?_, ?_, hi.cur, ?_, hi.chunk⟩
  · have := hi.len
    simp only [St.shock]; omega
  · intro u h1 h2
    simp only [St.shock] at h2 ⊢
    exact hi.final u h1 (by omega)
  · intro c hc
    simpa [St.shock] using hl c hc

/-- an operation the invariant is stated for: any read, any setter call, a shock at a final time
with no later-dated change pending -/
def Op.admissible (s : St P) (h : List (Nat × P)) : Op P → Prop
  | .read _ => True
  | .change _ _ => True
  | .shock t => t ≤ s.g ∧ ∀ c, h.getLast? = some c → c.1 ≤ t

theorem inv_step (p0 : P) (s : St P) (h : List (Nat × P)) (hi : Inv p0 s h) (op : Op P)
    (ha : op.admissible s h) : Inv p0 (s.step op) (histStep s.cur h op) := by
  cases op with
  | read time => exact inv_readLoop p0 h time (time + 1) s hi
  | change t f => exact inv_change p0 s h hi t f
  | shock t => exact inv_shock p0 s h hi t ha.1 ha.2

/-- every operation of the sequence is admissible in the state it is applied to -/
def admissibleRun : St P → List (Nat × P) → List (Op P) → Prop
  | _, _, [] => True
  | s, h, op :: ops => op.admissible s h ∧ admissibleRun (s.step op) (histStep s.cur h op) ops

theorem inv_run (p0 : P) : ∀ (ops : List (Op P)) (s : St P) (h : List (Nat × P)), Inv p0 s h →
    admissibleRun s h ops → Inv p0 (run s h ops).1 (run s h ops).2
  | [], _, _, hi, _ => hi
  | op :: ops, s, h, hi, ha => by
    unfold run
    exact inv_run p0 ops (s.step op) (histStep s.cur h op) (inv_step p0 s h hi op ha.1) ha.2

/-! ### final steps are never touched -/

theorem gen_prefix (s : St P) (u : Nat) (hu : u ≤ s.g) (hl : s.g < s.prov.length) :
    s.gen.prov[u]? = s.prov[u]? := by
  simp only [St.gen]
  rw [List.getElem?_append_left (by simp; omega)]
  rw [List.getElem?_take_of_lt (by omega)]

theorem gen_len (s : St P) (hl : s.g < s.prov.length) : s.gen.g < s.gen.prov.length := by
  simp only [St.gen, List.length_append, List.length_take, List.length_replicate]
  omega

theorem settleLoop_prefix (time u : Nat) :
    ∀ (fuel : Nat) (s : St P), s.g < s.prov.length → u ≤ s.g →
      (settleLoop fuel time s).prov[u]? = s.prov[u]?
  | 0, _, _, _ => rfl
  | fuel + 1, s, hl, hu => by
    unfold settleLoop
    split
    · rw [settleLoop_prefix time u fuel s.gen (gen_len s hl) (by simp only [St.gen]; omega)]
      exact gen_prefix s u hu hl
    · rfl

theorem readLoop_prefix (time u : Nat) :
    ∀ (fuel : Nat) (s : St P), s.g < s.prov.length → u ≤ s.g →
      (readLoop fuel time s).prov[u]? = s.prov[u]?
  | 0, _, _, _ => rfl
  | fuel + 1, s, hl, hu => by
    unfold readLoop
    split
    · rw [readLoop_prefix time u fuel s.gen (gen_len s hl) (by simp only [St.gen]; omega)]
      exact gen_prefix s u hu hl
    · rfl

end Pams.FundS
