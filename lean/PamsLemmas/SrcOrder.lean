/-
`pams/order.py` as it stands in /repo (translated: `PamsGen.Code`) computes what the model
`PamsModel/Order.lean` says — for all accepted orders, by symbolic execution of the source.

Heap layout of the theorems: the order `o k` (k = 1, 2) lives at address `k`; its numeric fields
are atoms — int atoms `10k` (order_id), `10k+1` (placed_at), `10k+2` (agent_id), `10k+3` (volume),
`10k+4` (ttl), num atom `k` (price), bool atoms `10k` (is_buy), `10k+1` (is_canceled) — and the
*shape* (market / limit order, ttl given or not) is read off the model order.  The two `OrderKind`
constants live at 100 (`MARKET_ORDER`) and 101 (`LIMIT_ORDER`).
-/
import PamsLemmas.EvalNf
import PamsGen.Code
import PamsModel.Order
import PamsLemmas.PySem

namespace Pams.Src
open Pams Pams.Py

variable {K : Type} [LinearOrder K] [NumOpsC K]

/-- the heap object of an accepted order with the given shape -/
def symOrder (k : Nat) (limit hasTtl : Bool) : String → Option Val
  | "__class__" => some (.str "Order")
  | "order_id" => some (.int (.atom (10 * k)))
  | "placed_at" => some (.int (.atom (10 * k + 1)))
  | "agent_id" => some (.int (.atom (10 * k + 2)))
  | "volume" => some (.int (.atom (10 * k + 3)))
  | "ttl" => some (if hasTtl then .int (.atom (10 * k + 4)) else .none)
  | "market_id" => some (.int (.atom (10 * k + 5)))
  | "is_buy" => some (.bool (.atom (10 * k)))
  | "is_canceled" => some (.bool (.atom (10 * k + 1)))
  | "price" => some (if limit then .num (.atom k) else .none)
  | "kind" => some (.ref (if limit then 101 else 100))
  | _ => none

def kindObj (k : Int) : String → Option Val
  | "__class__" => some (.str "OrderKind")
  | "kind_id" => some (.int (.lit k))
  | _ => none

/-- two orders and the two kind constants -/
def heap2 (la ta lb tb : Bool) : Nat → String → Option Val :=
  fun addr => if addr = 1 then symOrder 1 la ta else if addr = 2 then symOrder 2 lb tb
    else if addr = 100 then kindObj 0 else if addr = 101 then kindObj 1 else fun _ => none

def st2 (la ta lb tb : Bool) : St := { heap := heap2 la ta lb tb, calls := [] }

def globals : String → Option Val
  | "MARKET_ORDER" => some (.ref 100)
  | "LIMIT_ORDER" => some (.ref 101)
  | "Order" => some (.str "Order")
  | "OrderKind" => some (.str "OrderKind")
  | "Cancel" => some (.str "Cancel")
  | _ => none

/-- the translated program; no extern call is answered (none is made by these functions) -/
def env : Env := { prog := PamsGen.Code.prog, globals := globals, ext := fun _ _ _ _ => none }

/-- the valuation that assigns the fields of the model orders `a` (k = 1) and `b` (k = 2) to the
atoms; `x` gives the remaining int atoms, `y` the remaining bool atoms -/
def rho2 (a b : Order K) (dflt : K) (x : Nat → Int) (y : Nat → Bool) : Rho K :=
  { i := fun k =>
      if k = 10 then a.id else if k = 11 then a.placedAt else if k = 12 then a.agent
      else if k = 13 then a.vol else if k = 14 then (a.ttl.getD 0 : Nat)
      else if k = 20 then b.id else if k = 21 then b.placedAt else if k = 22 then b.agent
      else if k = 23 then b.vol else if k = 24 then (b.ttl.getD 0 : Nat) else x k
    n := fun k => if k = 1 then a.price.getD dflt else if k = 2 then b.price.getD dflt else dflt
    b := fun k => if k = 10 then a.isBuy else if k = 20 then b.isBuy else y k }

def FUEL : Nat := 100

/-! ### `Order._gt_lt`, `__lt__`, `__gt__`, `__eq__`, `__le__`, `__ge__`, `__ne__` -/

/-- paths of the binary operator `fn` on two orders of the given shapes (extra arguments `xs`) -/
def opPaths (fn : String) (xs : List Val) (la lb : Bool) :=
  obsPaths env FUEL fn ([.ref 1, .ref 2] ++ xs) (st2 la false lb false)

set_option maxRecDepth 100000
theorem gtLt_tt : opPaths "Order._gt_lt" [.bool (.atom 1)] true true = evalnf% (opPaths "Order._gt_lt" [.bool (.atom 1)] true true) := by kernel_rfl
theorem gtLt_tf : opPaths "Order._gt_lt" [.bool (.atom 1)] true false = evalnf% (opPaths "Order._gt_lt" [.bool (.atom 1)] true false) := by kernel_rfl
theorem gtLt_ft : opPaths "Order._gt_lt" [.bool (.atom 1)] false true = evalnf% (opPaths "Order._gt_lt" [.bool (.atom 1)] false true) := by kernel_rfl
theorem gtLt_ff : opPaths "Order._gt_lt" [.bool (.atom 1)] false false = evalnf% (opPaths "Order._gt_lt" [.bool (.atom 1)] false false) := by kernel_rfl

/-- **`Order._gt_lt` of the current source is the model's `gtLt`** on two accepted orders of one
side (the shapes of the heap objects are those of `a` and `b`; `gt` is the bool atom 1) -/
theorem gt_lt_correct (a b : Order K) (gt : Bool) (dflt : K) (x : Nat → Int) (y : Nat → Bool)
    (hs : a.isBuy = b.isBuy) (hy : y 1 = gt) :
    result (rho2 a b dflt x y) env FUEL "Order._gt_lt" [.ref 1, .ref 2, .bool (.atom 1)]
      (st2 a.price.isSome false b.price.isSome false) = .bool (gtLt gt a b) := by
  rcases a with ⟨ida, aga, isBuya, pricea, vola, pla, ttla⟩
  rcases b with ⟨idb, agb, isBuyb, priceb, volb, plb, ttlb⟩
  simp only at hs
  subst hs hy
  apply result_eq_of_paths
  cases pricea <;> cases priceb <;> simp only [Option.isSome]
  · show ∀ p ∈ opPaths "Order._gt_lt" [.bool (.atom 1)] false false, _
    py_paths gtLt_ff
    all_goals intro h
    all_goals simp [BTerm.eval, ITerm.eval, NTerm.eval, rho2, Obs.eval, gtLt, cmpPlaced] at h ⊢
    all_goals grind
  · show ∀ p ∈ opPaths "Order._gt_lt" [.bool (.atom 1)] false true, _
    py_paths gtLt_ft
    all_goals intro h
    all_goals simp [BTerm.eval, ITerm.eval, NTerm.eval, rho2, Obs.eval, gtLt, cmpPlaced] at h ⊢
    all_goals grind
  · show ∀ p ∈ opPaths "Order._gt_lt" [.bool (.atom 1)] true false, _
    py_paths gtLt_tf
    all_goals intro h
    all_goals simp [BTerm.eval, ITerm.eval, NTerm.eval, rho2, Obs.eval, gtLt, cmpPlaced] at h ⊢
    all_goals grind
  · show ∀ p ∈ opPaths "Order._gt_lt" [.bool (.atom 1)] true true, _
    py_paths gtLt_tt
    all_goals intro h
    all_goals simp [BTerm.eval, ITerm.eval, NTerm.eval, rho2, Obs.eval, gtLt, cmpPlaced] at h ⊢
    all_goals grind

/-- comparing a buy order with a sell order raises `ValueError` (whatever the shapes) -/
theorem gt_lt_other_side (a b : Order K) (dflt : K) (x : Nat → Int) (y : Nat → Bool)
    (hs : a.isBuy ≠ b.isBuy) :
    result (rho2 a b dflt x y) env FUEL "Order._gt_lt" [.ref 1, .ref 2, .bool (.atom 1)]
      (st2 a.price.isSome false b.price.isSome false) = .err (.raise "ValueError") := by
  rcases a with ⟨ida, aga, isBuya, pricea, vola, pla, ttla⟩
  rcases b with ⟨idb, agb, isBuyb, priceb, volb, plb, ttlb⟩
  simp only at hs
  apply result_eq_of_paths
  cases pricea <;> cases priceb <;> simp only [Option.isSome]
  · show ∀ p ∈ opPaths "Order._gt_lt" [.bool (.atom 1)] false false, _
    py_paths gtLt_ff
    all_goals intro h
    all_goals simp [BTerm.eval, ITerm.eval, NTerm.eval, rho2, Obs.eval] at h ⊢
    all_goals grind
  · show ∀ p ∈ opPaths "Order._gt_lt" [.bool (.atom 1)] false true, _
    py_paths gtLt_ft
    all_goals intro h
    all_goals simp [BTerm.eval, ITerm.eval, NTerm.eval, rho2, Obs.eval] at h ⊢
    all_goals grind
  · show ∀ p ∈ opPaths "Order._gt_lt" [.bool (.atom 1)] true false, _
    py_paths gtLt_tf
    all_goals intro h
    all_goals simp [BTerm.eval, ITerm.eval, NTerm.eval, rho2, Obs.eval] at h ⊢
    all_goals grind
  · show ∀ p ∈ opPaths "Order._gt_lt" [.bool (.atom 1)] true true, _
    py_paths gtLt_tt
    all_goals intro h
    all_goals simp [BTerm.eval, ITerm.eval, NTerm.eval, rho2, Obs.eval] at h ⊢
    all_goals grind


/-- the common proof: split on the two shapes, enumerate the paths, close each by order reasoning -/
macro "order_op " fn:term:max xs:term:max ff:term:max ft:term:max tf:term:max tt:term:max : tactic =>
  `(tactic| (
    apply result_eq_of_paths
    rename_i pricea _ _ _ _ _ priceb _ _ _
    cases pricea <;> cases priceb <;> simp only [Option.isSome]
    · show ∀ p ∈ opPaths $fn $xs false false, _
      py_paths $ff
      all_goals intro h
      all_goals simp [BTerm.eval, ITerm.eval, NTerm.eval, rho2, Obs.eval, gtLt, cmpPlaced, Order.lt, Order.gt,
        Order.eqv, Order.le, Order.ge] at h ⊢
      all_goals grind
    · show ∀ p ∈ opPaths $fn $xs false true, _
      py_paths $ft
      all_goals intro h
      all_goals simp [BTerm.eval, ITerm.eval, NTerm.eval, rho2, Obs.eval, gtLt, cmpPlaced, Order.lt, Order.gt,
        Order.eqv, Order.le, Order.ge] at h ⊢
      all_goals grind
    · show ∀ p ∈ opPaths $fn $xs true false, _
      py_paths $tf
      all_goals intro h
      all_goals simp [BTerm.eval, ITerm.eval, NTerm.eval, rho2, Obs.eval, gtLt, cmpPlaced, Order.lt, Order.gt,
        Order.eqv, Order.le, Order.ge] at h ⊢
      all_goals grind
    · show ∀ p ∈ opPaths $fn $xs true true, _
      py_paths $tt
      all_goals intro h
      all_goals simp [BTerm.eval, ITerm.eval, NTerm.eval, rho2, Obs.eval, gtLt, cmpPlaced, Order.lt, Order.gt,
        Order.eqv, Order.le, Order.ge] at h ⊢
      all_goals grind))

theorem lt_tt : opPaths "Order.__lt__" [] true true = evalnf% (opPaths "Order.__lt__" [] true true) := by kernel_rfl
theorem lt_tf : opPaths "Order.__lt__" [] true false = evalnf% (opPaths "Order.__lt__" [] true false) := by kernel_rfl
theorem lt_ft : opPaths "Order.__lt__" [] false true = evalnf% (opPaths "Order.__lt__" [] false true) := by kernel_rfl
theorem lt_ff : opPaths "Order.__lt__" [] false false = evalnf% (opPaths "Order.__lt__" [] false false) := by kernel_rfl

/-- **`Order.__lt__`** (what `heapq` calls) is the model's `Order.lt` -/
theorem lt_correct (a b : Order K) (dflt : K) (x : Nat → Int) (y : Nat → Bool) (hs : a.isBuy = b.isBuy) :
    result (rho2 a b dflt x y) env FUEL "Order.__lt__" [.ref 1, .ref 2]
      (st2 a.price.isSome false b.price.isSome false) = .bool (a.lt b) := by
  rcases a with ⟨ida, aga, isBuya, pricea, vola, pla, ttla⟩
  rcases b with ⟨idb, agb, isBuyb, priceb, volb, plb, ttlb⟩
  simp only at hs
  subst hs
  order_op "Order.__lt__" [] lt_ff lt_ft lt_tf lt_tt

theorem gt_tt : opPaths "Order.__gt__" [] true true = evalnf% (opPaths "Order.__gt__" [] true true) := by kernel_rfl
theorem gt_tf : opPaths "Order.__gt__" [] true false = evalnf% (opPaths "Order.__gt__" [] true false) := by kernel_rfl
theorem gt_ft : opPaths "Order.__gt__" [] false true = evalnf% (opPaths "Order.__gt__" [] false true) := by kernel_rfl
theorem gt_ff : opPaths "Order.__gt__" [] false false = evalnf% (opPaths "Order.__gt__" [] false false) := by kernel_rfl

theorem gt_correct (a b : Order K) (dflt : K) (x : Nat → Int) (y : Nat → Bool) (hs : a.isBuy = b.isBuy) :
    result (rho2 a b dflt x y) env FUEL "Order.__gt__" [.ref 1, .ref 2]
      (st2 a.price.isSome false b.price.isSome false) = .bool (a.gt b) := by
  rcases a with ⟨ida, aga, isBuya, pricea, vola, pla, ttla⟩
  rcases b with ⟨idb, agb, isBuyb, priceb, volb, plb, ttlb⟩
  simp only at hs
  subst hs
  order_op "Order.__gt__" [] gt_ff gt_ft gt_tf gt_tt

theorem eq_tt : opPaths "Order.__eq__" [] true true = evalnf% (opPaths "Order.__eq__" [] true true) := by kernel_rfl
theorem eq_tf : opPaths "Order.__eq__" [] true false = evalnf% (opPaths "Order.__eq__" [] true false) := by kernel_rfl
theorem eq_ft : opPaths "Order.__eq__" [] false true = evalnf% (opPaths "Order.__eq__" [] false true) := by kernel_rfl
theorem eq_ff : opPaths "Order.__eq__" [] false false = evalnf% (opPaths "Order.__eq__" [] false false) := by kernel_rfl

/-- **`Order.__eq__`** (what `list.remove` uses) is the model's `Order.eqv` -/
theorem eq_correct (a b : Order K) (dflt : K) (x : Nat → Int) (y : Nat → Bool) (hs : a.isBuy = b.isBuy) :
    result (rho2 a b dflt x y) env FUEL "Order.__eq__" [.ref 1, .ref 2]
      (st2 a.price.isSome false b.price.isSome false) = .bool (a.eqv b) := by
  rcases a with ⟨ida, aga, isBuya, pricea, vola, pla, ttla⟩
  rcases b with ⟨idb, agb, isBuyb, priceb, volb, plb, ttlb⟩
  simp only at hs
  subst hs
  order_op "Order.__eq__" [] eq_ff eq_ft eq_tf eq_tt


theorem le_tt : opPaths "Order.__le__" [] true true = evalnf% (opPaths "Order.__le__" [] true true) := by kernel_rfl
theorem le_tf : opPaths "Order.__le__" [] true false = evalnf% (opPaths "Order.__le__" [] true false) := by kernel_rfl
theorem le_ft : opPaths "Order.__le__" [] false true = evalnf% (opPaths "Order.__le__" [] false true) := by kernel_rfl
theorem le_ff : opPaths "Order.__le__" [] false false = evalnf% (opPaths "Order.__le__" [] false false) := by kernel_rfl

theorem le_correct (a b : Order K) (dflt : K) (x : Nat → Int) (y : Nat → Bool) (hs : a.isBuy = b.isBuy) :
    result (rho2 a b dflt x y) env FUEL "Order.__le__" [.ref 1, .ref 2]
      (st2 a.price.isSome false b.price.isSome false) = .bool (a.le b) := by
  rcases a with ⟨ida, aga, isBuya, pricea, vola, pla, ttla⟩
  rcases b with ⟨idb, agb, isBuyb, priceb, volb, plb, ttlb⟩
  simp only at hs
  subst hs
  order_op "Order.__le__" [] le_ff le_ft le_tf le_tt

theorem ge_tt : opPaths "Order.__ge__" [] true true = evalnf% (opPaths "Order.__ge__" [] true true) := by kernel_rfl
theorem ge_tf : opPaths "Order.__ge__" [] true false = evalnf% (opPaths "Order.__ge__" [] true false) := by kernel_rfl
theorem ge_ft : opPaths "Order.__ge__" [] false true = evalnf% (opPaths "Order.__ge__" [] false true) := by kernel_rfl
theorem ge_ff : opPaths "Order.__ge__" [] false false = evalnf% (opPaths "Order.__ge__" [] false false) := by kernel_rfl

theorem ge_correct (a b : Order K) (dflt : K) (x : Nat → Int) (y : Nat → Bool) (hs : a.isBuy = b.isBuy) :
    result (rho2 a b dflt x y) env FUEL "Order.__ge__" [.ref 1, .ref 2]
      (st2 a.price.isSome false b.price.isSome false) = .bool (a.ge b) := by
  rcases a with ⟨ida, aga, isBuya, pricea, vola, pla, ttla⟩
  rcases b with ⟨idb, agb, isBuyb, priceb, volb, plb, ttlb⟩
  simp only at hs
  subst hs
  order_op "Order.__ge__" [] ge_ff ge_ft ge_tf ge_tt

theorem ne_tt : opPaths "Order.__ne__" [] true true = evalnf% (opPaths "Order.__ne__" [] true true) := by kernel_rfl
theorem ne_tf : opPaths "Order.__ne__" [] true false = evalnf% (opPaths "Order.__ne__" [] true false) := by kernel_rfl
theorem ne_ft : opPaths "Order.__ne__" [] false true = evalnf% (opPaths "Order.__ne__" [] false true) := by kernel_rfl
theorem ne_ff : opPaths "Order.__ne__" [] false false = evalnf% (opPaths "Order.__ne__" [] false false) := by kernel_rfl

theorem ne_correct (a b : Order K) (dflt : K) (x : Nat → Int) (y : Nat → Bool) (hs : a.isBuy = b.isBuy) :
    result (rho2 a b dflt x y) env FUEL "Order.__ne__" [.ref 1, .ref 2]
      (st2 a.price.isSome false b.price.isSome false) = .bool (!a.eqv b) := by
  rcases a with ⟨ida, aga, isBuya, pricea, vola, pla, ttla⟩
  rcases b with ⟨idb, agb, isBuyb, priceb, volb, plb, ttlb⟩
  simp only at hs
  subst hs
  order_op "Order.__ne__" [] ne_ff ne_ft ne_tf ne_tt

/-! ### `Order.is_expired` -/

def expPaths (hasTtl : Bool) := obsPaths env FUEL "Order.is_expired" [.ref 1, .int (.atom 5)] (st2 false hasTtl false false)
theorem exp_t : expPaths true = evalnf% (expPaths true) := by kernel_rfl
theorem exp_f : expPaths false = evalnf% (expPaths false) := by kernel_rfl

/-- **`Order.is_expired(time)`** is the model's `Order.expired` (int atom 5 = `time`) -/
theorem is_expired_correct (a b : Order K) (time : Nat) (dflt : K) (x : Nat → Int) (y : Nat → Bool)
    (hx : x 5 = time) :
    result (rho2 a b dflt x y) env FUEL "Order.is_expired" [.ref 1, .int (.atom 5)]
      (st2 false a.ttl.isSome false false) = .bool (a.expired time) := by
  rcases a with ⟨ida, aga, isBuya, pricea, vola, pla, ttla⟩
  apply result_eq_of_paths
  cases ttla <;> simp only [Option.isSome]
  · show ∀ p ∈ expPaths false, _
    py_paths exp_f
    all_goals intro h
    all_goals simp [BTerm.eval, ITerm.eval, rho2, Obs.eval, Order.expired] at h ⊢
  · show ∀ p ∈ expPaths true, _
    py_paths exp_t
    all_goals intro h
    all_goals simp [BTerm.eval, ITerm.eval, rho2, Obs.eval, Order.expired, hx] at h ⊢
    all_goals omega

end Pams.Src
