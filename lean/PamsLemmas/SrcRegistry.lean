/-
`Simulator._add_agent` / `_add_market` / `_add_session` as they stand in /repo (translated:
`PamsGen.Code`): an entity is registered once, ids and names are unique, and an agent is filed as
high-frequency exactly if its class descends from `HighFrequencyAgent` (class ancestry read off the `class`
statements) — by symbolic execution, with the new entity's id quantified.

Setting: a simulator (address 3) holding two agents (ids 1 and 2, names "a1", "a2", addresses 21, 22; agent 2 is
high-frequency), and the new agent at address 23 (id = int atom 1, name and class = shape).
-/
import PamsLemmas.EvalNf
import PamsGen.Code
import PamsLemmas.SrcOrder

namespace Pams.Src
open Pams Pams.Py

variable {K : Type} [LinearOrder K] [NumOpsC K]

def regSim : String → Option Val
  | "__class__" => some (.str "Simulator")
  | "agents" => some (.list [.ref 21, .ref 22])
  | "n_agents" => some (.int (.atom 9))
  | "id2agent" => some (.dict [.int (.lit 1), .int (.lit 2)] [.ref 21, .ref 22])
  | "name2agent" => some (.dict [.str "a1", .str "a2"] [.ref 21, .ref 22])
  | "high_frequency_agents" => some (.list [.ref 22])
  | "normal_frequency_agents" => some (.list [.ref 21])
  | "agents_group_name2agent" => some (.dict [.str "G"] [.list [.ref 21]])
  | _ => none

def regAgent (cls name : String) : String → Option Val
  | "__class__" => some (.str cls)
  | "agent_id" => some (.int (.atom 1))
  | "name" => some (.str name)
  | _ => none

def agSt (cls name : String) : St :=
  { heap := fun a => if a = 3 then regSim else if a = 23 then regAgent cls name else fun _ => none, calls := [] }

def agGlobals : String → Option Val := fun x =>
  if x = "HighFrequencyAgent" then some (.str "HighFrequencyAgent") else globals x

def agEnv : Env := { prog := PamsGen.Code.prog, globals := agGlobals, ext := fun _ _ _ _ => none, mro := PamsGen.Code.mroOf }

def listO (st : St) (f : String) : Obs :=
  match st.heap 3 f with
  | some (.list l) => .tuple (l.map Obs.ofVal)
  | some (.dict ks vs) => .tuple [.tuple (ks.map Obs.ofVal), .tuple (vs.map (fun v => match v with
      | .list l => .tuple (l.map Obs.ofVal) | w => Obs.ofVal w))]
  | _ => .absent

/-- the registry afterwards -/
def agObs : Except Py.Err (Val × St) → Obs
  | .ok (_, st) => .tuple [listO st "agents", Obs.ofOpt (st.heap 3 "n_agents"), listO st "id2agent", listO st "name2agent",
                           listO st "high_frequency_agents", listO st "normal_frequency_agents",
                           listO st "agents_group_name2agent"]
  | .error e => .err e

def agPaths (cls name : String) (group : Val) :=
  obsPathsPG agObs agEnv FUEL "Simulator._add_agent" [.ref 3, .ref 23, group] (agSt cls name)

def rhoAg (id n : Int) : Rho K :=
  { i := fun k => if k = 1 then id else n, n := fun _ => PyNum.ofInt 0, b := fun _ => false }

set_option maxRecDepth 100000
theorem agP_fcn : agPaths "FCNAgent" "a3" (.str "G") = evalnf% (agPaths "FCNAgent" "a3" (.str "G")) := by kernel_rfl
theorem agP_arb : agPaths "ArbitrageAgent" "a3" (.str "H") = evalnf% (agPaths "ArbitrageAgent" "a3" (.str "H")) := by kernel_rfl
theorem agP_mm : agPaths "MarketMakerAgent" "a3" .none = evalnf% (agPaths "MarketMakerAgent" "a3" .none) := by kernel_rfl
theorem agP_name : agPaths "FCNAgent" "a2" .none = evalnf% (agPaths "FCNAgent" "a2" .none) := by kernel_rfl

/-- the registry after a successful registration of the agent at 23 under id `id` -/
def agExpected (id n : Int) (hft : Bool) (groups : CObs K) : CObs K :=
  .tuple [.tuple [.ref 21, .ref 22, .ref 23], .int (n + 1),
          .tuple [.tuple [.int 1, .int 2, .int id], .tuple [.ref 21, .ref 22, .ref 23]],
          .tuple [.tuple [.str "a1", .str "a2", .str "a3"], .tuple [.ref 21, .ref 22, .ref 23]],
          .tuple (if hft then [.ref 22, .ref 23] else [.ref 22]),
          .tuple (if hft then [.ref 21] else [.ref 21, .ref 23]), groups]

/-- **`_add_agent`**: an id already in use is refused; otherwise the agent is appended to the registry, counted,
indexed by id and name, filed as high-frequency iff its class descends from `HighFrequencyAgent`
(`ArbitrageAgent`, `MarketMakerAgent`: yes; `FCNAgent`: no), and added to its group (created if new) -/
theorem registry_src_add_agent (id n : Int) :
    resultG agObs (rhoAg (K := K) id n) agEnv FUEL "Simulator._add_agent" [.ref 3, .ref 23, .str "G"] (agSt "FCNAgent" "a3")
      = (if id = 1 ∨ id = 2 then .err (.raise "ValueError") else
          agExpected id n false (.tuple [.tuple [.str "G"], .tuple [.tuple [.ref 21, .ref 23]]])) ∧
    resultG agObs (rhoAg (K := K) id n) agEnv FUEL "Simulator._add_agent" [.ref 3, .ref 23, .str "H"] (agSt "ArbitrageAgent" "a3")
      = (if id = 1 ∨ id = 2 then .err (.raise "ValueError") else
          agExpected id n true (.tuple [.tuple [.str "G", .str "H"], .tuple [.tuple [.ref 21], .tuple [.ref 23]]])) ∧
    resultG agObs (rhoAg (K := K) id n) agEnv FUEL "Simulator._add_agent" [.ref 3, .ref 23, .none] (agSt "MarketMakerAgent" "a3")
      = (if id = 1 ∨ id = 2 then .err (.raise "ValueError") else
          agExpected id n true (.tuple [.tuple [.str "G"], .tuple [.tuple [.ref 21]]])) := by
  refine ⟨?_, ?_, ?_⟩
  · apply resultG_eq_of_pathsP (by intro x; simp)
    show ∀ p ∈ agPaths "FCNAgent" "a3" (.str "G"), _
    py_paths agP_fcn
    all_goals intro h
    all_goals simp [BTerm.eval, ITerm.eval, rhoAg, Obs.eval, Obs.evalList, agExpected] at h ⊢
    all_goals simp_all
  · apply resultG_eq_of_pathsP (by intro x; simp)
    show ∀ p ∈ agPaths "ArbitrageAgent" "a3" (.str "H"), _
    py_paths agP_arb
    all_goals intro h
    all_goals simp [BTerm.eval, ITerm.eval, rhoAg, Obs.eval, Obs.evalList, agExpected] at h ⊢
    all_goals simp_all
  · apply resultG_eq_of_pathsP (by intro x; simp)
    show ∀ p ∈ agPaths "MarketMakerAgent" "a3" .none, _
    py_paths agP_mm
    all_goals intro h
    all_goals simp [BTerm.eval, ITerm.eval, rhoAg, Obs.eval, Obs.evalList, agExpected] at h ⊢
    all_goals simp_all

/-- a name already in use is refused whatever the id -/
theorem registry_src_duplicate_name (id n : Int) :
    resultG agObs (rhoAg (K := K) id n) agEnv FUEL "Simulator._add_agent" [.ref 3, .ref 23, .none] (agSt "FCNAgent" "a2")
      = .err (.raise "ValueError") := by
  apply resultG_eq_of_pathsP (by intro x; simp)
  show ∀ p ∈ agPaths "FCNAgent" "a2" .none, _
  py_paths agP_name
  all_goals intro h
  all_goals simp [BTerm.eval, ITerm.eval, rhoAg, Obs.eval, Obs.evalList] at h ⊢

end Pams.Src
