/-
`Simulator._add_agent` / `_add_market` / `_add_session` as they stand in /repo (translated:
`PamsGen.Code`): an entity is registered once, ids and names are unique, and an agent is filed as
high-frequency exactly if its class descends from `HighFrequencyAgent` (class ancestry read off the `class`
statements) — by symbolic execution, with the new entity's id quantified.

Setting: a simulator (address 3) holding two agents (ids 1 and 2, names "a1", "a2", addresses 21, 22; agent 2 is
high-frequency), and the new agent at address 23 (id = int atom 1, name and class = shape).
-/
import PamsLemmas.EvalNf
import PamsGen.Code
import PamsLemmas.SrcOrder

namespace Pams.Src
open Pams Pams.Py

variable {K : Type} [LinearOrder K] [NumOpsC K]

def regSim : String → Option Val
  | "__class__" => some (.str "Simulator")
  | "agents" => some (.list [.ref 21, .ref 22])
  | "n_agents" => some (.int (.atom 9))
  | "id2agent" => some (.dict [.int (.lit 1), .int (.lit 2)] [.ref 21, .ref 22])
  | "name2agent" => some (.dict [.str "a1", .str "a2"] [.ref 21, .ref 22])
  | "high_frequency_agents" => some (.list [.ref 22])
  | "normal_frequency_agents" => some (.list [.ref 21])
  | "agents_group_name2agent" => some (.dict [.str "G"] [.list [.ref 21]])
  | _ => none

def regAgent (cls name : String) : String → Option Val
  | "__class__" => some (.str cls)
  | "agent_id" => some (.int (.atom 1))
  | "name" => some (.str name)
  | _ => none

def agSt (cls name : String) : St :=
  { heap := fun a => if a = 3 then regSim else if a = 23 then regAgent cls name else fun _ => none, calls := [] }

def agGlobals : String → Option Val := fun x =>
  if x = "HighFrequencyAgent" then some (.str "HighFrequencyAgent") else globals x

def agEnv : Env := { prog := PamsGen.Code.prog, globals := agGlobals, ext := fun _ _ _ _ => none, mro := PamsGen.Code.mroOf }

def listO (st : St) (f : String) : Obs :=
  match st.heap 3 f with
  | some (.list l) => .tuple (l.map Obs.ofVal)
  | some (.dict ks vs) => .tuple [.tuple (ks.map Obs.ofVal), .tuple (vs.map (fun v => match v with
      | .list l => .tuple (l.map Obs.ofVal) | w => Obs.ofVal w))]
  | _ => .absent

/-- the registry afterwards -/
def agObs : Except Py.Err (Val × St) → Obs
  | .ok (_, st) => .tuple [listO st "agents", Obs.ofOpt (st.heap 3 "n_agents"), listO st "id2agent", listO st "name2agent",
                           listO st "high_frequency_agents", listO st "normal_frequency_agents",
                           listO st "agents_group_name2agent"]
  | .error e => .err e

def agPaths (cls name : String) (group : Val) :=
  obsPathsPG agObs agEnv FUEL "Simulator._add_agent" [.ref 3, .ref 23, group] (agSt cls name)

def rhoAg (id n : Int) : Rho K :=
  { i := fun k => if k = 1 then id else n, n := fun _ => PyNum.ofInt 0, b := fun _ => false }

set_option maxRecDepth 100000
theorem agP_fcn : agPaths "FCNAgent" "a3" (.str "G") = evalnf% (agPaths "FCNAgent" "a3" (.str "G")) := by kernel_rfl
theorem agP_arb : agPaths "ArbitrageAgent" "a3" (.str "H") = evalnf% (agPaths "ArbitrageAgent" "a3" (.str "H")) := by kernel_rfl
theorem agP_mm : agPaths "MarketMakerAgent" "a3" .none = evalnf% (agPaths "MarketMakerAgent" "a3" .none) := by kernel_rfl
theorem agP_name : agPaths "FCNAgent" "a2" .none = evalnf% (agPaths "FCNAgent" "a2" .none) := by kernel_rfl

/-- the registry after a successful registration of the agent at 23 under id `id` -/
def agExpected (id n : Int) (hft : Bool) (groups : CObs K) : CObs K :=
  .tuple [.tuple [.ref 21, .ref 22, .ref 23], .int (n + 1),
          .tuple [.tuple [.int 1, .int 2, .int id], .tuple [.ref 21, .ref 22, .ref 23]],
          .tuple [.tuple [.str "a1", .str "a2", .str "a3"], .tuple [.ref 21, .ref 22, .ref 23]],
          .tuple (if hft then [.ref 22, .ref 23] else [.ref 22]),
          .tuple (if hft then [.ref 21] else [.ref 21, .ref 23]), groups]

/-- **`_add_agent`**: an id already in use is refused; otherwise the agent is appended to the registry, counted,
indexed by id and name, filed as high-frequency iff its class descends from `HighFrequencyAgent`
(`ArbitrageAgent`, `MarketMakerAgent`: yes; `FCNAgent`: no), and added to its group (created if new) -/
theorem registry_src_add_agent (id n : Int) :
    resultG agObs (rhoAg (K := K) id n) agEnv FUEL "Simulator._add_agent" [.ref 3, .ref 23, .str "G"] (agSt "FCNAgent" "a3")
      = (if id = 1 ∨ id = 2 then .err (.raise "ValueError") else
          agExpected id n false (.tuple [.tuple [.str "G"], .tuple [.tuple [.ref 21, .ref 23]]])) ∧
    resultG agObs (rhoAg (K := K) id n) agEnv FUEL "Simulator._add_agent" [.ref 3, .ref 23, .str "H"] (agSt "ArbitrageAgent" "a3")
      = (if id = 1 ∨ id = 2 then .err (.raise "ValueError") else
          agExpected id n true (.tuple [.tuple [.str "G", .str "H"], .tuple [.tuple [.ref 21], .tuple [.ref 23]]])) ∧
    resultG agObs (rhoAg (K := K) id n) agEnv FUEL "Simulator._add_agent" [.ref 3, .ref 23, .none] (agSt "MarketMakerAgent" "a3")
      = (if id = 1 ∨ id = 2 then .err (.raise "ValueError") else
          agExpected id n true (.tuple [.tuple [.str "G"], .tuple [.tuple [.ref 21]]])) := by
  refine ⟨?_, ?_, ?_⟩
  · apply resultG_eq_of_pathsP (by intro x; simp)
    show ∀ p ∈ agPaths "FCNAgent" "a3" (.str "G"), _
    py_paths agP_fcn
    all_goals intro h
    all_goals simp [BTerm.eval, ITerm.eval, rhoAg, Obs.eval, Obs.evalList, agExpected] at h ⊢
    all_goals simp_all
  · apply resultG_eq_of_pathsP (by intro x; simp)
    show ∀ p ∈ agPaths "ArbitrageAgent" "a3" (.str "H"), _
    py_paths agP_arb
    all_goals intro h
    all_goals simp [BTerm.eval, ITerm.eval, rhoAg, Obs.eval, Obs.evalList, agExpected] at h ⊢
    all_goals simp_all
  · apply resultG_eq_of_pathsP (by intro x; simp)
    show ∀ p ∈ agPaths "MarketMakerAgent" "a3" .none, _
    py_paths agP_mm
    all_goals intro h
    all_goals simp [BTerm.eval, ITerm.eval, rhoAg, Obs.eval, Obs.evalList, agExpected] at h ⊢
    all_goals simp_all

/-- a name already in use is refused whatever the id -/
theorem registry_src_duplicate_name (id n : Int) :
    resultG agObs (rhoAg (K := K) id n) agEnv FUEL "Simulator._add_agent" [.ref 3, .ref 23, .none] (agSt "FCNAgent" "a2")
      = .err (.raise "ValueError") := by
  apply resultG_eq_of_pathsP (by intro x; simp)
  show ∀ p ∈ agPaths "FCNAgent" "a2" .none, _
  py_paths agP_name
  all_goals intro h
  all_goals simp [BTerm.eval, ITerm.eval, rhoAg, Obs.eval, Obs.evalList] at h ⊢

/-! ### `_add_market` and `_add_session`

Setting: the simulator (address 4) holds two markets (ids 1 and 2, names "m1", "m2", addresses 31, 32; group "G" =
[31]) and two sessions (ids 1, 2, names "s1", "s2", addresses 41, 42); the new market is at address 33 and the
new session at 43 (id = int atom 1, name = shape). -/

def regSim2 : String → Option Val
  | "__class__" => some (.str "Simulator")
  | "markets" => some (.list [.ref 31, .ref 32])
  | "n_markets" => some (.int (.atom 9))
  | "id2market" => some (.dict [.int (.lit 1), .int (.lit 2)] [.ref 31, .ref 32])
  | "name2market" => some (.dict [.str "m1", .str "m2"] [.ref 31, .ref 32])
  | "markets_group_name2market" => some (.dict [.str "G"] [.list [.ref 31]])
  | "sessions" => some (.list [.ref 41, .ref 42])
  | "n_sessions" => some (.int (.atom 9))
  | "id2session" => some (.dict [.int (.lit 1), .int (.lit 2)] [.ref 41, .ref 42])
  | "name2session" => some (.dict [.str "s1", .str "s2"] [.ref 41, .ref 42])
  | _ => none

def regMarket (name : String) : String → Option Val
  | "__class__" => some (.str "Market")
  | "market_id" => some (.int (.atom 1))
  | "name" => some (.str name)
  | _ => none

def regSession (name : String) : String → Option Val
  | "__class__" => some (.str "Session")
  | "session_id" => some (.int (.atom 1))
  | "name" => some (.str name)
  | _ => none

def mkSt (name : String) : St :=
  { heap := fun a => if a = 4 then regSim2 else if a = 33 then regMarket name else if a = 43 then regSession name
                     else fun _ => none, calls := [] }

def listO4 (st : St) (f : String) : Obs :=
  match st.heap 4 f with
  | some (.list l) => .tuple (l.map Obs.ofVal)
  | some (.dict ks vs) => .tuple [.tuple (ks.map Obs.ofVal), .tuple (vs.map (fun v => match v with
      | .list l => .tuple (l.map Obs.ofVal) | w => Obs.ofVal w))]
  | _ => .absent

/-- the market registry afterwards -/
def mkObs : Except Py.Err (Val × St) → Obs
  | .ok (_, st) => .tuple [listO4 st "markets", Obs.ofOpt (st.heap 4 "n_markets"), listO4 st "id2market",
                           listO4 st "name2market", listO4 st "markets_group_name2market"]
  | .error e => .err e

/-- the session registry afterwards -/
def seObs : Except Py.Err (Val × St) → Obs
  | .ok (_, st) => .tuple [listO4 st "sessions", Obs.ofOpt (st.heap 4 "n_sessions"), listO4 st "id2session",
                           listO4 st "name2session"]
  | .error e => .err e

def mkPaths (name : String) (who : Nat) (group : Val) :=
  obsPathsPG mkObs agEnv FUEL "Simulator._add_market" [.ref 4, .ref who, group] (mkSt name)

def sePaths (name : String) (who : Nat) :=
  obsPathsPG seObs agEnv FUEL "Simulator._add_session" [.ref 4, .ref who] (mkSt name)

theorem mkP_G : mkPaths "m3" 33 (.str "G") = evalnf% (mkPaths "m3" 33 (.str "G")) := by kernel_rfl
theorem mkP_H : mkPaths "m3" 33 (.str "H") = evalnf% (mkPaths "m3" 33 (.str "H")) := by kernel_rfl
theorem mkP_none : mkPaths "m3" 33 .none = evalnf% (mkPaths "m3" 33 .none) := by kernel_rfl
theorem mkP_name : mkPaths "m2" 33 .none = evalnf% (mkPaths "m2" 33 .none) := by kernel_rfl
theorem mkP_twice : mkPaths "m3" 31 .none = evalnf% (mkPaths "m3" 31 .none) := by kernel_rfl
theorem seP_new : sePaths "s3" 43 = evalnf% (sePaths "s3" 43) := by kernel_rfl
theorem seP_name : sePaths "s1" 43 = evalnf% (sePaths "s1" 43) := by kernel_rfl
theorem seP_twice : sePaths "s3" 42 = evalnf% (sePaths "s3" 42) := by kernel_rfl

def mkExpected (id n : Int) (groups : CObs K) : CObs K :=
  .tuple [.tuple [.ref 31, .ref 32, .ref 33], .int (n + 1),
          .tuple [.tuple [.int 1, .int 2, .int id], .tuple [.ref 31, .ref 32, .ref 33]],
          .tuple [.tuple [.str "m1", .str "m2", .str "m3"], .tuple [.ref 31, .ref 32, .ref 33]], groups]

/-- **`_add_market`**: an id already in use is refused; otherwise the market is appended, counted, indexed by id and
name and added to its group (created if new; no group if `None`) — for every id value -/
theorem registry_src_add_market (id n : Int) :
    resultG mkObs (rhoAg (K := K) id n) agEnv FUEL "Simulator._add_market" [.ref 4, .ref 33, .str "G"] (mkSt "m3")
      = (if id = 1 ∨ id = 2 then .err (.raise "ValueError") else
          mkExpected id n (.tuple [.tuple [.str "G"], .tuple [.tuple [.ref 31, .ref 33]]])) ∧
    resultG mkObs (rhoAg (K := K) id n) agEnv FUEL "Simulator._add_market" [.ref 4, .ref 33, .str "H"] (mkSt "m3")
      = (if id = 1 ∨ id = 2 then .err (.raise "ValueError") else
          mkExpected id n (.tuple [.tuple [.str "G", .str "H"], .tuple [.tuple [.ref 31], .tuple [.ref 33]]])) ∧
    resultG mkObs (rhoAg (K := K) id n) agEnv FUEL "Simulator._add_market" [.ref 4, .ref 33, .none] (mkSt "m3")
      = (if id = 1 ∨ id = 2 then .err (.raise "ValueError") else
          mkExpected id n (.tuple [.tuple [.str "G"], .tuple [.tuple [.ref 31]]])) := by
  refine ⟨?_, ?_, ?_⟩
  · apply resultG_eq_of_pathsP (by intro x; simp)
    show ∀ p ∈ mkPaths "m3" 33 (.str "G"), _
    py_paths mkP_G
    all_goals intro h
    all_goals simp [BTerm.eval, ITerm.eval, rhoAg, Obs.eval, Obs.evalList, mkExpected] at h ⊢
    all_goals simp_all
  · apply resultG_eq_of_pathsP (by intro x; simp)
    show ∀ p ∈ mkPaths "m3" 33 (.str "H"), _
    py_paths mkP_H
    all_goals intro h
    all_goals simp [BTerm.eval, ITerm.eval, rhoAg, Obs.eval, Obs.evalList, mkExpected] at h ⊢
    all_goals simp_all
  · apply resultG_eq_of_pathsP (by intro x; simp)
    show ∀ p ∈ mkPaths "m3" 33 .none, _
    py_paths mkP_none
    all_goals intro h
    all_goals simp [BTerm.eval, ITerm.eval, rhoAg, Obs.eval, Obs.evalList, mkExpected] at h ⊢
    all_goals simp_all

/-- a market name already in use, or a market object already registered, is refused whatever the id -/
theorem registry_src_market_refusals (id n : Int) :
    resultG mkObs (rhoAg (K := K) id n) agEnv FUEL "Simulator._add_market" [.ref 4, .ref 33, .none] (mkSt "m2")
      = .err (.raise "ValueError") ∧
    resultG mkObs (rhoAg (K := K) id n) agEnv FUEL "Simulator._add_market" [.ref 4, .ref 31, .none] (mkSt "m3")
      = .err (.raise "ValueError") := by
  refine ⟨?_, ?_⟩
  · apply resultG_eq_of_pathsP (by intro x; simp)
    show ∀ p ∈ mkPaths "m2" 33 .none, _
    py_paths mkP_name
    all_goals intro h
    all_goals simp [BTerm.eval, ITerm.eval, rhoAg, Obs.eval, Obs.evalList] at h ⊢
  · apply resultG_eq_of_pathsP (by intro x; simp)
    show ∀ p ∈ mkPaths "m3" 31 .none, _
    py_paths mkP_twice
    all_goals intro h
    all_goals simp [BTerm.eval, ITerm.eval, rhoAg, Obs.eval, Obs.evalList] at h ⊢

/-- **`_add_session`**: an id or a name already in use, or a session already registered, is refused; otherwise the
session is appended, counted and indexed by id and name — for every id value -/
theorem registry_src_add_session (id n : Int) :
    resultG seObs (rhoAg (K := K) id n) agEnv FUEL "Simulator._add_session" [.ref 4, .ref 43] (mkSt "s3")
      = (if id = 1 ∨ id = 2 then .err (.raise "ValueError") else
          .tuple [.tuple [.ref 41, .ref 42, .ref 43], .int (n + 1),
                  .tuple [.tuple [.int 1, .int 2, .int id], .tuple [.ref 41, .ref 42, .ref 43]],
                  .tuple [.tuple [.str "s1", .str "s2", .str "s3"], .tuple [.ref 41, .ref 42, .ref 43]]]) ∧
    resultG seObs (rhoAg (K := K) id n) agEnv FUEL "Simulator._add_session" [.ref 4, .ref 43] (mkSt "s1")
      = .err (.raise "ValueError") ∧
    resultG seObs (rhoAg (K := K) id n) agEnv FUEL "Simulator._add_session" [.ref 4, .ref 42] (mkSt "s3")
      = .err (.raise "ValueError") := by
  refine ⟨?_, ?_, ?_⟩
  · apply resultG_eq_of_pathsP (by intro x; simp)
    show ∀ p ∈ sePaths "s3" 43, _
    py_paths seP_new
    all_goals intro h
    all_goals simp [BTerm.eval, ITerm.eval, rhoAg, Obs.eval, Obs.evalList] at h ⊢
    all_goals simp_all
  · apply resultG_eq_of_pathsP (by intro x; simp)
    show ∀ p ∈ sePaths "s1" 43, _
    py_paths seP_name
    all_goals intro h
    all_goals simp [BTerm.eval, ITerm.eval, rhoAg, Obs.eval, Obs.evalList] at h ⊢
  · apply resultG_eq_of_pathsP (by intro x; simp)
    show ∀ p ∈ sePaths "s3" 42, _
    py_paths seP_twice
    all_goals intro h
    all_goals simp [BTerm.eval, ITerm.eval, rhoAg, Obs.eval, Obs.evalList] at h ⊢

end Pams.Src
