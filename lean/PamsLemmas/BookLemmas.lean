import PamsLemmas.OrderLemmas
import PamsModel.Book

namespace Pams
variable {P : Type} [LinearOrder P]

/-- sorted by priority, best first -/
def Sorted (l : List (Order P)) : Prop := l.Pairwise (fun a b => a.lt b = true)

/-- invariant of one side of the book -/
structure SideInv (side : Bool) (time nextId : Nat) (l : List (Order P)) : Prop where
  sorted : Sorted l
  side : ∀ o ∈ l, o.isBuy = side
  pos : ∀ o ∈ l, 0 < o.vol
  idlt : ∀ o ∈ l, o.id < nextId
  nodup : (l.map (·.id)).Nodup
  placed : ∀ o ∈ l, o.placedAt ≤ time
  alive : ∀ o ∈ l, o.expired time = false

theorem mem_insert (o x : Order P) (l : List (Order P)) :
    x ∈ Book.insert o l ↔ x = o ∨ x ∈ l := by
  induction l with
  | nil => simp [Book.insert]
  | cons y ys ih =>
    unfold Book.insert
    split
    · simp
    · simp [ih, or_left_comm]

theorem insert_perm (o : Order P) (l : List (Order P)) : (Book.insert o l).Perm (o :: l) := by
  induction l with
  | nil => simp [Book.insert]
  | cons y ys ih =>
    unfold Book.insert
    split
    · exact List.Perm.refl _
    · exact (List.Perm.cons y ih).trans (List.Perm.swap o y ys)

theorem sorted_insert (side : Bool) (o : Order P) (l : List (Order P)) (hs : Sorted l)
    (hside : ∀ x ∈ l, x.isBuy = side) (ho : o.isBuy = side) (hid : ∀ x ∈ l, x.id ≠ o.id) :
    Sorted (Book.insert o l) := by
  induction l with
  | nil => simp [Book.insert, Sorted]
  | cons y ys ih =>
    unfold Book.insert
    have hs' := List.pairwise_cons.mp hs
    split
    · rename_i hlt
      refine List.pairwise_cons.mpr ⟨?_, hs⟩
      intro z hz
      rcases List.mem_cons.mp hz with rfl | hz
      · exact hlt
      · exact olt_trans o y z (by rw [ho, hside y (by simp)]) hlt (hs'.1 z hz)
    · rename_i hnlt
      have hyo : y.lt o = true := by
        rcases olt_total y o (by rw [ho, hside y (by simp)]) (hid y (by simp)) with h | h
        · exact h
        · exact absurd h hnlt
      refine List.pairwise_cons.mpr ⟨?_, ih hs'.2 (fun x hx => hside x (by simp [hx]))
        (fun x hx => hid x (by simp [hx]))⟩
      intro z hz
      rcases (mem_insert o z ys).mp hz with rfl | hz
      · exact hyo
      · exact hs'.1 z hz

theorem sorted_filter (l : List (Order P)) (p : Order P → Bool) (hs : Sorted l) :
    Sorted (l.filter p) := List.Pairwise.filter p hs

omit [LinearOrder P] in
theorem nodup_filter_ids (l : List (Order P)) (p : Order P → Bool)
    (h : (l.map (·.id)).Nodup) : ((l.filter p).map (·.id)).Nodup := by
  induction l with
  | nil => simp
  | cons x xs ih =>
    simp only [List.map_cons, List.nodup_cons] at h
    by_cases hp : p x
    · simp only [List.filter_cons_of_pos hp, List.map_cons, List.nodup_cons]
      refine ⟨?_, ih h.2⟩
      intro hmem
      apply h.1
      rcases List.mem_map.mp hmem with ⟨y, hy, hyid⟩
      exact List.mem_map.mpr ⟨y, (List.mem_filter.mp hy).1, hyid⟩
    · simp only [List.filter_cons_of_neg hp]
      exact ih h.2

theorem SideInv.filter {side : Bool} {time nextId : Nat} {l : List (Order P)}
    (h : SideInv side time nextId l) (p : Order P → Bool) :
    SideInv side time nextId (l.filter p) where
  sorted := sorted_filter l p h.sorted
  side := fun o ho => h.side o (List.mem_filter.mp ho).1
  pos := fun o ho => h.pos o (List.mem_filter.mp ho).1
  idlt := fun o ho => h.idlt o (List.mem_filter.mp ho).1
  nodup := nodup_filter_ids l p h.nodup
  placed := fun o ho => h.placed o (List.mem_filter.mp ho).1
  alive := fun o ho => h.alive o (List.mem_filter.mp ho).1

theorem SideInv.insert {side : Bool} {time nextId : Nat} {l : List (Order P)}
    (h : SideInv side time nextId l) (o : Order P) (hside : o.isBuy = side) (hpos : 0 < o.vol)
    (hid : o.id = nextId) (hpl : o.placedAt = time) :
    SideInv side time (nextId + 1) (Book.insert o l) where
  sorted := sorted_insert side o l h.sorted h.side hside
    (fun x hx => by have := h.idlt x hx; omega)
  side := fun x hx => by
    rcases (mem_insert o x l).mp hx with rfl | hx
    · exact hside
    · exact h.side x hx
  pos := fun x hx => by
    rcases (mem_insert o x l).mp hx with rfl | hx
    · exact hpos
    · exact h.pos x hx
  idlt := fun x hx => by
    rcases (mem_insert o x l).mp hx with rfl | hx
    · omega
    · have := h.idlt x hx; omega
  nodup := by
    have hp : ((Book.insert o l).map (·.id)).Perm ((o :: l).map (·.id)) :=
      (insert_perm o l).map _
    refine hp.nodup_iff.mpr ?_
    simp only [List.map_cons, List.nodup_cons]
    refine ⟨?_, h.nodup⟩
    intro hmem
    rcases List.mem_map.mp hmem with ⟨y, hy, hyid⟩
    have := h.idlt y hy
    omega
  placed := fun x hx => by
    rcases (mem_insert o x l).mp hx with rfl | hx
    · omega
    · exact h.placed x hx
  alive := fun x hx => by
    rcases (mem_insert o x l).mp hx with rfl | hx
    · unfold Order.expired
      cases x.ttl with
      | none => rfl
      | some t => simp; omega
    · exact h.alive x hx

/-- a side with a larger id bound -/
theorem SideInv.mono_id {side : Bool} {time n n' : Nat} {l : List (Order P)}
    (h : SideInv side time n l) (hn : n ≤ n') : SideInv side time n' l :=
  { h with idlt := fun o ho => Nat.lt_of_lt_of_le (h.idlt o ho) hn }

/-- advancing the clock and dropping the expired orders keeps the invariant -/
theorem SideInv.tick {side : Bool} {time nextId : Nat} {l : List (Order P)}
    (h : SideInv side time nextId l) : SideInv side (time + 1) nextId (Book.keepAt (time + 1) l) where
  sorted := sorted_filter l _ h.sorted
  side := fun o ho => h.side o (List.mem_filter.mp ho).1
  pos := fun o ho => h.pos o (List.mem_filter.mp ho).1
  idlt := fun o ho => h.idlt o (List.mem_filter.mp ho).1
  nodup := nodup_filter_ids l _ h.nodup
  placed := fun o ho => Nat.le_succ_of_le (h.placed o (List.mem_filter.mp ho).1)
  alive := fun o ho => by simpa using (List.mem_filter.mp ho).2

/-- the same for a jump of the clock by any number of steps -/
theorem SideInv.jump {side : Bool} {time nextId : Nat} {l : List (Order P)}
    (h : SideInv side time nextId l) (k : Nat) :
    SideInv side (time + k) nextId (Book.keepAt (time + k) l) where
  sorted := sorted_filter l _ h.sorted
  side := fun o ho => h.side o (List.mem_filter.mp ho).1
  pos := fun o ho => h.pos o (List.mem_filter.mp ho).1
  idlt := fun o ho => h.idlt o (List.mem_filter.mp ho).1
  nodup := nodup_filter_ids l _ h.nodup
  placed := fun o ho => Nat.le_trans (h.placed o (List.mem_filter.mp ho).1) (Nat.le_add_right _ _)
  alive := fun o ho => by simpa using (List.mem_filter.mp ho).2

/-- Two sorted lists with the same elements are equal: the queue content determines the pop
order (arrival-order independence). -/
theorem sorted_perm_unique (side : Bool) (l₁ l₂ : List (Order P)) (hp : l₁.Perm l₂)
    (h₁ : Sorted l₁) (h₂ : Sorted l₂) (hs : ∀ x ∈ l₁, x.isBuy = side) : l₁ = l₂ := by
  unfold Sorted at h₁ h₂
  refine List.Perm.eq_of_pairwise ?_ h₁ h₂ hp
  intro a b ha hb hab hba
  have := olt_asymm a b (by rw [hs a ha, hs b (hp.mem_iff.mpr hb)]) hab
  rw [this] at hba
  exact absurd hba (by simp)

end Pams
