/-
`Simulator._trigger_event_*` (the nine dispatchers), `_check_event_class_and_instance`, `_add_event` and
`_update_times_on_markets` as they stand in /repo (translated: `PamsGen.Code`) against the hook model
`Pams.Hooks` — by symbolic execution.

Setting: a simulator (address 3) whose `events_dict` holds, for every kind, exactly the model's buckets of a
table of hooks (`dictOf`: key ↦ `Hooks.bucket tbl kind key`); the hook objects at 40 + i, their events at
60 + e; a plain market (id 0, address 5, clock = int atom 50) and an index market (id 1, address 6, clock
= int atom 60); an order for market 0 (address 10), logs (address 11, `time` = int atom 70), a session
(address 12, start = int atom 80, length = int atom 81).  The occurrence's time is quantified.  Observed:
the handler calls in order (name, event, arguments).
-/
import PamsLemmas.EvalNf
import PamsGen.Code
import PamsModel.Hooks
import PamsModel.Runner
import PamsLemmas.SrcOrder

namespace Pams.Src
open Pams Pams.Py Pams.Hooks

/-- the table: market hooks without / with time lists (with a repeated entry), class and instance filters;
order, cancel, execution and session hooks -/
def tblS : Table :=
  [ { id := 40, event := 0, kind := .marketBefore, times := none, cls := none, inst := none },
    { id := 41, event := 1, kind := .marketBefore, times := some [3, 5, 3], cls := some .index, inst := none },
    { id := 42, event := 0, kind := .marketBefore, times := some [5], cls := none, inst := some 0 },
    { id := 43, event := 1, kind := .marketAfter, times := none, cls := some .market, inst := some 1 },
    { id := 44, event := 2, kind := .marketAfter, times := some [7], cls := some .index, inst := some 0 },
    { id := 45, event := 0, kind := .orderBefore, times := some [2], cls := none, inst := none },
    { id := 46, event := 1, kind := .orderBefore, times := none, cls := none, inst := none },
    { id := 47, event := 2, kind := .orderAfter, times := some [2, 4], cls := none, inst := none },
    { id := 48, event := 0, kind := .cancelBefore, times := some [], cls := none, inst := none },
    { id := 49, event := 1, kind := .cancelBefore, times := some [6], cls := none, inst := none },
    { id := 50, event := 2, kind := .cancelAfter, times := none, cls := none, inst := none },
    { id := 51, event := 0, kind := .executionAfter, times := some [4, 4], cls := none, inst := none },
    { id := 52, event := 1, kind := .executionAfter, times := none, cls := none, inst := none },
    { id := 53, event := 2, kind := .sessionBefore, times := some [0, 9], cls := none, inst := none },
    { id := 54, event := 0, kind := .sessionAfter, times := some [9], cls := none, inst := none },
    { id := 55, event := 1, kind := .sessionAfter, times := none, cls := none, inst := none } ]

def kindName : Kind → String
  | .orderBefore => "order_before" | .orderAfter => "order_after" | .cancelBefore => "cancel_before"
  | .cancelAfter => "cancel_after" | .executionAfter => "execution_after" | .sessionBefore => "session_before"
  | .sessionAfter => "session_after" | .marketBefore => "market_before" | .marketAfter => "market_after"

def allKinds : List Kind :=
  [.orderBefore, .orderAfter, .cancelBefore, .cancelAfter, .executionAfter, .sessionBefore, .sessionAfter,
   .marketBefore, .marketAfter]

def keyVal : Option Int → Val
  | none => .none
  | some t => .int (.lit t)

/-- `events_dict[kind]` as the model has it: every key some hook of the kind is filed under, in order of
first filing, with the model's bucket -/
def dictOf (tbl : Table) (kind : Kind) : Val :=
  let keys := ((tbl.filter (fun h => h.kind = kind)).flatMap keysOf).eraseDups
  .dict (keys.map keyVal) (keys.map (fun k => .list ((bucket tbl kind k).map (fun h => .ref h.id))))

def simS (tbl : Table) : String → Option Val
  | "__class__" => some (.str "Simulator")
  | "events_dict" => some (.dict (allKinds.map (fun k => .str (kindName k))) (allKinds.map (dictOf tbl)))
  | "id2market" => some (.dict [.int (.lit 0), .int (.lit 1)] [.ref 5, .ref 6])
  | "event_hooks" => some (.list (tbl.map (fun h => .ref h.id)))
  | "events" => some (.list [.ref 60, .ref 61, .ref 62])
  | "n_events" => some (.int (.atom 90))
  | "id2event" => some (.dict [.int (.lit 0), .int (.lit 1), .int (.lit 2)] [.ref 60, .ref 61, .ref 62])
  | "name2event" => some (.dict [.str "e0", .str "e1", .str "e2"] [.ref 60, .ref 61, .ref 62])
  | _ => none

def hookType : Kind → String × Bool
  | .orderBefore => ("order", true) | .orderAfter => ("order", false) | .cancelBefore => ("cancel", true)
  | .cancelAfter => ("cancel", false) | .executionAfter => ("execution", false) | .sessionBefore => ("session", true)
  | .sessionAfter => ("session", false) | .marketBefore => ("market", true) | .marketAfter => ("market", false)

def hookObj (h : Hook) : String → Option Val
  | "__class__" => some (.str "EventHook")
  | "event" => some (.ref (60 + h.event))
  | "hook_type" => some (.str (hookType h.kind).1)
  | "is_before" => some (.bool (.lit (hookType h.kind).2))
  | "time" => some (match h.times with | none => .none | some ts => .list (ts.map (fun t => .int (.lit t))))
  | "specific_class" => some (match h.cls with | none => .none | some .market => .str "Market" | some .index => .str "IndexMarket")
  | "specific_instance" => some (match h.inst with | none => .none | some i => .ref (5 + i))
  | _ => none

def mktS (k : Nat) : String → Option Val
  | "__class__" => some (.str (if k = 0 then "Market" else "IndexMarket"))
  | "market_id" => some (.int (.lit k))
  | "time" => some (.int (.atom (50 + 10 * k)))
  | _ => none

def heapS (tbl : Table) : Nat → String → Option Val :=
  fun addr =>
    if addr = 3 then simS tbl else if addr = 5 then mktS 0 else if addr = 6 then mktS 1
    else if addr = 10 then (fun f => match f with
      | "__class__" => some (.str "Order") | "market_id" => some (.int (.lit 0)) | _ => none)
    else if addr = 11 then (fun f => match f with
      | "__class__" => some (.str "Log") | "time" => some (.int (.atom 70)) | "cancel_time" => some (.int (.atom 70))
      | "market_id" => some (.int (.lit 0)) | _ => none)
    else if addr = 13 then (fun f => match f with
      | "__class__" => some (.str "Cancel") | "order" => some (.ref 10) | _ => none)
    else if addr = 12 then (fun f => match f with
      | "__class__" => some (.str "Session") | "session_start_time" => some (.int (.atom 80))
      | "iteration_steps" => some (.int (.atom 81)) | _ => none)
    else if 60 ≤ addr ∧ addr < 63 then (fun f => match f with
      | "__class__" => some (.str "ProbeEvent") | "event_id" => some (.int (.lit (addr - 60)))
      | "name" => some (.str (if addr = 60 then "e0" else if addr = 61 then "e1" else "e2")) | _ => none)
    else match tbl.find? (fun h => h.id = addr) with
      | some h => hookObj h
      | none => fun _ => none

def stS (tbl : Table) : St := { heap := heapS tbl, calls := [] }

/-- the same world with one more hook object `h` (not yet registered) -/
def stAdd (tbl : Table) (h : Hook) : St :=
  { heap := fun addr => if addr = h.id ∧ ¬ tbl.any (fun x => x.id = h.id) then hookObj h else heapS tbl addr, calls := [] }

/-- handlers are extern: every `hooked_*` of an event object answers `None` -/
def extS : Ext := fun st recv fn _ =>
  match recv with
  | .ref a => if 60 ≤ a ∧ a < 70 ∧ fn.startsWith "hooked_" then some (.none, st) else none
  | _ => none

def envS : Env := { prog := PamsGen.Code.prog, globals := globals, ext := extS, mro := PamsGen.Code.mroOf }

def handlerObs : Except Py.Err (Val × St) → Obs
  | .ok (_, st) => .tuple (st.calls.reverse.map (fun c => .tuple [.str c.fn, Obs.ofVal c.recv, .tuple (c.args.map Obs.ofVal)]))
  | .error e => .err e

def dispatchPaths (fn : String) (arg : Nat) :=
  obsPathsPG handlerObs envS FUEL ("Simulator." ++ fn) [.ref 3, .ref arg] (stS tblS)

variable {K : Type} [LinearOrder K] [NumOpsC K]

/-- valuation: the clocks of the two markets, the time of the log, the session's start and length -/
def rhoS (t5 t6 tlog start steps : Int) : Rho K :=
  { i := fun k => if k = 50 then t5 else if k = 60 then t6 else if k = 70 then tlog else if k = 80 then start
      else if k = 81 then steps else 0
    n := fun _ => PyNum.ofInt 0
    b := fun _ => false }

/-- the model's dispatch as handler calls -/
def dispatchObs {K : Type} (handler : String) (arg : Nat) (hs : List Hook) : CObs K :=
  .tuple (hs.map (fun h => .tuple [.str handler, .ref (60 + h.event), .tuple [.ref 3, .ref arg]]))

/-- an occurrence at a time no hook of the kind lists calls the always-hooks only -/
theorem dispatch_of_not_listed (tbl : Table) (kind : Kind) (t : Int) (mkt : Option (Nat × Bool))
    (h : ∀ hk ∈ tbl, hk.kind = kind → ∀ ts, hk.times = some ts → t ∉ ts) :
    dispatch tbl kind t mkt = (bucket tbl kind none).filter (fun h => filterOK h mkt) := by
  have hb : bucket tbl kind (some t) = [] := by
    unfold bucket
    rw [List.filter_eq_nil_iff]
    intro hk hmem
    by_cases hkind : hk.kind = kind
    · cases hts : hk.times with
      | none => simp [keysOf, hts]
      | some ts =>
        have := h hk hmem hkind ts hts
        simp [keysOf, hts, hkind, List.mem_eraseDups, this]
    · simp [hkind]
  simp [dispatch, hb]

set_option maxRecDepth 100000
theorem dpMB5 : dispatchPaths "_trigger_event_before_step_for_market" 5 = evalnf% (dispatchPaths "_trigger_event_before_step_for_market" 5) := by kernel_rfl
theorem dpMB6 : dispatchPaths "_trigger_event_before_step_for_market" 6 = evalnf% (dispatchPaths "_trigger_event_before_step_for_market" 6) := by kernel_rfl
theorem dpMA5 : dispatchPaths "_trigger_event_after_step_for_market" 5 = evalnf% (dispatchPaths "_trigger_event_after_step_for_market" 5) := by kernel_rfl
theorem dpMA6 : dispatchPaths "_trigger_event_after_step_for_market" 6 = evalnf% (dispatchPaths "_trigger_event_after_step_for_market" 6) := by kernel_rfl
theorem dpOB : dispatchPaths "_trigger_event_before_order" 10 = evalnf% (dispatchPaths "_trigger_event_before_order" 10) := by kernel_rfl
theorem dpOA : dispatchPaths "_trigger_event_after_order" 11 = evalnf% (dispatchPaths "_trigger_event_after_order" 11) := by kernel_rfl
theorem dpCB : dispatchPaths "_trigger_event_before_cancel" 13 = evalnf% (dispatchPaths "_trigger_event_before_cancel" 13) := by kernel_rfl
theorem dpCA : dispatchPaths "_trigger_event_after_cancel" 11 = evalnf% (dispatchPaths "_trigger_event_after_cancel" 11) := by kernel_rfl
theorem dpEA : dispatchPaths "_trigger_event_after_execution" 11 = evalnf% (dispatchPaths "_trigger_event_after_execution" 11) := by kernel_rfl
theorem dpSB : dispatchPaths "_trigger_event_before_session" 12 = evalnf% (dispatchPaths "_trigger_event_before_session" 12) := by kernel_rfl
theorem dpSA : dispatchPaths "_trigger_event_after_session" 12 = evalnf% (dispatchPaths "_trigger_event_after_session" 12) := by kernel_rfl

/-- closes the per-path goals: a path either fixes the time to one of the listed ones (then both sides are
closed terms) or excludes all of them -/
macro "dispatch_finish" : tactic =>
  `(tactic| (all_goals intro h
             all_goals simp [BTerm.eval, ITerm.eval, NTerm.eval, rhoS, Obs.eval, Obs.evalList] at h ⊢
             all_goals first
               | (subst h; rfl)
               | (rw [h]; rfl)
               | (obtain ⟨_, h2⟩ := h; first | (subst h2; rfl) | (rw [h2]; rfl))
               | (obtain ⟨_, _, h3⟩ := h; first | (subst h3; rfl) | (rw [h3]; rfl))
               | (rw [dispatch_of_not_listed _ _ _ _ (by simp [tblS]; omega)]; rfl)
               | (rw [dispatch_of_not_listed _ _ _ _ (by simp [tblS])]; rfl)))

/-- the statement: the handler calls of dispatcher `fn` for the occurrence `arg` are the model's `dispatch`
at the occurrence's time `time`, in order, each with `(simulator, occurrence)` -/
def DispatchSpec (K : Type) [LinearOrder K] [NumOpsC K] (fn handler : String) (arg : Nat) (kind : Kind)
    (time : Int → Int → Int → Int → Int → Int) (mkt : Option (Nat × Bool)) : Prop :=
  ∀ (t5 t6 tlog start steps : Int),
    resultG handlerObs (rhoS (K := K) t5 t6 tlog start steps) envS FUEL ("Simulator." ++ fn) [.ref 3, .ref arg] (stS tblS)
      = dispatchObs handler arg (dispatch tblS kind (time t5 t6 tlog start steps) mkt)

theorem dispatch_src_market_before_plain :
    DispatchSpec K "_trigger_event_before_step_for_market" "hooked_before_step_for_market" 5 .marketBefore
      (fun t5 _ _ _ _ => t5) (some (0, false)) := by
  intro t5 t6 tlog start steps
  apply resultG_eq_of_pathsP (by intro x; simp)
  show ∀ p ∈ dispatchPaths "_trigger_event_before_step_for_market" 5, _
  py_paths dpMB5
  dispatch_finish

theorem dispatch_src_market_before_index :
    DispatchSpec K "_trigger_event_before_step_for_market" "hooked_before_step_for_market" 6 .marketBefore
      (fun _ t6 _ _ _ => t6) (some (1, true)) := by
  intro t5 t6 tlog start steps
  apply resultG_eq_of_pathsP (by intro x; simp)
  show ∀ p ∈ dispatchPaths "_trigger_event_before_step_for_market" 6, _
  py_paths dpMB6
  dispatch_finish

theorem dispatch_src_market_after_plain :
    DispatchSpec K "_trigger_event_after_step_for_market" "hooked_after_step_for_market" 5 .marketAfter
      (fun t5 _ _ _ _ => t5) (some (0, false)) := by
  intro t5 t6 tlog start steps
  apply resultG_eq_of_pathsP (by intro x; simp)
  show ∀ p ∈ dispatchPaths "_trigger_event_after_step_for_market" 5, _
  py_paths dpMA5
  dispatch_finish

theorem dispatch_src_market_after_index :
    DispatchSpec K "_trigger_event_after_step_for_market" "hooked_after_step_for_market" 6 .marketAfter
      (fun _ t6 _ _ _ => t6) (some (1, true)) := by
  intro t5 t6 tlog start steps
  apply resultG_eq_of_pathsP (by intro x; simp)
  show ∀ p ∈ dispatchPaths "_trigger_event_after_step_for_market" 6, _
  py_paths dpMA6
  dispatch_finish

theorem dispatch_src_order_before :
    DispatchSpec K "_trigger_event_before_order" "hooked_before_order" 10 .orderBefore (fun t5 _ _ _ _ => t5) none := by
  intro t5 t6 tlog start steps
  apply resultG_eq_of_pathsP (by intro x; simp)
  show ∀ p ∈ dispatchPaths "_trigger_event_before_order" 10, _
  py_paths dpOB
  dispatch_finish

theorem dispatch_src_order_after :
    DispatchSpec K "_trigger_event_after_order" "hooked_after_order" 11 .orderAfter (fun _ _ tlog _ _ => tlog) none := by
  intro t5 t6 tlog start steps
  apply resultG_eq_of_pathsP (by intro x; simp)
  show ∀ p ∈ dispatchPaths "_trigger_event_after_order" 11, _
  py_paths dpOA
  dispatch_finish

theorem dispatch_src_cancel_before :
    DispatchSpec K "_trigger_event_before_cancel" "hooked_before_cancel" 13 .cancelBefore (fun t5 _ _ _ _ => t5) none := by
  intro t5 t6 tlog start steps
  apply resultG_eq_of_pathsP (by intro x; simp)
  show ∀ p ∈ dispatchPaths "_trigger_event_before_cancel" 13, _
  py_paths dpCB
  dispatch_finish

theorem dispatch_src_cancel_after :
    DispatchSpec K "_trigger_event_after_cancel" "hooked_after_cancel" 11 .cancelAfter (fun _ _ tlog _ _ => tlog) none := by
  intro t5 t6 tlog start steps
  apply resultG_eq_of_pathsP (by intro x; simp)
  show ∀ p ∈ dispatchPaths "_trigger_event_after_cancel" 11, _
  py_paths dpCA
  dispatch_finish

theorem dispatch_src_execution_after :
    DispatchSpec K "_trigger_event_after_execution" "hooked_after_execution" 11 .executionAfter (fun _ _ tlog _ _ => tlog) none := by
  intro t5 t6 tlog start steps
  apply resultG_eq_of_pathsP (by intro x; simp)
  show ∀ p ∈ dispatchPaths "_trigger_event_after_execution" 11, _
  py_paths dpEA
  dispatch_finish

theorem dispatch_src_session_before :
    DispatchSpec K "_trigger_event_before_session" "hooked_before_session" 12 .sessionBefore (fun _ _ _ start _ => start) none := by
  intro t5 t6 tlog start steps
  apply resultG_eq_of_pathsP (by intro x; simp)
  show ∀ p ∈ dispatchPaths "_trigger_event_before_session" 12, _
  py_paths dpSB
  dispatch_finish

theorem dispatch_src_session_after :
    DispatchSpec K "_trigger_event_after_session" "hooked_after_session" 12 .sessionAfter
      (fun _ _ _ start steps => start + steps - 1) none := by
  intro t5 t6 tlog start steps
  apply resultG_eq_of_pathsP (by intro x; simp)
  show ∀ p ∈ dispatchPaths "_trigger_event_after_session" 12, _
  py_paths dpSA
  dispatch_finish

/-! ### `_add_event` -/

mutual
/-- a value as an observation, containers included -/
def valObs : Val → Obs
  | .list l => .tuple (valObsL l)
  | .dict ks vs => .tuple [.tuple (valObsL ks), .tuple (valObsL vs)]
  | .none => .none
  | .bool t => .bool t
  | .int t => .int t
  | .num t => .num t
  | .str s => .str s
  | .ref a => .ref a
  | .clo _ => .other
def valObsL : List Val → List Obs
  | [] => []
  | v :: vs => valObs v :: valObsL vs
end

/-- after `_add_event`: the buckets of every kind, the registration list, the hook counter -/
def addEventObs : Except Py.Err (Val × St) → Obs
  | .ok (_, st) => .tuple [match st.heap 3 "events_dict" with | some v => valObs v | none => .absent,
                           match st.heap 3 "event_hooks" with | some v => valObs v | none => .absent,
                           Obs.ofOpt (st.heap 3 "n_events")]
  | .error e => .err e

/-- what the model says the registration leaves behind: the buckets of the extended table -/
def registered (tbl : Table) (h : Hook) : Obs :=
  match register tbl h with
  | none => .err (.raise "ValueError")
  | some tbl' =>
    .tuple [valObs (.dict (allKinds.map (fun k => .str (kindName k))) (allKinds.map (dictOf tbl'))),
            valObs (.list (tbl'.map (fun x => .ref x.id))), .int (.add (.atom 90) (.lit 1))]

def addEventPaths (h : Hook) :=
  obsPathsPG addEventObs envS FUEL "Simulator._add_event" [.ref 3, .ref h.id] (stAdd tblS h)

/-- a market hook with a repeated time, one new key (2) and one existing (5) -/
def hN1 : Hook := { id := 58, event := 2, kind := .marketBefore, times := some [5, 2, 5], cls := none, inst := none }
/-- an always-hook for a kind that has one already -/
def hN2 : Hook := { id := 58, event := 0, kind := .executionAfter, times := none, cls := none, inst := none }
/-- an empty time list: filed nowhere, but registered -/
def hN3 : Hook := { id := 58, event := 1, kind := .sessionBefore, times := some [], cls := none, inst := none }
/-- a hook object that is registered already -/
def hDup : Hook := { id := 41, event := 1, kind := .marketBefore, times := some [3, 5, 3], cls := some .index, inst := none }

theorem aeP1 : addEventPaths hN1 = evalnf% (addEventPaths hN1) := by kernel_rfl
theorem aeP2 : addEventPaths hN2 = evalnf% (addEventPaths hN2) := by kernel_rfl
theorem aeP3 : addEventPaths hN3 = evalnf% (addEventPaths hN3) := by kernel_rfl
theorem aePD : addEventPaths hDup = evalnf% (addEventPaths hDup) := by kernel_rfl

/-- **`_add_event` is the model's `register`**: afterwards every kind's buckets are the buckets of the
extended table (a hook is filed once under each *distinct* time of its list, under `None` without a
list, nowhere with an empty list), the hook is appended to the registration list and counted; a hook
object registered before is refused -/
def AddEventSpec (K : Type) [LinearOrder K] [NumOpsC K] (h : Hook) : Prop :=
  ∀ (ρ : Rho K), resultG addEventObs ρ envS FUEL "Simulator._add_event" [.ref 3, .ref h.id] (stAdd tblS h)
      = (registered tblS h).eval ρ

theorem add_event_src_1 : AddEventSpec K hN1 := by
  intro ρ
  apply resultG_eq_of_pathsP (by intro x; simp)
  show ∀ p ∈ addEventPaths hN1, _
  py_paths aeP1
  intro _; rfl

theorem add_event_src_2 : AddEventSpec K hN2 := by
  intro ρ
  apply resultG_eq_of_pathsP (by intro x; simp)
  show ∀ p ∈ addEventPaths hN2, _
  py_paths aeP2
  intro _; rfl

theorem add_event_src_3 : AddEventSpec K hN3 := by
  intro ρ
  apply resultG_eq_of_pathsP (by intro x; simp)
  show ∀ p ∈ addEventPaths hN3, _
  py_paths aeP3
  intro _; rfl

theorem add_event_src_dup : AddEventSpec K hDup := by
  intro ρ
  apply resultG_eq_of_pathsP (by intro x; simp)
  show ∀ p ∈ addEventPaths hDup, _
  py_paths aePD
  intro _; rfl

/-! ### `_update_times_on_markets`: plain markets first, then index markets -/

/-- the per-market clock advance is extern here (its source theorem is SrcTick) -/
def envT : Env :=
  { prog := PamsGen.Code.prog.filter (fun e => !(e.1 == "Simulator._update_time_on_market")),
    globals := fun x => if x = "IndexMarket" then some (.str "IndexMarket") else globals x, mro := PamsGen.Code.mroOf,
    ext := fun st recv fn _ => match recv, fn with
      | .ref 3, "_update_time_on_market" => some (.none, st)
      | _, _ => none }

def tickPaths (ms : List Nat) :=
  obsPathsPG handlerObs envT FUEL "Simulator._update_times_on_markets" [.ref 3, .list (ms.map Val.ref)] (stS tblS)

theorem tkP65 : tickPaths [6, 5] = evalnf% (tickPaths [6, 5]) := by kernel_rfl
theorem tkP56 : tickPaths [5, 6] = evalnf% (tickPaths [5, 6]) := by kernel_rfl

def tickObs {K : Type} (evs : List Runner.Ev) : CObs K :=
  .tuple (evs.filterMap (fun e => match e with
    | .tick m => some (.tuple [.str "_update_time_on_market", .ref 3, .tuple [.ref (5 + m)]])
    | _ => none))

/-- **`_update_times_on_markets` is the model's `ticks`**: whatever the order in which the markets are
listed, the plain market's clock is advanced before the index market's -/
theorem ticks_src_index_first (ρ : Rho K) :
    resultG handlerObs ρ envT FUEL "Simulator._update_times_on_markets" [.ref 3, .list [.ref 6, .ref 5]] (stS tblS)
      = tickObs (Runner.ticks [(1, true), (0, false)]) := by
  apply resultG_eq_of_pathsP (by intro x; simp)
  show ∀ p ∈ tickPaths [6, 5], _
  py_paths tkP65
  intro _; rfl

theorem ticks_src_plain_first (ρ : Rho K) :
    resultG handlerObs ρ envT FUEL "Simulator._update_times_on_markets" [.ref 3, .list [.ref 5, .ref 6]] (stS tblS)
      = tickObs (Runner.ticks [(0, false), (1, true)]) := by
  apply resultG_eq_of_pathsP (by intro x; simp)
  show ∀ p ∈ tickPaths [5, 6], _
  py_paths tkP56
  intro _; rfl

end Pams.Src
