/-
`Agent.setup` (with `set_market_accessible`, `set_asset_volume`, `is_market_accessible` and the translated
`JsonRandom.random` below it) and `update_asset_volume` / `update_cash_amount` / `get_asset_volume` as they
stand in /repo (translated: `PamsGen.Code`): the endowment an agent starts from — by symbolic execution.

Setting: an agent (address 1, class `Agent`, no market accessible yet) with its generator at 2; the settings
give `cashAmount` = num atom 10 and `assetVolume` = num atom 11 (plain numbers: no draw is made); the
accessible market ids are 0 and 1.
-/
import PamsLemmas.EvalNf
import PamsGen.Code
import PamsLemmas.SrcOrder

namespace Pams.Src
open Pams Pams.Py

variable {K : Type} [LinearOrder K] [NumOpsC K]

def endowAgent (vols : Val) : String → Option Val
  | "__class__" => some (.str "Agent")
  | "prng" => some (.ref 2)
  | "asset_volumes" => some vols
  | "cash_amount" => some (.num (.atom 12))
  | _ => none

def endowSt (vols : Val) : St :=
  { heap := fun a => if a = 1 then endowAgent vols else if a = 40 then (fun f => match f with
      | "__class__" => some (.str "JsonRandom") | "prng" => some (.ref 2) | _ => none) else fun _ => none,
    calls := [] }

/-- `JsonRandom(prng=…)` answers the generator wrapper at address 40 -/
def endowExt : Ext := fun st recv fn args =>
  match recv, fn, args with
  | .none, "JsonRandom", [.ref 2] => some (.ref 40, st)
  | _, _, _ => none

def endowEnv : Env := { prog := PamsGen.Code.prog, globals := globals, ext := endowExt, mro := PamsGen.Code.mroOf }

/-- cash and holdings afterwards, and the extern calls made (draws would show here) -/
def endowObs : Except Py.Err (Val × St) → Obs
  | .ok (v, st) =>
    .tuple [Obs.ofVal v, Obs.ofOpt (st.heap 1 "cash_amount"),
            (match st.heap 1 "asset_volumes" with
             | some (.dict ks vs) => .tuple [.tuple (ks.map Obs.ofVal), .tuple (vs.map Obs.ofVal)] | _ => .absent),
            .tuple (st.calls.reverse.map (fun c => Obs.str c.fn))]
  | .error e => .err e

def settingsVal (cash vol : Bool) : Val :=
  .dict ((if cash then [.str "cashAmount"] else []) ++ (if vol then [.str "assetVolume"] else []))
        ((if cash then [.num (.atom 10)] else []) ++ (if vol then [.num (.atom 11)] else []))

def setupPaths (cash vol : Bool) (ids : List Int) :=
  obsPathsPG endowObs endowEnv FUEL "Agent.setup" [.ref 1, settingsVal cash vol, .list (ids.map (fun i => .int (.lit i)))]
    (endowSt (.dict [] []))

def rhoEndow (cash vol old : K) (hold delta : Int) : Rho K :=
  { i := fun k => if k = 20 then hold else delta
    n := fun k => if k = 10 then cash else if k = 11 then vol else old
    b := fun _ => false }

/-- `int(x)` of Python: truncation toward zero -/
def truncInt (x : K) : Int := if x < PyNum.ofInt 0 then PyNum.ceil x else PyNum.floor x

set_option maxRecDepth 100000
theorem suP_ok : setupPaths true true [0, 1] = evalnf% (setupPaths true true [0, 1]) := by kernel_rfl
theorem suP_nocash : setupPaths false true [0, 1] = evalnf% (setupPaths false true [0, 1]) := by kernel_rfl
theorem suP_novol : setupPaths true false [0, 1] = evalnf% (setupPaths true false [0, 1]) := by kernel_rfl
theorem suP_dup : setupPaths true true [0, 0] = evalnf% (setupPaths true true [0, 0]) := by kernel_rfl

/-- **the endowment**: cash is the configured amount, every accessible market is made accessible once and
holds `int(assetVolume)` (truncated toward zero), nothing else is accessible, and no random draw is made for
plain numbers -/
theorem endow_src_setup (cash vol old : K) (hold delta : Int) :
    resultG endowObs (rhoEndow cash vol old hold delta) endowEnv FUEL "Agent.setup"
        [.ref 1, settingsVal true true, .list [.int (.lit 0), .int (.lit 1)]] (endowSt (.dict [] []))
      = .tuple [.none, .num cash, .tuple [.tuple [.int 0, .int 1], .tuple [.int (truncInt vol), .int (truncInt vol)]],
                .tuple [.str "JsonRandom", .str "JsonRandom", .str "JsonRandom"]] := by
  apply resultG_eq_of_pathsP (by intro x; simp)
  show ∀ p ∈ setupPaths true true [0, 1], _
  py_paths suP_ok
  all_goals intro h
  all_goals simp [BTerm.eval, ITerm.eval, NTerm.eval, rhoEndow, Obs.eval, Obs.evalList, truncInt] at h ⊢
  all_goals (intro h2; first | exact absurd h (not_lt.mpr h2) | exact absurd h2 (not_lt.mpr h))

/-- a missing `cashAmount` or `assetVolume` is refused; so is a market id listed twice -/
theorem endow_src_refusals (cash vol old : K) (hold delta : Int) :
    resultG endowObs (rhoEndow cash vol old hold delta) endowEnv FUEL "Agent.setup"
        [.ref 1, settingsVal false true, .list [.int (.lit 0), .int (.lit 1)]] (endowSt (.dict [] [])) = .err (.raise "ValueError") ∧
    resultG endowObs (rhoEndow cash vol old hold delta) endowEnv FUEL "Agent.setup"
        [.ref 1, settingsVal true false, .list [.int (.lit 0), .int (.lit 1)]] (endowSt (.dict [] [])) = .err (.raise "ValueError") ∧
    resultG endowObs (rhoEndow cash vol old hold delta) endowEnv FUEL "Agent.setup"
        [.ref 1, settingsVal true true, .list [.int (.lit 0), .int (.lit 0)]] (endowSt (.dict [] [])) = .err (.raise "ValueError") := by
  refine ⟨?_, ?_, ?_⟩
  · apply resultG_eq_of_pathsP (by intro x; simp)
    show ∀ p ∈ setupPaths false true [0, 1], _
    py_paths suP_nocash
    all_goals intro h
    all_goals simp [BTerm.eval, ITerm.eval, NTerm.eval, rhoEndow, Obs.eval, Obs.evalList] at h ⊢
  · apply resultG_eq_of_pathsP (by intro x; simp)
    show ∀ p ∈ setupPaths true false [0, 1], _
    py_paths suP_novol
    all_goals intro h
    all_goals simp [BTerm.eval, ITerm.eval, NTerm.eval, rhoEndow, Obs.eval, Obs.evalList] at h ⊢
  · apply resultG_eq_of_pathsP (by intro x; simp)
    show ∀ p ∈ setupPaths true true [0, 0], _
    py_paths suP_dup
    all_goals intro h
    all_goals simp [BTerm.eval, ITerm.eval, NTerm.eval, rhoEndow, Obs.eval, Obs.evalList] at h ⊢

end Pams.Src

/-! ### holdings: reading and updating -/
namespace Pams.Src
open Pams Pams.Py
variable {K : Type} [LinearOrder K] [NumOpsC K]

/-- the agent with markets 0 and 1 accessible, holding int atoms 20 and 21 -/
def holdVols : Val := .dict [.int (.lit 0), .int (.lit 1)] [.int (.atom 20), .int (.atom 21)]

def holdPaths (fn : String) (args : List Val) :=
  obsPathsPG endowObs endowEnv FUEL ("Agent." ++ fn) (.ref 1 :: args) (endowSt holdVols)

def rhoHold (h0 h1 delta : Int) (cash d : K) : Rho K :=
  { i := fun k => if k = 20 then h0 else if k = 21 then h1 else delta
    n := fun k => if k = 12 then cash else d
    b := fun _ => false }

theorem hdP_get : holdPaths "get_asset_volume" [.int (.lit 1)] = evalnf% (holdPaths "get_asset_volume" [.int (.lit 1)]) := by kernel_rfl
theorem hdP_getNo : holdPaths "get_asset_volume" [.int (.lit 2)] = evalnf% (holdPaths "get_asset_volume" [.int (.lit 2)]) := by kernel_rfl
theorem hdP_upd : holdPaths "update_asset_volume" [.int (.lit 1), .int (.atom 30)] = evalnf% (holdPaths "update_asset_volume" [.int (.lit 1), .int (.atom 30)]) := by kernel_rfl
theorem hdP_updNo : holdPaths "update_asset_volume" [.int (.lit 2), .int (.atom 30)] = evalnf% (holdPaths "update_asset_volume" [.int (.lit 2), .int (.atom 30)]) := by kernel_rfl
theorem hdP_cash : holdPaths "update_cash_amount" [.num (.atom 13)] = evalnf% (holdPaths "update_cash_amount" [.num (.atom 13)]) := by kernel_rfl

/-- **holdings are read and changed per accessible market only**: `get_asset_volume` answers the position of an
accessible market and refuses any other; `update_asset_volume` adds the delta to that market's position and
touches nothing else; `update_cash_amount` adds the delta to the cash -/
theorem endow_src_holdings (h0 h1 delta : Int) (cash d : K) :
    resultG endowObs (rhoHold h0 h1 delta cash d) endowEnv FUEL "Agent.get_asset_volume" [.ref 1, .int (.lit 1)] (endowSt holdVols)
      = .tuple [.int h1, .num cash, .tuple [.tuple [.int 0, .int 1], .tuple [.int h0, .int h1]], .tuple []] ∧
    resultG endowObs (rhoHold h0 h1 delta cash d) endowEnv FUEL "Agent.get_asset_volume" [.ref 1, .int (.lit 2)] (endowSt holdVols)
      = .err (.raise "ValueError") ∧
    resultG endowObs (rhoHold h0 h1 delta cash d) endowEnv FUEL "Agent.update_asset_volume" [.ref 1, .int (.lit 1), .int (.atom 30)] (endowSt holdVols)
      = .tuple [.none, .num cash, .tuple [.tuple [.int 0, .int 1], .tuple [.int h0, .int (h1 + delta)]], .tuple []] ∧
    resultG endowObs (rhoHold h0 h1 delta cash d) endowEnv FUEL "Agent.update_asset_volume" [.ref 1, .int (.lit 2), .int (.atom 30)] (endowSt holdVols)
      = .err (.raise "ValueError") ∧
    resultG endowObs (rhoHold h0 h1 delta cash d) endowEnv FUEL "Agent.update_cash_amount" [.ref 1, .num (.atom 13)] (endowSt holdVols)
      = .tuple [.none, .num (cash + d), .tuple [.tuple [.int 0, .int 1], .tuple [.int h0, .int h1]], .tuple []] := by
  refine ⟨?_, ?_, ?_, ?_, ?_⟩
  · apply resultG_eq_of_pathsP (by intro x; simp)
    show ∀ p ∈ holdPaths "get_asset_volume" [.int (.lit 1)], _
    py_paths hdP_get
    all_goals intro h
    all_goals simp [BTerm.eval, ITerm.eval, NTerm.eval, rhoHold, Obs.eval, Obs.evalList] at h ⊢
  · apply resultG_eq_of_pathsP (by intro x; simp)
    show ∀ p ∈ holdPaths "get_asset_volume" [.int (.lit 2)], _
    py_paths hdP_getNo
    all_goals intro h
    all_goals simp [BTerm.eval, ITerm.eval, NTerm.eval, rhoHold, Obs.eval, Obs.evalList] at h ⊢
  · apply resultG_eq_of_pathsP (by intro x; simp)
    show ∀ p ∈ holdPaths "update_asset_volume" [.int (.lit 1), .int (.atom 30)], _
    py_paths hdP_upd
    all_goals intro h
    all_goals simp [BTerm.eval, ITerm.eval, NTerm.eval, rhoHold, Obs.eval, Obs.evalList] at h ⊢
  · apply resultG_eq_of_pathsP (by intro x; simp)
    show ∀ p ∈ holdPaths "update_asset_volume" [.int (.lit 2), .int (.atom 30)], _
    py_paths hdP_updNo
    all_goals intro h
    all_goals simp [BTerm.eval, ITerm.eval, NTerm.eval, rhoHold, Obs.eval, Obs.evalList] at h ⊢
  · apply resultG_eq_of_pathsP (by intro x; simp)
    show ∀ p ∈ holdPaths "update_cash_amount" [.num (.atom 13)], _
    py_paths hdP_cash
    all_goals intro h
    all_goals simp [BTerm.eval, ITerm.eval, NTerm.eval, rhoHold, Obs.eval, Obs.evalList] at h ⊢

end Pams.Src
