import PamsModel.Runner

namespace Pams.Runner

/-- classification of trace events -/
def Ev.isExec : Ev → Bool
  | .execution _ => true
  | _ => false

def Ev.isCall : Ev → Bool
  | .addOrder _ _ => true | .cancel _ _ => true | .execution _ => true
  | _ => false

def Ev.isConsult : Ev → Bool
  | .consult _ _ => true
  | _ => false

def Ev.isCallback : Ev → Bool
  | .cbSubmitted _ _ => true | .cbCanceled _ _ => true | .cbExecuted _ _ => true
  | _ => false

def Ev.isTick : Ev → Bool
  | .tick _ => true
  | _ => false

def Ev.isLedger : Ev → Bool
  | .ledger _ => true
  | _ => false

/-- events of the step frame (hooks, step records, clock) -/
def Ev.isFrame : Ev → Bool
  | .hookStepBefore _ _ => true | .stepBegin _ _ => true | .stepEnd _ _ => true
  | .hookStepAfter _ _ => true | .tick _ => true
  | _ => false

theorem stepBefore_frame (t : Nat) (resume : Nat → Bool) (ms : Markets) (flag : Bool) :
    ∀ e ∈ (stepBefore t resume ms flag).1, e.isFrame = true := by
  induction ms generalizing flag with
  | nil => simp [stepBefore]
  | cons m ms ih =>
    intro e he
    simp only [stepBefore, List.mem_cons] at he
    rcases he with rfl | rfl | he
    · rfl
    · rfl
    · exact ih _ e he

theorem stepAfter_frame (t : Nat) (ms : Markets) : ∀ e ∈ stepAfter t ms, e.isFrame = true := by
  induction ms with
  | nil => simp [stepAfter]
  | cons m ms ih =>
    intro e he
    simp only [stepAfter, List.mem_cons] at he
    rcases he with rfl | rfl | he
    · rfl
    · rfl
    · exact ih e he

theorem ticks_frame (ms : Markets) : ∀ e ∈ ticks ms, e.isFrame = true := by
  intro e he
  simp only [ticks, List.mem_append, List.mem_map] at he
  rcases he with ⟨_, _, rfl⟩ | ⟨_, _, rfl⟩ <;> rfl

theorem frame_not_other (e : Ev) (h : e.isFrame = true) :
    e.isCall = false ∧ e.isConsult = false ∧ e.isCallback = false ∧ e.isExec = false ∧
    e.isLedger = false := by
  cases e <;> simp [Ev.isFrame] at h <;> simp [Ev.isCall, Ev.isConsult, Ev.isCallback, Ev.isExec, Ev.isLedger]

/-! ### No matching round while the execution flag is off -/

theorem processRequest_flag_off (t : Nat) (r : Request) :
    (∀ e ∈ (processRequest t false r).tr, e.isExec = false) ∧ (processRequest t false r).flag = false := by
  unfold processRequest
  cases hc : r.isCancel <;> cases ha : r.accepted <;> simp [Ev.isExec]

theorem processBatch_flag_off (t : Nat) (rs : List Request) :
    (∀ e ∈ (processBatch t false rs).tr, e.isExec = false) ∧ (processBatch t false rs).flag = false := by
  induction rs with
  | nil => simp [processBatch]
  | cons r rs ih =>
    have h1 := processRequest_flag_off t r
    unfold processBatch Out.andThen
    by_cases h0 : (processRequest t false r).ok = true
    · simp only [h0, ↓reduceIte, h1.2]
      refine ⟨?_, ih.2⟩
      intro e he
      rcases List.mem_append.mp he with he | he
      · exact h1.1 e he
      · exact ih.1 e he
    · simp only [h0, Bool.false_eq_true, ↓reduceIte]
      exact h1

theorem hftRound_flag_off (t : Nat) (cap : Int) (answer : Nat → List Request) (as : List Nat) (n : Nat) :
    (∀ e ∈ (hftRound t cap answer as n false).tr, e.isExec = false) ∧
    (hftRound t cap answer as n false).flag = false := by
  induction as generalizing n with
  | nil => simp [hftRound]
  | cons a as ih =>
    unfold hftRound
    by_cases h1 : (n : Int) ≥ cap
    · simp [h1]
    · simp only [h1, ↓reduceIte]
      by_cases h2 : (answer a).isEmpty = true
      · simp only [h2, ↓reduceIte]
        refine ⟨?_, (ih n).2⟩
        intro e he
        simp only [List.mem_cons] at he
        rcases he with rfl | he
        · rfl
        · exact (ih n).1 e he
      · simp only [h2, Bool.false_eq_true, ↓reduceIte]
        by_cases h3 : ((answer a).any fun q => decide (q.owner ≠ a)) = true
        · simp only [h3, ↓reduceIte]
          simp [Ev.isExec]
        · simp only [h3, Bool.false_eq_true, ↓reduceIte]
          have hb := processBatch_flag_off t (answer a)
          simp only [Out.andThen]
          by_cases h4 : (processBatch t false (answer a)).ok = true
          · simp only [h4, ↓reduceIte, hb.2]
            refine ⟨?_, (ih (n + 1)).2⟩
            intro e he
            simp only [List.mem_cons, List.mem_append] at he
            rcases he with rfl | he | he
            · rfl
            · exact hb.1 e he
            · exact (ih (n + 1)).1 e he
          · simp only [h4, Bool.false_eq_true, ↓reduceIte]
            refine ⟨?_, hb.2⟩
            intro e he
            simp only [List.mem_cons] at he
            rcases he with rfl | he
            · rfl
            · exact hb.1 e he

theorem handle_flag_off (t : Nat) (maxHft : Int) (bs : List (Nat × List Request))
    (rts : List RoundTape) :
    (∀ e ∈ (handle t maxHft bs rts false).tr, e.isExec = false) ∧
    (handle t maxHft bs rts false).flag = false := by
  induction bs generalizing rts with
  | nil => simp [handle]
  | cons b bs ih =>
    obtain ⟨a, batch⟩ := b
    have hb := processBatch_flag_off t batch
    unfold handle
    simp only [Out.andThen]
    by_cases h1 : (processBatch t false batch).ok = true
    · simp only [h1, ↓reduceIte, hb.2]
      generalize hrt : (rts.headD { go := false, perm := [], answer := fun _ => [] } : RoundTape) = rt
      have hh := hftRound_flag_off t maxHft rt.answer rt.perm 0
      by_cases hgo : rt.go = true
      · simp only [hgo, ↓reduceIte]
        by_cases h2 : (hftRound t maxHft rt.answer rt.perm 0 false).ok = true
        · simp only [h2, ↓reduceIte, hh.2]
          refine ⟨?_, (ih rts.tail).2⟩
          intro e he
          simp only [List.mem_append] at he
          rcases he with he | he | he
          · exact hb.1 e he
          · exact hh.1 e he
          · exact (ih rts.tail).1 e he
        · simp only [h2, Bool.false_eq_true, ↓reduceIte]
          refine ⟨?_, hh.2⟩
          intro e he
          simp only [List.mem_append] at he
          rcases he with he | he
          · exact hb.1 e he
          · exact hh.1 e he
      · simp only [hgo, Bool.false_eq_true, ↓reduceIte]
        refine ⟨?_, (ih rts.tail).2⟩
        intro e he
        simp only [List.mem_append, List.not_mem_nil, false_or] at he
        rcases he with he | he
        · exact hb.1 e he
        · exact (ih rts.tail).1 e he
    · simp only [h1, Bool.false_eq_true, ↓reduceIte]
      exact hb

theorem collect_no_exec (hft : Bool) (cap : Int) (answer : Nat → List Request) (as : List Nat) (n : Nat) :
    ∀ e ∈ (collect hft cap answer as n).1, e.isCall = false ∧ e.isCallback = false ∧ e.isLedger = false := by
  induction as generalizing n with
  | nil => simp [collect]
  | cons a as ih =>
    unfold collect
    by_cases h1 : (n : Int) ≥ cap
    · simp [h1]
    · simp only [h1, ↓reduceIte]
      by_cases h2 : (answer a).isEmpty = true
      · simp only [h2, ↓reduceIte]
        intro e he
        simp only [List.mem_cons] at he
        rcases he with rfl | he
        · exact ⟨rfl, rfl, rfl⟩
        · exact ih n e he
      · simp only [h2, Bool.false_eq_true, ↓reduceIte]
        by_cases h3 : ((answer a).any fun q => decide (q.owner ≠ a)) = true
        · simp only [h3, ↓reduceIte]
          intro e he
          simp only [List.mem_cons, List.not_mem_nil, or_false] at he
          rcases he with rfl | rfl <;> exact ⟨rfl, rfl, rfl⟩
        · simp only [h3, Bool.false_eq_true, ↓reduceIte]
          intro e he
          simp only [List.mem_cons] at he
          rcases he with rfl | he
          · exact ⟨rfl, rfl, rfl⟩
          · exact ih (n + 1) e he

/-- the flag after the before-step dispatches: on iff it was on or some handler resumed -/
theorem stepBefore_flag (t : Nat) (resume : Nat → Bool) (ms : Markets) (flag : Bool) :
    (stepBefore t resume ms flag).2 = (flag || ms.any (fun m => resume m.1)) := by
  induction ms generalizing flag with
  | nil => simp [stepBefore]
  | cons m ms ih =>
    simp only [stepBefore, List.any_cons]
    rw [ih]
    cases flag <;> cases resume m.1 <;> simp

/-- C09(b): in a step that starts with the flag off and in which no before-step handler resumes,
no matching round is requested, and the flag is still off afterwards -/
theorem runStep_flag_off (ms : Markets) (cfg : SessionCfg) (t : Nat) (tape : StepTape)
    (hres : ∀ m ∈ ms, tape.resume m.1 = false) :
    (∀ e ∈ (runStep ms cfg t false tape).tr, e.isExec = false) ∧
    (runStep ms cfg t false tape).flag = false := by
  have hf : (stepBefore t tape.resume ms false).2 = false := by
    rw [stepBefore_flag]
    simp only [Bool.false_or, List.any_eq_false]
    intro m hm; simp [hres m hm]
  have hfr := fun e he => (frame_not_other e (stepBefore_frame t tape.resume ms false e he)).2.2.2.1
  have hfa := fun e he => (frame_not_other e (stepAfter_frame t ms e he)).2.2.2.1
  have hft := fun e he => (frame_not_other e (ticks_frame ms e he)).2.2.2.1
  unfold runStep
  simp only [hf]
  by_cases hp : cfg.placement = true
  · simp only [hp, ↓reduceIte]
    have hc := collect_no_exec false cfg.maxNormal tape.answer tape.perm 0
    have hce : ∀ e ∈ (collect false cfg.maxNormal tape.answer tape.perm 0).1, e.isExec = false := by
      intro e he
      have := (hc e he).1
      cases e <;> simp [Ev.isCall] at this <;> simp [Ev.isExec]
    by_cases hok : (collect false cfg.maxNormal tape.answer tape.perm 0).2.1 = true
    · simp only [hok, ↓reduceIte]
      have hh := handle_flag_off t cfg.maxHft
        (applyShuffle tape.shuffle (collect false cfg.maxNormal tape.answer tape.perm 0).2.2) tape.rounds
      by_cases hok2 : (handle t cfg.maxHft
          (applyShuffle tape.shuffle (collect false cfg.maxNormal tape.answer tape.perm 0).2.2)
          tape.rounds false).ok = true
      · simp only [hok2, ↓reduceIte]
        refine ⟨?_, hh.2⟩
        intro e he
        simp only [List.mem_append] at he
        rcases he with ((he | he | he) | he) | he
        · exact hfr e he
        · exact hce e he
        · exact hh.1 e he
        · exact hfa e he
        · exact hft e he
      · simp only [hok2, Bool.false_eq_true, ↓reduceIte]
        refine ⟨?_, hh.2⟩
        intro e he
        simp only [List.mem_append] at he
        rcases he with he | he | he
        · exact hfr e he
        · exact hce e he
        · exact hh.1 e he
    · simp only [hok, Bool.false_eq_true, ↓reduceIte]
      refine ⟨?_, trivial⟩
      intro e he
      simp only [List.mem_append] at he
      rcases he with he | he
      · exact hfr e he
      · exact hce e he
  · simp only [hp, Bool.false_eq_true, ↓reduceIte, List.append_nil]
    refine ⟨?_, trivial⟩
    intro e he
    simp only [List.mem_append] at he
    rcases he with (he | he) | he
    · exact hfr e he
    · exact hfa e he
    · exact hft e he

theorem runSteps_flag_off (ms : Markets) (cfg : SessionCfg) (t : Nat) (tapes : List StepTape) (n : Nat)
    (hres : ∀ tape ∈ tapes, ∀ m ∈ ms, tape.resume m.1 = false) :
    (∀ e ∈ (runSteps ms cfg t false tapes n).tr, e.isExec = false) ∧
    (runSteps ms cfg t false tapes n).flag = false := by
  induction n generalizing t tapes with
  | zero => simp [runSteps]
  | succ n ih =>
    unfold runSteps
    have hres0 : ∀ m ∈ ms, (tapes.headD
        { resume := fun _ => false, perm := [], answer := fun _ => [], shuffle := [], rounds := [] }).resume m.1 = false := by
      intro m hm
      cases tapes with
      | nil => rfl
      | cons x xs => exact hres x (by simp) m hm
    have h1 := runStep_flag_off ms cfg t _ hres0
    have h2 := ih (t + 1) tapes.tail (fun tape ht => hres tape (List.mem_of_mem_tail ht))
    simp only [Out.andThen]
    by_cases h0 : (runStep ms cfg t false (tapes.headD
        { resume := fun _ => false, perm := [], answer := fun _ => [], shuffle := [], rounds := [] })).ok = true
    · simp only [h0, ↓reduceIte, h1.2]
      refine ⟨?_, h2.2⟩
      intro e he
      rcases List.mem_append.mp he with he | he
      · exact h1.1 e he
      · exact h2.1 e he
    · simp only [h0, Bool.false_eq_true, ↓reduceIte]
      exact h1


/-! ### Collection: who is consulted -/

/-- the agents consulted by a trace fragment, in order -/
def consulted : List Ev → List Nat
  | [] => []
  | .consult a _ :: es => a :: consulted es
  | _ :: es => consulted es

theorem consulted_append (a b : List Ev) : consulted (a ++ b) = consulted a ++ consulted b := by
  induction a with
  | nil => rfl
  | cons e es ih => cases e <;> simp [consulted, ih]

/-- C09(c): the agents consulted are a prefix of the drawn permutation (so each at most once when
the permutation has no repetition), the number of collected non-empty batches never exceeds what
the cap leaves (`cap - n`), nobody is consulted when the cap is already reached, and consultation
stops right after the batch that reaches the cap or at the end of the permutation. -/
theorem collect_spec (hft : Bool) (cap : Int) (answer : Nat → List Request) (as : List Nat) (n : Nat) :
    let r := collect hft cap answer as n
    (∃ k, consulted r.1 = as.take k ∧
      (r.2.1 = true → (k = as.length ∨ (n + r.2.2.length : Int) ≥ cap))) ∧
    ((n : Int) ≥ cap → r.1 = [] ∧ r.2.2 = []) ∧
    ((n : Int) ≤ cap → (n + r.2.2.length : Int) ≤ cap) ∧
    (∀ b ∈ r.2.2, b.1 ∈ as ∧ b.2 = answer b.1 ∧ b.2 ≠ [] ∧ ∀ q ∈ b.2, q.owner = b.1) := by
  induction as generalizing n with
  | nil =>
    simp only [collect]
    exact ⟨⟨0, by simp [consulted], by simp⟩, by simp, by simp, by simp⟩
  | cons a as ih =>
    unfold collect
    by_cases h1 : (n : Int) ≥ cap
    · simp only [h1, ↓reduceIte]
      exact ⟨⟨0, by simp [consulted], fun _ => Or.inr (by simpa using h1)⟩, by simp, by simp, by simp⟩
    · simp only [h1, ↓reduceIte]
      by_cases h2 : (answer a).isEmpty = true
      · simp only [h2, ↓reduceIte]
        obtain ⟨⟨k, hk1, hk2⟩, _, h3, h4⟩ := ih n
        refine ⟨⟨k + 1, by simp [consulted, hk1], ?_⟩, fun h => h.elim, h3, ?_⟩
        · intro hok
          rcases hk2 hok with h | h
          · left; simp [h]
          · right; exact h
        · intro b hb
          obtain ⟨x1, x2, x3, x4⟩ := h4 b hb
          exact ⟨by simp [x1], x2, x3, x4⟩
      · simp only [h2, Bool.false_eq_true, ↓reduceIte]
        by_cases h3 : ((answer a).any fun q => decide (q.owner ≠ a)) = true
        · simp only [h3, ↓reduceIte]
          refine ⟨⟨1, by simp [consulted], by simp⟩, fun h => h.elim, ?_, by simp⟩
          intro h; simpa using h
        · simp only [h3, Bool.false_eq_true, ↓reduceIte]
          obtain ⟨⟨k, hk1, hk2⟩, _, h5, h6⟩ := ih (n + 1)
          refine ⟨⟨k + 1, by simp [consulted, hk1], ?_⟩, fun h => h.elim, ?_, ?_⟩
          · intro hok
            rcases hk2 hok with h | h
            · left; simp [h]
            · right; simp only [List.length_cons]; push_cast at h ⊢; omega
          · intro _
            have : ((n + 1 : Nat) : Int) ≤ cap := by omega
            have := h5 this
            simp only [List.length_cons]; push_cast at this ⊢; omega
          · intro b hb
            rcases List.mem_cons.mp hb with rfl | hb
            · refine ⟨List.mem_cons_self, rfl, ?_, ?_⟩
              · intro he; simp only at he; simp [he] at h2
              · intro q hq
                simp only [List.any_eq_true, decide_eq_true_eq, not_exists, not_and, Decidable.not_not] at h3
                exact h3 q hq
            · obtain ⟨x1, x2, x3, x4⟩ := h6 b hb
              exact ⟨by simp [x1], x2, x3, x4⟩


/-! ### The body of a step (collection and processing) contains no frame events -/

def Ev.isBody : Ev → Bool
  | .consult _ _ => true
  | .hookOrderBefore _ _ => true | .addOrder _ _ => true | .cbSubmitted _ _ => true | .hookOrderAfter _ _ => true
  | .hookCancelBefore _ _ => true | .cancel _ _ => true | .cbCanceled _ _ => true | .hookCancelAfter _ _ => true
  | .execution _ => true | .ledger _ => true | .cbExecuted _ _ => true | .hookExecAfter _ _ => true
  | .abort => true
  | _ => false

theorem fillEvents_body (t : Nat) (fs : List RFill) : ∀ e ∈ fillEvents t fs, e.isBody = true := by
  induction fs with
  | nil => simp [fillEvents]
  | cons f fs ih =>
    intro e he
    simp only [fillEvents, List.cons_append, List.nil_append, List.mem_cons] at he
    rcases he with rfl | rfl | rfl | he
    · rfl
    · rfl
    · rfl
    · exact ih e he

theorem processRequest_body (t : Nat) (flag : Bool) (r : Request) :
    ∀ e ∈ (processRequest t flag r).tr, e.isBody = true := by
  intro e he
  unfold processRequest at he
  cases hc : r.isCancel <;> cases ha : r.accepted <;> cases hf : flag <;>
    simp only [hc, ha, hf, Bool.not_true, Bool.not_false, Bool.false_eq_true, ↓reduceIte] at he
  all_goals try (simp at he; rcases he with rfl | rfl | rfl | rfl | rfl <;> rfl)
  all_goals
    rcases hfs : r.fills with _ | fs
    · simp [hfs] at he
      rcases he with rfl | rfl | rfl | rfl | rfl | rfl <;> rfl
    · simp [hfs] at he
      rcases he with rfl | rfl | rfl | rfl | rfl | rfl | he
      all_goals try rfl
      exact fillEvents_body t fs e he

theorem andThen_mem (a : Out) (f : Bool → Out) (p : Ev → Prop)
    (ha : ∀ e ∈ a.tr, p e) (hf : ∀ fl, ∀ e ∈ (f fl).tr, p e) : ∀ e ∈ (a.andThen f).tr, p e := by
  intro e he
  unfold Out.andThen at he
  by_cases h : a.ok = true
  · simp only [h, ↓reduceIte, List.mem_append] at he
    rcases he with he | he
    · exact ha e he
    · exact hf _ e he
  · simp only [h, Bool.false_eq_true, ↓reduceIte] at he
    exact ha e he

theorem processBatch_body (t : Nat) (flag : Bool) (rs : List Request) :
    ∀ e ∈ (processBatch t flag rs).tr, e.isBody = true := by
  induction rs generalizing flag with
  | nil => simp [processBatch]
  | cons r rs ih =>
    unfold processBatch
    exact andThen_mem _ _ _ (processRequest_body t flag r) (fun fl => ih fl)

theorem hftRound_body (t : Nat) (cap : Int) (answer : Nat → List Request) (as : List Nat) (n : Nat)
    (flag : Bool) : ∀ e ∈ (hftRound t cap answer as n flag).tr, e.isBody = true := by
  induction as generalizing n flag with
  | nil => simp [hftRound]
  | cons a as ih =>
    unfold hftRound
    by_cases h1 : (n : Int) ≥ cap
    · simp [h1]
    · simp only [h1, ↓reduceIte]
      by_cases h2 : (answer a).isEmpty = true
      · simp only [h2, ↓reduceIte]
        intro e he
        simp only [List.mem_cons] at he
        rcases he with rfl | he
        · rfl
        · exact ih n flag e he
      · simp only [h2, Bool.false_eq_true, ↓reduceIte]
        by_cases h3 : ((answer a).any fun q => decide (q.owner ≠ a)) = true
        · simp only [h3, ↓reduceIte]
          intro e he
          simp only [List.mem_cons, List.not_mem_nil, or_false] at he
          rcases he with rfl | rfl <;> rfl
        · simp only [h3, Bool.false_eq_true, ↓reduceIte]
          intro e he
          simp only [List.mem_cons] at he
          rcases he with rfl | he
          · rfl
          · exact andThen_mem _ _ _ (processBatch_body t flag (answer a)) (fun fl => ih (n + 1) fl) e he

theorem handle_body (t : Nat) (maxHft : Int) (bs : List (Nat × List Request)) (rts : List RoundTape)
    (flag : Bool) : ∀ e ∈ (handle t maxHft bs rts flag).tr, e.isBody = true := by
  induction bs generalizing rts flag with
  | nil => simp [handle]
  | cons b bs ih =>
    obtain ⟨a, batch⟩ := b
    unfold handle
    apply andThen_mem _ _ _ (processBatch_body t flag batch)
    intro fl
    apply andThen_mem
    · by_cases hgo : (rts.headD { go := false, perm := [], answer := fun _ => [] }).go = true
      · simp only [hgo, ↓reduceIte]
        exact hftRound_body t maxHft _ _ 0 fl
      · simp only [hgo, Bool.false_eq_true, ↓reduceIte]
        simp
    · intro fl2
      exact ih rts.tail fl2

theorem collect_body (hft : Bool) (cap : Int) (answer : Nat → List Request) (as : List Nat) (n : Nat) :
    ∀ e ∈ (collect hft cap answer as n).1, e.isBody = true := by
  induction as generalizing n with
  | nil => simp [collect]
  | cons a as ih =>
    unfold collect
    by_cases h1 : (n : Int) ≥ cap
    · simp [h1]
    · simp only [h1, ↓reduceIte]
      by_cases h2 : (answer a).isEmpty = true
      · simp only [h2, ↓reduceIte]
        intro e he
        simp only [List.mem_cons] at he
        rcases he with rfl | he
        · rfl
        · exact ih n e he
      · simp only [h2, Bool.false_eq_true, ↓reduceIte]
        by_cases h3 : ((answer a).any fun q => decide (q.owner ≠ a)) = true
        · simp only [h3, ↓reduceIte]
          intro e he
          simp only [List.mem_cons, List.not_mem_nil, or_false] at he
          rcases he with rfl | rfl <;> rfl
        · simp only [h3, Bool.false_eq_true, ↓reduceIte]
          intro e he
          simp only [List.mem_cons] at he
          rcases he with rfl | he
          · rfl
          · exact ih (n + 1) e he

/-- the middle part of a step (between the step-begin and step-end frames) -/
def stepBody (cfg : SessionCfg) (t : Nat) (flag : Bool) (tape : StepTape) : Out :=
  if cfg.placement then
    let c := collect false cfg.maxNormal tape.answer tape.perm 0
    if c.2.1 then
      let h := handle t cfg.maxHft (applyShuffle tape.shuffle c.2.2) tape.rounds flag
      { h with tr := c.1 ++ h.tr }
    else { tr := c.1, ok := false, flag := flag }
  else { tr := [], ok := true, flag := flag }

theorem stepBody_body (cfg : SessionCfg) (t : Nat) (flag : Bool) (tape : StepTape) :
    ∀ e ∈ (stepBody cfg t flag tape).tr, e.isBody = true := by
  unfold stepBody
  by_cases hp : cfg.placement = true
  · simp only [hp, ↓reduceIte]
    by_cases hok : (collect false cfg.maxNormal tape.answer tape.perm 0).2.1 = true
    · simp only [hok, ↓reduceIte]
      intro e he
      simp only [List.mem_append] at he
      rcases he with he | he
      · exact collect_body _ _ _ _ _ e he
      · exact handle_body _ _ _ _ _ e he
    · simp only [hok, Bool.false_eq_true, ↓reduceIte]
      exact collect_body _ _ _ _ _
  · simp only [hp, Bool.false_eq_true, ↓reduceIte]
    simp

theorem runStep_eq (ms : Markets) (cfg : SessionCfg) (t : Nat) (flag : Bool) (tape : StepTape) :
    runStep ms cfg t flag tape =
      (let b := stepBefore t tape.resume ms flag
       let body := stepBody cfg t b.2 tape
       if body.ok then
         { tr := b.1 ++ body.tr ++ stepAfter t ms ++ ticks ms, ok := true, flag := body.flag }
       else { tr := b.1 ++ body.tr, ok := false, flag := body.flag }) := rfl

end Pams.Runner
