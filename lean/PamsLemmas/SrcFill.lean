/-
`Market._fill_until` as it stands in /repo (translated: `PamsGen.Code`): growing the storage of the
per-step series never touches a filled slot — every series keeps all its values and is padded with its
own neutral element.  By symbolic execution, on a market with chunk size 4 whose eight series hold two
slots each (all sixteen values atoms) and that is asked to make room for time 2.
-/
import PamsLemmas.EvalNf
import PamsGen.Code
import PamsLemmas.SrcOrder

namespace Pams.Src
open Pams Pams.Py

variable {K : Type} [LinearOrder K] [NumOpsC K]

def fillMarket : String → Option Val
  | "__class__" => some (.str "Market")
  | "chunk_size" => some (.int (.lit 4))
  | "_market_prices" => some (.list [.num (.atom 10), .num (.atom 11)])
  | "_mid_prices" => some (.list [.num (.atom 20), .num (.atom 21)])
  | "_last_executed_prices" => some (.list [.num (.atom 30), .num (.atom 31)])
  | "_fundamental_prices" => some (.list [.num (.atom 40), .num (.atom 41)])
  | "_executed_volumes" => some (.list [.int (.atom 50), .int (.atom 51)])
  | "_executed_total_prices" => some (.list [.num (.atom 60), .num (.atom 61)])
  | "_n_buy_orders" => some (.list [.int (.atom 70), .int (.atom 71)])
  | "_n_sell_orders" => some (.list [.int (.atom 80), .int (.atom 81)])
  | _ => none

def fillSt : St := { heap := fun a => if a = 5 then fillMarket else fun _ => none, calls := [] }

def seriesObs (st : St) (f : String) : Obs :=
  match st.heap 5 f with
  | some (.list l) => .tuple (l.map Obs.ofVal)
  | _ => .other

def fillObs : Except Py.Err (Val × St) → Obs
  | .ok (_, st) =>
    .tuple [seriesObs st "_market_prices", seriesObs st "_mid_prices", seriesObs st "_last_executed_prices",
            seriesObs st "_fundamental_prices", seriesObs st "_executed_volumes", seriesObs st "_executed_total_prices",
            seriesObs st "_n_buy_orders", seriesObs st "_n_sell_orders"]
  | .error e => .err e

def fillPaths (time : Int) := obsPathsPG fillObs env FUEL "Market._fill_until" [.ref 5, .int (.lit time)] fillSt

def rhoFill (x : Nat → K) (n : Nat → Int) : Rho K := { i := n, n := x, b := fun _ => false }

set_option maxRecDepth 100000
theorem fillP_2 : fillPaths 2 = evalnf% (fillPaths 2) := by kernel_rfl
theorem fillP_1 : fillPaths 1 = evalnf% (fillPaths 1) := by kernel_rfl

/-- **storage growth keeps every recorded value** (current source): asked to make room for time 2, each
of the eight series keeps its two slots as they are and gets two fresh slots — `None` for the four
price series, `0` for the four counters — and nothing is copied from one series into another. -/
theorem fill_src_grows (x : Nat → K) (n : Nat → Int) :
    resultG fillObs (rhoFill x n) env FUEL "Market._fill_until" [.ref 5, .int (.lit 2)] fillSt
      = .tuple [ .tuple [.num (x 10), .num (x 11), .none, .none], .tuple [.num (x 20), .num (x 21), .none, .none],
                 .tuple [.num (x 30), .num (x 31), .none, .none], .tuple [.num (x 40), .num (x 41), .none, .none],
                 .tuple [.int (n 50), .int (n 51), .int 0, .int 0], .tuple [.num (x 60), .num (x 61), .int 0, .int 0],
                 .tuple [.int (n 70), .int (n 71), .int 0, .int 0], .tuple [.int (n 80), .int (n 81), .int 0, .int 0] ] := by
  apply resultG_eq_of_pathsP (by intro y; simp)
  show ∀ p ∈ fillPaths 2, _
  py_paths fillP_2
  all_goals intro h
  all_goals simp [BTerm.eval, ITerm.eval, NTerm.eval, rhoFill, Obs.eval, Obs.evalList] at h ⊢

/-- … and when there is room already nothing changes at all -/
theorem fill_src_noop (x : Nat → K) (n : Nat → Int) :
    resultG fillObs (rhoFill x n) env FUEL "Market._fill_until" [.ref 5, .int (.lit 1)] fillSt
      = .tuple [ .tuple [.num (x 10), .num (x 11)], .tuple [.num (x 20), .num (x 21)],
                 .tuple [.num (x 30), .num (x 31)], .tuple [.num (x 40), .num (x 41)],
                 .tuple [.int (n 50), .int (n 51)], .tuple [.num (x 60), .num (x 61)],
                 .tuple [.int (n 70), .int (n 71)], .tuple [.int (n 80), .int (n 81)] ] := by
  apply resultG_eq_of_pathsP (by intro y; simp)
  show ∀ p ∈ fillPaths 1, _
  py_paths fillP_1
  all_goals intro h
  all_goals simp [BTerm.eval, ITerm.eval, NTerm.eval, rhoFill, Obs.eval, Obs.evalList] at h ⊢

end Pams.Src
