/-
Two conditional rewrite rules that let `simp` decide a comparison from the opposite one among the
hypotheses (path conditions).
-/
import Mathlib.Order.Defs.LinearOrder
import Mathlib.Order.Basic

namespace Pams.Src
theorem lt_false_of_le {α : Type} [LinearOrder α] {a b : α} (h : b ≤ a) : (a < b) = False := eq_false (not_lt.mpr h)
theorem le_false_of_lt {α : Type} [LinearOrder α] {a b : α} (h : b < a) : (a ≤ b) = False := eq_false (not_le.mpr h)
end Pams.Src
