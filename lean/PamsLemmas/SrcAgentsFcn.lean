/-
`FCNAgent.submit_orders_by_market` (fixed-margin mode) as it stands in /repo is the documented formula —
by symbolic execution over all 135 paths of the translated source.
-/
import PamsLemmas.SrcAgents

namespace Pams.Src
open Pams Pams.Py Pams.Agents
variable {K : Type} [LinearOrder K] [NumOpsC K]

/-- the expected log return as the source spells it: the chart term is multiplied by `±1` (the model
`fcnLogReturn` negates instead: equal in a field, see `C20.source_fcn_formula`) -/
def fcnLogReturnSrc (mp fund mpPast wf wc wn noise : K) (tw mrt : Nat) (chartFollowing : Bool) : K :=
  let fScale : K := Arith.one / Arith.ofNat (if mrt < 1 then 1 else mrt)
  let f : K := fScale * ArithT.log (fund / mp)
  let cScale : K := Arith.one / Arith.ofNat (if tw < 1 then 1 else tw)
  let c : K := cScale * ArithT.log (mp / mpPast)
  Arith.one / (wf + wc + wn) * (wf * f + wc * c * PyNum.ofInt (if chartFollowing then 1 else -1) + wn * noise)

/-- valuation: clock `t`, window, mean-reversion time; the weights, noise scale, margin; fundamental price,
price now, price at the start of the window, the Gaussian draw; the two flags -/
def rhoFcn (t window mrt : Nat) (wf wc wn ns margin fund mp mpPast g : K) (accessible cf : Bool) (g2 : K := g) : Rho K :=
  { i := fun k => if k = 1 then t else if k = 2 then window else if k = 3 then mrt else 0
    n := fun k => if k = 1 then wf else if k = 2 then wc else if k = 3 then wn else if k = 4 then ns
      else if k = 5 then margin else if k = 10 then fund else if k = 11 then mp else if k = 12 then mpPast
      else if k = 14 then g2 else g
    b := fun k => if k = 1 then accessible else cf }

/-- the orders the formula gives: window actually used = `min(t, window)` -/
def fcnSrcOrders (t window mrt : Nat) (wf wc wn ns margin fund mp mpPast g : K) (cf : Bool) : List (AOrder K) :=
  let tw := if window < t then window else t
  fcnOrders mp (fcnExpected mp (fcnLogReturnSrc mp fund mpPast wf wc wn (ns * g) tw mrt cf) window) margin window

@[simp] theorem arithT_exp_eq (x : K) : (ArithT.exp x : K) = NumOpsC.exp x := rfl
@[simp] theorem arithT_log_eq (x : K) : (ArithT.log x : K) = NumOpsC.log x := rfl
@[simp] theorem pyNum_exp_eq (x : K) : (PyNum.exp x : K) = NumOpsC.exp x := rfl
@[simp] theorem pyNum_log_eq (x : K) : (PyNum.log x : K) = NumOpsC.log x := rfl
theorem nat_lt_false_of_le {a b : Nat} (h : b ≤ a) : (a < b) = False := by simp; omega
theorem int_cast_lt_one (n : Nat) : ((n : Int) < 1) = (n = 0) := by simp; omega
theorem int_one_le_cast (n : Nat) : ((1 : Int) ≤ (n : Int)) = (¬ n = 0) := by simp; omega

set_option maxHeartbeats 4000000 in
/-- **`FCNAgent.submit_orders_by_market` is the documented formula** (`fcnSrcOrders`): for an accessible
market, non-zero prices and weight sum, non-negative weights and a margin in [0, 1] (everything else makes
the source raise), whatever the clock, the window, the mean-reversion time, the prices and the draw — a buy
at `E·(1 − margin)` iff `E > price`, a sell at `E·(1 + margin)` iff `E < price`, nothing iff equal, where
`E = price · exp(r · window)` and `r` the weighted mean of the fundamental, chart and noise log-returns
over `max(mrt, 1)` resp. `max(min(t, window), 1)` steps.  (`hpos`: a positive integer is not zero as a float.) -/
theorem fcn_src (t window mrt : Nat) (wf wc wn ns margin fund mp mpPast g : K) (cf : Bool)
    (hpos : ∀ n : Int, 0 < n → (NumOpsC.ofInt n : K) ≠ NumOpsC.ofInt 0)
    (hmp : mp ≠ NumOpsC.ofInt 0) (hpast : mpPast ≠ NumOpsC.ofInt 0) (hw : wf + wc + wn ≠ NumOpsC.ofInt 0)
    (hwf : (NumOpsC.ofInt 0 : K) ≤ wf) (hwc : (NumOpsC.ofInt 0 : K) ≤ wc) (hwn : (NumOpsC.ofInt 0 : K) ≤ wn)
    (hm0 : (NumOpsC.ofInt 0 : K) ≤ margin) (hm1 : margin ≤ NumOpsC.ofInt 1) :
    resultG ordersObs (rhoFcn t window mrt wf wc wn ns margin fund mp mpPast g true cf) fcnEnv FUEL
        "FCNAgent.submit_orders_by_market" [.ref 1, .ref 5] fcnSt
      = .tuple ((fcnSrcOrders t window mrt wf wc wn ns margin fund mp mpPast g cf).map (aorderObs 0)) := by
  apply resultG_eq_of_pathsP (by intro x; simp)
  show ∀ p ∈ fcnPaths, _
  py_paths fcnPaths_eq
  all_goals intro h
  all_goals simp [BTerm.eval, ITerm.eval, NTerm.eval, rhoFcn, Obs.eval, Obs.evalList] at h ⊢
  all_goals (revert h; simp only [and_imp]; intros)
  all_goals try (simp_all [fcnSrcOrders, fcnOrders, fcnExpected, fcnLogReturnSrc, aorderObs, lt_false_of_le, le_false_of_lt,
    int_cast_lt_one, int_one_le_cast, nat_lt_false_of_le]; done)
  all_goals (exfalso; grind)

/-- an inaccessible market gets no order -/
theorem fcn_src_inaccessible (t window mrt : Nat) (wf wc wn ns margin fund mp mpPast g : K) (cf : Bool) :
    resultG ordersObs (rhoFcn t window mrt wf wc wn ns margin fund mp mpPast g false cf) fcnEnv FUEL
        "FCNAgent.submit_orders_by_market" [.ref 1, .ref 5] fcnSt = .tuple [] := by
  apply resultG_eq_of_pathsP (by intro x; simp)
  show ∀ p ∈ fcnPaths, _
  py_paths fcnPaths_eq
  all_goals intro h
  all_goals simp [BTerm.eval, ITerm.eval, NTerm.eval, rhoFcn, Obs.eval, Obs.evalList] at h ⊢

/-- normal-margin mode: both sides quote the expected price displaced by `gauss · margin` (a second draw `g2`) -/
def fcnSrcOrdersNormal (t window mrt : Nat) (wf wc wn ns margin fund mp mpPast g g2 : K) (cf : Bool) : List (AOrder K) :=
  let tw := if window < t then window else t
  let e := fcnExpected mp (fcnLogReturnSrc mp fund mpPast wf wc wn (ns * g) tw mrt cf) window
  let price := e + g2 * margin
  (if mp < e then [{ isBuy := true, price := price, vol := 1, ttl := window }] else []) ++
  (if e < mp then [{ isBuy := false, price := price, vol := 1, ttl := window }] else [])

set_option maxHeartbeats 4000000 in
/-- **normal-margin mode of `FCNAgent.submit_orders_by_market`**: the same expected price and sides; the quote is
`E + gauss · margin` for a second Gaussian draw, refused (`AssertionError`) if negative -/
theorem fcn_src_normal (t window mrt : Nat) (wf wc wn ns margin fund mp mpPast g g2 : K) (cf : Bool)
    (hpos : ∀ n : Int, 0 < n → (NumOpsC.ofInt n : K) ≠ NumOpsC.ofInt 0)
    (hmp : mp ≠ NumOpsC.ofInt 0) (hpast : mpPast ≠ NumOpsC.ofInt 0) (hw : wf + wc + wn ≠ NumOpsC.ofInt 0)
    (hwf : (NumOpsC.ofInt 0 : K) ≤ wf) (hwc : (NumOpsC.ofInt 0 : K) ≤ wc) (hwn : (NumOpsC.ofInt 0 : K) ≤ wn)
    (hm0 : (NumOpsC.ofInt 0 : K) ≤ margin)
    (hprice : (NumOpsC.ofInt 0 : K) ≤
      fcnExpected mp (fcnLogReturnSrc mp fund mpPast wf wc wn (ns * g) (if window < t then window else t) mrt cf) window
        + g2 * margin) :
    resultG ordersObs (rhoFcn t window mrt wf wc wn ns margin fund mp mpPast g true cf g2) fcnEnv FUEL
        "FCNAgent.submit_orders_by_market" [.ref 1, .ref 5] fcnStNormal
      = .tuple ((fcnSrcOrdersNormal t window mrt wf wc wn ns margin fund mp mpPast g g2 cf).map (aorderObs 0)) := by
  apply resultG_eq_of_pathsP (by intro x; simp)
  show ∀ p ∈ fcnPathsNormal, _
  py_paths fcnPathsNormal_eq
  all_goals intro h
  all_goals simp [BTerm.eval, ITerm.eval, NTerm.eval, rhoFcn, Obs.eval, Obs.evalList] at h ⊢
  all_goals (revert h; simp only [and_imp]; intros)
  all_goals try (simp_all [fcnSrcOrdersNormal, fcnOrders, fcnExpected, fcnLogReturnSrc, aorderObs, lt_false_of_le, le_false_of_lt,
    int_cast_lt_one, int_one_le_cast, nat_lt_false_of_le]; done)
  all_goals (exfalso; simp_all [fcnExpected, fcnLogReturnSrc, int_cast_lt_one, int_one_le_cast, nat_lt_false_of_le]; grind)

end Pams.Src
