/-
Path enumerations of `Market._execution` on a one-buy / one-sell book (see SrcMarketDefs.lean):
`nf%` computes the pruned paths of the symbolic run of the *current* translated source, `rfl` makes
the kernel re-check them.  Shape: buy market, sell limit.
-/
import PamsLemmas.EvalNf
import PamsLemmas.SrcMarketDefs

namespace Pams.Src
open Pams Pams.Py
set_option maxRecDepth 1000000

theorem exec11_ff_ft : exec11Paths false false false true = evalnf% (exec11Paths false false false true) := by kernel_rfl
theorem exec11_ft_ft : exec11Paths false true false true = evalnf% (exec11Paths false true false true) := by kernel_rfl
theorem exec11_tf_ft : exec11Paths true false false true = evalnf% (exec11Paths true false false true) := by kernel_rfl
theorem exec11_tt_ft : exec11Paths true true false true = evalnf% (exec11Paths true true false true) := by kernel_rfl

end Pams.Src
