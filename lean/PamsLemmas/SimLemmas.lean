import PamsModel.Sim
import PamsLemmas.MarketLemmas
import PamsLemmas.RunnerLemmas

namespace Pams.Sim
open Pams Pams.Runner

variable {P : Type} [LinearOrder P]

/-- the operations of a tagged log that belong to market `k` -/
def opsFor (k : Nat) (l : List (MOp P)) : List (Op P) := (l.filter (fun x => x.1 = k)).map (·.2)
def recsFor (k : Nat) (l : List (MRec P)) : List (Rec P) := (l.filter (fun x => x.1 = k)).map (·.2)

@[simp] theorem opsFor_nil (k : Nat) : opsFor k ([] : List (MOp P)) = [] := rfl
@[simp] theorem recsFor_nil (k : Nat) : recsFor k ([] : List (MRec P)) = [] := rfl
@[simp] theorem opsFor_append (k : Nat) (a b : List (MOp P)) : opsFor k (a ++ b) = opsFor k a ++ opsFor k b := by
  simp [opsFor]
@[simp] theorem recsFor_append (k : Nat) (a b : List (MRec P)) :
    recsFor k (a ++ b) = recsFor k a ++ recsFor k b := by
  simp [recsFor]

theorem opsFor_cons (k m : Nat) (o : Op P) (l : List (MOp P)) :
    opsFor k ((m, o) :: l) = if m = k then o :: opsFor k l else opsFor k l := by
  unfold opsFor
  by_cases h : m = k <;> simp [List.filter_cons, h]

theorem recsFor_cons (k m : Nat) (o : Rec P) (l : List (MRec P)) :
    recsFor k ((m, o) :: l) = if m = k then o :: recsFor k l else recsFor k l := by
  unfold recsFor
  by_cases h : m = k <;> simp [List.filter_cons, h]

theorem recsFor_map_same (k : Nat) (l : List (Rec P)) : recsFor k (l.map (fun r => (k, r))) = l := by
  induction l with
  | nil => rfl
  | cons a l ih => rw [List.map_cons, recsFor_cons, if_pos rfl, ih]

theorem recsFor_map_other (k m : Nat) (h : m ≠ k) (l : List (Rec P)) :
    recsFor k (l.map (fun r => (m, r))) = [] := by
  induction l with
  | nil => rfl
  | cons a l ih => rw [List.map_cons, recsFor_cons, if_neg h, ih]

theorem runOps_append (ops : PriceOps P) (m : Market P) (a b : List (Op P)) :
    m.runOps ops (a ++ b) =
      (((m.runOps ops a).1.runOps ops b).1, (m.runOps ops a).2 ++ ((m.runOps ops a).1.runOps ops b).2) := by
  induction a generalizing m with
  | nil => simp [Market.runOps]
  | cons o os ih =>
    simp only [List.cons_append, Market.runOps]
    rw [ih]
    simp [List.append_assoc]

/-- `f'` and `recs` are what running the logged operations, market by market, from `f` gives -/
def Tracks (po : Nat → PriceOps P) (f f' : Nat → Market P) (ops : List (MOp P)) (recs : List (MRec P)) : Prop :=
  ∀ k, (f k).runOps (po k) (opsFor k ops) = (f' k, recsFor k recs)

theorem Tracks.refl (po : Nat → PriceOps P) (f : Nat → Market P) : Tracks po f f [] [] := by
  intro k; rfl

theorem Tracks.trans {po : Nat → PriceOps P} {f f' f'' : Nat → Market P} {o1 o2 : List (MOp P)}
    {r1 r2 : List (MRec P)} (h1 : Tracks po f f' o1 r1) (h2 : Tracks po f' f'' o2 r2) :
    Tracks po f f'' (o1 ++ o2) (r1 ++ r2) := by
  intro k
  rw [opsFor_append, runOps_append, h1 k]
  simp only
  rw [h2 k, recsFor_append]

theorem Tracks.single (po : Nat → PriceOps P) (f : Nat → Market P) (m : Nat) (o : Op P) :
    Tracks po f (setMk f m ((f m).step (po m) o).1) [(m, o)]
      (((f m).step (po m) o).2.map (fun r => (m, r))) := by
  intro k
  by_cases h : m = k
  · subst h
    rw [opsFor_cons, if_pos rfl, recsFor_map_same]
    simp [Market.runOps, setMk]
  · rw [opsFor_cons, if_neg h, recsFor_map_other k m h]
    have : k ≠ m := fun e => h e.symm
    simp [Market.runOps, setMk, this]

theorem Tracks.setRunnings (po : Nat → PriceOps P) (f : Nat → Market P) (w : List (Nat × Bool)) :
    Tracks po f (setRunnings f w) (w.map (fun x => (x.1, Op.setRunning x.2))) [] := by
  induction w generalizing f with
  | nil => exact Tracks.refl po f
  | cons x w ih =>
    obtain ⟨m, b⟩ := x
    have h1 := Tracks.single po f m (Op.setRunning b)
    have h2 := ih (setMk f m { f m with running := b })
    have := Tracks.trans h1 h2
    simpa [Market.step, Sim.setRunnings] using this

theorem Tracks.setFunds (po : Nat → PriceOps P) (f : Nat → Market P) (w : List (Nat × Option P)) :
    Tracks po f (setFunds f w) (w.map (fun x => (x.1, Op.setFund x.2))) [] := by
  induction w generalizing f with
  | nil => exact Tracks.refl po f
  | cons x w ih =>
    obtain ⟨m, b⟩ := x
    have h1 := Tracks.single po f m (Op.setFund b)
    have h2 := ih (setMk f m { f m with cur := { (f m).cur with fund := b } })
    have := Tracks.trans h1 h2
    simpa [Market.step, Sim.setFunds] using this

/-! ### primitive calls as history steps -/

theorem submit_step (ops : PriceOps P) (m m' : Market P) (a b : Bool) (r : Req P) (l : OrderLog P)
    (h : m.submit ops a b r = .ok (m', l)) : m.step ops (Op.add r) = (m', [Rec.order l]) := by
  cases a <;> cases b <;> simp [Market.submit] at h
  simp [Market.step, h]

theorem cancel_step (ops : PriceOps P) (m m' : Market P) (id : Nat) (l : CancelLog P)
    (h : m.cancel ops id = .ok (m', l)) : m.step ops (Op.cancel id) = (m', [Rec.cancel l]) := by
  simp [Market.step, h]

theorem exec_step (ops : PriceOps P) (m m' : Market P) (fs : List (Fill P))
    (h : m.execution ops = .ok (m', fs)) : m.step ops Op.exec = (m', fs.map Rec.fill) := by
  simp [Market.step, h]

theorem marketCall_tracks (po : Nat → PriceOps P) (s s1 : State P) (q : SReq P) (r1 : List (MRec P))
    (o1 : List (MOp P)) (h : marketCall po s q = some (s1, r1, o1)) :
    Tracks po s.mkt s1.mkt o1 r1 ∧ s1.nfill = s.nfill := by
  unfold marketCall at h
  by_cases hc : q.isCancel = true
  · rw [if_pos hc] at h
    by_cases hm : (!q.marketOk) = true
    · rw [if_pos hm] at h; cases h
    · rw [if_neg hm] at h
      rcases hr : (s.mkt q.market).cancel (po q.market) q.cancelId with e | ⟨m', l⟩
      · rw [hr] at h; cases h
      · rw [hr] at h
        simp only [Option.some.injEq, Prod.mk.injEq] at h
        obtain ⟨rfl, rfl, rfl⟩ := h
        have := Tracks.single po s.mkt q.market (Op.cancel q.cancelId)
        rw [cancel_step _ _ _ _ _ hr] at this
        exact ⟨by simpa using this, rfl⟩
  · rw [if_neg hc] at h
    rcases hr : (s.mkt q.market).submit (po q.market) q.marketOk q.stamped q.req with e | ⟨m', l⟩
    · rw [hr] at h; cases h
    · rw [hr] at h
      simp only [Option.some.injEq, Prod.mk.injEq] at h
      obtain ⟨rfl, rfl, rfl⟩ := h
      have := Tracks.single po s.mkt q.market (Op.add q.req)
      rw [submit_step _ _ _ _ _ _ _ hr] at this
      exact ⟨by simpa using this, rfl⟩

theorem roundCall_tracks (po : Nat → PriceOps P) (s s2 : State P) (q : SReq P) (rf : List RFill)
    (r2 : List (MRec P)) (o2 : List (MOp P)) (h : roundCall po s q = some (s2, rf, r2, o2)) :
    Tracks po s.mkt s2.mkt o2 r2 := by
  unfold roundCall at h
  rcases hr : (s.mkt q.market).execution (po q.market) with e | ⟨m', fs⟩
  · rw [hr] at h; cases h
  · rw [hr] at h
    simp only [Option.some.injEq, Prod.mk.injEq] at h
    obtain ⟨rfl, _, rfl, rfl⟩ := h
    have h1 := Tracks.single po s.mkt q.market Op.exec
    rw [exec_step _ _ _ _ hr] at h1
    have h2 := Tracks.setRunnings po (setMk s.mkt q.market m') (fxOps q 0 fs.length)
    have := Tracks.trans h1 h2
    simpa [Function.comp_def] using this

/-- what a function of the scheduler does to the markets is a history of market operations -/
def SOut.Tracks (po : Nat → PriceOps P) (s : State P) (a : SOut P) : Prop :=
  Sim.Tracks po s.mkt a.st.mkt a.ops a.recs

theorem resolve_tracks (po : Nat → PriceOps P) (s : State P) (flag : Bool) (q : SReq P) :
    Tracks po s.mkt (resolve po s flag q).1.mkt (resolve po s flag q).2.2.2 (resolve po s flag q).2.2.1 := by
  unfold resolve
  rcases hm : marketCall po s q with _ | ⟨s1, r1, o1⟩
  · exact Tracks.refl po _
  · have h1 := (marketCall_tracks po s s1 q r1 o1 hm).1
    cases flag
    · simpa using h1
    · simp only [↓reduceIte]
      rcases hr : roundCall po s1 q with _ | ⟨s2, rf, r2, o2⟩
      · simpa using h1
      · exact Tracks.trans h1 (roundCall_tracks po s1 s2 q rf r2 o2 hr)

theorem processRequest_tracks (po : Nat → PriceOps P) (t : Nat) (s : State P) (flag : Bool) (q : SReq P) :
    (processRequest po t s flag q).Tracks po s := resolve_tracks po s flag q

theorem andThen_tracks (po : Nat → PriceOps P) (s : State P) (a : SOut P) (f : State P → Bool → SOut P)
    (ha : a.Tracks po s) (hf : ∀ s' fl, (f s' fl).Tracks po s') : (a.andThen f).Tracks po s := by
  unfold SOut.andThen
  by_cases hok : a.out.ok = true
  · rw [if_pos hok]
    exact Tracks.trans ha (hf a.st a.out.flag)
  · rw [if_neg hok]; exact ha

theorem pure_tracks (po : Nat → PriceOps P) (s : State P) (flag : Bool) : (SOut.pure s flag).Tracks po s :=
  Tracks.refl po _

theorem consTr_tracks (po : Nat → PriceOps P) (s : State P) (a : SOut P) (e : Ev) (h : a.Tracks po s) :
    (a.consTr e).Tracks po s := h

theorem processBatch_tracks (po : Nat → PriceOps P) (t : Nat) (s : State P) (flag : Bool) (qs : List (SReq P)) :
    (processBatch po t s flag qs).Tracks po s := by
  induction qs generalizing s flag with
  | nil => exact pure_tracks po s flag
  | cons q qs ih =>
    unfold processBatch
    exact andThen_tracks po s _ _ (processRequest_tracks po t s flag q) (fun s' fl => ih s' fl)

theorem hftRound_tracks (po : Nat → PriceOps P) (t : Nat) (cap : Int) (answer : Nat → List (SReq P))
    (as : List Nat) (n : Nat) (s : State P) (flag : Bool) :
    (hftRound po t cap answer as n s flag).Tracks po s := by
  induction as generalizing n s flag with
  | nil => exact pure_tracks po s flag
  | cons a as ih =>
    unfold hftRound
    by_cases h1 : (n : Int) ≥ cap
    · rw [if_pos h1]; exact pure_tracks po s flag
    · rw [if_neg h1]
      by_cases h2 : (answer a).isEmpty = true
      · simp only [h2, ↓reduceIte]
        exact consTr_tracks po s _ _ (ih n s flag)
      · simp only [h2, Bool.false_eq_true, ↓reduceIte]
        by_cases h3 : (answer a).any (fun q => q.owner ≠ a) = true
        · rw [if_pos h3]; exact Tracks.refl po _
        · rw [if_neg h3]
          exact consTr_tracks po s _ _
            (andThen_tracks po s _ _ (processBatch_tracks po t s flag _) (fun s' fl => ih (n + 1) s' fl))

theorem handle_tracks (po : Nat → PriceOps P) (t : Nat) (maxHft : Int) (bs : List (Nat × List (SReq P)))
    (rts : List (RoundTape P)) (s : State P) (flag : Bool) :
    (handle po t maxHft bs rts s flag).Tracks po s := by
  induction bs generalizing rts s flag with
  | nil => exact pure_tracks po s flag
  | cons b bs ih =>
    obtain ⟨a, batch⟩ := b
    unfold handle
    refine andThen_tracks po s _ _ (processBatch_tracks po t s flag batch) (fun s1 fl => ?_)
    refine andThen_tracks po s1 _ _ ?_ (fun s2 fl2 => ih rts.tail s2 fl2)
    by_cases hg : (rts.headD RoundTape.none).go = true
    · rw [if_pos hg]; exact hftRound_tracks po t maxHft _ _ 0 s1 fl
    · rw [if_neg hg]; exact pure_tracks po s1 fl

theorem stepBefore_tracks (po : Nat → PriceOps P) (t : Nat) (resume : Nat → StepFx P) (ms : Markets)
    (f : Nat → Market P) (flag : Bool) :
    Tracks po f (stepBefore t resume ms f flag).2.1 (stepBefore t resume ms f flag).2.2.2 [] := by
  induction ms generalizing f flag with
  | nil => exact Tracks.refl po f
  | cons m ms ih =>
    unfold stepBefore
    have h1 := Tracks.setRunnings po f (resume m.1).running
    have h1' := Tracks.setFunds po (setRunnings f (resume m.1).running) (resume m.1).fund
    have h2 := ih (setFunds (setRunnings f (resume m.1).running) (resume m.1).fund)
      (if (resume m.1).flag then true else flag)
    simpa [List.append_assoc] using Tracks.trans (Tracks.trans h1 h1') h2

theorem tickAll_tracks (po : Nat → PriceOps P) (fund : Nat → Option P) (ms : List Nat) (f : Nat → Market P) :
    Tracks po f (tickAll po fund ms f).1 (tickAll po fund ms f).2.2 (tickAll po fund ms f).2.1 := by
  induction ms generalizing f with
  | nil => exact Tracks.refl po f
  | cons m ms ih =>
    unfold tickAll
    have h1 := Tracks.single po f m (Op.tick (fund m))
    have h2 := ih (setMk f m ((f m).tick (po m) (fund m)).1)
    have := Tracks.trans h1 h2
    simpa [Market.step, Function.comp_def] using this

theorem stepBody_tracks (po : Nat → PriceOps P) (cfg : SessionCfg) (t : Nat) (s0 : State P) (flag0 : Bool)
    (tape : StepTape P) : (stepBody po cfg t s0 flag0 tape).Tracks po s0 := by
  unfold stepBody
  by_cases hp : cfg.placement = true
  · rw [if_pos hp]
    by_cases hc : (collect false cfg.maxNormal tape.answer tape.perm 0).2.1 = true
    · simp only [hc, ↓reduceIte]
      exact handle_tracks po t cfg.maxHft _ _ _ _
    · simp only [hc, Bool.false_eq_true, ↓reduceIte]; exact Tracks.refl po _
  · rw [if_neg hp]; exact Tracks.refl po _

theorem runStep_tracks (po : Nat → PriceOps P) (ms : Markets) (cfg : SessionCfg) (t : Nat) (s : State P)
    (flag : Bool) (tape : StepTape P) : (runStep po ms cfg t s flag tape).Tracks po s := by
  have hb := stepBefore_tracks po t tape.resume ms s.mkt flag
  have h2 := stepBody_tracks po cfg t { s with mkt := (stepBefore t tape.resume ms s.mkt flag).2.1 }
    (stepBefore t tape.resume ms s.mkt flag).2.2.1 tape
  unfold runStep
  simp only
  split
  · have h3 := tickAll_tracks po tape.fund (tickOrder ms)
      (stepBody po cfg t { s with mkt := (stepBefore t tape.resume ms s.mkt flag).2.1 }
        (stepBefore t tape.resume ms s.mkt flag).2.2.1 tape).st.mkt
    have := Tracks.trans (Tracks.trans hb h2) h3
    simpa [SOut.Tracks, List.append_assoc] using this
  · have := Tracks.trans hb h2
    simpa [SOut.Tracks] using this

theorem runSteps_tracks (po : Nat → PriceOps P) (ms : Markets) (cfg : SessionCfg) (t : Nat) (s : State P)
    (flag : Bool) (tapes : List (StepTape P)) (n : Nat) :
    (runSteps po ms cfg t s flag tapes n).Tracks po s := by
  induction n generalizing t s flag tapes with
  | zero => exact pure_tracks po s flag
  | succ n ih =>
    unfold runSteps
    exact andThen_tracks po s _ _ (runStep_tracks po ms cfg t s flag _) (fun s' fl => ih (t + 1) s' fl tapes.tail)

theorem runSession_tracks (po : Nat → PriceOps P) (ms : Markets) (k : Nat) (cfg : SessionCfg) (start : Nat)
    (s : State P) (tapes : List (StepTape P)) : (runSession po ms k cfg start s tapes).Tracks po s := by
  have h1 := Tracks.setRunnings po s.mkt (ms.map (fun m => (m.1, cfg.execution)))
  have h2 := runSteps_tracks po ms cfg start
    { s with mkt := setRunnings s.mkt (ms.map (fun m => (m.1, cfg.execution))) } cfg.execution tapes cfg.steps
  have := Tracks.trans h1 h2
  unfold runSession
  simp only
  split <;> simpa [SOut.Tracks] using this

theorem runSessions_tracks (po : Nat → PriceOps P) (ms : Markets) (k start : Nat) (s : State P)
    (cfgs : List SessionCfg) (tapes : List (List (StepTape P))) :
    (runSessions po ms k start s cfgs tapes).Tracks po s := by
  induction cfgs generalizing k start s tapes with
  | nil => exact pure_tracks po s false
  | cons cfg cfgs ih =>
    unfold runSessions
    exact andThen_tracks po s _ _ (runSession_tracks po ms k cfg start s _)
      (fun s' _ => ih (k + 1) (start + cfg.steps) s' tapes.tail)

/-- **every market inside a simulation goes through a history of market operations from its
initial state**, and the records the simulation wrote for it are that history's records -/
theorem run_tracks (po : Nat → PriceOps P) (ms : Markets) (price : Nat → P) (fund0 : Nat → Option P)
    (cfgs : List SessionCfg) (tapes : List (List (StepTape P))) (k : Nat) :
    (Market.init (po k) (price k) (fund0 k)).runOps (po k) (opsFor k (run po ms price fund0 cfgs tapes).ops) =
      ((run po ms price fund0 cfgs tapes).st.mkt k, recsFor k (run po ms price fund0 cfgs tapes).recs) :=
  runSessions_tracks po ms 0 0 (initState po price fund0) cfgs tapes k

/-! ### the logged operations are valid when the submitted orders are (`Order.__init__`: volume > 0) -/

def ReqValid (q : SReq P) : Prop := q.isCancel = false → q.req.valid
def AnswerValid (answer : Nat → List (SReq P)) : Prop := ∀ a, ∀ q ∈ answer a, ReqValid q
def RoundTape.Valid (rt : RoundTape P) : Prop := AnswerValid rt.answer
def StepTape.Valid (st : StepTape P) : Prop := AnswerValid st.answer ∧ ∀ rt ∈ st.rounds, rt.Valid

def SOut.ValidOps (a : SOut P) : Prop := ∀ x ∈ a.ops, x.2.valid

theorem setRunning_ops_valid (w : List (Nat × Bool)) :
    ∀ x ∈ w.map (fun x => ((x.1, Op.setRunning x.2) : MOp P)), x.2.valid := by
  intro x hx
  obtain ⟨y, _, rfl⟩ := List.mem_map.mp hx
  trivial

theorem resolve_validOps (po : Nat → PriceOps P) (s : State P) (flag : Bool) (q : SReq P) (hq : ReqValid q) :
    ∀ x ∈ (resolve po s flag q).2.2.2, x.2.valid := by
  have hm : ∀ s1 r1 o1, marketCall po s q = some (s1, r1, o1) → ∀ x ∈ o1, x.2.valid := by
    intro s1 r1 o1 h
    unfold marketCall at h
    by_cases hc : q.isCancel = true
    · rw [if_pos hc] at h
      by_cases hmk : (!q.marketOk) = true
      · rw [if_pos hmk] at h; cases h
      · rw [if_neg hmk] at h
        rcases hr : (s.mkt q.market).cancel (po q.market) q.cancelId with e | ⟨m', l⟩
        · rw [hr] at h; cases h
        · rw [hr] at h
          simp only [Option.some.injEq, Prod.mk.injEq] at h
          obtain ⟨_, _, rfl⟩ := h
          intro x hx; simp at hx; subst hx; trivial
    · rw [if_neg hc] at h
      rcases hr : (s.mkt q.market).submit (po q.market) q.marketOk q.stamped q.req with e | ⟨m', l⟩
      · rw [hr] at h; cases h
      · rw [hr] at h
        simp only [Option.some.injEq, Prod.mk.injEq] at h
        obtain ⟨_, _, rfl⟩ := h
        intro x hx; simp at hx; subst hx
        exact hq (by simpa using hc)
  have hr : ∀ s1 s2 rf r2 o2, roundCall po s1 q = some (s2, rf, r2, o2) → ∀ x ∈ o2, x.2.valid := by
    intro s1 s2 rf r2 o2 h
    unfold roundCall at h
    rcases he : (s1.mkt q.market).execution (po q.market) with e | ⟨m', fs⟩
    · rw [he] at h; cases h
    · rw [he] at h
      simp only [Option.some.injEq, Prod.mk.injEq] at h
      obtain ⟨_, _, _, rfl⟩ := h
      intro x hx
      rcases List.mem_cons.mp hx with rfl | hx
      · trivial
      · exact setRunning_ops_valid _ x hx
  unfold resolve
  rcases hmc : marketCall po s q with _ | ⟨s1, r1, o1⟩
  · simp
  · cases flag
    · simpa using hm s1 r1 o1 hmc
    · simp only [↓reduceIte]
      rcases hrc : roundCall po s1 q with _ | ⟨s2, rf, r2, o2⟩
      · simpa using hm s1 r1 o1 hmc
      · intro x hx
        rcases List.mem_append.mp hx with hx | hx
        · exact hm s1 r1 o1 hmc x hx
        · exact hr s1 s2 rf r2 o2 hrc x hx

theorem andThen_validOps (a : SOut P) (f : State P → Bool → SOut P) (ha : a.ValidOps)
    (hf : ∀ s' fl, (f s' fl).ValidOps) : (a.andThen f).ValidOps := by
  unfold SOut.andThen
  by_cases hok : a.out.ok = true
  · rw [if_pos hok]
    intro x hx
    rcases List.mem_append.mp hx with hx | hx
    · exact ha x hx
    · exact hf _ _ x hx
  · rw [if_neg hok]; exact ha

theorem pure_validOps (s : State P) (flag : Bool) : (SOut.pure s flag).ValidOps := by
  intro x hx; simp [SOut.pure] at hx

theorem processBatch_validOps (po : Nat → PriceOps P) (t : Nat) (s : State P) (flag : Bool)
    (qs : List (SReq P)) (hq : ∀ q ∈ qs, ReqValid q) : (processBatch po t s flag qs).ValidOps := by
  induction qs generalizing s flag with
  | nil => exact pure_validOps s flag
  | cons q qs ih =>
    unfold processBatch
    exact andThen_validOps _ _ (resolve_validOps po s flag q (hq q (by simp)))
      (fun s' fl => ih s' fl (fun q' hq' => hq q' (by simp [hq'])))

theorem hftRound_validOps (po : Nat → PriceOps P) (t : Nat) (cap : Int) (answer : Nat → List (SReq P))
    (hv : AnswerValid answer) (as : List Nat) (n : Nat) (s : State P) (flag : Bool) :
    (hftRound po t cap answer as n s flag).ValidOps := by
  induction as generalizing n s flag with
  | nil => exact pure_validOps s flag
  | cons a as ih =>
    unfold hftRound
    by_cases h1 : (n : Int) ≥ cap
    · rw [if_pos h1]; exact pure_validOps s flag
    · rw [if_neg h1]
      by_cases h2 : (answer a).isEmpty = true
      · simp only [h2, ↓reduceIte]
        exact ih n s flag
      · simp only [h2, Bool.false_eq_true, ↓reduceIte]
        by_cases h3 : (answer a).any (fun q => q.owner ≠ a) = true
        · rw [if_pos h3]; intro x hx; simp at hx
        · rw [if_neg h3]
          exact andThen_validOps _ _ (processBatch_validOps po t s flag _ (hv a))
            (fun s' fl => ih (n + 1) s' fl)

theorem collect_batches (hft : Bool) (cap : Int) (answer : Nat → List (SReq P)) (as : List Nat) (n : Nat) :
    ∀ b ∈ (collect hft cap answer as n).2.2, b.2 = answer b.1 := by
  induction as generalizing n with
  | nil => simp [collect]
  | cons a as ih =>
    unfold collect
    by_cases h1 : (n : Int) ≥ cap
    · simp [h1]
    · rw [if_neg h1]
      by_cases h2 : (answer a).isEmpty = true
      · simp only [h2, ↓reduceIte]; exact ih n
      · simp only [h2, Bool.false_eq_true, ↓reduceIte]
        by_cases h3 : (answer a).any (fun q => q.owner ≠ a) = true
        · rw [if_pos h3]; simp
        · rw [if_neg h3]
          intro b hb
          rcases List.mem_cons.mp hb with rfl | hb
          · rfl
          · exact ih (n + 1) b hb

theorem applyShuffle_mem {α : Type} (idx : List Nat) (l : List α) : ∀ x ∈ applyShuffle idx l, x ∈ l := by
  intro x hx
  unfold applyShuffle at hx
  obtain ⟨i, _, hi⟩ := List.mem_filterMap.mp hx
  exact List.mem_of_getElem? hi

theorem handle_validOps (po : Nat → PriceOps P) (t : Nat) (maxHft : Int) (bs : List (Nat × List (SReq P)))
    (hb : ∀ b ∈ bs, ∀ q ∈ b.2, ReqValid q) (rts : List (RoundTape P)) (hr : ∀ rt ∈ rts, rt.Valid)
    (s : State P) (flag : Bool) : (handle po t maxHft bs rts s flag).ValidOps := by
  induction bs generalizing rts s flag with
  | nil => exact pure_validOps s flag
  | cons b bs ih =>
    obtain ⟨a, batch⟩ := b
    unfold handle
    refine andThen_validOps _ _ (processBatch_validOps po t s flag batch (hb (a, batch) (by simp)))
      (fun s1 fl => ?_)
    refine andThen_validOps _ _ ?_ (fun s2 fl2 => ih (fun b' hb' => hb b' (by simp [hb'])) rts.tail
      (fun rt hrt => hr rt (List.mem_of_mem_tail hrt)) s2 fl2)
    by_cases hg : (rts.headD RoundTape.none).go = true
    · rw [if_pos hg]
      refine hftRound_validOps po t maxHft _ ?_ _ 0 s1 fl
      cases rts with
      | nil => intro a q hq; simp [RoundTape.none] at hq
      | cons rt rts => exact hr rt (by simp)
    · rw [if_neg hg]; exact pure_validOps s1 fl

theorem stepBody_validOps (po : Nat → PriceOps P) (cfg : SessionCfg) (t : Nat) (s0 : State P) (flag0 : Bool)
    (tape : StepTape P) (hv : tape.Valid) : (stepBody po cfg t s0 flag0 tape).ValidOps := by
  unfold stepBody
  by_cases hp : cfg.placement = true
  · rw [if_pos hp]
    by_cases hc : (collect false cfg.maxNormal tape.answer tape.perm 0).2.1 = true
    · simp only [hc, ↓reduceIte]
      refine handle_validOps po t cfg.maxHft _ ?_ _ hv.2 _ _
      intro b hb q hq
      have hb' := applyShuffle_mem _ _ b hb
      have := collect_batches false cfg.maxNormal tape.answer tape.perm 0 b hb'
      rw [this] at hq
      exact hv.1 b.1 q hq
    · simp only [hc, Bool.false_eq_true, ↓reduceIte]; intro x hx; simp at hx
  · rw [if_neg hp]; exact pure_validOps _ _

theorem setFund_ops_valid (w : List (Nat × Option P)) :
    ∀ x ∈ w.map (fun x => ((x.1, Op.setFund x.2) : MOp P)), x.2.valid := by
  intro x hx
  obtain ⟨y, _, rfl⟩ := List.mem_map.mp hx
  trivial

theorem stepBefore_validOps (t : Nat) (resume : Nat → StepFx P) (ms : Markets) (f : Nat → Market P) (flag : Bool) :
    ∀ x ∈ (stepBefore t resume ms f flag).2.2.2, x.2.valid := by
  induction ms generalizing f flag with
  | nil => simp [stepBefore]
  | cons m ms ih =>
    unfold stepBefore
    intro x hx
    simp only [List.mem_append] at hx
    rcases hx with (hx | hx) | hx
    · exact setRunning_ops_valid _ x hx
    · exact setFund_ops_valid _ x hx
    · exact ih _ _ x hx

theorem tickAll_validOps (po : Nat → PriceOps P) (fund : Nat → Option P) (ms : List Nat) (f : Nat → Market P) :
    ∀ x ∈ (tickAll po fund ms f).2.2, x.2.valid := by
  induction ms generalizing f with
  | nil => simp [tickAll]
  | cons m ms ih =>
    unfold tickAll
    intro x hx
    rcases List.mem_cons.mp hx with rfl | hx
    · trivial
    · exact ih _ x hx

theorem runStep_validOps (po : Nat → PriceOps P) (ms : Markets) (cfg : SessionCfg) (t : Nat) (s : State P)
    (flag : Bool) (tape : StepTape P) (hv : tape.Valid) : (runStep po ms cfg t s flag tape).ValidOps := by
  have h1 := stepBefore_validOps (P := P) t tape.resume ms s.mkt flag
  have h2 := stepBody_validOps po cfg t { s with mkt := (stepBefore t tape.resume ms s.mkt flag).2.1 }
    (stepBefore t tape.resume ms s.mkt flag).2.2.1 tape hv
  unfold runStep
  simp only
  split
  · intro x hx
    simp only [List.mem_append] at hx
    rcases hx with (hx | hx) | hx
    · exact h1 x hx
    · exact h2 x hx
    · exact tickAll_validOps po _ _ _ x hx
  · intro x hx
    simp only [List.mem_append] at hx
    rcases hx with hx | hx
    · exact h1 x hx
    · exact h2 x hx

theorem StepTape.none_valid : (StepTape.none : StepTape P).Valid := by
  constructor
  · intro a q hq; simp [StepTape.none] at hq
  · intro rt hrt; simp [StepTape.none] at hrt

theorem runSteps_validOps (po : Nat → PriceOps P) (ms : Markets) (cfg : SessionCfg) (t : Nat) (s : State P)
    (flag : Bool) (tapes : List (StepTape P)) (hv : ∀ tp ∈ tapes, tp.Valid) (n : Nat) :
    (runSteps po ms cfg t s flag tapes n).ValidOps := by
  induction n generalizing t s flag tapes with
  | zero => exact pure_validOps s flag
  | succ n ih =>
    unfold runSteps
    refine andThen_validOps _ _ (runStep_validOps po ms cfg t s flag _ ?_)
      (fun s' fl => ih (t + 1) s' fl tapes.tail (fun tp htp => hv tp (List.mem_of_mem_tail htp)))
    cases tapes with
    | nil => exact StepTape.none_valid
    | cons tp tps => exact hv tp (by simp)

theorem runSession_validOps (po : Nat → PriceOps P) (ms : Markets) (k : Nat) (cfg : SessionCfg) (start : Nat)
    (s : State P) (tapes : List (StepTape P)) (hv : ∀ tp ∈ tapes, tp.Valid) :
    (runSession po ms k cfg start s tapes).ValidOps := by
  have h2 := runSteps_validOps po ms cfg start
    { s with mkt := setRunnings s.mkt (ms.map (fun m => (m.1, cfg.execution))) } cfg.execution tapes hv cfg.steps
  unfold runSession
  simp only
  split <;>
  · intro x hx
    rcases List.mem_append.mp hx with hx | hx
    · exact setRunning_ops_valid _ x hx
    · exact h2 x hx

theorem runSessions_validOps (po : Nat → PriceOps P) (ms : Markets) (k start : Nat) (s : State P)
    (cfgs : List SessionCfg) (tapes : List (List (StepTape P))) (hv : ∀ ts ∈ tapes, ∀ tp ∈ ts, tp.Valid) :
    (runSessions po ms k start s cfgs tapes).ValidOps := by
  induction cfgs generalizing k start s tapes with
  | nil => exact pure_validOps s false
  | cons cfg cfgs ih =>
    unfold runSessions
    refine andThen_validOps _ _ (runSession_validOps po ms k cfg start s _ ?_)
      (fun s' _ => ih (k + 1) (start + cfg.steps) s' tapes.tail
        (fun ts hts => hv ts (List.mem_of_mem_tail hts)))
    cases tapes with
    | nil => intro tp htp; simp at htp
    | cons ts tss => exact hv ts (by simp)

theorem run_validOps (po : Nat → PriceOps P) (ms : Markets) (price : Nat → P) (fund0 : Nat → Option P)
    (cfgs : List SessionCfg) (tapes : List (List (StepTape P))) (hv : ∀ ts ∈ tapes, ∀ tp ∈ ts, tp.Valid) :
    (run po ms price fund0 cfgs tapes).ValidOps :=
  runSessions_validOps po ms 0 0 (initState po price fund0) cfgs tapes hv

theorem opsFor_valid (k : Nat) (l : List (MOp P)) (h : ∀ x ∈ l, x.2.valid) : ∀ o ∈ opsFor k l, o.valid := by
  intro o ho
  unfold opsFor at ho
  obtain ⟨x, hx, rfl⟩ := List.mem_map.mp ho
  exact h x (List.mem_filter.mp hx).1

/-! ### consequences: the invariant of every market, throughout -/

theorem tracks_inv (po : Nat → PriceOps P) (s : State P) (a : SOut P) (h : a.Tracks po s) (hv : a.ValidOps)
    (hi : ∀ k, Inv (s.mkt k)) : ∀ k, Inv (a.st.mkt k) := by
  intro k
  have := inv_runOps (po k) (s.mkt k) (opsFor k a.ops) (hi k) (opsFor_valid k a.ops hv)
  rw [h k] at this
  exact this

/-! ### clocks -/

/-- number of clock steps in a list of market operations -/
def nTicks : List (Op P) → Nat
  | [] => 0
  | .tick _ :: os => nTicks os + 1
  | .jump k _ :: os => nTicks os + (k + 1)
  | _ :: os => nTicks os

theorem step_time (ops : PriceOps P) (m : Market P) (o : Op P) :
    (m.step ops o).1.time = m.time + nTicks [o] := by
  cases o with
  | add r =>
    simp only [Market.step, nTicks, Nat.add_zero]
    unfold Market.addOrder Market.refresh
    cases r.isBuy <;> simp
  | cancel id =>
    simp only [Market.step, nTicks, Nat.add_zero]
    rcases hc : m.cancel ops id with e | ⟨m', l⟩
    · rfl
    · simp only
      unfold Market.cancel at hc
      rcases hb : findOrder id m.buys with _ | o
      · rcases hs : findOrder id m.sells with _ | o
        · rcases hg : m.gone.find? (fun g => g.1.id = id) with _ | ⟨o, r⟩
          · simp [hb, hs, hg] at hc
          · simp only [hb, hs, hg, Except.ok.injEq, Prod.mk.injEq] at hc
            rw [← hc.1]; rfl
        · simp only [hb, hs, Except.ok.injEq, Prod.mk.injEq] at hc
          rw [← hc.1]; rfl
      · simp only [hb, Except.ok.injEq, Prod.mk.injEq] at hc
        rw [← hc.1]; rfl
  | exec =>
    simp only [Market.step, nTicks, Nat.add_zero]
    rcases hc : m.execution ops with e | ⟨m', fs⟩
    · rfl
    · rcases execution_cases ops m m' fs hc with ⟨_, rfl, _⟩ | ⟨_, _, price, _, hs⟩
      · rfl
      · simp only
        have : m' = (m.settle ops (walk m.buys m.sells) price).1 := by rw [← hs]
        rw [this]; rfl
  | tick f => simp [Market.step, Market.tick, nTicks]
  | jump k f => simp [Market.step, Market.setTime, nTicks]
  | setRunning b => simp [Market.step, nTicks]
  | setFund f => simp [Market.step, nTicks]

theorem nTicks_cons (o : Op P) (os : List (Op P)) : nTicks (o :: os) = nTicks [o] + nTicks os := by
  cases o <;> simp [nTicks] <;> omega

theorem runOps_time (ops : PriceOps P) (m : Market P) (os : List (Op P)) :
    (m.runOps ops os).1.time = m.time + nTicks os := by
  induction os generalizing m with
  | nil => simp [Market.runOps, nTicks]
  | cons o os ih =>
    unfold Market.runOps
    simp only
    rw [ih, step_time, nTicks_cons o os]
    omega

/-- operations that leave the clock alone -/
def Op.still : Op P → Prop
  | .tick _ => False
  | .jump _ _ => False
  | _ => True

def SOut.Still (a : SOut P) : Prop := ∀ x ∈ a.ops, Op.still x.2

theorem setRunning_ops_still (w : List (Nat × Bool)) :
    ∀ x ∈ w.map (fun x => ((x.1, Op.setRunning x.2) : MOp P)), Op.still x.2 := by
  intro x hx
  obtain ⟨y, _, rfl⟩ := List.mem_map.mp hx
  trivial

theorem resolve_still (po : Nat → PriceOps P) (s : State P) (flag : Bool) (q : SReq P) :
    ∀ x ∈ (resolve po s flag q).2.2.2, Op.still x.2 := by
  have hm : ∀ s1 r1 o1, marketCall po s q = some (s1, r1, o1) → ∀ x ∈ o1, Op.still x.2 := by
    intro s1 r1 o1 h
    unfold marketCall at h
    by_cases hc : q.isCancel = true
    · rw [if_pos hc] at h
      by_cases hmk : (!q.marketOk) = true
      · rw [if_pos hmk] at h; cases h
      · rw [if_neg hmk] at h
        rcases hr : (s.mkt q.market).cancel (po q.market) q.cancelId with e | ⟨m', l⟩
        · rw [hr] at h; cases h
        · rw [hr] at h
          simp only [Option.some.injEq, Prod.mk.injEq] at h
          obtain ⟨_, _, rfl⟩ := h
          intro x hx; simp at hx; subst hx; trivial
    · rw [if_neg hc] at h
      rcases hr : (s.mkt q.market).submit (po q.market) q.marketOk q.stamped q.req with e | ⟨m', l⟩
      · rw [hr] at h; cases h
      · rw [hr] at h
        simp only [Option.some.injEq, Prod.mk.injEq] at h
        obtain ⟨_, _, rfl⟩ := h
        intro x hx; simp at hx; subst hx; trivial
  have hr : ∀ s1 s2 rf r2 o2, roundCall po s1 q = some (s2, rf, r2, o2) → ∀ x ∈ o2, Op.still x.2 := by
    intro s1 s2 rf r2 o2 h
    unfold roundCall at h
    rcases he : (s1.mkt q.market).execution (po q.market) with e | ⟨m', fs⟩
    · rw [he] at h; cases h
    · rw [he] at h
      simp only [Option.some.injEq, Prod.mk.injEq] at h
      obtain ⟨_, _, _, rfl⟩ := h
      intro x hx
      rcases List.mem_cons.mp hx with rfl | hx
      · trivial
      · exact setRunning_ops_still _ x hx
  unfold resolve
  rcases hmc : marketCall po s q with _ | ⟨s1, r1, o1⟩
  · simp
  · cases flag
    · simpa using hm s1 r1 o1 hmc
    · simp only [↓reduceIte]
      rcases hrc : roundCall po s1 q with _ | ⟨s2, rf, r2, o2⟩
      · simpa using hm s1 r1 o1 hmc
      · intro x hx
        rcases List.mem_append.mp hx with hx | hx
        · exact hm s1 r1 o1 hmc x hx
        · exact hr s1 s2 rf r2 o2 hrc x hx

theorem andThen_still (a : SOut P) (f : State P → Bool → SOut P) (ha : a.Still)
    (hf : ∀ s' fl, (f s' fl).Still) : (a.andThen f).Still := by
  unfold SOut.andThen
  by_cases hok : a.out.ok = true
  · rw [if_pos hok]
    intro x hx
    rcases List.mem_append.mp hx with hx | hx
    · exact ha x hx
    · exact hf _ _ x hx
  · rw [if_neg hok]; exact ha

theorem pure_still (s : State P) (flag : Bool) : (SOut.pure s flag).Still := by
  intro x hx; simp [SOut.pure] at hx

theorem processBatch_still (po : Nat → PriceOps P) (t : Nat) (s : State P) (flag : Bool)
    (qs : List (SReq P)) : (processBatch po t s flag qs).Still := by
  induction qs generalizing s flag with
  | nil => exact pure_still s flag
  | cons q qs ih =>
    unfold processBatch
    exact andThen_still _ _ (resolve_still po s flag q) (fun s' fl => ih s' fl)

theorem hftRound_still (po : Nat → PriceOps P) (t : Nat) (cap : Int) (answer : Nat → List (SReq P))
    (as : List Nat) (n : Nat) (s : State P) (flag : Bool) :
    (hftRound po t cap answer as n s flag).Still := by
  induction as generalizing n s flag with
  | nil => exact pure_still s flag
  | cons a as ih =>
    unfold hftRound
    by_cases h1 : (n : Int) ≥ cap
    · rw [if_pos h1]; exact pure_still s flag
    · rw [if_neg h1]
      by_cases h2 : (answer a).isEmpty = true
      · simp only [h2, ↓reduceIte]
        exact ih n s flag
      · simp only [h2, Bool.false_eq_true, ↓reduceIte]
        by_cases h3 : (answer a).any (fun q => q.owner ≠ a) = true
        · rw [if_pos h3]; intro x hx; simp at hx
        · rw [if_neg h3]
          exact andThen_still _ _ (processBatch_still po t s flag _) (fun s' fl => ih (n + 1) s' fl)

theorem handle_still (po : Nat → PriceOps P) (t : Nat) (maxHft : Int) (bs : List (Nat × List (SReq P)))
    (rts : List (RoundTape P)) (s : State P) (flag : Bool) : (handle po t maxHft bs rts s flag).Still := by
  induction bs generalizing rts s flag with
  | nil => exact pure_still s flag
  | cons b bs ih =>
    obtain ⟨a, batch⟩ := b
    unfold handle
    refine andThen_still _ _ (processBatch_still po t s flag batch) (fun s1 fl => ?_)
    refine andThen_still _ _ ?_ (fun s2 fl2 => ih rts.tail s2 fl2)
    by_cases hg : (rts.headD RoundTape.none).go = true
    · rw [if_pos hg]; exact hftRound_still po t maxHft _ _ 0 s1 fl
    · rw [if_neg hg]; exact pure_still s1 fl

theorem stepBody_still (po : Nat → PriceOps P) (cfg : SessionCfg) (t : Nat) (s0 : State P) (flag0 : Bool)
    (tape : StepTape P) : (stepBody po cfg t s0 flag0 tape).Still := by
  unfold stepBody
  by_cases hp : cfg.placement = true
  · rw [if_pos hp]
    by_cases hc : (collect false cfg.maxNormal tape.answer tape.perm 0).2.1 = true
    · simp only [hc, ↓reduceIte]
      exact handle_still po t cfg.maxHft _ _ _ _
    · simp only [hc, Bool.false_eq_true, ↓reduceIte]; intro x hx; simp at hx
  · rw [if_neg hp]; exact pure_still _ _

theorem setFund_ops_still (w : List (Nat × Option P)) :
    ∀ x ∈ w.map (fun x => ((x.1, Op.setFund x.2) : MOp P)), Op.still x.2 := by
  intro x hx
  obtain ⟨y, _, rfl⟩ := List.mem_map.mp hx
  trivial

theorem stepBefore_still (t : Nat) (resume : Nat → StepFx P) (ms : Markets) (f : Nat → Market P) (flag : Bool) :
    ∀ x ∈ (stepBefore t resume ms f flag).2.2.2, Op.still x.2 := by
  induction ms generalizing f flag with
  | nil => simp [stepBefore]
  | cons m ms ih =>
    unfold stepBefore
    intro x hx
    simp only [List.mem_append] at hx
    rcases hx with (hx | hx) | hx
    · exact setRunning_ops_still _ x hx
    · exact setFund_ops_still _ x hx
    · exact ih _ _ x hx

theorem nTicks_append (a b : List (Op P)) : nTicks (a ++ b) = nTicks a + nTicks b := by
  induction a with
  | nil => simp [nTicks]
  | cons o os ih => rw [List.cons_append, nTicks_cons, nTicks_cons o os, ih]; omega

theorem nTicks_still (k : Nat) (l : List (MOp P)) (h : ∀ x ∈ l, Op.still x.2) : nTicks (opsFor k l) = 0 := by
  induction l with
  | nil => rfl
  | cons x l ih =>
    obtain ⟨m, o⟩ := x
    have hl := ih (fun y hy => h y (by simp [hy]))
    rw [opsFor_cons]
    split
    · rw [nTicks_cons, hl]
      have := h (m, o) (by simp)
      cases o <;> simp [nTicks, Op.still] at this ⊢
    · exact hl

/-- ticks of `tickAll` seen by market `k`: one per occurrence of `k` in the list -/
theorem nTicks_tickAll (po : Nat → PriceOps P) (fund : Nat → Option P) (ms : List Nat) (f : Nat → Market P)
    (k : Nat) : nTicks (opsFor k (tickAll po fund ms f).2.2) = ms.count k := by
  induction ms generalizing f with
  | nil => rfl
  | cons m ms ih =>
    unfold tickAll
    simp only
    rw [opsFor_cons]
    by_cases h : m = k
    · rw [if_pos h, nTicks_cons, ih, List.count_cons]
      simp [nTicks, h]; omega
    · rw [if_neg h, ih, List.count_cons]
      simp [h]

theorem tickOrder_count (ms : Markets) (k : Nat) : (tickOrder ms).count k = (ms.map (·.1)).count k := by
  unfold tickOrder
  induction ms with
  | nil => rfl
  | cons m ms ih =>
    obtain ⟨id, ix⟩ := m
    cases ix <;> simp [List.filter_cons, List.count_cons] at ih ⊢ <;> omega

/-- **one clock step per market and step**: a completed step advances the clock of every market by
the number of times it is listed (once, for distinct ids); an aborted step advances none -/
theorem runStep_ticks (po : Nat → PriceOps P) (ms : Markets) (cfg : SessionCfg) (t : Nat) (s : State P)
    (flag : Bool) (tape : StepTape P) (k : Nat) :
    nTicks (opsFor k (runStep po ms cfg t s flag tape).ops) =
      if (runStep po ms cfg t s flag tape).out.ok then (ms.map (·.1)).count k else 0 := by
  have h1 := nTicks_still k _ (stepBefore_still (P := P) t tape.resume ms s.mkt flag)
  have h2 := nTicks_still k _ (stepBody_still po cfg t { s with mkt := (stepBefore t tape.resume ms s.mkt flag).2.1 }
    (stepBefore t tape.resume ms s.mkt flag).2.2.1 tape)
  unfold runStep
  simp only
  split
  · simp only [opsFor_append, nTicks_append, h1, h2, nTicks_tickAll, tickOrder_count, ↓reduceIte]
    omega
  · rename_i hok
    simp only [opsFor_append, nTicks_append, h1, h2]

theorem andThen_ok (a : SOut P) (f : State P → Bool → SOut P) (h : (a.andThen f).out.ok = true) :
    a.out.ok = true ∧ (f a.st a.out.flag).out.ok = true ∧
      (a.andThen f).ops = a.ops ++ (f a.st a.out.flag).ops ∧
      (a.andThen f).st = (f a.st a.out.flag).st := by
  unfold SOut.andThen at h ⊢
  by_cases hok : a.out.ok = true
  · rw [if_pos hok] at h ⊢
    exact ⟨hok, h, rfl, rfl⟩
  · rw [if_neg hok] at h; exact absurd h hok

theorem runSteps_ticks (po : Nat → PriceOps P) (ms : Markets) (cfg : SessionCfg) (t : Nat) (s : State P)
    (flag : Bool) (tapes : List (StepTape P)) (n : Nat) (k : Nat)
    (hok : (runSteps po ms cfg t s flag tapes n).out.ok = true) :
    nTicks (opsFor k (runSteps po ms cfg t s flag tapes n).ops) = n * (ms.map (·.1)).count k := by
  induction n generalizing t s flag tapes with
  | zero => simp [runSteps, SOut.pure, nTicks]
  | succ n ih =>
    unfold runSteps at hok ⊢
    obtain ⟨h1, h2, h3, _⟩ := andThen_ok _ _ hok
    rw [h3, opsFor_append, nTicks_append, runStep_ticks, if_pos h1, ih _ _ _ _ h2]
    rw [Nat.succ_mul]; omega

theorem runSession_ticks (po : Nat → PriceOps P) (ms : Markets) (i : Nat) (cfg : SessionCfg) (start : Nat)
    (s : State P) (tapes : List (StepTape P)) (k : Nat)
    (hok : (runSession po ms i cfg start s tapes).out.ok = true) :
    nTicks (opsFor k (runSession po ms i cfg start s tapes).ops) = cfg.steps * (ms.map (·.1)).count k := by
  unfold runSession at hok ⊢
  simp only at hok ⊢
  split at hok
  · rename_i hb
    rw [if_pos hb]
    simp only [opsFor_append, nTicks_append]
    rw [nTicks_still k _ (setRunning_ops_still _), runSteps_ticks _ _ _ _ _ _ _ _ _ hb]
    omega
  · rename_i hb
    simp only at hok
    exact absurd hok hb

/-- total number of steps of a list of sessions -/
def totalSteps : List SessionCfg → Nat
  | [] => 0
  | c :: cs => c.steps + totalSteps cs

theorem runSessions_ticks (po : Nat → PriceOps P) (ms : Markets) (i start : Nat) (s : State P)
    (cfgs : List SessionCfg) (tapes : List (List (StepTape P))) (k : Nat)
    (hok : (runSessions po ms i start s cfgs tapes).out.ok = true) :
    nTicks (opsFor k (runSessions po ms i start s cfgs tapes).ops) =
      totalSteps cfgs * (ms.map (·.1)).count k := by
  induction cfgs generalizing i start s tapes with
  | nil => simp [runSessions, SOut.pure, totalSteps, nTicks]
  | cons cfg cfgs ih =>
    unfold runSessions at hok ⊢
    obtain ⟨h1, h2, h3, _⟩ := andThen_ok _ _ hok
    rw [h3, opsFor_append, nTicks_append, runSession_ticks _ _ _ _ _ _ _ _ h1, ih _ _ _ _ h2]
    simp only [totalSteps, Nat.add_mul]

/-! ### while the session's execution flag is off nothing is matched -/

def isFill : Rec P → Bool
  | .fill _ => true
  | _ => false

/-- no fill was written, the flag is still off, the fill counter has not moved -/
def SOut.Quiet (a : SOut P) (s : State P) : Prop :=
  (∀ x ∈ a.recs, isFill x.2 = false) ∧ a.out.flag = false ∧ a.st.nfill = s.nfill ∧
    (∀ x ∈ a.ops, x.2 ≠ Op.exec)

theorem processRequest_quiet (po : Nat → PriceOps P) (t : Nat) (s : State P) (q : SReq P) :
    (processRequest po t s false q).Quiet s := by
  unfold processRequest SOut.Quiet
  simp only
  refine ⟨?_, (Runner.processRequest_flag_off t _).2, ?_, ?_⟩ <;> unfold resolve
  · rcases hm : marketCall po s q with _ | ⟨s1, r1, o1⟩
    · simp
    · simp only [Bool.false_eq_true, ↓reduceIte]
      unfold marketCall at hm
      by_cases hc : q.isCancel = true
      · rw [if_pos hc] at hm
        by_cases hmk : (!q.marketOk) = true
        · rw [if_pos hmk] at hm; cases hm
        · rw [if_neg hmk] at hm
          rcases hr : (s.mkt q.market).cancel (po q.market) q.cancelId with e | ⟨m', l⟩
          · rw [hr] at hm; cases hm
          · rw [hr] at hm
            simp only [Option.some.injEq, Prod.mk.injEq] at hm
            obtain ⟨_, rfl, _⟩ := hm
            intro x hx; simp at hx; subst hx; rfl
      · rw [if_neg hc] at hm
        rcases hr : (s.mkt q.market).submit (po q.market) q.marketOk q.stamped q.req with e | ⟨m', l⟩
        · rw [hr] at hm; cases hm
        · rw [hr] at hm
          simp only [Option.some.injEq, Prod.mk.injEq] at hm
          obtain ⟨_, rfl, _⟩ := hm
          intro x hx; simp at hx; subst hx; rfl
  · rcases hm : marketCall po s q with _ | ⟨s1, r1, o1⟩
    · rfl
    · simp only [Bool.false_eq_true, ↓reduceIte]
      exact (marketCall_tracks po s s1 q r1 o1 hm).2
  · rcases hm : marketCall po s q with _ | ⟨s1, r1, o1⟩
    · simp
    · simp only [Bool.false_eq_true, ↓reduceIte]
      unfold marketCall at hm
      by_cases hc : q.isCancel = true
      · rw [if_pos hc] at hm
        by_cases hmk : (!q.marketOk) = true
        · rw [if_pos hmk] at hm; cases hm
        · rw [if_neg hmk] at hm
          rcases hr : (s.mkt q.market).cancel (po q.market) q.cancelId with e | ⟨m', l⟩
          · rw [hr] at hm; cases hm
          · rw [hr] at hm
            simp only [Option.some.injEq, Prod.mk.injEq] at hm
            obtain ⟨_, _, rfl⟩ := hm
            intro x hx; simp at hx; subst hx; simp
      · rw [if_neg hc] at hm
        rcases hr : (s.mkt q.market).submit (po q.market) q.marketOk q.stamped q.req with e | ⟨m', l⟩
        · rw [hr] at hm; cases hm
        · rw [hr] at hm
          simp only [Option.some.injEq, Prod.mk.injEq] at hm
          obtain ⟨_, _, rfl⟩ := hm
          intro x hx; simp at hx; subst hx; simp

theorem pure_quiet (s : State P) : (SOut.pure s false).Quiet s := by
  refine ⟨?_, rfl, rfl, ?_⟩ <;> intro x hx <;> simp [SOut.pure] at hx

theorem andThen_quiet (s : State P) (a : SOut P) (f : State P → Bool → SOut P) (ha : a.Quiet s)
    (hf : ∀ s', s'.nfill = s.nfill → (f s' false).Quiet s') : (a.andThen f).Quiet s := by
  unfold SOut.andThen
  by_cases hok : a.out.ok = true
  · rw [if_pos hok]
    have hb := hf a.st ha.2.2.1
    rw [ha.2.1]
    refine ⟨?_, hb.2.1, by rw [hb.2.2.1, ha.2.2.1], ?_⟩
    · intro x hx
      rcases List.mem_append.mp hx with hx | hx
      · exact ha.1 x hx
      · exact hb.1 x hx
    · intro x hx
      rcases List.mem_append.mp hx with hx | hx
      · exact ha.2.2.2 x hx
      · exact hb.2.2.2 x hx
  · rw [if_neg hok]; exact ha

theorem consTr_quiet (s : State P) (a : SOut P) (e : Ev) (h : a.Quiet s) : (a.consTr e).Quiet s := h

theorem processBatch_quiet (po : Nat → PriceOps P) (t : Nat) (s : State P) (qs : List (SReq P)) :
    (processBatch po t s false qs).Quiet s := by
  induction qs generalizing s with
  | nil => exact pure_quiet s
  | cons q qs ih =>
    unfold processBatch
    exact andThen_quiet s _ _ (processRequest_quiet po t s q) (fun s' _ => ih s')

theorem hftRound_quiet (po : Nat → PriceOps P) (t : Nat) (cap : Int) (answer : Nat → List (SReq P))
    (as : List Nat) (n : Nat) (s : State P) : (hftRound po t cap answer as n s false).Quiet s := by
  induction as generalizing n s with
  | nil => exact pure_quiet s
  | cons a as ih =>
    unfold hftRound
    by_cases h1 : (n : Int) ≥ cap
    · rw [if_pos h1]; exact pure_quiet s
    · rw [if_neg h1]
      by_cases h2 : (answer a).isEmpty = true
      · simp only [h2, ↓reduceIte]
        exact consTr_quiet s _ _ (ih n s)
      · simp only [h2, Bool.false_eq_true, ↓reduceIte]
        by_cases h3 : (answer a).any (fun q => q.owner ≠ a) = true
        · rw [if_pos h3]
          refine ⟨?_, rfl, rfl, ?_⟩ <;> intro x hx <;> simp at hx
        · rw [if_neg h3]
          exact consTr_quiet s _ _
            (andThen_quiet s _ _ (processBatch_quiet po t s _) (fun s' _ => ih (n + 1) s'))

theorem handle_quiet (po : Nat → PriceOps P) (t : Nat) (maxHft : Int) (bs : List (Nat × List (SReq P)))
    (rts : List (RoundTape P)) (s : State P) : (handle po t maxHft bs rts s false).Quiet s := by
  induction bs generalizing rts s with
  | nil => exact pure_quiet s
  | cons b bs ih =>
    obtain ⟨a, batch⟩ := b
    unfold handle
    refine andThen_quiet s _ _ (processBatch_quiet po t s batch) (fun s1 _ => ?_)
    refine andThen_quiet s1 _ _ ?_ (fun s2 _ => ih rts.tail s2)
    by_cases hg : (rts.headD RoundTape.none).go = true
    · rw [if_pos hg]; exact hftRound_quiet po t maxHft _ _ 0 s1
    · rw [if_neg hg]; exact pure_quiet s1

theorem stepBody_quiet (po : Nat → PriceOps P) (cfg : SessionCfg) (t : Nat) (s0 : State P)
    (tape : StepTape P) : (stepBody po cfg t s0 false tape).Quiet s0 := by
  unfold stepBody
  by_cases hp : cfg.placement = true
  · rw [if_pos hp]
    by_cases hc : (collect false cfg.maxNormal tape.answer tape.perm 0).2.1 = true
    · simp only [hc, ↓reduceIte]
      exact handle_quiet po t cfg.maxHft _ _ _
    · simp only [hc, Bool.false_eq_true, ↓reduceIte]
      refine ⟨?_, rfl, rfl, ?_⟩ <;> intro x hx <;> simp at hx
  · rw [if_neg hp]; exact pure_quiet _

/-- no before-step handler switches the execution flag on -/
def StepTape.NoResume (tp : StepTape P) : Prop := ∀ m, (tp.resume m).flag = false

theorem stepBefore_flag_off (t : Nat) (resume : Nat → StepFx P) (hr : ∀ m, (resume m).flag = false)
    (ms : Markets) (f : Nat → Market P) :
    (stepBefore t resume ms f false).2.2.1 = false ∧
      ∀ x ∈ (stepBefore t resume ms f false).2.2.2, x.2 ≠ Op.exec := by
  induction ms generalizing f with
  | nil => simp [stepBefore]
  | cons m ms ih =>
    unfold stepBefore
    simp only [hr m.1, Bool.false_eq_true, ↓reduceIte]
    refine ⟨(ih _).1, ?_⟩
    intro x hx
    simp only [List.mem_append, List.mem_map] at hx
    rcases hx with (⟨y, _, rfl⟩ | ⟨y, _, rfl⟩) | hx
    · simp
    · simp
    · exact (ih _).2 x hx

theorem tickAll_quiet (po : Nat → PriceOps P) (fund : Nat → Option P) (ms : List Nat) (f : Nat → Market P) :
    (∀ x ∈ (tickAll po fund ms f).2.1, isFill x.2 = false) ∧
      ∀ x ∈ (tickAll po fund ms f).2.2, x.2 ≠ Op.exec := by
  induction ms generalizing f with
  | nil => simp [tickAll]
  | cons m ms ih =>
    unfold tickAll
    constructor
    · intro x hx
      simp only [List.mem_append, List.mem_map] at hx
      rcases hx with ⟨l, _, rfl⟩ | hx
      · rfl
      · exact (ih _).1 x hx
    · intro x hx
      rcases List.mem_cons.mp hx with rfl | hx
      · simp
      · exact (ih _).2 x hx

theorem runStep_quiet (po : Nat → PriceOps P) (ms : Markets) (cfg : SessionCfg) (t : Nat) (s : State P)
    (tape : StepTape P) (hr : tape.NoResume) : (runStep po ms cfg t s false tape).Quiet s := by
  have hb := stepBefore_flag_off (P := P) t tape.resume hr ms s.mkt
  have h2 := stepBody_quiet po cfg t { s with mkt := (stepBefore t tape.resume ms s.mkt false).2.1 } tape
  have htk := tickAll_quiet po tape.fund (tickOrder ms)
    (stepBody po cfg t { s with mkt := (stepBefore t tape.resume ms s.mkt false).2.1 } false tape).st.mkt
  unfold runStep
  simp only [hb.1]
  split
  · refine ⟨?_, h2.2.1, h2.2.2.1, ?_⟩
    · intro x hx
      rcases List.mem_append.mp hx with hx | hx
      · exact h2.1 x hx
      · exact htk.1 x hx
    · intro x hx
      simp only [List.mem_append] at hx
      rcases hx with (hx | hx) | hx
      · exact hb.2 x hx
      · exact h2.2.2.2 x hx
      · exact htk.2 x hx
  · refine ⟨h2.1, h2.2.1, h2.2.2.1, ?_⟩
    intro x hx
    simp only [List.mem_append] at hx
    rcases hx with hx | hx
    · exact hb.2 x hx
    · exact h2.2.2.2 x hx

theorem StepTape.none_noResume : (StepTape.none : StepTape P).NoResume := by
  intro m; rfl

theorem runSteps_quiet (po : Nat → PriceOps P) (ms : Markets) (cfg : SessionCfg) (t : Nat) (s : State P)
    (tapes : List (StepTape P)) (hr : ∀ tp ∈ tapes, tp.NoResume) (n : Nat) :
    (runSteps po ms cfg t s false tapes n).Quiet s := by
  induction n generalizing t s tapes with
  | zero => exact pure_quiet s
  | succ n ih =>
    unfold runSteps
    refine andThen_quiet s _ _ (runStep_quiet po ms cfg t s _ ?_)
      (fun s' _ => ih (t + 1) s' tapes.tail (fun tp htp => hr tp (List.mem_of_mem_tail htp)))
    cases tapes with
    | nil => exact StepTape.none_noResume
    | cons tp tps => exact hr tp (by simp)

/-- **a session configured without order execution, in which no handler switches execution on,
matches nothing**: no fill is written for any market, no matching round is run, the fill counter
stands still — whatever the agents submit -/
theorem runSession_quiet (po : Nat → PriceOps P) (ms : Markets) (k : Nat) (cfg : SessionCfg) (start : Nat)
    (s : State P) (tapes : List (StepTape P)) (hx : cfg.execution = false)
    (hr : ∀ tp ∈ tapes, tp.NoResume) : (runSession po ms k cfg start s tapes).Quiet s := by
  have h := runSteps_quiet po ms cfg start
    { s with mkt := setRunnings s.mkt (ms.map (fun m => (m.1, cfg.execution))) } tapes hr cfg.steps
  unfold runSession
  simp only [hx] at h ⊢
  split
  · refine ⟨h.1, h.2.1, h.2.2.1, ?_⟩
    intro x hx'
    simp only [List.mem_append, List.mem_map] at hx'
    rcases hx' with ⟨y, _, rfl⟩ | hx'
    · simp
    · exact h.2.2.2 x hx'
  · refine ⟨h.1, h.2.1, h.2.2.1, ?_⟩
    intro x hx'
    simp only [List.mem_append, List.mem_map] at hx'
    rcases hx' with ⟨y, _, rfl⟩ | hx'
    · simp
    · exact h.2.2.2 x hx'

/-! ### every fill of a run is applied to the ledger exactly once and notified exactly twice -/

/-- the fill references of the ledger events of a trace, in order -/
def ledgerRefs : List Ev → List Nat
  | [] => []
  | .ledger refs :: es => refs ++ ledgerRefs es
  | _ :: es => ledgerRefs es

/-- the fill references of the execution notifications of a trace, in order -/
def cbRefs : List Ev → List Nat
  | [] => []
  | .cbExecuted _ r :: es => r :: cbRefs es
  | _ :: es => cbRefs es

def dup (l : List Nat) : List Nat := l.flatMap (fun r => [r, r])

theorem ledgerRefs_append (a b : List Ev) : ledgerRefs (a ++ b) = ledgerRefs a ++ ledgerRefs b := by
  induction a with
  | nil => rfl
  | cons e es ih => cases e <;> simp [ledgerRefs, ih]

theorem cbRefs_append (a b : List Ev) : cbRefs (a ++ b) = cbRefs a ++ cbRefs b := by
  induction a with
  | nil => rfl
  | cons e es ih => cases e <;> simp [cbRefs, ih]

theorem dup_append (a b : List Nat) : dup (a ++ b) = dup a ++ dup b := by simp [dup]

/-- a trace without ledger events and execution notifications -/
def Plain (tr : List Ev) : Prop := ledgerRefs tr = [] ∧ cbRefs tr = []

theorem plain_of_frame (tr : List Ev) (h : ∀ e ∈ tr, e.isLedger = false ∧ e.isCallback = false) : Plain tr := by
  induction tr with
  | nil => exact ⟨rfl, rfl⟩
  | cons e es ih =>
    have he := h e (by simp)
    have := ih (fun x hx => h x (by simp [hx]))
    cases e <;> simp [Ev.isLedger, Ev.isCallback] at he <;> exact ⟨by simpa [ledgerRefs] using this.1, by simpa [cbRefs] using this.2⟩

theorem fillEvents_refs (t : Nat) (fs : List RFill) :
    ledgerRefs (fillEvents t fs) = [] ∧ cbRefs (fillEvents t fs) = dup (fs.map (·.ref)) := by
  induction fs with
  | nil => exact ⟨rfl, rfl⟩
  | cons f fs ih => simp [fillEvents, ledgerRefs, cbRefs, dup, ih.1, ih.2]

/-- the ledger and notification references of one processed request -/
theorem processRequest_refs (t : Nat) (flag : Bool) (r : Request) :
    ledgerRefs (Runner.processRequest t flag r).tr =
      (if r.accepted && flag then (match r.fills with | some fs => fs.map (·.ref) | none => []) else []) ∧
    cbRefs (Runner.processRequest t flag r).tr =
      dup (if r.accepted && flag then (match r.fills with | some fs => fs.map (·.ref) | none => []) else []) := by
  unfold Runner.processRequest
  cases hc : r.isCancel <;> cases ha : r.accepted <;> cases hf : flag <;>
    (try rcases hfs : r.fills with _ | fs) <;>
    simp [ledgerRefs, cbRefs, dup, ledgerRefs_append, cbRefs_append, (fillEvents_refs t _).1, (fillEvents_refs t _).2]

theorem rfills_refs (q : SReq P) (base i : Nat) (fs : List (Fill P)) :
    (rfills q base i fs).map (·.ref) = List.range' (base + i) fs.length := by
  induction fs generalizing i with
  | nil => rfl
  | cons f fs ih =>
    simp only [rfills, List.map_cons, List.length_cons, List.range'_succ, ih (i + 1)]
    congr 2

/-- the fills of a function are numbered freshly and consecutively, each is applied to the ledger
once and notified twice -/
def SOut.Fresh (a : SOut P) (s : State P) : Prop :=
  ∃ n, a.st.nfill = s.nfill + n ∧ ledgerRefs a.out.tr = List.range' s.nfill n ∧
    cbRefs a.out.tr = dup (List.range' s.nfill n)

theorem processRequest_fresh (po : Nat → PriceOps P) (t : Nat) (s : State P) (flag : Bool) (q : SReq P) :
    (processRequest po t s flag q).Fresh s := by
  unfold processRequest SOut.Fresh
  simp only
  have hr := processRequest_refs t flag (resolve po s flag q).2.1
  rw [hr.1, hr.2]
  unfold resolve
  rcases hm : marketCall po s q with _ | ⟨s1, r1, o1⟩
  · exact ⟨0, rfl, by simp [baseRequest], by simp [baseRequest, dup]⟩
  · have hn := (marketCall_tracks po s s1 q r1 o1 hm).2
    cases flag
    · exact ⟨0, by simpa using hn, by simp [baseRequest], by simp [baseRequest, dup]⟩
    · simp only [↓reduceIte]
      rcases hrc : roundCall po s1 q with _ | ⟨s2, rf, r2, o2⟩
      · exact ⟨0, by simpa using hn, by simp [baseRequest], by simp [baseRequest, dup]⟩
      · unfold roundCall at hrc
        rcases he : (s1.mkt q.market).execution (po q.market) with e | ⟨m', fs⟩
        · rw [he] at hrc; cases hrc
        · rw [he] at hrc
          simp only [Option.some.injEq, Prod.mk.injEq] at hrc
          obtain ⟨rfl, rfl, _, _⟩ := hrc
          refine ⟨fs.length, by simp [hn], ?_, ?_⟩
          · simp [baseRequest, rfills_refs, hn]
          · simp [baseRequest, rfills_refs, hn]

theorem pure_fresh (s : State P) (flag : Bool) : (SOut.pure s flag).Fresh s :=
  ⟨0, rfl, rfl, rfl⟩

theorem andThen_fresh (s : State P) (a : SOut P) (f : State P → Bool → SOut P) (ha : a.Fresh s)
    (hf : ∀ s' fl, (f s' fl).Fresh s') : (a.andThen f).Fresh s := by
  unfold SOut.andThen
  by_cases hok : a.out.ok = true
  · rw [if_pos hok]
    obtain ⟨n, h1, h2, h3⟩ := ha
    obtain ⟨k, g1, g2, g3⟩ := hf a.st a.out.flag
    refine ⟨n + k, by simp only [g1, h1]; omega, ?_, ?_⟩
    · simp only [ledgerRefs_append, h2, g2, h1]
      exact List.range'_append_1
    · simp only [cbRefs_append, h3, g3, h1, ← dup_append]
      rw [List.range'_append_1]
  · rw [if_neg hok]; exact ha

theorem prepend_fresh (s : State P) (a : SOut P) (l : List Ev) (hl : Plain l) (ha : a.Fresh s) :
    (a.prependTr l).Fresh s := by
  obtain ⟨n, h1, h2, h3⟩ := ha
  exact ⟨n, h1, by simp [SOut.prependTr, ledgerRefs_append, hl.1, h2], by simp [SOut.prependTr, cbRefs_append, hl.2, h3]⟩

theorem consTr_fresh (s : State P) (a : SOut P) (e : Ev) (he : Plain [e]) (ha : a.Fresh s) :
    (a.consTr e).Fresh s := by
  have := prepend_fresh s a [e] he ha
  simpa [SOut.prependTr, SOut.consTr] using this

theorem processBatch_fresh (po : Nat → PriceOps P) (t : Nat) (s : State P) (flag : Bool) (qs : List (SReq P)) :
    (processBatch po t s flag qs).Fresh s := by
  induction qs generalizing s flag with
  | nil => exact pure_fresh s flag
  | cons q qs ih =>
    unfold processBatch
    exact andThen_fresh s _ _ (processRequest_fresh po t s flag q) (fun s' fl => ih s' fl)

theorem plain_consult (a : Nat) (h : Bool) : Plain [Ev.consult a h] := ⟨rfl, rfl⟩

theorem hftRound_fresh (po : Nat → PriceOps P) (t : Nat) (cap : Int) (answer : Nat → List (SReq P))
    (as : List Nat) (n : Nat) (s : State P) (flag : Bool) :
    (hftRound po t cap answer as n s flag).Fresh s := by
  induction as generalizing n s flag with
  | nil => exact pure_fresh s flag
  | cons a as ih =>
    unfold hftRound
    by_cases h1 : (n : Int) ≥ cap
    · rw [if_pos h1]; exact pure_fresh s flag
    · rw [if_neg h1]
      by_cases h2 : (answer a).isEmpty = true
      · simp only [h2, ↓reduceIte]
        exact consTr_fresh s _ _ (plain_consult a true) (ih n s flag)
      · simp only [h2, Bool.false_eq_true, ↓reduceIte]
        by_cases h3 : (answer a).any (fun q => q.owner ≠ a) = true
        · rw [if_pos h3]; exact ⟨0, rfl, rfl, rfl⟩
        · rw [if_neg h3]
          exact consTr_fresh s _ _ (plain_consult a true)
            (andThen_fresh s _ _ (processBatch_fresh po t s flag _) (fun s' fl => ih (n + 1) s' fl))

theorem handle_fresh (po : Nat → PriceOps P) (t : Nat) (maxHft : Int) (bs : List (Nat × List (SReq P)))
    (rts : List (RoundTape P)) (s : State P) (flag : Bool) : (handle po t maxHft bs rts s flag).Fresh s := by
  induction bs generalizing rts s flag with
  | nil => exact pure_fresh s flag
  | cons b bs ih =>
    obtain ⟨a, batch⟩ := b
    unfold handle
    refine andThen_fresh s _ _ (processBatch_fresh po t s flag batch) (fun s1 fl => ?_)
    refine andThen_fresh s1 _ _ ?_ (fun s2 fl2 => ih rts.tail s2 fl2)
    by_cases hg : (rts.headD RoundTape.none).go = true
    · rw [if_pos hg]; exact hftRound_fresh po t maxHft _ _ 0 s1 fl
    · rw [if_neg hg]; exact pure_fresh s1 fl

theorem collect_plain (hft : Bool) (cap : Int) (answer : Nat → List (SReq P)) (as : List Nat) (n : Nat) :
    Plain (collect hft cap answer as n).1 := by
  induction as generalizing n with
  | nil => exact ⟨rfl, rfl⟩
  | cons a as ih =>
    unfold collect
    by_cases h1 : (n : Int) ≥ cap
    · simp only [h1, ↓reduceIte]; exact ⟨rfl, rfl⟩
    · rw [if_neg h1]
      by_cases h2 : (answer a).isEmpty = true
      · simp only [h2, ↓reduceIte]
        exact ⟨by simpa [ledgerRefs] using (ih n).1, by simpa [cbRefs] using (ih n).2⟩
      · simp only [h2, Bool.false_eq_true, ↓reduceIte]
        by_cases h3 : (answer a).any (fun q => q.owner ≠ a) = true
        · rw [if_pos h3]; exact ⟨rfl, rfl⟩
        · rw [if_neg h3]
          exact ⟨by simpa [ledgerRefs] using (ih (n + 1)).1, by simpa [cbRefs] using (ih (n + 1)).2⟩

theorem stepBody_fresh (po : Nat → PriceOps P) (cfg : SessionCfg) (t : Nat) (s0 : State P) (flag0 : Bool)
    (tape : StepTape P) : (stepBody po cfg t s0 flag0 tape).Fresh s0 := by
  unfold stepBody
  by_cases hp : cfg.placement = true
  · rw [if_pos hp]
    by_cases hc : (collect false cfg.maxNormal tape.answer tape.perm 0).2.1 = true
    · simp only [hc, ↓reduceIte]
      exact prepend_fresh s0 _ _ (collect_plain _ _ _ _ _) (handle_fresh po t cfg.maxHft _ _ _ _)
    · simp only [hc, Bool.false_eq_true, ↓reduceIte]
      have := collect_plain false cfg.maxNormal tape.answer tape.perm 0
      exact ⟨0, rfl, this.1, by simpa [dup] using this.2⟩
  · rw [if_neg hp]; exact pure_fresh _ _

theorem stepBefore_plain (t : Nat) (resume : Nat → StepFx P) (ms : Markets) (f : Nat → Market P) (flag : Bool) :
    Plain (stepBefore t resume ms f flag).1 := by
  induction ms generalizing f flag with
  | nil => exact ⟨rfl, rfl⟩
  | cons m ms ih =>
    unfold stepBefore
    have := ih (setFunds (setRunnings f (resume m.1).running) (resume m.1).fund)
      (if (resume m.1).flag then true else flag)
    exact ⟨by simpa [ledgerRefs] using this.1, by simpa [cbRefs] using this.2⟩

theorem stepAfter_plain (t : Nat) (ms : Markets) : Plain (stepAfter t ms) := by
  induction ms with
  | nil => exact ⟨rfl, rfl⟩
  | cons m ms ih => exact ⟨by simpa [stepAfter, ledgerRefs] using ih.1, by simpa [stepAfter, cbRefs] using ih.2⟩

theorem ticks_plain (ms : Markets) : Plain (ticks ms) := by
  apply plain_of_frame
  intro e he
  have := frame_not_other e (ticks_frame ms e he)
  exact ⟨this.2.2.2.2, this.2.2.1⟩

theorem Plain.append {a b : List Ev} (ha : Plain a) (hb : Plain b) : Plain (a ++ b) :=
  ⟨by rw [ledgerRefs_append, ha.1, hb.1]; rfl, by rw [cbRefs_append, ha.2, hb.2]; rfl⟩

theorem runStep_fresh (po : Nat → PriceOps P) (ms : Markets) (cfg : SessionCfg) (t : Nat) (s : State P)
    (flag : Bool) (tape : StepTape P) : (runStep po ms cfg t s flag tape).Fresh s := by
  have hb := stepBefore_plain (P := P) t tape.resume ms s.mkt flag
  obtain ⟨n, h1, h2, h3⟩ := stepBody_fresh po cfg t { s with mkt := (stepBefore t tape.resume ms s.mkt flag).2.1 }
    (stepBefore t tape.resume ms s.mkt flag).2.2.1 tape
  have hta := (stepAfter_plain t ms).append (ticks_plain ms)
  unfold runStep
  simp only
  split
  · refine ⟨n, by simpa using h1, ?_, ?_⟩
    · simp only [ledgerRefs_append, hb.1, h2, (stepAfter_plain t ms).1, (ticks_plain ms).1]
      simp
    · simp only [cbRefs_append, hb.2, h3, (stepAfter_plain t ms).2, (ticks_plain ms).2]
      simp
  · refine ⟨n, by simpa using h1, ?_, ?_⟩
    · simp only [ledgerRefs_append, hb.1, h2]; simp
    · simp only [cbRefs_append, hb.2, h3]; simp

theorem runSteps_fresh (po : Nat → PriceOps P) (ms : Markets) (cfg : SessionCfg) (t : Nat) (s : State P)
    (flag : Bool) (tapes : List (StepTape P)) (n : Nat) : (runSteps po ms cfg t s flag tapes n).Fresh s := by
  induction n generalizing t s flag tapes with
  | zero => exact pure_fresh s flag
  | succ n ih =>
    unfold runSteps
    exact andThen_fresh s _ _ (runStep_fresh po ms cfg t s flag _) (fun s' fl => ih (t + 1) s' fl tapes.tail)

theorem map_setRunning_plain (ms : Markets) (b : Bool) : Plain (ms.map (fun m => Ev.setRunning m.1 b)) := by
  induction ms with
  | nil => exact ⟨rfl, rfl⟩
  | cons m ms ih => exact ⟨by simpa [ledgerRefs] using ih.1, by simpa [cbRefs] using ih.2⟩

theorem runSession_fresh (po : Nat → PriceOps P) (ms : Markets) (k : Nat) (cfg : SessionCfg) (start : Nat)
    (s : State P) (tapes : List (StepTape P)) : (runSession po ms k cfg start s tapes).Fresh s := by
  obtain ⟨n, h1, h2, h3⟩ := runSteps_fresh po ms cfg start
    { s with mkt := setRunnings s.mkt (ms.map (fun m => (m.1, cfg.execution))) } cfg.execution tapes cfg.steps
  have hh : Plain ([Ev.hookSessionBefore k start, Ev.sessionBegin k, Ev.flush]
      ++ ms.map (fun m => Ev.setRunning m.1 cfg.execution)) :=
    Plain.append ⟨rfl, rfl⟩ (map_setRunning_plain ms cfg.execution)
  unfold runSession
  simp only
  split
  · refine ⟨n, by simpa using h1, ?_, ?_⟩
    · simp only [ledgerRefs_append, hh.1, h2]; simp [ledgerRefs]
    · simp only [cbRefs_append, hh.2, h3]; simp [cbRefs]
  · refine ⟨n, by simpa using h1, ?_, ?_⟩
    · simp only [ledgerRefs_append, hh.1, h2]; simp
    · simp only [cbRefs_append, hh.2, h3]; simp

theorem runSessions_fresh (po : Nat → PriceOps P) (ms : Markets) (k start : Nat) (s : State P)
    (cfgs : List SessionCfg) (tapes : List (List (StepTape P))) :
    (runSessions po ms k start s cfgs tapes).Fresh s := by
  induction cfgs generalizing k start s tapes with
  | nil => exact pure_fresh s false
  | cons cfg cfgs ih =>
    unfold runSessions
    exact andThen_fresh s _ _ (runSession_fresh po ms k cfg start s _)
      (fun s' _ => ih (k + 1) (start + cfg.steps) s' tapes.tail)

/-- **over a whole run**: the ledger events list the fills `0, 1, …, N−1` — every fill of the run
exactly once, in order — and the execution notifications carry every one of them exactly twice
(buyer, seller), where `N` is the number of fills of the run -/
theorem run_fresh (po : Nat → PriceOps P) (ms : Markets) (price : Nat → P) (fund0 : Nat → Option P)
    (cfgs : List SessionCfg) (tapes : List (List (StepTape P))) :
    ledgerRefs (run po ms price fund0 cfgs tapes).out.tr =
      List.range (run po ms price fund0 cfgs tapes).st.nfill ∧
    cbRefs (run po ms price fund0 cfgs tapes).out.tr =
      dup (List.range (run po ms price fund0 cfgs tapes).st.nfill) := by
  obtain ⟨n, h1, h2, h3⟩ := runSessions_fresh po ms 0 0 (initState po price fund0) cfgs tapes
  have hn : (run po ms price fund0 cfgs tapes).st.nfill = n := by simpa [run, initState] using h1
  have ht := ticks_plain ms
  have hend : Plain (if (runSessions po ms 0 0 (initState po price fund0) cfgs tapes).out.ok
      then [Ev.simEnd, Ev.flush] else []) := by split <;> exact ⟨rfl, rfl⟩
  rw [hn, List.range_eq_range']
  constructor
  · simp only [run, ledgerRefs_append, ht.1, h2, hend.1]
    simp [ledgerRefs, initState]
  · simp only [run, cbRefs_append, ht.2, h3, hend.2]
    simp [cbRefs, initState]

/-! ### the fill counter counts the fill records -/

def countFills (l : List (MRec P)) : Nat := (l.filter (fun x => isFill x.2)).length

theorem countFills_append (a b : List (MRec P)) : countFills (a ++ b) = countFills a + countFills b := by
  simp [countFills]

def SOut.Counted (a : SOut P) (s : State P) : Prop := a.st.nfill = s.nfill + countFills a.recs

theorem countFills_zero (l : List (MRec P)) (h : ∀ x ∈ l, isFill x.2 = false) : countFills l = 0 := by
  unfold countFills
  rw [List.length_eq_zero_iff, List.filter_eq_nil_iff]
  intro x hx
  simp [h x hx]

theorem processRequest_counted (po : Nat → PriceOps P) (t : Nat) (s : State P) (flag : Bool) (q : SReq P) :
    (processRequest po t s flag q).Counted s := by
  cases flag
  · have h := processRequest_quiet po t s q
    unfold SOut.Counted
    rw [h.2.2.1, countFills_zero _ h.1]
    rfl
  · unfold processRequest SOut.Counted
    simp only
    unfold resolve
    rcases hm : marketCall po s q with _ | ⟨s1, r1, o1⟩
    · simp [countFills]
    · have hq := processRequest_quiet po t s q
      have hr1 : countFills r1 = 0 := by
        have := hq.1
        unfold processRequest resolve at this
        simp only [hm, Bool.false_eq_true, ↓reduceIte] at this
        exact countFills_zero _ this
      have hn := (marketCall_tracks po s s1 q r1 o1 hm).2
      simp only [↓reduceIte]
      rcases hrc : roundCall po s1 q with _ | ⟨s2, rf, r2, o2⟩
      · simp [hr1, hn]
      · unfold roundCall at hrc
        rcases he : (s1.mkt q.market).execution (po q.market) with e | ⟨m', fs⟩
        · rw [he] at hrc; cases hrc
        · rw [he] at hrc
          simp only [Option.some.injEq, Prod.mk.injEq] at hrc
          obtain ⟨rfl, _, rfl, _⟩ := hrc
          simp only [countFills_append, hr1, hn, Nat.zero_add]
          congr 1
          unfold countFills
          rw [List.filter_eq_self.mpr]
          · simp
          · intro x hx
            obtain ⟨f, _, rfl⟩ := List.mem_map.mp hx
            rfl

theorem andThen_counted (s : State P) (a : SOut P) (f : State P → Bool → SOut P) (ha : a.Counted s)
    (hf : ∀ s' fl, (f s' fl).Counted s') : (a.andThen f).Counted s := by
  unfold SOut.andThen
  by_cases hok : a.out.ok = true
  · rw [if_pos hok]
    have hb := hf a.st a.out.flag
    unfold SOut.Counted at *
    simp only [countFills_append]
    omega
  · rw [if_neg hok]; exact ha

theorem pure_counted (s : State P) (flag : Bool) : (SOut.pure s flag).Counted s := by
  simp [SOut.Counted, SOut.pure, countFills]

theorem processBatch_counted (po : Nat → PriceOps P) (t : Nat) (s : State P) (flag : Bool) (qs : List (SReq P)) :
    (processBatch po t s flag qs).Counted s := by
  induction qs generalizing s flag with
  | nil => exact pure_counted s flag
  | cons q qs ih =>
    unfold processBatch
    exact andThen_counted s _ _ (processRequest_counted po t s flag q) (fun s' fl => ih s' fl)

theorem hftRound_counted (po : Nat → PriceOps P) (t : Nat) (cap : Int) (answer : Nat → List (SReq P))
    (as : List Nat) (n : Nat) (s : State P) (flag : Bool) :
    (hftRound po t cap answer as n s flag).Counted s := by
  induction as generalizing n s flag with
  | nil => exact pure_counted s flag
  | cons a as ih =>
    unfold hftRound
    by_cases h1 : (n : Int) ≥ cap
    · rw [if_pos h1]; exact pure_counted s flag
    · rw [if_neg h1]
      by_cases h2 : (answer a).isEmpty = true
      · simp only [h2, ↓reduceIte]
        exact ih n s flag
      · simp only [h2, Bool.false_eq_true, ↓reduceIte]
        by_cases h3 : (answer a).any (fun q => q.owner ≠ a) = true
        · rw [if_pos h3]; simp [SOut.Counted, countFills]
        · rw [if_neg h3]
          exact andThen_counted s _ _ (processBatch_counted po t s flag _) (fun s' fl => ih (n + 1) s' fl)

theorem handle_counted (po : Nat → PriceOps P) (t : Nat) (maxHft : Int) (bs : List (Nat × List (SReq P)))
    (rts : List (RoundTape P)) (s : State P) (flag : Bool) : (handle po t maxHft bs rts s flag).Counted s := by
  induction bs generalizing rts s flag with
  | nil => exact pure_counted s flag
  | cons b bs ih =>
    obtain ⟨a, batch⟩ := b
    unfold handle
    refine andThen_counted s _ _ (processBatch_counted po t s flag batch) (fun s1 fl => ?_)
    refine andThen_counted s1 _ _ ?_ (fun s2 fl2 => ih rts.tail s2 fl2)
    by_cases hg : (rts.headD RoundTape.none).go = true
    · rw [if_pos hg]; exact hftRound_counted po t maxHft _ _ 0 s1 fl
    · rw [if_neg hg]; exact pure_counted s1 fl

theorem stepBody_counted (po : Nat → PriceOps P) (cfg : SessionCfg) (t : Nat) (s0 : State P) (flag0 : Bool)
    (tape : StepTape P) : (stepBody po cfg t s0 flag0 tape).Counted s0 := by
  unfold stepBody
  by_cases hp : cfg.placement = true
  · rw [if_pos hp]
    by_cases hc : (collect false cfg.maxNormal tape.answer tape.perm 0).2.1 = true
    · simp only [hc, ↓reduceIte]
      exact handle_counted po t cfg.maxHft _ _ _ _
    · simp only [hc, Bool.false_eq_true, ↓reduceIte]; simp [SOut.Counted, countFills]
  · rw [if_neg hp]; exact pure_counted _ _

theorem runStep_counted (po : Nat → PriceOps P) (ms : Markets) (cfg : SessionCfg) (t : Nat) (s : State P)
    (flag : Bool) (tape : StepTape P) : (runStep po ms cfg t s flag tape).Counted s := by
  have h2 := stepBody_counted po cfg t { s with mkt := (stepBefore t tape.resume ms s.mkt flag).2.1 }
    (stepBefore t tape.resume ms s.mkt flag).2.2.1 tape
  have htk := (tickAll_quiet po tape.fund (tickOrder ms)
    (stepBody po cfg t { s with mkt := (stepBefore t tape.resume ms s.mkt flag).2.1 }
      (stepBefore t tape.resume ms s.mkt flag).2.2.1 tape).st.mkt).1
  unfold runStep SOut.Counted at *
  simp only at h2 ⊢
  split
  · simp only [countFills_append, countFills_zero _ htk]
    simpa using h2
  · simpa using h2

theorem runSteps_counted (po : Nat → PriceOps P) (ms : Markets) (cfg : SessionCfg) (t : Nat) (s : State P)
    (flag : Bool) (tapes : List (StepTape P)) (n : Nat) : (runSteps po ms cfg t s flag tapes n).Counted s := by
  induction n generalizing t s flag tapes with
  | zero => exact pure_counted s flag
  | succ n ih =>
    unfold runSteps
    exact andThen_counted s _ _ (runStep_counted po ms cfg t s flag _) (fun s' fl => ih (t + 1) s' fl tapes.tail)

theorem runSession_counted (po : Nat → PriceOps P) (ms : Markets) (k : Nat) (cfg : SessionCfg) (start : Nat)
    (s : State P) (tapes : List (StepTape P)) : (runSession po ms k cfg start s tapes).Counted s := by
  have h := runSteps_counted po ms cfg start
    { s with mkt := setRunnings s.mkt (ms.map (fun m => (m.1, cfg.execution))) } cfg.execution tapes cfg.steps
  unfold runSession SOut.Counted at *
  simp only at h ⊢
  split <;> simpa using h

theorem runSessions_counted (po : Nat → PriceOps P) (ms : Markets) (k start : Nat) (s : State P)
    (cfgs : List SessionCfg) (tapes : List (List (StepTape P))) :
    (runSessions po ms k start s cfgs tapes).Counted s := by
  induction cfgs generalizing k start s tapes with
  | nil => exact pure_counted s false
  | cons cfg cfgs ih =>
    unfold runSessions
    exact andThen_counted s _ _ (runSession_counted po ms k cfg start s _)
      (fun s' _ => ih (k + 1) (start + cfg.steps) s' tapes.tail)

theorem run_counted (po : Nat → PriceOps P) (ms : Markets) (price : Nat → P) (fund0 : Nat → Option P)
    (cfgs : List SessionCfg) (tapes : List (List (StepTape P))) :
    (run po ms price fund0 cfgs tapes).st.nfill = countFills (run po ms price fund0 cfgs tapes).recs := by
  have := runSessions_counted po ms 0 0 (initState po price fund0) cfgs tapes
  simpa [SOut.Counted, run, initState] using this

end Pams.Sim
