/-
Path enumeration of `Market._execution` on a two-buy / one-sell book (see SrcMarket21Defs.lean): priority by price, sell order limit.
-/
import PamsLemmas.EvalNf
import PamsLemmas.SrcMarket21Defs

namespace Pams.Src
open Pams Pams.Py
set_option maxRecDepth 1000000
set_option maxHeartbeats 8000000

theorem exec21_price_t : exec21Paths .price true = evalnf% (exec21Paths .price true) := by kernel_rfl

end Pams.Src
