import PamsLemmas.MatchLemmas
import PamsModel.History

set_option linter.unusedSectionVars false

namespace Pams
variable {P : Type} [LinearOrder P]

/-- the market invariant: both sides well-formed, ids identify orders, storage in step with the
clock -/
structure Inv (m : Market P) : Prop where
  buys : SideInv true m.time m.nextId m.buys
  sells : SideInv false m.time m.nextId m.sells
  disj : ∀ b ∈ m.buys, ∀ s ∈ m.sells, b.id ≠ s.id
  past : m.past.length = m.time

theorem Inv.refresh {m : Market P} (ops : PriceOps P) (h : Inv m) : Inv (m.refresh ops) := by
  unfold Market.refresh
  exact ⟨h.buys, h.sells, h.disj, h.past⟩

theorem inv_init (ops : PriceOps P) (mp : P) (f : Option P) : Inv (Market.init ops mp f) := by
  refine ⟨?_, ?_, ?_, rfl⟩
  · exact ⟨List.Pairwise.nil, by simp [Market.init], by simp [Market.init], by simp [Market.init],
      by simp [Market.init], by simp [Market.init], by simp [Market.init]⟩
  · exact ⟨List.Pairwise.nil, by simp [Market.init], by simp [Market.init], by simp [Market.init],
      by simp [Market.init], by simp [Market.init], by simp [Market.init]⟩
  · simp [Market.init]

theorem inv_addOrder (ops : PriceOps P) (m : Market P) (r : Req P) (h : Inv m) (hv : r.valid) :
    Inv (m.addOrder ops r).1 := by
  unfold Market.addOrder
  cases hb : r.isBuy
  · simp only [hb, Bool.false_eq_true, ↓reduceIte]
    refine ⟨?_, ?_, ?_, ?_⟩
    · exact (h.buys.mono_id (Nat.le_succ _))
    · exact h.sells.insert _ (by simp [hb]) hv rfl rfl
    · intro b hb' s hs
      simp only [Market.refresh] at hb' hs
      rcases (mem_insert _ s m.sells).mp hs with rfl | hs
      · have := h.buys.idlt b hb'; simp; omega
      · exact h.disj b hb' s hs
    · exact h.past
  · simp only [hb, ↓reduceIte]
    refine ⟨?_, ?_, ?_, ?_⟩
    · exact h.buys.insert _ (by simp [hb]) hv rfl rfl
    · exact (h.sells.mono_id (Nat.le_succ _))
    · intro b hb' s hs
      simp only [Market.refresh] at hb' hs
      rcases (mem_insert _ b m.buys).mp hb' with rfl | hb'
      · have := h.sells.idlt s hs; simp; omega
      · exact h.disj b hb' s hs
    · exact h.past

theorem inv_cancel (ops : PriceOps P) (m m' : Market P) (id : Nat) (l : CancelLog P) (h : Inv m)
    (hc : m.cancel ops id = .ok (m', l)) : Inv m' := by
  unfold Market.cancel at hc
  split at hc
  · simp at hc; obtain ⟨rfl, _⟩ := hc
    apply Inv.refresh
    exact ⟨h.buys.filter _, h.sells,
      fun b hb s hs => h.disj b (List.mem_filter.mp hb).1 s hs, h.past⟩
  · split at hc
    · simp at hc; obtain ⟨rfl, _⟩ := hc
      apply Inv.refresh
      exact ⟨h.buys, h.sells.filter _,
        fun b hb s hs => h.disj b hb s (List.mem_filter.mp hs).1, h.past⟩
    · split at hc
      · simp at hc; obtain ⟨rfl, _⟩ := hc
        exact h.refresh ops
      · simp at hc

theorem inv_tick (ops : PriceOps P) (m : Market P) (f : Option P) (h : Inv m) :
    Inv (m.tick ops f).1 := by
  unfold Market.tick
  exact ⟨h.buys.tick, h.sells.tick,
    fun b hb s hs => h.disj b (List.mem_filter.mp hb).1 s (List.mem_filter.mp hs).1,
    by simp [h.past]⟩

theorem inv_setTime (ops : PriceOps P) (m : Market P) (k : Nat) (f : Option P) (h : Inv m) (hk : 1 ≤ k) :
    Inv (m.setTime ops k f).1 := by
  unfold Market.setTime
  refine ⟨h.buys.jump k, h.sells.jump k,
    fun b hb s hs => h.disj b (List.mem_filter.mp hb).1 s (List.mem_filter.mp hs).1, ?_⟩
  simp only [List.length_append, List.length_replicate, List.length_cons, h.past]
  omega

/-- the two ways `_execution` returns normally -/
theorem execution_cases (ops : PriceOps P) (m m' : Market P) (fs : List (Fill P))
    (he : m.execution ops = .ok (m', fs)) :
    (remainExecutable m.buys m.sells = false ∧ m' = m ∧ fs = []) ∨
    (remainExecutable m.buys m.sells = true ∧
      ((walk m.buys m.sells).1 = [] ∨ m.running = true) ∧
      ∃ price, roundPrice (walk m.buys m.sells).1 = some price ∧
        (m', fs) = m.settle ops (walk m.buys m.sells) price) := by
  unfold Market.execution at he
  by_cases h1 : remainExecutable m.buys m.sells = false
  · left
    rw [if_pos h1] at he
    injection he with he
    injection he with h2 h3
    exact ⟨h1, h2.symm, h3.symm⟩
  · right
    rw [if_neg h1] at he
    by_cases h2 : (m.buys.any (fun o => o.vol = 0) || m.sells.any (fun o => o.vol = 0)) = true
    · rw [if_pos h2] at he; cases he
    · rw [if_neg h2] at he
      by_cases h3 : (m.buys.any (fun b => m.sells.any (fun s => b.id = s.id))) = true
      · rw [if_pos h3] at he; cases he
      · rw [if_neg h3] at he
        rcases hrp : roundPrice (walk m.buys m.sells).1 with _ | price
        · rw [hrp] at he; cases he
        · rw [hrp] at he
          simp only [] at he
          by_cases h4 : (walk m.buys m.sells).1 ≠ [] ∧ m.running = false
          · rw [if_pos h4] at he; cases he
          · rw [if_neg h4] at he
            by_cases h5 : remainExecutable (walk m.buys m.sells).2.1 (walk m.buys m.sells).2.2 = true
            · rw [if_pos h5] at he; cases he
            · rw [if_neg h5] at he
              injection he with he
              refine ⟨by simpa using h1, ?_, price, rfl, he.symm⟩
              by_cases h6 : (walk m.buys m.sells).1 = []
              · exact Or.inl h6
              · right
                have : ¬ m.running = false := fun h => h4 ⟨h6, h⟩
                simpa using this

theorem inv_settle (ops : PriceOps P) (m : Market P) (price : P) (h : Inv m) :
    Inv (m.settle ops (walk m.buys m.sells) price).1 := by
  unfold Market.settle
  apply Inv.refresh
  have hr := walk_resid_inv m.time m.nextId m.buys m.sells h.buys h.sells
  refine ⟨hr.1, hr.2, ?_, h.past⟩
  intro b hb s hs
  obtain ⟨b0, hb0, hsb⟩ := (walk_resid_mem m.buys m.sells).1 b hb
  obtain ⟨s0, hs0, hss⟩ := (walk_resid_mem m.buys m.sells).2 s hs
  rw [hsb.1, hss.1]
  exact h.disj b0 hb0 s0 hs0

theorem inv_execution (ops : PriceOps P) (m m' : Market P) (fs : List (Fill P)) (h : Inv m)
    (he : m.execution ops = .ok (m', fs)) : Inv m' := by
  rcases execution_cases ops m m' fs he with ⟨_, rfl, _⟩ | ⟨_, _, price, _, hs⟩
  · exact h
  · have := inv_settle ops m price h
    rw [← hs] at this
    exact this

theorem inv_step (ops : PriceOps P) (m : Market P) (o : Op P) (h : Inv m) (hv : o.valid) :
    Inv (m.step ops o).1 := by
  cases o with
  | add r => exact inv_addOrder ops m r h hv
  | cancel id =>
    simp only [Market.step]
    rcases hc : m.cancel ops id with e | ⟨m', l⟩
    · exact h
    · exact inv_cancel ops m m' id l h hc
  | exec =>
    simp only [Market.step]
    rcases hc : m.execution ops with e | ⟨m', fs⟩
    · exact h
    · exact inv_execution ops m m' fs h hc
  | tick f => exact inv_tick ops m f h
  | jump k f => exact inv_setTime ops m (k + 1) f h (by omega)
  | setRunning b => exact ⟨h.buys, h.sells, h.disj, h.past⟩
  | setFund f => exact ⟨h.buys, h.sells, h.disj, h.past⟩

/-- every state reachable from a state satisfying `Inv` by valid operations satisfies `Inv` -/
theorem inv_runOps (ops : PriceOps P) (m : Market P) (os : List (Op P)) (h : Inv m)
    (hv : ∀ o ∈ os, o.valid) : Inv (m.runOps ops os).1 := by
  induction os generalizing m with
  | nil => exact h
  | cons o os ih =>
    unfold Market.runOps
    exact ih _ (inv_step ops m o h (hv o (by simp))) (fun o' ho' => hv o' (by simp [ho']))

/-- C03: on every state satisfying the invariant a matching round of a running market succeeds
(no `Err` branch is reachable). -/
theorem execution_ok (ops : PriceOps P) (m : Market P) (h : Inv m) (hrun : m.running = true) :
    ∃ r, m.execution ops = .ok r := by
  unfold Market.execution
  by_cases h1 : remainExecutable m.buys m.sells = false
  · rw [if_pos h1]; exact ⟨_, rfl⟩
  · rw [if_neg h1]
    have hex : remainExecutable m.buys m.sells = true := by simpa using h1
    have h2 : ¬ (m.buys.any (fun o => o.vol = 0) || m.sells.any (fun o => o.vol = 0)) = true := by
      intro hz
      simp only [Bool.or_eq_true, List.any_eq_true, decide_eq_true_eq] at hz
      rcases hz with ⟨o, ho, hz⟩ | ⟨o, ho, hz⟩
      · have := h.buys.pos o ho; omega
      · have := h.sells.pos o ho; omega
    have h3 : ¬ (m.buys.any (fun b => m.sells.any (fun s => b.id = s.id))) = true := by
      intro hid
      simp only [List.any_eq_true, decide_eq_true_eq] at hid
      obtain ⟨b, hb, s, hs, e⟩ := hid
      exact h.disj b hb s hs e
    rw [if_neg h2, if_neg h3]
    have hp := roundPrice_some_of_executable m.buys m.sells h.buys.sorted h.sells.sorted hex
    rcases hrp : roundPrice (walk m.buys m.sells).1 with _ | price
    · exact absurd hrp hp
    · simp only []
      have h4 : ¬ ((walk m.buys m.sells).1 ≠ [] ∧ m.running = false) := by
        rw [hrun]; simp
      have h5 : ¬ remainExecutable (walk m.buys m.sells).2.1 (walk m.buys m.sells).2.2 = true := by
        rw [walk_resid_not_executable]; simp
      rw [if_neg h4, if_neg h5]
      exact ⟨_, rfl⟩

end Pams
