/-
`Market._add_order` of the current source = the model's `Market.addOrder`, shape by shape (see
SrcAddDefs.lean for the setting): part 2.
-/
import PamsLemmas.SrcAddPaths2
import PamsLemmas.SrcAddTac

namespace Pams.Src
open Pams Pams.Py
variable {K : Type} [LinearOrder K] [NumOpsC K]
set_option maxRecDepth 100000
set_option maxHeartbeats 1000000

theorem add_src_ftff (m : Market K) (r : Req K) (o : Order K) (tick dflt pr lp mp : K) (tt : Nat)
    (hb : m.buys = []) (hs : m.sells = []) (hside : r.isBuy = false) (hprice : r.price = some pr) (httl : r.ttl = none)
    (ht : m.time = 0) (hl : m.cur.last = none) (hm : m.cur.mid = none) (hmk : m.cur.market = some mp)
    (htick : tick ≠ NumOpsC.ofInt 0) :
    resultG addObs (rhoAdd m r o tick dflt) env XFUEL "Market._add_order" [.ref 5, .ref 1] (stAdd false true false false 0 .none false false)
      = modelAddObs m r (m.addOrder (srcOpsT K tick) r) := by
  rcases m with ⟨time, running, nextId, buys, sells, gone, ⟨cmk, clast, cmid, cfund, cev, cto, cnb, cns⟩, past⟩
  rcases r with ⟨agr, isBuyr, pricer, volr, ttlr⟩
  simp only at hb hs hside hprice httl ht hl hm hmk
  subst hb hs hside hprice httl ht hl hm hmk
  apply resultG_eq_of_pathsP hrefl_order
  show ∀ p ∈ addPaths false true false false 0 .none false false, _
  py_paths addP_ftff
  add_paths_finish

theorem add_src_ftft (m : Market K) (r : Req K) (o : Order K) (tick dflt pr lp mp : K) (tt : Nat)
    (hb : m.buys = []) (hs : m.sells = []) (hside : r.isBuy = false) (hprice : r.price = some pr) (httl : r.ttl = none)
    (ht : m.time = 0) (hl : m.cur.last = some lp) (hm : m.cur.mid = none) (hmk : m.cur.market = some mp)
    (htick : tick ≠ NumOpsC.ofInt 0) :
    resultG addObs (rhoAdd m r o tick dflt) env XFUEL "Market._add_order" [.ref 5, .ref 1] (stAdd false true false false 0 .none true false)
      = modelAddObs m r (m.addOrder (srcOpsT K tick) r) := by
  rcases m with ⟨time, running, nextId, buys, sells, gone, ⟨cmk, clast, cmid, cfund, cev, cto, cnb, cns⟩, past⟩
  rcases r with ⟨agr, isBuyr, pricer, volr, ttlr⟩
  simp only at hb hs hside hprice httl ht hl hm hmk
  subst hb hs hside hprice httl ht hl hm hmk
  apply resultG_eq_of_pathsP hrefl_order
  show ∀ p ∈ addPaths false true false false 0 .none true false, _
  py_paths addP_ftft
  add_paths_finish

theorem add_src_fttf (m : Market K) (r : Req K) (o : Order K) (tick dflt pr lp mp : K) (tt : Nat)
    (hb : m.buys = []) (hs : m.sells = []) (hside : r.isBuy = false) (hprice : r.price = some pr) (httl : r.ttl = some tt)
    (ht : m.time = 0) (hl : m.cur.last = none) (hm : m.cur.mid = none) (hmk : m.cur.market = some mp)
    (htick : tick ≠ NumOpsC.ofInt 0) :
    resultG addObs (rhoAdd m r o tick dflt) env XFUEL "Market._add_order" [.ref 5, .ref 1] (stAdd false true true false 0 .none false false)
      = modelAddObs m r (m.addOrder (srcOpsT K tick) r) := by
  rcases m with ⟨time, running, nextId, buys, sells, gone, ⟨cmk, clast, cmid, cfund, cev, cto, cnb, cns⟩, past⟩
  rcases r with ⟨agr, isBuyr, pricer, volr, ttlr⟩
  simp only at hb hs hside hprice httl ht hl hm hmk
  subst hb hs hside hprice httl ht hl hm hmk
  apply resultG_eq_of_pathsP hrefl_order
  show ∀ p ∈ addPaths false true true false 0 .none false false, _
  py_paths addP_fttf
  add_paths_finish

theorem add_src_fttt (m : Market K) (r : Req K) (o : Order K) (tick dflt pr lp mp : K) (tt : Nat)
    (hb : m.buys = []) (hs : m.sells = []) (hside : r.isBuy = false) (hprice : r.price = some pr) (httl : r.ttl = some tt)
    (ht : m.time = 0) (hl : m.cur.last = some lp) (hm : m.cur.mid = none) (hmk : m.cur.market = some mp)
    (htick : tick ≠ NumOpsC.ofInt 0) :
    resultG addObs (rhoAdd m r o tick dflt) env XFUEL "Market._add_order" [.ref 5, .ref 1] (stAdd false true true false 0 .none true false)
      = modelAddObs m r (m.addOrder (srcOpsT K tick) r) := by
  rcases m with ⟨time, running, nextId, buys, sells, gone, ⟨cmk, clast, cmid, cfund, cev, cto, cnb, cns⟩, past⟩
  rcases r with ⟨agr, isBuyr, pricer, volr, ttlr⟩
  simp only at hb hs hside hprice httl ht hl hm hmk
  subst hb hs hside hprice httl ht hl hm hmk
  apply resultG_eq_of_pathsP hrefl_order
  show ∀ p ∈ addPaths false true true false 0 .none true false, _
  py_paths addP_fttt
  add_paths_finish

theorem add_src_ffff (m : Market K) (r : Req K) (o : Order K) (tick dflt pr lp mp : K) (tt : Nat)
    (hb : m.buys = []) (hs : m.sells = []) (hside : r.isBuy = false) (hprice : r.price = none) (httl : r.ttl = none)
    (ht : m.time = 0) (hl : m.cur.last = none) (hm : m.cur.mid = none) (hmk : m.cur.market = some mp)
    (htick : tick ≠ NumOpsC.ofInt 0) :
    resultG addObs (rhoAdd m r o tick dflt) env XFUEL "Market._add_order" [.ref 5, .ref 1] (stAdd false false false false 0 .none false false)
      = modelAddObs m r (m.addOrder (srcOpsT K tick) r) := by
  rcases m with ⟨time, running, nextId, buys, sells, gone, ⟨cmk, clast, cmid, cfund, cev, cto, cnb, cns⟩, past⟩
  rcases r with ⟨agr, isBuyr, pricer, volr, ttlr⟩
  simp only at hb hs hside hprice httl ht hl hm hmk
  subst hb hs hside hprice httl ht hl hm hmk
  apply resultG_eq_of_pathsP hrefl_order
  show ∀ p ∈ addPaths false false false false 0 .none false false, _
  py_paths addP_ffff
  add_paths_finish

theorem add_src_ffft (m : Market K) (r : Req K) (o : Order K) (tick dflt pr lp mp : K) (tt : Nat)
    (hb : m.buys = []) (hs : m.sells = []) (hside : r.isBuy = false) (hprice : r.price = none) (httl : r.ttl = none)
    (ht : m.time = 0) (hl : m.cur.last = some lp) (hm : m.cur.mid = none) (hmk : m.cur.market = some mp)
    (htick : tick ≠ NumOpsC.ofInt 0) :
    resultG addObs (rhoAdd m r o tick dflt) env XFUEL "Market._add_order" [.ref 5, .ref 1] (stAdd false false false false 0 .none true false)
      = modelAddObs m r (m.addOrder (srcOpsT K tick) r) := by
  rcases m with ⟨time, running, nextId, buys, sells, gone, ⟨cmk, clast, cmid, cfund, cev, cto, cnb, cns⟩, past⟩
  rcases r with ⟨agr, isBuyr, pricer, volr, ttlr⟩
  simp only at hb hs hside hprice httl ht hl hm hmk
  subst hb hs hside hprice httl ht hl hm hmk
  apply resultG_eq_of_pathsP hrefl_order
  show ∀ p ∈ addPaths false false false false 0 .none true false, _
  py_paths addP_ffft
  add_paths_finish

theorem add_src_fftf (m : Market K) (r : Req K) (o : Order K) (tick dflt pr lp mp : K) (tt : Nat)
    (hb : m.buys = []) (hs : m.sells = []) (hside : r.isBuy = false) (hprice : r.price = none) (httl : r.ttl = some tt)
    (ht : m.time = 0) (hl : m.cur.last = none) (hm : m.cur.mid = none) (hmk : m.cur.market = some mp)
    (htick : tick ≠ NumOpsC.ofInt 0) :
    resultG addObs (rhoAdd m r o tick dflt) env XFUEL "Market._add_order" [.ref 5, .ref 1] (stAdd false false true false 0 .none false false)
      = modelAddObs m r (m.addOrder (srcOpsT K tick) r) := by
  rcases m with ⟨time, running, nextId, buys, sells, gone, ⟨cmk, clast, cmid, cfund, cev, cto, cnb, cns⟩, past⟩
  rcases r with ⟨agr, isBuyr, pricer, volr, ttlr⟩
  simp only at hb hs hside hprice httl ht hl hm hmk
  subst hb hs hside hprice httl ht hl hm hmk
  apply resultG_eq_of_pathsP hrefl_order
  show ∀ p ∈ addPaths false false true false 0 .none false false, _
  py_paths addP_fftf
  add_paths_finish

theorem add_src_fftt (m : Market K) (r : Req K) (o : Order K) (tick dflt pr lp mp : K) (tt : Nat)
    (hb : m.buys = []) (hs : m.sells = []) (hside : r.isBuy = false) (hprice : r.price = none) (httl : r.ttl = some tt)
    (ht : m.time = 0) (hl : m.cur.last = some lp) (hm : m.cur.mid = none) (hmk : m.cur.market = some mp)
    (htick : tick ≠ NumOpsC.ofInt 0) :
    resultG addObs (rhoAdd m r o tick dflt) env XFUEL "Market._add_order" [.ref 5, .ref 1] (stAdd false false true false 0 .none true false)
      = modelAddObs m r (m.addOrder (srcOpsT K tick) r) := by
  rcases m with ⟨time, running, nextId, buys, sells, gone, ⟨cmk, clast, cmid, cfund, cev, cto, cnb, cns⟩, past⟩
  rcases r with ⟨agr, isBuyr, pricer, volr, ttlr⟩
  simp only at hb hs hside hprice httl ht hl hm hmk
  subst hb hs hside hprice httl ht hl hm hmk
  apply resultG_eq_of_pathsP hrefl_order
  show ∀ p ∈ addPaths false false true false 0 .none true false, _
  py_paths addP_fftt
  add_paths_finish

end Pams.Src
