/-
Path enumerations of `Market._cancel_order` (see SrcCancelDefs.lean): `nf%` computes the pruned paths of
the symbolic run of the *current* translated source, `rfl` makes the kernel re-check them.
-/
import PamsLemmas.EvalNf
import PamsLemmas.SrcCancelDefs

namespace Pams.Src
open Pams Pams.Py
set_option maxRecDepth 1000000

theorem cancelP_ft_alone : cancelPaths false true .alone = evalnf% (cancelPaths false true .alone) := by kernel_rfl
theorem cancelP_ft_top : cancelPaths false true .top = evalnf% (cancelPaths false true .top) := by kernel_rfl
theorem cancelP_ft_second : cancelPaths false true .second = evalnf% (cancelPaths false true .second) := by kernel_rfl
theorem cancelP_ft_goneEmpty : cancelPaths false true .goneEmpty = evalnf% (cancelPaths false true .goneEmpty) := by kernel_rfl
theorem cancelP_ft_goneOther : cancelPaths false true .goneOther = evalnf% (cancelPaths false true .goneOther) := by kernel_rfl
theorem cancelP_ff_alone : cancelPaths false false .alone = evalnf% (cancelPaths false false .alone) := by kernel_rfl
theorem cancelP_ff_top : cancelPaths false false .top = evalnf% (cancelPaths false false .top) := by kernel_rfl
theorem cancelP_ff_second : cancelPaths false false .second = evalnf% (cancelPaths false false .second) := by kernel_rfl
theorem cancelP_ff_goneEmpty : cancelPaths false false .goneEmpty = evalnf% (cancelPaths false false .goneEmpty) := by kernel_rfl
theorem cancelP_ff_goneOther : cancelPaths false false .goneOther = evalnf% (cancelPaths false false .goneOther) := by kernel_rfl

end Pams.Src
