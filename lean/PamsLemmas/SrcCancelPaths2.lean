/-
Path enumerations of `Market._cancel_order` (see SrcCancelDefs.lean): `nf%` computes the pruned paths of
the symbolic run of the *current* translated source, `rfl` makes the kernel re-check them.
-/
import PamsLemmas.SrcCancelDefs

namespace Pams.Src
open Pams Pams.Py
set_option maxRecDepth 1000000

theorem cancelP_ft_alone : cancelPaths false true .alone = nf% (cancelPaths false true .alone) := by rfl
theorem cancelP_ft_top : cancelPaths false true .top = nf% (cancelPaths false true .top) := by rfl
theorem cancelP_ft_second : cancelPaths false true .second = nf% (cancelPaths false true .second) := by rfl
theorem cancelP_ft_goneEmpty : cancelPaths false true .goneEmpty = nf% (cancelPaths false true .goneEmpty) := by rfl
theorem cancelP_ft_goneOther : cancelPaths false true .goneOther = nf% (cancelPaths false true .goneOther) := by rfl
theorem cancelP_ff_alone : cancelPaths false false .alone = nf% (cancelPaths false false .alone) := by rfl
theorem cancelP_ff_top : cancelPaths false false .top = nf% (cancelPaths false false .top) := by rfl
theorem cancelP_ff_second : cancelPaths false false .second = nf% (cancelPaths false false .second) := by rfl
theorem cancelP_ff_goneEmpty : cancelPaths false false .goneEmpty = nf% (cancelPaths false false .goneEmpty) := by rfl
theorem cancelP_ff_goneOther : cancelPaths false false .goneOther = nf% (cancelPaths false false .goneOther) := by rfl

end Pams.Src
