import PamsLemmas.BookLemmas
import PamsModel.Match

set_option linter.unusedSectionVars false

namespace Pams
variable {P : Type} [LinearOrder P]

/-- replacing the head's volume by another positive volume keeps the side invariant -/
theorem SideInv.setHeadVol {side : Bool} {t n : Nat} {b : Order P} {bs : List (Order P)}
    (h : SideInv side t n (b :: bs)) (v : Nat) (hv : 0 < v) :
    SideInv side t n ({ b with vol := v } :: bs) where
  sorted := by
    have := List.pairwise_cons.mp h.sorted
    exact List.pairwise_cons.mpr ⟨fun z hz => this.1 z hz, this.2⟩
  side := fun o ho => by
    rcases List.mem_cons.mp ho with rfl | ho
    · exact h.side b (by simp)
    · exact h.side o (by simp [ho])
  pos := fun o ho => by
    rcases List.mem_cons.mp ho with rfl | ho
    · exact hv
    · exact h.pos o (by simp [ho])
  idlt := fun o ho => by
    rcases List.mem_cons.mp ho with rfl | ho
    · exact h.idlt b (by simp)
    · exact h.idlt o (by simp [ho])
  nodup := by simpa using h.nodup
  placed := fun o ho => by
    rcases List.mem_cons.mp ho with rfl | ho
    · exact h.placed b (by simp)
    · exact h.placed o (by simp [ho])
  alive := fun o ho => by
    rcases List.mem_cons.mp ho with rfl | ho
    · exact h.alive b (by simp)
    · exact h.alive o (by simp [ho])

theorem SideInv.tail {side : Bool} {t n : Nat} {b : Order P} {bs : List (Order P)}
    (h : SideInv side t n (b :: bs)) : SideInv side t n bs where
  sorted := (List.pairwise_cons.mp h.sorted).2
  side := fun o ho => h.side o (by simp [ho])
  pos := fun o ho => h.pos o (by simp [ho])
  idlt := fun o ho => h.idlt o (by simp [ho])
  nodup := by have := h.nodup; simp only [List.map_cons, List.nodup_cons] at this; exact this.2
  placed := fun o ho => h.placed o (by simp [ho])
  alive := fun o ho => h.alive o (by simp [ho])

/-- the residual sides of a walk keep the side invariants -/
theorem walk_resid_inv (t n : Nat) (bs ss : List (Order P))
    (hb : SideInv true t n bs) (hs : SideInv false t n ss) :
    SideInv true t n (walk bs ss).2.1 ∧ SideInv false t n (walk bs ss).2.2 := by
  fun_induction walk bs ss with
  | case1 b bs s ss hnc => exact ⟨hb, hs⟩
  | case2 b bs s ss hnc hlt r ih =>
    have hpos : 0 < s.vol - b.vol := by omega
    exact ih hb.tail (hs.setHeadVol _ hpos)
  | case3 b bs s ss hnc hnlt hlt r ih =>
    have hpos : 0 < b.vol - s.vol := by omega
    exact ih (hb.setHeadVol _ hpos) hs.tail
  | case4 b bs s ss hnc hnlt hnlt2 r ih => exact ih hb.tail hs.tail
  | case5 ss => exact ⟨hb, hs⟩
  | case6 bs hne => exact ⟨hb, hs⟩

/-- C03 core: whatever the input, the residual book of a walk is not executable. -/
theorem walk_resid_not_executable (bs ss : List (Order P)) :
    remainExecutable (walk bs ss).2.1 (walk bs ss).2.2 = false := by
  fun_induction walk bs ss with
  | case1 b bs s ss hnc =>
    unfold noCross at hnc
    unfold remainExecutable
    rcases hb : b.price with _ | pb <;> rcases hs : s.price with _ | ps <;> simp [hb, hs] at hnc ⊢
    exact hnc
  | case2 b bs s ss hnc hlt r ih => exact ih
  | case3 b bs s ss hnc hnlt hlt r ih => exact ih
  | case4 b bs s ss hnc hnlt hnlt2 r ih => exact ih
  | case5 ss => cases ss <;> simp [remainExecutable]
  | case6 bs hne => cases bs <;> simp [remainExecutable]


/-- `p` respects the buyer's limit (market orders impose no bound) -/
def bidOK (p : P) (b : Order P) : Prop := ∀ pb, b.price = some pb → p ≤ pb
/-- `p` respects the seller's limit -/
def askOK (p : P) (s : Order P) : Prop := ∀ ps, s.price = some ps → ps ≤ p

theorem bidOK_of_lt (p : P) (a b : Order P) (ha : a.isBuy = true)
    (hlt : a.lt b = true) (hb : bidOK p b) : bidOK p a := by
  intro pa hpa
  rw [lt_iff_ranksBefore] at hlt
  unfold ranksBefore at hlt
  rcases hbp : b.price with _ | pb
  · simp [hpa, hbp] at hlt
  · have := hb pb hbp
    simp [hpa, hbp, ha] at hlt
    rcases hlt with h | ⟨rfl, _⟩
    · exact le_of_lt (lt_of_le_of_lt this h)
    · exact this

theorem askOK_of_lt (p : P) (a b : Order P) (ha : a.isBuy = false)
    (hlt : a.lt b = true) (hb : askOK p b) : askOK p a := by
  intro pa hpa
  rw [lt_iff_ranksBefore] at hlt
  unfold ranksBefore at hlt
  rcases hbp : b.price with _ | pb
  · simp [hpa, hbp] at hlt
  · have := hb pb hbp
    simp [hpa, hbp, ha] at hlt
    rcases hlt with h | ⟨rfl, _⟩
    · exact le_of_lt (lt_of_lt_of_le h this)
    · exact this

theorem pairPrice_none (b s : Order P) (h : pairPrice b s = none) :
    b.price = none ∧ s.price = none := by
  unfold pairPrice at h
  rcases hb : b.price with _ | pb <;> rcases hs : s.price with _ | ps <;> simp [hb, hs] at h ⊢
  split at h <;> (try split at h) <;> simp at h

theorem pairPrice_ok (b s : Order P) (p : P) (h : pairPrice b s = some p)
    (hnc : noCross b s = false) : bidOK p b ∧ askOK p s := by
  unfold pairPrice at h
  unfold noCross at hnc
  unfold bidOK askOK
  rcases hb : b.price with _ | pb <;> rcases hs : s.price with _ | ps <;>
    simp [hb, hs] at h hnc ⊢
  · exact le_of_eq h
  · exact le_of_eq h.symm
  · split at h
    · split at h <;> simp at h <;> subst h <;> simp [hnc]
    · split at h <;> simp at h <;> subst h <;> simp [hnc]

theorem roundPrice_none (ps : List (Pair P)) (h : roundPrice ps = none) :
    ∀ pr ∈ ps, pairPrice pr.b pr.s = none := by
  induction ps with
  | nil => simp
  | cons q qs ih =>
    unfold roundPrice at h
    rcases hq : roundPrice qs with _ | x
    · simp [hq] at h
      intro pr hpr
      rcases List.mem_cons.mp hpr with rfl | hpr
      · exact h
      · exact ih hq pr hpr
    · simp [hq] at h

theorem roundPrice_nil_none : roundPrice ([] : List (Pair P)) = none := rfl

theorem walk_nil_left (ss : List (Order P)) : (walk ([] : List (Order P)) ss).1 = [] := by
  unfold walk; rfl

theorem walk_nil_right (bs : List (Order P)) : (walk bs ([] : List (Order P))).1 = [] := by
  cases bs <;> (unfold walk; rfl)

/-- C01 core: on sorted sides the round price respects the limit of *every* matched order. -/
theorem walk_price_bound (bs ss : List (Order P)) (p : P)
    (hbs : Sorted bs) (hss : Sorted ss)
    (hbside : ∀ o ∈ bs, o.isBuy = true) (hsside : ∀ o ∈ ss, o.isBuy = false)
    (hp : roundPrice (walk bs ss).1 = some p) :
    (∀ pr ∈ (walk bs ss).1, bidOK p pr.b ∧ askOK p pr.s) ∧
      (∀ b0 ∈ bs.head?, bidOK p b0) ∧ (∀ s0 ∈ ss.head?, askOK p s0) := by
  fun_induction walk bs ss with
  | case1 b bs s ss hnc => simp [roundPrice] at hp
  | case5 ss => simp [roundPrice] at hp
  | case6 bs hne => simp [roundPrice] at hp
  | case2 b bs s ss hnc hlt r ih =>
    have hbs' := List.pairwise_cons.mp hbs
    have hss' := List.pairwise_cons.mp hss
    simp only [roundPrice] at hp
    rcases hr : roundPrice r.1 with _ | x
    · -- the head pair sets the price; the rest is market/market
      simp only [r] at hr
      rw [hr] at hp
      simp at hp
      have hok := pairPrice_ok b s p hp (by simpa using hnc)
      refine ⟨?_, by simpa using hok.1, by simpa using hok.2⟩
      intro pr hpr
      rcases List.mem_cons.mp hpr with rfl | hpr
      · exact hok
      · have hn := pairPrice_none _ _ (roundPrice_none _ hr pr hpr)
        exact ⟨fun pb h => by simp [hn.1] at h, fun ps h => by simp [hn.2] at h⟩
    · simp only [r] at hr
      rw [hr] at hp
      simp at hp
      subst hp
      have hss2 : Sorted ({ s with vol := s.vol - b.vol } :: ss) :=
        List.pairwise_cons.mpr ⟨fun z hz => hss'.1 z hz, hss'.2⟩
      have ih' := ih hbs'.2 hss2 (fun o ho => hbside o (by simp [ho]))
        (fun o ho => by
          rcases List.mem_cons.mp ho with rfl | ho
          · exact hsside s (by simp)
          · exact hsside o (by simp [ho])) hr
      have hs_ok : askOK x s := by
        have := ih'.2.2 { s with vol := s.vol - b.vol } (by simp)
        exact fun ps h => this ps h
      have hb_ok : bidOK x b := by
        cases bs with
        | nil => rw [walk_nil_left] at hr; simp [roundPrice] at hr
        | cons b2 bs2 =>
          have := ih'.2.1 b2 (by simp)
          exact bidOK_of_lt x b b2 (hbside b (by simp)) (hbs'.1 b2 (by simp)) this
      refine ⟨?_, by simpa using hb_ok, by simpa using hs_ok⟩
      intro pr hpr
      rcases List.mem_cons.mp hpr with rfl | hpr
      · exact ⟨hb_ok, hs_ok⟩
      · exact ih'.1 pr hpr
  | case3 b bs s ss hnc hnlt hlt r ih =>
    have hbs' := List.pairwise_cons.mp hbs
    have hss' := List.pairwise_cons.mp hss
    simp only [roundPrice] at hp
    rcases hr : roundPrice r.1 with _ | x
    · simp only [r] at hr
      rw [hr] at hp
      simp at hp
      have hok := pairPrice_ok b s p hp (by simpa using hnc)
      refine ⟨?_, by simpa using hok.1, by simpa using hok.2⟩
      intro pr hpr
      rcases List.mem_cons.mp hpr with rfl | hpr
      · exact hok
      · have hn := pairPrice_none _ _ (roundPrice_none _ hr pr hpr)
        exact ⟨fun pb h => by simp [hn.1] at h, fun ps h => by simp [hn.2] at h⟩
    · simp only [r] at hr
      rw [hr] at hp
      simp at hp
      subst hp
      have hbs2 : Sorted ({ b with vol := b.vol - s.vol } :: bs) :=
        List.pairwise_cons.mpr ⟨fun z hz => hbs'.1 z hz, hbs'.2⟩
      have ih' := ih hbs2 hss'.2
        (fun o ho => by
          rcases List.mem_cons.mp ho with rfl | ho
          · exact hbside b (by simp)
          · exact hbside o (by simp [ho]))
        (fun o ho => hsside o (by simp [ho])) hr
      have hb_ok : bidOK x b := by
        have := ih'.2.1 { b with vol := b.vol - s.vol } (by simp)
        exact fun pb h => this pb h
      have hs_ok : askOK x s := by
        cases ss with
        | nil => rw [walk_nil_right] at hr; simp [roundPrice] at hr
        | cons s2 ss2 =>
          have := ih'.2.2 s2 (by simp)
          exact askOK_of_lt x s s2 (hsside s (by simp)) (hss'.1 s2 (by simp)) this
      refine ⟨?_, by simpa using hb_ok, by simpa using hs_ok⟩
      intro pr hpr
      rcases List.mem_cons.mp hpr with rfl | hpr
      · exact ⟨hb_ok, hs_ok⟩
      · exact ih'.1 pr hpr
  | case4 b bs s ss hnc hnlt hnlt2 r ih =>
    have hbs' := List.pairwise_cons.mp hbs
    have hss' := List.pairwise_cons.mp hss
    simp only [roundPrice] at hp
    rcases hr : roundPrice r.1 with _ | x
    · simp only [r] at hr
      rw [hr] at hp
      simp at hp
      have hok := pairPrice_ok b s p hp (by simpa using hnc)
      refine ⟨?_, by simpa using hok.1, by simpa using hok.2⟩
      intro pr hpr
      rcases List.mem_cons.mp hpr with rfl | hpr
      · exact hok
      · have hn := pairPrice_none _ _ (roundPrice_none _ hr pr hpr)
        exact ⟨fun pb h => by simp [hn.1] at h, fun ps h => by simp [hn.2] at h⟩
    · simp only [r] at hr
      rw [hr] at hp
      simp at hp
      subst hp
      have ih' := ih hbs'.2 hss'.2 (fun o ho => hbside o (by simp [ho]))
        (fun o ho => hsside o (by simp [ho])) hr
      have hb_ok : bidOK x b := by
        cases bs with
        | nil => rw [walk_nil_left] at hr; simp [roundPrice] at hr
        | cons b2 bs2 =>
          have := ih'.2.1 b2 (by simp)
          exact bidOK_of_lt x b b2 (hbside b (by simp)) (hbs'.1 b2 (by simp)) this
      have hs_ok : askOK x s := by
        cases ss with
        | nil => rw [walk_nil_right] at hr; simp [roundPrice] at hr
        | cons s2 ss2 =>
          have := ih'.2.2 s2 (by simp)
          exact askOK_of_lt x s s2 (hsside s (by simp)) (hss'.1 s2 (by simp)) this
      refine ⟨?_, by simpa using hb_ok, by simpa using hs_ok⟩
      intro pr hpr
      rcases List.mem_cons.mp hpr with rfl | hpr
      · exact ⟨hb_ok, hs_ok⟩
      · exact ih'.1 pr hpr


/-- total volume of the entries of `l` with id `id` -/
def volOf (id : Nat) (l : List (Order P)) : Nat :=
  (l.map (fun o => if o.id = id then o.vol else 0)).sum

/-- total volume matched for buy order `id` / sell order `id` in a list of pairs -/
def buyFilled (id : Nat) (ps : List (Pair P)) : Nat :=
  (ps.map (fun pr => if pr.b.id = id then pr.vol else 0)).sum
def sellFilled (id : Nat) (ps : List (Pair P)) : Nat :=
  (ps.map (fun pr => if pr.s.id = id then pr.vol else 0)).sum

/-- C04 core: the walk conserves every order's volume: what it had = what was matched + what
remains. -/
theorem walk_conserve (bs ss : List (Order P)) (id : Nat) :
    volOf id bs = buyFilled id (walk bs ss).1 + volOf id (walk bs ss).2.1 ∧
    volOf id ss = sellFilled id (walk bs ss).1 + volOf id (walk bs ss).2.2 := by
  fun_induction walk bs ss with
  | case1 b bs s ss hnc => simp [buyFilled, sellFilled]
  | case5 ss => simp [buyFilled, sellFilled]
  | case6 bs hne => simp [buyFilled, sellFilled]
  | case2 b bs s ss hnc hlt r ih =>
    simp only [volOf, buyFilled, sellFilled, List.map_cons, List.sum_cons, r] at ih ⊢
    constructor
    · rw [ih.1]; omega
    · by_cases h : s.id = id <;> simp [h] at ih ⊢ <;> omega
  | case3 b bs s ss hnc hnlt hlt r ih =>
    simp only [volOf, buyFilled, sellFilled, List.map_cons, List.sum_cons, r] at ih ⊢
    constructor
    · by_cases h : b.id = id <;> simp [h] at ih ⊢ <;> omega
    · rw [ih.2]; omega
  | case4 b bs s ss hnc hnlt hnlt2 r ih =>
    simp only [volOf, buyFilled, sellFilled, List.map_cons, List.sum_cons, r] at ih ⊢
    have : b.vol = s.vol := by omega
    constructor
    · rw [ih.1]; omega
    · rw [ih.2]; by_cases h : s.id = id <;> simp [h, this]; omega

/-- same order up to its (remaining) volume -/
def sameOrder (a b : Order P) : Prop :=
  a.id = b.id ∧ a.agent = b.agent ∧ a.isBuy = b.isBuy ∧ a.price = b.price ∧
    a.placedAt = b.placedAt ∧ a.ttl = b.ttl

theorem sameOrder_refl (a : Order P) : sameOrder a a := ⟨rfl, rfl, rfl, rfl, rfl, rfl⟩

theorem sameOrder_lt_left {a a' : Order P} (h : sameOrder a a') (c : Order P) :
    a.lt c = a'.lt c := by
  obtain ⟨_, _, h3, h4, h5, _⟩ := h
  unfold Order.lt gtLt cmpPlaced
  rw [h3, h4, h5]
  rcases a'.price with _ | _ <;> rcases c.price with _ | _ <;> simp <;> grind

/-- C01(a): every pair names a buy order of the buy side and a sell order of the sell side (up to
remaining volume), and matched volumes are positive when resting volumes are. -/
theorem walk_pairs_mem (bs ss : List (Order P)) :
    ∀ pr ∈ (walk bs ss).1, (∃ b ∈ bs, sameOrder pr.b b) ∧ (∃ s ∈ ss, sameOrder pr.s s) := by
  fun_induction walk bs ss with
  | case1 b bs s ss hnc => simp
  | case5 ss => simp
  | case6 bs hne => simp
  | case2 b bs s ss hnc hlt r ih =>
    intro pr hpr
    rcases List.mem_cons.mp hpr with rfl | hpr
    · exact ⟨⟨b, by simp, sameOrder_refl _⟩, ⟨s, by simp, sameOrder_refl _⟩⟩
    · obtain ⟨⟨b', hb', hsb⟩, ⟨s', hs', hss⟩⟩ := ih pr hpr
      refine ⟨⟨b', by simp [hb'], hsb⟩, ?_⟩
      rcases List.mem_cons.mp hs' with rfl | hs'
      · exact ⟨s, by simp, hss⟩
      · exact ⟨s', by simp [hs'], hss⟩
  | case3 b bs s ss hnc hnlt hlt r ih =>
    intro pr hpr
    rcases List.mem_cons.mp hpr with rfl | hpr
    · exact ⟨⟨b, by simp, sameOrder_refl _⟩, ⟨s, by simp, sameOrder_refl _⟩⟩
    · obtain ⟨⟨b', hb', hsb⟩, ⟨s', hs', hss⟩⟩ := ih pr hpr
      refine ⟨?_, ⟨s', by simp [hs'], hss⟩⟩
      rcases List.mem_cons.mp hb' with rfl | hb'
      · exact ⟨b, by simp, hsb⟩
      · exact ⟨b', by simp [hb'], hsb⟩
  | case4 b bs s ss hnc hnlt hnlt2 r ih =>
    intro pr hpr
    rcases List.mem_cons.mp hpr with rfl | hpr
    · exact ⟨⟨b, by simp, sameOrder_refl _⟩, ⟨s, by simp, sameOrder_refl _⟩⟩
    · obtain ⟨⟨b', hb', hsb⟩, ⟨s', hs', hss⟩⟩ := ih pr hpr
      exact ⟨⟨b', by simp [hb'], hsb⟩, ⟨s', by simp [hs'], hss⟩⟩

/-- residual orders are input orders up to volume -/
theorem walk_resid_mem (bs ss : List (Order P)) :
    (∀ y ∈ (walk bs ss).2.1, ∃ b ∈ bs, sameOrder y b) ∧
    (∀ y ∈ (walk bs ss).2.2, ∃ s ∈ ss, sameOrder y s) := by
  fun_induction walk bs ss with
  | case1 b bs s ss hnc => exact ⟨fun y hy => ⟨y, hy, sameOrder_refl _⟩, fun y hy => ⟨y, hy, sameOrder_refl _⟩⟩
  | case5 ss => exact ⟨fun y hy => ⟨y, hy, sameOrder_refl _⟩, fun y hy => ⟨y, hy, sameOrder_refl _⟩⟩
  | case6 bs hne => exact ⟨fun y hy => ⟨y, hy, sameOrder_refl _⟩, fun y hy => ⟨y, hy, sameOrder_refl _⟩⟩
  | case2 b bs s ss hnc hlt r ih =>
    refine ⟨fun y hy => ?_, fun y hy => ?_⟩
    · obtain ⟨b', hb', h⟩ := ih.1 y hy
      exact ⟨b', by simp [hb'], h⟩
    · obtain ⟨s', hs', h⟩ := ih.2 y hy
      rcases List.mem_cons.mp hs' with rfl | hs'
      · exact ⟨s, by simp, h⟩
      · exact ⟨s', by simp [hs'], h⟩
  | case3 b bs s ss hnc hnlt hlt r ih =>
    refine ⟨fun y hy => ?_, fun y hy => ?_⟩
    · obtain ⟨b', hb', h⟩ := ih.1 y hy
      rcases List.mem_cons.mp hb' with rfl | hb'
      · exact ⟨b, by simp, h⟩
      · exact ⟨b', by simp [hb'], h⟩
    · obtain ⟨s', hs', h⟩ := ih.2 y hy
      exact ⟨s', by simp [hs'], h⟩
  | case4 b bs s ss hnc hnlt hnlt2 r ih =>
    refine ⟨fun y hy => ?_, fun y hy => ?_⟩
    · obtain ⟨b', hb', h⟩ := ih.1 y hy
      exact ⟨b', by simp [hb'], h⟩
    · obtain ⟨s', hs', h⟩ := ih.2 y hy
      exact ⟨s', by simp [hs'], h⟩


theorem sorted_setHeadVol {b : Order P} {bs : List (Order P)} (h : Sorted (b :: bs)) (v : Nat) :
    Sorted ({ b with vol := v } :: bs) := by
  have := List.pairwise_cons.mp h
  exact List.pairwise_cons.mpr ⟨fun z hz => this.1 z hz, this.2⟩

/-- an element of a sorted side never outranks the head -/
theorem not_lt_head (side : Bool) (b : Order P) (bs : List (Order P)) (h : Sorted (b :: bs))
    (hside : ∀ o ∈ b :: bs, o.isBuy = side) (y : Order P)
    (hy : ∃ y0 ∈ b :: bs, sameOrder y y0) : y.lt b = false := by
  obtain ⟨y0, hy0, hso⟩ := hy
  rw [sameOrder_lt_left hso]
  rcases List.mem_cons.mp hy0 with rfl | hy0
  · exact olt_irrefl _
  · have := (List.pairwise_cons.mp h).1 y0 hy0
    exact olt_asymm b y0 (by rw [hside b (by simp), hside y0 (by simp [hy0])]) this

/-- C02 core (buy side): nobody left in the residual book outranks an order that was matched. -/
theorem walk_priority_buy (bs ss : List (Order P)) (hbs : Sorted bs)
    (hside : ∀ o ∈ bs, o.isBuy = true) :
    ∀ pr ∈ (walk bs ss).1, ∀ y ∈ (walk bs ss).2.1, y.lt pr.b = false := by
  fun_induction walk bs ss with
  | case1 b bs s ss hnc => simp
  | case5 ss => simp
  | case6 bs hne => simp
  | case2 b bs s ss hnc hlt r ih =>
    intro pr hpr y hy
    rcases List.mem_cons.mp hpr with rfl | hpr
    · obtain ⟨y0, hy0, hso⟩ := (walk_resid_mem bs _).1 y hy
      exact not_lt_head true b bs hbs hside y ⟨y0, by simp [hy0], hso⟩
    · exact ih (List.pairwise_cons.mp hbs).2 (fun o ho => hside o (by simp [ho])) pr hpr y hy
  | case3 b bs s ss hnc hnlt hlt r ih =>
    intro pr hpr y hy
    rcases List.mem_cons.mp hpr with rfl | hpr
    · obtain ⟨y0, hy0, hso⟩ := (walk_resid_mem _ ss).1 y hy
      refine not_lt_head true b bs hbs hside y ?_
      rcases List.mem_cons.mp hy0 with rfl | hy0
      · exact ⟨b, by simp, hso⟩
      · exact ⟨y0, by simp [hy0], hso⟩
    · refine ih (sorted_setHeadVol hbs _) (fun o ho => ?_) pr hpr y hy
      rcases List.mem_cons.mp ho with rfl | ho
      · exact hside b (by simp)
      · exact hside o (by simp [ho])
  | case4 b bs s ss hnc hnlt hnlt2 r ih =>
    intro pr hpr y hy
    rcases List.mem_cons.mp hpr with rfl | hpr
    · obtain ⟨y0, hy0, hso⟩ := (walk_resid_mem bs ss).1 y hy
      exact not_lt_head true b bs hbs hside y ⟨y0, by simp [hy0], hso⟩
    · exact ih (List.pairwise_cons.mp hbs).2 (fun o ho => hside o (by simp [ho])) pr hpr y hy

/-- C02 core (sell side). -/
theorem walk_priority_sell (bs ss : List (Order P)) (hss : Sorted ss)
    (hside : ∀ o ∈ ss, o.isBuy = false) :
    ∀ pr ∈ (walk bs ss).1, ∀ y ∈ (walk bs ss).2.2, y.lt pr.s = false := by
  fun_induction walk bs ss with
  | case1 b bs s ss hnc => simp
  | case5 ss => simp
  | case6 bs hne => simp
  | case2 b bs s ss hnc hlt r ih =>
    intro pr hpr y hy
    rcases List.mem_cons.mp hpr with rfl | hpr
    · obtain ⟨y0, hy0, hso⟩ := (walk_resid_mem bs _).2 y hy
      refine not_lt_head false s ss hss hside y ?_
      rcases List.mem_cons.mp hy0 with rfl | hy0
      · exact ⟨s, by simp, hso⟩
      · exact ⟨y0, by simp [hy0], hso⟩
    · refine ih (sorted_setHeadVol hss _) (fun o ho => ?_) pr hpr y hy
      rcases List.mem_cons.mp ho with rfl | ho
      · exact hside s (by simp)
      · exact hside o (by simp [ho])
  | case3 b bs s ss hnc hnlt hlt r ih =>
    intro pr hpr y hy
    rcases List.mem_cons.mp hpr with rfl | hpr
    · obtain ⟨y0, hy0, hso⟩ := (walk_resid_mem _ ss).2 y hy
      exact not_lt_head false s ss hss hside y ⟨y0, by simp [hy0], hso⟩
    · exact ih (List.pairwise_cons.mp hss).2 (fun o ho => hside o (by simp [ho])) pr hpr y hy
  | case4 b bs s ss hnc hnlt hnlt2 r ih =>
    intro pr hpr y hy
    rcases List.mem_cons.mp hpr with rfl | hpr
    · obtain ⟨y0, hy0, hso⟩ := (walk_resid_mem bs ss).2 y hy
      exact not_lt_head false s ss hss hside y ⟨y0, by simp [hy0], hso⟩
    · exact ih (List.pairwise_cons.mp hss).2 (fun o ho => hside o (by simp [ho])) pr hpr y hy


/-! ### The round always finds a price when the book is executable (C03 "never fails") -/

/-- some matched pair has a limit side -/
def hasLimitPair (ps : List (Pair P)) : Prop :=
  ∃ pr ∈ ps, pr.b.price ≠ none ∨ pr.s.price ≠ none

theorem roundPrice_some_of_hasLimitPair (ps : List (Pair P)) (h : hasLimitPair ps) :
    roundPrice ps ≠ none := by
  intro hn
  obtain ⟨pr, hpr, hl⟩ := h
  have := pairPrice_none _ _ (roundPrice_none ps hn pr hpr)
  rcases hl with hl | hl
  · exact hl this.1
  · exact hl this.2

theorem hasLimitPair_cons_of (p : Pair P) (ps : List (Pair P)) (h : hasLimitPair ps) :
    hasLimitPair (p :: ps) := by
  obtain ⟨pr, hpr, hl⟩ := h
  exact ⟨pr, by simp [hpr], hl⟩

theorem mktVol_zero_of_all_limit (l : List (Order P)) (hall : ∀ x ∈ l, x.price ≠ none) :
    mktVol l = 0 := by
  induction l with
  | nil => rfl
  | cons y ys ih =>
    unfold mktVol
    have hy := hall y (by simp)
    simp [hy]
    exact ih (fun x hx => hall x (by simp [hx]))

/-- on a sorted side a limit order at the head means there is no market order at all -/
theorem mktVol_zero_of_head_limit (b : Order P) (bs : List (Order P)) (h : Sorted (b :: bs))
    (hb : b.price ≠ none) : mktVol (b :: bs) = 0 := by
  apply mktVol_zero_of_all_limit
  intro x hx
  rcases List.mem_cons.mp hx with rfl | hx
  · exact hb
  · have := (List.pairwise_cons.mp h).1 x hx
    rw [lt_iff_ranksBefore] at this
    unfold ranksBefore at this
    rcases hbp : b.price with _ | pb
    · exact absurd hbp hb
    · rcases hxp : x.price with _ | px
      · simp [hbp, hxp] at this
      · simp

theorem bestLimit_cons_market (b : Order P) (bs : List (Order P)) (hb : b.price = none) :
    bestLimit (b :: bs) = bestLimit bs := by
  simp [bestLimit, hb]

theorem mktVol_cons_market (b : Order P) (bs : List (Order P)) (hb : b.price = none) :
    mktVol (b :: bs) = b.vol + mktVol bs := by
  simp [mktVol, hb]

/-- the three situations in which `remain_executable_orders` answers "yes" with market orders on
top of both sides -/
def bothMarketExecutable (bs ss : List (Order P)) : Prop :=
  (mktVol ss < mktVol bs ∧ bestLimit ss ≠ none) ∨
  (mktVol bs < mktVol ss ∧ bestLimit bs ≠ none) ∨
  (mktVol bs = mktVol ss ∧ ∃ a c, bestLimit ss = some a ∧ bestLimit bs = some c ∧ a ≤ c)

theorem walk_hasLimitPair (bs ss : List (Order P)) (hbs : Sorted bs) (hss : Sorted ss)
    (h : bothMarketExecutable bs ss) : hasLimitPair (walk bs ss).1 := by
  fun_induction walk bs ss with
  | case5 ss =>
    rcases h with ⟨h1, _⟩ | ⟨_, h2⟩ | ⟨_, a, c, _, h3, _⟩
    · simp [mktVol] at h1
    · simp [bestLimit] at h2
    · simp [bestLimit] at h3
  | case6 bs hne =>
    rcases h with ⟨_, h2⟩ | ⟨h1, _⟩ | ⟨_, a, c, h3, _, _⟩
    · simp [bestLimit] at h2
    · simp [mktVol] at h1
    · simp [bestLimit] at h3
  | case1 b bs s ss hnc =>
    -- both heads are limit orders and do not cross: no market orders at all
    unfold noCross at hnc
    rcases hb : b.price with _ | pb <;> rcases hs : s.price with _ | ps <;> simp [hb, hs] at hnc
    have hb0 := mktVol_zero_of_head_limit b bs hbs (by simp [hb])
    have hs0 := mktVol_zero_of_head_limit s ss hss (by simp [hs])
    rcases h with ⟨h1, _⟩ | ⟨h1, _⟩ | ⟨_, a, c, h2, h3, hac⟩
    · omega
    · omega
    · simp [bestLimit, hb, hs] at h2 h3
      subst h2 h3
      exact absurd (lt_of_lt_of_le hnc hac) (lt_irrefl _)
  | case2 b bs s ss hnc hlt r ih =>
    by_cases hbm : b.price = none
    · by_cases hsm : s.price = none
      · apply hasLimitPair_cons_of
        apply ih (List.pairwise_cons.mp hbs).2 (sorted_setHeadVol hss _)
        have e1 := mktVol_cons_market b bs hbm
        have e2 := mktVol_cons_market s ss hsm
        have e3 : mktVol ({ s with vol := s.vol - b.vol } :: ss) = (s.vol - b.vol) + mktVol ss :=
          mktVol_cons_market _ ss hsm
        have e4 := bestLimit_cons_market b bs hbm
        have e5 := bestLimit_cons_market s ss hsm
        have e6 : bestLimit ({ s with vol := s.vol - b.vol } :: ss) = bestLimit ss :=
          bestLimit_cons_market _ ss hsm
        unfold bothMarketExecutable at h ⊢
        rw [e3, e6]
        rw [e1, e2, e4, e5] at h
        rcases h with ⟨h1, h2⟩ | ⟨h1, h2⟩ | ⟨h1, h2⟩
        · exact Or.inl ⟨by omega, h2⟩
        · exact Or.inr (Or.inl ⟨by omega, h2⟩)
        · exact Or.inr (Or.inr ⟨by omega, h2⟩)
      · exact ⟨_, List.mem_cons_self, Or.inr hsm⟩
    · exact ⟨_, List.mem_cons_self, Or.inl hbm⟩
  | case3 b bs s ss hnc hnlt hlt r ih =>
    by_cases hbm : b.price = none
    · by_cases hsm : s.price = none
      · apply hasLimitPair_cons_of
        apply ih (sorted_setHeadVol hbs _) (List.pairwise_cons.mp hss).2
        have e1 := mktVol_cons_market b bs hbm
        have e2 := mktVol_cons_market s ss hsm
        have e3 : mktVol ({ b with vol := b.vol - s.vol } :: bs) = (b.vol - s.vol) + mktVol bs :=
          mktVol_cons_market _ bs hbm
        have e4 := bestLimit_cons_market b bs hbm
        have e5 := bestLimit_cons_market s ss hsm
        have e6 : bestLimit ({ b with vol := b.vol - s.vol } :: bs) = bestLimit bs :=
          bestLimit_cons_market _ bs hbm
        unfold bothMarketExecutable at h ⊢
        rw [e3, e6]
        rw [e1, e2, e4, e5] at h
        rcases h with ⟨h1, h2⟩ | ⟨h1, h2⟩ | ⟨h1, h2⟩
        · exact Or.inl ⟨by omega, h2⟩
        · exact Or.inr (Or.inl ⟨by omega, h2⟩)
        · exact Or.inr (Or.inr ⟨by omega, h2⟩)
      · exact ⟨_, List.mem_cons_self, Or.inr hsm⟩
    · exact ⟨_, List.mem_cons_self, Or.inl hbm⟩
  | case4 b bs s ss hnc hnlt hnlt2 r ih =>
    by_cases hbm : b.price = none
    · by_cases hsm : s.price = none
      · apply hasLimitPair_cons_of
        apply ih (List.pairwise_cons.mp hbs).2 (List.pairwise_cons.mp hss).2
        have e1 := mktVol_cons_market b bs hbm
        have e2 := mktVol_cons_market s ss hsm
        have e4 := bestLimit_cons_market b bs hbm
        have e5 := bestLimit_cons_market s ss hsm
        unfold bothMarketExecutable at h ⊢
        rw [e1, e2, e4, e5] at h
        rcases h with ⟨h1, h2⟩ | ⟨h1, h2⟩ | ⟨h1, h2⟩
        · exact Or.inl ⟨by omega, h2⟩
        · exact Or.inr (Or.inl ⟨by omega, h2⟩)
        · exact Or.inr (Or.inr ⟨by omega, h2⟩)
      · exact ⟨_, List.mem_cons_self, Or.inr hsm⟩
    · exact ⟨_, List.mem_cons_self, Or.inl hbm⟩

/-- a side without limit orders has no limit price level -/
theorem limitLevels_zero_of_bestLimit_none (l : List (Order P)) (h : bestLimit l = none) :
    limitLevels l = 0 := by
  have hall : ∀ x ∈ l, x.price = none := by
    induction l with
    | nil => simp
    | cons y ys ih =>
      unfold bestLimit at h
      rcases hy : y.price with _ | py
      · simp [hy] at h
        intro x hx
        rcases List.mem_cons.mp hx with rfl | hx
        · exact hy
        · exact ih h x hx
      · simp [hy] at h
  have hd : ∀ pv ∈ Book.depth l, pv.1 = none := by
    clear h
    induction l with
    | nil => simp [Book.depth]
    | cons y ys ih =>
      have ihy := ih (fun x hx => hall x (by simp [hx]))
      have hy := hall y (by simp)
      unfold Book.depth
      rcases hdy : Book.depth ys with _ | ⟨⟨p, v⟩, rest⟩
      · simp [hy]
      · simp only
        rw [hdy] at ihy
        split
        · intro pv hpv
          rcases List.mem_cons.mp hpv with rfl | hpv
          · exact ihy (p, v) (by simp)
          · exact ihy pv (by simp [hpv])
        · intro pv hpv
          rcases List.mem_cons.mp hpv with rfl | hpv
          · exact hy
          · exact ihy pv hpv
  unfold limitLevels
  rw [List.length_eq_zero_iff, List.filter_eq_nil_iff]
  intro pv hpv
  simp [hd pv hpv]

/-- when the heads are not stopped by the `break` test they form the first pair -/
theorem walk_head_pair (b s : Order P) (bs ss : List (Order P)) (hnc : noCross b s = false) :
    ∃ v rest, (walk (b :: bs) (s :: ss)).1 = ⟨v, b, s⟩ :: rest := by
  rw [walk]
  simp only [hnc, Bool.false_eq_true, ↓reduceIte]
  by_cases h1 : b.vol < s.vol
  · simp only [h1, ↓reduceIte]; exact ⟨_, _, rfl⟩
  · by_cases h2 : s.vol < b.vol
    · simp only [h1, h2, ↓reduceIte]; exact ⟨_, _, rfl⟩
    · simp only [h1, h2, ↓reduceIte]; exact ⟨_, _, rfl⟩

/-- C03 core: an executable book always yields a round price (the `price is None` assertion is
unreachable). -/
theorem roundPrice_some_of_executable (bs ss : List (Order P)) (hbs : Sorted bs)
    (hss : Sorted ss) (h : remainExecutable bs ss = true) :
    roundPrice (walk bs ss).1 ≠ none := by
  apply roundPrice_some_of_hasLimitPair
  cases hb : bs with
  | nil => subst hb; cases ss <;> simp [remainExecutable] at h
  | cons b bs' =>
    cases hs : ss with
    | nil => subst hs; simp [remainExecutable] at h
    | cons s ss' =>
      subst hb hs
      unfold remainExecutable at h
      rcases hbp : b.price with _ | pb <;> rcases hsp : s.price with _ | ps
      · -- both market
        simp only [hbp, hsp] at h
        apply walk_hasLimitPair _ _ hbs hss
        unfold bothMarketExecutable
        by_cases hne : mktVol (s :: ss') = mktVol (b :: bs')
        · simp [hne] at h
          right; right
          refine ⟨hne.symm, ?_⟩
          rcases h1 : bestLimit (s :: ss') with _ | a <;> rcases h2 : bestLimit (b :: bs') with _ | c <;>
            simp [h1, h2] at h
          exact ⟨a, c, rfl, rfl, h⟩
        · simp [hne] at h
          by_cases hlt : mktVol (s :: ss') < mktVol (b :: bs')
          · simp [hlt] at h
            left
            refine ⟨hlt, ?_⟩
            intro hbl
            have := limitLevels_zero_of_bestLimit_none _ hbl
            omega
          · simp [hlt] at h
            right; left
            refine ⟨by omega, ?_⟩
            intro hbl
            have := limitLevels_zero_of_bestLimit_none _ hbl
            omega
      · -- market buy vs limit sell
        have hnc : noCross b s = false := by simp [noCross, hbp]
        obtain ⟨v, rest, hw⟩ := walk_head_pair b s bs' ss' hnc
        rw [hw]
        exact ⟨_, List.mem_cons_self, Or.inr (by simp [hsp])⟩
      · have hnc : noCross b s = false := by simp [noCross, hsp]
        obtain ⟨v, rest, hw⟩ := walk_head_pair b s bs' ss' hnc
        rw [hw]
        exact ⟨_, List.mem_cons_self, Or.inl (by simp [hbp])⟩
      · simp only [hbp, hsp] at h
        have hnc : noCross b s = false := by
          simp only [noCross, hbp, hsp, decide_eq_false_iff_not, not_lt]
          simpa using h
        obtain ⟨v, rest, hw⟩ := walk_head_pair b s bs' ss' hnc
        rw [hw]
        exact ⟨_, List.mem_cons_self, Or.inl (by simp [hbp])⟩


/-- on a sorted side, a limit order at the head means every order is a limit order -/
theorem all_limit_of_head_limit (b : Order P) (bs : List (Order P)) (h : Sorted (b :: bs))
    (hb : b.price ≠ none) : ∀ x ∈ b :: bs, x.price ≠ none := by
  intro x hx
  rcases List.mem_cons.mp hx with rfl | hx
  · exact hb
  · have := (List.pairwise_cons.mp h).1 x hx
    rw [lt_iff_ranksBefore] at this
    unfold ranksBefore at this
    rcases hbp : b.price with _ | pb
    · exact absurd hbp hb
    · rcases hxp : x.price with _ | px
      · simp [hbp, hxp] at this
      · simp

/-- the last pair of a list of pairs -/
def lastPairPrice (ps : List (Pair P)) : Option P :=
  match ps.getLast? with
  | none => none
  | some pr => pairPrice pr.b pr.s

theorem pairPrice_some_of_limit (b s : Order P) (h : b.price ≠ none ∨ s.price ≠ none) :
    pairPrice b s ≠ none := by
  intro hn
  have := pairPrice_none b s hn
  rcases h with h | h
  · exact h this.1
  · exact h this.2

/-- C01(d) core: on sorted sides the round price is the proposal of the *last* matched pair. -/
theorem roundPrice_eq_last (bs ss : List (Order P)) (hbs : Sorted bs) (hss : Sorted ss) :
    roundPrice (walk bs ss).1 = lastPairPrice (walk bs ss).1 := by
  -- generic step: a head pair followed by the pairs of a recursive call
  have step : ∀ (v : Nat) (b s : Order P) (rest : List (Pair P)),
      roundPrice rest = lastPairPrice rest →
      (rest ≠ [] → lastPairPrice rest = none → b.price = none ∧ s.price = none) →
      roundPrice (⟨v, b, s⟩ :: rest) = lastPairPrice (⟨v, b, s⟩ :: rest) := by
    intro v b s rest ih hmk
    cases rest with
    | nil => simp [roundPrice, lastPairPrice]
    | cons q qs =>
      have hl : lastPairPrice (⟨v, b, s⟩ :: q :: qs) = lastPairPrice (q :: qs) := by
        simp [lastPairPrice, List.getLast?_cons_cons]
      rw [hl]
      simp only [roundPrice]
      rcases hq : lastPairPrice (q :: qs) with _ | x
      · have := hmk (by simp) hq
        have ih' : roundPrice (q :: qs) = none := by rw [ih, hq]
        simp only [roundPrice] at ih'
        rw [ih']
        simp [pairPrice, this.1, this.2]
      · have ih' : roundPrice (q :: qs) = some x := by rw [ih, hq]
        simp only [roundPrice] at ih'
        rw [ih']
  -- if the last pair of the rest is market/market, so are the current heads
  have mk : ∀ (b s : Order P) (bs' ss' : List (Order P)) (rest : List (Pair P)),
      Sorted (b :: bs') → Sorted (s :: ss') →
      (∀ pr ∈ rest, (∃ y ∈ b :: bs', sameOrder pr.b y) ∧ (∃ y ∈ s :: ss', sameOrder pr.s y)) →
      rest ≠ [] → lastPairPrice rest = none → b.price = none ∧ s.price = none := by
    intro b s bs' ss' rest hb hs hmem hne hlast
    unfold lastPairPrice at hlast
    rcases hgl : rest.getLast? with _ | pr
    · simp [List.getLast?_eq_none_iff] at hgl; exact absurd hgl hne
    · simp only [hgl] at hlast
      have hn := pairPrice_none _ _ hlast
      have hprm : pr ∈ rest := List.mem_of_getLast? hgl
      obtain ⟨⟨y, hy, hyo⟩, ⟨z, hz, hzo⟩⟩ := hmem pr hprm
      constructor
      · by_contra hbp
        have := all_limit_of_head_limit b bs' hb hbp y hy
        rw [← hyo.2.2.2.1] at this
        exact this hn.1
      · by_contra hsp
        have := all_limit_of_head_limit s ss' hs hsp z hz
        rw [← hzo.2.2.2.1] at this
        exact this hn.2
  fun_induction walk bs ss with
  | case1 b bs s ss hnc => simp [roundPrice, lastPairPrice]
  | case5 ss => simp [roundPrice, lastPairPrice]
  | case6 bs hne => simp [roundPrice, lastPairPrice]
  | case2 b bs s ss hnc hlt r ih =>
    have hss2 := sorted_setHeadVol hss (s.vol - b.vol)
    apply step _ _ _ _ (ih (List.pairwise_cons.mp hbs).2 hss2)
    apply mk b s bs ss r.1 hbs hss
    intro pr hpr
    obtain ⟨⟨y, hy, hyo⟩, ⟨z, hz, hzo⟩⟩ := walk_pairs_mem bs _ pr hpr
    refine ⟨⟨y, by simp [hy], hyo⟩, ?_⟩
    rcases List.mem_cons.mp hz with rfl | hz
    · exact ⟨s, by simp, hzo⟩
    · exact ⟨z, by simp [hz], hzo⟩
  | case3 b bs s ss hnc hnlt hlt r ih =>
    have hbs2 := sorted_setHeadVol hbs (b.vol - s.vol)
    apply step _ _ _ _ (ih hbs2 (List.pairwise_cons.mp hss).2)
    apply mk b s bs ss r.1 hbs hss
    intro pr hpr
    obtain ⟨⟨y, hy, hyo⟩, ⟨z, hz, hzo⟩⟩ := walk_pairs_mem _ ss pr hpr
    refine ⟨?_, ⟨z, by simp [hz], hzo⟩⟩
    rcases List.mem_cons.mp hy with rfl | hy
    · exact ⟨b, by simp, hyo⟩
    · exact ⟨y, by simp [hy], hyo⟩
  | case4 b bs s ss hnc hnlt hnlt2 r ih =>
    apply step _ _ _ _ (ih (List.pairwise_cons.mp hbs).2 (List.pairwise_cons.mp hss).2)
    apply mk b s bs ss r.1 hbs hss
    intro pr hpr
    obtain ⟨⟨y, hy, hyo⟩, ⟨z, hz, hzo⟩⟩ := walk_pairs_mem bs ss pr hpr
    exact ⟨⟨y, by simp [hy], hyo⟩, ⟨z, by simp [hz], hzo⟩⟩

/-- matched volumes are positive when resting volumes are -/
theorem walk_pairs_pos (bs ss : List (Order P)) (hb : ∀ o ∈ bs, 0 < o.vol)
    (hs : ∀ o ∈ ss, 0 < o.vol) : ∀ pr ∈ (walk bs ss).1, 0 < pr.vol := by
  fun_induction walk bs ss with
  | case1 b bs s ss hnc => simp
  | case5 ss => simp
  | case6 bs hne => simp
  | case2 b bs s ss hnc hlt r ih =>
    intro pr hpr
    rcases List.mem_cons.mp hpr with rfl | hpr
    · exact hb b (by simp)
    · refine ih (fun o ho => hb o (by simp [ho])) (fun o ho => ?_) pr hpr
      rcases List.mem_cons.mp ho with rfl | ho
      · simp; omega
      · exact hs o (by simp [ho])
  | case3 b bs s ss hnc hnlt hlt r ih =>
    intro pr hpr
    rcases List.mem_cons.mp hpr with rfl | hpr
    · exact hs s (by simp)
    · refine ih (fun o ho => ?_) (fun o ho => hs o (by simp [ho])) pr hpr
      rcases List.mem_cons.mp ho with rfl | ho
      · simp; omega
      · exact hb o (by simp [ho])
  | case4 b bs s ss hnc hnlt hnlt2 r ih =>
    intro pr hpr
    rcases List.mem_cons.mp hpr with rfl | hpr
    · exact hb b (by simp)
    · exact ih (fun o ho => hb o (by simp [ho])) (fun o ho => hs o (by simp [ho])) pr hpr

end Pams
