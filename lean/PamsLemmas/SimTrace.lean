/-
Structure of the traces of the closed-loop model (`Built`: glue events and traces of processed
requests, concatenated) with its induction principle, and two families of consequences: the hook
dispatches of a trace are paired one-to-one with their occurrences (C13), and the records written
are one per accepted submission / cancellation (C10).
-/
import PamsLemmas.SimLemmas
set_option linter.unusedSectionVars false
set_option linter.unusedSimpArgs false

namespace Pams.Sim
open Pams Pams.Runner

variable {P : Type} [LinearOrder P]

/-- events of the scheduler's own frame: everything that is not part of the treatment of a request -/
def Ev.isGlue : Ev → Bool
  | .simBegin => true | .simEnd => true | .flush => true
  | .sessionBegin _ => true | .sessionEnd _ => true
  | .hookSessionBefore _ _ => true | .hookSessionAfter _ _ => true
  | .setRunning _ _ => true
  | .hookStepBefore _ _ => true | .stepBegin _ _ => true | .stepEnd _ _ => true | .hookStepAfter _ _ => true
  | .consult _ _ => true | .tick _ => true | .abort => true
  | _ => false

/-- how every trace of the closed-loop model is put together: glue events and the traces of
processed requests, concatenated -/
inductive Built : List Ev → Prop
  | nil : Built []
  | glue (e : Ev) (h : Ev.isGlue e = true) : Built [e]
  | req (t : Nat) (flag : Bool) (r : Request) : Built (Runner.processRequest t flag r).tr
  | app {a b : List Ev} : Built a → Built b → Built (a ++ b)

theorem Built.cons {e : Ev} {l : List Ev} (he : Ev.isGlue e = true) (hl : Built l) : Built (e :: l) := by
  have := Built.app (Built.glue e he) hl
  simpa using this

theorem Built.ofGlue (l : List Ev) (h : ∀ e ∈ l, Ev.isGlue e = true) : Built l := by
  induction l with
  | nil => exact Built.nil
  | cons e es ih => exact Built.cons (h e (by simp)) (ih (fun x hx => h x (by simp [hx])))

def SOut.Built (a : SOut P) : Prop := Sim.Built a.out.tr

theorem andThen_built (a : SOut P) (f : State P → Bool → SOut P) (ha : a.Built) (hf : ∀ s' fl, (f s' fl).Built) :
    (a.andThen f).Built := by
  unfold SOut.andThen
  by_cases hok : a.out.ok = true
  · rw [if_pos hok]; exact Built.app ha (hf _ _)
  · rw [if_neg hok]; exact ha

theorem pure_built (s : State P) (flag : Bool) : (SOut.pure s flag).Built := Built.nil

theorem processRequest_built (po : Nat → PriceOps P) (t : Nat) (s : State P) (flag : Bool) (q : SReq P) :
    (processRequest po t s flag q).Built := Built.req t flag _

theorem processBatch_built (po : Nat → PriceOps P) (t : Nat) (s : State P) (flag : Bool) (qs : List (SReq P)) :
    (processBatch po t s flag qs).Built := by
  induction qs generalizing s flag with
  | nil => exact pure_built s flag
  | cons q qs ih =>
    unfold processBatch
    exact andThen_built _ _ (processRequest_built po t s flag q) (fun s' fl => ih s' fl)

theorem hftRound_built (po : Nat → PriceOps P) (t : Nat) (cap : Int) (answer : Nat → List (SReq P))
    (as : List Nat) (n : Nat) (s : State P) (flag : Bool) : (hftRound po t cap answer as n s flag).Built := by
  induction as generalizing n s flag with
  | nil => exact pure_built s flag
  | cons a as ih =>
    unfold hftRound
    by_cases h1 : (n : Int) ≥ cap
    · rw [if_pos h1]; exact pure_built s flag
    · rw [if_neg h1]
      by_cases h2 : (answer a).isEmpty = true
      · simp only [h2, ↓reduceIte]
        exact Built.cons rfl (ih n s flag)
      · simp only [h2, Bool.false_eq_true, ↓reduceIte]
        by_cases h3 : (answer a).any (fun q => q.owner ≠ a) = true
        · rw [if_pos h3]; exact Built.cons rfl (Built.glue _ rfl)
        · rw [if_neg h3]
          exact Built.cons rfl
            (andThen_built _ _ (processBatch_built po t s flag _) (fun s' fl => ih (n + 1) s' fl))

theorem handle_built (po : Nat → PriceOps P) (t : Nat) (maxHft : Int) (bs : List (Nat × List (SReq P)))
    (rts : List (RoundTape P)) (s : State P) (flag : Bool) : (handle po t maxHft bs rts s flag).Built := by
  induction bs generalizing rts s flag with
  | nil => exact pure_built s flag
  | cons b bs ih =>
    obtain ⟨a, batch⟩ := b
    unfold handle
    refine andThen_built _ _ (processBatch_built po t s flag batch) (fun s1 fl => ?_)
    refine andThen_built _ _ ?_ (fun s2 fl2 => ih rts.tail s2 fl2)
    by_cases hg : (rts.headD RoundTape.none).go = true
    · rw [if_pos hg]; exact hftRound_built po t maxHft _ _ 0 s1 fl
    · rw [if_neg hg]; exact pure_built s1 fl

theorem collect_glue (hft : Bool) (cap : Int) (answer : Nat → List (SReq P)) (as : List Nat) (n : Nat) :
    ∀ e ∈ (collect hft cap answer as n).1, Ev.isGlue e = true := by
  induction as generalizing n with
  | nil => simp [collect]
  | cons a as ih =>
    unfold collect
    by_cases h1 : (n : Int) ≥ cap
    · simp [h1]
    · rw [if_neg h1]
      by_cases h2 : (answer a).isEmpty = true
      · simp only [h2, ↓reduceIte]
        intro e he
        rcases List.mem_cons.mp he with rfl | he
        · rfl
        · exact ih n e he
      · simp only [h2, Bool.false_eq_true, ↓reduceIte]
        by_cases h3 : (answer a).any (fun q => q.owner ≠ a) = true
        · rw [if_pos h3]
          intro e he
          simp at he
          rcases he with rfl | rfl <;> rfl
        · rw [if_neg h3]
          intro e he
          rcases List.mem_cons.mp he with rfl | he
          · rfl
          · exact ih (n + 1) e he

theorem stepBody_built (po : Nat → PriceOps P) (cfg : SessionCfg) (t : Nat) (s0 : State P) (flag0 : Bool)
    (tape : StepTape P) : (stepBody po cfg t s0 flag0 tape).Built := by
  unfold stepBody
  by_cases hp : cfg.placement = true
  · rw [if_pos hp]
    by_cases hc : (collect false cfg.maxNormal tape.answer tape.perm 0).2.1 = true
    · simp only [hc, ↓reduceIte]
      exact Built.app (Built.ofGlue _ (collect_glue _ _ _ _ _)) (handle_built po t cfg.maxHft _ _ _ _)
    · simp only [hc, Bool.false_eq_true, ↓reduceIte]
      exact Built.ofGlue _ (collect_glue _ _ _ _ _)
  · rw [if_neg hp]; exact pure_built _ _

theorem stepBefore_glue (t : Nat) (resume : Nat → StepFx P) (ms : Markets) (f : Nat → Market P) (flag : Bool) :
    ∀ e ∈ (stepBefore t resume ms f flag).1, Ev.isGlue e = true := by
  induction ms generalizing f flag with
  | nil => simp [stepBefore]
  | cons m ms ih =>
    unfold stepBefore
    intro e he
    simp only [List.mem_cons] at he
    rcases he with rfl | rfl | he
    · rfl
    · rfl
    · exact ih _ _ e he

theorem stepAfter_glue (t : Nat) (ms : Markets) : ∀ e ∈ stepAfter t ms, Ev.isGlue e = true := by
  induction ms with
  | nil => simp [stepAfter]
  | cons m ms ih =>
    intro e he
    simp only [stepAfter, List.mem_cons] at he
    rcases he with rfl | rfl | he
    · rfl
    · rfl
    · exact ih e he

theorem ticks_glue (ms : Markets) : ∀ e ∈ ticks ms, Ev.isGlue e = true := by
  intro e he
  simp only [ticks, List.mem_append, List.mem_map] at he
  rcases he with ⟨_, _, rfl⟩ | ⟨_, _, rfl⟩ <;> rfl

theorem runStep_built (po : Nat → PriceOps P) (ms : Markets) (cfg : SessionCfg) (t : Nat) (s : State P)
    (flag : Bool) (tape : StepTape P) : (runStep po ms cfg t s flag tape).Built := by
  have hb := Built.ofGlue _ (stepBefore_glue (P := P) t tape.resume ms s.mkt flag)
  have h2 := stepBody_built po cfg t { s with mkt := (stepBefore t tape.resume ms s.mkt flag).2.1 }
    (stepBefore t tape.resume ms s.mkt flag).2.2.1 tape
  unfold runStep SOut.Built
  simp only
  split
  · exact Built.app (Built.app (Built.app hb h2) (Built.ofGlue _ (stepAfter_glue t ms))) (Built.ofGlue _ (ticks_glue ms))
  · exact Built.app hb h2

theorem runSteps_built (po : Nat → PriceOps P) (ms : Markets) (cfg : SessionCfg) (t : Nat) (s : State P)
    (flag : Bool) (tapes : List (StepTape P)) (n : Nat) : (runSteps po ms cfg t s flag tapes n).Built := by
  induction n generalizing t s flag tapes with
  | zero => exact pure_built s flag
  | succ n ih =>
    unfold runSteps
    exact andThen_built _ _ (runStep_built po ms cfg t s flag _) (fun s' fl => ih (t + 1) s' fl tapes.tail)

theorem runSession_built (po : Nat → PriceOps P) (ms : Markets) (k : Nat) (cfg : SessionCfg) (start : Nat)
    (s : State P) (tapes : List (StepTape P)) : (runSession po ms k cfg start s tapes).Built := by
  have h := runSteps_built po ms cfg start
    { s with mkt := setRunnings s.mkt (ms.map (fun m => (m.1, cfg.execution))) } cfg.execution tapes cfg.steps
  have hh : Sim.Built ([Ev.hookSessionBefore k start, Ev.sessionBegin k, Ev.flush]
      ++ ms.map (fun m => Ev.setRunning m.1 cfg.execution)) := by
    apply Built.ofGlue
    intro e he
    simp only [List.mem_append, List.mem_cons, List.mem_map, List.not_mem_nil, or_false] at he
    rcases he with (rfl | rfl | rfl) | ⟨_, _, rfl⟩ <;> rfl
  unfold runSession SOut.Built
  simp only
  split
  · exact Built.app (Built.app hh h) (Built.ofGlue _ (by intro e he; simp at he; rcases he with rfl | rfl | rfl <;> rfl))
  · exact Built.app hh h

theorem runSessions_built (po : Nat → PriceOps P) (ms : Markets) (k start : Nat) (s : State P)
    (cfgs : List SessionCfg) (tapes : List (List (StepTape P))) : (runSessions po ms k start s cfgs tapes).Built := by
  induction cfgs generalizing k start s tapes with
  | nil => exact pure_built s false
  | cons cfg cfgs ih =>
    unfold runSessions
    exact andThen_built _ _ (runSession_built po ms k cfg start s _)
      (fun s' _ => ih (k + 1) (start + cfg.steps) s' tapes.tail)

/-- **structure of every trace of a simulation**: glue events and traces of processed requests -/
theorem run_built (po : Nat → PriceOps P) (ms : Markets) (price : Nat → P) (fund0 : Nat → Option P)
    (cfgs : List SessionCfg) (tapes : List (List (StepTape P))) :
    Sim.Built (run po ms price fund0 cfgs tapes).out.tr := by
  have h := runSessions_built po ms 0 0 (initState po price fund0) cfgs tapes
  unfold run
  simp only
  refine Built.app (Built.app (Built.app (Built.ofGlue _ ?_) (Built.ofGlue _ (ticks_glue ms))) h) ?_
  · intro e he; simp at he; rcases he with rfl | rfl <;> rfl
  · split
    · exact Built.ofGlue _ (by intro e he; simp at he; rcases he with rfl | rfl <;> rfl)
    · exact Built.nil

/-- induction principle: a property of traces that holds of the empty trace, of every glue event,
of the trace of every processed request, and is closed under concatenation, holds of the trace of
every simulation -/
theorem trace_induction (Q : List Ev → Prop) (h0 : Q []) (hg : ∀ e, Ev.isGlue e = true → Q [e])
    (hr : ∀ t flag r, Q (Runner.processRequest t flag r).tr) (ha : ∀ a b, Q a → Q b → Q (a ++ b))
    {tr : List Ev} (h : Sim.Built tr) : Q tr := by
  induction h with
  | nil => exact h0
  | glue e he => exact hg e he
  | req t flag r => exact hr t flag r
  | app _ _ iha ihb => exact ha _ _ iha ihb

end Pams.Sim


namespace Pams.Sim
open Pams Pams.Runner

def addRef : Ev → List Nat | .addOrder _ r => [r] | _ => []
def hookOrderBeforeRef : Ev → List Nat | .hookOrderBefore r _ => [r] | _ => []
def cancelRef : Ev → List Nat | .cancel _ r => [r] | _ => []
def hookCancelBeforeRef : Ev → List Nat | .hookCancelBefore r _ => [r] | _ => []
def cbSubmittedRef : Ev → List Nat | .cbSubmitted _ r => [r] | _ => []
def hookOrderAfterRef : Ev → List Nat | .hookOrderAfter r _ => [r] | _ => []
def cbCanceledRef : Ev → List Nat | .cbCanceled _ r => [r] | _ => []
def hookCancelAfterRef : Ev → List Nat | .hookCancelAfter r _ => [r] | _ => []
def hookExecRef : Ev → List Nat | .hookExecAfter r _ => [r] | _ => []
def ledgerRef : Ev → List Nat | .ledger rs => rs | _ => []

theorem fillEvents_hookExec (t : Nat) (fs : List RFill) :
    (fillEvents t fs).flatMap hookExecRef = fs.map (·.ref) := by
  induction fs with
  | nil => rfl
  | cons f fs ih => simp [fillEvents, hookExecRef, ih]

theorem fillEvents_other (t : Nat) (fs : List RFill) (f : Ev → List Nat)
    (h1 : ∀ a r, f (.cbExecuted a r) = []) (h2 : ∀ r t, f (.hookExecAfter r t) = []) :
    (fillEvents t fs).flatMap f = [] := by
  induction fs with
  | nil => rfl
  | cons x fs ih => simp [fillEvents, h1, h2, ih]

theorem fillEvents_hookOrderBeforeRef (t : Nat) (fs : List RFill) : (fillEvents t fs).flatMap hookOrderBeforeRef = [] :=
  fillEvents_other t fs hookOrderBeforeRef (fun _ _ => rfl) (fun _ _ => rfl)
theorem fillEvents_addRef (t : Nat) (fs : List RFill) : (fillEvents t fs).flatMap addRef = [] :=
  fillEvents_other t fs addRef (fun _ _ => rfl) (fun _ _ => rfl)
theorem fillEvents_hookCancelBeforeRef (t : Nat) (fs : List RFill) : (fillEvents t fs).flatMap hookCancelBeforeRef = [] :=
  fillEvents_other t fs hookCancelBeforeRef (fun _ _ => rfl) (fun _ _ => rfl)
theorem fillEvents_cancelRef (t : Nat) (fs : List RFill) : (fillEvents t fs).flatMap cancelRef = [] :=
  fillEvents_other t fs cancelRef (fun _ _ => rfl) (fun _ _ => rfl)
theorem fillEvents_hookOrderAfterRef (t : Nat) (fs : List RFill) : (fillEvents t fs).flatMap hookOrderAfterRef = [] :=
  fillEvents_other t fs hookOrderAfterRef (fun _ _ => rfl) (fun _ _ => rfl)
theorem fillEvents_cbSubmittedRef (t : Nat) (fs : List RFill) : (fillEvents t fs).flatMap cbSubmittedRef = [] :=
  fillEvents_other t fs cbSubmittedRef (fun _ _ => rfl) (fun _ _ => rfl)
theorem fillEvents_hookCancelAfterRef (t : Nat) (fs : List RFill) : (fillEvents t fs).flatMap hookCancelAfterRef = [] :=
  fillEvents_other t fs hookCancelAfterRef (fun _ _ => rfl) (fun _ _ => rfl)
theorem fillEvents_cbCanceledRef (t : Nat) (fs : List RFill) : (fillEvents t fs).flatMap cbCanceledRef = [] :=
  fillEvents_other t fs cbCanceledRef (fun _ _ => rfl) (fun _ _ => rfl)
theorem fillEvents_ledgerRef (t : Nat) (fs : List RFill) : (fillEvents t fs).flatMap ledgerRef = [] :=
  fillEvents_other t fs ledgerRef (fun _ _ => rfl) (fun _ _ => rfl)

/-- the hook dispatches of a trace are in one-to-one, order-preserving correspondence with the
occurrences they belong to -/
def Paired (tr : List Ev) : Prop :=
  tr.flatMap hookOrderBeforeRef = tr.flatMap addRef ∧
  tr.flatMap hookCancelBeforeRef = tr.flatMap cancelRef ∧
  tr.flatMap hookOrderAfterRef = tr.flatMap cbSubmittedRef ∧
  tr.flatMap hookCancelAfterRef = tr.flatMap cbCanceledRef ∧
  tr.flatMap hookExecRef = tr.flatMap ledgerRef

theorem paired_of_built {tr : List Ev} (h : Built tr) : Paired tr := by
  refine trace_induction Paired ⟨rfl, rfl, rfl, rfl, rfl⟩ ?_ ?_ ?_ h
  · intro e he
    cases e <;> simp [Ev.isGlue] at he <;> exact ⟨rfl, rfl, rfl, rfl, rfl⟩
  · intro t flag r
    unfold Runner.processRequest Paired
    cases hc : r.isCancel <;> cases ha : r.accepted <;> cases hf : flag <;>
      (try rcases hfs : r.fills with _ | fs) <;>
      simp [List.flatMap_append, List.flatMap_cons, hookOrderBeforeRef, addRef, hookCancelBeforeRef, cancelRef,
        hookOrderAfterRef, cbSubmittedRef, hookCancelAfterRef, cbCanceledRef, hookExecRef, ledgerRef,
        fillEvents_hookExec, fillEvents_hookOrderBeforeRef, fillEvents_addRef, fillEvents_hookCancelBeforeRef, fillEvents_cancelRef, fillEvents_hookOrderAfterRef, fillEvents_cbSubmittedRef, fillEvents_hookCancelAfterRef, fillEvents_cbCanceledRef, fillEvents_ledgerRef]
  · intro a b ha hb
    unfold Paired at *
    simp only [List.flatMap_append]
    exact ⟨by rw [ha.1, hb.1], by rw [ha.2.1, hb.2.1], by rw [ha.2.2.1, hb.2.2.1],
      by rw [ha.2.2.2.1, hb.2.2.2.1], by rw [ha.2.2.2.2, hb.2.2.2.2]⟩

end Pams.Sim


namespace Pams.Sim
open Pams Pams.Runner

variable {P : Type} [LinearOrder P]

def isOrderRec : Rec P → Bool | .order _ => true | _ => false
def isCancelRec : Rec P → Bool | .cancel _ => true | _ => false

def nOrders (l : List (MRec P)) : Nat := (l.filter (fun x => isOrderRec x.2)).length
def nCancels (l : List (MRec P)) : Nat := (l.filter (fun x => isCancelRec x.2)).length

theorem nOrders_append (a b : List (MRec P)) : nOrders (a ++ b) = nOrders a + nOrders b := by simp [nOrders]
theorem nCancels_append (a b : List (MRec P)) : nCancels (a ++ b) = nCancels a + nCancels b := by simp [nCancels]

/-- one order record per accepted submission, one cancel record per accepted cancellation -/
def SOut.Logged (a : SOut P) : Prop :=
  nOrders a.recs = (a.out.tr.flatMap cbSubmittedRef).length ∧
  nCancels a.recs = (a.out.tr.flatMap cbCanceledRef).length

theorem fills_not_order (m : Nat) (fs : List (Fill P)) :
    nOrders (fs.map (fun f => ((m, Rec.fill f) : MRec P))) = 0 ∧
    nCancels (fs.map (fun f => ((m, Rec.fill f) : MRec P))) = 0 := by
  induction fs with
  | nil => exact ⟨rfl, rfl⟩
  | cons f fs ih => simpa [nOrders, nCancels, isOrderRec, isCancelRec, List.filter_cons] using ih

theorem processRequest_tr_counts (t : Nat) (flag : Bool) (r : Request) :
    ((Runner.processRequest t flag r).tr.flatMap cbSubmittedRef).length =
      (if r.accepted && !r.isCancel then 1 else 0) ∧
    ((Runner.processRequest t flag r).tr.flatMap cbCanceledRef).length =
      (if r.accepted && r.isCancel then 1 else 0) := by
  unfold Runner.processRequest
  cases hc : r.isCancel <;> cases ha : r.accepted <;> cases hf : flag <;>
    (try rcases hfs : r.fills with _ | fs) <;>
    simp [List.flatMap_cons, cbSubmittedRef, cbCanceledRef, fillEvents_cbSubmittedRef, fillEvents_cbCanceledRef]

theorem processRequest_logged (po : Nat → PriceOps P) (t : Nat) (s : State P) (flag : Bool) (q : SReq P) :
    (processRequest po t s flag q).Logged := by
  unfold processRequest SOut.Logged
  simp only
  have hc := processRequest_tr_counts t flag (resolve po s flag q).2.1
  rw [hc.1, hc.2]
  unfold resolve
  rcases hm : marketCall po s q with _ | ⟨s1, r1, o1⟩
  · simp [baseRequest, nOrders, nCancels]
  · -- what the market call wrote
    have hr1 : nOrders r1 = (if !q.isCancel then 1 else 0) ∧ nCancels r1 = (if q.isCancel then 1 else 0) := by
      unfold marketCall at hm
      by_cases hcq : q.isCancel = true
      · rw [if_pos hcq] at hm
        by_cases hmk : (!q.marketOk) = true
        · rw [if_pos hmk] at hm; cases hm
        · rw [if_neg hmk] at hm
          rcases hr : (s.mkt q.market).cancel (po q.market) q.cancelId with e | ⟨m', l⟩
          · rw [hr] at hm; cases hm
          · rw [hr] at hm
            simp only [Option.some.injEq, Prod.mk.injEq] at hm
            obtain ⟨_, rfl, _⟩ := hm
            simp [nOrders, nCancels, isOrderRec, isCancelRec, hcq]
      · rw [if_neg hcq] at hm
        rcases hr : (s.mkt q.market).submit (po q.market) q.marketOk q.stamped q.req with e | ⟨m', l⟩
        · rw [hr] at hm; cases hm
        · rw [hr] at hm
          simp only [Option.some.injEq, Prod.mk.injEq] at hm
          obtain ⟨_, rfl, _⟩ := hm
          simp [nOrders, nCancels, isOrderRec, isCancelRec, hcq]
    cases flag
    · simpa [baseRequest] using hr1
    · simp only [↓reduceIte]
      rcases hrc : roundCall po s1 q with _ | ⟨s2, rf, r2, o2⟩
      · simpa [baseRequest] using hr1
      · unfold roundCall at hrc
        rcases he : (s1.mkt q.market).execution (po q.market) with e | ⟨m', fs⟩
        · rw [he] at hrc; cases hrc
        · rw [he] at hrc
          simp only [Option.some.injEq, Prod.mk.injEq] at hrc
          obtain ⟨_, _, rfl, _⟩ := hrc
          have hf := fills_not_order (P := P) q.market fs
          simp only [nOrders_append, nCancels_append, hf.1, hf.2, Nat.add_zero]
          simpa [baseRequest] using hr1

theorem andThen_logged (a : SOut P) (f : State P → Bool → SOut P) (ha : a.Logged)
    (hf : ∀ s' fl, (f s' fl).Logged) : (a.andThen f).Logged := by
  unfold SOut.andThen
  by_cases hok : a.out.ok = true
  · rw [if_pos hok]
    have hb := hf a.st a.out.flag
    unfold SOut.Logged at *
    simp only [nOrders_append, nCancels_append, List.flatMap_append, List.length_append]
    omega
  · rw [if_neg hok]; exact ha

theorem pure_logged (s : State P) (flag : Bool) : (SOut.pure s flag).Logged := ⟨rfl, rfl⟩

/-- glue events carry no notification -/
theorem glue_counts (l : List Ev) (h : ∀ e ∈ l, Ev.isGlue e = true) :
    (l.flatMap cbSubmittedRef).length = 0 ∧ (l.flatMap cbCanceledRef).length = 0 := by
  induction l with
  | nil => exact ⟨rfl, rfl⟩
  | cons e es ih =>
    have he := h e (by simp)
    have := ih (fun x hx => h x (by simp [hx]))
    cases e <;> simp [Ev.isGlue] at he <;>
      simpa [List.flatMap_cons, cbSubmittedRef, cbCanceledRef] using this

theorem logged_prepend (a : SOut P) (l : List Ev) (hl : ∀ e ∈ l, Ev.isGlue e = true) (ha : a.Logged) :
    (a.prependTr l).Logged := by
  have hg := glue_counts l hl
  unfold SOut.Logged SOut.prependTr at *
  simp only [List.flatMap_append, List.length_append]
  omega

theorem logged_consTr (a : SOut P) (e : Ev) (he : Ev.isGlue e = true) (ha : a.Logged) : (a.consTr e).Logged := by
  have := logged_prepend a [e] (by intro x hx; simp at hx; subst hx; exact he) ha
  simpa [SOut.prependTr, SOut.consTr] using this

theorem processBatch_logged (po : Nat → PriceOps P) (t : Nat) (s : State P) (flag : Bool) (qs : List (SReq P)) :
    (processBatch po t s flag qs).Logged := by
  induction qs generalizing s flag with
  | nil => exact pure_logged s flag
  | cons q qs ih =>
    unfold processBatch
    exact andThen_logged _ _ (processRequest_logged po t s flag q) (fun s' fl => ih s' fl)

theorem hftRound_logged (po : Nat → PriceOps P) (t : Nat) (cap : Int) (answer : Nat → List (SReq P))
    (as : List Nat) (n : Nat) (s : State P) (flag : Bool) : (hftRound po t cap answer as n s flag).Logged := by
  induction as generalizing n s flag with
  | nil => exact pure_logged s flag
  | cons a as ih =>
    unfold hftRound
    by_cases h1 : (n : Int) ≥ cap
    · rw [if_pos h1]; exact pure_logged s flag
    · rw [if_neg h1]
      by_cases h2 : (answer a).isEmpty = true
      · simp only [h2, ↓reduceIte]
        exact logged_consTr _ _ rfl (ih n s flag)
      · simp only [h2, Bool.false_eq_true, ↓reduceIte]
        by_cases h3 : (answer a).any (fun q => q.owner ≠ a) = true
        · rw [if_pos h3]; exact ⟨rfl, rfl⟩
        · rw [if_neg h3]
          exact logged_consTr _ _ rfl
            (andThen_logged _ _ (processBatch_logged po t s flag _) (fun s' fl => ih (n + 1) s' fl))

theorem handle_logged (po : Nat → PriceOps P) (t : Nat) (maxHft : Int) (bs : List (Nat × List (SReq P)))
    (rts : List (RoundTape P)) (s : State P) (flag : Bool) : (handle po t maxHft bs rts s flag).Logged := by
  induction bs generalizing rts s flag with
  | nil => exact pure_logged s flag
  | cons b bs ih =>
    obtain ⟨a, batch⟩ := b
    unfold handle
    refine andThen_logged _ _ (processBatch_logged po t s flag batch) (fun s1 fl => ?_)
    refine andThen_logged _ _ ?_ (fun s2 fl2 => ih rts.tail s2 fl2)
    by_cases hg : (rts.headD RoundTape.none).go = true
    · rw [if_pos hg]; exact hftRound_logged po t maxHft _ _ 0 s1 fl
    · rw [if_neg hg]; exact pure_logged s1 fl

theorem stepBody_logged (po : Nat → PriceOps P) (cfg : SessionCfg) (t : Nat) (s0 : State P) (flag0 : Bool)
    (tape : StepTape P) : (stepBody po cfg t s0 flag0 tape).Logged := by
  unfold stepBody
  by_cases hp : cfg.placement = true
  · rw [if_pos hp]
    by_cases hc : (collect false cfg.maxNormal tape.answer tape.perm 0).2.1 = true
    · simp only [hc, ↓reduceIte]
      exact logged_prepend _ _ (collect_glue _ _ _ _ _) (handle_logged po t cfg.maxHft _ _ _ _)
    · simp only [hc, Bool.false_eq_true, ↓reduceIte]
      have := glue_counts _ (collect_glue false cfg.maxNormal tape.answer tape.perm 0)
      exact ⟨by simpa [nOrders] using this.1.symm, by simpa [nCancels] using this.2.symm⟩
  · rw [if_neg hp]; exact pure_logged _ _

theorem tickAll_not_order (po : Nat → PriceOps P) (fund : Nat → Option P) (ms : List Nat) (f : Nat → Market P) :
    nOrders (tickAll po fund ms f).2.1 = 0 ∧ nCancels (tickAll po fund ms f).2.1 = 0 := by
  induction ms generalizing f with
  | nil => exact ⟨rfl, rfl⟩
  | cons m ms ih =>
    unfold tickAll
    have h := ih (setMk f m ((f m).tick (po m) (fund m)).1)
    have he : ∀ l : List (ExpiryLog P), nOrders (l.map (fun x => ((m, Rec.expiry x) : MRec P))) = 0 ∧
        nCancels (l.map (fun x => ((m, Rec.expiry x) : MRec P))) = 0 := by
      intro l
      induction l with
      | nil => exact ⟨rfl, rfl⟩
      | cons x l ihl => simpa [nOrders, nCancels, isOrderRec, isCancelRec, List.filter_cons] using ihl
    simp [nOrders_append, nCancels_append, (he _).1, (he _).2, h.1, h.2]

theorem runStep_logged (po : Nat → PriceOps P) (ms : Markets) (cfg : SessionCfg) (t : Nat) (s : State P)
    (flag : Bool) (tape : StepTape P) : (runStep po ms cfg t s flag tape).Logged := by
  have hb := glue_counts _ (stepBefore_glue (P := P) t tape.resume ms s.mkt flag)
  have h2 := stepBody_logged po cfg t { s with mkt := (stepBefore t tape.resume ms s.mkt flag).2.1 }
    (stepBefore t tape.resume ms s.mkt flag).2.2.1 tape
  have ha := glue_counts _ (stepAfter_glue t ms)
  have htk := glue_counts _ (ticks_glue ms)
  have hno := tickAll_not_order po tape.fund (tickOrder ms)
    (stepBody po cfg t { s with mkt := (stepBefore t tape.resume ms s.mkt flag).2.1 }
      (stepBefore t tape.resume ms s.mkt flag).2.2.1 tape).st.mkt
  unfold runStep SOut.Logged at *
  simp only at h2 ⊢
  split
  · simp only [nOrders_append, nCancels_append, List.flatMap_append, List.length_append, hno.1, hno.2]
    omega
  · simp only [List.flatMap_append, List.length_append]
    omega

theorem runSteps_logged (po : Nat → PriceOps P) (ms : Markets) (cfg : SessionCfg) (t : Nat) (s : State P)
    (flag : Bool) (tapes : List (StepTape P)) (n : Nat) : (runSteps po ms cfg t s flag tapes n).Logged := by
  induction n generalizing t s flag tapes with
  | zero => exact pure_logged s flag
  | succ n ih =>
    unfold runSteps
    exact andThen_logged _ _ (runStep_logged po ms cfg t s flag _) (fun s' fl => ih (t + 1) s' fl tapes.tail)

theorem runSession_logged (po : Nat → PriceOps P) (ms : Markets) (k : Nat) (cfg : SessionCfg) (start : Nat)
    (s : State P) (tapes : List (StepTape P)) : (runSession po ms k cfg start s tapes).Logged := by
  have h := runSteps_logged po ms cfg start
    { s with mkt := setRunnings s.mkt (ms.map (fun m => (m.1, cfg.execution))) } cfg.execution tapes cfg.steps
  have hh := glue_counts ([Ev.hookSessionBefore k start, Ev.sessionBegin k, Ev.flush]
      ++ ms.map (fun m => Ev.setRunning m.1 cfg.execution)) (by
    intro e he
    simp only [List.mem_append, List.mem_cons, List.mem_map, List.not_mem_nil, or_false] at he
    rcases he with (rfl | rfl | rfl) | ⟨_, _, rfl⟩ <;> rfl)
  unfold runSession SOut.Logged at *
  simp only at h ⊢
  simp only [List.flatMap_append, List.length_append] at hh
  split
  · simp only [List.flatMap_append, List.length_append]
    simp only [List.flatMap_cons, List.flatMap_nil, cbSubmittedRef, cbCanceledRef, List.append_nil, List.length_nil,
      Nat.add_zero] at hh ⊢
    omega
  · simp only [List.flatMap_append, List.length_append]
    omega

theorem runSessions_logged (po : Nat → PriceOps P) (ms : Markets) (k start : Nat) (s : State P)
    (cfgs : List SessionCfg) (tapes : List (List (StepTape P))) : (runSessions po ms k start s cfgs tapes).Logged := by
  induction cfgs generalizing k start s tapes with
  | nil => exact pure_logged s false
  | cons cfg cfgs ih =>
    unfold runSessions
    exact andThen_logged _ _ (runSession_logged po ms k cfg start s _)
      (fun s' _ => ih (k + 1) (start + cfg.steps) s' tapes.tail)

theorem run_logged (po : Nat → PriceOps P) (ms : Markets) (price : Nat → P) (fund0 : Nat → Option P)
    (cfgs : List SessionCfg) (tapes : List (List (StepTape P))) : (run po ms price fund0 cfgs tapes).Logged := by
  have h := runSessions_logged po ms 0 0 (initState po price fund0) cfgs tapes
  have h1 := glue_counts ([Ev.simBegin, Ev.flush] ++ ticks ms) (by
    intro e he
    simp only [List.mem_append, List.mem_cons, List.not_mem_nil, or_false] at he
    rcases he with (rfl | rfl) | he
    · rfl
    · rfl
    · exact ticks_glue ms e he)
  have h2 := glue_counts (if (runSessions po ms 0 0 (initState po price fund0) cfgs tapes).out.ok
      then [Ev.simEnd, Ev.flush] else []) (by
    intro e he
    split at he
    · simp at he; rcases he with rfl | rfl <;> rfl
    · simp at he)
  unfold run SOut.Logged at *
  simp only at h ⊢
  simp only [List.flatMap_append, List.length_append] at h1 ⊢
  omega

end Pams.Sim
