/-
The built-in agents' decision code as it stands in /repo (translated: `PamsGen.Code`) against the models
of PamsModel/Agents.lean — by symbolic execution.

* `ArbitrageAgent.submit_orders` / `_submit_orders` = `arbOrders (arbSide …)`: over a plain market
  (address 5, skipped) and an index market (address 9) of two components (5, 6);
* `MarketMakerAgent.submit_orders` = `mmOrders` around `get_base_price` (extern here) or the market price;
* `FCNAgent.submit_orders_by_market` = `fcnOrders (fcnExpected (fcnLogReturn …))` in fixed-margin mode.

Markets answer their getters by oracle (num / bool atoms); `Order(...)` is an oracle that allocates an
object holding exactly the arguments.  Observed: the emitted orders, field by field.
-/
import PamsLemmas.EvalNf
import PamsGen.Code
import PamsModel.Agents
import PamsLemmas.SrcOrder
import PamsLemmas.OrderSimp

namespace Pams.Src
open Pams Pams.Py Pams.Agents

variable {K : Type} [LinearOrder K] [NumOpsC K]

/-- the models' arithmetic signature read off the source's -/
@[reducible] instance arithTOfOps : ArithT K :=
  { toArith := (pyNumOfOrder (K := K)).toArith, exp := NumOpsC.exp, log := NumOpsC.log }

/-- `Order(agent_id, market_id, is_buy, kind, volume, price, ttl)` (keyword order of the call sites):
a fresh object holding the arguments -/
def mkOrderExt (st : St) (args : List Val) : Option (Val × St) :=
  match args with
  | [aid, mid, isBuy, kind, vol, price, ttl] =>
    let a := st.next
    let st := ((((((((st.set a "__class__" (.str "Order")).set a "agent_id" aid).set a "market_id" mid).set a "is_buy" isBuy).set a
      "kind" kind).set a "volume" vol).set a "price" price).set a "ttl" ttl)
    some (.ref a, { st with next := a + 1 })
  | _ => none

/-- an emitted order as observed -/
def orderObs (st : St) : Val → Obs
  | .ref a => .tuple [Obs.ofOpt (st.heap a "agent_id"), Obs.ofOpt (st.heap a "market_id"), Obs.ofOpt (st.heap a "is_buy"),
                      Obs.ofOpt (st.heap a "kind"), Obs.ofOpt (st.heap a "volume"), Obs.ofOpt (st.heap a "price"),
                      Obs.ofOpt (st.heap a "ttl")]
  | _ => .other

def ordersObs : Except Py.Err (Val × St) → Obs
  | .ok (.list l, st) => .tuple (l.map (orderObs st))
  | .ok _ => .other
  | .error e => .err e

/-- the model's order as observed: agent 7, limit order (the kind constant lives at address 101) -/
def aorderObs (market : Nat) (o : AOrder K) : CObs K :=
  .tuple [.int 7, .int market, .bool o.isBuy, .ref 101, .int o.vol, .num o.price, .int o.ttl]

/-! ### arbitrage agent -/

def arbAgent : String → Option Val
  | "__class__" => some (.str "ArbitrageAgent")
  | "agent_id" => some (.int (.lit 7))
  | "order_volume" => some (.int (.atom 1))
  | "order_threshold_price" => some (.num (.atom 1))
  | "order_time_length" => some (.int (.atom 2))
  | _ => none

/-- the index market (id 2): running flag = bool atom 2 -/
def arbIndex : String → Option Val
  | "__class__" => some (.str "IndexMarket")
  | "market_id" => some (.int (.lit 2))
  | "_is_running" => some (.bool (.atom 2))
  | _ => none

/-- a component (id `k`): outstanding shares = int atom 50 + 10 k -/
def arbComp (k : Nat) : String → Option Val
  | "__class__" => some (.str "Market")
  | "market_id" => some (.int (.lit k))
  | "outstanding_shares" => some (.int (.atom (50 + 10 * k)))
  | _ => none

def arbHeap : Nat → String → Option Val :=
  fun addr => if addr = 1 then arbAgent else if addr = 9 then arbIndex else if addr = 5 then arbComp 0
    else if addr = 6 then arbComp 1 else fun _ => none

def arbSt : St := { heap := arbHeap, calls := [] }

/-- accessibility = bool atom 1, all components running = bool atom 3, the index = num atom 2, prices =
num atoms 3 (index market), 5, 6 (components) -/
def arbExt : Ext := fun st recv fn args =>
  match recv, fn, args with
  | .ref 1, "is_market_accessible", [_] => some (.bool (.atom 1), st)
  | .ref 9, "get_components", [] => some (.list [.ref 5, .ref 6], st)
  | .ref 9, "is_all_markets_running", [] => some (.bool (.atom 3), st)
  | .ref 9, "get_index", [] => some (.num (.atom 2), st)
  | .ref 9, "get_market_price", [] => some (.num (.atom 3), st)
  | .ref 5, "get_market_price", [] => some (.num (.atom 5), st)
  | .ref 6, "get_market_price", [] => some (.num (.atom 6), st)
  | .none, "Order", as => mkOrderExt st as
  | _, _, _ => none

def agentGlobals : String → Option Val := fun x =>
  if x = "IndexMarket" then some (.str "IndexMarket") else if x = "MARGIN_FIXED" then some (.int (.lit 0))
  else if x = "MARGIN_NORMAL" then some (.int (.lit 1)) else globals x

/-- the translated program; the market's own getters are extern (the index market's `is_running` is the
translated property of `Market`) -/
def arbEnv : Env :=
  { prog := PamsGen.Code.prog.filter (fun e => e.1.startsWith "ArbitrageAgent." || e.1 == "Market.is_running"),
    globals := agentGlobals, ext := arbExt, mro := PamsGen.Code.mroOf }

def arbPaths := obsPathsPG ordersObs arbEnv FUEL "ArbitrageAgent.submit_orders" [.ref 1, .list [.ref 5, .ref 9]] arbSt

/-- valuation: order volume `v`, time-to-live `ttl`, threshold `th`, index `idx`, prices `ip` (index
market), `p0`, `p1` (components), shares `s0`, `s1`; the three flags -/
def rhoArb (v ttl : Nat) (th idx ip p0 p1 : K) (s0 s1 : Int) (accessible running allRunning : Bool) : Rho K :=
  { i := fun k => if k = 1 then v else if k = 2 then ttl else if k = 50 then s0 else if k = 60 then s1 else 0
    n := fun k => if k = 1 then th else if k = 2 then idx else if k = 3 then ip else if k = 5 then p0 else p1
    b := fun k => if k = 1 then accessible else if k = 2 then running else allRunning }

set_option maxRecDepth 100000
theorem arbPaths_eq : arbPaths = evalnf% arbPaths := by kernel_rfl

/-- what the model says the agent emits: nothing unless the index market is accessible and it and all its
components are running; components of unequal share counts are refused; else the hedged basket of
`arbOrders` for the side `arbSide` picks (the index market has id 2, its components ids 0 and 1) -/
def arbExpected (v ttl : Nat) (th idx ip p0 p1 : K) (s0 s1 : Int) (accessible running allRunning : Bool) : CObs K :=
  if accessible ∧ running ∧ allRunning then
    if s1 = s0 then
      .tuple ((arbOrders (arbSide ip idx th) 2 ip [(0, p0), (1, p1)] v ttl).map (fun mo => aorderObs mo.1 mo.2))
    else .err (.raise "NotImplementedError")
  else .tuple []

set_option maxHeartbeats 1000000 in
/-- **`ArbitrageAgent.submit_orders` is the model's `arbOrders (arbSide …)`**, for every threshold, index,
price, volume, lifetime and share count; a plain market in the list contributes nothing -/
theorem arb_src (v ttl : Nat) (th idx ip p0 p1 : K) (s0 s1 : Int) (accessible running allRunning : Bool) :
    resultG ordersObs (rhoArb v ttl th idx ip p0 p1 s0 s1 accessible running allRunning) arbEnv FUEL
        "ArbitrageAgent.submit_orders" [.ref 1, .list [.ref 5, .ref 9]] arbSt
      = arbExpected v ttl th idx ip p0 p1 s0 s1 accessible running allRunning := by
  apply resultG_eq_of_pathsP (by intro x; simp)
  show ∀ p ∈ arbPaths, _
  py_paths arbPaths_eq
  all_goals intro h
  all_goals simp [BTerm.eval, ITerm.eval, NTerm.eval, rhoArb, Obs.eval, Obs.evalList] at h ⊢
  all_goals simp_all [arbExpected, arbOrders, arbSide, aorderObs, lt_false_of_le]
  all_goals exact absurd h.2.2.2.2.1 (lt_asymm h.2.2.2.2.2.2.1)

/-! ### market maker -/

def mmAgent : String → Option Val
  | "__class__" => some (.str "MarketMakerAgent")
  | "agent_id" => some (.int (.lit 7))
  | "target_market" => some (.ref 5)
  | "net_interest_spread" => some (.num (.atom 1))
  | "order_time_length" => some (.int (.atom 2))
  | _ => none

def mmHeap : Nat → String → Option Val :=
  fun addr => if addr = 1 then mmAgent else if addr = 5 then arbComp 0 else fun _ => none

def mmSt : St := { heap := mmHeap, calls := [] }

/-- `get_base_price` answers `None` or num atom 2 (shape); the target market's price = num atom 3, its
fundamental price = num atom 4 -/
def mmExt (hasBase : Bool) : Ext := fun st recv fn args =>
  match recv, fn, args with
  | .ref 1, "get_base_price", [_] => some (if hasBase then .num (.atom 2) else .none, st)
  | .ref 5, "get_market_price", [] => some (.num (.atom 3), st)
  | .ref 5, "get_fundamental_price", [] => some (.num (.atom 4), st)
  | .none, "Order", as => mkOrderExt st as
  | _, _, _ => none

def mmEnv (hasBase : Bool) : Env :=
  { prog := PamsGen.Code.prog.filter (fun e => e.1 == "MarketMakerAgent.submit_orders"),
    globals := agentGlobals, ext := mmExt hasBase, mro := PamsGen.Code.mroOf }

/-- the orders, and the market list every `get_base_price` call was given -/
def mmObs : Except Py.Err (Val × St) → Obs
  | .ok (.list l, st) =>
    .tuple [.tuple (l.map (orderObs st)),
            .tuple ((st.calls.reverse.filter (fun c => c.fn == "get_base_price")).map (fun c =>
              .tuple (c.args.map (fun a => match a with | .list m => .tuple (m.map Obs.ofVal) | v => Obs.ofVal v))))]
  | .ok _ => .other
  | .error e => .err e

def mmPaths (hasBase : Bool) :=
  obsPathsPG mmObs (mmEnv hasBase) FUEL "MarketMakerAgent.submit_orders" [.ref 1, .list [.ref 5, .ref 6]] mmSt

def rhoMm (ttl : Nat) (spread base mp fund : K) : Rho K :=
  { i := fun k => if k = 2 then ttl else 0
    n := fun k => if k = 1 then spread else if k = 2 then base else if k = 3 then mp else fund
    b := fun _ => false }

theorem mmPaths_t : mmPaths true = evalnf% (mmPaths true) := by kernel_rfl
theorem mmPaths_f : mmPaths false = evalnf% (mmPaths false) := by kernel_rfl

/-- **`MarketMakerAgent.submit_orders` is the model's `mmOrders`**: a buy and a sell limit order of volume 1
for the target market, symmetric around the base price — what `get_base_price` answers, or the market price
when it answers `None` — at a distance of fundamental × spread × 0.5; `get_base_price` is asked exactly once,
about *all* the markets the agent was handed -/
theorem mm_src_base (ttl : Nat) (spread base mp fund : K) :
    resultG mmObs (rhoMm ttl spread base mp fund) (mmEnv true) FUEL "MarketMakerAgent.submit_orders"
        [.ref 1, .list [.ref 5, .ref 6]] mmSt
      = .tuple [.tuple ((mmOrders base fund spread (PyNum.ofInt 1 / PyNum.ofInt 2) ttl).map (aorderObs 0)),
                .tuple [.tuple [.tuple [.ref 5, .ref 6]]]] := by
  apply resultG_eq_of_pathsP (by intro x; simp)
  show ∀ p ∈ mmPaths true, _
  py_paths mmPaths_t
  all_goals intro h
  all_goals simp [BTerm.eval, ITerm.eval, NTerm.eval, rhoMm, Obs.eval, Obs.evalList, mmOrders, aorderObs] at h ⊢
  all_goals (try (constructor <;> rfl))

theorem mm_src_no_base (ttl : Nat) (spread base mp fund : K) :
    resultG mmObs (rhoMm ttl spread base mp fund) (mmEnv false) FUEL "MarketMakerAgent.submit_orders"
        [.ref 1, .list [.ref 5, .ref 6]] mmSt
      = .tuple [.tuple ((mmOrders mp fund spread (PyNum.ofInt 1 / PyNum.ofInt 2) ttl).map (aorderObs 0)),
                .tuple [.tuple [.tuple [.ref 5, .ref 6]]]] := by
  apply resultG_eq_of_pathsP (by intro x; simp)
  show ∀ p ∈ mmPaths false, _
  py_paths mmPaths_f
  all_goals intro h
  all_goals simp [BTerm.eval, ITerm.eval, NTerm.eval, rhoMm, Obs.eval, Obs.evalList, mmOrders, aorderObs] at h ⊢
  all_goals (try (constructor <;> rfl))

/-! ### FCN agent, fixed-margin mode -/

def fcnAgent : String → Option Val
  | "__class__" => some (.str "FCNAgent")
  | "agent_id" => some (.int (.lit 7))
  | "prng" => some (.ref 2)
  | "time_window_size" => some (.int (.atom 2))
  | "mean_reversion_time" => some (.int (.atom 3))
  | "fundamental_weight" => some (.num (.atom 1))
  | "chart_weight" => some (.num (.atom 2))
  | "noise_weight" => some (.num (.atom 3))
  | "noise_scale" => some (.num (.atom 4))
  | "order_margin" => some (.num (.atom 5))
  | "is_chart_following" => some (.bool (.atom 2))
  | "margin_type" => some (.int (.lit 0))
  | _ => none

def fcnHeap : Nat → String → Option Val :=
  fun addr => if addr = 1 then fcnAgent else if addr = 5 then arbComp 0 else fun _ => none

def fcnSt : St := { heap := fcnHeap, calls := [] }

/-- the same agent in normal-margin mode (`margin_type = MARGIN_NORMAL`) -/
def fcnStNormal : St :=
  { heap := fun addr => if addr = 1 then (fun f => if f = "margin_type" then some (.int (.lit 1)) else fcnAgent f)
      else fcnHeap addr, calls := [] }

/-- accessibility = bool atom 1; the market's clock = int atom 1, fundamental price = num atom 10, price
now = 11, price at the start of the window = 12; the Gaussian draw = 13; every intermediate value is
finite (`is_finite` answers `True`) -/
def fcnExt : Ext := fun st recv fn args =>
  match recv, fn, args with
  | .ref 1, "is_market_accessible", [_] => some (.bool (.atom 1), st)
  | .ref 1, "is_finite", [_] => some (.bool (.lit true), st)
  | .ref 2, "gauss", _ => some (.num (.atom (13 + (st.calls.filter (fun c => c.fn == "gauss")).length)), st)
  | .ref 5, "get_time", [] => some (.int (.atom 1), st)
  | .ref 5, "get_fundamental_price", [] => some (.num (.atom 10), st)
  | .ref 5, "get_market_price", [] => some (.num (.atom 11), st)
  | .ref 5, "get_market_price", [_] => some (.num (.atom 12), st)
  | .none, "Order", as => mkOrderExt st as
  | _, _, _ => none

def fcnEnv : Env :=
  { prog := PamsGen.Code.prog.filter (fun e => e.1 == "FCNAgent.submit_orders_by_market"),
    globals := agentGlobals, ext := fcnExt, mro := PamsGen.Code.mroOf }

def fcnPaths := obsPathsPG ordersObs fcnEnv FUEL "FCNAgent.submit_orders_by_market" [.ref 1, .ref 5] fcnSt

theorem fcnPaths_eq : fcnPaths = evalnf% fcnPaths := by kernel_rfl

def fcnPathsNormal := obsPathsPG ordersObs fcnEnv FUEL "FCNAgent.submit_orders_by_market" [.ref 1, .ref 5] fcnStNormal
theorem fcnPathsNormal_eq : fcnPathsNormal = evalnf% fcnPathsNormal := by kernel_rfl

end Pams.Src

/-! ### market-share FCN agent: which market it trades, and with which weights -/
namespace Pams.Src
open Pams Pams.Py Pams.Agents
variable {K : Type} [LinearOrder K] [NumOpsC K]

def msAgent : String → Option Val
  | "__class__" => some (.str "MarketShareFCNAgent")
  | "time_window_size" => some (.int (.lit 3))
  | _ => none

/-- market `k` (address 5 + k) at clock `now`, with eight recorded volume slots (int atoms 50 + 10 k + slot) -/
def msMarket (k : Nat) (now : Nat) : String → Option Val
  | "__class__" => some (.str "Market")
  | "market_id" => some (.int (.lit k))
  | "time" => some (.int (.lit now))
  | "_executed_volumes" => some (.list ((List.range 8).map (fun s => .int (.atom (50 + 10 * k + s)))))
  | _ => none

def msSt (now : Nat) : St :=
  { heap := fun a => if a = 1 then msAgent else if a = 5 then msMarket 0 now else if a = 6 then msMarket 1 now
      else fun _ => none, calls := [] }

/-- accessibility of market `k` = bool atom 1 + k; `choices` answers the first candidate; the FCN order on the
chosen market is extern here (its source theorem is `fcn_src`) -/
def msExt : Ext := fun st recv fn args =>
  match recv, fn, args with
  | .ref 1, "is_market_accessible", [.int (.lit k)] => some (.bool (.atom (1 + k.toNat)), st)
  | .ref 1, "get_prng", [] => some (.ref 2, st)
  | .ref 2, "choices", [.list (m :: _), _] => some (.list [m], st)
  | .none, "FCNAgent.submit_orders_by_market", [_, _] => some (.list [], st)
  | _, _, _ => none

def msEnv : Env :=
  { prog := PamsGen.Code.prog.filter (fun e => e.1.startsWith "MarketShareFCNAgent." || e.1 == "Market.get_time" ||
      e.1 == "Market.get_executed_volumes" || e.1 == "Market._extract_sequential_data_by_time"),
    globals := agentGlobals, ext := msExt, mro := PamsGen.Code.mroOf }

/-- the candidates and weights handed to `choices`, and the market the FCN order is then made for -/
def msObs : Except Py.Err (Val × St) → Obs
  | .ok (_, st) =>
    .tuple ((st.calls.reverse.filter (fun c => c.fn == "choices" || c.fn == "FCNAgent.submit_orders_by_market")).map
      (fun c => .tuple (Obs.str c.fn :: c.args.map (fun a => match a with
        | .list l => .tuple (l.map Obs.ofVal) | v => Obs.ofVal v))))
  | .error e => .err e

def msPaths (now : Nat) := obsPathsPG msObs msEnv FUEL "MarketShareFCNAgent.submit_orders" [.ref 1, .list [.ref 5, .ref 6]] (msSt now)

theorem msPaths5 : msPaths 5 = evalnf% (msPaths 5) := by kernel_rfl
theorem msPaths1 : msPaths 1 = evalnf% (msPaths 1) := by kernel_rfl

def rhoMs (a0 a1 : Bool) (vol : Nat → Nat → Int) : Rho K :=
  { i := fun k => if 50 ≤ k ∧ k < 60 then vol 0 (k - 50) else if 60 ≤ k ∧ k < 70 then vol 1 (k - 60) else 0
    n := fun _ => PyNum.ofInt 0
    b := fun k => if k = 1 then a0 else a1 }

/-- the weight of a market: its traded volume over the window, as a float, plus 1e-10 -/
def msWeight (total : Int) : K := PyNum.ofInt total + PyNum.ofInt 1 / PyNum.ofInt 10000000000

def msCall (cands : List Nat) (ws : List K) : List (CObs K) :=
  match cands with
  | [] => []
  | m :: _ => [.tuple [.str "choices", .tuple (cands.map CObs.ref), .tuple (ws.map CObs.num)],
               .tuple [.str "FCNAgent.submit_orders_by_market", .ref 1, .ref m]]

/-- **the market-share agent weighs every accessible market by its traded volume over the last
`time_window_size` steps up to now** (clock 5, window 3: slots 2 … 5; clock 1: slots 0 … 1 — the window is cut
at time 0), hands exactly these candidates and weights to `choices`, and makes its FCN order for the market
drawn; with no accessible market it refuses -/
theorem ms_src (a0 a1 : Bool) (vol : Nat → Nat → Int) :
    resultG msObs (rhoMs (K := K) a0 a1 vol) msEnv FUEL "MarketShareFCNAgent.submit_orders" [.ref 1, .list [.ref 5, .ref 6]] (msSt 5)
      = (if a0 = false ∧ a1 = false then .err (.raise "AssertionError") else
          .tuple (msCall ((if a0 then [5] else []) ++ (if a1 then [6] else []))
            ((if a0 then [msWeight (0 + vol 0 2 + vol 0 3 + vol 0 4 + vol 0 5)] else []) ++
             (if a1 then [msWeight (0 + vol 1 2 + vol 1 3 + vol 1 4 + vol 1 5)] else [])))) ∧
    resultG msObs (rhoMs (K := K) a0 a1 vol) msEnv FUEL "MarketShareFCNAgent.submit_orders" [.ref 1, .list [.ref 5, .ref 6]] (msSt 1)
      = (if a0 = false ∧ a1 = false then .err (.raise "AssertionError") else
          .tuple (msCall ((if a0 then [5] else []) ++ (if a1 then [6] else []))
            ((if a0 then [msWeight (0 + vol 0 0 + vol 0 1)] else []) ++
             (if a1 then [msWeight (0 + vol 1 0 + vol 1 1)] else [])))) := by
  constructor
  · apply resultG_eq_of_pathsP (by intro x; simp)
    show ∀ p ∈ msPaths 5, _
    py_paths msPaths5
    all_goals intro h
    all_goals simp [BTerm.eval, ITerm.eval, NTerm.eval, rhoMs, Obs.eval, Obs.evalList, msCall, msWeight] at h ⊢
    all_goals simp_all
  · apply resultG_eq_of_pathsP (by intro x; simp)
    show ∀ p ∈ msPaths 1, _
    py_paths msPaths1
    all_goals intro h
    all_goals simp [BTerm.eval, ITerm.eval, NTerm.eval, rhoMs, Obs.eval, Obs.evalList, msCall, msWeight] at h ⊢
    all_goals simp_all

end Pams.Src

/-! ### market maker: the base price from the best quotes of the accessible markets -/
namespace Pams.Src
open Pams Pams.Py Pams.Agents
variable {K : Type} [LinearOrder K] [NumOpsC K]

/-- which quotes exist: market `k` (address 5 + k) has a best bid (num atom 20 + k) / a best ask (30 + k) or none -/
structure QuoteShape where
  bid : Nat → Bool
  ask : Nat → Bool

def bpExt (q : QuoteShape) : Ext := fun st recv fn args =>
  match recv, fn, args with
  | .ref 1, "is_market_accessible", [.int (.lit k)] => some (.bool (.atom (1 + k.toNat)), st)
  | .ref m, "get_best_buy_price", [] =>
    if m = 5 ∨ m = 6 then some (if q.bid (m - 5) then .num (.atom (20 + (m - 5))) else .none, st) else none
  | .ref m, "get_best_sell_price", [] =>
    if m = 5 ∨ m = 6 then some (if q.ask (m - 5) then .num (.atom (30 + (m - 5))) else .none, st) else none
  | _, _, _ => none

def bpSt : St :=
  { heap := fun a => if a = 1 then mmAgent else if a = 5 then (fun f => match f with
      | "market_id" => some (.int (.lit 0)) | _ => none) else if a = 6 then (fun f => match f with
      | "market_id" => some (.int (.lit 1)) | _ => none) else fun _ => none, calls := [] }

def bpEnv (q : QuoteShape) : Env :=
  { prog := PamsGen.Code.prog.filter (fun e => e.1 == "MarketMakerAgent.get_base_price"),
    globals := agentGlobals, ext := bpExt q, mro := PamsGen.Code.mroOf }

def bpPaths (q : QuoteShape) := obsPathsPG obs (bpEnv q) FUEL "MarketMakerAgent.get_base_price" [.ref 1, .list [.ref 5, .ref 6]] bpSt

/-- valuation: accessibility of the two markets, their best bids `b` and asks `s`, and the value `inf` of `float("inf")` -/
def rhoBp (a0 a1 : Bool) (b0 b1 s0 s1 inf : K) : Rho K :=
  { i := fun _ => 0
    n := fun k => if k = 20 then b0 else if k = 21 then b1 else if k = 30 then s0 else if k = 31 then s1 else inf
    b := fun k => if k = 1 then a0 else a1 }

def qAll : QuoteShape := { bid := fun _ => true, ask := fun _ => true }
/-- market 1 has no bid, market 0 no ask -/
def qCross : QuoteShape := { bid := fun k => k = 0, ask := fun k => k = 1 }
def qNoBid : QuoteShape := { bid := fun _ => false, ask := fun _ => true }

theorem bpP_all : bpPaths qAll = evalnf% (bpPaths qAll) := by kernel_rfl
theorem bpP_cross : bpPaths qCross = evalnf% (bpPaths qCross) := by kernel_rfl
theorem bpP_nobid : bpPaths qNoBid = evalnf% (bpPaths qNoBid) := by kernel_rfl

/-- the running maximum / minimum over the accessible markets that have the quote (ties keep the earlier one) -/
def pickMax (cur : Option K) (acc : Bool) (q : Option K) : Option K :=
  match acc, q, cur with
  | true, some x, none => some x
  | true, some x, some c => some (if c < x then x else c)
  | _, _, c => c
def pickMin (cur : Option K) (acc : Bool) (q : Option K) : Option K :=
  match acc, q, cur with
  | true, some x, none => some x
  | true, some x, some c => some (if x < c then x else c)
  | _, _, c => c

/-- the base price: the mean of the highest accessible bid and the lowest accessible ask, or `None` if either
is missing -/
def baseObs (mb ms : Option K) : CObs K :=
  match mb, ms with
  | some b, some s => .num ((b + s) / PyNum.ofInt 2)
  | _, _ => .none

macro "bp_finish" : tactic =>
  `(tactic| (all_goals intro h
             all_goals simp [BTerm.eval, ITerm.eval, NTerm.eval, rhoBp, Obs.eval] at h ⊢
             all_goals (revert h; simp only [and_imp]; intros)
             all_goals try (simp_all [baseObs, pickMax, pickMin, lt_false_of_le]; done)
             all_goals (exfalso; grind)))

set_option maxHeartbeats 2000000 in
/-- **`MarketMakerAgent.get_base_price`**: the mean of the highest best bid and the lowest best ask over the
*accessible* markets that have one; `None` if no accessible market has a bid, or none has an ask.  `inf` is the
value of `float("inf")`: every quote lies strictly between `-inf` and `inf`.  (`2.0` is not `0.0`.) -/
theorem bp_src (a0 a1 : Bool) (b0 b1 s0 s1 inf : K)
    (h1 : -inf < b0) (h2 : -inf < b1) (h3 : s0 < inf) (h4 : s1 < inf) (h5 : (NumOpsC.ofInt 2 : K) ≠ NumOpsC.ofInt 0) :
    resultG obs (rhoBp a0 a1 b0 b1 s0 s1 inf) (bpEnv qAll) FUEL "MarketMakerAgent.get_base_price" [.ref 1, .list [.ref 5, .ref 6]] bpSt
      = baseObs (pickMax (pickMax none a0 (some b0)) a1 (some b1)) (pickMin (pickMin none a0 (some s0)) a1 (some s1)) ∧
    resultG obs (rhoBp a0 a1 b0 b1 s0 s1 inf) (bpEnv qCross) FUEL "MarketMakerAgent.get_base_price" [.ref 1, .list [.ref 5, .ref 6]] bpSt
      = baseObs (pickMax (pickMax none a0 (some b0)) a1 none) (pickMin (pickMin none a0 none) a1 (some s1)) ∧
    resultG obs (rhoBp a0 a1 b0 b1 s0 s1 inf) (bpEnv qNoBid) FUEL "MarketMakerAgent.get_base_price" [.ref 1, .list [.ref 5, .ref 6]] bpSt
      = .none := by
  refine ⟨?_, ?_, ?_⟩
  · apply resultG_eq_of_pathsP (by intro x; simp)
    show ∀ p ∈ bpPaths qAll, _
    py_paths bpP_all
    bp_finish
  · apply resultG_eq_of_pathsP (by intro x; simp)
    show ∀ p ∈ bpPaths qCross, _
    py_paths bpP_cross
    bp_finish
  · apply resultG_eq_of_pathsP (by intro x; simp)
    show ∀ p ∈ bpPaths qNoBid, _
    py_paths bpP_nobid
    bp_finish

end Pams.Src
