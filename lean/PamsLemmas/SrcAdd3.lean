/-
`Market._add_order` of the current source = the model's `Market.addOrder`, shape by shape (see
SrcAddDefs.lean for the setting): part 3.
-/
import PamsLemmas.SrcAddPaths3
import PamsLemmas.SrcAddTac

namespace Pams.Src
open Pams Pams.Py
variable {K : Type} [LinearOrder K] [NumOpsC K]
set_option maxRecDepth 100000
set_option maxHeartbeats 1000000

theorem add_src_tt_limit (m : Market K) (r : Req K) (o : Order K) (tick dflt pr po mp : K)
    (hb : m.buys = [o]) (hs : m.sells = []) (hside : r.isBuy = true) (hprice : r.price = some pr) (httl : r.ttl = none)
    (hos : o.isBuy = true) (hop : o.price = some po) (ht : m.time = 0) (hl : m.cur.last = none) (hm : m.cur.mid = none)
    (hmk : m.cur.market = some mp) (htick : tick ≠ NumOpsC.ofInt 0) (hoid : o.id ≠ m.nextId) :
    resultG addObs (rhoAdd m r o tick dflt) env XFUEL "Market._add_order" [.ref 5, .ref 1] (stAdd true true false false 0 .limit false false)
      = modelAddObs m r (m.addOrder (srcOpsT K tick) r) := by
  rcases m with ⟨time, running, nextId, buys, sells, gone, ⟨cmk, clast, cmid, cfund, cev, cto, cnb, cns⟩, past⟩
  rcases r with ⟨agr, isBuyr, pricer, volr, ttlr⟩
  rcases o with ⟨ido, ago, isBuyo, priceo, volo, plo, ttlo⟩
  simp only at hb hs hside hprice httl hos hop ht hl hm hmk hoid
  subst hb hs hside hprice httl hos hop ht hl hm hmk
  apply resultG_eq_of_pathsP hrefl_order
  show ∀ p ∈ addPaths true true false false 0 .limit false false, _
  py_paths addP_tt_limit
  add_paths_finish

theorem add_src_tt_market (m : Market K) (r : Req K) (o : Order K) (tick dflt pr po mp : K)
    (hb : m.buys = [o]) (hs : m.sells = []) (hside : r.isBuy = true) (hprice : r.price = some pr) (httl : r.ttl = none)
    (hos : o.isBuy = true) (hop : o.price = none) (ht : m.time = 0) (hl : m.cur.last = none) (hm : m.cur.mid = none)
    (hmk : m.cur.market = some mp) (htick : tick ≠ NumOpsC.ofInt 0) (hoid : o.id ≠ m.nextId) :
    resultG addObs (rhoAdd m r o tick dflt) env XFUEL "Market._add_order" [.ref 5, .ref 1] (stAdd true true false false 0 .market false false)
      = modelAddObs m r (m.addOrder (srcOpsT K tick) r) := by
  rcases m with ⟨time, running, nextId, buys, sells, gone, ⟨cmk, clast, cmid, cfund, cev, cto, cnb, cns⟩, past⟩
  rcases r with ⟨agr, isBuyr, pricer, volr, ttlr⟩
  rcases o with ⟨ido, ago, isBuyo, priceo, volo, plo, ttlo⟩
  simp only at hb hs hside hprice httl hos hop ht hl hm hmk hoid
  subst hb hs hside hprice httl hos hop ht hl hm hmk
  apply resultG_eq_of_pathsP hrefl_order
  show ∀ p ∈ addPaths true true false false 0 .market false false, _
  py_paths addP_tt_market
  add_paths_finish

theorem add_src_tf_limit (m : Market K) (r : Req K) (o : Order K) (tick dflt pr po mp : K)
    (hb : m.buys = [o]) (hs : m.sells = []) (hside : r.isBuy = true) (hprice : r.price = none) (httl : r.ttl = none)
    (hos : o.isBuy = true) (hop : o.price = some po) (ht : m.time = 0) (hl : m.cur.last = none) (hm : m.cur.mid = none)
    (hmk : m.cur.market = some mp) (htick : tick ≠ NumOpsC.ofInt 0) (hoid : o.id ≠ m.nextId) :
    resultG addObs (rhoAdd m r o tick dflt) env XFUEL "Market._add_order" [.ref 5, .ref 1] (stAdd true false false false 0 .limit false false)
      = modelAddObs m r (m.addOrder (srcOpsT K tick) r) := by
  rcases m with ⟨time, running, nextId, buys, sells, gone, ⟨cmk, clast, cmid, cfund, cev, cto, cnb, cns⟩, past⟩
  rcases r with ⟨agr, isBuyr, pricer, volr, ttlr⟩
  rcases o with ⟨ido, ago, isBuyo, priceo, volo, plo, ttlo⟩
  simp only at hb hs hside hprice httl hos hop ht hl hm hmk hoid
  subst hb hs hside hprice httl hos hop ht hl hm hmk
  apply resultG_eq_of_pathsP hrefl_order
  show ∀ p ∈ addPaths true false false false 0 .limit false false, _
  py_paths addP_tf_limit
  add_paths_finish

theorem add_src_tf_market (m : Market K) (r : Req K) (o : Order K) (tick dflt pr po mp : K)
    (hb : m.buys = [o]) (hs : m.sells = []) (hside : r.isBuy = true) (hprice : r.price = none) (httl : r.ttl = none)
    (hos : o.isBuy = true) (hop : o.price = none) (ht : m.time = 0) (hl : m.cur.last = none) (hm : m.cur.mid = none)
    (hmk : m.cur.market = some mp) (htick : tick ≠ NumOpsC.ofInt 0) (hoid : o.id ≠ m.nextId) :
    resultG addObs (rhoAdd m r o tick dflt) env XFUEL "Market._add_order" [.ref 5, .ref 1] (stAdd true false false false 0 .market false false)
      = modelAddObs m r (m.addOrder (srcOpsT K tick) r) := by
  rcases m with ⟨time, running, nextId, buys, sells, gone, ⟨cmk, clast, cmid, cfund, cev, cto, cnb, cns⟩, past⟩
  rcases r with ⟨agr, isBuyr, pricer, volr, ttlr⟩
  rcases o with ⟨ido, ago, isBuyo, priceo, volo, plo, ttlo⟩
  simp only at hb hs hside hprice httl hos hop ht hl hm hmk hoid
  subst hb hs hside hprice httl hos hop ht hl hm hmk
  apply resultG_eq_of_pathsP hrefl_order
  show ∀ p ∈ addPaths true false false false 0 .market false false, _
  py_paths addP_tf_market
  add_paths_finish

theorem add_src_ft_limit (m : Market K) (r : Req K) (o : Order K) (tick dflt pr po mp : K)
    (hb : m.buys = []) (hs : m.sells = [o]) (hside : r.isBuy = false) (hprice : r.price = some pr) (httl : r.ttl = none)
    (hos : o.isBuy = false) (hop : o.price = some po) (ht : m.time = 0) (hl : m.cur.last = none) (hm : m.cur.mid = none)
    (hmk : m.cur.market = some mp) (htick : tick ≠ NumOpsC.ofInt 0) (hoid : o.id ≠ m.nextId) :
    resultG addObs (rhoAdd m r o tick dflt) env XFUEL "Market._add_order" [.ref 5, .ref 1] (stAdd false true false false 0 .limit false false)
      = modelAddObs m r (m.addOrder (srcOpsT K tick) r) := by
  rcases m with ⟨time, running, nextId, buys, sells, gone, ⟨cmk, clast, cmid, cfund, cev, cto, cnb, cns⟩, past⟩
  rcases r with ⟨agr, isBuyr, pricer, volr, ttlr⟩
  rcases o with ⟨ido, ago, isBuyo, priceo, volo, plo, ttlo⟩
  simp only at hb hs hside hprice httl hos hop ht hl hm hmk hoid
  subst hb hs hside hprice httl hos hop ht hl hm hmk
  apply resultG_eq_of_pathsP hrefl_order
  show ∀ p ∈ addPaths false true false false 0 .limit false false, _
  py_paths addP_ft_limit
  add_paths_finish

theorem add_src_ft_market (m : Market K) (r : Req K) (o : Order K) (tick dflt pr po mp : K)
    (hb : m.buys = []) (hs : m.sells = [o]) (hside : r.isBuy = false) (hprice : r.price = some pr) (httl : r.ttl = none)
    (hos : o.isBuy = false) (hop : o.price = none) (ht : m.time = 0) (hl : m.cur.last = none) (hm : m.cur.mid = none)
    (hmk : m.cur.market = some mp) (htick : tick ≠ NumOpsC.ofInt 0) (hoid : o.id ≠ m.nextId) :
    resultG addObs (rhoAdd m r o tick dflt) env XFUEL "Market._add_order" [.ref 5, .ref 1] (stAdd false true false false 0 .market false false)
      = modelAddObs m r (m.addOrder (srcOpsT K tick) r) := by
  rcases m with ⟨time, running, nextId, buys, sells, gone, ⟨cmk, clast, cmid, cfund, cev, cto, cnb, cns⟩, past⟩
  rcases r with ⟨agr, isBuyr, pricer, volr, ttlr⟩
  rcases o with ⟨ido, ago, isBuyo, priceo, volo, plo, ttlo⟩
  simp only at hb hs hside hprice httl hos hop ht hl hm hmk hoid
  subst hb hs hside hprice httl hos hop ht hl hm hmk
  apply resultG_eq_of_pathsP hrefl_order
  show ∀ p ∈ addPaths false true false false 0 .market false false, _
  py_paths addP_ft_market
  add_paths_finish

theorem add_src_ff_limit (m : Market K) (r : Req K) (o : Order K) (tick dflt pr po mp : K)
    (hb : m.buys = []) (hs : m.sells = [o]) (hside : r.isBuy = false) (hprice : r.price = none) (httl : r.ttl = none)
    (hos : o.isBuy = false) (hop : o.price = some po) (ht : m.time = 0) (hl : m.cur.last = none) (hm : m.cur.mid = none)
    (hmk : m.cur.market = some mp) (htick : tick ≠ NumOpsC.ofInt 0) (hoid : o.id ≠ m.nextId) :
    resultG addObs (rhoAdd m r o tick dflt) env XFUEL "Market._add_order" [.ref 5, .ref 1] (stAdd false false false false 0 .limit false false)
      = modelAddObs m r (m.addOrder (srcOpsT K tick) r) := by
  rcases m with ⟨time, running, nextId, buys, sells, gone, ⟨cmk, clast, cmid, cfund, cev, cto, cnb, cns⟩, past⟩
  rcases r with ⟨agr, isBuyr, pricer, volr, ttlr⟩
  rcases o with ⟨ido, ago, isBuyo, priceo, volo, plo, ttlo⟩
  simp only at hb hs hside hprice httl hos hop ht hl hm hmk hoid
  subst hb hs hside hprice httl hos hop ht hl hm hmk
  apply resultG_eq_of_pathsP hrefl_order
  show ∀ p ∈ addPaths false false false false 0 .limit false false, _
  py_paths addP_ff_limit
  add_paths_finish

theorem add_src_ff_market (m : Market K) (r : Req K) (o : Order K) (tick dflt pr po mp : K)
    (hb : m.buys = []) (hs : m.sells = [o]) (hside : r.isBuy = false) (hprice : r.price = none) (httl : r.ttl = none)
    (hos : o.isBuy = false) (hop : o.price = none) (ht : m.time = 0) (hl : m.cur.last = none) (hm : m.cur.mid = none)
    (hmk : m.cur.market = some mp) (htick : tick ≠ NumOpsC.ofInt 0) (hoid : o.id ≠ m.nextId) :
    resultG addObs (rhoAdd m r o tick dflt) env XFUEL "Market._add_order" [.ref 5, .ref 1] (stAdd false false false false 0 .market false false)
      = modelAddObs m r (m.addOrder (srcOpsT K tick) r) := by
  rcases m with ⟨time, running, nextId, buys, sells, gone, ⟨cmk, clast, cmid, cfund, cev, cto, cnb, cns⟩, past⟩
  rcases r with ⟨agr, isBuyr, pricer, volr, ttlr⟩
  rcases o with ⟨ido, ago, isBuyo, priceo, volo, plo, ttlo⟩
  simp only at hb hs hside hprice httl hos hop ht hl hm hmk hoid
  subst hb hs hside hprice httl hos hop ht hl hm hmk
  apply resultG_eq_of_pathsP hrefl_order
  show ∀ p ∈ addPaths false false false false 0 .market false false, _
  py_paths addP_ff_market
  add_paths_finish

/-- an order that carries a stamp already is refused (`ValueError`): an order object is accepted at
most once -/
theorem add_src_stamped (m : Market K) (r : Req K) (o : Order K) (tick dflt : K) :
    resultG addObs (rhoAdd m r o tick dflt) env XFUEL "Market._add_order" [.ref 5, .ref 1]
        (stAdd true true false true 0 .none false false) = .err (.raise "ValueError") := by
  apply resultG_eq_of_pathsP hrefl_order
  show ∀ p ∈ addPaths true true false true 0 .none false false, _
  py_paths addP_stamped
  all_goals intro h
  all_goals simp [Obs.eval] at h ⊢

/-- an order that names another market is refused (`ValueError`) -/
theorem add_src_foreign (m : Market K) (r : Req K) (o : Order K) (tick dflt : K) :
    resultG addObs (rhoAdd m r o tick dflt) env XFUEL "Market._add_order" [.ref 5, .ref 1]
        (stAdd true true false false 1 .none false false) = .err (.raise "ValueError") := by
  apply resultG_eq_of_pathsP hrefl_order
  show ∀ p ∈ addPaths true true false false 1 .none false false, _
  py_paths addP_foreign
  all_goals intro h
  all_goals simp [Obs.eval] at h ⊢

end Pams.Src
