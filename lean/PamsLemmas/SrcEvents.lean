/-
The built-in events as they stand in /repo (translated: `PamsGen.Code`) compute what the models in
`PamsModel/Events.lean` say — by symbolic execution of the source.

Heap layout: the order at address 1 (`SrcOrder.symOrder`), the rule / shock object at 3, the target
market at 5, another (non-target) market at 6, the simulator at 7, the current session at 8.
`market.get_market_price(..)`, `market.get_time()`, `market.change_fundamental_price(..)` are
extern calls: the oracle answers price queries with num atoms (4 = the price at time 0 of market 5,
6 = its current price), the clock with int atom 51.
-/
import PamsLemmas.EvalNf
import PamsGen.Code
import PamsModel.Events
import PamsLemmas.SrcOrder

namespace Pams.Src
open Pams Pams.Py

variable {K : Type} [LinearOrder K] [NumOpsC K]

/-- a market object: id, running flag, clock as atoms -/
def symMarket (k : Nat) : String → Option Val
  | "__class__" => some (.str "Market")
  | "market_id" => some (.int (.lit k))
  | "_is_running" => some (.bool (.atom (10 * k)))
  | "time" => some (.int (.atom (10 * k + 1)))
  | _ => none

/-- price limit rule with the single target market at address 5 -/
def plrObj : String → Option Val
  | "__class__" => some (.str "PriceLimitRule")
  | "target_markets" => some (.dict [.str "m5"] [.ref 5])
  | "trigger_change_rate" => some (.num (.atom 3))
  | "activation_count" => some (.int (.atom 30))
  | _ => none

def simObj : String → Option Val
  | "__class__" => some (.str "Simulator")
  | "id2market" => some (.dict [.int (.lit 5), .int (.lit 6)] [.ref 5, .ref 6])
  | "current_session" => some (.ref 8)
  | _ => none

def sessionObj : String → Option Val
  | "__class__" => some (.str "Session")
  | "with_order_execution" => some (.bool (.atom 80))
  | _ => none

/-- extern calls of the event code -/
def evExt : Ext := fun st recv fn args =>
  match recv, fn, args with
  | .ref 5, "get_market_price", [.int (.lit 0)] => some (.num (.atom 4), st)
  | .ref 5, "get_market_price", [] => some (.num (.atom 6), st)
  | .ref 6, "get_market_price", [.int (.lit 0)] => some (.num (.atom 7), st)
  | .ref 6, "get_market_price", [] => some (.num (.atom 8), st)
  | .ref 5, "get_time", [] => some (.int (.atom 51), st)
  | .ref 6, "get_time", [] => some (.int (.atom 61), st)
  | .ref _, "change_fundamental_price", [_] => some (.none, st)
  | _, _, _ => none

/-- the translated program without the market's own `change_fundamental_price` and price getters (a call of one is an
extern call here: the events are stated modulo the market's methods) -/
def evProg : List (String × FunDef) :=
  PamsGen.Code.prog.filter (fun e => !(e.1 == "Market.change_fundamental_price" ||
    e.1 == "Market.get_market_price" || e.1 == "Market.get_fundamental_price" || e.1 == "Market.get_mid_price" ||
    e.1 == "Market.get_last_executed_price"))

def evEnv : Env := { prog := evProg, globals := globals, ext := evExt }

/-! ### `PriceLimitRule.get_limited_price` -/

def plrHeap (limit : Bool) : Nat → String → Option Val :=
  fun addr => if addr = 1 then symOrder 1 limit false else if addr = 3 then plrObj
    else if addr = 5 then symMarket 5 else if addr = 6 then symMarket 6 else if addr = 7 then simObj
    else if addr = 100 then kindObj 0 else if addr = 101 then kindObj 1 else fun _ => none

def plrSt (limit : Bool) : St := { heap := plrHeap limit, calls := [] }

/-- valuation: price of the order `p` (num atom 1), rate `r` (3), reference price `p0` (4) -/
def rhoClip (p r p0 : K) (x : Nat → Int) (y : Nat → Bool) : Rho K :=
  { i := x, n := fun k => if k = 1 then p else if k = 3 then r else if k = 4 then p0 else p0, b := y }

def clipPaths (limit : Bool) (m : Nat) :=
  obsPaths evEnv FUEL "PriceLimitRule.get_limited_price" [.ref 3, .ref 1, .ref m] (plrSt limit)

set_option maxRecDepth 100000
theorem clipPaths_t : clipPaths true 5 = evalnf% (clipPaths true 5) := by kernel_rfl
theorem clipPaths_f : clipPaths false 5 = evalnf% (clipPaths false 5) := by kernel_rfl
theorem clipPaths_other : clipPaths true 6 = evalnf% (clipPaths true 6) := by kernel_rfl

/-- **`get_limited_price` on a limit order of the target market is the model's `clip`** -/
theorem get_limited_price_correct (p r p0 : K) (x : Nat → Int) (y : Nat → Bool) :
    result (rhoClip p r p0 x y) evEnv FUEL "PriceLimitRule.get_limited_price" [.ref 3, .ref 1, .ref 5]
      (plrSt true) = .num (Events.clip p0 r p) := by
  apply result_eq_of_paths
  show ∀ q ∈ clipPaths true 5, _
  py_paths clipPaths_t
  all_goals intro h
  all_goals simp [BTerm.eval, ITerm.eval, NTerm.eval, rhoClip, Obs.eval, Events.clip, Arith.abs, Arith.max,
    Arith.min] at h ⊢
  all_goals grind

/-- a market order passes unchanged (`None`) -/
theorem get_limited_price_market_order (p r p0 : K) (x : Nat → Int) (y : Nat → Bool) :
    result (rhoClip p r p0 x y) evEnv FUEL "PriceLimitRule.get_limited_price" [.ref 3, .ref 1, .ref 5]
      (plrSt false) = .none := by
  apply result_eq_of_paths
  show ∀ q ∈ clipPaths false 5, _
  py_paths clipPaths_f
  all_goals intro h
  all_goals simp [Obs.eval] at h ⊢

/-- asked about a market that is not a target, it refuses (`AssertionError`) -/
theorem get_limited_price_non_target (p r p0 : K) (x : Nat → Int) (y : Nat → Bool) :
    result (rhoClip p r p0 x y) evEnv FUEL "PriceLimitRule.get_limited_price" [.ref 3, .ref 1, .ref 6]
      (plrSt true) = .err (.raise "AssertionError") := by
  apply result_eq_of_paths
  show ∀ q ∈ clipPaths true 6, _
  py_paths clipPaths_other
  all_goals intro h
  all_goals simp [Obs.eval] at h ⊢


/-! ### `PriceLimitRule.hooked_before_order` -/

/-- what the hook does to the world: the order's price and the rule's activation counter -/
def plrObs : Except Err (Val × St) → Obs
  | .ok (_, st) => .tuple [Obs.ofOpt (st.heap 1 "price"), Obs.ofOpt (st.heap 3 "activation_count")]
  | .error e => .err e

def plrHookPaths (limit : Bool) :=
  obsPathsG plrObs evEnv FUEL "PriceLimitRule.hooked_before_order" [.ref 3, .ref 7, .ref 1] (plrSt limit)

theorem plrHookPaths_t : plrHookPaths true = evalnf% (plrHookPaths true) := by kernel_rfl
theorem plrHookPaths_f : plrHookPaths false = evalnf% (plrHookPaths false) := by kernel_rfl

/-- valuation for the hook: additionally the order's market id (int atom 15) and the activation
counter (int atom 30) -/
def rhoHook (p r p0 : K) (market : Nat) (acts : Nat) (y : Nat → Bool) : Rho K :=
  { i := fun k => if k = 15 then market else if k = 30 then acts else 0,
    n := fun k => if k = 1 then p else if k = 3 then r else if k = 4 then p0 else p0, b := y }

/-- **`hooked_before_order` is the model's `limitHook`**: a limit order for the target market (5)
has its price replaced by `clip`, the counter goes up iff the price changed; an order for the other
market (6) is left alone -/
theorem plr_hook_target (p r p0 : K) (acts : Nat) (y : Nat → Bool) :
    resultG plrObs (rhoHook p r p0 5 acts y) evEnv FUEL "PriceLimitRule.hooked_before_order"
      [.ref 3, .ref 7, .ref 1] (plrSt true)
      = .tuple [.num ((Events.limitHook [5] (fun _ => p0) r 5 (some p)).getD p),
                .int (if Events.clip p0 r p = p then acts else acts + 1)] := by
  apply resultG_eq_of_paths
  show ∀ q ∈ plrHookPaths true, _
  py_paths plrHookPaths_t
  all_goals intro h
  all_goals simp [BTerm.eval, ITerm.eval, NTerm.eval, rhoHook, Obs.eval, Obs.evalList, Events.limitHook, Events.clip,
    Arith.abs, Arith.max, Arith.min] at h ⊢
  all_goals grind

theorem plr_hook_other_market (p r p0 : K) (acts : Nat) (y : Nat → Bool) :
    resultG plrObs (rhoHook p r p0 6 acts y) evEnv FUEL "PriceLimitRule.hooked_before_order"
      [.ref 3, .ref 7, .ref 1] (plrSt true)
      = .tuple [.num ((Events.limitHook [5] (fun _ => p0) r 6 (some p)).getD p), .int acts] := by
  apply resultG_eq_of_paths
  show ∀ q ∈ plrHookPaths true, _
  py_paths plrHookPaths_t
  all_goals intro h
  all_goals simp [BTerm.eval, ITerm.eval, NTerm.eval, rhoHook, Obs.eval, Obs.evalList, Events.limitHook] at h ⊢

theorem plr_hook_market_order (p r p0 : K) (m acts : Nat) (hm : m = 5 ∨ m = 6) (y : Nat → Bool) :
    resultG plrObs (rhoHook p r p0 m acts y) evEnv FUEL "PriceLimitRule.hooked_before_order"
      [.ref 3, .ref 7, .ref 1] (plrSt false) = .tuple [.none, .int acts] := by
  apply resultG_eq_of_paths
  show ∀ q ∈ plrHookPaths false, _
  py_paths plrHookPaths_f
  all_goals intro h
  all_goals simp [BTerm.eval, ITerm.eval, NTerm.eval, rhoHook, Obs.eval, Obs.evalList] at h ⊢
  all_goals omega


/-! ### `TradingHaltRule` -/

/-- the rule object; `hm` / `hs` = what `halting_market` / `halting_session` hold
(0 = `None`, otherwise the address) -/
def thrObj (hm hs : Nat) : String → Option Val
  | "__class__" => some (.str "TradingHaltRule")
  | "target_markets" => some (.dict [.str "m5"] [.ref 5])
  | "trigger_change_rate" => some (.num (.atom 3))
  | "activation_count" => some (.int (.atom 30))
  | "halting_time_started" => some (.int (.atom 31))
  | "halting_time_length" => some (.int (.atom 32))
  | "halting_market" => some (if hm = 0 then .none else .ref hm)
  | "halting_session" => some (if hs = 0 then .none else .ref hs)
  | _ => none

def execLogObj : String → Option Val
  | "__class__" => some (.str "ExecutionLog")
  | "market_id" => some (.int (.atom 95))
  | _ => none

def thrHeap (hm hs : Nat) : Nat → String → Option Val :=
  fun addr => if addr = 3 then thrObj hm hs else if addr = 5 then symMarket 5 else if addr = 6 then symMarket 6
    else if addr = 7 then simObj else if addr = 8 then sessionObj else if addr = 9 then execLogObj
    else fun _ => none

def thrSt (hm hs : Nat) : St := { heap := thrHeap hm hs, calls := [] }

/-- what the hooks do to the world: the target market's running flag, the rule's bookkeeping, the
session's execution flag -/
def thrObs : Except Err (Val × St) → Obs
  | .ok (_, st) => .tuple [Obs.ofOpt (st.heap 5 "_is_running"), Obs.ofOpt (st.heap 3 "halting_time_started"),
      Obs.ofOpt (st.heap 3 "activation_count"), Obs.ofOpt (st.heap 8 "with_order_execution"),
      Obs.ofOpt (st.heap 3 "halting_market"), Obs.ofOpt (st.heap 3 "halting_session")]
  | .error e => .err e

def thrAfterPaths :=
  obsPathsG thrObs evEnv FUEL "TradingHaltRule.hooked_after_execution" [.ref 3, .ref 7, .ref 9] (thrSt 0 0)
theorem thrAfterPaths_eq : thrAfterPaths = evalnf% thrAfterPaths := by kernel_rfl

/-- valuation: the fill's market (int atom 95), the target's clock (51), the rule's counters
(30 activations, 31 started, 32 length), rate (num 3), time-0 price (4), current price (6), the
target's running flag (bool 50), the session's flag (80) -/
def rhoHalt (r p0 p : K) (mkt time acts started length : Nat) (running sesFlag : Bool) : Rho K :=
  { i := fun k => if k = 95 then mkt else if k = 51 then time else if k = 30 then acts
      else if k = 31 then started else if k = 32 then length else 0,
    n := fun k => if k = 3 then r else if k = 4 then p0 else if k = 6 then p else p0,
    b := fun k => if k = 50 then running else sesFlag }

/-- **`hooked_after_execution` is the model's `haltAfterFill` with `haltTest`**: after a fill on the
target market (5) while it is running, iff the halt test holds the market and the session stop
matching, the halt is stamped with the market's clock and the counter goes up; otherwise nothing
changes -/
theorem thr_after_execution (r p0 p : K) (time acts started length : Nat) (running sesFlag : Bool) :
    resultG thrObs (rhoHalt r p0 p 5 time acts started length running sesFlag) evEnv FUEL
      "TradingHaltRule.hooked_after_execution" [.ref 3, .ref 7, .ref 9] (thrSt 0 0)
      = (let s : Events.HaltState := { halted := none, startedAt := started, activations := acts }
         let r' := Events.haltAfterFill [5] s 5 running (Events.haltTest p0 r p acts) time
         .tuple [.bool (if r'.2 then false else running), .int r'.1.startedAt, .int r'.1.activations,
                 .bool (if r'.2 then false else sesFlag),
                 (if r'.2 then .ref 5 else .none), (if r'.2 then .ref 8 else .none)]) := by
  apply resultG_eq_of_paths
  show ∀ q ∈ thrAfterPaths, _
  py_paths thrAfterPaths_eq
  all_goals intro h
  all_goals simp [BTerm.eval, ITerm.eval, NTerm.eval, rhoHalt, Obs.eval, Obs.evalList, Events.haltAfterFill,
    Events.haltTest, Arith.abs] at h ⊢
  all_goals grind

def thrBeforePaths (hm hs : Nat) :=
  obsPathsG thrObs evEnv FUEL "TradingHaltRule.hooked_before_step_for_market" [.ref 3, .ref 7, .ref 5] (thrSt hm hs)
theorem thrBeforePaths_58 : thrBeforePaths 5 8 = evalnf% (thrBeforePaths 5 8) := by kernel_rfl
theorem thrBeforePaths_00 : thrBeforePaths 0 0 = evalnf% (thrBeforePaths 0 0) := by kernel_rfl
theorem thrBeforePaths_68 : thrBeforePaths 6 8 = evalnf% (thrBeforePaths 6 8) := by kernel_rfl
theorem thrBeforePaths_59 : thrBeforePaths 5 9 = evalnf% (thrBeforePaths 5 9) := by kernel_rfl

/-- **`hooked_before_step_for_market` is the model's `haltBeforeStep`**: with a halt of this rule in
force on the market in the current session, the market and the session resume iff more than
`length` steps have passed since the halt began -/
theorem thr_before_step_in_force (r p0 p : K) (time acts started length : Nat) (running sesFlag : Bool) :
    resultG thrObs (rhoHalt r p0 p 5 time acts started length running sesFlag) evEnv FUEL
      "TradingHaltRule.hooked_before_step_for_market" [.ref 3, .ref 7, .ref 5] (thrSt 5 8)
      = (let s : Events.HaltState := { halted := some 5, startedAt := started, activations := acts }
         let r' := Events.haltBeforeStep length s 5 time
         .tuple [.bool (if r'.2 then true else running), .int r'.1.startedAt, .int r'.1.activations,
                 .bool (if r'.2 then true else sesFlag),
                 (if r'.2 then .none else .ref 5), (if r'.2 then .none else .ref 8)]) := by
  apply resultG_eq_of_paths
  show ∀ q ∈ thrBeforePaths 5 8, _
  py_paths thrBeforePaths_58
  all_goals intro h
  all_goals simp [BTerm.eval, ITerm.eval, NTerm.eval, rhoHalt, Obs.eval, Obs.evalList, Events.haltBeforeStep] at h ⊢
  all_goals grind

/-- with no halt of this rule in force (none at all, one on another market, or one of an earlier
session) the hook changes nothing, however much time has passed -/
theorem thr_before_step_no_halt (r p0 p : K) (time acts started length : Nat) (running sesFlag : Bool)
    (hm hs : Nat) (h : (hm = 0 ∧ hs = 0) ∨ (hm = 6 ∧ hs = 8) ∨ (hm = 5 ∧ hs = 9)) :
    resultG thrObs (rhoHalt r p0 p 5 time acts started length running sesFlag) evEnv FUEL
      "TradingHaltRule.hooked_before_step_for_market" [.ref 3, .ref 7, .ref 5] (thrSt hm hs)
      = .tuple [.bool running, .int started, .int acts, .bool sesFlag,
                (if hm = 0 then .none else .ref hm), (if hs = 0 then .none else .ref hs)] := by
  apply resultG_eq_of_paths
  rcases h with ⟨rfl, rfl⟩ | ⟨rfl, rfl⟩ | ⟨rfl, rfl⟩
  · show ∀ q ∈ thrBeforePaths 0 0, _
    py_paths thrBeforePaths_00
    all_goals intro h
    all_goals simp [BTerm.eval, ITerm.eval, NTerm.eval, rhoHalt, Obs.eval, Obs.evalList] at h ⊢
  · show ∀ q ∈ thrBeforePaths 6 8, _
    py_paths thrBeforePaths_68
    all_goals intro h
    all_goals simp [BTerm.eval, ITerm.eval, NTerm.eval, rhoHalt, Obs.eval, Obs.evalList] at h ⊢
  · show ∀ q ∈ thrBeforePaths 5 9, _
    py_paths thrBeforePaths_59
    all_goals intro h
    all_goals simp [BTerm.eval, ITerm.eval, NTerm.eval, rhoHalt, Obs.eval, Obs.evalList] at h ⊢


/-- a fill on a market that is not a target changes nothing -/
theorem thr_after_execution_other_market (r p0 p : K) (time acts started length : Nat) (running sesFlag : Bool) :
    resultG thrObs (rhoHalt r p0 p 6 time acts started length running sesFlag) evEnv FUEL
      "TradingHaltRule.hooked_after_execution" [.ref 3, .ref 7, .ref 9] (thrSt 0 0)
      = .tuple [.bool running, .int started, .int acts, .bool sesFlag, .none, .none] := by
  apply resultG_eq_of_paths
  show ∀ q ∈ thrAfterPaths, _
  py_paths thrAfterPaths_eq
  all_goals intro h
  all_goals simp [BTerm.eval, ITerm.eval, NTerm.eval, rhoHalt, Obs.eval, Obs.evalList] at h ⊢
  all_goals grind

/-! ### `OrderMistakeShock.hooked_before_order` -/

def omsObj : String → Option Val
  | "__class__" => some (.str "OrderMistakeShock")
  | "triggerd" => some (.bool (.atom 33))
  | "target_market" => some (.ref 5)
  | "simulator" => some (.ref 7)
  | "price_change_rate" => some (.num (.atom 3))
  | "order_time_length" => some (.int (.atom 34))
  | "order_volume" => some (.int (.atom 35))
  | _ => none

def omsHeap (limit : Bool) : Nat → String → Option Val :=
  fun addr => if addr = 1 then symOrder 1 limit false else if addr = 3 then omsObj
    else if addr = 5 then symMarket 5 else if addr = 6 then symMarket 6 else if addr = 7 then simObj
    else if addr = 100 then kindObj 0 else if addr = 101 then kindObj 1 else fun _ => none

def omsSt (limit : Bool) : St := { heap := omsHeap limit, calls := [] }

/-- the order's fields and the shock's flag after the hook -/
def omsObs : Except Err (Val × St) → Obs
  | .ok (_, st) => .tuple [Obs.ofOpt (st.heap 1 "is_buy"), Obs.ofOpt (st.heap 1 "kind"),
      Obs.ofOpt (st.heap 1 "volume"), Obs.ofOpt (st.heap 1 "price"), Obs.ofOpt (st.heap 1 "ttl"),
      Obs.ofOpt (st.heap 3 "triggerd")]
  | .error e => .err e

def omsPaths (limit : Bool) :=
  obsPathsG omsObs evEnv FUEL "OrderMistakeShock.hooked_before_order" [.ref 3, .ref 7, .ref 1] (omsSt limit)
theorem omsPaths_t : omsPaths true = evalnf% (omsPaths true) := by kernel_rfl
theorem omsPaths_f : omsPaths false = evalnf% (omsPaths false) := by kernel_rfl

/-- valuation: the order (price num 1, volume int 13, side bool 10, market int 15), the shock (rate
num 3, lifetime int 34, volume int 35, flag bool 33), the target's current price (num 6) -/
def rhoOms (p rate mp : K) (mkt vol0 ttl vol : Nat) (isBuy trig : Bool) : Rho K :=
  { i := fun k => if k = 15 then mkt else if k = 13 then vol0 else if k = 34 then ttl else if k = 35 then vol else 0,
    n := fun k => if k = 1 then p else if k = 3 then rate else if k = 6 then mp else mp,
    b := fun k => if k = 10 then isBuy else trig }

/-- **`hooked_before_order` is the model's `mistakeHook`**: the first order for the target market
is replaced by a limit order of the configured volume and lifetime priced at market price ×
(1 + rate), buying iff the rate is positive; any other order (other market, or the shock already
spent) is left alone -/
theorem oms_hook (p rate mp : K) (mkt vol0 ttl vol : Nat) (isBuy trig : Bool) :
    resultG omsObs (rhoOms p rate mp mkt vol0 ttl vol isBuy trig) evEnv FUEL
      "OrderMistakeShock.hooked_before_order" [.ref 3, .ref 7, .ref 1] (omsSt true)
      = (match Events.mistakeHook 5 rate vol ttl { triggered := trig } mkt mp with
         | (s, some m) => .tuple [.bool m.isBuy, .ref 101, .int m.vol, .num m.price, .int m.ttl, .bool s.triggered]
         | (s, none) => .tuple [.bool isBuy, .ref 101, .int vol0, .num p, .none, .bool s.triggered]) := by
  apply resultG_eq_of_paths
  show ∀ q ∈ omsPaths true, _
  py_paths omsPaths_t
  all_goals intro h
  all_goals simp [BTerm.eval, ITerm.eval, NTerm.eval, rhoOms, Obs.eval, Obs.evalList, Events.mistakeHook] at h ⊢
  all_goals grind

/-! ### `FundamentalPriceShock.hooked_before_step_for_market` -/

def fpsObj : String → Option Val
  | "__class__" => some (.str "FundamentalPriceShock")
  | "target_market" => some (.ref 5)
  | "trigger_time" => some (.int (.atom 36))
  | "shock_time_length" => some (.int (.atom 37))
  | "price_change_rate" => some (.num (.atom 3))
  | _ => none

def fpsHeap : Nat → String → Option Val :=
  fun addr => if addr = 3 then fpsObj else if addr = 5 then symMarket 5 else if addr = 6 then symMarket 6
    else if addr = 7 then simObj else fun _ => none

def fpsSt : St := { heap := fpsHeap, calls := [] }

/-- the extern calls made (most recent first): name, receiver, first argument -/
def callsObs : Except Err (Val × St) → Obs
  | .ok (_, st) => .tuple (st.calls.map (fun c => .tuple [.str c.fn, Obs.ofVal c.recv, Obs.ofOpt c.args.head?]))
  | .error e => .err e

def fpsPaths (m : Nat) :=
  obsPathsG callsObs evEnv FUEL "FundamentalPriceShock.hooked_before_step_for_market" [.ref 3, .ref 7, .ref m] fpsSt
theorem fpsPaths_5 : fpsPaths 5 = evalnf% (fpsPaths 5) := by kernel_rfl
theorem fpsPaths_6 : fpsPaths 6 = evalnf% (fpsPaths 6) := by kernel_rfl

def rhoFps (rate : K) (time trigger length : Nat) : Rho K :=
  { i := fun k => if k = 51 then time else if k = 61 then time else if k = 36 then trigger else if k = 37 then length else 0,
    n := fun _ => rate, b := fun _ => false }

/-- **the shock multiplies the target's fundamental by `1 + rate`, once, at a step of its window**
(one call of `change_fundamental_price(scale = 1 + rate)` on the target and no other call), and
refuses to run outside the window -/
theorem fps_hook (rate : K) (time trigger length : Nat) :
    resultG callsObs (rhoFps rate time trigger length) evEnv FUEL
      "FundamentalPriceShock.hooked_before_step_for_market" [.ref 3, .ref 7, .ref 5] fpsSt
      = (if trigger ≤ time ∧ time < trigger + length then
           .tuple [.tuple [.str "change_fundamental_price", .ref 5, .num ((NumOpsC.ofInt 1 : K) + rate)]]
         else .err (.raise "AssertionError")) := by
  apply resultG_eq_of_paths
  show ∀ q ∈ fpsPaths 5, _
  py_paths fpsPaths_5
  all_goals intro h
  all_goals simp [BTerm.eval, ITerm.eval, NTerm.eval, rhoFps, Obs.eval, Obs.evalList] at h ⊢
  all_goals grind

/-- dispatched for a market other than its target it refuses -/
theorem fps_hook_other_market (rate : K) (time trigger length : Nat) :
    ∃ e, resultG callsObs (rhoFps rate time trigger length) evEnv FUEL
      "FundamentalPriceShock.hooked_before_step_for_market" [.ref 3, .ref 7, .ref 6] fpsSt = .err e := by
  apply resultG_of_paths callsObs _ _ _ _ _ _ (fun r => ∃ e, r = .err e)
  show ∀ q ∈ fpsPaths 6, _
  py_paths fpsPaths_6
  all_goals intro h
  all_goals simp [Obs.eval] at h ⊢

end Pams.Src
