/-
`SequentialRunner._handle_orders` / `_collect_orders_from_normal_agents` as they stand in /repo are the
scheduler model's `Runner.handle` / `Runner.collect` — by symbolic execution, shape by shape (see
SrcRunnerDefs.lean for what a shape fixes and what stays quantified).
-/
import PamsLemmas.EvalNf
import PamsLemmas.SrcRunnerDefs
import PamsLemmas.OrderSimp

namespace Pams.Src
open Pams Pams.Py Pams.Runner
variable {K : Type} [LinearOrder K] [NumOpsC K]


/-! ### shapes of `_handle_orders` -/

/-- one order of agent 1 filled at once against agent 2; the high-frequency agent 3 answers with an order -/
def shA : RShape :=
  { reqs := [⟨10, false, 1, 0⟩, ⟨12, false, 3, 0⟩], batches := [[10]], shuffled := [[10]],
    hft := [3], perm := [3], normal := [], nperm := [],
    answer := fun a => if a = 3 then [12] else [],
    fills := fun r => if r = 10 then [⟨30, 1, 2, false⟩] else [] }

/-- a cancel of agent 1; the high-frequency agent has nothing to submit -/
def shB : RShape :=
  { reqs := [⟨10, true, 1, 0⟩], batches := [[10]], shuffled := [[10]],
    hft := [3], perm := [3], normal := [], nperm := [],
    answer := fun _ => [],
    fills := fun _ => [] }

/-- the fill of the first order makes a hook halt trading; the high-frequency order placed afterwards
would be filled too if a round ran -/
def shC : RShape :=
  { reqs := [⟨10, false, 1, 0⟩, ⟨12, false, 3, 0⟩], batches := [[10]], shuffled := [[10]],
    hft := [3], perm := [3], normal := [], nperm := [],
    answer := fun a => if a = 3 then [12] else [],
    fills := fun r => if r = 10 then [⟨30, 1, 2, true⟩] else [⟨31, 3, 1, false⟩] }

/-- two fills in one round, the first of which halts trading -/
def shD : RShape :=
  { reqs := [⟨10, false, 1, 1⟩], batches := [[10]], shuffled := [[10]],
    hft := [], perm := [], normal := [], nperm := [],
    answer := fun _ => [],
    fills := fun _ => [⟨30, 1, 2, true⟩, ⟨31, 2, 1, false⟩] }

/-- the high-frequency agent 3 submits an order in the name of agent 1 -/
def shE : RShape :=
  { reqs := [⟨10, false, 1, 0⟩, ⟨12, false, 1, 0⟩], batches := [[10]], shuffled := [[10]],
    hft := [3], perm := [3], normal := [], nperm := [],
    answer := fun a => if a = 3 then [12] else [],
    fills := fun _ => [] }

/-- two normal batches handled in the order `sample` gives (reversed), each followed by its own
high-frequency round over two agents in the order `sample` gives (reversed) -/
def shF : RShape :=
  { reqs := [⟨10, false, 1, 0⟩, ⟨11, true, 2, 1⟩, ⟨12, false, 3, 0⟩, ⟨13, false, 4, 1⟩],
    batches := [[10], [11]], shuffled := [[11], [10]],
    hft := [3, 4], perm := [4, 3], normal := [], nperm := [],
    answer := fun a => if a = 3 then [12] else if a = 4 then [13] else [],
    fills := fun r => if r = 13 then [⟨30, 4, 1, false⟩] else [] }

/-- one batch of two requests: an order whose fill halts trading, then a cancel on another market -/
def shG : RShape :=
  { reqs := [⟨10, false, 1, 0⟩, ⟨11, true, 1, 1⟩], batches := [[10, 11]], shuffled := [[10, 11]],
    hft := [], perm := [], normal := [], nperm := [],
    answer := fun _ => [],
    fills := fun r => if r = 10 then [⟨30, 2, 1, true⟩] else [⟨31, 1, 2, false⟩] }

set_option maxRecDepth 100000
theorem hPathsA : handlePaths shA = evalnf% (handlePaths shA) := by kernel_rfl
theorem hPathsB : handlePaths shB = evalnf% (handlePaths shB) := by kernel_rfl
theorem hPathsC : handlePaths shC = evalnf% (handlePaths shC) := by kernel_rfl
theorem hPathsD : handlePaths shD = evalnf% (handlePaths shD) := by kernel_rfl
theorem hPathsE : handlePaths shE = evalnf% (handlePaths shE) := by kernel_rfl
theorem hPathsF : handlePaths shF = evalnf% (handlePaths shF) := by kernel_rfl
theorem hPathsG : handlePaths shG = evalnf% (handlePaths shG) := by kernel_rfl

/-- closes the per-path goals: the path's conditions decide the model's tests -/
macro "runner_finish " sh:ident : tactic =>
  `(tactic| (all_goals intro h
             all_goals simp [BTerm.eval, ITerm.eval, NTerm.eval, rhoRun, Obs.eval, Obs.evalList] at h ⊢
             all_goals simp_all [lt_false_of_le, le_false_of_lt, outObs, RShape.model, RShape.rounds, RShape.requests,
               RShape.request, $sh:ident, handle, processBatch, processRequest, Out.andThen, hftRound, fillEvents,
               flagAfterFills, evCalls, traceCalls, cCall, mkts, mktAddr, agentAddr, logAddr]))

/-- the statement for a shape: under `with_order_placement`, for every value of the execution flag, the
rate, the draws and the caps, what `_handle_orders` does to its world is what the model's `handle` says -/
def HandleSpec (K : Type) [LinearOrder K] [NumOpsC K] (sh : RShape) : Prop :=
  ∀ (flag : Bool) (rate : K) (draw : Nat → K) (capH capN : Int),
    resultG runnerObs (rhoRun true flag rate draw capH capN) (rEnv sh) FUEL "SequentialRunner._handle_orders"
        [.ref 1, .ref 4, .list (sh.batches.map refs)] (rSt sh)
      = outObs (sh.model flag rate draw capH)

theorem handle_src_A : HandleSpec K shA := by
  intro flag rate draw capH capN
  apply resultG_eq_of_pathsP (by intro x; simp)
  show ∀ p ∈ handlePaths shA, _
  py_paths hPathsA
  runner_finish shA

theorem handle_src_B : HandleSpec K shB := by
  intro flag rate draw capH capN
  apply resultG_eq_of_pathsP (by intro x; simp)
  show ∀ p ∈ handlePaths shB, _
  py_paths hPathsB
  runner_finish shB

theorem handle_src_C : HandleSpec K shC := by
  intro flag rate draw capH capN
  apply resultG_eq_of_pathsP (by intro x; simp)
  show ∀ p ∈ handlePaths shC, _
  py_paths hPathsC
  runner_finish shC

theorem handle_src_D : HandleSpec K shD := by
  intro flag rate draw capH capN
  apply resultG_eq_of_pathsP (by intro x; simp)
  show ∀ p ∈ handlePaths shD, _
  py_paths hPathsD
  runner_finish shD

theorem handle_src_E : HandleSpec K shE := by
  intro flag rate draw capH capN
  apply resultG_eq_of_pathsP (by intro x; simp)
  show ∀ p ∈ handlePaths shE, _
  py_paths hPathsE
  runner_finish shE

theorem handle_src_F : HandleSpec K shF := by
  intro flag rate draw capH capN
  apply resultG_eq_of_pathsP (by intro x; simp)
  show ∀ p ∈ handlePaths shF, _
  py_paths hPathsF
  runner_finish shF

theorem handle_src_G : HandleSpec K shG := by
  intro flag rate draw capH capN
  apply resultG_eq_of_pathsP (by intro x; simp)
  show ∀ p ∈ handlePaths shG, _
  py_paths hPathsG
  runner_finish shG

/-- with placement switched off, a request in `local_orders` is refused before anything happens -/
theorem handle_src_placement_off (flag : Bool) (rate : K) (draw : Nat → K) (capH capN : Int) :
    resultG runnerObs (rhoRun false flag rate draw capH capN) (rEnv shA) FUEL "SequentialRunner._handle_orders"
        [.ref 1, .ref 4, .list (shA.batches.map refs)] (rSt shA)
      = .err (.raise "AssertionError") := by
  apply resultG_eq_of_pathsP (by intro x; simp)
  show ∀ p ∈ handlePaths shA, _
  py_paths hPathsA
  all_goals intro h
  all_goals simp [BTerm.eval, ITerm.eval, NTerm.eval, rhoRun, Obs.eval, Obs.evalList] at h ⊢

/-! ### shapes of `_collect_orders_from_normal_agents` -/

/-- agents 1 and 2, consulted in the order `sample` gives (2 first); both answer with one request -/
def cA : RShape :=
  { reqs := [⟨10, false, 1, 0⟩, ⟨11, true, 2, 1⟩], batches := [], shuffled := [],
    hft := [], perm := [], normal := [1, 2], nperm := [2, 1],
    answer := fun a => if a = 1 then [10] else if a = 2 then [11] else [],
    fills := fun _ => [] }

/-- agent 2 has nothing to submit, agent 1 submits two requests at once (one batch, counted once) -/
def cB : RShape :=
  { reqs := [⟨10, false, 1, 0⟩, ⟨13, false, 1, 1⟩], batches := [], shuffled := [],
    hft := [], perm := [], normal := [1, 2], nperm := [2, 1],
    answer := fun a => if a = 1 then [10, 13] else [],
    fills := fun _ => [] }

/-- agent 2 submits an order in the name of agent 1 -/
def cC : RShape :=
  { reqs := [⟨10, false, 1, 0⟩], batches := [], shuffled := [],
    hft := [], perm := [], normal := [1, 2], nperm := [2, 1],
    answer := fun a => if a = 2 then [10] else [],
    fills := fun _ => [] }

theorem cPathsA : collectPaths cA = evalnf% (collectPaths cA) := by kernel_rfl
theorem cPathsB : collectPaths cB = evalnf% (collectPaths cB) := by kernel_rfl
theorem cPathsC : collectPaths cC = evalnf% (collectPaths cC) := by kernel_rfl

/-- the model's `collect` on the shape, as observed: the consultations and the batches returned -/
def RShape.collectModel (sh : RShape) (capN : Int) : List Ev × Bool × List (Nat × List Request) :=
  collect false capN (fun a => sh.requests (sh.answer a)) sh.nperm 0

def collectOut (r : List Ev × Bool × List (Nat × List Request)) : CObs K :=
  if r.2.1 then .tuple [.tuple (traceCalls 4 r.1), .tuple (r.2.2.map (fun b => .tuple (b.2.map (fun q => CObs.ref q.ref))))]
  else .err (.raise "ValueError")

def CollectSpec (K : Type) [LinearOrder K] [NumOpsC K] (sh : RShape) : Prop :=
  ∀ (flag : Bool) (rate : K) (draw : Nat → K) (capH capN : Int),
    resultG collectObs (rhoRun true flag rate draw capH capN) (rEnv sh) FUEL
        "SequentialRunner._collect_orders_from_normal_agents" [.ref 1, .ref 4] (rSt sh)
      = collectOut (sh.collectModel capN)

macro "collect_finish " sh:ident : tactic =>
  `(tactic| (all_goals intro h
             all_goals simp [BTerm.eval, ITerm.eval, NTerm.eval, rhoRun, Obs.eval, Obs.evalList] at h ⊢
             all_goals simp_all [lt_false_of_le, le_false_of_lt, collectOut, RShape.collectModel, RShape.requests,
               RShape.request, $sh:ident, collect, evCalls, traceCalls, cCall, mkts, mktAddr, agentAddr, logAddr]))

theorem collect_src_A : CollectSpec K cA := by
  intro flag rate draw capH capN
  apply resultG_eq_of_pathsP (by intro x; simp)
  show ∀ p ∈ collectPaths cA, _
  py_paths cPathsA
  collect_finish cA

theorem collect_src_B : CollectSpec K cB := by
  intro flag rate draw capH capN
  apply resultG_eq_of_pathsP (by intro x; simp)
  show ∀ p ∈ collectPaths cB, _
  py_paths cPathsB
  collect_finish cB

theorem collect_src_C : CollectSpec K cC := by
  intro flag rate draw capH capN
  apply resultG_eq_of_pathsP (by intro x; simp)
  show ∀ p ∈ collectPaths cC, _
  py_paths cPathsC
  collect_finish cC

/-- with placement switched off, the first non-empty answer is refused -/
theorem collect_src_placement_off (flag : Bool) (rate : K) (draw : Nat → K) (capH capN : Int) (hc : 0 < capN) :
    resultG collectObs (rhoRun false flag rate draw capH capN) (rEnv cA) FUEL
        "SequentialRunner._collect_orders_from_normal_agents" [.ref 1, .ref 4] (rSt cA)
      = .err (.raise "AssertionError") := by
  apply resultG_eq_of_pathsP (by intro x; simp)
  show ∀ p ∈ collectPaths cA, _
  py_paths cPathsA
  all_goals intro h
  all_goals simp [BTerm.eval, ITerm.eval, NTerm.eval, rhoRun, Obs.eval, Obs.evalList] at h ⊢
  all_goals omega

end Pams.Src
