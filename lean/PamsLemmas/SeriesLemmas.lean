import PamsLemmas.MarketLemmas

set_option linter.unusedSectionVars false

namespace Pams
variable {P : Type} [LinearOrder P]

theorem refresh_past (ops : PriceOps P) (m : Market P) : (m.refresh ops).past = m.past := rfl
theorem refresh_time (ops : PriceOps P) (m : Market P) : (m.refresh ops).time = m.time := rfl
theorem refresh_running (ops : PriceOps P) (m : Market P) : (m.refresh ops).running = m.running := rfl
theorem refresh_buys (ops : PriceOps P) (m : Market P) : (m.refresh ops).buys = m.buys := rfl
theorem refresh_sells (ops : PriceOps P) (m : Market P) : (m.refresh ops).sells = m.sells := rfl

theorem addOrder_past (ops : PriceOps P) (m : Market P) (r : Req P) :
    (m.addOrder ops r).1.past = m.past ∧ (m.addOrder ops r).1.time = m.time ∧
    (m.addOrder ops r).1.running = m.running := by
  unfold Market.addOrder
  cases r.isBuy <;> simp [Market.refresh]

theorem cancel_past (ops : PriceOps P) (m m' : Market P) (id : Nat) (l : CancelLog P)
    (hc : m.cancel ops id = .ok (m', l)) :
    m'.past = m.past ∧ m'.time = m.time ∧ m'.running = m.running := by
  unfold Market.cancel at hc
  split at hc
  · simp at hc; obtain ⟨rfl, _⟩ := hc; simp [Market.refresh]
  · split at hc
    · simp at hc; obtain ⟨rfl, _⟩ := hc; simp [Market.refresh]
    · split at hc
      · simp at hc; obtain ⟨rfl, _⟩ := hc; simp [Market.refresh]
      · simp at hc

theorem execution_past (ops : PriceOps P) (m m' : Market P) (fs : List (Fill P))
    (he : m.execution ops = .ok (m', fs)) :
    m'.past = m.past ∧ m'.time = m.time ∧ m'.running = m.running := by
  rcases execution_cases ops m m' fs he with ⟨_, rfl, _⟩ | ⟨_, _, price, _, hs⟩
  · exact ⟨rfl, rfl, rfl⟩
  · have hm' : m' = (m.settle ops (walk m.buys m.sells) price).1 := congrArg Prod.fst hs
    rw [hm']; simp [Market.settle, Market.refresh]

/-- every operation other than a clock step leaves the clock and the recorded past alone; a clock
step advances the clock by one and appends the slot that was current -/
theorem step_clock_past (ops : PriceOps P) (m : Market P) (o : Op P) :
    (∀ f, o ≠ .tick f) → (∀ k f, o ≠ .jump k f) →
      (m.step ops o).1.past = m.past ∧ (m.step ops o).1.time = m.time := by
  intro hnt hnj
  cases o with
  | add r => exact ⟨(addOrder_past ops m r).1, (addOrder_past ops m r).2.1⟩
  | cancel id =>
    simp only [Market.step]
    rcases hc : m.cancel ops id with e | ⟨m', l⟩
    · exact ⟨rfl, rfl⟩
    · have := cancel_past ops m m' id l hc; exact ⟨this.1, this.2.1⟩
  | exec =>
    simp only [Market.step]
    rcases hc : m.execution ops with e | ⟨m', fs⟩
    · exact ⟨rfl, rfl⟩
    · have := execution_past ops m m' fs hc; exact ⟨this.1, this.2.1⟩
  | tick f => exact absurd rfl (hnt f)
  | jump k f => exact absurd rfl (hnj k f)
  | setRunning b => exact ⟨rfl, rfl⟩
  | setFund f => exact ⟨rfl, rfl⟩

theorem tick_clock_past (ops : PriceOps P) (m : Market P) (f : Option P) :
    (m.tick ops f).1.past = m.cur :: m.past ∧ (m.tick ops f).1.time = m.time + 1 := by
  simp [Market.tick]

theorem setTime_clock_past (ops : PriceOps P) (m : Market P) (k : Nat) (f : Option P) :
    (m.setTime ops k f).1.past = List.replicate (k - 1) (Slot.empty ops) ++ (m.cur :: m.past) ∧
    (m.setTime ops k f).1.time = m.time + k := by
  simp [Market.setTime]

/-- a past slot read through the getter -/
theorem slotAt_past (m : Market P) (t : Nat) (ht : t < m.time) : m.slotAt t = m.pastAt t := by
  unfold Market.slotAt
  have h1 : ¬ t > m.time := by omega
  have h2 : ¬ t = m.time := by omega
  simp [h1, h2]

end Pams
