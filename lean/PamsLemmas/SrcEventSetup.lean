/-
`setup` of the four built-in events as it stands in /repo (translated: `PamsGen.Code`): how the configured
values become the event's parameters — in particular that a shock's trigger time is counted from the start
of its own session — and which configurations are refused; by symbolic execution.

Setting: the event at address 3 (defaults: enabled, shock length 1), its session at 12 (start = int atom 80),
the simulator at 7 knowing the markets "m0" (address 5) and "m1" (address 6).  The settings hold
`triggerTime` = int atom 1, the rate = num atom 1, lengths / volumes = int atoms 2, 3, `enabled` = bool atom 1.
-/
import PamsLemmas.EvalNf
import PamsGen.Code
import PamsLemmas.SrcOrder

namespace Pams.Src
open Pams Pams.Py

variable {K : Type} [LinearOrder K] [NumOpsC K]

def setupEvent (cls : String) : String → Option Val
  | "__class__" => some (.str cls)
  | "session" => some (.ref 12)
  | "simulator" => some (.ref 7)
  | "is_enabled" => some (.bool (.lit true))
  | "shock_time_length" => some (.int (.lit 1))
  | "target_markets" => some (.dict [] [])
  | _ => none

def setupSt (cls : String) : St :=
  { heap := fun a => if a = 3 then setupEvent cls
      else if a = 12 then (fun f => match f with | "session_start_time" => some (.int (.atom 80)) | _ => none)
      else if a = 7 then (fun f => match f with
        | "name2market" => some (.dict [.str "m0", .str "m1"] [.ref 5, .ref 6]) | _ => none)
      else fun _ => none, calls := [] }

def setupEnv : Env := { prog := PamsGen.Code.prog, globals := globals, ext := fun _ _ _ _ => none, mro := PamsGen.Code.mroOf }

/-- the event's parameters afterwards -/
def setupObs : Except Py.Err (Val × St) → Obs
  | .ok (_, st) =>
    .tuple [Obs.ofOpt (st.heap 3 "trigger_time"), Obs.ofOpt (st.heap 3 "target_market"),
            (match st.heap 3 "target_markets" with
             | some (.dict ks vs) => .tuple [.tuple (ks.map Obs.ofVal), .tuple (vs.map Obs.ofVal)] | _ => .absent),
            Obs.ofOpt (st.heap 3 "price_change_rate"), Obs.ofOpt (st.heap 3 "trigger_change_rate"),
            Obs.ofOpt (st.heap 3 "shock_time_length"), Obs.ofOpt (st.heap 3 "halting_time_length"),
            Obs.ofOpt (st.heap 3 "order_volume"), Obs.ofOpt (st.heap 3 "order_time_length"),
            Obs.ofOpt (st.heap 3 "is_enabled")]
  | .error e => .err e

def setupPaths (cls : String) (settings : Val) :=
  obsPathsPG setupObs setupEnv FUEL (cls ++ ".setup") [.ref 3, settings] (setupSt cls)

def rhoSetup (start trig len vol : Int) (rate : K) (enabled : Bool) : Rho K :=
  { i := fun k => if k = 80 then start else if k = 1 then trig else if k = 2 then len else vol
    n := fun _ => rate, b := fun _ => enabled }

def dictOfPairs (l : List (String × Val)) : Val := .dict (l.map (fun kv => .str kv.1)) (l.map (·.2))

def fpsFull : Val := dictOfPairs [("target", .str "m1"), ("triggerTime", .int (.atom 1)), ("priceChangeRate", .num (.atom 1)),
  ("shockTimeLength", .int (.atom 2)), ("enabled", .bool (.atom 1))]
def fpsMin : Val := dictOfPairs [("target", .str "m0"), ("triggerTime", .int (.atom 1)), ("priceChangeRate", .num (.atom 1))]
def fpsDays : Val := dictOfPairs [("target", .str "m0"), ("triggerDays", .int (.lit 1)), ("triggerTime", .int (.atom 1)),
  ("priceChangeRate", .num (.atom 1))]
def fpsFloatTime : Val := dictOfPairs [("target", .str "m0"), ("triggerTime", .num (.atom 1)), ("priceChangeRate", .num (.atom 1))]
def omsFull : Val := dictOfPairs [("target", .str "m1"), ("triggerTime", .int (.atom 1)), ("priceChangeRate", .num (.atom 1)),
  ("orderVolume", .int (.atom 3)), ("orderTimeLength", .int (.atom 2)), ("enabled", .bool (.atom 1))]
def omsUnknown : Val := dictOfPairs [("target", .str "zz"), ("triggerTime", .int (.atom 1)), ("priceChangeRate", .num (.atom 1)),
  ("orderVolume", .int (.atom 3)), ("orderTimeLength", .int (.atom 2))]
def thrFull : Val := dictOfPairs [("targetMarkets", .list [.str "m1", .str "m0"]), ("triggerChangeRate", .num (.atom 1)),
  ("haltingTimeLength", .int (.atom 2)), ("enabled", .bool (.atom 1))]
def thrIntRate : Val := dictOfPairs [("targetMarkets", .list [.str "m0"]), ("triggerChangeRate", .int (.lit 1)),
  ("haltingTimeLength", .int (.atom 2))]
def plrFull : Val := dictOfPairs [("targetMarkets", .list [.str "m0"]), ("triggerChangeRate", .num (.atom 1))]
def plrUnknown : Val := dictOfPairs [("targetMarkets", .list [.str "m0", .str "zz"]), ("triggerChangeRate", .num (.atom 1))]

set_option maxRecDepth 100000
theorem suE_fps : setupPaths "FundamentalPriceShock" fpsFull = evalnf% (setupPaths "FundamentalPriceShock" fpsFull) := by kernel_rfl
theorem suE_fpsMin : setupPaths "FundamentalPriceShock" fpsMin = evalnf% (setupPaths "FundamentalPriceShock" fpsMin) := by kernel_rfl
theorem suE_fpsDays : setupPaths "FundamentalPriceShock" fpsDays = evalnf% (setupPaths "FundamentalPriceShock" fpsDays) := by kernel_rfl
theorem suE_fpsFloat : setupPaths "FundamentalPriceShock" fpsFloatTime = evalnf% (setupPaths "FundamentalPriceShock" fpsFloatTime) := by kernel_rfl
theorem suE_oms : setupPaths "OrderMistakeShock" omsFull = evalnf% (setupPaths "OrderMistakeShock" omsFull) := by kernel_rfl
theorem suE_omsU : setupPaths "OrderMistakeShock" omsUnknown = evalnf% (setupPaths "OrderMistakeShock" omsUnknown) := by kernel_rfl
theorem suE_thr : setupPaths "TradingHaltRule" thrFull = evalnf% (setupPaths "TradingHaltRule" thrFull) := by kernel_rfl
theorem suE_thrI : setupPaths "TradingHaltRule" thrIntRate = evalnf% (setupPaths "TradingHaltRule" thrIntRate) := by kernel_rfl
theorem suE_plr : setupPaths "PriceLimitRule" plrFull = evalnf% (setupPaths "PriceLimitRule" plrFull) := by kernel_rfl
theorem suE_plrU : setupPaths "PriceLimitRule" plrUnknown = evalnf% (setupPaths "PriceLimitRule" plrUnknown) := by kernel_rfl

macro "setup_finish" : tactic =>
  `(tactic| (all_goals intro h
             all_goals simp [BTerm.eval, ITerm.eval, NTerm.eval, rhoSetup, Obs.eval, Obs.evalList] at h ⊢))

/-- **the shocks' trigger time is counted from the start of their own session**: `trigger_time = session start +
triggerTime`; the target is the market of that name; the optional length and switch are taken when given, the
defaults (length 1, enabled) kept otherwise -/
theorem setup_src_shocks (start trig len vol : Int) (rate : K) (enabled : Bool) :
    resultG setupObs (rhoSetup start trig len vol rate enabled) setupEnv FUEL "FundamentalPriceShock.setup" [.ref 3, fpsFull]
        (setupSt "FundamentalPriceShock")
      = .tuple [.int (start + trig), .ref 6, .tuple [.tuple [], .tuple []], .num rate, .absent, .int len, .absent, .absent,
                .absent, .bool enabled] ∧
    resultG setupObs (rhoSetup start trig len vol rate enabled) setupEnv FUEL "FundamentalPriceShock.setup" [.ref 3, fpsMin]
        (setupSt "FundamentalPriceShock")
      = .tuple [.int (start + trig), .ref 5, .tuple [.tuple [], .tuple []], .num rate, .absent, .int 1, .absent, .absent,
                .absent, .bool true] ∧
    resultG setupObs (rhoSetup start trig len vol rate enabled) setupEnv FUEL "OrderMistakeShock.setup" [.ref 3, omsFull]
        (setupSt "OrderMistakeShock")
      = .tuple [.int (start + trig), .ref 6, .tuple [.tuple [], .tuple []], .num rate, .absent, .int 1, .absent, .int vol,
                .int len, .bool enabled] := by
  refine ⟨?_, ?_, ?_⟩
  · apply resultG_eq_of_pathsP (by intro x; simp)
    show ∀ p ∈ setupPaths "FundamentalPriceShock" fpsFull, _
    py_paths suE_fps
    setup_finish
  · apply resultG_eq_of_pathsP (by intro x; simp)
    show ∀ p ∈ setupPaths "FundamentalPriceShock" fpsMin, _
    py_paths suE_fpsMin
    setup_finish
  · apply resultG_eq_of_pathsP (by intro x; simp)
    show ∀ p ∈ setupPaths "OrderMistakeShock" omsFull, _
    py_paths suE_oms
    setup_finish

/-- the rules: the target table holds the named markets in the order listed, rate and halting length as
configured -/
theorem setup_src_rules (start trig len vol : Int) (rate : K) (enabled : Bool) :
    resultG setupObs (rhoSetup start trig len vol rate enabled) setupEnv FUEL "TradingHaltRule.setup" [.ref 3, thrFull]
        (setupSt "TradingHaltRule")
      = .tuple [.absent, .absent, .tuple [.tuple [.str "m1", .str "m0"], .tuple [.ref 6, .ref 5]], .absent, .num rate, .int 1,
                .int len, .absent, .absent, .bool enabled] ∧
    resultG setupObs (rhoSetup start trig len vol rate enabled) setupEnv FUEL "PriceLimitRule.setup" [.ref 3, plrFull]
        (setupSt "PriceLimitRule")
      = .tuple [.absent, .absent, .tuple [.tuple [.str "m0"], .tuple [.ref 5]], .absent, .num rate, .int 1, .absent, .absent,
                .absent, .bool true] := by
  refine ⟨?_, ?_⟩
  · apply resultG_eq_of_pathsP (by intro x; simp)
    show ∀ p ∈ setupPaths "TradingHaltRule" thrFull, _
    py_paths suE_thr
    setup_finish
  · apply resultG_eq_of_pathsP (by intro x; simp)
    show ∀ p ∈ setupPaths "PriceLimitRule" plrFull, _
    py_paths suE_plr
    setup_finish

/-- refused configurations: the obsolete `triggerDays`, a trigger time that is not an int, an unknown target
market, an int where the rate must be a float -/
theorem setup_src_refusals (start trig len vol : Int) (rate : K) (enabled : Bool) :
    resultG setupObs (rhoSetup start trig len vol rate enabled) setupEnv FUEL "FundamentalPriceShock.setup" [.ref 3, fpsDays]
        (setupSt "FundamentalPriceShock") = .err (.raise "ValueError") ∧
    resultG setupObs (rhoSetup start trig len vol rate enabled) setupEnv FUEL "FundamentalPriceShock.setup" [.ref 3, fpsFloatTime]
        (setupSt "FundamentalPriceShock") = .err (.raise "ValueError") ∧
    resultG setupObs (rhoSetup start trig len vol rate enabled) setupEnv FUEL "OrderMistakeShock.setup" [.ref 3, omsUnknown]
        (setupSt "OrderMistakeShock") = .err (.raise "ValueError") ∧
    resultG setupObs (rhoSetup start trig len vol rate enabled) setupEnv FUEL "TradingHaltRule.setup" [.ref 3, thrIntRate]
        (setupSt "TradingHaltRule") = .err (.raise "ValueError") ∧
    resultG setupObs (rhoSetup start trig len vol rate enabled) setupEnv FUEL "PriceLimitRule.setup" [.ref 3, plrUnknown]
        (setupSt "PriceLimitRule") = .err (.raise "ValueError") := by
  refine ⟨?_, ?_, ?_, ?_, ?_⟩
  · apply resultG_eq_of_pathsP (by intro x; simp)
    show ∀ p ∈ setupPaths "FundamentalPriceShock" fpsDays, _
    py_paths suE_fpsDays
    setup_finish
  · apply resultG_eq_of_pathsP (by intro x; simp)
    show ∀ p ∈ setupPaths "FundamentalPriceShock" fpsFloatTime, _
    py_paths suE_fpsFloat
    setup_finish
  · apply resultG_eq_of_pathsP (by intro x; simp)
    show ∀ p ∈ setupPaths "OrderMistakeShock" omsUnknown, _
    py_paths suE_omsU
    setup_finish
  · apply resultG_eq_of_pathsP (by intro x; simp)
    show ∀ p ∈ setupPaths "TradingHaltRule" thrIntRate, _
    py_paths suE_thrI
    setup_finish
  · apply resultG_eq_of_pathsP (by intro x; simp)
    show ∀ p ∈ setupPaths "PriceLimitRule" plrUnknown, _
    py_paths suE_plrU
    setup_finish

end Pams.Src
