/-
`Market._execution` on a book of **two buy orders and one sell order** (all limit orders, or the sell
order a market order): the round may produce two fills — the case the one-price-per-round rule is about.
Setting as in SrcMarketDefs.lean (market 0 in its first step, all numbers atoms); the buy queue is
`[a, c]` (addresses 1, 3; `a` has priority), the sell queue `[b]` (address 2).  The path enumeration
uses the order-reasoning pruner (`obsPathsAG`) under the assumptions the invariant provides: positive
volumes, distinct ids, a running market, the queue sorted (three ways in which `a` can outrank `c`).
-/
import PamsLemmas.SrcMarketDefs

namespace Pams.Src
open Pams Pams.Py

variable {K : Type} [LinearOrder K] [NumOpsC K]

def ords21 (ls : Bool) : Nat → Option (String → Option Val)
  | 1 => some (mOrder 1 true true false)
  | 2 => some (mOrder 2 false ls false)
  | 3 => some (mOrder 3 true true false)
  | _ => none

def st21 (ls : Bool) : St :=
  { heap := mHeap false false [.ref 1, .ref 3] [.ref 2] (ords21 ls), calls := [] }

/-- like `execObs`, with the remaining volume of all three orders -/
def execObs21 : Except Py.Err (Val × St) → Obs
  | .ok (v, st) =>
    .tuple [ (match v with
              | .list l => .tuple (l.map (fun x => match x with
                  | .ref a => .tuple [Obs.ofOpt (st.heap a "price"), Obs.ofOpt (st.heap a "volume"),
                                       Obs.ofOpt (st.heap a "buy_order_id"), Obs.ofOpt (st.heap a "sell_order_id"),
                                       Obs.ofOpt (st.heap a "buy_agent_id"), Obs.ofOpt (st.heap a "sell_agent_id"),
                                       Obs.ofOpt (st.heap a "time")]
                  | _ => .other))
              | _ => .other),
             Obs.ofOpt (st.heap 1 "volume"), Obs.ofOpt (st.heap 3 "volume"), Obs.ofOpt (st.heap 2 "volume"),
             listObs st 6 "priority_queue", listObs st 7 "priority_queue",
             listObs st 5 "_last_executed_prices", listObs st 5 "_executed_volumes",
             listObs st 5 "_executed_total_prices", listObs st 5 "_mid_prices", listObs st 5 "_market_prices" ]
  | .error e => .err e

/-- what the invariant provides in every shape: positive volumes, `2.0 ≠ 0.0`, distinct ids, running -/
def assume21 : List (BTerm × Bool) :=
  [(.ile (.atom 13) (.lit 0), false), (.ile (.atom 23) (.lit 0), false), (.ile (.atom 33) (.lit 0), false),
   (.neq (.ofInt (.lit 2)) (.ofInt (.lit 0)), false),
   (.ieq (.atom 10) (.atom 20), false), (.ieq (.atom 30) (.atom 20), false), (.ieq (.atom 10) (.atom 30), false),
   (.atom 50, true)]

/-- why `a` is in front of `c` -/
inductive Prio | price | time | id
deriving DecidableEq

def Prio.assume : Prio → List (BTerm × Bool)
  | .price => [(.nlt (.atom 3) (.atom 1), true)]
  | .time => [(.neq (.atom 1) (.atom 3), true), (.ilt (.atom 11) (.atom 31), true)]
  | .id => [(.neq (.atom 1) (.atom 3), true), (.ieq (.atom 11) (.atom 31), true), (.ilt (.atom 10) (.atom 30), true)]

def exec21Paths (pr : Prio) (ls : Bool) :=
  obsPathsAG (pr.assume ++ assume21) execObs21 env 300 "Market._execution" [.ref 5] (st21 ls)

def rhoM21 (m : Market K) (a c b : Order K) (dflt : K) : Rho K :=
  { i := fun k =>
      if k = 10 then a.id else if k = 11 then a.placedAt else if k = 12 then a.agent else if k = 13 then a.vol
      else if k = 20 then b.id else if k = 21 then b.placedAt else if k = 22 then b.agent else if k = 23 then b.vol
      else if k = 30 then c.id else if k = 31 then c.placedAt else if k = 32 then c.agent else if k = 33 then c.vol
      else if k = 51 then m.nextId else if k = 52 then m.cur.nBuy else if k = 53 then m.cur.nSell
      else if k = 54 then m.cur.execVol else 0
    n := fun k =>
      if k = 1 then a.price.getD dflt else if k = 2 then b.price.getD dflt else if k = 3 then c.price.getD dflt
      else if k = 51 then m.cur.turnover else if k = 53 then m.cur.market.getD dflt else dflt
    b := fun k => if k = 50 then m.running else false }

/-- the observation `execObs21` of the model's result -/
def modelObs21 (a c : Order K) (r : Except Pams.Err (Market K × List (Fill K))) : CObs K :=
  match r with
  | .error _ => .err (.raise "AssertionError")
  | .ok (m, fills) =>
    let ref (o : Order K) : CObs K := if o.id = a.id then .ref 1 else .ref 3
    let volIn (l : List (Order K)) (id : Nat) : Int := match l.find? (fun o => o.id = id) with | some o => o.vol | none => 0
    .tuple [ .tuple (fills.map cFill), .int (volIn m.buys a.id), .int (volIn m.buys c.id), .int (volOf m.sells),
             .tuple (m.buys.map ref), .tuple (m.sells.map (fun _ => CObs.ref 2)),
             .tuple [cOpt m.cur.last], .tuple [.int m.cur.execVol], .tuple [.num m.cur.turnover],
             .tuple [cOpt m.cur.mid], .tuple [cOpt m.cur.market] ]

end Pams.Src
