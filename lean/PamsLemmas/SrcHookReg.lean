/-
`hook_registration` of the four built-in events and `EventHook.__init__` as they stand in /repo
(translated: `PamsGen.Code`): which hooks each event asks the simulator to register — by symbolic execution,
compared with `Hooks.Hook` records (`Events.fshockHook` for the fundamental price shock).

Setting: the event at address 3 (enabled = bool atom 1, trigger time = int atom 1), plain markets at 5 and 6
(ids 0 and 1).  Observed: the returned hooks, field by field.
-/
import PamsLemmas.SrcSimulator
import PamsModel.Events

namespace Pams.Src
open Pams Pams.Py Pams.Hooks

variable {K : Type} [LinearOrder K] [NumOpsC K]

def regEvent (cls : String) (len : Nat) : String → Option Val
  | "__class__" => some (.str cls)
  | "is_enabled" => some (.bool (.atom 1))
  | "trigger_time" => some (.int (.atom 1))
  | "shock_time_length" => some (.int (.lit len))
  | "target_market" => some (.ref 5)
  | "target_markets" => some (.dict [.str "m0", .str "m1"] [.ref 5, .ref 6])
  | _ => none

def regHeap (cls : String) (len : Nat) : Nat → String → Option Val :=
  fun addr => if addr = 3 then regEvent cls len else if addr = 5 then mktS 0
    else if addr = 6 then (fun f => match f with
      | "__class__" => some (.str "Market") | "market_id" => some (.int (.lit 1)) | _ => none)
    else fun _ => none

def regSt (cls : String) (len : Nat) : St := { heap := regHeap cls len, calls := [] }

def regGlobals : String → Option Val := fun x =>
  if x = "Market" then some (.str "Market") else if x = "EventHook" then some (.str "EventHook") else globals x

def regEnv : Env :=
  { prog := PamsGen.Code.prog, globals := regGlobals, ext := fun _ _ _ _ => none, mro := PamsGen.Code.mroOf }

def hookObs (st : St) : Val → Obs
  | .ref a => .tuple [Obs.ofOpt (st.heap a "event"), Obs.ofOpt (st.heap a "hook_type"), Obs.ofOpt (st.heap a "is_before"),
                      (match st.heap a "time" with | some v => valObs v | none => .absent),
                      Obs.ofOpt (st.heap a "specific_class"), Obs.ofOpt (st.heap a "specific_instance")]
  | _ => .other

def hooksObs : Except Py.Err (Val × St) → Obs
  | .ok (.list l, st) => .tuple (l.map (hookObs st))
  | .ok _ => .other
  | .error e => .err e

def regPaths (cls : String) (len : Nat) :=
  obsPathsPG hooksObs regEnv FUEL (cls ++ ".hook_registration") [.ref 3] (regSt cls len)

/-- a model hook as observed (the event lives at address 3, market `i` at `5 + i`) -/
def hookC (h : Hook) : CObs K :=
  .tuple [.ref 3, .str (hookType h.kind).1, .bool (hookType h.kind).2,
          (match h.times with | none => .none | some ts => .tuple (ts.map CObs.int)),
          (match h.cls with | none => .none | some .market => .str "Market" | some .index => .str "IndexMarket"),
          (match h.inst with | none => .none | some i => .ref (5 + i))]

def rhoReg (enabled : Bool) (trigger : Int) : Rho K :=
  { i := fun _ => trigger, n := fun _ => PyNum.ofInt 0, b := fun _ => enabled }

set_option maxRecDepth 100000
theorem rgP_fps0 : regPaths "FundamentalPriceShock" 0 = evalnf% (regPaths "FundamentalPriceShock" 0) := by kernel_rfl
theorem rgP_fps1 : regPaths "FundamentalPriceShock" 1 = evalnf% (regPaths "FundamentalPriceShock" 1) := by kernel_rfl
theorem rgP_fps3 : regPaths "FundamentalPriceShock" 3 = evalnf% (regPaths "FundamentalPriceShock" 3) := by kernel_rfl
theorem rgP_oms : regPaths "OrderMistakeShock" 0 = evalnf% (regPaths "OrderMistakeShock" 0) := by kernel_rfl
theorem rgP_thr : regPaths "TradingHaltRule" 0 = evalnf% (regPaths "TradingHaltRule" 0) := by kernel_rfl
theorem rgP_plr : regPaths "PriceLimitRule" 0 = evalnf% (regPaths "PriceLimitRule" 0) := by kernel_rfl

macro "reg_finish" : tactic =>
  `(tactic| (all_goals intro h
             all_goals simp [BTerm.eval, ITerm.eval, rhoReg, Obs.eval, Obs.evalList, hookC, hookType, Events.fshockHook] at h ⊢
             all_goals (try simp_all [List.range_succ])
             all_goals (try (push_cast; simp))
             all_goals (try omega)))

/-- **the fundamental price shock registers `Events.fshockHook`**: one before-step hook bound to its target
market instance for exactly the times `trigger … trigger + length − 1` (none for length 0: registered, never
dispatched); nothing when disabled -/
theorem hookreg_src_fshock (enabled : Bool) (trigger : Nat) :
    resultG hooksObs (rhoReg (K := K) enabled trigger) regEnv FUEL "FundamentalPriceShock.hook_registration" [.ref 3] (regSt "FundamentalPriceShock" 0)
      = .tuple (if enabled then [hookC (Events.fshockHook 0 0 0 trigger 0 0)] else []) ∧
    resultG hooksObs (rhoReg (K := K) enabled trigger) regEnv FUEL "FundamentalPriceShock.hook_registration" [.ref 3] (regSt "FundamentalPriceShock" 1)
      = .tuple (if enabled then [hookC (Events.fshockHook 0 0 0 trigger 1 0)] else []) ∧
    resultG hooksObs (rhoReg (K := K) enabled trigger) regEnv FUEL "FundamentalPriceShock.hook_registration" [.ref 3] (regSt "FundamentalPriceShock" 3)
      = .tuple (if enabled then [hookC (Events.fshockHook 0 0 0 trigger 3 0)] else []) := by
  refine ⟨?_, ?_, ?_⟩
  · apply resultG_eq_of_pathsP (by intro x; simp)
    show ∀ p ∈ regPaths "FundamentalPriceShock" 0, _
    py_paths rgP_fps0
    reg_finish
  · apply resultG_eq_of_pathsP (by intro x; simp)
    show ∀ p ∈ regPaths "FundamentalPriceShock" 1, _
    py_paths rgP_fps1
    reg_finish
  · apply resultG_eq_of_pathsP (by intro x; simp)
    show ∀ p ∈ regPaths "FundamentalPriceShock" 3, _
    py_paths rgP_fps3
    reg_finish

/-- the order mistake shock: one before-order hook for its trigger time; the price limit rule: one
before-order hook for every time; the trading halt rule: one after-execution hook for every time and one
before-step hook per target market instance, in the order of its target table -/
theorem hookreg_src_others (enabled : Bool) (trigger : Int) :
    resultG hooksObs (rhoReg (K := K) enabled trigger) regEnv FUEL "OrderMistakeShock.hook_registration" [.ref 3] (regSt "OrderMistakeShock" 0)
      = .tuple (if enabled then [hookC { id := 0, event := 0, kind := .orderBefore, times := some [trigger], cls := none, inst := none }] else []) ∧
    resultG hooksObs (rhoReg (K := K) enabled trigger) regEnv FUEL "PriceLimitRule.hook_registration" [.ref 3] (regSt "PriceLimitRule" 0)
      = .tuple (if enabled then [hookC { id := 0, event := 0, kind := .orderBefore, times := none, cls := none, inst := none }] else []) ∧
    resultG hooksObs (rhoReg (K := K) enabled trigger) regEnv FUEL "TradingHaltRule.hook_registration" [.ref 3] (regSt "TradingHaltRule" 0)
      = .tuple (if enabled then
          [hookC { id := 0, event := 0, kind := .executionAfter, times := none, cls := none, inst := none },
           hookC { id := 0, event := 0, kind := .marketBefore, times := none, cls := none, inst := some 0 },
           hookC { id := 0, event := 0, kind := .marketBefore, times := none, cls := none, inst := some 1 }] else []) := by
  refine ⟨?_, ?_, ?_⟩
  · apply resultG_eq_of_pathsP (by intro x; simp)
    show ∀ p ∈ regPaths "OrderMistakeShock" 0, _
    py_paths rgP_oms
    reg_finish
  · apply resultG_eq_of_pathsP (by intro x; simp)
    show ∀ p ∈ regPaths "PriceLimitRule" 0, _
    py_paths rgP_plr
    reg_finish
  · apply resultG_eq_of_pathsP (by intro x; simp)
    show ∀ p ∈ regPaths "TradingHaltRule" 0, _
    py_paths rgP_thr
    reg_finish

end Pams.Src
