/-
Path enumerations of `Market._execution` on a one-buy / one-sell book (see SrcMarketDefs.lean):
`nf%` computes the pruned paths of the symbolic run of the *current* translated source, `rfl` makes
the kernel re-check them.  Shape: buy limit, sell market.
-/
import PamsLemmas.EvalNf
import PamsLemmas.SrcMarketDefs

namespace Pams.Src
open Pams Pams.Py
set_option maxRecDepth 1000000

theorem exec11_ff_tf : exec11Paths false false true false = evalnf% (exec11Paths false false true false) := by kernel_rfl
theorem exec11_ft_tf : exec11Paths false true true false = evalnf% (exec11Paths false true true false) := by kernel_rfl
theorem exec11_tf_tf : exec11Paths true false true false = evalnf% (exec11Paths true false true false) := by kernel_rfl
theorem exec11_tt_tf : exec11Paths true true true false = evalnf% (exec11Paths true true true false) := by kernel_rfl

end Pams.Src
