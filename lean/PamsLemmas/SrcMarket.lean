/-
`Market._execution` of the current source = the model's `Market.execution`, on every book holding one
buy and one sell order (see SrcMarketDefs.lean for the setting, SrcMarketPaths*.lean for the path
enumerations).
-/
import PamsLemmas.SrcMarketPaths1
import PamsLemmas.SrcMarketPaths2
import PamsLemmas.SrcMarketPaths3

namespace Pams.Src
open Pams Pams.Py
variable {K : Type} [LinearOrder K] [NumOpsC K]
omit [NumOpsC K] in
theorem walk_nil_l (ss : List (Order K)) : walk ([] : List (Order K)) ss = ([], [], ss) := by
  rw [walk]
omit [NumOpsC K] in
theorem walk_nil_r (bs : List (Order K)) : walk bs ([] : List (Order K)) = ([], bs, []) := by
  cases bs <;> simp [walk]
omit [NumOpsC K] in
theorem walk11 (a b : Order K) (h : noCross a b = false) :
    walk [a] [b] =
      if a.vol < b.vol then ([⟨a.vol, a, b⟩], [], [{ b with vol := b.vol - a.vol }])
      else if b.vol < a.vol then ([⟨b.vol, a, b⟩], [{ a with vol := a.vol - b.vol }], [])
      else ([⟨a.vol, a, b⟩], [], []) := by
  rw [walk]
  simp only [h, walk_nil_l, walk_nil_r]
  simp
omit [NumOpsC K] in
theorem cross_of_executable (a b : Order K) (hnn : ¬ (a.price = none ∧ b.price = none))
    (h : ¬ remainExecutable [a] [b] = false) : noCross a b = false := by
  rcases a with ⟨ida, aga, isBuya, pricea, vola, pla, ttla⟩
  rcases b with ⟨idb, agb, isBuyb, priceb, volb, plb, ttlb⟩
  cases pricea <;> cases priceb <;> simp_all [remainExecutable, noCross]

theorem model_round11 (m : Market K) (a b : Order K)
    (hb : m.buys = [a]) (hs : m.sells = [b]) (hnn : ¬ (a.price = none ∧ b.price = none)) :
    modelObs a b (Market.execution (srcOps K) m) = round11 m a b := by
  unfold round11 Market.execution
  rw [hb, hs]
  by_cases hex : remainExecutable [a] [b] = false
  · simp only [hex, if_true, modelObs, volOf, List.map, hb, hs]
  · have hc := cross_of_executable a b hnn hex
    rw [walk11 a b hc]
    simp only [hex]
    by_cases hz : a.vol = 0 ∨ b.vol = 0 ∨ a.id = b.id
    · rw [if_pos hz]
      rcases hz with hz | hz | hz
      · simp [hz, modelObs]
      · simp [hz, modelObs]
      · by_cases hv : a.vol = 0 ∨ b.vol = 0 <;> simp [hv, hz, modelObs]
    · rw [if_neg hz]
      simp only [not_or] at hz
      obtain ⟨hz1, hz2, hz3⟩ := hz
      rcases Nat.lt_trichotomy a.vol b.vol with hlt | heq | hgt
      · have hn : ¬ b.vol < a.vol := by omega
        simp only [hlt, if_true, roundPrice]
        cases hpp : pairPrice a b with
        | none => simp [hz1, hz2, hz3, modelObs]
        | some price =>
          cases hr : m.running
          · simp [hz1, hz2, hz3, modelObs]
          · simp [hz1, hz2, hz3, modelObs, remainExecutable, Market.settle, Market.refresh, midOf, marketRule,
              Book.bestPrice, mkFill, cFill, volOf, cOpt, srcOps, hn, hb, hs, hr]
            omega
      · have hn : ¬ b.vol < a.vol := by omega
        have hn' : ¬ a.vol < b.vol := by omega
        simp only [hn, hn', if_false, roundPrice]
        cases hpp : pairPrice a b with
        | none => simp [hz1, hz2, hz3, modelObs]
        | some price =>
          cases hr : m.running
          · simp [hz1, hz2, hz3, modelObs]
          · simp [hz1, hz2, hz3, modelObs, remainExecutable, Market.settle, Market.refresh, midOf, marketRule,
              Book.bestPrice, mkFill, cFill, volOf, cOpt, srcOps, hn, hn', hb, hs, hr]
            simp [heq]
      · have hn : ¬ a.vol < b.vol := by omega
        simp only [hn, hgt, if_false, if_true, roundPrice]
        cases hpp : pairPrice a b with
        | none => simp [hz1, hz2, hz3, modelObs]
        | some price =>
          cases hr : m.running
          · simp [hz1, hz2, hz3, modelObs]
          · simp [hz1, hz2, hz3, modelObs, remainExecutable, Market.settle, Market.refresh, midOf, marketRule,
              Book.bestPrice, mkFill, cFill, volOf, cOpt, srcOps, hn, hgt, hb, hs, hr]
            omega

/-- closes the per-path goals of a source theorem against `round11` -/
macro "round11_paths" : tactic =>
  `(tactic| (all_goals intro h
             all_goals simp [BTerm.eval, ITerm.eval, NTerm.eval, rhoM, Obs.eval, Obs.evalList] at h ⊢
             all_goals simp [round11, remainExecutable, pairPrice, cOpt]
             all_goals try grind))

theorem execution_src_ff_tt (m : Market K) (a b : Order K) (pa pb mp lp md dflt : K)
    (hb : m.buys = [a]) (hs : m.sells = [b]) (ha : a.isBuy = true) (hbb : b.isBuy = false)
    (hpa : a.price = some pa) (hpb : b.price = some pb) (hl : m.cur.last = none) (hm : m.cur.mid = none) (ht : m.time = 0)
    (hmk : m.cur.market = some mp) (hid : a.id ≠ b.id) :
    resultG execObs (rhoM m a b dflt) env XFUEL "Market._execution" [.ref 5] (st11 false false true true)
      = round11 m a b := by
  rcases m with ⟨time, running, nextId, buys, sells, gone, ⟨cmk, clast, cmid, cfund, cev, cto, cnb, cns⟩, past⟩
  rcases a with ⟨ida, aga, isBuya, pricea, vola, pla, ttla⟩
  rcases b with ⟨idb, agb, isBuyb, priceb, volb, plb, ttlb⟩
  simp only at hb hs ha hbb hpa hpb ht hl hm hmk hid
  subst hb hs ha hbb hpa hpb ht hl hm hmk
  apply resultG_eq_of_pathsP hrefl_order
  show ∀ p ∈ exec11Paths false false true true, _
  py_paths exec11_ff_tt
  round11_paths
  all_goals grind (splits := 40)

theorem execution_src_ft_tt (m : Market K) (a b : Order K) (pa pb mp lp md dflt : K)
    (hb : m.buys = [a]) (hs : m.sells = [b]) (ha : a.isBuy = true) (hbb : b.isBuy = false)
    (hpa : a.price = some pa) (hpb : b.price = some pb) (hl : m.cur.last = none) (hm : m.cur.mid = some md) (ht : m.time = 0)
    (hmk : m.cur.market = some mp) (hid : a.id ≠ b.id) :
    resultG execObs (rhoM m a b dflt) env XFUEL "Market._execution" [.ref 5] (st11 false true true true)
      = round11 m a b := by
  rcases m with ⟨time, running, nextId, buys, sells, gone, ⟨cmk, clast, cmid, cfund, cev, cto, cnb, cns⟩, past⟩
  rcases a with ⟨ida, aga, isBuya, pricea, vola, pla, ttla⟩
  rcases b with ⟨idb, agb, isBuyb, priceb, volb, plb, ttlb⟩
  simp only at hb hs ha hbb hpa hpb ht hl hm hmk hid
  subst hb hs ha hbb hpa hpb ht hl hm hmk
  apply resultG_eq_of_pathsP hrefl_order
  show ∀ p ∈ exec11Paths false true true true, _
  py_paths exec11_ft_tt
  round11_paths
  all_goals grind (splits := 40)

theorem execution_src_tf_tt (m : Market K) (a b : Order K) (pa pb mp lp md dflt : K)
    (hb : m.buys = [a]) (hs : m.sells = [b]) (ha : a.isBuy = true) (hbb : b.isBuy = false)
    (hpa : a.price = some pa) (hpb : b.price = some pb) (hl : m.cur.last = some lp) (hm : m.cur.mid = none) (ht : m.time = 0)
    (hmk : m.cur.market = some mp) (hid : a.id ≠ b.id) :
    resultG execObs (rhoM m a b dflt) env XFUEL "Market._execution" [.ref 5] (st11 true false true true)
      = round11 m a b := by
  rcases m with ⟨time, running, nextId, buys, sells, gone, ⟨cmk, clast, cmid, cfund, cev, cto, cnb, cns⟩, past⟩
  rcases a with ⟨ida, aga, isBuya, pricea, vola, pla, ttla⟩
  rcases b with ⟨idb, agb, isBuyb, priceb, volb, plb, ttlb⟩
  simp only at hb hs ha hbb hpa hpb ht hl hm hmk hid
  subst hb hs ha hbb hpa hpb ht hl hm hmk
  apply resultG_eq_of_pathsP hrefl_order
  show ∀ p ∈ exec11Paths true false true true, _
  py_paths exec11_tf_tt
  round11_paths
  all_goals grind (splits := 40)

theorem execution_src_tt_tt (m : Market K) (a b : Order K) (pa pb mp lp md dflt : K)
    (hb : m.buys = [a]) (hs : m.sells = [b]) (ha : a.isBuy = true) (hbb : b.isBuy = false)
    (hpa : a.price = some pa) (hpb : b.price = some pb) (hl : m.cur.last = some lp) (hm : m.cur.mid = some md) (ht : m.time = 0)
    (hmk : m.cur.market = some mp) (hid : a.id ≠ b.id) :
    resultG execObs (rhoM m a b dflt) env XFUEL "Market._execution" [.ref 5] (st11 true true true true)
      = round11 m a b := by
  rcases m with ⟨time, running, nextId, buys, sells, gone, ⟨cmk, clast, cmid, cfund, cev, cto, cnb, cns⟩, past⟩
  rcases a with ⟨ida, aga, isBuya, pricea, vola, pla, ttla⟩
  rcases b with ⟨idb, agb, isBuyb, priceb, volb, plb, ttlb⟩
  simp only at hb hs ha hbb hpa hpb ht hl hm hmk hid
  subst hb hs ha hbb hpa hpb ht hl hm hmk
  apply resultG_eq_of_pathsP hrefl_order
  show ∀ p ∈ exec11Paths true true true true, _
  py_paths exec11_tt_tt
  round11_paths
  all_goals grind (splits := 40)

theorem execution_src_ff_tf (m : Market K) (a b : Order K) (pa pb mp lp md dflt : K)
    (hb : m.buys = [a]) (hs : m.sells = [b]) (ha : a.isBuy = true) (hbb : b.isBuy = false)
    (hpa : a.price = some pa) (hpb : b.price = none) (hl : m.cur.last = none) (hm : m.cur.mid = none) (ht : m.time = 0)
    (hmk : m.cur.market = some mp) (hid : a.id ≠ b.id) :
    resultG execObs (rhoM m a b dflt) env XFUEL "Market._execution" [.ref 5] (st11 false false true false)
      = round11 m a b := by
  rcases m with ⟨time, running, nextId, buys, sells, gone, ⟨cmk, clast, cmid, cfund, cev, cto, cnb, cns⟩, past⟩
  rcases a with ⟨ida, aga, isBuya, pricea, vola, pla, ttla⟩
  rcases b with ⟨idb, agb, isBuyb, priceb, volb, plb, ttlb⟩
  simp only at hb hs ha hbb hpa hpb ht hl hm hmk hid
  subst hb hs ha hbb hpa hpb ht hl hm hmk
  apply resultG_eq_of_pathsP hrefl_order
  show ∀ p ∈ exec11Paths false false true false, _
  py_paths exec11_ff_tf
  round11_paths
  all_goals grind (splits := 40)

theorem execution_src_ft_tf (m : Market K) (a b : Order K) (pa pb mp lp md dflt : K)
    (hb : m.buys = [a]) (hs : m.sells = [b]) (ha : a.isBuy = true) (hbb : b.isBuy = false)
    (hpa : a.price = some pa) (hpb : b.price = none) (hl : m.cur.last = none) (hm : m.cur.mid = some md) (ht : m.time = 0)
    (hmk : m.cur.market = some mp) (hid : a.id ≠ b.id) :
    resultG execObs (rhoM m a b dflt) env XFUEL "Market._execution" [.ref 5] (st11 false true true false)
      = round11 m a b := by
  rcases m with ⟨time, running, nextId, buys, sells, gone, ⟨cmk, clast, cmid, cfund, cev, cto, cnb, cns⟩, past⟩
  rcases a with ⟨ida, aga, isBuya, pricea, vola, pla, ttla⟩
  rcases b with ⟨idb, agb, isBuyb, priceb, volb, plb, ttlb⟩
  simp only at hb hs ha hbb hpa hpb ht hl hm hmk hid
  subst hb hs ha hbb hpa hpb ht hl hm hmk
  apply resultG_eq_of_pathsP hrefl_order
  show ∀ p ∈ exec11Paths false true true false, _
  py_paths exec11_ft_tf
  round11_paths
  all_goals grind (splits := 40)

theorem execution_src_tf_tf (m : Market K) (a b : Order K) (pa pb mp lp md dflt : K)
    (hb : m.buys = [a]) (hs : m.sells = [b]) (ha : a.isBuy = true) (hbb : b.isBuy = false)
    (hpa : a.price = some pa) (hpb : b.price = none) (hl : m.cur.last = some lp) (hm : m.cur.mid = none) (ht : m.time = 0)
    (hmk : m.cur.market = some mp) (hid : a.id ≠ b.id) :
    resultG execObs (rhoM m a b dflt) env XFUEL "Market._execution" [.ref 5] (st11 true false true false)
      = round11 m a b := by
  rcases m with ⟨time, running, nextId, buys, sells, gone, ⟨cmk, clast, cmid, cfund, cev, cto, cnb, cns⟩, past⟩
  rcases a with ⟨ida, aga, isBuya, pricea, vola, pla, ttla⟩
  rcases b with ⟨idb, agb, isBuyb, priceb, volb, plb, ttlb⟩
  simp only at hb hs ha hbb hpa hpb ht hl hm hmk hid
  subst hb hs ha hbb hpa hpb ht hl hm hmk
  apply resultG_eq_of_pathsP hrefl_order
  show ∀ p ∈ exec11Paths true false true false, _
  py_paths exec11_tf_tf
  round11_paths
  all_goals grind (splits := 40)

theorem execution_src_tt_tf (m : Market K) (a b : Order K) (pa pb mp lp md dflt : K)
    (hb : m.buys = [a]) (hs : m.sells = [b]) (ha : a.isBuy = true) (hbb : b.isBuy = false)
    (hpa : a.price = some pa) (hpb : b.price = none) (hl : m.cur.last = some lp) (hm : m.cur.mid = some md) (ht : m.time = 0)
    (hmk : m.cur.market = some mp) (hid : a.id ≠ b.id) :
    resultG execObs (rhoM m a b dflt) env XFUEL "Market._execution" [.ref 5] (st11 true true true false)
      = round11 m a b := by
  rcases m with ⟨time, running, nextId, buys, sells, gone, ⟨cmk, clast, cmid, cfund, cev, cto, cnb, cns⟩, past⟩
  rcases a with ⟨ida, aga, isBuya, pricea, vola, pla, ttla⟩
  rcases b with ⟨idb, agb, isBuyb, priceb, volb, plb, ttlb⟩
  simp only at hb hs ha hbb hpa hpb ht hl hm hmk hid
  subst hb hs ha hbb hpa hpb ht hl hm hmk
  apply resultG_eq_of_pathsP hrefl_order
  show ∀ p ∈ exec11Paths true true true false, _
  py_paths exec11_tt_tf
  round11_paths
  all_goals grind (splits := 40)

theorem execution_src_ff_ft (m : Market K) (a b : Order K) (pa pb mp lp md dflt : K)
    (hb : m.buys = [a]) (hs : m.sells = [b]) (ha : a.isBuy = true) (hbb : b.isBuy = false)
    (hpa : a.price = none) (hpb : b.price = some pb) (hl : m.cur.last = none) (hm : m.cur.mid = none) (ht : m.time = 0)
    (hmk : m.cur.market = some mp) (hid : a.id ≠ b.id) :
    resultG execObs (rhoM m a b dflt) env XFUEL "Market._execution" [.ref 5] (st11 false false false true)
      = round11 m a b := by
  rcases m with ⟨time, running, nextId, buys, sells, gone, ⟨cmk, clast, cmid, cfund, cev, cto, cnb, cns⟩, past⟩
  rcases a with ⟨ida, aga, isBuya, pricea, vola, pla, ttla⟩
  rcases b with ⟨idb, agb, isBuyb, priceb, volb, plb, ttlb⟩
  simp only at hb hs ha hbb hpa hpb ht hl hm hmk hid
  subst hb hs ha hbb hpa hpb ht hl hm hmk
  apply resultG_eq_of_pathsP hrefl_order
  show ∀ p ∈ exec11Paths false false false true, _
  py_paths exec11_ff_ft
  round11_paths
  all_goals grind (splits := 40)

theorem execution_src_ft_ft (m : Market K) (a b : Order K) (pa pb mp lp md dflt : K)
    (hb : m.buys = [a]) (hs : m.sells = [b]) (ha : a.isBuy = true) (hbb : b.isBuy = false)
    (hpa : a.price = none) (hpb : b.price = some pb) (hl : m.cur.last = none) (hm : m.cur.mid = some md) (ht : m.time = 0)
    (hmk : m.cur.market = some mp) (hid : a.id ≠ b.id) :
    resultG execObs (rhoM m a b dflt) env XFUEL "Market._execution" [.ref 5] (st11 false true false true)
      = round11 m a b := by
  rcases m with ⟨time, running, nextId, buys, sells, gone, ⟨cmk, clast, cmid, cfund, cev, cto, cnb, cns⟩, past⟩
  rcases a with ⟨ida, aga, isBuya, pricea, vola, pla, ttla⟩
  rcases b with ⟨idb, agb, isBuyb, priceb, volb, plb, ttlb⟩
  simp only at hb hs ha hbb hpa hpb ht hl hm hmk hid
  subst hb hs ha hbb hpa hpb ht hl hm hmk
  apply resultG_eq_of_pathsP hrefl_order
  show ∀ p ∈ exec11Paths false true false true, _
  py_paths exec11_ft_ft
  round11_paths
  all_goals grind (splits := 40)

theorem execution_src_tf_ft (m : Market K) (a b : Order K) (pa pb mp lp md dflt : K)
    (hb : m.buys = [a]) (hs : m.sells = [b]) (ha : a.isBuy = true) (hbb : b.isBuy = false)
    (hpa : a.price = none) (hpb : b.price = some pb) (hl : m.cur.last = some lp) (hm : m.cur.mid = none) (ht : m.time = 0)
    (hmk : m.cur.market = some mp) (hid : a.id ≠ b.id) :
    resultG execObs (rhoM m a b dflt) env XFUEL "Market._execution" [.ref 5] (st11 true false false true)
      = round11 m a b := by
  rcases m with ⟨time, running, nextId, buys, sells, gone, ⟨cmk, clast, cmid, cfund, cev, cto, cnb, cns⟩, past⟩
  rcases a with ⟨ida, aga, isBuya, pricea, vola, pla, ttla⟩
  rcases b with ⟨idb, agb, isBuyb, priceb, volb, plb, ttlb⟩
  simp only at hb hs ha hbb hpa hpb ht hl hm hmk hid
  subst hb hs ha hbb hpa hpb ht hl hm hmk
  apply resultG_eq_of_pathsP hrefl_order
  show ∀ p ∈ exec11Paths true false false true, _
  py_paths exec11_tf_ft
  round11_paths
  all_goals grind (splits := 40)

theorem execution_src_tt_ft (m : Market K) (a b : Order K) (pa pb mp lp md dflt : K)
    (hb : m.buys = [a]) (hs : m.sells = [b]) (ha : a.isBuy = true) (hbb : b.isBuy = false)
    (hpa : a.price = none) (hpb : b.price = some pb) (hl : m.cur.last = some lp) (hm : m.cur.mid = some md) (ht : m.time = 0)
    (hmk : m.cur.market = some mp) (hid : a.id ≠ b.id) :
    resultG execObs (rhoM m a b dflt) env XFUEL "Market._execution" [.ref 5] (st11 true true false true)
      = round11 m a b := by
  rcases m with ⟨time, running, nextId, buys, sells, gone, ⟨cmk, clast, cmid, cfund, cev, cto, cnb, cns⟩, past⟩
  rcases a with ⟨ida, aga, isBuya, pricea, vola, pla, ttla⟩
  rcases b with ⟨idb, agb, isBuyb, priceb, volb, plb, ttlb⟩
  simp only at hb hs ha hbb hpa hpb ht hl hm hmk hid
  subst hb hs ha hbb hpa hpb ht hl hm hmk
  apply resultG_eq_of_pathsP hrefl_order
  show ∀ p ∈ exec11Paths true true false true, _
  py_paths exec11_tt_ft
  round11_paths
  all_goals grind (splits := 40)

/-- **`Market._execution` of the current source is the model's `Market.execution`** on every book of
one buy order `a` and one sell order `b` (not both market orders) of a market in its first step:
for all prices, volumes, ids, acceptance times, agents, step statistics and both values of the
running flag, the fills returned, the volumes left on the two orders, the two queues and the five
series of the step are exactly what the model computes; every model `Err` is an `AssertionError`. -/
theorem execution_src (m : Market K) (a b : Order K) (mp dflt : K)
    (hb : m.buys = [a]) (hs : m.sells = [b]) (ha : a.isBuy = true) (hbb : b.isBuy = false)
    (hnn : ¬ (a.price = none ∧ b.price = none)) (ht : m.time = 0)
    (hmk : m.cur.market = some mp) (hid : a.id ≠ b.id) :
    resultG execObs (rhoM m a b dflt) env XFUEL "Market._execution" [.ref 5]
        (st11 m.cur.last.isSome m.cur.mid.isSome a.price.isSome b.price.isSome)
      = modelObs a b (Market.execution (srcOps K) m) := by
  rw [model_round11 m a b hb hs hnn]
  cases hpa : a.price with
  | none =>
    cases hpb : b.price with
    | none =>
      exact absurd ⟨hpa, hpb⟩ hnn
    | some pb =>
      cases hl : m.cur.last with
      | none =>
        cases hm : m.cur.mid with
        | none => exact execution_src_ff_ft m a b dflt _ mp dflt dflt dflt hb hs ha hbb hpa hpb hl hm ht hmk hid
        | some md => exact execution_src_ft_ft m a b dflt _ mp dflt _ dflt hb hs ha hbb hpa hpb hl hm ht hmk hid
      | some lp =>
        cases hm : m.cur.mid with
        | none => exact execution_src_tf_ft m a b dflt _ mp _ dflt dflt hb hs ha hbb hpa hpb hl hm ht hmk hid
        | some md => exact execution_src_tt_ft m a b dflt _ mp _ _ dflt hb hs ha hbb hpa hpb hl hm ht hmk hid
  | some pa =>
    cases hpb : b.price with
    | none =>
      cases hl : m.cur.last with
      | none =>
        cases hm : m.cur.mid with
        | none => exact execution_src_ff_tf m a b _ dflt mp dflt dflt dflt hb hs ha hbb hpa hpb hl hm ht hmk hid
        | some md => exact execution_src_ft_tf m a b _ dflt mp dflt _ dflt hb hs ha hbb hpa hpb hl hm ht hmk hid
      | some lp =>
        cases hm : m.cur.mid with
        | none => exact execution_src_tf_tf m a b _ dflt mp _ dflt dflt hb hs ha hbb hpa hpb hl hm ht hmk hid
        | some md => exact execution_src_tt_tf m a b _ dflt mp _ _ dflt hb hs ha hbb hpa hpb hl hm ht hmk hid
    | some pb =>
      cases hl : m.cur.last with
      | none =>
        cases hm : m.cur.mid with
        | none => exact execution_src_ff_tt m a b _ _ mp dflt dflt dflt hb hs ha hbb hpa hpb hl hm ht hmk hid
        | some md => exact execution_src_ft_tt m a b _ _ mp dflt _ dflt hb hs ha hbb hpa hpb hl hm ht hmk hid
      | some lp =>
        cases hm : m.cur.mid with
        | none => exact execution_src_tf_tt m a b _ _ mp _ dflt dflt hb hs ha hbb hpa hpb hl hm ht hmk hid
        | some md => exact execution_src_tt_tt m a b _ _ mp _ _ dflt hb hs ha hbb hpa hpb hl hm ht hmk hid

end Pams.Src
