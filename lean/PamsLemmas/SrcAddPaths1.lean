/-
Path enumerations of `Market._add_order` (see SrcAddDefs.lean): `nf%` computes the pruned paths of the
symbolic run of the *current* translated source, `rfl` makes the kernel re-check them.
-/
import PamsLemmas.EvalNf
import PamsLemmas.SrcAddDefs

namespace Pams.Src
open Pams Pams.Py
set_option maxRecDepth 1000000

theorem addP_ttff : addPaths true true false false 0 .none false false = evalnf% (addPaths true true false false 0 .none false false) := by kernel_rfl
theorem addP_ttft : addPaths true true false false 0 .none true false = evalnf% (addPaths true true false false 0 .none true false) := by kernel_rfl
theorem addP_tttf : addPaths true true true false 0 .none false false = evalnf% (addPaths true true true false 0 .none false false) := by kernel_rfl
theorem addP_tttt : addPaths true true true false 0 .none true false = evalnf% (addPaths true true true false 0 .none true false) := by kernel_rfl
theorem addP_tfff : addPaths true false false false 0 .none false false = evalnf% (addPaths true false false false 0 .none false false) := by kernel_rfl
theorem addP_tfft : addPaths true false false false 0 .none true false = evalnf% (addPaths true false false false 0 .none true false) := by kernel_rfl
theorem addP_tftf : addPaths true false true false 0 .none false false = evalnf% (addPaths true false true false 0 .none false false) := by kernel_rfl
theorem addP_tftt : addPaths true false true false 0 .none true false = evalnf% (addPaths true false true false 0 .none true false) := by kernel_rfl

end Pams.Src
