/-
Path enumerations of `Market._cancel_order` (see SrcCancelDefs.lean): `nf%` computes the pruned paths of
the symbolic run of the *current* translated source, `rfl` makes the kernel re-check them.
-/
import PamsLemmas.EvalNf
import PamsLemmas.SrcCancelDefs

namespace Pams.Src
open Pams Pams.Py
set_option maxRecDepth 1000000

theorem cancelP_tt_alone : cancelPaths true true .alone = evalnf% (cancelPaths true true .alone) := by kernel_rfl
theorem cancelP_tt_top : cancelPaths true true .top = evalnf% (cancelPaths true true .top) := by kernel_rfl
theorem cancelP_tt_second : cancelPaths true true .second = evalnf% (cancelPaths true true .second) := by kernel_rfl
theorem cancelP_tt_goneEmpty : cancelPaths true true .goneEmpty = evalnf% (cancelPaths true true .goneEmpty) := by kernel_rfl
theorem cancelP_tt_goneOther : cancelPaths true true .goneOther = evalnf% (cancelPaths true true .goneOther) := by kernel_rfl
theorem cancelP_tf_alone : cancelPaths true false .alone = evalnf% (cancelPaths true false .alone) := by kernel_rfl
theorem cancelP_tf_top : cancelPaths true false .top = evalnf% (cancelPaths true false .top) := by kernel_rfl
theorem cancelP_tf_second : cancelPaths true false .second = evalnf% (cancelPaths true false .second) := by kernel_rfl
theorem cancelP_tf_goneEmpty : cancelPaths true false .goneEmpty = evalnf% (cancelPaths true false .goneEmpty) := by kernel_rfl
theorem cancelP_tf_goneOther : cancelPaths true false .goneOther = evalnf% (cancelPaths true false .goneOther) := by kernel_rfl

end Pams.Src
