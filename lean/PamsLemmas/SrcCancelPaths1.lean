/-
Path enumerations of `Market._cancel_order` (see SrcCancelDefs.lean): `nf%` computes the pruned paths of
the symbolic run of the *current* translated source, `rfl` makes the kernel re-check them.
-/
import PamsLemmas.SrcCancelDefs

namespace Pams.Src
open Pams Pams.Py
set_option maxRecDepth 1000000

theorem cancelP_tt_alone : cancelPaths true true .alone = nf% (cancelPaths true true .alone) := by rfl
theorem cancelP_tt_top : cancelPaths true true .top = nf% (cancelPaths true true .top) := by rfl
theorem cancelP_tt_second : cancelPaths true true .second = nf% (cancelPaths true true .second) := by rfl
theorem cancelP_tt_goneEmpty : cancelPaths true true .goneEmpty = nf% (cancelPaths true true .goneEmpty) := by rfl
theorem cancelP_tt_goneOther : cancelPaths true true .goneOther = nf% (cancelPaths true true .goneOther) := by rfl
theorem cancelP_tf_alone : cancelPaths true false .alone = nf% (cancelPaths true false .alone) := by rfl
theorem cancelP_tf_top : cancelPaths true false .top = nf% (cancelPaths true false .top) := by rfl
theorem cancelP_tf_second : cancelPaths true false .second = nf% (cancelPaths true false .second) := by rfl
theorem cancelP_tf_goneEmpty : cancelPaths true false .goneEmpty = nf% (cancelPaths true false .goneEmpty) := by rfl
theorem cancelP_tf_goneOther : cancelPaths true false .goneOther = nf% (cancelPaths true false .goneOther) := by rfl

end Pams.Src
