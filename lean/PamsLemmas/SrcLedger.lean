/-
`Simulator._update_agents_for_execution` as it stands in /repo (translated: `PamsGen.Code`) is the
model's ledger fold `Ledger.applyFills` — by symbolic execution of the source.

Setting: two agents (ids 1 and 2, objects at addresses 21 and 22) holding cash (num atoms 21, 22) and
positions in markets 0 and 1 (int atoms 210, 211, 220, 221); the execution logs live at addresses 30
and 31 (price: num atoms 30 / 31, volume: int atoms 300 / 310); who buys, who sells and on which market
is the *shape* (ids are dictionary keys), everything else is quantified.  A self-trade (buyer = seller)
is one of the shapes: the four updates go through one object.
-/
import PamsLemmas.EvalNf
import PamsGen.Code
import PamsModel.Ledger
import PamsLemmas.SrcOrder

namespace Pams.Src
open Pams Pams.Py

variable {K : Type} [LinearOrder K] [NumOpsC K]

def agentObj (k : Nat) : String → Option Val
  | "__class__" => some (.str "Agent")
  | "agent_id" => some (.int (.lit k))
  | "cash_amount" => some (.num (.atom (20 + k)))
  | "asset_volumes" => some (.dict [.int (.lit 0), .int (.lit 1)] [.int (.atom (200 + 10 * k)), .int (.atom (201 + 10 * k))])
  | _ => none

def ledgerSim : String → Option Val
  | "__class__" => some (.str "Simulator")
  | "id2agent" => some (.dict [.int (.lit 1), .int (.lit 2)] [.ref 21, .ref 22])
  | _ => none

def fillLog (k : Nat) (buyer seller market : Nat) : String → Option Val
  | "__class__" => some (.str "ExecutionLog")
  | "buy_agent_id" => some (.int (.lit buyer))
  | "sell_agent_id" => some (.int (.lit seller))
  | "market_id" => some (.int (.lit market))
  | "price" => some (.num (.atom (30 + k)))
  | "volume" => some (.int (.atom (300 + 10 * k)))
  | _ => none

/-- the heap: the simulator at 7, the agents at 21 / 22, the logs at 30 / 31 -/
def ledgerHeap (b0 s0 m0 b1 s1 m1 : Nat) : Nat → String → Option Val :=
  fun addr => if addr = 7 then ledgerSim else if addr = 21 then agentObj 1 else if addr = 22 then agentObj 2
    else if addr = 30 then fillLog 0 b0 s0 m0 else if addr = 31 then fillLog 1 b1 s1 m1 else fun _ => none

def ledgerSt (b0 s0 m0 b1 s1 m1 : Nat) : St := { heap := ledgerHeap b0 s0 m0 b1 s1 m1, calls := [] }

def sharesObs (st : St) (a : Nat) : Obs :=
  match st.heap a "asset_volumes" with
  | some (.dict _ vs) => .tuple (vs.map Obs.ofVal)
  | _ => .other

/-- the holdings afterwards: cash and the two positions of each agent -/
def ledgerObs : Except Py.Err (Val × St) → Obs
  | .ok (_, st) => .tuple [Obs.ofOpt (st.heap 21 "cash_amount"), sharesObs st 21,
                           Obs.ofOpt (st.heap 22 "cash_amount"), sharesObs st 22]
  | .error e => .err e

def ledgerPaths (logs : List Val) (b0 s0 m0 b1 s1 m1 : Nat) :=
  obsPathsPG ledgerObs env FUEL "Simulator._update_agents_for_execution" [.ref 7, .list logs]
    (ledgerSt b0 s0 m0 b1 s1 m1)

/-- the model's book read off the atoms, and its observation -/
def rhoLedger (cash : Nat → K) (shares : Nat → Nat → Int) (p0 p1 : K) (v0 v1 : Nat) (dflt : K) : Rho K :=
  { i := fun k => if k = 210 then shares 1 0 else if k = 211 then shares 1 1 else if k = 220 then shares 2 0
      else if k = 221 then shares 2 1 else if k = 300 then v0 else if k = 310 then v1 else 0
    n := fun k => if k = 21 then cash 1 else if k = 22 then cash 2 else if k = 30 then p0 else if k = 31 then p1 else dflt
    b := fun _ => false }

def bookObs (b : Ledger.Book K) : CObs K :=
  .tuple [.num (b.cash 1), .tuple [.int (b.shares 1 0), .int (b.shares 1 1)],
          .num (b.cash 2), .tuple [.int (b.shares 2 0), .int (b.shares 2 1)]]

/-- `price * volume` as the source computes it -/
def amountSrc (p : K) (v : Nat) : K := p * PyNum.ofInt v

def mkFillL (b s m : Nat) (p : K) (v : Nat) : Ledger.LFill K :=
  { buyer := b, seller := s, market := m, amount := amountSrc p v, vol := v }

set_option maxRecDepth 100000
theorem ledgerP_110 : ledgerPaths [.ref 30] 1 1 0 1 2 0 = evalnf% (ledgerPaths [.ref 30] 1 1 0 1 2 0) := by kernel_rfl
theorem ledgerP_111 : ledgerPaths [.ref 30] 1 1 1 1 2 0 = evalnf% (ledgerPaths [.ref 30] 1 1 1 1 2 0) := by kernel_rfl
theorem ledgerP_120 : ledgerPaths [.ref 30] 1 2 0 1 2 0 = evalnf% (ledgerPaths [.ref 30] 1 2 0 1 2 0) := by kernel_rfl
theorem ledgerP_121 : ledgerPaths [.ref 30] 1 2 1 1 2 0 = evalnf% (ledgerPaths [.ref 30] 1 2 1 1 2 0) := by kernel_rfl
theorem ledgerP_210 : ledgerPaths [.ref 30] 2 1 0 1 2 0 = evalnf% (ledgerPaths [.ref 30] 2 1 0 1 2 0) := by kernel_rfl
theorem ledgerP_211 : ledgerPaths [.ref 30] 2 1 1 1 2 0 = evalnf% (ledgerPaths [.ref 30] 2 1 1 1 2 0) := by kernel_rfl
theorem ledgerP_220 : ledgerPaths [.ref 30] 2 2 0 1 2 0 = evalnf% (ledgerPaths [.ref 30] 2 2 0 1 2 0) := by kernel_rfl
theorem ledgerP_221 : ledgerPaths [.ref 30] 2 2 1 1 2 0 = evalnf% (ledgerPaths [.ref 30] 2 2 1 1 2 0) := by kernel_rfl
theorem ledgerP_two : ledgerPaths [.ref 30, .ref 31] 1 2 0 2 1 0 = evalnf% (ledgerPaths [.ref 30, .ref 31] 1 2 0 2 1 0) := by kernel_rfl
theorem ledgerP_two_self : ledgerPaths [.ref 30, .ref 31] 1 2 1 1 1 1 = evalnf% (ledgerPaths [.ref 30, .ref 31] 1 2 1 1 1 1) := by kernel_rfl

/-- closes the per-path goals of a ledger source theorem -/
macro "ledger_paths_finish" : tactic =>
  `(tactic| (all_goals intro h
             all_goals simp [BTerm.eval, ITerm.eval, NTerm.eval, rhoLedger, Obs.eval, Obs.evalList, bookObs,
               Ledger.applyFills, Ledger.applyFill, Ledger.setCash, Ledger.setShares, mkFillL, amountSrc] at h ⊢))

theorem ledger_src_110 (cash : Nat → K) (shares : Nat → Nat → Int) (p0 p1 : K) (v0 v1 : Nat) (dflt : K) :
    resultG ledgerObs (rhoLedger cash shares p0 p1 v0 v1 dflt) env FUEL "Simulator._update_agents_for_execution"
        [.ref 7, .list [.ref 30]] (ledgerSt 1 1 0 1 2 0)
      = bookObs (Ledger.applyFills (· - ·) (· + ·) { cash := cash, shares := shares } [mkFillL 1 1 0 p0 v0]) := by
  apply resultG_eq_of_pathsP (by intro x; simp)
  show ∀ p ∈ ledgerPaths [.ref 30] 1 1 0 1 2 0, _
  py_paths ledgerP_110
  ledger_paths_finish

theorem ledger_src_111 (cash : Nat → K) (shares : Nat → Nat → Int) (p0 p1 : K) (v0 v1 : Nat) (dflt : K) :
    resultG ledgerObs (rhoLedger cash shares p0 p1 v0 v1 dflt) env FUEL "Simulator._update_agents_for_execution"
        [.ref 7, .list [.ref 30]] (ledgerSt 1 1 1 1 2 0)
      = bookObs (Ledger.applyFills (· - ·) (· + ·) { cash := cash, shares := shares } [mkFillL 1 1 1 p0 v0]) := by
  apply resultG_eq_of_pathsP (by intro x; simp)
  show ∀ p ∈ ledgerPaths [.ref 30] 1 1 1 1 2 0, _
  py_paths ledgerP_111
  ledger_paths_finish

theorem ledger_src_120 (cash : Nat → K) (shares : Nat → Nat → Int) (p0 p1 : K) (v0 v1 : Nat) (dflt : K) :
    resultG ledgerObs (rhoLedger cash shares p0 p1 v0 v1 dflt) env FUEL "Simulator._update_agents_for_execution"
        [.ref 7, .list [.ref 30]] (ledgerSt 1 2 0 1 2 0)
      = bookObs (Ledger.applyFills (· - ·) (· + ·) { cash := cash, shares := shares } [mkFillL 1 2 0 p0 v0]) := by
  apply resultG_eq_of_pathsP (by intro x; simp)
  show ∀ p ∈ ledgerPaths [.ref 30] 1 2 0 1 2 0, _
  py_paths ledgerP_120
  ledger_paths_finish

theorem ledger_src_121 (cash : Nat → K) (shares : Nat → Nat → Int) (p0 p1 : K) (v0 v1 : Nat) (dflt : K) :
    resultG ledgerObs (rhoLedger cash shares p0 p1 v0 v1 dflt) env FUEL "Simulator._update_agents_for_execution"
        [.ref 7, .list [.ref 30]] (ledgerSt 1 2 1 1 2 0)
      = bookObs (Ledger.applyFills (· - ·) (· + ·) { cash := cash, shares := shares } [mkFillL 1 2 1 p0 v0]) := by
  apply resultG_eq_of_pathsP (by intro x; simp)
  show ∀ p ∈ ledgerPaths [.ref 30] 1 2 1 1 2 0, _
  py_paths ledgerP_121
  ledger_paths_finish

theorem ledger_src_210 (cash : Nat → K) (shares : Nat → Nat → Int) (p0 p1 : K) (v0 v1 : Nat) (dflt : K) :
    resultG ledgerObs (rhoLedger cash shares p0 p1 v0 v1 dflt) env FUEL "Simulator._update_agents_for_execution"
        [.ref 7, .list [.ref 30]] (ledgerSt 2 1 0 1 2 0)
      = bookObs (Ledger.applyFills (· - ·) (· + ·) { cash := cash, shares := shares } [mkFillL 2 1 0 p0 v0]) := by
  apply resultG_eq_of_pathsP (by intro x; simp)
  show ∀ p ∈ ledgerPaths [.ref 30] 2 1 0 1 2 0, _
  py_paths ledgerP_210
  ledger_paths_finish

theorem ledger_src_211 (cash : Nat → K) (shares : Nat → Nat → Int) (p0 p1 : K) (v0 v1 : Nat) (dflt : K) :
    resultG ledgerObs (rhoLedger cash shares p0 p1 v0 v1 dflt) env FUEL "Simulator._update_agents_for_execution"
        [.ref 7, .list [.ref 30]] (ledgerSt 2 1 1 1 2 0)
      = bookObs (Ledger.applyFills (· - ·) (· + ·) { cash := cash, shares := shares } [mkFillL 2 1 1 p0 v0]) := by
  apply resultG_eq_of_pathsP (by intro x; simp)
  show ∀ p ∈ ledgerPaths [.ref 30] 2 1 1 1 2 0, _
  py_paths ledgerP_211
  ledger_paths_finish

theorem ledger_src_220 (cash : Nat → K) (shares : Nat → Nat → Int) (p0 p1 : K) (v0 v1 : Nat) (dflt : K) :
    resultG ledgerObs (rhoLedger cash shares p0 p1 v0 v1 dflt) env FUEL "Simulator._update_agents_for_execution"
        [.ref 7, .list [.ref 30]] (ledgerSt 2 2 0 1 2 0)
      = bookObs (Ledger.applyFills (· - ·) (· + ·) { cash := cash, shares := shares } [mkFillL 2 2 0 p0 v0]) := by
  apply resultG_eq_of_pathsP (by intro x; simp)
  show ∀ p ∈ ledgerPaths [.ref 30] 2 2 0 1 2 0, _
  py_paths ledgerP_220
  ledger_paths_finish

theorem ledger_src_221 (cash : Nat → K) (shares : Nat → Nat → Int) (p0 p1 : K) (v0 v1 : Nat) (dflt : K) :
    resultG ledgerObs (rhoLedger cash shares p0 p1 v0 v1 dflt) env FUEL "Simulator._update_agents_for_execution"
        [.ref 7, .list [.ref 30]] (ledgerSt 2 2 1 1 2 0)
      = bookObs (Ledger.applyFills (· - ·) (· + ·) { cash := cash, shares := shares } [mkFillL 2 2 1 p0 v0]) := by
  apply resultG_eq_of_pathsP (by intro x; simp)
  show ∀ p ∈ ledgerPaths [.ref 30] 2 2 1 1 2 0, _
  py_paths ledgerP_221
  ledger_paths_finish

/-- **one fill** (buyer `b`, seller `s` ∈ {1, 2} — equal for a self-trade —, market `mk` ∈ {0, 1}; any price,
volume and holdings): the current source of `_update_agents_for_execution` leaves exactly the holdings
`Ledger.applyFill` computes — buyer cash − price·volume, seller cash + price·volume, buyer shares +
volume, seller shares − volume, nothing else touched. -/
theorem ledger_src_one (b s mk : Nat) (hb : b = 1 ∨ b = 2) (hs : s = 1 ∨ s = 2) (hm : mk = 0 ∨ mk = 1)
    (cash : Nat → K) (shares : Nat → Nat → Int) (p0 p1 : K) (v0 v1 : Nat) (dflt : K) :
    resultG ledgerObs (rhoLedger cash shares p0 p1 v0 v1 dflt) env FUEL "Simulator._update_agents_for_execution"
        [.ref 7, .list [.ref 30]] (ledgerSt b s mk 1 2 0)
      = bookObs (Ledger.applyFills (· - ·) (· + ·) { cash := cash, shares := shares } [mkFillL b s mk p0 v0]) := by
  rcases hb with rfl | rfl <;> rcases hs with rfl | rfl <;> rcases hm with rfl | rfl
  · exact ledger_src_110 cash shares p0 p1 v0 v1 dflt
  · exact ledger_src_111 cash shares p0 p1 v0 v1 dflt
  · exact ledger_src_120 cash shares p0 p1 v0 v1 dflt
  · exact ledger_src_121 cash shares p0 p1 v0 v1 dflt
  · exact ledger_src_210 cash shares p0 p1 v0 v1 dflt
  · exact ledger_src_211 cash shares p0 p1 v0 v1 dflt
  · exact ledger_src_220 cash shares p0 p1 v0 v1 dflt
  · exact ledger_src_221 cash shares p0 p1 v0 v1 dflt

/-- **two fills in order** (1 buys from 2, then 2 buys from 1, market 0): the source is the model's
left fold over the list -/
theorem ledger_src_two (cash : Nat → K) (shares : Nat → Nat → Int) (p0 p1 : K) (v0 v1 : Nat) (dflt : K) :
    resultG ledgerObs (rhoLedger cash shares p0 p1 v0 v1 dflt) env FUEL "Simulator._update_agents_for_execution"
        [.ref 7, .list [.ref 30, .ref 31]] (ledgerSt 1 2 0 2 1 0)
      = bookObs (Ledger.applyFills (· - ·) (· + ·) { cash := cash, shares := shares }
          [mkFillL 1 2 0 p0 v0, mkFillL 2 1 0 p1 v1]) := by
  apply resultG_eq_of_pathsP (by intro x; simp)
  show ∀ p ∈ ledgerPaths [.ref 30, .ref 31] 1 2 0 2 1 0, _
  py_paths ledgerP_two
  ledger_paths_finish

/-- … also when the second fill is a self-trade on the other market -/
theorem ledger_src_two_self (cash : Nat → K) (shares : Nat → Nat → Int) (p0 p1 : K) (v0 v1 : Nat) (dflt : K) :
    resultG ledgerObs (rhoLedger cash shares p0 p1 v0 v1 dflt) env FUEL "Simulator._update_agents_for_execution"
        [.ref 7, .list [.ref 30, .ref 31]] (ledgerSt 1 2 1 1 1 1)
      = bookObs (Ledger.applyFills (· - ·) (· + ·) { cash := cash, shares := shares }
          [mkFillL 1 2 1 p0 v0, mkFillL 1 1 1 p1 v1]) := by
  apply resultG_eq_of_pathsP (by intro x; simp)
  show ∀ p ∈ ledgerPaths [.ref 30, .ref 31] 1 2 1 1 1 1, _
  py_paths ledgerP_two_self
  ledger_paths_finish

end Pams.Src
