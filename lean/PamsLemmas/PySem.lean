/-
Infrastructure for theorems about translated code (`PamsGen/Code.lean`, meaning given by
`PamsModel/Py.lean`):

* `PyNum` for an arbitrary linearly ordered type with uninterpreted arithmetic (`NumOpsC`): the
  comparisons are the order's, `==` is equality, everything else is an opaque function — so a
  theorem proved here holds for the rationals, the reals and (for the order-only part) for the
  finite doubles;
* `nf% e`: the normal form of a closed term, computed by the elaborator; every use is re-checked by
  the kernel through a `rfl` proof (`e = nf% e`), so the elaborator is not trusted;
* simp lemmas that evaluate `BTerm / ITerm / NTerm` under a valuation.

Pattern of a proof that a translated function `f` computes what the model says, for all inputs:
  `Tree.denote_of_paths` reduces the claim to the finitely many paths of the symbolic run of `f`
  on a heap whose numeric fields are atoms; `paths (run …) = nf% …` is checked by `rfl`; each path
  (a conjunction of branch conditions, evaluated under the valuation that assigns the real field
  values to the atoms) leaves a small arithmetic / order-theoretic goal.
-/
import PamsModel.Py
import Mathlib.Order.Defs.LinearOrder
import Lean

namespace Pams.Py

/-- uninterpreted arithmetic on the price type -/
class NumOpsC (K : Type) where
  add : K → K → K
  sub : K → K → K
  mul : K → K → K
  div : K → K → K
  neg : K → K
  ofInt : Int → K
  floor : K → Int
  ceil : K → Int
  fmod : K → K → K
  exp : K → K
  log : K → K
  sqrt : K → K

@[reducible] instance pyNumOfOrder {K : Type} [LinearOrder K] [o : NumOpsC K] : PyNum K :=
  { add := o.add, sub := o.sub, mul := o.mul, div := o.div, neg := o.neg,
    lt := fun a b => a < b, le := fun a b => a ≤ b,
    zero := o.ofInt 0, one := o.ofInt 1, ofNat := fun n => o.ofInt n,
    decLt := fun a b => inferInstanceAs (Decidable (a < b)),
    decLe := fun a b => inferInstanceAs (Decidable (a ≤ b)),
    beq := fun a b => decide (a = b), ofInt := o.ofInt, floor := o.floor, ceil := o.ceil,
    fmod := o.fmod, exp := o.exp, log := o.log, sqrt := o.sqrt }

section
variable {K : Type} [LinearOrder K] [NumOpsC K]
@[simp] theorem pyBeq_eq (a b : K) : PyNum.beq a b = decide (a = b) := rfl
@[simp] theorem arith_zero_eq : (Arith.zero : K) = NumOpsC.ofInt 0 := rfl
@[simp] theorem arith_one_eq : (Arith.one : K) = NumOpsC.ofInt 1 := rfl
@[simp] theorem pyOfInt_eq (i : Int) : (PyNum.ofInt i : K) = NumOpsC.ofInt i := rfl
@[simp] theorem arith_ofNat_eq (n : Nat) : (Arith.ofNat n : K) = NumOpsC.ofInt n := rfl
end

open Lean Elab Term Meta in
/-- `nf% e`: the normal form of the closed term `e` (to be used as `e = nf% e := by rfl`) -/
elab "nf% " e:term : term => do
  let e ← elabTerm e none
  let e ← instantiateMVars e
  withTransparency .all <| reduce e (skipProofs := true) (skipTypes := true)

namespace Tree
variable {α β : Type}
theorem denote_map {K : Type} [PyNum K] (ρ : Rho K) (g : α → β) :
    ∀ t : Tree α, (t.map g).denote ρ = g (t.denote ρ)
  | leaf a => rfl
  | node c t f => by
    simp only [map, denote]
    split
    · exact denote_map ρ g (t ())
    · exact denote_map ρ g (f ())
end Tree

/-! ### observations of a result -/

/-- what is observed of a run: the returned value and / or chosen parts of the final state, still
as terms; or the error -/
inductive Obs where
  | bool (t : BTerm)
  | int (t : ITerm)
  | num (t : NTerm)
  | none
  | ref (a : Nat)
  | str (s : String)
  | other
  | absent
  | tuple (l : List Obs)
  | err (e : Err)

def Obs.ofVal : Val → Obs
  | .bool t => .bool t
  | .int t => .int t
  | .num t => .num t
  | .none => .none
  | .ref a => .ref a
  | .str s => .str s
  | _ => .other

def Obs.ofOpt : Option Val → Obs
  | some v => Obs.ofVal v
  | Option.none => .absent

/-- the default observation: the returned value, the state dropped -/
def obs : Except Err (Val × St) → Obs
  | .ok (v, _) => Obs.ofVal v
  | .error e => .err e

/-- the concrete reading of an observation under a valuation -/
inductive CObs (K : Type) where
  | bool (b : Bool)
  | int (i : Int)
  | num (x : K)
  | none
  | ref (a : Nat)
  | str (s : String)
  | other
  | absent
  | tuple (l : List (CObs K))
  | err (e : Err)

mutual
def Obs.eval {K : Type} [PyNum K] (ρ : Rho K) : Obs → CObs K
  | .bool t => .bool (t.eval ρ)
  | .int t => .int (t.eval ρ)
  | .num t => .num (t.eval ρ)
  | .none => .none
  | .ref a => .ref a
  | .str s => .str s
  | .other => .other
  | .absent => .absent
  | .tuple l => .tuple (Obs.evalList ρ l)
  | .err e => .err e
def Obs.evalList {K : Type} [PyNum K] (ρ : Rho K) : List Obs → List (CObs K)
  | [] => []
  | o :: os => o.eval ρ :: Obs.evalList ρ os
end

/-- the observable result of running `fn` under observation `g`, read under `ρ` -/
def resultG {K : Type} [PyNum K] (g : Except Err (Val × St) → Obs) (ρ : Rho K) (env : Env) (fuel : Nat)
    (fn : String) (args : List Val) (st : St) : CObs K :=
  (g (sem ρ env fuel fn args st)).eval ρ

/-- what `fn` returns (or raises), read under `ρ` -/
def result {K : Type} [PyNum K] (ρ : Rho K) (env : Env) (fuel : Nat) (fn : String) (args : List Val)
    (st : St) : CObs K :=
  resultG obs ρ env fuel fn args st

/-- the paths of the symbolic run under observation `g` -/
def obsPathsG (g : Except Err (Val × St) → Obs) (env : Env) (fuel : Nat) (fn : String) (args : List Val)
    (st : St) : List (List (BTerm × Bool) × Obs) :=
  ((run env fuel fn args st).map g).paths

def obsPaths (env : Env) (fuel : Nat) (fn : String) (args : List Val) (st : St) :=
  obsPathsG obs env fuel fn args st

/-- the proof pattern: a claim about the observable result follows from the claim on every path -/
theorem resultG_of_paths {K : Type} [PyNum K] (g : Except Err (Val × St) → Obs) (ρ : Rho K) (env : Env)
    (fuel : Nat) (fn : String) (args : List Val) (st : St) (Q : CObs K → Prop)
    (h : ∀ p ∈ obsPathsG g env fuel fn args st, (∀ cb ∈ p.1, cb.1.eval ρ = cb.2) → Q (p.2.eval ρ)) :
    Q (resultG g ρ env fuel fn args st) := by
  have e : resultG g ρ env fuel fn args st = (((run env fuel fn args st).map g).denote ρ).eval ρ := by
    unfold resultG sem
    exact congrArg (Obs.eval ρ) (Tree.denote_map ρ g (run env fuel fn args st)).symm
  rw [e]
  exact Tree.denote_of_paths ρ (fun (o : Obs) => Q (o.eval ρ)) _ h

/-- the same for an equation -/
theorem resultG_eq_of_paths {K : Type} [PyNum K] (g : Except Err (Val × St) → Obs) (ρ : Rho K) (env : Env)
    (fuel : Nat) (fn : String) (args : List Val) (st : St) (c : CObs K)
    (h : ∀ p ∈ obsPathsG g env fuel fn args st, (∀ cb ∈ p.1, cb.1.eval ρ = cb.2) → p.2.eval ρ = c) :
    resultG g ρ env fuel fn args st = c :=
  resultG_of_paths g ρ env fuel fn args st (fun r => r = c) h

theorem result_eq_of_paths {K : Type} [PyNum K] (ρ : Rho K) (env : Env) (fuel : Nat) (fn : String)
    (args : List Val) (st : St) (c : CObs K)
    (h : ∀ p ∈ obsPaths env fuel fn args st, (∀ cb ∈ p.1, cb.1.eval ρ = cb.2) → p.2.eval ρ = c) :
    result ρ env fuel fn args st = c :=
  resultG_eq_of_paths obs ρ env fuel fn args st c h

/-- the pruned paths (`Tree.pathsP`) of the symbolic run under observation `g` -/
def obsPathsPG (g : Except Err (Val × St) → Obs) (env : Env) (fuel : Nat) (fn : String) (args : List Val)
    (st : St) : List (List (BTerm × Bool) × Obs) :=
  ((run env fuel fn args st).map g).pathsP []

/-- the proof pattern with pruned paths -/
theorem resultG_of_pathsP {K : Type} [PyNum K] (hrefl : ∀ x : K, PyNum.beq x x = true) (g : Except Err (Val × St) → Obs) (ρ : Rho K) (env : Env)
    (fuel : Nat) (fn : String) (args : List Val) (st : St) (Q : CObs K → Prop)
    (h : ∀ p ∈ obsPathsPG g env fuel fn args st, (∀ cb ∈ p.1, cb.1.eval ρ = cb.2) → Q (p.2.eval ρ)) :
    Q (resultG g ρ env fuel fn args st) := by
  have e : resultG g ρ env fuel fn args st = (((run env fuel fn args st).map g).denote ρ).eval ρ := by
    unfold resultG sem
    exact congrArg (Obs.eval ρ) (Tree.denote_map ρ g (run env fuel fn args st)).symm
  rw [e]
  exact Tree.denote_of_pathsP hrefl ρ (fun (o : Obs) => Q (o.eval ρ)) _ [] (by simp) h

theorem resultG_eq_of_pathsP {K : Type} [PyNum K] (hrefl : ∀ x : K, PyNum.beq x x = true) (g : Except Err (Val × St) → Obs) (ρ : Rho K) (env : Env)
    (fuel : Nat) (fn : String) (args : List Val) (st : St) (c : CObs K)
    (h : ∀ p ∈ obsPathsPG g env fuel fn args st, (∀ cb ∈ p.1, cb.1.eval ρ = cb.2) → p.2.eval ρ = c) :
    resultG g ρ env fuel fn args st = c :=
  resultG_of_pathsP hrefl g ρ env fuel fn args st (fun r => r = c) h

/-- after `apply result_eq_of_paths` and `show ∀ p ∈ <paths def>, _`: rewrite with the normal form
of the paths (a `rfl` theorem), split into one goal per path (an implication from the path's conditions) -/
macro "py_paths " t:term : tactic =>
  `(tactic| (rw [$t:term]
             simp only [List.forall_mem_cons, List.not_mem_nil, false_imp_iff, implies_true, and_true]
             repeat' apply And.intro))

end Pams.Py
